#!/usr/bin/env python3
"""C14 generator: programs in which exactly ONE operation fails at a generator-known line inside a
generator-known call chain (python3 stdlib only, deterministic from (seed, index)).

A *scenario* is described by a small spec (plain dict, JSON-able; the corpus stores such specs):
    kind    what fails: div0-32 div0-64 mod0-32 mod0-64 ovf-{add,sub,mul,neg,div,mod}-{32,64} shl-32 ... sar-64
            idx-load idx-store assert unwrap-none vec-get vec-set fatal unreachable
    chain   link kinds from the function `main` calls (outermost) to the function that contains the failing
            operation (innermost), 1..4 of: plain generic method smethod static trait closure inline
            (`inline` = a function whose whole body is one expression: the optimizer inlines it)
    says    per link: does the function print a line before it goes on (stdout that must be delivered)
    pre     number of complete lines `main` prints before the call
    partial does `main` print a partial line (no newline) right before the call
    style   'let' | 'expr': the failing operation is the initialiser of a `let` or the whole body
    vsel    integer that selects the operand values / generic type argument

A *program* holds 1..n scenarios: `main` reads which one to run from its first command-line argument
(`let which = std::argv(0).to_int64().get_or_panic()`; with one scenario there is no argument), so one
compile + link serves several trapping runs.  Every scenario has its own functions; operands are literal
constants of its branch of `main`, so the optimizer sees them.

Programs are built with the AST of gen/progs.py (imported as a library), which prints the Dora text with one
statement per line and fills in every node's line, and the S-expression twin for the Lean reference
interpreter (Mini).  The twin of scenario k is the program's twin with the `which` initialiser replaced by k.

Expected report of a scenario (by construction):
    message, status      first stderr line and exit status
    frames               [(display name, line, link kind)] innermost first, `main` last; frames of the standard
                         library that the failing operation passes through (Option::get_or_panic, Vec index)
                         come first as (regex, std file, line found by reading the std source)
    stdout               everything printed before the failing operation (may end in a partial line)
"""
import os
import random
import re
import sys

sys.path.insert(0, os.path.dirname(os.path.abspath(__file__)))
import progs as P  # noqa: E402

N = P.N
T32, T64 = P.T_I32, P.T_I64

TRAP_IDS = {'div0': 0, 'assert': 1, 'index': 2, 'nil': 3, 'cast': 4, 'oom': 5, 'stackoverflow': 6, 'illegal': 7,
            'overflow': 8, 'shift': 9}
TRAP_MSG = {'div0': 'division by 0', 'assert': 'assert failed', 'index': 'array index out of bounds',
            'overflow': 'overflow', 'shift': 'shift amount out of bounds'}

ARITH = ['div0', 'mod0', 'ovf-add', 'ovf-sub', 'ovf-mul', 'ovf-neg', 'ovf-div', 'ovf-mod', 'shl', 'shr', 'sar']
KINDS = ['%s-%d' % (k, b) for k in ARITH for b in (32, 64)] + \
        ['idx-load', 'idx-store', 'assert', 'unwrap-none', 'vec-get', 'vec-set', 'fatal', 'unreachable']
LINKS = ['plain', 'generic', 'method', 'smethod', 'static', 'trait', 'closure', 'inline']
GEN_TYPES = [(T64, 7), (P.T_BOOL, True), (P.T_STR, 'g'), (T32, 3)]


def kind_class(kind):
    """the trap / ending class of a kind (used in finding keys)"""
    k = re.sub(r'-(32|64)$', '', kind)
    if k in ('div0', 'mod0'):
        return 'div0'
    if k.startswith('ovf-'):
        return 'overflow'
    if k in ('shl', 'shr', 'sar'):
        return 'shift'
    if k in ('idx-load', 'idx-store'):
        return 'index'
    if k == 'assert':
        return 'assert'
    if k in ('unwrap-none', 'vec-get', 'vec-set', 'fatal'):
        return 'fatal'
    return 'unreachable'


# ----------------------------------------------------------------------------------------------- std source facts
def std_fatal_line(std_dir, fname, header):
    """line (1-based) of the first `fatal_error(` after the first line containing `header` in pkgs/std/<fname>"""
    lines = open(os.path.join(std_dir, fname), encoding='utf-8').read().splitlines()
    start = None
    for i, l in enumerate(lines):
        if header in l:
            start = i
            break
    if start is None:
        return None
    for j in range(start, min(start + 40, len(lines))):
        if 'fatal_error(' in lines[j]:
            return j + 1
    return None


STD_FRAMES = {
    'unwrap-none': (r'^std::primitives::<impl\[.*\] Option\[.*\]>::get_or_panic$', 'primitives.dora', 'pub fn get_or_panic(): T {'),
    'vec-get': (r'^std::collections::<impl\[.*\] IndexGet for Vec\[.*\]>::get$', 'collections.dora', 'IndexGet for Vec[T]'),
    'vec-set': (r'^std::collections::<impl\[.*\] IndexSet for Vec\[.*\]>::set$', 'collections.dora', 'IndexSet for Vec[T]'),
}


# ----------------------------------------------------------------------------------------------- the failing operation
class Op:
    """types of the two operands (P, Q) and the result (R), the argument expressions `main` passes, the statements
    of the innermost body (the node whose line is the failing line is `.mark`), and what the run must end in"""
    pass


def make_op(kind, style, vsel, tag):
    r = random.Random('c14op/%s/%s' % (kind, vsel))
    op = Op()
    m = re.match(r'^(.*)-(32|64)$', kind)
    base, bits = (m.group(1), int(m.group(2))) if m else (kind, 64)
    T = T32 if bits == 32 else T64
    mx, mn = 2 ** (bits - 1) - 1, -2 ** (bits - 1)
    op.P = op.Q = op.R = T
    op.msg_fatal = None

    def finish(e, cls):
        """e = the failing expression of type R"""
        if style == 'expr':
            op.body = lambda p, q: [e(p, q)]
        else:
            op.body = lambda p, q: [P.let('u', op.R, e(p, q)), P.var('u', op.R)]
        op.mark_index = 0
        op.cls = cls

    if base in ('div0', 'mod0'):
        op.args = (P.lit(T, r.choice([1, 7, -9, 100, mx, mn])), P.lit(T, 0))
        finish(lambda p, q: P.binop('div' if base == 'div0' else 'mod', p, q, ty=T), 'div0')
    elif base in ('ovf-add', 'ovf-sub', 'ovf-mul', 'ovf-div', 'ovf-mod'):
        o = base[4:]
        if o == 'add':
            a, b = r.choice([(mx - r.randint(0, 5), r.randint(6, 60)), (mn + r.randint(0, 5), -r.randint(6, 60)), (mx, 1)])
        elif o == 'sub':
            a, b = r.choice([(mn + r.randint(0, 5), r.randint(6, 60)), (mx - r.randint(0, 5), -r.randint(6, 60)), (mn, 1)])
        elif o == 'mul':
            k = r.randint(2, 9)
            a, b = r.choice([(mx // k + 1, k), (mn, -1), (mn // k - 1, k)])
        else:
            a, b = mn, -1
        op.args = (P.lit(T, a), P.lit(T, b))
        finish(lambda p, q: P.binop(o, p, q, ty=T), 'overflow')
    elif base == 'ovf-neg':
        op.args = (P.lit(T, mn), P.lit(T, r.randint(0, 9)))
        finish(lambda p, q: P.unop('neg', p, ty=T), 'overflow')
    elif base in ('shl', 'shr', 'sar'):
        op.Q = T32
        op.args = (P.lit(T, r.choice([1, -1, 5, mx])), P.lit(T32, r.choice([bits, bits + 1, -1, 100, -2 ** 31, 2 ** 31 - 1])))
        finish(lambda p, q: P.binop(base, p, q, ty=T), 'shift')
    elif kind in ('idx-load', 'idx-store'):
        n = r.randint(0, 5)
        et = r.choice([T64, T32])
        op.P, op.Q, op.R = P.t_array(et), T64, et
        op.args = (P.scall(op.P, 'zero', P.lit(T64, n), ty=op.P), P.lit(T64, r.choice([n, n + 3, -1, 2 ** 40, mn])))
        if kind == 'idx-load':
            finish(lambda p, q: N('index', p, q, ty=et), 'index')
        else:
            op.body = lambda p, q: [P.assign(N('index', p, q, ty=et), P.lit(et, 5)), P.lit(et, 0)]
            op.mark_index = 0
            op.cls = 'index'
    elif kind == 'assert':
        a = r.randint(-5, 5)
        op.args = (P.lit(T64, a), P.lit(T64, a + r.randint(1, 3)))
        op.body = lambda p, q: [N('assert', P.binop('eq', p, q, ty=P.T_BOOL)), P.lit(T64, 0)]
        op.mark_index = 0
        op.cls = 'assert'
    elif kind == 'unwrap-none':
        op.P = P.t_option(T64)
        op.args = (N('variant', 'Option', 'None', ty=op.P), P.lit(T64, r.randint(0, 9)))
        finish(lambda p, q: P.meth('get_or_panic', p, ty=T64), 'fatal')
        op.msg_fatal = 'cannot unwrap None.'
    elif kind in ('vec-get', 'vec-set'):
        op.P = P.t_vec(T64)
        op.args = (P.scall(op.P, 'new', ty=op.P), P.lit(T64, r.choice([0, -1, 5])))
        if kind == 'vec-get':
            finish(lambda p, q: N('index', p, q, ty=T64), 'fatal')
        else:
            op.body = lambda p, q: [P.assign(N('index', p, q, ty=T64), P.lit(T64, 5)), P.lit(T64, 0)]
            op.mark_index = 0
            op.cls = 'fatal'
        op.msg_fatal = 'index out of bounds for vector'
    elif kind in ('fatal', 'unreachable'):
        a = r.randint(-5, 5)
        op.args = (P.lit(T64, a), P.lit(T64, a))
        text = 'boom %s' % tag
        if kind == 'fatal':
            stop = P.call('fatal_error', P.lit(P.T_STR, text), ty=P.T_UNIT)
            op.msg_fatal = text
        else:
            stop = P.call('unreachable', ty=P.T_UNIT)
        # the failing call is the only statement inside the `if`; its line is the line of that statement
        op.body = lambda p, q: [N('if', P.binop('eq', p, q, ty=P.T_BOOL), P.block(stop)), p]
        op.mark_index = ('if-body', 0)
        op.cls = 'fatal' if kind == 'fatal' else 'unreachable'
    else:
        raise ValueError(kind)
    if op.cls in TRAP_MSG:
        op.message, op.status = TRAP_MSG[op.cls], 101 + TRAP_IDS[op.cls]
    elif op.cls == 'fatal':
        op.message, op.status = 'fatal error: ' + op.msg_fatal, 1
    else:
        op.message, op.status = 'unreachable code executed.', 1
    return op


# ----------------------------------------------------------------------------------------------- scenarios
class Scenario:
    pass


def build_scenario(spec, idx, decls):
    """adds the declarations of scenario `idx` to `decls`; returns (Scenario, statements for main's branch)"""
    sc = Scenario()
    sc.spec = spec
    sc.idx = idx
    kind, chain = spec['kind'], list(spec['chain'])
    says = list(spec.get('says') or [False] * len(chain))
    says += [False] * (len(chain) - len(says))
    tag = 's%d' % idx
    op = make_op(kind, spec.get('style', 'let'), spec.get('vsel', 0), tag)
    sc.op = op
    frames = []        # innermost first: [display, node (line known after printing), link kind, mini name]
    out_inner = []     # lines printed by the chain, outermost first

    def pq(i):
        return ('p%d' % i, 'q%d' % i)

    def body_of(i, pn, qn):
        """statements of link i (0 = outermost); fills `frames` for the links i.. (innermost first order is fixed later)"""
        stmts = []
        if says[i]:
            text = '%s in %d' % (tag, i)
            stmts.append(P.println(P.template(text)))
            out_inner.append((i, text + '\n'))
        p, q = P.var(pn, op.P), P.var(qn, op.Q)
        if i == len(chain) - 1:
            b = op.body(p, q)
            mi = op.mark_index
            mark = b[mi[1]].a[1].a[0] if isinstance(mi, tuple) else b[mi]
            return stmts + b, mark
        pre, callexpr = call_link(i + 1, p, q)
        if chain[i] == 'inline' and not pre and not stmts:
            return [callexpr], callexpr
        lt = P.let('r', op.R, callexpr)
        return stmts + pre + [lt, P.var('r', op.R)], lt

    def call_link(i, pe, qe):
        """declares link i and returns (statements needed before the call, the call expression)"""
        lk = chain[i]
        nm = '%s_%s%d' % (tag, {'plain': 'f', 'generic': 'g', 'method': 'm', 'smethod': 'm', 'static': 'st', 'trait': 'ap',
                                'closure': 'h', 'inline': 't'}[lk], i)
        pn, qn = pq(i)
        params = [(pn, op.P), (qn, op.Q)]
        if lk == 'closure':
            body, mark = body_of(i, pn, qn)
            fty = P.t_fn((op.P, op.Q), op.R)
            lam = N('lambda', params, op.R, P.block(*body), ty=fty)
            lt = P.let(nm, fty, lam)
            frames.append(['<lambda>', mark, lk, '<lambda>'])
            return [lt], N('callv', P.var(nm, fty), pe, qe, ty=op.R)
        body, mark = body_of(i, pn, qn)
        if lk in ('plain', 'inline'):
            decls.append(P.fn_decl(nm, params, op.R, P.block(*body)))
            frames.append([nm, mark, lk, nm])
            return [], P.call(nm, pe, qe, ty=op.R)
        if lk == 'generic':
            gt, gv = GEN_TYPES[(spec.get('vsel', 0) + i) % len(GEN_TYPES)]
            decls.append(P.fn_decl(nm, [('x%d' % i, P.t_tp('X'))] + params, op.R, P.block(*body), tparams=[('X', [])]))
            frames.append(['%s[%s]' % (nm, P.ty_dora(gt)), mark, lk, nm])
            return [], P.call(nm, ('targs', gt), P.lit(gt, gv), pe, qe, ty=op.R)
        cn = '%s_%s%d' % (tag.upper(), 'C' if lk != 'smethod' else 'S', i)
        cdecl = 'struct' if lk == 'smethod' else 'class'
        recv = N('new', cn, [('k', P.lit(T64, i))], ty=(P.t_struct(cn) if cdecl == 'struct' else P.t_class(cn)))
        decls.append(dict(k=cdecl, name=cn, fields=[('k', T64)]))
        if lk in ('method', 'smethod'):
            decls.append(dict(k='impl', type=cn, trait=None, methods=[P.fn_decl(nm, params, op.R, P.block(*body), self_kind='self')]))
            frames.append(['<impl %s>::%s' % (cn, nm), mark, lk, nm])
            return [], P.meth(nm, recv, pe, qe, ty=op.R)
        if lk == 'static':
            decls.append(dict(k='impl', type=cn, trait=None, methods=[P.fn_decl(nm, params, op.R, P.block(*body), self_kind='static')]))
            frames.append(['<impl %s>::%s' % (cn, nm), mark, lk, nm])
            return [], P.scall(P.t_class(cn), nm, pe, qe, ty=op.R)
        if lk == 'trait':
            tn = '%s_Tr%d' % (tag.upper(), i)
            decls.append(dict(k='trait', name=tn, methods=[P.fn_decl(nm, params, op.R, None, self_kind='self')]))
            decls.append(dict(k='impl', type=cn, trait=tn, methods=[P.fn_decl(nm, params, op.R, P.block(*body), self_kind='self')]))
            frames.append(['<impl %s for %s>::%s' % (tn, cn, nm), mark, lk, nm])
            return [], P.meth(nm, N('as', tn, recv, ty=P.t_trait(tn)), pe, qe, ty=op.R)
        raise ValueError(lk)

    pre, callexpr = call_link(0, op.args[0], op.args[1])
    # `frames` was appended innermost LAST-declared-first: body_of(i) recurses before link i is appended, so the
    # innermost link is appended first -> already innermost first
    branch = []
    outs = []
    text = '%s begin' % tag
    branch.append(P.println(P.template(text)))
    outs.append(text + '\n')
    for j in range(spec.get('pre', 0)):
        text = '%s line %d' % (tag, j)
        branch.append(P.println(P.template(text)))
        outs.append(text + '\n')
    branch += pre
    if spec.get('partial'):
        text = '%s partial' % tag
        branch.append(P.print_(P.template(text)))
        outs.append(text)
    rn = 'r_%s' % tag
    lt = P.let(rn, op.R, callexpr)
    branch.append(lt)
    branch.append(P.println(P.template('%s result ' % tag, P.var(rn, op.R))))
    frames.append(['main', lt, 'main', 'main'])
    sc.frames_nodes = frames
    sc.stdout_main = ''.join(outs)
    sc.stdout_chain = ''.join(t for _, t in sorted(out_inner))
    return sc, branch


class TrapProgram:
    """.name .dora .scenarios; scenario: .arg (None | str) .sexp .expect (dict) .spec .shape"""
    pass


WHICH_INIT = None


def which_init_node():
    return P.meth('get_or_panic', P.meth('to_int64', P.call('std::argv', P.lit(T32, 0), ty=P.T_STR), ty=P.t_option(T64)), ty=T64)


def build_program(name, specs, std_dir=None):
    """one compile unit with the scenarios of `specs` (a list of spec dicts)"""
    decls = []
    multi = len(specs) > 1
    main = []
    main.append(P.println(P.template('start %s' % name)))
    scs = []
    if multi:
        main.insert(0, P.let('which', T64, which_init_node()))
    for i, spec in enumerate(specs, 1):
        sc, branch = build_scenario(spec, i, decls)
        scs.append(sc)
        if multi:
            main.append(N('if', P.binop('eq', P.var('which', T64), P.lit(T64, i), ty=P.T_BOOL), P.block(*branch)))
        else:
            main += branch
    main.append(P.println(P.template('end %s' % name)))
    decls.append(P.fn_decl('main', [], P.T_UNIT, P.block(*main)))
    tp = TrapProgram()
    tp.name = name
    tp.decls = decls
    tp.dora = P.emit_dora(decls)
    sexp = P.emit_sexp(name, decls)
    winit = P.sx(which_init_node())
    tp.scenarios = scs
    for sc in scs:
        sc.program = tp
        sc.arg = str(sc.idx) if multi else None
        sc.sexp = sexp.replace(winit, '(i64 %d)' % sc.idx) if multi else sexp
        if multi and winit not in sexp:
            raise RuntimeError('which initialiser not found in the S-expression twin')
        frames = []
        op = sc.op
        if sc.spec['kind'] in STD_FRAMES and std_dir:
            rx, fname, header = STD_FRAMES[sc.spec['kind']]
            frames.append(dict(std=True, rx=rx, file='pkgs/std/' + fname, line=std_fatal_line(std_dir, fname, header), link='std'))
        for disp, node, lk, mini in sc.frames_nodes:
            frames.append(dict(std=False, fn=disp, line=node.line, link=lk, mini=mini))
        sc.expect = dict(message=op.message, status=op.status, frames=frames,
                         stdout='start %s\n' % name + sc.stdout_main + sc.stdout_chain, cls=op.cls)
        sc.shape = '>'.join(sc.spec['chain'])
        sc.key = '%s/%s' % (sc.spec['kind'], sc.shape)
    return tp


# ----------------------------------------------------------------------------------------------- random specs
def random_spec(r, kind=None, first_link=None, depth=None):
    kind = kind or r.choice(KINDS)
    depth = depth or r.choice([1, 2, 2, 3, 3, 4])
    chain = [r.choice(LINKS) for _ in range(depth)]
    if first_link:
        chain[r.randrange(depth)] = first_link
    return dict(kind=kind, chain=chain, says=[r.random() < 0.35 for _ in chain], pre=r.randint(0, 2),
                partial=r.random() < 0.4, style=r.choice(['let', 'expr']), vsel=r.randint(0, 999))


def gen_specs(seed, count):
    """`count` scenario specs: every kind and every link kind is used before anything repeats (so a small quick tier
    still covers every trapping kind and every call shape), the rest is random; deterministic in `seed`"""
    r = random.Random('c14/%s' % seed)
    kinds = KINDS[:]
    r.shuffle(kinds)
    links = LINKS[:]
    r.shuffle(links)
    specs = []
    for i in range(count):
        specs.append(random_spec(r, kind=kinds[i % len(kinds)], first_link=links[i % len(links)]))
    return specs


def gen_programs(seed, count, per_program=8, singles=4, std_dir=None):
    """programs for `count` scenarios: `singles` of them get a program of their own (no command-line argument: every
    operand is a compile-time constant in straight-line code), the others share compile units of `per_program`"""
    specs = gen_specs(seed, count)
    progs = []
    singles = min(singles, len(specs))
    for i in range(singles):
        progs.append(build_program('c14s%s_%d' % (seed, i), [specs[i]], std_dir))
    rest = specs[singles:]
    for j in range(0, len(rest), per_program):
        progs.append(build_program('c14m%s_%d' % (seed, j // per_program), rest[j:j + per_program], std_dir))
    return progs


if __name__ == '__main__':
    seed = sys.argv[1] if len(sys.argv) > 1 else '1'
    for p in gen_programs(seed, int(sys.argv[2]) if len(sys.argv) > 2 else 6, per_program=4, singles=1, std_dir='/repo/pkgs/std'):
        print('// ---- %s' % p.name)
        print(p.dora)
        for s in p.scenarios:
            print('// scenario %s arg=%s expect=%s' % (s.key, s.arg, s.expect))
