#!/usr/bin/env python3
"""C14 generator: programs in which exactly ONE operation fails at a generator-known line inside a
generator-known call chain (python3 stdlib only, deterministic from (seed, index)).

A *scenario* is described by a small spec (plain dict, JSON-able; the corpus stores such specs):
    kind    what fails: div0-32 div0-64 mod0-32 mod0-64 ovf-{add,sub,mul,neg,div,mod}-{32,64} shl-32 ... sar-64
            idx-load idx-store assert unwrap-none vec-get vec-set fatal unreachable
    chain   link kinds from the function `main` calls (outermost) to the function that contains the failing
            operation (innermost), 1..4 of: plain generic method smethod static trait closure inline
            (`inline` = a function whose whole body is one expression: the optimizer inlines it)
    says    per link: does the function print a line before it goes on (stdout that must be delivered)
    pre     number of complete lines `main` prints before the call
    partial does `main` print a partial line (no newline) right before the call
    style   where the failing operation sits in the innermost function:
            'let' | 'expr'   the initialiser of a `let` / the whole body (every kind)
            'ca-array' 'ca-vec' 'ca-global' 'ca-field' 'ca-sfield' 'ca-local' 'ca-captured'
                             the arithmetic of a compound assignment `target op= q` whose target is an Array element, a Vec
                             element, a global, a class field, a field of a struct local, a local, a local captured by a closure
            'ca-idxexpr'     the INDEX expression of `arr(p op q) += 1`            (64-bit arithmetic kinds)
            'ca'             `arr(q) += 5` / `vec(q) += 5` whose element load is out of bounds   (idx-load, vec-get)
            'chain2'         one of two checked operations of an unparenthesised expression: `p * 1 + q` (the `+` fails; both
                             operations start at the same source position) / `1 + p * q` (the `*` `/` `%` fails)
            'tmpl'           inside a string template `"v${p op q}"`
            'mlarg'          an argument on a line of its own of a call written over several lines
            'while-cond' 'if-cond' 'match-arm' 'return'
            Except for 'let'/'expr', the failing statement is ALWAYS followed, on later lines of the same function, by
            statements that carry a position of their own (println, a call, a checked operation that does not fail), so
            that "the next recorded position" differs from "the position of the failing operation".
    vsel    integer that selects the operand values / generic type argument

A *program* holds 1..n scenarios: `main` reads which one to run from its first command-line argument
(`let which = std::argv(0).to_int64().get_or_panic()`; with one scenario there is no argument), so one
compile + link serves several trapping runs.  Every scenario has its own functions; operands are literal
constants of its branch of `main`, so the optimizer sees them.

Programs are built with the AST of gen/progs.py (imported as a library), which prints the Dora text with one
statement per line and fills in every node's line, and the S-expression twin for the Lean reference
interpreter (Mini).  The twin of scenario k is the program's twin with the `which` initialiser replaced by k.

Expected report of a scenario (by construction):
    message, status      first stderr line and exit status
    frames               [(display name, line, link kind)] innermost first, `main` last; frames of the standard
                         library that the failing operation passes through (Option::get_or_panic, Vec index)
                         come first as (regex, std file, line found by reading the std source)
    stdout               everything printed before the failing operation (may end in a partial line)
"""
import os
import random
import re
import sys

sys.path.insert(0, os.path.dirname(os.path.abspath(__file__)))
import progs as P  # noqa: E402

N = P.N
T32, T64 = P.T_I32, P.T_I64

TRAP_IDS = {'div0': 0, 'assert': 1, 'index': 2, 'nil': 3, 'cast': 4, 'oom': 5, 'stackoverflow': 6, 'illegal': 7,
            'overflow': 8, 'shift': 9}
TRAP_MSG = {'div0': 'division by 0', 'assert': 'assert failed', 'index': 'array index out of bounds',
            'overflow': 'overflow', 'shift': 'shift amount out of bounds'}

ARITH = ['div0', 'mod0', 'ovf-add', 'ovf-sub', 'ovf-mul', 'ovf-neg', 'ovf-div', 'ovf-mod', 'shl', 'shr', 'sar']
CA_STYLES = ['ca-array', 'ca-vec', 'ca-global', 'ca-field', 'ca-sfield', 'ca-local', 'ca-captured']
EXPR_STYLES = ['tmpl', 'mlarg', 'while-cond', 'if-cond', 'match-arm', 'return']
NEW_STYLES = CA_STYLES + ['ca-idxexpr', 'ca', 'chain2'] + EXPR_STYLES
BIN_OF = {'div0': 'div', 'mod0': 'mod', 'ovf-add': 'add', 'ovf-sub': 'sub', 'ovf-mul': 'mul', 'ovf-div': 'div', 'ovf-mod': 'mod',
          'shl': 'shl', 'shr': 'shr', 'sar': 'sar'}


def styles_for(kind):
    """the styles a kind can be written in (beyond 'let' / 'expr')"""
    m = re.match(r'^(.*)-(32|64)$', kind)
    base, bits = (m.group(1), int(m.group(2))) if m else (kind, 0)
    if base in BIN_OF:
        st = CA_STYLES + EXPR_STYLES
        if bits == 64:
            st = st + ['ca-idxexpr']
        if base not in ('shl', 'shr', 'sar'):
            st = st + ['chain2']
        return st
    if base == 'ovf-neg':
        return list(EXPR_STYLES)
    if kind in ('idx-load', 'vec-get'):
        return ['ca']
    return []
KINDS = ['%s-%d' % (k, b) for k in ARITH for b in (32, 64)] + \
        ['idx-load', 'idx-store', 'assert', 'unwrap-none', 'vec-get', 'vec-set', 'fatal', 'unreachable']
LINKS = ['plain', 'generic', 'method', 'smethod', 'static', 'trait', 'closure', 'inline']
GEN_TYPES = [(T64, 7), (P.T_BOOL, True), (P.T_STR, 'g'), (T32, 3)]


def kind_class(kind):
    """the trap / ending class of a kind (used in finding keys)"""
    k = re.sub(r'-(32|64)$', '', kind)
    if k in ('div0', 'mod0'):
        return 'div0'
    if k.startswith('ovf-'):
        return 'overflow'
    if k in ('shl', 'shr', 'sar'):
        return 'shift'
    if k in ('idx-load', 'idx-store'):
        return 'index'
    if k == 'assert':
        return 'assert'
    if k in ('unwrap-none', 'vec-get', 'vec-set', 'fatal'):
        return 'fatal'
    return 'unreachable'


# ----------------------------------------------------------------------------------------------- std source facts
def std_fatal_line(std_dir, fname, header):
    """line (1-based) of the first `fatal_error(` after the first line containing `header` in pkgs/std/<fname>"""
    lines = open(os.path.join(std_dir, fname), encoding='utf-8').read().splitlines()
    start = None
    for i, l in enumerate(lines):
        if header in l:
            start = i
            break
    if start is None:
        return None
    for j in range(start, min(start + 40, len(lines))):
        if 'fatal_error(' in lines[j]:
            return j + 1
    return None


STD_FRAMES = {
    'unwrap-none': (r'^std::primitives::<impl\[.*\] Option\[.*\]>::get_or_panic$', 'primitives.dora', 'pub fn get_or_panic(): T {'),
    'vec-get': (r'^std::collections::<impl\[.*\] IndexGet for Vec\[.*\]>::get$', 'collections.dora', 'IndexGet for Vec[T]'),
    'vec-set': (r'^std::collections::<impl\[.*\] IndexSet for Vec\[.*\]>::set$', 'collections.dora', 'IndexSet for Vec[T]'),
}


# ----------------------------------------------------------------------------------------------- the failing operation
class Op:
    """types of the two operands (P, Q) and the result (R), the argument expressions `main` passes, the statements
    of the innermost body (the node whose line is the failing line is `.mark`), and what the run must end in"""
    pass


def after_stmts(tag, vsel):
    """statements that follow the failing one on later lines: each carries a position of its own"""
    say = P.println(P.template('%s after' % tag))
    calc = P.let('w_%s' % tag, T64, P.binop('add', P.lit(T64, 1 + vsel % 5), P.lit(T64, 2), ty=T64))
    return [[say], [calc, say], [say, calc]][vsel % 3]


def styled_body(op, style, T, e, bop, tag, vsel, decls):
    """op.body for the styles beyond 'let'/'expr'. e(p, q) builds the failing expression (type T); bop = its binary operator
    name or None (unary). The body returns (statements, node whose line is the failing line)."""
    after = lambda: after_stmts(tag, vsel)           # fresh nodes per call

    def ca(target_pre, target, result):
        """pre statements, the compound assignment `target op= q`, the statements after, the value"""
        def body(p, q):
            st = P.cassign(bop, target(), q)
            return target_pre(p) + [st] + after() + [result()], st
        return body

    if style == 'ca-array':
        at = P.t_array(T)
        el = lambda: N('index', P.var('arr', at), P.lit(T64, 1), ty=T)
        op.body = ca(lambda p: [P.let('arr', at, P.scall(at, 'fill', P.lit(T64, 3), p, ty=at))], el, el)
    elif style == 'ca-vec':
        vt = P.t_vec(T)
        el = lambda: N('index', P.var('vec', vt), P.lit(T64, 0), ty=T)
        op.body = ca(lambda p: [P.let('vec', vt, P.scall(vt, 'new', ty=vt)), P.meth('push', P.var('vec', vt), p, ty=P.T_UNIT)], el, el)
    elif style == 'ca-global':
        gn = 'g_%s' % tag
        decls.append(dict(k='global', name=gn, ty=T, mut=True, init=P.lit(T, 0)))
        gv = lambda: P.var(gn, T)
        op.body = ca(lambda p: [P.assign(gv(), p)], gv, gv)
    elif style in ('ca-field', 'ca-sfield'):
        cn = '%s_%s' % (tag.upper(), 'K' if style == 'ca-field' else 'R')
        ct = P.t_class(cn) if style == 'ca-field' else P.t_struct(cn)
        decls.append(dict(k='class' if style == 'ca-field' else 'struct', name=cn, fields=[('w', T64), ('v', T)]))
        fl = lambda: N('field', P.var('obj', ct), 'v', ty=T)
        op.body = ca(lambda p: [P.let('obj', ct, N('new', cn, [('w', P.lit(T64, 4)), ('v', p)], ty=ct), mut=(style == 'ca-sfield'))], fl, fl)
    elif style == 'ca-local':
        lv = lambda: P.var('acc', T)
        op.body = ca(lambda p: [P.let('acc', T, p, mut=True)], lv, lv)
    elif style == 'ca-captured':
        fty = P.t_fn((), T)
        lv = lambda: P.var('acc', T)
        op.body = ca(lambda p: [P.let('acc', T, p, mut=True), P.let('peek', fty, N('lambda', [], T, P.block(lv()), ty=fty))],
                     lv, lambda: N('callv', P.var('peek', fty), ty=T))
    elif style == 'ca-idxexpr':
        at = P.t_array(T64)

        def body(p, q):
            st = P.cassign('add', N('index', P.var('arr', at), e(p, q), ty=T64), P.lit(T64, 1))
            return [P.let('arr', at, P.scall(at, 'fill', P.lit(T64, 3), P.lit(T64, 7), ty=at)), st] + after() + \
                   [N('index', P.var('arr', at), P.lit(T64, 0), ty=T64)], st
        op.body = body
    elif style == 'chain2':
        def body(p, q):
            if bop in ('add', 'sub'):
                # `p * 1 + q`: CheckedMul and CheckedAdd start at the same position; the second one fails
                inner = N('bin', 'mul', p, P.lit(T, 1), 'bare', ty=T)
                ex = N('bin', bop, inner, q, 'bare', ty=T)
            else:
                # `1 + p * q`: the multiplicative operation is evaluated first and fails; the addition never runs
                inner = N('bin', bop, p, q, 'bare', ty=T)
                ex = N('bin', 'add', P.lit(T, 1), inner, 'bare', ty=T)
            st = P.let('u', T, ex)
            return [st] + after() + [P.var('u', T)], st
        op.body = body
    elif style == 'tmpl':
        def body(p, q):
            st = P.let('txt', P.T_STR, P.template('v', e(p, q), ';'))
            return [st, P.println(P.template('%s got ' % tag, P.var('txt', P.T_STR)))] + after() + [p], st
        op.body = body
    elif style == 'mlarg':
        hn = '%s_pick' % tag
        decls.append(P.fn_decl(hn, [('a', T), ('b', T)], T, P.block(P.var('b', T))))

        def body(p, q):
            ex = e(p, q)
            st = P.let('u', T, N('mlcall', hn, p, ex, ty=T))
            return [st] + after() + [P.var('u', T)], ex
        op.body = body
    elif style == 'while-cond':
        def body(p, q):
            st = N('while', P.binop('eq', e(p, q), p, ty=P.T_BOOL),
                   P.block(P.assign(P.var('n', T64), P.binop('add', P.var('n', T64), P.lit(T64, 1), ty=T64))))
            return [P.let('n', T64, P.lit(T64, 0), mut=True), st] + after() + [p], st
        op.body = body
    elif style == 'if-cond':
        def body(p, q):
            st = N('if', P.binop('eq', e(p, q), p, ty=P.T_BOOL), P.block(P.println(P.template('%s then' % tag))))
            return [st] + after() + [p], st
        op.body = body
    elif style == 'match-arm':
        def body(p, q):
            st = P.let('u', T, e(p, q))
            arm0 = P.block(st, P.println(P.template('%s arm ' % tag, P.var('u', T))))
            arm1 = P.block(P.println(P.template('%s other' % tag)))
            m = N('match', P.lit(T64, vsel % 3), [(('plit', T64, vsel % 3), arm0), (('pwild',), arm1)])
            return [m] + after() + [p], st
        op.body = body
    elif style == 'return':
        def body(p, q):
            st = N('return', e(p, q))
            return [N('if', P.binop('eq', p, p, ty=P.T_BOOL), P.block(st))] + after() + [p], st
        op.body = body
    else:
        raise ValueError(style)


def make_op(kind, style, vsel, tag, decls):
    r = random.Random('c14op/%s/%s' % (kind, vsel))
    op = Op()
    m = re.match(r'^(.*)-(32|64)$', kind)
    base, bits = (m.group(1), int(m.group(2))) if m else (kind, 64)
    T = T32 if bits == 32 else T64
    mx, mn = 2 ** (bits - 1) - 1, -2 ** (bits - 1)
    op.P = op.Q = op.R = T
    op.msg_fatal = None

    if style not in ('let', 'expr') and style not in styles_for(kind):
        raise ValueError('style %s cannot be written for kind %s' % (style, kind))

    def finish(e, cls):
        """e = the failing expression of type R"""
        if style == 'expr':
            op.body = lambda p, q: [e(p, q)]
        elif style == 'let':
            op.body = lambda p, q: [P.let('u', op.R, e(p, q)), P.var('u', op.R)]
        else:
            styled_body(op, style, T, e, BIN_OF.get(base), tag, vsel, decls)
        op.mark_index = 0
        op.cls = cls

    if base in ('div0', 'mod0'):
        op.args = (P.lit(T, r.choice([1, 7, -9, 100, mx, mn])), P.lit(T, 0))
        finish(lambda p, q: P.binop('div' if base == 'div0' else 'mod', p, q, ty=T), 'div0')
    elif base in ('ovf-add', 'ovf-sub', 'ovf-mul', 'ovf-div', 'ovf-mod'):
        o = base[4:]
        if o == 'add':
            a, b = r.choice([(mx - r.randint(0, 5), r.randint(6, 60)), (mn + r.randint(0, 5), -r.randint(6, 60)), (mx, 1)])
        elif o == 'sub':
            a, b = r.choice([(mn + r.randint(0, 5), r.randint(6, 60)), (mx - r.randint(0, 5), -r.randint(6, 60)), (mn, 1)])
        elif o == 'mul':
            k = r.randint(2, 9)
            a, b = r.choice([(mx // k + 1, k), (mn, -1), (mn // k - 1, k)])
        else:
            a, b = mn, -1
        op.args = (P.lit(T, a), P.lit(T, b))
        finish(lambda p, q: P.binop(o, p, q, ty=T), 'overflow')
    elif base == 'ovf-neg':
        op.args = (P.lit(T, mn), P.lit(T, r.randint(0, 9)))
        finish(lambda p, q: P.unop('neg', p, ty=T), 'overflow')
    elif base in ('shl', 'shr', 'sar'):
        op.Q = T32
        op.args = (P.lit(T, r.choice([1, -1, 5, mx])), P.lit(T32, r.choice([bits, bits + 1, -1, 100, -2 ** 31, 2 ** 31 - 1])))
        finish(lambda p, q: P.binop(base, p, q, ty=T), 'shift')
    elif kind in ('idx-load', 'idx-store'):
        n = r.randint(0, 5)
        et = r.choice([T64, T32])
        op.P, op.Q, op.R = P.t_array(et), T64, et
        op.args = (P.scall(op.P, 'zero', P.lit(T64, n), ty=op.P), P.lit(T64, r.choice([n, n + 3, -1, 2 ** 40, mn])))
        if kind == 'idx-load' and style == 'ca':
            def body(p, q):
                st = P.cassign('add', N('index', p, q, ty=et), P.lit(et, 5))
                return [st] + after_stmts(tag, vsel) + [P.lit(et, 0)], st
            op.body = body
            op.mark_index = 0
            op.cls = 'index'
        elif kind == 'idx-load':
            finish(lambda p, q: N('index', p, q, ty=et), 'index')
        else:
            op.body = lambda p, q: [P.assign(N('index', p, q, ty=et), P.lit(et, 5)), P.lit(et, 0)]
            op.mark_index = 0
            op.cls = 'index'
    elif kind == 'assert':
        a = r.randint(-5, 5)
        op.args = (P.lit(T64, a), P.lit(T64, a + r.randint(1, 3)))
        op.body = lambda p, q: [N('assert', P.binop('eq', p, q, ty=P.T_BOOL)), P.lit(T64, 0)]
        op.mark_index = 0
        op.cls = 'assert'
    elif kind == 'unwrap-none':
        op.P = P.t_option(T64)
        op.args = (N('variant', 'Option', 'None', ty=op.P), P.lit(T64, r.randint(0, 9)))
        finish(lambda p, q: P.meth('get_or_panic', p, ty=T64), 'fatal')
        op.msg_fatal = 'cannot unwrap None.'
    elif kind in ('vec-get', 'vec-set'):
        op.P = P.t_vec(T64)
        op.args = (P.scall(op.P, 'new', ty=op.P), P.lit(T64, r.choice([0, -1, 5])))
        if kind == 'vec-get' and style == 'ca':
            def body(p, q):
                st = P.cassign('add', N('index', p, q, ty=T64), P.lit(T64, 5))
                return [st] + after_stmts(tag, vsel) + [P.lit(T64, 0)], st
            op.body = body
            op.mark_index = 0
            op.cls = 'fatal'
        elif kind == 'vec-get':
            finish(lambda p, q: N('index', p, q, ty=T64), 'fatal')
        else:
            op.body = lambda p, q: [P.assign(N('index', p, q, ty=T64), P.lit(T64, 5)), P.lit(T64, 0)]
            op.mark_index = 0
            op.cls = 'fatal'
        op.msg_fatal = 'index out of bounds for vector'
    elif kind in ('fatal', 'unreachable'):
        a = r.randint(-5, 5)
        op.args = (P.lit(T64, a), P.lit(T64, a))
        text = 'boom %s' % tag
        if kind == 'fatal':
            stop = P.call('fatal_error', P.lit(P.T_STR, text), ty=P.T_UNIT)
            op.msg_fatal = text
        else:
            stop = P.call('unreachable', ty=P.T_UNIT)
        # the failing call is the only statement inside the `if`; its line is the line of that statement
        op.body = lambda p, q: [N('if', P.binop('eq', p, q, ty=P.T_BOOL), P.block(stop)), p]
        op.mark_index = ('if-body', 0)
        op.cls = 'fatal' if kind == 'fatal' else 'unreachable'
    else:
        raise ValueError(kind)
    if op.cls in TRAP_MSG:
        op.message, op.status = TRAP_MSG[op.cls], 101 + TRAP_IDS[op.cls]
    elif op.cls == 'fatal':
        op.message, op.status = 'fatal error: ' + op.msg_fatal, 1
    else:
        op.message, op.status = 'unreachable code executed.', 1
    return op


# ----------------------------------------------------------------------------------------------- scenarios
class Scenario:
    pass


def build_scenario(spec, idx, decls):
    """adds the declarations of scenario `idx` to `decls`; returns (Scenario, statements for main's branch)"""
    sc = Scenario()
    sc.spec = spec
    sc.idx = idx
    kind, chain = spec['kind'], list(spec['chain'])
    says = list(spec.get('says') or [False] * len(chain))
    says += [False] * (len(chain) - len(says))
    tag = 's%d' % idx
    op = make_op(kind, spec.get('style', 'let'), spec.get('vsel', 0), tag, decls)
    sc.op = op
    frames = []        # innermost first: [display, node (line known after printing), link kind, mini name]
    out_inner = []     # lines printed by the chain, outermost first

    def pq(i):
        return ('p%d' % i, 'q%d' % i)

    def body_of(i, pn, qn):
        """statements of link i (0 = outermost); fills `frames` for the links i.. (innermost first order is fixed later)"""
        stmts = []
        if says[i]:
            text = '%s in %d' % (tag, i)
            stmts.append(P.println(P.template(text)))
            out_inner.append((i, text + '\n'))
        p, q = P.var(pn, op.P), P.var(qn, op.Q)
        if i == len(chain) - 1:
            b = op.body(p, q)
            if isinstance(b, tuple):
                b, mark = b
                return stmts + b, mark
            mi = op.mark_index
            mark = b[mi[1]].a[1].a[0] if isinstance(mi, tuple) else b[mi]
            return stmts + b, mark
        pre, callexpr = call_link(i + 1, p, q)
        if chain[i] == 'inline' and not pre and not stmts:
            return [callexpr], callexpr
        lt = P.let('r', op.R, callexpr)
        return stmts + pre + [lt, P.var('r', op.R)], lt

    def call_link(i, pe, qe):
        """declares link i and returns (statements needed before the call, the call expression)"""
        lk = chain[i]
        nm = '%s_%s%d' % (tag, {'plain': 'f', 'generic': 'g', 'method': 'm', 'smethod': 'm', 'static': 'st', 'trait': 'ap',
                                'closure': 'h', 'inline': 't'}[lk], i)
        pn, qn = pq(i)
        params = [(pn, op.P), (qn, op.Q)]
        if lk == 'closure':
            body, mark = body_of(i, pn, qn)
            fty = P.t_fn((op.P, op.Q), op.R)
            lam = N('lambda', params, op.R, P.block(*body), ty=fty)
            lt = P.let(nm, fty, lam)
            frames.append(['<lambda>', mark, lk, '<lambda>'])
            return [lt], N('callv', P.var(nm, fty), pe, qe, ty=op.R)
        body, mark = body_of(i, pn, qn)
        if lk in ('plain', 'inline'):
            decls.append(P.fn_decl(nm, params, op.R, P.block(*body)))
            frames.append([nm, mark, lk, nm])
            return [], P.call(nm, pe, qe, ty=op.R)
        if lk == 'generic':
            gt, gv = GEN_TYPES[(spec.get('vsel', 0) + i) % len(GEN_TYPES)]
            decls.append(P.fn_decl(nm, [('x%d' % i, P.t_tp('X'))] + params, op.R, P.block(*body), tparams=[('X', [])]))
            frames.append(['%s[%s]' % (nm, P.ty_dora(gt)), mark, lk, nm])
            return [], P.call(nm, ('targs', gt), P.lit(gt, gv), pe, qe, ty=op.R)
        cn = '%s_%s%d' % (tag.upper(), 'C' if lk != 'smethod' else 'S', i)
        cdecl = 'struct' if lk == 'smethod' else 'class'
        recv = N('new', cn, [('k', P.lit(T64, i))], ty=(P.t_struct(cn) if cdecl == 'struct' else P.t_class(cn)))
        decls.append(dict(k=cdecl, name=cn, fields=[('k', T64)]))
        if lk in ('method', 'smethod'):
            decls.append(dict(k='impl', type=cn, trait=None, methods=[P.fn_decl(nm, params, op.R, P.block(*body), self_kind='self')]))
            frames.append(['<impl %s>::%s' % (cn, nm), mark, lk, nm])
            return [], P.meth(nm, recv, pe, qe, ty=op.R)
        if lk == 'static':
            decls.append(dict(k='impl', type=cn, trait=None, methods=[P.fn_decl(nm, params, op.R, P.block(*body), self_kind='static')]))
            frames.append(['<impl %s>::%s' % (cn, nm), mark, lk, nm])
            return [], P.scall(P.t_class(cn), nm, pe, qe, ty=op.R)
        if lk == 'trait':
            tn = '%s_Tr%d' % (tag.upper(), i)
            decls.append(dict(k='trait', name=tn, methods=[P.fn_decl(nm, params, op.R, None, self_kind='self')]))
            decls.append(dict(k='impl', type=cn, trait=tn, methods=[P.fn_decl(nm, params, op.R, P.block(*body), self_kind='self')]))
            frames.append(['<impl %s for %s>::%s' % (tn, cn, nm), mark, lk, nm])
            return [], P.meth(nm, N('as', tn, recv, ty=P.t_trait(tn)), pe, qe, ty=op.R)
        raise ValueError(lk)

    pre, callexpr = call_link(0, op.args[0], op.args[1])
    # `frames` was appended innermost LAST-declared-first: body_of(i) recurses before link i is appended, so the
    # innermost link is appended first -> already innermost first
    branch = []
    outs = []
    text = '%s begin' % tag
    branch.append(P.println(P.template(text)))
    outs.append(text + '\n')
    for j in range(spec.get('pre', 0)):
        text = '%s line %d' % (tag, j)
        branch.append(P.println(P.template(text)))
        outs.append(text + '\n')
    branch += pre
    if spec.get('partial'):
        text = '%s partial' % tag
        branch.append(P.print_(P.template(text)))
        outs.append(text)
    rn = 'r_%s' % tag
    lt = P.let(rn, op.R, callexpr)
    branch.append(lt)
    branch.append(P.println(P.template('%s result ' % tag, P.var(rn, op.R))))
    frames.append(['main', lt, 'main', 'main'])
    sc.frames_nodes = frames
    sc.stdout_main = ''.join(outs)
    sc.stdout_chain = ''.join(t for _, t in sorted(out_inner))
    return sc, branch


class TrapProgram:
    """.name .dora .scenarios; scenario: .arg (None | str) .sexp .expect (dict) .spec .shape"""
    pass


WHICH_INIT = None


def which_init_node():
    return P.meth('get_or_panic', P.meth('to_int64', P.call('std::argv', P.lit(T32, 0), ty=P.T_STR), ty=P.t_option(T64)), ty=T64)


def build_program(name, specs, std_dir=None):
    """one compile unit with the scenarios of `specs` (a list of spec dicts)"""
    decls = []
    multi = len(specs) > 1
    main = []
    main.append(P.println(P.template('start %s' % name)))
    scs = []
    if multi:
        main.insert(0, P.let('which', T64, which_init_node()))
    for i, spec in enumerate(specs, 1):
        sc, branch = build_scenario(spec, i, decls)
        scs.append(sc)
        if multi:
            main.append(N('if', P.binop('eq', P.var('which', T64), P.lit(T64, i), ty=P.T_BOOL), P.block(*branch)))
        else:
            main += branch
    main.append(P.println(P.template('end %s' % name)))
    decls.append(P.fn_decl('main', [], P.T_UNIT, P.block(*main)))
    tp = TrapProgram()
    tp.name = name
    tp.decls = decls
    tp.dora = P.emit_dora(decls)
    sexp = P.emit_sexp(name, decls)
    winit = P.sx(which_init_node())
    tp.scenarios = scs
    for sc in scs:
        sc.program = tp
        sc.arg = str(sc.idx) if multi else None
        sc.sexp = sexp.replace(winit, '(i64 %d)' % sc.idx) if multi else sexp
        if multi and winit not in sexp:
            raise RuntimeError('which initialiser not found in the S-expression twin')
        frames = []
        op = sc.op
        if sc.spec['kind'] in STD_FRAMES and std_dir:
            rx, fname, header = STD_FRAMES[sc.spec['kind']]
            frames.append(dict(std=True, rx=rx, file='pkgs/std/' + fname, line=std_fatal_line(std_dir, fname, header), link='std'))
        for disp, node, lk, mini in sc.frames_nodes:
            frames.append(dict(std=False, fn=disp, line=node.line, link=lk, mini=mini))
        sc.expect = dict(message=op.message, status=op.status, frames=frames,
                         stdout='start %s\n' % name + sc.stdout_main + sc.stdout_chain, cls=op.cls)
        sc.shape = '>'.join(sc.spec['chain'])
        st = sc.spec.get('style', 'let')
        sc.key = '%s/%s' % (sc.spec['kind'], sc.shape) + ('' if st in ('let', 'expr') else '/' + st)
    return tp


# ----------------------------------------------------------------------------------------------- random specs
def random_spec(r, kind=None, first_link=None, depth=None, style=None):
    kind = kind or r.choice(KINDS)
    depth = depth or r.choice([1, 2, 2, 3, 3, 4])
    chain = [r.choice(LINKS) for _ in range(depth)]
    if first_link:
        chain[r.randrange(depth)] = first_link
    return dict(kind=kind, chain=chain, says=[r.random() < 0.35 for _ in chain], pre=r.randint(0, 2),
                partial=r.random() < 0.4, style=style or r.choice(['let', 'expr']), vsel=r.randint(0, 999))


def gen_specs(seed, count):
    """`count` scenario specs: every kind (styles 'let'/'expr') and every link kind is used before anything repeats (so a
    small quick tier still covers every trapping kind and every call shape), then every style of NEW_STYLES once with a kind
    it can be written for, the rest alternates between a random new style and a random old one; deterministic in `seed`"""
    r = random.Random('c14/%s' % seed)
    kinds = KINDS[:]
    r.shuffle(kinds)
    links = LINKS[:]
    r.shuffle(links)
    r2 = random.Random('c14styles/%s' % seed)         # a stream of its own: the first len(KINDS) specs stay what they were
    styles = NEW_STYLES[:]
    r2.shuffle(styles)
    specs = []
    for i in range(count):
        j = i - len(kinds)
        if j < 0 or (j >= len(styles) and j % 2 == 1):
            specs.append(random_spec(r, kind=kinds[i % len(kinds)], first_link=links[i % len(links)]))
            continue
        st = styles[j] if j < len(styles) else r2.choice(NEW_STYLES)
        kd = r2.choice([k for k in KINDS if st in styles_for(k)])
        specs.append(random_spec(r2, kind=kd, first_link=links[i % len(links)], style=st))
    if count > len(kinds) + 1:
        specs[1], specs[len(kinds)] = specs[len(kinds)], specs[1]     # one of the stand-alone programs gets a new style
    return specs


def gen_programs(seed, count, per_program=8, singles=4, std_dir=None):
    """programs for `count` scenarios: `singles` of them get a program of their own (no command-line argument: every
    operand is a compile-time constant in straight-line code), the others share compile units of `per_program`"""
    specs = gen_specs(seed, count)
    progs = []
    singles = min(singles, len(specs))
    for i in range(singles):
        progs.append(build_program('c14s%s_%d' % (seed, i), [specs[i]], std_dir))
    rest = specs[singles:]
    for j in range(0, len(rest), per_program):
        progs.append(build_program('c14m%s_%d' % (seed, j // per_program), rest[j:j + per_program], std_dir))
    return progs


if __name__ == '__main__':
    seed = sys.argv[1] if len(sys.argv) > 1 else '1'
    for p in gen_programs(seed, int(sys.argv[2]) if len(sys.argv) > 2 else 6, per_program=4, singles=1, std_dir='/repo/pkgs/std'):
        print('// ---- %s' % p.name)
        print(p.dora)
        for s in p.scenarios:
            print('// scenario %s arg=%s expect=%s' % (s.key, s.arg, s.expect))
