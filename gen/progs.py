#!/usr/bin/env python3
"""Typed random MiniDora program generator (python3 stdlib only, deterministic from a seed).

Every program is built as ONE internal AST and printed twice:
  * `prog.dora`  - Dora source (one statement per line, so every operation has a known line);
  * `prog.sexp`  - the S-expression twin read by the Lean reference interpreter `drv_c01`
                   (lean/DoraModel/Mini/Syntax.lean `readProg`), one program per line.

API (used by checks/c01.py, checks/c02.py; meant to be reused by C03/C05/C13/C14)
-------------------------------------------------------------------------------
  gen_program(seed, index, kind=None) -> Program          deterministic in (seed, index)
  Program.name, .dora (str), .sexp (str, single line), .features (set of feature-class names),
         .boundary (bool: executes a checked operation at an overflow/shift/division edge),
         .expect (None | 'trap:<kind>' | 'fatal' | 'exit:<n>': what the generator intends the end to be;
                  the reference interpreter, not this field, is the oracle), .kind
  hostile_programs() -> [Program]   C02 family: boundary-value calls of stdlib entry points (no sexp twin
                                    unless the call is inside Mini's subset; `.sexp` is None then)
  batchable(p) / batch_source([programs]) -> one Dora compile unit holding several programs as inline modules; its main
                                    runs the member named by argv(0) (one link per back end instead of one per program)
  op_lines(prog) -> [dict(fn, line, op, kind)]   C14: every operation that can trap, with function and source line;
                                    `drv_c01 <fuel> pos` prints the line and call chain where the reference run ended
  single_fault_mutants(seed, index, count) -> [RawProgram with .fault/.fault_line]   C05: one type fault each, must be rejected
  AST helpers: class N (node), ty constructors T_I32..., `emit_dora(decls)`, `emit_sexp(name, decls)`,
  `lit(ty, v)`, `call(...)` ... so a later check can assemble programs by hand and still get both twins.
  Node `.line` is filled in by `emit_dora` (1-based line of the statement that contains the node).

S-expression format
-------------------
  program := (program NAME decl*)
  decl    := (fn NAME LINE ((p T)*) T body)
           | (struct NAME (f T)*) | (class NAME (f T)*) | (enum NAME (Variant T*)*)
           | (impl TYPE TRAIT|- (method self|mutating|static NAME LINE ((p T)*) T body)*)
           | (trait NAME (sig NAME) | (method self NAME LINE ((p T)*) T body) ...)     default methods carry a body
           | (global NAME T expr)
  T       := Unit Bool Int32 Int64 UInt8 Char String NAME (Tuple T*) (Array T) (Vec T) (Option T)
             (Fn (T*) T) (TP NAME) (NAME T*)
  expr    := (unit) (bool true|false) (i32 N) (i64 N) (u8 N) (char CODEPOINT) (str HEX|-)
           | (var X) | (un neg|not e) | (bin OP a b)   OP: add sub mul div mod band bor bxor shl shr sar
                                                       eq ne lt le gt ge is isnot   (shr = >>> logical, sar = >>)
           | (andalso a b) | (orelse a b)
           | (call F e*)            top-level fn or builtin print/println/exit/unreachable/fatal_error
           | (scall T F e*)         T::F(e*)   (Array new/zero/fill/fill_with, Vec new, Int32/Int64 max_value/min_value, user statics)
           | (meth M recv e*)       recv.M(e*) (user methods, trait methods, builtin methods of primMeth / primMethExt:
                                    conversions, wrapping_* / overflowing_*, to_string_hex/binary, len_utf8, Option, String,
                                    Array/Vec size/push/pop/get/set/clone/to_array ...)
           | (callv f e*)           call of a lambda value
           | (lambda ((p T)*) T body)
           | (tuple e*) (tget e I) (new NAME e*) (field e F) (variant ENUM VARIANT e*)
           | (match e (arm pat body)*)   pat := (pwild) (pvar X) (plit lit) (ptuple pat*) (pvariant ENUM VARIANT pat*)
           | (if c t) (if c t e) (block stmt*) (let pat T e) (assign lvalue e)
           | (while c body) (for X lo hi body) (foreach X collection body) (break) (continue) (return) (return e)
           | (index a i) (template e*) (as TRAIT e) (at LINE e) (assert e)
  Option is the enum "Option" with variants Some/None.  Strings are UTF-8 in lower-case hex.

Scenarios (functions `s_xxx(g, sc, out, ctx)` registered in SCENARIOS; each sets g.feat(...) names for the evidence
histogram).  Programs with index % 9 == 4 concentrate on s_intmatch, those with index % 9 == 7 on one of NEW_SCENARIOS in
turn (s_aggarray: arrays / vectors of small tuples and structs with neighbours allocated behind them; s_charstrmatch:
literal matches on Char / String / tuples / UInt8; s_loops: range / collection / nested loops and their exits;
s_convert: conversions at their boundaries; s_fieldwidth: records with padding in every kind of home).  The typed twin of
C05 (gen/c05_mutants.py, lean/DoraModel/Typing) must know every construct a scenario emits.
"""
import random

# ----------------------------------------------------------------------------------------------- types
T_UNIT = ('Unit',)
T_BOOL = ('Bool',)
T_I32 = ('Int32',)
T_I64 = ('Int64',)
T_U8 = ('UInt8',)
T_CHAR = ('Char',)
T_STR = ('String',)


def t_tuple(*ts):
    return ('Tuple',) + tuple(ts)


def t_struct(n):
    return ('Struct', n)


def t_class(n):
    return ('Class', n)


def t_enum(n):
    return ('Enum', n)


def t_trait(n):
    return ('Trait', n)


def t_array(t):
    return ('Array', t)


def t_vec(t):
    return ('Vec', t)


def t_option(t):
    return ('Option', t)


def t_fn(ps, r):
    return ('Fn', tuple(ps), r)


def t_tp(n):
    return ('TP', n)


INT_RANGE = {T_I32: (-2 ** 31, 2 ** 31 - 1), T_I64: (-2 ** 63, 2 ** 63 - 1)}
BITS = {T_I32: 32, T_I64: 64}
PRINTABLE = (T_BOOL, T_I32, T_I64, T_U8, T_CHAR, T_STR)


def ty_dora(t):
    k = t[0]
    if k in ('Unit',):
        return '()'
    if k in ('Bool', 'Int32', 'Int64', 'UInt8', 'Char', 'String'):
        return k
    if k == 'Tuple':
        return '(' + ', '.join(ty_dora(x) for x in t[1:]) + ')'
    if k in ('Struct', 'Class', 'Enum', 'Trait', 'TP'):
        return t[1]
    if k in ('Array', 'Vec', 'Option'):
        return '%s[%s]' % (k, ty_dora(t[1]))
    if k == 'Fn':
        return '(%s): %s' % (', '.join(ty_dora(x) for x in t[1]), ty_dora(t[2]))
    raise ValueError(t)


def ty_sexp(t):
    k = t[0]
    if k in ('Unit', 'Bool', 'Int32', 'Int64', 'UInt8', 'Char', 'String'):
        return k
    if k == 'Tuple':
        return '(Tuple %s)' % ' '.join(ty_sexp(x) for x in t[1:])
    if k in ('Struct', 'Class', 'Enum', 'Trait'):
        return t[1]
    if k == 'TP':
        return '(TP %s)' % t[1]
    if k in ('Array', 'Vec', 'Option'):
        return '(%s %s)' % (k, ty_sexp(t[1]))
    if k == 'Fn':
        return '(Fn (%s) %s)' % (' '.join(ty_sexp(x) for x in t[1]), ty_sexp(t[2]))
    raise ValueError(t)


# ----------------------------------------------------------------------------------------------- AST
class N:
    """AST node: kind `k`, children/attributes `a` (list), static type `ty`, source `line`."""
    __slots__ = ('k', 'a', 'ty', 'line')

    def __init__(self, k, *a, ty=None):
        self.k = k
        self.a = list(a)
        self.ty = ty
        self.line = 0


def lit(ty, v):
    return N('lit', v, ty=ty)


def var(x, ty=None):
    return N('var', x, ty=ty)


def binop(op, a, b, ty=None):
    return N('bin', op, a, b, ty=ty)


def unop(op, a, ty=None):
    return N('un', op, a, ty=ty)


def call(f, *args, ty=None):
    return N('call', f, *args, ty=ty)


def meth(m, recv, *args, ty=None):
    return N('meth', m, recv, *args, ty=ty)


def scall(t, f, *args, ty=None):
    return N('scall', t, f, *args, ty=ty)


def template(*parts):
    """parts: str (literal text) or N"""
    return N('template', *parts, ty=T_STR)


def println(e):
    return N('call', 'println', e, ty=T_UNIT)


def print_(e):
    return N('call', 'print', e, ty=T_UNIT)


def let(x, ty, e, mut=False):
    return N('let', x, ty, e, mut)


def letp(pat, e):
    return N('letp', pat, e)


def assign(lhs, e):
    return N('assign', lhs, e)


def cassign(op, lhs, e):
    """compound assignment `lhs op= e` (op as in `bin`); its twin is `(assign lhs (bin op lhs e))`: lhs must be free of side effects"""
    return N('cassign', op, lhs, e)


def block(*ss):
    return N('block', *ss)


def hexs(s):
    b = s.encode('utf-8')
    return b.hex() if b else '-'


BIN_DORA = {'add': '+', 'sub': '-', 'mul': '*', 'div': '/', 'mod': '%', 'band': '&', 'bor': '|', 'bxor': '^',
            'shl': '<<', 'shr': '>>>', 'sar': '>>', 'eq': '==', 'ne': '!=', 'lt': '<', 'le': '<=', 'gt': '>',
            'ge': '>=', 'is': '===', 'isnot': '!=='}


def esc_str(s):
    out = []
    for ch in s:
        if ch == '"':
            out.append('\\"')
        elif ch == '\\':
            out.append('\\\\')
        elif ch == '$':
            out.append('\\$')
        elif ch == '\n':
            out.append('\\n')
        else:
            out.append(ch)
    return ''.join(out)


def lit_dora(ty, v):
    if ty == T_UNIT:
        return '()'
    if ty == T_BOOL:
        return 'true' if v else 'false'
    if ty in INT_RANGE:
        suf = 'i32' if ty == T_I32 else 'i64'
        if v == INT_RANGE[ty][0]:
            return '%s::min_value()' % ty[0]
        if v < 0:
            return '(-%d%s)' % (-v, suf)
        return '%d%s' % (v, suf)
    if ty == T_U8:
        return '%du8' % v
    if ty == T_CHAR:
        ch = chr(v)
        if ch == "'":
            return "'\\''"
        if ch == '\\':
            return "'\\\\'"
        return "'%s'" % ch
    if ty == T_STR:
        return '"%s"' % esc_str(v)
    raise ValueError(ty)


def lit_sexp(ty, v):
    if ty == T_UNIT:
        return '(unit)'
    if ty == T_BOOL:
        return '(bool %s)' % ('true' if v else 'false')
    if ty == T_I32:
        return '(i32 %d)' % v
    if ty == T_I64:
        return '(i64 %d)' % v
    if ty == T_U8:
        return '(u8 %d)' % v
    if ty == T_CHAR:
        return '(char %d)' % v
    if ty == T_STR:
        return '(str %s)' % hexs(v)
    raise ValueError(ty)


# patterns: ('pwild',) ('pvar', x) ('pmut', x) ('plit', ty, v) ('ptuple', pats...) ('pvariant', enum, variant, pats...)
def pat_dora(p):
    k = p[0]
    if k == 'pwild':
        return '_'
    if k == 'pvar':
        return p[1]
    if k == 'pmut':
        return 'mut ' + p[1]
    if k == 'plit':
        if p[1] in INT_RANGE and p[2] == INT_RANGE[p[1]][0]:
            return '-%d%s' % (-p[2], 'i32' if p[1] == T_I32 else 'i64')   # a pattern is a literal, not a call
        s = lit_dora(p[1], p[2])
        return s[1:-1] if s.startswith('(-') else s
    if k == 'ptuple':
        return '(' + ', '.join(pat_dora(x) for x in p[1:]) + ')'
    if k == 'pvariant':
        en, vr = p[1], p[2]
        head = vr if en == 'Option' else '%s::%s' % (en, vr)
        if len(p) == 3:
            return head
        return head + '(' + ', '.join(pat_dora(x) for x in p[3:]) + ')'
    raise ValueError(p)


def pat_sexp(p):
    k = p[0]
    if k == 'pwild':
        return '(pwild)'
    if k in ('pvar', 'pmut'):
        return '(pvar %s)' % p[1]
    if k == 'plit':
        return '(plit %s)' % lit_sexp(p[1], p[2])
    if k == 'ptuple':
        return '(ptuple %s)' % ' '.join(pat_sexp(x) for x in p[1:])
    if k == 'pvariant':
        return '(pvariant %s %s%s)' % (p[1], p[2], ''.join(' ' + pat_sexp(x) for x in p[3:]))
    raise ValueError(p)


class DoraEmitter:
    """Prints declarations as Dora source; one statement per line; fills N.line."""

    def __init__(self):
        self.lines = []

    def cur(self):
        return len(self.lines) + 1

    def put(self, ind, text):
        for t in ('    ' * ind + text).split('\n'):        # an `mlcall` prints several lines
            self.lines.append(t)

    # -- expressions (single line) --
    def e(self, n, line):
        n.line = line
        k = n.k
        a = n.a
        if k == 'lit':
            return lit_dora(n.ty, a[0])
        if k == 'var':
            return a[0]
        if k == 'un':
            return '(%s%s)' % ('-' if a[0] == 'neg' else '!', self.e(a[1], line))
        if k == 'bin':
            # a[3] == 'bare': no parentheses (`p * q + r`: both operations then START at the same source position)
            return ('%s %s %s' if len(a) > 3 and a[3] == 'bare' else '(%s %s %s)') % (self.e(a[1], line), BIN_DORA[a[0]], self.e(a[2], line))
        if k == 'andalso':
            return '(%s && %s)' % (self.e(a[0], line), self.e(a[1], line))
        if k == 'orelse':
            return '(%s || %s)' % (self.e(a[0], line), self.e(a[1], line))
        if k == 'call':
            f = {'exit': 'std::exit', 'fatal_error': 'std::fatal_error', 'unreachable': 'unreachable'}.get(a[0], a[0])
            targs = ''
            if len(a) > 1 and isinstance(a[1], tuple) and a[1] and a[1][0] == 'targs':
                targs = '[' + ', '.join(ty_dora(t) for t in a[1][1:]) + ']'
                rest = a[2:]
            else:
                rest = a[1:]
            return '%s%s(%s)' % (f, targs, ', '.join(self.e(x, line) for x in rest))
        if k == 'scall':
            return '%s::%s(%s)' % (ty_dora(a[0]), a[1], ', '.join(self.e(x, line) for x in a[2:]))
        if k == 'meth':
            return '%s.%s(%s)' % (self.e(a[1], line), a[0], ', '.join(self.e(x, line) for x in a[2:]))
        if k == 'callv':
            return '%s(%s)' % (self.e(a[0], line), ', '.join(self.e(x, line) for x in a[1:]))
        if k == 'mlcall':
            # call of a top-level function written over several lines, argument i on line + 1 + i, `)` on a line of its own
            # (only as the outermost expression of a statement, arguments single-line)
            return '%s(\n%s\n)' % (a[0], ',\n'.join('        ' + self.e(x, line + 1 + i) for i, x in enumerate(a[1:])))
        if k == 'lambda':
            ps, ret, body = a
            return '|%s|: %s { %s }' % (', '.join('%s: %s' % (x, ty_dora(t)) for x, t in ps), ty_dora(ret),
                                        self.inline_block(body, line))
        if k == 'tuple':
            return '(' + ', '.join(self.e(x, line) for x in a) + ')'
        if k == 'tget':
            return '%s.%d' % (self.e(a[0], line), a[1])
        if k == 'new':
            # a = [name, [(field, expr)...]]
            return '%s(%s)' % (a[0], ', '.join('%s = %s' % (f, self.e(x, line)) for f, x in a[1]))
        if k == 'field':
            return '%s.%s' % (self.e(a[0], line), a[1])
        if k == 'variant':
            en, vr = a[0], a[1]
            args = a[2:]
            if en == 'Option':
                t = ty_dora(n.ty[1])
                return 'Some[%s](%s)' % (t, self.e(args[0], line)) if vr == 'Some' else 'None[%s]' % t
            if not args:
                return '%s::%s' % (en, vr)
            return '%s::%s(%s)' % (en, vr, ', '.join(self.e(x, line) for x in args))
        if k == 'match':
            return 'match %s { %s }' % (self.e(a[0], line), ', '.join(
                '%s => %s' % (pat_dora(p), self.arm_inline(b, line)) for p, b in a[1]))
        if k == 'if':
            s = 'if %s { %s }' % (self.e(a[0], line), self.inline_block(a[1], line))
            if len(a) > 2 and a[2] is not None:
                s += ' else { %s }' % self.inline_block(a[2], line)
            return s
        if k == 'block':
            return '{ %s }' % self.inline_block(n, line)
        if k == 'index':
            return '%s(%s)' % (self.e(a[0], line), self.e(a[1], line))
        if k == 'template':
            out = []
            for p in a:
                if isinstance(p, str):
                    out.append(esc_str(p))
                else:
                    out.append('${%s}' % self.e(p, line))
            return '"%s"' % ''.join(out)
        if k == 'as':
            return '(%s as %s)' % (self.e(a[1], line), a[0])
        if k == 'assert':
            return 'assert(%s)' % self.e(a[0], line)
        if k == 'return':
            return 'return %s' % self.e(a[0], line) if a and a[0] is not None else 'return'
        if k == 'break':
            return 'break'
        if k == 'continue':
            return 'continue'
        if k in ('let', 'letp', 'assign', 'cassign', 'while', 'for', 'foreach'):
            return self.stmt_inline(n, line)
        raise ValueError(k)

    def arm_inline(self, b, line):
        if b.k == 'block':
            return '{ %s }' % self.inline_block(b, line)
        return self.e(b, line)

    def stmt_inline(self, n, line):
        n.line = line
        k, a = n.k, n.a
        if k == 'let':
            return 'let %s%s: %s = %s' % ('mut ' if a[3] else '', a[0], ty_dora(a[1]), self.e(a[2], line))
        if k == 'letp':
            return 'let %s = %s' % (pat_dora(a[0]), self.e(a[1], line))
        if k == 'assign':
            return '%s = %s' % (self.e(a[0], line), self.e(a[1], line))
        if k == 'cassign':
            return '%s %s= %s' % (self.e(a[1], line), BIN_DORA[a[0]], self.e(a[2], line))
        if k == 'while':
            return 'while %s { %s }' % (self.e(a[0], line), self.inline_block(a[1], line))
        if k == 'for':
            return 'for %s in std::range(%s, %s) { %s }' % (a[0], self.e(a[1], line), self.e(a[2], line),
                                                            self.inline_block(a[3], line))
        if k == 'foreach':
            return 'for %s in %s { %s }' % (a[0], self.e(a[1], line), self.inline_block(a[2], line))
        return self.e(n, line)

    def inline_block(self, b, line):
        """contents of a block on one line: `s1; s2; e` (value = last expression unless it is a statement)"""
        b.line = line
        ss = b.a if b.k == 'block' else [b]
        parts = []
        for i, s in enumerate(ss):
            t = self.stmt_inline(s, line)
            last = i == len(ss) - 1
            if last and not is_stmt(s):
                parts.append(t)
            else:
                parts.append(t + ';')
        return ' '.join(parts)

    # -- statements (multi line) --
    def block_lines(self, b, ind):
        ss = b.a if b.k == 'block' else [b]
        b.line = self.cur()
        for i, s in enumerate(ss):
            self.stmt(s, ind, last=(i == len(ss) - 1))

    def stmt(self, n, ind, last=False):
        k, a = n.k, n.a
        line = self.cur()
        n.line = line
        if k == 'if' and (n.ty is None or n.ty == T_UNIT) and not getattr_inline(n):
            self.put(ind, 'if %s {' % self.e(a[0], line))
            self.block_lines(a[1], ind + 1)
            if len(a) > 2 and a[2] is not None:
                self.put(ind, '} else {')
                self.block_lines(a[2], ind + 1)
            self.put(ind, '}')
            return
        if k == 'while':
            self.put(ind, 'while %s {' % self.e(a[0], line))
            self.block_lines(a[1], ind + 1)
            self.put(ind, '}')
            return
        if k == 'for':
            self.put(ind, 'for %s in std::range(%s, %s) {' % (a[0], self.e(a[1], line), self.e(a[2], line)))
            self.block_lines(a[3], ind + 1)
            self.put(ind, '}')
            return
        if k == 'foreach':
            self.put(ind, 'for %s in %s {' % (a[0], self.e(a[1], line)))
            self.block_lines(a[2], ind + 1)
            self.put(ind, '}')
            return
        if k == 'match' and (n.ty is None or n.ty == T_UNIT):
            self.put(ind, 'match %s {' % self.e(a[0], line))
            for p, b in a[1]:
                self.put(ind + 1, '%s => {' % pat_dora(p))
                self.block_lines(b, ind + 2)
                self.put(ind + 1, '}')
            self.put(ind, '}')
            return
        text = self.stmt_inline(n, line)
        if last and not is_stmt(n):
            self.put(ind, text)
        else:
            self.put(ind, text + ';')

    # -- declarations --
    def fn(self, d, ind, in_trait=False):
        d['line'] = self.cur()
        kw = {'self': 'fn', 'mutating': 'mutating fn', 'static': 'static fn', None: 'fn'}[d.get('self')]
        tps = d.get('tparams')
        tp = ''
        if tps:
            tp = '[' + ', '.join('%s: %s' % (n, ' + '.join(bs)) if bs else n for n, bs in tps) + ']'
        ret = '' if d['ret'] == T_UNIT else ': ' + ty_dora(d['ret'])
        head = '%s %s%s(%s)%s' % (kw, d['name'], tp, ', '.join('%s: %s' % (x, ty_dora(t)) for x, t in d['params']), ret)
        if d.get('body') is None:
            self.put(ind, head + ';')
            return
        self.put(ind, head + ' {')
        self.block_lines(d['body'], ind + 1)
        self.put(ind, '}')

    def decl(self, d):
        k = d['k']
        if k == 'fn':
            self.fn(d, 0)
        elif k in ('struct', 'class'):
            self.put(0, '%s %s { %s }' % (k, d['name'], ', '.join('%s: %s' % (f, ty_dora(t)) for f, t in d['fields'])))
        elif k == 'enum':
            self.put(0, 'enum %s { %s }' % (d['name'], ', '.join(
                v if not ts else '%s(%s)' % (v, ', '.join(ty_dora(t) for t in ts)) for v, ts in d['variants'])))
        elif k == 'impl':
            if d.get('trait'):
                self.put(0, 'impl %s for %s {' % (d['trait'], d['type']))
            else:
                self.put(0, 'impl %s {' % d['type'])
            for m in d['methods']:
                self.fn(m, 1)
            self.put(0, '}')
        elif k == 'trait':
            self.put(0, 'trait %s {' % d['name'])
            for m in d['methods']:
                self.fn(m, 1, in_trait=True)
            self.put(0, '}')
        elif k == 'global':
            self.put(0, 'let %s%s: %s = %s;' % ('mut ' if d.get('mut') else '', d['name'], ty_dora(d['ty']),
                                                 self.e(d['init'], self.cur())))
        else:
            raise ValueError(k)
        self.put(0, '')


def getattr_inline(n):
    return False


def is_stmt(n):
    """statement forms need a `;` even in last position (their value is unit)"""
    return n.k in ('let', 'letp', 'assign', 'cassign', 'while', 'for', 'foreach', 'return', 'break', 'continue') or \
        (n.k == 'call' and n.a[0] in ('println', 'print')) or n.k == 'assert' or \
        (n.k in ('if', 'match') and (n.ty is None or n.ty == T_UNIT)) or (n.ty == T_UNIT and n.k in ('meth', 'call', 'callv'))


def emit_dora(decls):
    em = DoraEmitter()
    em.put(0, 'use std::string::Stringable;')
    em.put(0, '')
    for d in decls:
        em.decl(d)
    return '\n'.join(em.lines) + '\n'


# ----------------------------------------------------------------------------------------------- sexp
def sx(n):
    """expression / statement to S-expression (after emit_dora, so lines are known)"""
    k, a = n.k, n.a
    if k == 'lit':
        return lit_sexp(n.ty, a[0])
    if k == 'var':
        return '(var %s)' % a[0]
    if k == 'un':
        return '(un %s %s)' % (a[0], sx(a[1]))
    if k == 'bin':
        return '(bin %s %s %s)' % (a[0], sx(a[1]), sx(a[2]))
    if k in ('andalso', 'orelse'):
        return '(%s %s %s)' % (k, sx(a[0]), sx(a[1]))
    if k == 'call':
        rest = a[1:]
        if rest and isinstance(rest[0], tuple) and rest[0] and rest[0][0] == 'targs':
            rest = rest[1:]
        return '(call %s%s)' % (a[0], ''.join(' ' + sx(x) for x in rest))
    if k == 'scall':
        return '(scall %s %s%s)' % (ty_sexp(a[0]), a[1], ''.join(' ' + sx(x) for x in a[2:]))
    if k == 'meth':
        return '(meth %s %s%s)' % (a[0], sx(a[1]), ''.join(' ' + sx(x) for x in a[2:]))
    if k == 'callv':
        return '(callv %s%s)' % (sx(a[0]), ''.join(' ' + sx(x) for x in a[1:]))
    if k == 'lambda':
        ps, ret, body = a
        return '(lambda (%s) %s %s)' % (' '.join('(%s %s)' % (x, ty_sexp(t)) for x, t in ps), ty_sexp(ret), sx_block(body))
    if k == 'tuple':
        return '(tuple%s)' % ''.join(' ' + sx(x) for x in a)
    if k == 'tget':
        return '(tget %s %d)' % (sx(a[0]), a[1])
    if k == 'new':
        return '(new %s%s)' % (a[0], ''.join(' ' + sx(x) for _, x in a[1]))
    if k == 'field':
        return '(field %s %s)' % (sx(a[0]), a[1])
    if k == 'variant':
        return '(variant %s %s%s)' % (a[0], a[1], ''.join(' ' + sx(x) for x in a[2:]))
    if k == 'match':
        return '(match %s%s)' % (sx(a[0]), ''.join(' (arm %s %s)' % (pat_sexp(p), sx_block(b)) for p, b in a[1]))
    if k == 'if':
        if len(a) > 2 and a[2] is not None:
            return '(if %s %s %s)' % (sx(a[0]), sx_block(a[1]), sx_block(a[2]))
        return '(if %s %s)' % (sx(a[0]), sx_block(a[1]))
    if k == 'block':
        return sx_block(n)
    if k == 'let':
        return '(let (pvar %s) %s %s)' % (a[0], ty_sexp(a[1]), sx(a[2]))
    if k == 'letp':
        return '(let %s Unit %s)' % (pat_sexp(a[0]), sx(a[1]))
    if k == 'assign':
        return '(assign %s %s)' % (sx(a[0]), sx(a[1]))
    if k == 'cassign':
        return '(assign %s (bin %s %s %s))' % (sx(a[1]), a[0], sx(a[1]), sx(a[2]))
    if k == 'mlcall':
        return '(call %s%s)' % (a[0], ''.join(' (at %d %s)' % (x.line, sx(x)) for x in a[1:]))
    if k == 'while':
        return '(while %s %s)' % (sx(a[0]), sx_block(a[1]))
    if k == 'for':
        return '(for %s %s %s %s)' % (a[0], sx(a[1]), sx(a[2]), sx_block(a[3]))
    if k == 'foreach':
        return '(foreach %s %s %s)' % (a[0], sx(a[1]), sx_block(a[2]))
    if k == 'break':
        return '(break)'
    if k == 'continue':
        return '(continue)'
    if k == 'return':
        return '(return %s)' % sx(a[0]) if a and a[0] is not None else '(return)'
    if k == 'index':
        return '(index %s %s)' % (sx(a[0]), sx(a[1]))
    if k == 'template':
        return '(template%s)' % ''.join(' ' + (lit_sexp(T_STR, p) if isinstance(p, str) else sx(p)) for p in a)
    if k == 'as':
        return '(as %s %s)' % (a[0], sx(a[1]))
    if k == 'assert':
        return '(assert %s)' % sx(a[0])
    raise ValueError(k)


def sx_block(b):
    ss = b.a if b.k == 'block' else [b]
    out = []
    for s in ss:
        t = sx(s)
        out.append('(at %d %s)' % (s.line, t))
    # a block whose last element is a statement form has value unit
    if ss and is_stmt(ss[-1]) and ss[-1].k not in ('return', 'break', 'continue'):
        out.append('(unit)')
    return '(block%s)' % ''.join(' ' + x for x in out)


def sx_fn(d, kind=None):
    head = '(method %s ' % kind if kind else '(fn '
    return '%s%s %d (%s) %s %s)' % (head, d['name'], d.get('line', 0),
                                    ' '.join('(%s %s)' % (x, ty_sexp(t)) for x, t in d['params']),
                                    ty_sexp(d['ret']), sx_block(d['body']))


def emit_sexp(name, decls):
    out = []
    for d in decls:
        k = d['k']
        if k == 'fn':
            out.append(sx_fn(d))
        elif k in ('struct', 'class'):
            out.append('(%s %s%s)' % (k, d['name'], ''.join(' (%s %s)' % (f, ty_sexp(t)) for f, t in d['fields'])))
        elif k == 'enum':
            out.append('(enum %s%s)' % (d['name'], ''.join(
                ' (%s%s)' % (v, ''.join(' ' + ty_sexp(t) for t in ts)) for v, ts in d['variants'])))
        elif k == 'impl':
            out.append('(impl %s %s%s)' % (d['type'], d.get('trait') or '-',
                                          ''.join(' ' + sx_fn(m, m.get('self') or 'static') for m in d['methods'])))
        elif k == 'trait':
            ms = []
            for m in d['methods']:
                if m.get('body') is None:
                    ms.append('(sig %s)' % m['name'])
                else:
                    ms.append(sx_fn(m, 'self'))
            out.append('(trait %s%s)' % (d['name'], ''.join(' ' + m for m in ms)))
        elif k == 'global':
            out.append('(global %s %s %s)' % (d['name'], ty_sexp(d['ty']), sx(d['init'])))
    return '(program %s %s)' % (name, ' '.join(out))


def fn_decl(name, params, ret, body, self_kind=None, tparams=None):
    return dict(k='fn', name=name, params=params, ret=ret, body=body, self=self_kind, tparams=tparams)


class Program:
    def __init__(self, name, decls, features, boundary=False, expect=None, kind='mixed', sexp=True):
        self.name = name
        self.decls = decls
        self.features = set(features)
        self.boundary = boundary
        self.expect = expect
        self.kind = kind
        self.dora = emit_dora(decls)
        self.sexp = emit_sexp(name, decls) if sexp else None


# ----------------------------------------------------------------------------------------------- intervals
def iv_op(op, alo, ahi, blo, bhi):
    if op == 'add':
        return alo + blo, ahi + bhi
    if op == 'sub':
        return alo - bhi, ahi - blo
    if op == 'mul':
        c = [alo * blo, alo * bhi, ahi * blo, ahi * bhi]
        return min(c), max(c)
    raise ValueError(op)


def wrap(ty, x):
    b = BITS[ty]
    x &= (1 << b) - 1
    return x - (1 << b) if x >> (b - 1) else x


def tdiv(a, b):
    q = abs(a) // abs(b)
    return q if (a < 0) == (b < 0) else -q


def tmod(a, b):
    return a - tdiv(a, b) * b


def py_binop(ty, op, a, b):
    """exact reference for ONE checked operation on constants: ('ok', v) | ('trap', kind)"""
    lo, hi = INT_RANGE[ty]
    if op in ('add', 'sub', 'mul'):
        v = {'add': a + b, 'sub': a - b, 'mul': a * b}[op]
        return ('ok', v) if lo <= v <= hi else ('trap', 'overflow')
    if op in ('div', 'mod'):
        if b == 0:
            return ('trap', 'div0')
        if a == lo and b == -1:
            return ('trap', 'overflow')
        return ('ok', tdiv(a, b) if op == 'div' else tmod(a, b))
    if op in ('shl', 'shr', 'sar'):
        if not (0 <= b < BITS[ty]):
            return ('trap', 'shift')
        if op == 'shl':
            return ('ok', wrap(ty, a << b))
        if op == 'sar':
            return ('ok', a >> b)
        return ('ok', wrap(ty, (a & ((1 << BITS[ty]) - 1)) >> b))
    raise ValueError(op)


def boundary_consts(ty):
    lo, hi = INT_RANGE[ty]
    cs = [lo, lo + 1, lo + 2, hi, hi - 1, hi - 2, -2, -1, 0, 1, 2, lo // 2, hi // 2, hi // 2 + 1, lo // 2 - 1]
    if ty == T_I64:
        cs += [2 ** 31 - 1, 2 ** 31, -2 ** 31, -2 ** 31 - 1, 2 ** 32, 2 ** 32 - 1, 3037000499, 3037000500]
    else:
        cs += [46340, 46341, -46341, 65535, 65536]
    return cs


TEXTS = ['a', 'xy', 'dora', ' ', '', 'q-7', 'é', '€u', 'ok:', '#', 'Zz']
CHARS = [ord(c) for c in 'azAZ09 _#~'] + [0xE9, 0x20AC, 0x1F600]


class Var:
    __slots__ = ('name', 'ty', 'mut', 'iv', 'captured')

    def __init__(self, name, ty, mut=False, iv=None):
        self.name = name
        self.ty = ty
        self.mut = mut
        self.iv = iv
        self.captured = False


class Scope:
    def __init__(self, parent=None):
        self.vars = []
        self.parent = parent

    def all(self):
        s, out = self, []
        while s is not None:
            out += s.vars
            s = s.parent
        return out

    def of(self, ty):
        return [v for v in self.all() if v.ty == ty]

    def add(self, v):
        self.vars.append(v)
        return v

    def child(self):
        return Scope(self)


class Gen:
    """one program"""

    def __init__(self, rng, name):
        self.r = rng
        self.name = name
        self.decls = []
        self.features = set()
        self.boundary = False
        self.uid = 0
        self.fns = []        # callable helpers: dict(name, params=[ty], ret, iv, effect)
        self.structs = {}    # name -> [(field, ty)]
        self.classes = {}
        self.enums = {}      # name -> [(variant, [ty])]
        self.traits = {}     # name -> dict(impls=[type ty])
        self.no_calls = 0

    def feat(self, *fs):
        self.features.update(fs)

    def fresh(self, p='v'):
        self.uid += 1
        return '%s%d' % (p, self.uid)

    # ------------------------------------------------------------------ integer expressions with intervals
    def small_const(self, ty):
        r = self.r
        c = r.random()
        if c < 0.6:
            return r.randint(-20, 20)
        if c < 0.85:
            return r.choice([100, 255, 256, 1000, -1000, 4096, 65535, 12345, -77])
        return r.choice(boundary_consts(ty))

    def narrow(self, a, lo, hi, ty, bound=None):
        B = bound or (30000 if ty == T_I32 else 2 ** 30)
        if -B <= lo and hi <= B:
            return a, lo, hi
        M = self.r.choice([7, 100, 1000, 30000])
        M = min(M, B)
        self.feat('arith-mod')
        return binop('mod', a, lit(ty, M), ty=ty), -(M - 1) if lo < 0 else 0, (M - 1) if hi > 0 else 0

    def int_leaf(self, sc, ty):
        r = self.r
        cands = []
        for v in sc.all():
            if v.ty == ty and v.iv is not None:
                cands.append(('var', v))
            elif v.ty in INT_RANGE and v.ty != ty and v.iv is not None:
                cands.append(('conv', v))
            elif v.ty == T_U8 or v.ty == T_CHAR or v.ty == T_BOOL:
                cands.append(('conv', v))
            elif v.ty[0] == 'Struct':
                for f, ft in self.structs[v.ty[1]]:
                    if ft == ty:
                        cands.append(('field', v, f))
            elif v.ty[0] == 'Class':
                for f, ft in self.classes[v.ty[1]]:
                    if ft == ty:
                        cands.append(('field', v, f))
            elif v.ty[0] == 'Tuple':
                for i, ft in enumerate(v.ty[1:]):
                    if ft == ty:
                        cands.append(('tget', v, i))
        if not cands or r.random() < 0.3:
            c = self.small_const(ty)
            return lit(ty, c), c, c
        c = r.choice(cands)
        lo_t, hi_t = INT_RANGE[ty]
        if c[0] == 'var':
            v = c[1]
            return var(v.name, ty), v.iv[0], v.iv[1]
        if c[0] == 'conv':
            v = c[1]
            self.feat('conv')
            m = 'to_int32' if ty == T_I32 else 'to_int64'
            if v.ty == T_U8:
                return meth(m, var(v.name, v.ty), ty=ty), 0, 255
            if v.ty == T_CHAR:
                return meth(m, var(v.name, v.ty), ty=ty), 0, 0x10FFFF
            if v.ty == T_BOOL:
                return meth(m, var(v.name, v.ty), ty=ty), 0, 1
            lo, hi = v.iv
            if ty == T_I32 and not (lo_t <= lo and hi <= hi_t):
                lo, hi = lo_t, hi_t      # truncation
            return meth(m, var(v.name, v.ty), ty=ty), lo, hi
        if c[0] == 'field':
            self.feat('field')
            return N('field', var(c[1].name, c[1].ty), c[2], ty=ty), lo_t, hi_t
        if c[0] == 'tget':
            self.feat('tuple')
            return N('tget', var(c[1].name, c[1].ty), c[2], ty=ty), lo_t, hi_t
        raise ValueError(c)

    def shift_amount(self, sc, ty, d):
        """an Int32 expression with value in [0, bits)"""
        r = self.r
        bits = BITS[ty]
        if r.random() < 0.6:
            k = r.choice([0, 1, 2, bits // 2, bits - 2, bits - 1, r.randint(0, bits - 1)])
            return lit(T_I32, k), k, k
        e, lo, hi = self.int_expr(sc, T_I32, d - 1)
        return binop('band', e, lit(T_I32, bits - 1), ty=T_I32), 0, bits - 1

    def int_expr(self, sc, ty, d):
        r = self.r
        lo_t, hi_t = INT_RANGE[ty]
        if d <= 0 or r.random() < 0.2:
            return self.int_leaf(sc, ty)
        c = r.random()
        if c < 0.40:
            op = r.choice(['add', 'sub', 'mul'])
            a, alo, ahi = self.int_expr(sc, ty, d - 1)
            b, blo, bhi = self.int_expr(sc, ty, d - 1)
            lo, hi = iv_op(op, alo, ahi, blo, bhi)
            if lo < lo_t or hi > hi_t:
                if r.random() < 0.4:
                    self.feat('wrapping')
                    return meth('wrapping_' + op, a, b, ty=ty), lo_t, hi_t
                a, alo, ahi = self.narrow(a, alo, ahi, ty)
                b, blo, bhi = self.narrow(b, blo, bhi, ty)
                lo, hi = iv_op(op, alo, ahi, blo, bhi)
            else:
                if alo == ahi and blo == bhi and (lo - lo_t <= 2 or hi_t - hi <= 2):
                    self.boundary = True
            self.feat('arith32' if ty == T_I32 else 'arith64')
            return binop(op, a, b, ty=ty), lo, hi
        if c < 0.52:
            op = r.choice(['div', 'mod'])
            a, alo, ahi = self.int_expr(sc, ty, d - 1)
            if r.random() < 0.6:
                k = r.choice([1, 2, 3, 7, 10, 16, 255, 1000, hi_t, -2, -3, -10, lo_t])
                b, blo, bhi = lit(ty, k), k, k
            else:
                e, elo, ehi = self.int_expr(sc, ty, d - 1)
                b = binop('add', binop('band', e, lit(ty, 15), ty=ty), lit(ty, 1), ty=ty)
                blo, bhi = 1, 16
                self.feat('bitop')
            self.feat('divmod')
            m = max(abs(alo), abs(ahi))
            if op == 'div':
                return binop(op, a, b, ty=ty), -m, m      # MIN / -1 excluded: divisor is never -1
            mb = max(abs(blo), abs(bhi)) - 1
            return binop(op, a, b, ty=ty), (-min(m, mb) if alo < 0 else 0), (min(m, mb) if ahi > 0 else 0)
        if c < 0.62:
            op = r.choice(['shl', 'shr', 'sar'])
            a, alo, ahi = self.int_expr(sc, ty, d - 1)
            k, klo, khi = self.shift_amount(sc, ty, d)
            self.feat('shift')
            if op == 'sar':
                return binop(op, a, k, ty=ty), (min(alo, -1) if alo < 0 else 0), max(ahi, 0)
            if op == 'shr' and alo >= 0:
                return binop(op, a, k, ty=ty), 0, ahi
            if op == 'shl' and alo >= 0 and ahi << khi <= hi_t:
                return binop(op, a, k, ty=ty), 0, ahi << khi
            return binop(op, a, k, ty=ty), lo_t, hi_t
        if c < 0.72:
            op = r.choice(['band', 'bor', 'bxor'])
            a, alo, ahi = self.int_expr(sc, ty, d - 1)
            b, blo, bhi = self.int_expr(sc, ty, d - 1)
            self.feat('bitop')
            if alo >= 0 and blo >= 0:
                if op == 'band':
                    return binop(op, a, b, ty=ty), 0, min(ahi, bhi)
                return binop(op, a, b, ty=ty), 0, (1 << max(ahi, bhi).bit_length()) - 1
            if op == 'band' and (alo >= 0 or blo >= 0):
                return binop(op, a, b, ty=ty), 0, (ahi if alo >= 0 else bhi)
            return binop(op, a, b, ty=ty), lo_t, hi_t
        if c < 0.78:
            a, alo, ahi = self.int_expr(sc, ty, d - 1)
            if r.random() < 0.3:
                self.feat('bitop')
                return unop('not', a, ty=ty), -ahi - 1, -alo - 1
            if alo == lo_t:
                self.feat('wrapping')
                return meth('wrapping_neg', a, ty=ty), lo_t, hi_t
            self.feat('arith32' if ty == T_I32 else 'arith64')
            return unop('neg', a, ty=ty), -ahi, -alo
        if c < 0.86:
            cnd = self.bool_expr(sc, d - 1)
            a, alo, ahi = self.int_expr(sc, ty, d - 1)
            b, blo, bhi = self.int_expr(sc, ty, d - 1)
            self.feat('if-expr')
            return N('if', cnd, a, b, ty=ty), min(alo, blo), max(ahi, bhi)
        fs = [f for f in self.fns if f['ret'] == ty]
        if fs and self.no_calls == 0:
            f = r.choice(fs)
            self.feat('call')
            if f.get('effect'):
                self.feat('evalorder')
                a, alo, ahi = self.int_expr(sc, ty, d - 1)
                return call(f['name'], a, ty=ty), alo, ahi
            args = [self.expr(sc, t, d - 1) for t in f['params']]
            if len(args) >= 6:
                self.feat('many-args')
            return call(f['name'], *args, ty=ty), f['iv'][0], f['iv'][1]
        return self.int_leaf(sc, ty)

    # ------------------------------------------------------------------ other expressions
    def bool_expr(self, sc, d):
        r = self.r
        if d <= 0 or r.random() < 0.15:
            vs = sc.of(T_BOOL)
            if vs and r.random() < 0.6:
                return var(r.choice(vs).name, T_BOOL)
            return lit(T_BOOL, r.random() < 0.5)
        c = r.random()
        if c < 0.55:
            ty = r.choice([T_I32, T_I64])
            a, _, _ = self.int_expr(sc, ty, d - 1)
            b, _, _ = self.int_expr(sc, ty, d - 1)
            self.feat('cmp')
            return binop(r.choice(['eq', 'ne', 'lt', 'le', 'gt', 'ge']), a, b, ty=T_BOOL)
        if c < 0.65:
            ty = r.choice([T_U8, T_CHAR])
            self.feat('cmp')
            return binop(r.choice(['eq', 'ne', 'lt', 'le', 'gt', 'ge']), self.expr(sc, ty, d - 1),
                         self.expr(sc, ty, d - 1), ty=T_BOOL)
        if c < 0.8:
            self.feat('bool')
            return N(r.choice(['andalso', 'orelse']), self.bool_expr(sc, d - 1), self.bool_expr(sc, d - 1), ty=T_BOOL)
        if c < 0.9:
            self.feat('bool')
            return unop('not', self.bool_expr(sc, d - 1), ty=T_BOOL)
        cls = [v for v in sc.all() if v.ty[0] == 'Class']
        if len(cls) >= 2:
            a = r.choice(cls)
            bs = [v for v in cls if v.ty == a.ty]
            b = r.choice(bs)
            self.feat('identity')
            return binop(r.choice(['is', 'isnot']), var(a.name, a.ty), var(b.name, b.ty), ty=T_BOOL)
        self.feat('cmp')
        return binop('eq', self.expr(sc, T_STR, d - 1), self.expr(sc, T_STR, d - 1), ty=T_BOOL)

    def expr(self, sc, ty, d):
        r = self.r
        if ty in INT_RANGE:
            return self.int_expr(sc, ty, d)[0]
        if ty == T_BOOL:
            return self.bool_expr(sc, d)
        vs = sc.of(ty)
        if vs and r.random() < 0.5:
            return var(r.choice(vs).name, ty)
        if ty == T_U8:
            if d > 0 and r.random() < 0.5:
                t = r.choice([T_I32, T_I64])
                self.feat('conv', 'u8')
                return meth('to_uint8', self.int_expr(sc, t, d - 1)[0], ty=T_U8)
            self.feat('u8')
            return lit(T_U8, r.choice([0, 1, 65, 127, 128, 200, 255]))
        if ty == T_CHAR:
            self.feat('char')
            if d > 0 and r.random() < 0.3:
                self.feat('conv')
                return meth('to_char', self.expr(sc, T_U8, d - 1), ty=T_CHAR)
            return lit(T_CHAR, r.choice(CHARS))
        if ty == T_STR:
            self.feat('string')
            c = r.random()
            if d <= 0 or c < 0.3:
                return lit(T_STR, r.choice(TEXTS))
            if c < 0.55:
                return binop('add', self.expr(sc, T_STR, d - 1), self.expr(sc, T_STR, d - 1), ty=T_STR)
            if c < 0.8:
                t = r.choice(PRINTABLE)
                self.feat('tostring')
                return meth('to_string', self.expr(sc, t, d - 1), ty=T_STR)
            self.feat('template')
            return self.tmpl([self.expr(sc, r.choice(PRINTABLE), d - 1) for _ in range(r.randint(1, 3))])
        if ty == T_UNIT:
            return lit(T_UNIT, None)
        k = ty[0]
        if k == 'Tuple':
            self.feat('tuple')
            return N('tuple', *[self.expr(sc, t, d - 1) for t in ty[1:]], ty=ty)
        if k == 'Struct':
            self.feat('struct')
            return N('new', ty[1], [(f, self.expr(sc, ft, d - 1)) for f, ft in self.structs[ty[1]]], ty=ty)
        if k == 'Class':
            self.feat('class')
            return N('new', ty[1], [(f, self.expr(sc, ft, d - 1)) for f, ft in self.classes[ty[1]]], ty=ty)
        if k == 'Enum':
            self.feat('enum')
            vr, ts = r.choice(self.enums[ty[1]])
            return N('variant', ty[1], vr, *[self.expr(sc, t, d - 1) for t in ts], ty=ty)
        if k == 'Option':
            self.feat('option')
            if r.random() < 0.7:
                return N('variant', 'Option', 'Some', self.expr(sc, ty[1], d - 1), ty=ty)
            return N('variant', 'Option', 'None', ty=ty)
        if k == 'Array':
            self.feat('array')
            n = r.randint(1, 5)
            return scall(ty, 'new', *[self.expr(sc, ty[1], d - 1) for _ in range(n)], ty=ty)
        if k == 'Trait':
            impls = self.traits[ty[1]]['impls']
            t = r.choice(impls)
            self.feat('trait-object')
            return N('as', ty[1], self.expr(sc, t, d - 1), ty=ty)
        raise ValueError(ty)

    def tmpl(self, es, sep=' '):
        parts = []
        for i, e in enumerate(es):
            if i:
                parts.append(sep)
            parts.append(e)
        return template(*parts)

    def show(self, *es, tag=None):
        parts = [tag + ':'] if tag else []
        for i, e in enumerate(es):
            if i:
                parts.append(' ')
            parts.append(e)
        return println(template(*parts))


# ----------------------------------------------------------------------------------------------- declarations
PRIMS = [T_I32, T_I64, T_BOOL, T_U8, T_CHAR]


def add_decls(g):
    """data types, traits, helper functions of one program"""
    r = g.r
    for i in range(r.randint(1, 2)):
        n = 'S%d' % i
        fs = [('f%d' % j, r.choice(PRIMS + [T_I64, T_I32])) for j in range(r.randint(2, 4))]
        if i > 0 and r.random() < 0.5:
            fs.append(('inner', t_struct('S0')))
        g.structs[n] = fs
        g.decls.append(dict(k='struct', name=n, fields=fs))
    for i in range(r.randint(1, 2)):
        n = 'C%d' % i
        fs = [('g%d' % j, r.choice([T_I64, T_I32, T_BOOL, T_I64])) for j in range(r.randint(1, 3))]
        if r.random() < 0.4:
            fs.append(('st', t_struct('S0')))
        g.classes[n] = fs
        g.decls.append(dict(k='class', name=n, fields=fs))
    for i in range(r.randint(1, 2)):
        n = 'E%d' % i
        vs = [('V%d' % j, [r.choice(PRIMS) for _ in range(r.choice([0, 1, 1, 2]))]) for j in range(r.randint(2, 4))]
        g.enums[n] = vs
        g.decls.append(dict(k='enum', name=n, variants=vs))
    # tracer functions: print their argument and return it (observable evaluation order)
    for ty, nm in ((T_I64, 'tr'), (T_I32, 'tr32')):
        body = block(println(template('<', var('x', ty), '>')), var('x', ty))
        g.decls.append(fn_decl(nm, [('x', ty)], ty, body))
    # a trait with one required and one default method, implemented by classes/structs
    tn = 'Tr0'
    impls = []
    g.decls.append(dict(k='trait', name=tn, methods=[
        dict(name='m', params=[('x', T_I64)], ret=T_I64, body=None, self='self'),
        dict(name='twice', params=[('x', T_I64)], ret=T_I64, self='self',
             body=block(meth('m', var('self'), meth('m', var('self'), var('x', T_I64), ty=T_I64), ty=T_I64)))]))
    for tname, ty, fields in [(n, t_class(n), fs) for n, fs in g.classes.items()] + \
                             [(n, t_struct(n), fs) for n, fs in g.structs.items()]:
        if r.random() < 0.75 or not impls:
            sc = Scope()
            sc.add(Var('self', ty))
            sc.add(Var('x', T_I64, iv=INT_RANGE[T_I64]))
            g.no_calls += 1
            e, lo, hi = g.int_expr(sc, T_I64, 2)
            g.no_calls -= 1
            e, lo, hi = g.narrow(e, lo, hi, T_I64, bound=1000)
            g.decls.append(dict(k='impl', type=tname, trait=tn, methods=[
                dict(name='m', params=[('x', T_I64)], ret=T_I64, body=block(e), self='self')]))
            impls.append(ty)
    g.traits[tn] = dict(impls=impls)
    # generic function with a trait bound (static dispatch, erased in Mini)
    g.decls.append(fn_decl('gapply', [('t', t_tp('T')), ('x', T_I64)], T_I64,
                           block(binop('add', meth('m', var('t'), var('x', T_I64), ty=T_I64),
                                       meth('twice', var('t'), lit(T_I64, 1), ty=T_I64), ty=T_I64)),
                           tparams=[('T', ['Tr0'])]))
    g.decls.append(fn_decl('gid', [('t', t_tp('T'))], t_tp('T'), block(var('t')), tparams=[('T', [])]))
    # mutating method on S0, plain method on C0
    s0 = g.structs['S0']
    intf = [(f, t) for f, t in s0 if t in INT_RANGE]
    if intf:
        f, t = intf[0]
        g.decls.append(dict(k='impl', type='S0', trait=None, methods=[
            dict(name='bump', params=[('d', t)], ret=T_UNIT, self='mutating',
                 body=block(assign(N('field', var('self'), f, ty=t),
                                   meth('wrapping_add', N('field', var('self'), f, ty=t), var('d', t), ty=t)))),
            dict(name='peek', params=[], ret=t, self='self', body=block(N('field', var('self'), f, ty=t)))]))
        g.s0_int = (f, t)
    else:
        g.s0_int = None
    c0 = g.classes['C0']
    intf = [(f, t) for f, t in c0 if t in INT_RANGE]
    if intf:
        f, t = intf[0]
        g.decls.append(dict(k='impl', type='C0', trait=None, methods=[
            dict(name='bump', params=[('d', t)], ret=t, self='self',
                 body=block(assign(N('field', var('self'), f, ty=t),
                                   meth('wrapping_add', N('field', var('self'), f, ty=t), var('d', t), ty=t)),
                            N('field', var('self'), f, ty=t)))]))
        g.c0_int = (f, t)
    else:
        g.c0_int = None
    # helper functions (each may call the earlier ones): many parameters = register pressure
    for i in range(r.randint(2, 4)):
        np_ = r.choice([1, 2, 3, 6, 9, 12])
        pts = [r.choice([T_I32, T_I64, T_I64, T_BOOL, T_U8]) for _ in range(np_)]
        ret = r.choice([T_I32, T_I64])
        sc = Scope()
        for j, t in enumerate(pts):
            sc.add(Var('p%d' % j, t, iv=INT_RANGE.get(t)))
        body = []
        for j in range(r.randint(0, 3)):
            t = r.choice([T_I32, T_I64])
            e, lo, hi = g.int_expr(sc, t, 2)
            nm = g.fresh('l')
            body.append(let(nm, t, e))
            sc.add(Var(nm, t, iv=(lo, hi)))
        e, lo, hi = g.int_expr(sc, ret, 3)
        if r.random() < 0.5:
            e, lo, hi = g.narrow(e, lo, hi, ret, bound=100000)
        body.append(e)
        nm = 'h%d' % i
        g.decls.append(fn_decl(nm, [('p%d' % j, t) for j, t in enumerate(pts)], ret, block(*body)))
        g.fns.append(dict(name=nm, params=pts, ret=ret, iv=(lo, hi)))
    g.fns.append(dict(name='tr', params=[T_I64], ret=T_I64, iv=None, effect=True))
    g.fns.append(dict(name='tr32', params=[T_I32], ret=T_I32, iv=None, effect=True))
    # decreasing recursion
    ret = r.choice([T_I32, T_I64])
    sc = Scope()
    sc.add(Var('n', T_I64, iv=(0, 40)))
    sc.add(Var('acc', ret, iv=INT_RANGE[ret]))
    g.no_calls += 1
    e, lo, hi = g.int_expr(sc, ret, 2)
    g.no_calls -= 1
    if r.random() < 0.5:
        rec_body = block(N('if', binop('le', var('n', T_I64), lit(T_I64, 0), ty=T_BOOL),
                           block(N('return', var('acc', ret))), None),
                         call('rec0', binop('sub', var('n', T_I64), lit(T_I64, 1), ty=T_I64), e, ty=ret))
    else:
        # non-tail: result combined after the call
        rec_body = block(N('if', binop('le', var('n', T_I64), lit(T_I64, 0), ty=T_BOOL),
                           block(N('return', var('acc', ret))), None),
                         let('sub', ret, call('rec0', binop('sub', var('n', T_I64), lit(T_I64, 1), ty=T_I64),
                                              var('acc', ret), ty=ret)),
                         meth('wrapping_add', var('sub', ret), e, ty=ret))
    g.decls.append(fn_decl('rec0', [('n', T_I64), ('acc', ret)], ret, rec_body))
    g.rec_ret = ret


# ----------------------------------------------------------------------------------------------- statements
def new_int_var(g, sc, out, mut=False, ty=None, d=3):
    r = g.r
    ty = ty or r.choice([T_I32, T_I64])
    e, lo, hi = g.int_expr(sc, ty, d)
    nm = g.fresh('m' if mut else 'v')
    if mut:
        # a mutable variable keeps a declared magnitude bound; every assignment is fitted into it
        M = r.choice([100, 1000, 30000])
        e, lo, hi = g.narrow(e, lo, hi, ty, bound=M - 1)
        lo, hi = -(M - 1), M - 1
        g.feat('let-mut')
    out.append(let(nm, ty, e, mut=mut))
    return sc.add(Var(nm, ty, mut=mut, iv=(lo, hi)))


def s_lets(g, sc, out, ctx):
    r = g.r
    for _ in range(r.randint(1, 3)):
        c = r.random()
        if c < 0.5:
            v = new_int_var(g, sc, out, mut=r.random() < 0.4)
        else:
            ty = r.choice([T_BOOL, T_U8, T_CHAR, T_STR, T_BOOL])
            nm = g.fresh('v')
            out.append(let(nm, ty, g.expr(sc, ty, 2)))
            v = sc.add(Var(nm, ty))
        out.append(g.show(var(v.name, v.ty), tag=v.name))


def s_print(g, sc, out, ctx):
    r = g.r
    es = [g.expr(sc, r.choice(PRINTABLE), 3) for _ in range(r.randint(1, 3))]
    out.append(g.show(*es))


def s_assign(g, sc, out, ctx):
    r = g.r
    ms = [v for v in sc.all() if v.mut and v.ty in INT_RANGE and not v.captured]
    if not ms:
        new_int_var(g, sc, out, mut=True)
        return
    v = r.choice(ms)
    e, lo, hi = g.int_expr(sc, v.ty, 3)
    B = v.iv[1]
    if not (-B <= lo and hi <= B):
        e = binop('mod', e, lit(v.ty, B + 1), ty=v.ty)
        g.feat('arith-mod')
    out.append(assign(var(v.name, v.ty), e))
    g.feat('assign')
    out.append(g.show(var(v.name, v.ty), tag=v.name))


def s_if(g, sc, out, ctx):
    r = g.r
    c = g.bool_expr(sc, 2)
    a = gen_block(g, sc.child(), dict(ctx, depth=ctx['depth'] + 1), r.randint(1, 3))
    b = gen_block(g, sc.child(), dict(ctx, depth=ctx['depth'] + 1), r.randint(1, 2)) if r.random() < 0.6 else None
    g.feat('if')
    out.append(N('if', c, a, b))


def s_while(g, sc, out, ctx):
    r = g.r
    i = g.fresh('i')
    n = r.randint(1, 6)
    out.append(let(i, T_I64, lit(T_I64, 0), mut=True))
    inner = sc.child()
    iv = inner.add(Var(i, T_I64, iv=(0, n)))   # read-only for generated code (not marked mut)
    body = [assign(var(i, T_I64), binop('add', var(i, T_I64), lit(T_I64, 1), ty=T_I64))]
    if r.random() < 0.4:
        g.feat('break-continue')
        k = r.randint(1, n)
        body.append(N('if', binop('eq', var(i, T_I64), lit(T_I64, k), ty=T_BOOL),
                      block(N(r.choice(['break', 'continue']))), None))
    b = gen_block(g, inner, dict(ctx, depth=ctx['depth'] + 1, loop=True), r.randint(1, 3))
    body += b.a
    g.feat('while')
    out.append(N('while', binop('lt', var(i, T_I64), lit(T_I64, n), ty=T_BOOL), block(*body)))


def s_for(g, sc, out, ctx):
    r = g.r
    i = g.fresh('k')
    lo = r.randint(-2, 3)
    hi = lo + r.randint(0, 5)
    inner = sc.child()
    inner.add(Var(i, T_I64, iv=(lo, hi)))
    b = gen_block(g, inner, dict(ctx, depth=ctx['depth'] + 1, loop=True), r.randint(1, 3))
    g.feat('for')
    out.append(N('for', i, lit(T_I64, lo), lit(T_I64, hi), b))


def s_tuple(g, sc, out, ctx):
    r = g.r
    ty = t_tuple(*[r.choice(PRIMS) for _ in range(r.randint(2, 3))])
    nm = g.fresh('t')
    out.append(let(nm, ty, g.expr(sc, ty, 2)))
    sc.add(Var(nm, ty))
    g.feat('tuple')
    out.append(g.show(*[N('tget', var(nm, ty), i, ty=t) for i, t in enumerate(ty[1:])], tag=nm))
    if r.random() < 0.5:
        names = [g.fresh('d') for _ in ty[1:]]
        out.append(letp(('ptuple',) + tuple(('pvar', x) for x in names), var(nm, ty)))
        for x, t in zip(names, ty[1:]):
            sc.add(Var(x, t, iv=INT_RANGE.get(t)))
        out.append(g.show(*[var(x, t) for x, t in zip(names, ty[1:])]))


def show_struct(g, v, sname, out, tag):
    es = []
    for f, t in g.structs[sname]:
        if t in PRINTABLE:
            es.append(N('field', v, f, ty=t))
        elif t[0] == 'Struct':
            for f2, t2 in g.structs[t[1]]:
                if t2 in PRINTABLE:
                    es.append(N('field', N('field', v, f, ty=t), f2, ty=t2))
    out.append(g.show(*es, tag=tag))


def s_struct(g, sc, out, ctx):
    """value semantics: a copy is independent of the original"""
    r = g.r
    sn = r.choice(sorted(g.structs))
    ty = t_struct(sn)
    a = g.fresh('s')
    out.append(let(a, ty, g.expr(sc, ty, 2), mut=True))
    b = g.fresh('s')
    out.append(let(b, ty, var(a, ty), mut=True))
    f, t = r.choice(g.structs[sn])
    tgt = N('field', var(r.choice([a, b]), ty), f, ty=t)
    if t[0] == 'Struct':
        f2, t2 = r.choice(g.structs[t[1]])
        tgt = N('field', tgt, f2, ty=t2)
        t = t2
    out.append(assign(tgt, g.expr(sc, t, 2)))
    g.feat('struct', 'struct-copy')
    show_struct(g, var(a, ty), sn, out, a)
    show_struct(g, var(b, ty), sn, out, b)
    sc.add(Var(a, ty))
    sc.add(Var(b, ty))
    if sn == 'S0' and g.s0_int and r.random() < 0.6:
        f, t = g.s0_int
        out.append(N('meth', 'bump', var(a, ty), g.expr(sc, t, 2), ty=T_UNIT))
        g.feat('mutating-method')
        out.append(g.show(meth('peek', var(a, ty), ty=t), meth('peek', var(b, ty), ty=t)))


def show_class(g, v, cn, out, tag):
    es = []
    for f, t in g.classes[cn]:
        if t in PRINTABLE:
            es.append(N('field', v, f, ty=t))
        elif t[0] == 'Struct':
            for f2, t2 in g.structs[t[1]]:
                if t2 in PRINTABLE:
                    es.append(N('field', N('field', v, f, ty=t), f2, ty=t2))
    out.append(g.show(*es, tag=tag))


def s_class(g, sc, out, ctx):
    """reference semantics: an alias sees the update"""
    r = g.r
    cn = r.choice(sorted(g.classes))
    ty = t_class(cn)
    a = g.fresh('c')
    out.append(let(a, ty, g.expr(sc, ty, 2)))
    b = g.fresh('c')
    out.append(let(b, ty, var(a, ty) if r.random() < 0.7 else g.expr(sc, ty, 2)))
    f, t = r.choice(g.classes[cn])
    tgt = N('field', var(b, ty), f, ty=t)
    if t[0] == 'Struct':
        f2, t2 = r.choice(g.structs[t[1]])
        tgt = N('field', tgt, f2, ty=t2)
        t = t2
    out.append(assign(tgt, g.expr(sc, t, 2)))
    g.feat('class', 'alias')
    show_class(g, var(a, ty), cn, out, a)
    show_class(g, var(b, ty), cn, out, b)
    out.append(g.show(binop('is', var(a, ty), var(b, ty), ty=T_BOOL)))
    sc.add(Var(a, ty))
    sc.add(Var(b, ty))
    if cn == 'C0' and g.c0_int and r.random() < 0.6:
        f, t = g.c0_int
        # evaluation order with heap effects: field read, then call that mutates, then read again
        e = g.tmpl([N('field', var(a, ty), f, ty=t), meth('bump', var(b, ty), g.expr(sc, t, 1), ty=t),
                    N('field', var(a, ty), f, ty=t)])
        g.feat('evalorder', 'method')
        out.append(println(e))


def s_enum(g, sc, out, ctx):
    r = g.r
    en = r.choice(sorted(g.enums))
    ty = t_enum(en)
    nm = g.fresh('e')
    out.append(let(nm, ty, g.expr(sc, ty, 2)))
    sc.add(Var(nm, ty))
    arms = []
    vs = g.enums[en]
    use_wild = r.random() < 0.3 and len(vs) > 2
    for idx, (vr, ts) in enumerate(vs):
        if use_wild and idx == len(vs) - 1:
            arms.append((('pwild',), block(println(template('other')))))
            break
        names = [g.fresh('b') for _ in ts]
        pats = [('pvar', x) if r.random() < 0.85 else ('pwild',) for x in names]
        used = [var(x, t) for x, t, p in zip(names, ts, pats) if p[0] == 'pvar']
        arms.append((('pvariant', en, vr) + tuple(pats), block(g.show(*used, tag=vr))))
    g.feat('enum', 'match')
    out.append(N('match', var(nm, ty), arms))


def s_intmatch(g, sc, out, ctx):
    """match on an integer scrutinee with literal arms: dense literal sets are lowered to jump tables (selector rebased by
    the smallest literal, range check, table), sparse ones to a binary search; selectors probe every literal, both
    neighbours of the range, the extremes of the type and values congruent to a literal modulo 2^32 / 2^8"""
    r = g.r
    ty = r.choice([T_I32, T_I64, T_I64, T_I32, T_U8])
    lo, hi = (0, 255) if ty == T_U8 else INT_RANGE[ty]
    n = r.randint(3, 9)
    dense = r.random() < 0.7
    if ty == T_U8:
        base = r.choice([0, 1, 5, 200, 255 - 2 * n])
    elif ty == T_I32:
        base = r.choice([0, 1, -1, 5, -7, 100, lo, lo + 1, hi - 2 * n, -2 * n, 65530])
    else:
        base = r.choice([0, 1, -1, 5, -7, lo, lo + 1, hi - 2 * n, 2 ** 32 - 2, 2 ** 32, -2 ** 32 - 1, 5000000000, 2 ** 31 - 3,
                         -2 ** 31 - 2])
    vals = set()
    v = base
    while len(vals) < n and v <= hi:
        vals.add(v)
        v += r.choice([1, 1, 1, 2, 3]) if dense else r.choice([1, 129, 1000, 2 ** 20, 2 ** 33 if ty == T_I64 else 70000])
    vals = sorted(x for x in vals if lo <= x <= hi)
    if len(vals) < 2:
        return
    order = list(vals)
    r.shuffle(order)
    fn = g.fresh('im')
    res = {}
    arms = []
    for i, x in enumerate(order):
        res[x] = 10 * (i + 1) + (x % 7)
        arms.append((('plit', ty, x), lit(T_I64, res[x])))
    bind = r.random() < 0.3
    if bind:
        # a binding arm returns something computed from the selector (wrapping is not involved: a conversion)
        arms.append((('pvar', 'o'), lit(T_I64, -5)))
    else:
        arms.append((('pwild',), lit(T_I64, -5)))
    g.decls.append(fn_decl(fn, [('x', ty)], T_I64, block(N('match', var('x', ty), arms, ty=T_I64))))
    sel = set(vals)
    sel.update([vals[0] - 1, vals[-1] + 1, lo, hi, lo + 1, hi - 1, 0, -1, 1])
    for x in vals[:3] + vals[-2:]:
        for k in (1, 2, -1, -2, 3, -3):
            sel.add(x + k * 2 ** 32)
            sel.add(x + k * 2 ** 31)
            sel.add(x + k * 256)
            sel.add(x + k * 2 ** 16)
    sel = sorted(x for x in sel if lo <= x <= hi)
    if len(sel) > 28:
        keep = set(vals) | {vals[0] - 1, vals[-1] + 1, lo, hi}
        rest = [x for x in sel if x not in keep]
        r.shuffle(rest)
        sel = sorted(x for x in (keep | set(rest[:28 - len(keep)])) if lo <= x <= hi)
    g.feat('match', 'intmatch', 'intmatch-dense' if dense else 'intmatch-sparse')
    g.boundary = True
    for i in range(0, len(sel), 4):
        chunk = sel[i:i + 4]
        es = []
        for x in chunk:
            a = lit(ty, x)
            if r.random() < 0.5:
                a = call('gid', ('targs', ty), a, ty=ty)
            es.append(call(fn, a, ty=T_I64))
        out.append(g.show(*es, tag='im'))


# ----------------------------------------------------------------------------------------------- aggregates in arrays
T_AGK = ('Class', 'AgK')           # class AgK { v: Int64 }  (declared on first use)
T_OPTK = ('Option', T_AGK)
# element layouts: sizes 2,3,5/8,8,12,12/16,16,20,24 ... (the byte size of an array is length * element size rounded up to
# a word: element sizes that are not 1/2/4/8 take the multiply path of the code generators, and odd lengths of elements
# whose size is not a multiple of 8 need the rounding)
AGG_LAYOUTS = [
    [T_I32, T_I32, T_I32], [T_I32, T_I32, T_I32], [T_U8, T_I32], [T_I64, T_I32], [T_U8, T_U8, T_U8], [T_I32, T_BOOL],
    [T_U8, T_I64], [T_I32, T_I32, T_I32, T_I32, T_I32], [T_BOOL, T_U8], [T_CHAR, T_U8], [T_I64, T_I64, T_I32],
    [T_U8, T_I32, T_U8], [T_I32, T_I64, T_U8], [T_U8, T_U8, T_U8, T_U8, T_U8], [T_CHAR, T_CHAR, T_CHAR], [T_I32, T_U8, T_U8],
    [T_I32, T_STR], [T_U8, T_AGK], [T_OPTK, T_I32], [T_STR, T_U8, T_U8], [T_I32, T_I32, T_AGK], [T_I32, T_OPTK, T_I32]]
AGG_LENS = [0, 1, 2, 3, 5, 7, 8, 9, 15, 16, 17, 1, 3, 5, 7]
AGG_TAG = {T_I32: 'i32', T_I64: 'i64', T_U8: 'u8', T_BOOL: 'b', T_CHAR: 'c', T_STR: 'str', T_AGK: 'cls', T_OPTK: 'optcls'}


def agg_size(layout):
    """byte size of a tuple / struct with these components (each aligned to its own size, total to the largest)"""
    off, al = 0, 1
    for t in layout:
        sz = 1 if t in (T_U8, T_BOOL) else 4 if t in (T_I32, T_CHAR) else 8
        off = (off + sz - 1) // sz * sz + sz
        al = max(al, sz)
    return (off + al - 1) // al * al


# layouts for which the rounding of the array's byte size matters (odd lengths): element size not a multiple of the word
AGG_TAIL = [l for l in AGG_LAYOUTS if agg_size(l) % 8 != 0 and agg_size(l) not in (1, 2, 4)]


def agg_need_class(g):
    if not getattr(g, 'agk', False):
        g.agk = True
        g.decls.append(dict(k='class', name='AgK', fields=[('v', T_I64)]))


def new_agk(v):
    return N('new', 'AgK', [('v', v)], ty=T_AGK)


def agg_field_lit(t, i, j, salt):
    """field j of element number i as a literal: every element differs from every other one in every field that can
    differ, all bytes of the wide ones are non-zero"""
    odd = (i + j) % 2 == 1
    if t == T_I32:
        v = (i + 1) * 16843009 + j * 4099 + salt
        return lit(T_I32, -v - 1 if odd else v)
    if t == T_I64:
        v = (i + 1) * 72340172838076673 + j * 65537 + salt
        return lit(T_I64, -v - 1 if odd else v)
    if t == T_U8:
        return lit(T_U8, (i * 37 + j * 11 + salt + 128) % 256)
    if t == T_BOOL:
        return lit(T_BOOL, (i + j + salt) % 2 == 0)
    if t == T_CHAR:
        return lit(T_CHAR, CHARS[(i + j + salt) % len(CHARS)])
    if t == T_STR:
        return lit(T_STR, 's%d_%d' % (i, (j + salt) % 10))
    if t == T_AGK:
        return new_agk(lit(T_I64, 1000 * (i + 1) + j + salt))
    if t == T_OPTK:
        if (i + salt) % 3 == 0:
            return N('variant', 'Option', 'None', ty=T_OPTK)
        return N('variant', 'Option', 'Some', new_agk(lit(T_I64, -(1000 * (i + 1) + j + salt))), ty=T_OPTK)
    raise ValueError(t)


def agg_field_k(t, k, j, salt):
    """field j of the element with index `k` (an Int64 variable in 0..17), computed"""
    kv = var(k, T_I64)
    if t == T_I32:
        return binop('add', binop('mul', meth('to_int32', kv, ty=T_I32), lit(T_I32, 16843009), ty=T_I32),
                     lit(T_I32, 16843009 + j * 4099 + salt), ty=T_I32)
    if t == T_I64:
        return binop('sub', lit(T_I64, -(j * 65537 + salt) - 1), binop('mul', kv, lit(T_I64, 72340172838076673), ty=T_I64),
                     ty=T_I64)
    if t == T_U8:
        return meth('to_uint8', binop('add', binop('mul', kv, lit(T_I64, 37), ty=T_I64), lit(T_I64, j * 11 + salt + 128),
                                      ty=T_I64), ty=T_U8)
    if t == T_BOOL:
        return binop('eq', binop('mod', binop('add', kv, lit(T_I64, j + salt), ty=T_I64), lit(T_I64, 2), ty=T_I64),
                     lit(T_I64, 0), ty=T_BOOL)
    if t == T_CHAR:
        return meth('to_char', meth('to_uint8', binop('add', kv, lit(T_I64, 65 + j + salt % 5), ty=T_I64), ty=T_U8), ty=T_CHAR)
    if t == T_STR:
        return template('s', kv, '_%d' % ((j + salt) % 10))
    if t == T_AGK:
        return new_agk(binop('add', binop('mul', kv, lit(T_I64, 1000), ty=T_I64), lit(T_I64, 1000 + j + salt), ty=T_I64))
    if t == T_OPTK:
        return N('if', binop('eq', binop('mod', binop('add', kv, lit(T_I64, salt), ty=T_I64), lit(T_I64, 3), ty=T_I64),
                             lit(T_I64, 0), ty=T_BOOL),
                 N('variant', 'Option', 'None', ty=T_OPTK),
                 N('variant', 'Option', 'Some', new_agk(unop('neg', binop('add', kv, lit(T_I64, 1000 + j), ty=T_I64), ty=T_I64)),
                   ty=T_OPTK), ty=T_OPTK)
    raise ValueError(t)


class Agg:
    """an aggregate element type: a tuple or a (freshly declared) struct over a field layout"""

    def __init__(self, g, layout, as_struct, name=None):
        self.g = g
        self.layout = list(layout)
        self.as_struct = as_struct
        if T_AGK in layout or T_OPTK in layout:
            agg_need_class(g)
        if as_struct:
            self.name = name or g.fresh('Ag')
            self.fields = [('q%d' % j, t) for j, t in enumerate(layout)]
            g.decls.append(dict(k='struct', name=self.name, fields=self.fields))
            self.ty = t_struct(self.name)
        else:
            self.ty = t_tuple(*layout)

    def make(self, fs):
        if self.as_struct:
            return N('new', self.name, [(f, e) for (f, _), e in zip(self.fields, fs)], ty=self.ty)
        return N('tuple', *fs, ty=self.ty)

    def lit(self, i, salt=0):
        return self.make([agg_field_lit(t, i, j, salt) for j, t in enumerate(self.layout)])

    def of_k(self, k, salt=0):
        return self.make([agg_field_k(t, k, j, salt) for j, t in enumerate(self.layout)])

    def acc(self, e, j):
        """component j of the aggregate expression e"""
        if self.as_struct:
            return N('field', e, self.fields[j][0], ty=self.layout[j])
        return N('tget', e, j, ty=self.layout[j])

    def shown(self, e):
        """printable expressions showing every component of e (e is evaluated once per component)"""
        es = []
        for j, t in enumerate(self.layout):
            a = self.acc(e(), j)
            if t == T_AGK:
                a = N('field', a, 'v', ty=T_I64)
            elif t == T_OPTK:
                x = self.g.fresh('b')
                a = N('match', a, [(('pvariant', 'Option', 'Some', ('pvar', x)), N('field', var(x, T_AGK), 'v', ty=T_I64)),
                                   (('pvariant', 'Option', 'None'), lit(T_I64, 1))], ty=T_I64)
            es.append(a)
        return es

    def tag(self):
        return ','.join(AGG_TAG[t] for t in self.layout)


def alloc_neighbours(g, out, how_many=None):
    """objects allocated right behind whatever was allocated last: a string, an Int64 array of all-ones words, a class
    instance, a byte array.  Returns (statements that write to them, expressions that show them)."""
    r = g.r
    kinds = ['str', 'arr', 'obj', 'bytes']
    r.shuffle(kinds)
    kinds = kinds[:how_many or r.randint(2, 3)]
    writes, shows = [], []
    for kd in kinds:
        nm = g.fresh('nb')
        if kd == 'str':
            out.append(let(nm, T_STR, template('nb', lit(T_I64, r.randint(0, 99)), r.choice(TEXTS))))
            shows.append(var(nm, T_STR))
        elif kd == 'arr':
            ty = t_array(T_I64)
            ln = r.choice([1, 2, 3])
            out.append(let(nm, ty, scall(ty, 'fill', lit(T_I64, ln), lit(T_I64, -1), ty=ty)))
            writes.append(assign(N('index', var(nm, ty), lit(T_I64, 0), ty=T_I64), lit(T_I64, r.choice([INT_RANGE[T_I64][0], -2, 72340172838076673]))))
            shows += [N('index', var(nm, ty), lit(T_I64, k), ty=T_I64) for k in sorted({0, ln - 1})]
            shows.append(meth('size', var(nm, ty), ty=T_I64))
        elif kd == 'obj':
            agg_need_class(g)
            out.append(let(nm, T_AGK, new_agk(lit(T_I64, -1))))
            writes.append(assign(N('field', var(nm, T_AGK), 'v', ty=T_I64), lit(T_I64, r.choice([INT_RANGE[T_I64][1], -255, 4294967296]))))
            shows.append(N('field', var(nm, T_AGK), 'v', ty=T_I64))
        else:
            ty = t_array(T_U8)
            ln = r.choice([1, 3, 7, 8, 9])
            out.append(let(nm, ty, scall(ty, 'fill', lit(T_I64, ln), lit(T_U8, 255), ty=ty)))
            writes.append(assign(N('index', var(nm, ty), lit(T_I64, ln - 1), ty=T_U8), lit(T_U8, r.choice([0, 128, 254]))))
            shows += [N('index', var(nm, ty), lit(T_I64, k), ty=T_U8) for k in sorted({0, ln - 1})]
            shows.append(meth('size', var(nm, ty), ty=T_I64))
    return writes, shows


def s_aggarray(g, sc, out, ctx):
    """Array / Vec whose element is a small tuple or struct (element sizes 2..24 bytes, with and without references):
    every element including the last one is written with distinct values, other objects are allocated right behind it
    and written, then everything is read back; replacement of elements, field-wise stores into an element, copying an
    element out and changing the copy, Vec growth over its capacity steps, fill / fill_with / new / clone."""
    r = g.r
    layout = r.choice(AGG_LAYOUTS)
    n = r.choice(AGG_LENS)
    how = r.choice(['fill', 'fill', 'new', 'fill_with', 'vec-push', 'vec-push', 'vec-new'])
    if not getattr(g, 'agg_first', False) and (r.random() < 0.7 or ctx.get('forced')):
        # the first one of a program: an array (not a vector, whose capacity is a power of two) of an odd number of
        # elements whose size is not a multiple of the word, so the rounding of the byte size decides where the next
        # object starts
        layout = r.choice(AGG_TAIL)
        n = r.choice([1, 3, 5, 7, 9, 15, 17])
        how = r.choice(['fill', 'new', 'fill_with'])
    g.agg_first = True
    has_ref = any(t in (T_STR, T_AGK, T_OPTK) for t in layout)
    ag = Agg(g, layout, as_struct=r.random() < 0.5)
    ety = ag.ty
    g.feat('agg-size:%d' % agg_size(layout))
    if how == 'new' and n > 9:
        how = 'fill'
    is_vec = how.startswith('vec')
    cty = t_vec(ety) if is_vec else t_array(ety)
    a = g.fresh('ga')
    av = lambda: var(a, cty)
    at = lambda i: N('index', av(), i if isinstance(i, N) else lit(T_I64, i), ty=ety)
    salt = r.randint(0, 9)
    g.feat('aggarray', 'agg-elem:' + ag.tag(), 'agg-' + how, 'agg-struct' if ag.as_struct else 'agg-tuple',
           'agg-len:%d' % n)
    if has_ref:
        g.feat('agg-ref')
    if n % 2 == 1:
        g.feat('agg-odd-length')
    g.boundary = True
    k = g.fresh('k')
    # --- create and fill
    if how == 'fill':
        out.append(let(a, cty, scall(cty, 'fill', lit(T_I64, n), ag.lit(99, salt), ty=cty)))
        if n <= 3 or r.random() < 0.3:
            for i in range(n):
                out.append(assign(at(i), ag.lit(i, salt)))
        else:
            out.append(N('for', k, lit(T_I64, 0), lit(T_I64, n - 1), block(assign(at(var(k, T_I64)), ag.of_k(k, salt)))))
            out.append(assign(at(n - 1), ag.lit(n - 1, salt)))
    elif how == 'new':
        out.append(let(a, cty, scall(cty, 'new', *[ag.lit(i, salt) for i in range(n)], ty=cty)))
    elif how == 'fill_with':
        fty = t_fn([T_I64], ety)
        out.append(let(a, cty, scall(cty, 'fill_with', lit(T_I64, n),
                                     N('lambda', [(k, T_I64)], ety, block(ag.of_k(k, salt)), ty=fty), ty=cty)))
        g.feat('lambda')
    else:
        first = min(n, r.choice([0, 1, 3])) if how == 'vec-new' else 0
        out.append(let(a, cty, scall(cty, 'new', *[ag.lit(i, salt) for i in range(first)], ty=cty)))
        if n - first <= 3:
            for i in range(first, n):
                out.append(N('meth', 'push', av(), ag.lit(i, salt), ty=T_UNIT))
        else:
            out.append(N('for', k, lit(T_I64, first), lit(T_I64, n), block(N('meth', 'push', av(), ag.of_k(k, salt), ty=T_UNIT))))
        g.feat('vec')
    # --- neighbours allocated right behind it, then written
    writes, shows = alloc_neighbours(g, out)
    out += writes

    def show_elem(i, tag):
        out.append(g.show(*ag.shown(lambda: at(i)), tag=tag))
    # --- read everything back
    k2 = g.fresh('k')
    out.append(N('for', k2, lit(T_I64, 0), meth('size', av(), ty=T_I64),
                 block(print_(g.tmpl(ag.shown(lambda: at(var(k2, T_I64))), sep=',')), print_(template(';')))))
    out.append(g.show(meth('size', av(), ty=T_I64), tag='n'))
    if n > 0:
        show_elem(n - 1, 'last')
        if n > 1:
            show_elem(r.choice([0, n - 2]), 'el')
    out.append(g.show(*shows, tag='nb'))
    g.feat('for')
    if n > 0:
        # --- replace elements (whole and, for structs and tuples alike, component-wise), neighbours must survive
        i = r.choice([n - 1, n - 1, r.randrange(n)])
        out.append(assign(at(i), ag.lit(i + 20, salt + 1)))
        j = r.randrange(len(layout))
        if ag.as_struct and r.random() < 0.7:
            out.append(assign(ag.acc(at(n - 1), j), agg_field_lit(layout[j], 40, j, salt)))
            g.feat('agg-field-store')
        show_elem(i, 'rep')
        show_elem(n - 1, 'last')
        if n > 1:
            show_elem((i + 1) % n, 'el')
        out.append(g.show(*shows, tag='nb'))
        # --- value semantics: a copy taken out of the array is independent of the element
        e = g.fresh('ge')
        i = r.randrange(n)
        out.append(let(e, ety, at(i), mut=True))
        j = r.randrange(len(layout))
        out.append(assign(ag.acc(var(e, ety), j), agg_field_lit(layout[j], 50, j, salt)))
        out.append(g.show(*(ag.shown(lambda: var(e, ety)) + ag.shown(lambda: at(i))), tag='cp'))
        if r.random() < 0.5:
            out.append(assign(at(n - 1), var(e, ety)))
            show_elem(n - 1, 'wb')
        g.feat('agg-copy-out')
    if is_vec:
        # growth over the next capacity step (4, 8, 16, 32) with the old elements surviving the move
        extra = r.choice([1, 2, 4, 5]) if n < 9 else r.choice([1, 2, 16])
        k3 = g.fresh('k')
        out.append(N('for', k3, lit(T_I64, n), lit(T_I64, n + extra), block(N('meth', 'push', av(), ag.of_k(k3, salt + 2), ty=T_UNIT))))
        writes2, shows2 = alloc_neighbours(g, out, 1)
        out += writes2
        show_elem(n + extra - 1, 'grown')
        show_elem(0, 'el')
        if n > 0:
            show_elem(n - 1, 'el')
        x = g.fresh('b')
        out.append(N('match', meth('pop', av(), ty=t_option(ety)),
                     [(('pvariant', 'Option', 'Some', ('pvar', x)), block(g.show(*ag.shown(lambda: var(x, ety)), tag='pop'))),
                      (('pvariant', 'Option', 'None'), block(println(template('empty'))))]))
        out.append(g.show(meth('size', av(), ty=T_I64), *shows2, tag='n'))
        g.feat('agg-vec-growth', 'option', 'match')
        if r.random() < 0.4 and n + extra >= 2:
            b = g.fresh('ga')
            bty = t_array(ety)
            out.append(let(b, bty, meth('to_array', av(), ty=bty)))
            out.append(g.show(meth('size', var(b, bty), ty=T_I64),
                              *ag.shown(lambda: N('index', var(b, bty), lit(T_I64, n + extra - 2), ty=ety)), tag='toarr'))
            g.feat('agg-to-array')
    elif r.random() < 0.4:
        # clone: a second array of the same byte size; changing the clone leaves the original alone
        b = g.fresh('ga')
        out.append(let(b, cty, meth('clone', av(), ty=cty)))
        writes2, shows2 = alloc_neighbours(g, out, 1)
        out += writes2
        if n > 0:
            out.append(assign(N('index', var(b, cty), lit(T_I64, n - 1), ty=ety), ag.lit(60, salt)))
            out.append(g.show(*(ag.shown(lambda: N('index', var(b, cty), lit(T_I64, n - 1), ty=ety)) + ag.shown(lambda: at(n - 1))),
                              tag='clone'))
        out.append(g.show(meth('size', var(b, cty), ty=T_I64), *shows2, tag='n'))
        g.feat('agg-clone')


# ----------------------------------------------------------------------------------------------- matches on Char / String / tuples / UInt8
CHAR_POOL = [ord(c) for c in 'abcxyzAZ09_#~'] + [0xE9, 0x161, 0x20AC, 0x1F600]
STR_POOL = ['a', 'xy', 'dora', '', 'q-7', 'é', '€u', 'ok:', '#', 'Zz', 'dor', 'doraa', 'A', ' ', 'xyz']


def char_expr(g, cp):
    """a Char with code point cp: a literal where the source text allows one, else a conversion"""
    if cp in CHAR_POOL or (33 <= cp <= 126 and chr(cp) not in '\'"\\$'):
        return lit(T_CHAR, cp)
    g.feat('conv')
    if g.r.random() < 0.5:
        return meth('to_char_unchecked', lit(T_I32, cp), ty=T_CHAR)
    return meth('get_or_panic', meth('to_char', lit(T_I64, cp), ty=t_option(T_CHAR)), ty=T_CHAR)


def is_scalar(cp):
    return 0 <= cp <= 0x10FFFF and not (0xD800 <= cp <= 0xDFFF)


def through(g, e):
    """the expression itself or routed through the generic identity (so it is not a constant at the use)"""
    return call('gid', ('targs', e.ty), e, ty=e.ty) if g.r.random() < 0.4 else e


def show_calls(g, out, fn, args, tag):
    for i in range(0, len(args), 4):
        out.append(g.show(*[call(fn, through(g, a), ty=T_I64) for a in args[i:i + 4]], tag=tag))


def s_charstrmatch(g, sc, out, ctx):
    """match on Char / String scrutinees with literal arms and a default, on tuples of small integers / Bools with
    literal sub-patterns, on UInt8 — as functions called with every literal, its neighbours and look-alikes, and as
    statements inside loops that update local state"""
    r = g.r
    kind = r.choice(['char', 'string', 'tuple', 'tuple', 'u8'])
    fn = g.fresh('cm')
    g.feat('match', 'litmatch', 'litmatch-' + kind)
    g.boundary = True
    default = ('pvar', 'o') if r.random() < 0.3 else ('pwild',)
    if kind == 'char':
        lits = r.sample(CHAR_POOL, r.randint(2, 7))
        arms = [(('plit', T_CHAR, c), lit(T_I64, 10 * (i + 1) + c % 7)) for i, c in enumerate(lits)]
        arms.append((default, lit(T_I64, -5)))
        g.decls.append(fn_decl(fn, [('x', T_CHAR)], T_I64, block(N('match', var('x', T_CHAR), arms, ty=T_I64))))
        sel = set(lits)
        for c in lits[:4]:
            sel.update([c - 1, c + 1, c + 256, c + 65536, c ^ 0x20, c - 256])
        sel.update([0, 0x7F, 0x80, 0xFF, 0xD7FF, 0xE000, 0x10FFFF])
        sel = sorted(c for c in sel if is_scalar(c))
        if len(sel) > 20:
            keep = set(lits)
            rest = [c for c in sel if c not in keep]
            r.shuffle(rest)
            sel = sorted(keep | set(rest[:20 - len(keep)]))
        show_calls(g, out, fn, [char_expr(g, c) for c in sel], 'cm')
        # statement form inside a loop over an array of scrutinees
        aty = t_array(T_CHAR)
        arr, acc, k = g.fresh('ca'), g.fresh('m'), g.fresh('k')
        picks = [r.choice(sel) for _ in range(r.randint(3, 6))]
        out.append(let(arr, aty, scall(aty, 'new', *[char_expr(g, c) for c in picks], ty=aty)))
        out.append(let(acc, T_I64, lit(T_I64, 1), mut=True))
        sarms = [(('plit', T_CHAR, c), block(assign(var(acc, T_I64), binop('add', var(acc, T_I64), lit(T_I64, i + 2), ty=T_I64))))
                 for i, c in enumerate(lits[:3])]
        sarms.append((('pwild',), block(assign(var(acc, T_I64), binop('mod', binop('mul', var(acc, T_I64), lit(T_I64, 3), ty=T_I64),
                                                                      lit(T_I64, 1000), ty=T_I64)))))
        out.append(N('for', k, lit(T_I64, 0), meth('size', var(arr, aty), ty=T_I64),
                     block(N('match', N('index', var(arr, aty), var(k, T_I64), ty=T_CHAR), sarms))))
        out.append(g.show(var(acc, T_I64), tag='acc'))
        g.feat('char', 'for', 'array')
    elif kind == 'string':
        lits = r.sample(STR_POOL, r.randint(2, 6))
        arms = [(('plit', T_STR, s), lit(T_I64, 10 * (i + 1) + len(s))) for i, s in enumerate(lits)]
        arms.append((default, lit(T_I64, -5)))
        g.decls.append(fn_decl(fn, [('x', T_STR)], T_I64, block(N('match', var('x', T_STR), arms, ty=T_I64))))
        es = []
        for s in lits:
            es.append(lit(T_STR, s))
            if len(s) >= 2:
                h = r.randint(1, len(s) - 1)
                es.append(binop('add', lit(T_STR, s[:h]), lit(T_STR, s[h:]), ty=T_STR))     # equal content, another object
                es.append(template(s[:h], lit(T_STR, s[h:])))
            es.append(lit(T_STR, s + r.choice(['x', ' ', 'a'])))
            if s:
                es.append(lit(T_STR, s[:-1]))
                if s.swapcase() != s:
                    es.append(lit(T_STR, s.swapcase()))
        es += [lit(T_STR, s) for s in r.sample(STR_POOL, 3)]
        if len(es) > 20:
            r.shuffle(es)
            es = es[:20]
        show_calls(g, out, fn, es, 'sm')
        # the value of a match used inside a larger expression, scrutinee computed at run time
        k, acc = g.fresh('k'), g.fresh('m')
        out.append(let(acc, T_I64, lit(T_I64, 0), mut=True))
        pre = r.choice(['a', 'x', 'do', ''])
        smatch = N('match', template(pre, var(k, T_I64)),
                   [(('plit', T_STR, pre + '1'), lit(T_I64, 100)), (('plit', T_STR, pre + '3'), lit(T_I64, 300)),
                    (('pwild',), var(k, T_I64))], ty=T_I64)
        out.append(N('for', k, lit(T_I64, 0), lit(T_I64, 5), block(assign(var(acc, T_I64), binop('add', var(acc, T_I64), smatch, ty=T_I64)))))
        out.append(g.show(var(acc, T_I64), tag='acc'))
        g.feat('string', 'for', 'template')
    elif kind == 'u8':
        vals = sorted(r.sample([0, 1, 2, 9, 10, 64, 100, 126, 127, 128, 129, 200, 254, 255], r.randint(3, 7)))
        order = list(vals)
        r.shuffle(order)
        arms = [(('plit', T_U8, v), lit(T_I64, 10 * (i + 1) + v % 7)) for i, v in enumerate(order)]
        arms.append((default, lit(T_I64, -5)))
        g.decls.append(fn_decl(fn, [('x', T_U8)], T_I64, block(N('match', var('x', T_U8), arms, ty=T_I64))))
        es = [lit(T_U8, v) for v in sorted(set(vals) | {0, 255, 127, 128} | {min(255, v + 1) for v in vals} | {max(0, v - 1) for v in vals})]
        # the scrutinee is the low byte of a wider value: 256 + v, -1, 2^32 + v ...
        for v in vals[:3]:
            for wide in (v + 256, v - 256, v + 2 ** 32, v + 65536):
                t = T_I32 if -2 ** 31 <= wide < 2 ** 31 and r.random() < 0.5 else T_I64
                es.append(meth('to_uint8', lit(t, wide), ty=T_U8))
        g.feat('conv', 'u8')
        if len(es) > 24:
            r.shuffle(es)
            es = es[:24]
        show_calls(g, out, fn, es, 'um')
    else:
        shape = r.choice([(T_I32, T_BOOL), (T_U8, T_U8), (T_BOOL, T_BOOL), (T_I64, T_CHAR), (T_BOOL, T_U8), (T_I32, T_I32),
                          (T_BOOL, T_BOOL, T_BOOL), (T_U8, T_BOOL, T_I32)])
        tty = t_tuple(*shape)

        def vals_of(t):
            if t == T_BOOL:
                return [True, False]
            if t == T_U8:
                return [0, 1, 127, 128, 255]
            if t == T_CHAR:
                return [ord('a'), ord('b'), 0xE9]
            if t == T_I32:
                return [0, 1, -1, 2, 2 ** 31 - 1, -2 ** 31]
            return [0, 1, -1, 2 ** 32, 2 ** 63 - 1, -2 ** 63]
        all_bool = all(t == T_BOOL for t in shape)
        rows = []
        arms = []
        if all_bool:
            combos = [[bool(m >> j & 1) for j in range(len(shape))] for m in range(2 ** len(shape))]
            r.shuffle(combos)
            full = r.random() < 0.5
            use = combos if full else combos[:-2]
            for i, c in enumerate(use):
                arms.append((('ptuple',) + tuple(('plit', T_BOOL, b) for b in c), lit(T_I64, i + 1)))
            if not full:
                arms.append((('pwild',), lit(T_I64, -5)))
            rows = combos
        else:
            seen = set()
            first_lits = []
            for i in range(r.randint(2, 4)):
                c = tuple(r.choice(vals_of(t)[:4]) for t in shape)
                if c in seen:
                    continue
                seen.add(c)
                first_lits.append(c[0])
                arms.append((('ptuple',) + tuple(('plit', t, v) for t, v in zip(shape, c)), lit(T_I64, 10 * (i + 1))))
            rows = [list(c) for c in seen]
            # a row with a literal in the last position only (first positions bound / ignored): useful as long as the
            # leading type has a value not used above
            j = len(shape) - 1
            lastv = r.choice(vals_of(shape[j]))
            if shape[0] != T_BOOL:
                bind = shape[0] in INT_RANGE and r.random() < 0.6
                ps = [('pvar', 'n') if bind else ('pwild',)] + [('pwild',)] * (len(shape) - 2) + [('plit', shape[j], lastv)]
                body = binop('add', lit(T_I64, 1000), meth('to_int64', var('n', shape[0]), ty=T_I64) if shape[0] == T_I32
                             else binop('mod', var('n', T_I64), lit(T_I64, 1000), ty=T_I64), ty=T_I64) if bind else lit(T_I64, 77)
                arms.append((('ptuple',) + tuple(ps), body))
            arms.append((default, lit(T_I64, -5)))
            for c in list(rows):
                for j2 in range(len(shape)):
                    for v in vals_of(shape[j2]):
                        d = list(c)
                        d[j2] = v
                        rows.append(d)
            uniq = []
            for c in rows:
                if c not in uniq:
                    uniq.append(c)
            r.shuffle(uniq)
            rows = uniq[:16]
        g.decls.append(fn_decl(fn, [('x', tty)], T_I64, block(N('match', var('x', tty), arms, ty=T_I64))))
        es = [N('tuple', *[lit(t, v) for t, v in zip(shape, c)], ty=tty) for c in rows]
        show_calls(g, out, fn, es, 'tm')
        g.feat('tuple')


# ----------------------------------------------------------------------------------------------- loops
def s_loops(g, sc, out, ctx):
    """`for` over ranges with boundary bounds, over arrays and vectors (also changed while iterated), nested loops with
    break / continue in inner and outer position, `while` with several exits, `return` out of nested loops inside a
    match arm"""
    r = g.r
    kind = r.choice(['range', 'foreach', 'nested', 'while-exits', 'return'])
    g.feat('loops', 'loop-' + kind)
    MAX, MIN = INT_RANGE[T_I64][1], INT_RANGE[T_I64][0]
    if kind == 'range':
        acc = g.fresh('m')
        out.append(let(acc, T_I64, lit(T_I64, 0), mut=True))
        for lo, hi, brk in r.sample([(0, 0, None), (5, 5, None), (3, 2, None), (-3, 1, None), (7, 8, None), (MAX - 3, MAX, MAX - 2),
                                     (MAX - 2, MAX, None), (MAX, MAX, None), (MIN, MIN + 2, None), (MIN, MIN, None), (-1, 0, None),
                                     (2 ** 31 - 1, 2 ** 31 + 1, None), (-2 ** 31 - 1, -2 ** 31 + 1, None), (1, -1, None)], 4):
            k = g.fresh('k')
            body = [print_(template(var(k, T_I64), ','))]
            if brk is not None:
                body.append(N('if', binop('eq', var(k, T_I64), lit(T_I64, brk), ty=T_BOOL), block(N('break')), None))
                g.feat('break-continue')
            body.append(assign(var(acc, T_I64), meth('wrapping_add', var(acc, T_I64), var(k, T_I64), ty=T_I64)))
            lo_e = lit(T_I64, lo) if r.random() < 0.6 else through(g, lit(T_I64, lo))
            out.append(N('for', k, lo_e, lit(T_I64, hi), block(*body)))
            out.append(g.show(var(acc, T_I64), tag='r'))
        g.boundary = True
        g.feat('for', 'wrapping')
    elif kind == 'foreach':
        vec = r.random() < 0.5
        et = r.choice([T_I64, T_I32, T_U8, T_STR, t_tuple(T_I32, T_U8)])
        cty = (t_vec if vec else t_array)(et)
        n = r.choice([0, 1, 3, 4, 6])

        def el(i):
            if et == T_STR:
                return lit(T_STR, TEXTS[i % len(TEXTS)])
            if et[0] == 'Tuple':
                return N('tuple', lit(T_I32, 100 * i - 7), lit(T_U8, (i * 77 + 130) % 256), ty=et)
            return lit(et, (i * 37 + 3) % 200)
        c = g.fresh('fc')
        out.append(let(c, cty, scall(cty, 'new', *[el(i) for i in range(n)], ty=cty)))
        x = g.fresh('x')
        cnt = g.fresh('m')
        out.append(let(cnt, T_I64, lit(T_I64, 0), mut=True))
        shown = [N('tget', var(x, et), 0, ty=T_I32), N('tget', var(x, et), 1, ty=T_U8)] if et[0] == 'Tuple' else [var(x, et)]
        body = [assign(var(cnt, T_I64), binop('add', var(cnt, T_I64), lit(T_I64, 1), ty=T_I64))]
        mode = r.choice(['plain', 'continue', 'break', 'mutate'])
        if mode == 'continue':
            body.append(N('if', binop('eq', var(cnt, T_I64), lit(T_I64, 2), ty=T_BOOL), block(N('continue')), None))
        if mode == 'break':
            body.append(N('if', binop('eq', var(cnt, T_I64), lit(T_I64, r.choice([1, 3])), ty=T_BOOL), block(N('break')), None))
        if mode == 'mutate' and n >= 2:
            # the element after the current one is replaced while the loop runs: the loop sees the new value; a vector
            # that grows during the loop is iterated up to its length at the start
            body.append(N('if', binop('eq', var(cnt, T_I64), lit(T_I64, 1), ty=T_BOOL),
                          block(assign(N('index', var(c, cty), lit(T_I64, 1), ty=et), el(9)),
                                *( [N('meth', 'push', var(c, cty), el(8), ty=T_UNIT)] if vec else [])), None))
            g.feat('loop-mutate-during')
        parts = []
        for e in shown:
            parts += [e, ',']
        body.append(print_(template(*(parts[:-1] + [';']))))
        out.append(N('foreach', x, var(c, cty), block(*body)))
        out.append(g.show(var(cnt, T_I64), meth('size', var(c, cty), ty=T_I64), tag='fe'))
        g.feat('foreach', 'vec' if vec else 'array', 'break-continue')
    elif kind == 'nested':
        i, j, acc = g.fresh('k'), g.fresh('m'), g.fresh('m')
        n, m = r.randint(2, 5), r.randint(3, 6)
        a, b, c2, d = r.randrange(n), r.randint(1, m), r.randint(1, m), r.randrange(n)
        out.append(let(acc, T_I64, lit(T_I64, 0), mut=True))
        inner = [assign(var(j, T_I64), binop('add', var(j, T_I64), lit(T_I64, 1), ty=T_I64)),
                 N('if', binop('eq', var(j, T_I64), lit(T_I64, b), ty=T_BOOL), block(N('continue')), None),
                 N('if', N('andalso', binop('eq', var(j, T_I64), lit(T_I64, c2), ty=T_BOOL),
                           binop('ne', var(i, T_I64), lit(T_I64, d), ty=T_BOOL), ty=T_BOOL), block(N('break')), None),
                 assign(var(acc, T_I64), binop('add', var(acc, T_I64), binop('mul', var(i, T_I64), lit(T_I64, 10), ty=T_I64), ty=T_I64)),
                 print_(template(var(i, T_I64), '.', var(j, T_I64), ' '))]
        outer = [N('if', binop('eq', var(i, T_I64), lit(T_I64, a), ty=T_BOOL), block(N('continue')), None),
                 let(j, T_I64, lit(T_I64, 0), mut=True),
                 N('while', binop('lt', var(j, T_I64), lit(T_I64, m), ty=T_BOOL), block(*inner)),
                 N('if', binop('gt', var(acc, T_I64), lit(T_I64, r.choice([20, 60, 1000])), ty=T_BOOL), block(N('break')), None)]
        if r.random() < 0.5:
            # a second inner loop (a range) whose break must not end the outer one
            k2 = g.fresh('k')
            outer.insert(3, N('for', k2, lit(T_I64, 0), lit(T_I64, 4),
                              block(N('if', binop('ge', var(k2, T_I64), var(i, T_I64), ty=T_BOOL), block(N('break')), None),
                                    assign(var(acc, T_I64), binop('add', var(acc, T_I64), lit(T_I64, 1), ty=T_I64)))))
        out.append(N('for', i, lit(T_I64, 0), lit(T_I64, n), block(*outer)))
        out.append(g.show(var(acc, T_I64), tag='nest'))
        g.feat('for', 'while', 'break-continue', 'bool')
    elif kind == 'while-exits':
        k, acc = g.fresh('m'), g.fresh('m')
        lim = r.randint(4, 12)
        out.append(let(k, T_I64, lit(T_I64, r.choice([0, -2, 1])), mut=True))
        out.append(let(acc, T_I64, lit(T_I64, 0), mut=True))
        body = [assign(var(k, T_I64), binop('add', var(k, T_I64), lit(T_I64, 1), ty=T_I64)),
                N('if', binop('eq', binop('mod', var(k, T_I64), lit(T_I64, 3), ty=T_I64), lit(T_I64, 0), ty=T_BOOL), block(N('continue')), None),
                N('if', binop('gt', var(acc, T_I64), lit(T_I64, r.choice([5, 17, 40])), ty=T_BOOL), block(println(template('exit-a')), N('break')), None),
                assign(var(acc, T_I64), binop('add', var(acc, T_I64), var(k, T_I64), ty=T_I64)),
                N('if', binop('ge', var(k, T_I64), lit(T_I64, lim), ty=T_BOOL), block(println(template('exit-b')), N('break')), None),
                print_(template(var(k, T_I64), ':', var(acc, T_I64), ' '))]
        out.append(N('while', lit(T_BOOL, True) if r.random() < 0.5 else binop('lt', var(k, T_I64), lit(T_I64, lim + 3), ty=T_BOOL), block(*body)))
        out.append(g.show(var(k, T_I64), var(acc, T_I64), tag='we'))
        g.feat('while', 'break-continue')
    else:
        fn = g.fresh('lp')
        T = r.choice([2, 4, 7])
        i, j, acc = 'i', 'j', 'acc'
        marms = [(('plit', T_I64, 0), block(assign(var(acc, T_I64), binop('add', var(acc, T_I64), lit(T_I64, 1), ty=T_I64)))),
                 (('plit', T_I64, 3), block(N('if', binop('gt', var(acc, T_I64), lit(T_I64, T), ty=T_BOOL),
                                              block(N('return', binop('add', binop('mul', var(acc, T_I64), lit(T_I64, 100), ty=T_I64), var(i, T_I64), ty=T_I64))), None))),
                 (('pwild',), block(N('if', binop('eq', var(j, T_I64), lit(T_I64, 2), ty=T_BOOL),
                                      block(assign(var(j, T_I64), binop('add', var(j, T_I64), lit(T_I64, 2), ty=T_I64)), N('continue')), None)))]
        wbody = [N('match', binop('mod', binop('add', binop('mul', var(i, T_I64), var('m', T_I64), ty=T_I64), var(j, T_I64), ty=T_I64),
                                 lit(T_I64, 5), ty=T_I64), marms),
                 assign(var(j, T_I64), binop('add', var(j, T_I64), lit(T_I64, 1), ty=T_I64))]
        body = block(let(acc, T_I64, lit(T_I64, 0), mut=True),
                     N('for', i, lit(T_I64, 0), var('n', T_I64),
                       block(let(j, T_I64, lit(T_I64, 0), mut=True),
                             N('while', binop('lt', var(j, T_I64), var('m', T_I64), ty=T_BOOL), block(*wbody)))),
                     unop('neg', var(acc, T_I64), ty=T_I64))
        g.decls.append(fn_decl(fn, [('n', T_I64), ('m', T_I64)], T_I64, body))
        args = r.sample([(0, 0), (1, 1), (2, 3), (3, 5), (4, 4), (5, 2), (6, 7), (1, 9), (0, 5)], 4)
        out.append(g.show(*[call(fn, lit(T_I64, a), through(g, lit(T_I64, b)), ty=T_I64) for a, b in args], tag='lp'))
        g.feat('return', 'match', 'intmatch', 'for', 'while', 'break-continue', 'call')


# ----------------------------------------------------------------------------------------------- conversions
def s_convert(g, sc, out, ctx):
    """integer / Char / Bool / UInt8 conversions of pkgs/std/primitives.dora at their boundaries, chained: narrowing
    conversions keep the low bits, widening ones are exact, `to_char` refuses non-scalar values, `overflowing_*` report
    the wrap, hexadecimal / binary rendering uses the unsigned reading"""
    r = g.r
    g.feat('convert', 'conv')
    g.boundary = True
    I64C = [0, 1, -1, 127, 128, 255, 256, -128, -129, -256, 32767, 32768, 65535, 65536, 2 ** 31 - 1, 2 ** 31, -2 ** 31, -2 ** 31 - 1,
            2 ** 32 - 1, 2 ** 32, 2 ** 32 + 255, 2 ** 40 + 128, 2 ** 63 - 1, -2 ** 63, 0xD7FF, 0xD800, 0xDFFF, 0xE000, 0x10FFFF, 0x110000]
    I32C = [0, 1, -1, 127, 128, 255, 256, -128, -129, 65535, 65536, 2 ** 31 - 1, -2 ** 31, 0xD7FF, 0xD800, 0xE000, 0x10FFFF, 0x110000, -256]

    def src(t, v):
        c = r.random()
        if c < 0.4:
            return lit(t, v)
        if c < 0.7:
            return call('gid', ('targs', t), lit(t, v), ty=t)
        nm = g.fresh('v')
        out.append(let(nm, t, lit(t, v)))
        return var(nm, t)

    def opt_char_code(e):
        """Option[Char] -> Int64: the code point or -1"""
        x = g.fresh('b')
        return N('match', e, [(('pvariant', 'Option', 'Some', ('pvar', x)), meth('to_int64', var(x, T_CHAR), ty=T_I64)),
                              (('pvariant', 'Option', 'None'), lit(T_I64, -1))], ty=T_I64)
    for _ in range(r.randint(3, 5)):
        c = r.choice(['i64', 'i64', 'i32', 'u8', 'char', 'bool', 'ovf', 'hex'])
        g.feat('convert-' + c)
        if c == 'i64':
            v = r.choice(I64C)
            e = src(T_I64, v)
            a = meth('to_int32', e, ty=T_I32)
            out.append(g.show(a, meth('to_uint8', e, ty=T_U8), meth('to_int64', meth('to_int32', e, ty=T_I32), ty=T_I64),
                              meth('to_uint8', meth('to_int32', e, ty=T_I32), ty=T_U8),
                              meth('to_int64', meth('to_uint8', e, ty=T_U8), ty=T_I64), opt_char_code(meth('to_char', e, ty=t_option(T_CHAR))),
                              tag='c64'))
        elif c == 'i32':
            v = r.choice(I32C)
            e = src(T_I32, v)
            out.append(g.show(meth('to_int64', e, ty=T_I64), meth('to_uint8', e, ty=T_U8),
                              meth('to_int32', meth('to_uint8', e, ty=T_U8), ty=T_I32),
                              meth('to_int32', meth('to_int64', e, ty=T_I64), ty=T_I32),
                              opt_char_code(meth('to_char', e, ty=t_option(T_CHAR))), tag='c32'))
        elif c == 'u8':
            v = r.choice([0, 1, 127, 128, 200, 255])
            e = src(T_U8, v)
            out.append(g.show(meth('to_int32', e, ty=T_I32), meth('to_int64', e, ty=T_I64),
                              meth('to_int32', meth('to_char', e, ty=T_CHAR), ty=T_I32),
                              meth('to_uint8', binop('add', meth('to_int32', e, ty=T_I32), lit(T_I32, r.choice([1, 128, 256, 257])), ty=T_I32), ty=T_U8),
                              meth('to_uint8', binop('sub', meth('to_int64', e, ty=T_I64), lit(T_I64, r.choice([1, 256, 300])), ty=T_I64), ty=T_U8),
                              tag='c8'))
        elif c == 'char':
            cp = r.choice([0x41, 0x7F, 0x80, 0xFF, 0x100, 0x7FF, 0x800, 0xFFFF, 0x10000, 0x10FFFF, 0xD7FF, 0xE000, 0x20AC])
            e = char_expr(g, cp)
            out.append(g.show(meth('to_int32', e, ty=T_I32), meth('to_int64', e, ty=T_I64), meth('len_utf8', e, ty=T_I32),
                              meth('to_uint8', meth('to_int32', e, ty=T_I32), ty=T_U8),
                              opt_char_code(meth('to_char', binop('add', meth('to_int64', e, ty=T_I64), lit(T_I64, 1), ty=T_I64), ty=t_option(T_CHAR))),
                              tag='cc'))
            g.feat('char')
        elif c == 'bool':
            b = g.bool_expr(sc, 1)
            out.append(g.show(meth('to_int32', b, ty=T_I32), meth('to_int64', lit(T_BOOL, r.random() < 0.5), ty=T_I64),
                              meth('to_uint8', meth('to_int64', lit(T_BOOL, True), ty=T_I64), ty=T_U8), tag='cb'))
        elif c == 'ovf':
            t = r.choice([T_I32, T_I64])
            lo, hi = INT_RANGE[t]
            op = r.choice(['add', 'sub', 'mul'])
            a = r.choice([hi, lo, hi - 1, lo + 1, -1, 1, 2, hi // 2 + 1, lo // 2, 3037000500 if t == T_I64 else 46341])
            b = r.choice([1, -1, 2, hi, lo, 0, a])
            nm = g.fresh('t')
            tt = t_tuple(t, T_BOOL)
            out.append(let(nm, tt, meth('overflowing_' + op, src(t, a), lit(t, b), ty=tt)))
            out.append(g.show(N('tget', var(nm, tt), 0, ty=t), N('tget', var(nm, tt), 1, ty=T_BOOL),
                              N('tget', meth('overflowing_neg', lit(t, r.choice([lo, hi, 0, -1])), ty=tt), 1, ty=T_BOOL), tag='ov'))
            g.feat('wrapping', 'tuple')
        else:
            t = r.choice([T_I32, T_I64, T_U8])
            v = r.choice([0, 1, 127, 128, 255]) if t == T_U8 else r.choice(I32C if t == T_I32 else I64C)
            e = src(t, v)
            out.append(g.show(meth('to_string_hex', e, ty=T_STR), meth('to_string_binary', e, ty=T_STR), tag='hx'))
            g.feat('string')


# ----------------------------------------------------------------------------------------------- field widths
FW_LAYOUTS = [[T_U8, T_I64, T_BOOL, T_I32, T_CHAR], [T_BOOL, T_I32, T_U8, T_I64], [T_I32, T_U8, T_U8, T_I64, T_BOOL],
              [T_CHAR, T_U8, T_I64, T_U8], [T_U8, T_U8, T_I32, T_BOOL, T_BOOL, T_I64], [T_I64, T_U8, T_I32, T_U8],
              [T_BOOL, T_CHAR, T_BOOL, T_I32], [T_U8, T_I32, T_U8, T_I32, T_U8]]
FW_ONES = {T_U8: 255, T_BOOL: True, T_I32: -1, T_I64: -1, T_CHAR: 0x10FFFF}
FW_VALS = {T_U8: [0, 0x80, 0x7F, 1, 0xFE], T_BOOL: [False, True], T_I32: [0, 0x80, 2 ** 31 - 1, -2 ** 31, 0xFF, -256, 0x7FFF8000],
           T_I64: [0, 0x80, 2 ** 63 - 1, -2 ** 63, 0xFFFFFFFF, -4294967296, 0x0102030405060708, 0xFF],
           T_CHAR: [0, 0x61, 0xFF, 0xFFFF, 0x10000, 0x80]}


def fw_lit(g, t, v):
    if t == T_CHAR:
        return char_expr(g, v)
    return lit(t, v)


def fw_shown(e, t):
    return meth('to_int32', e, ty=T_I32) if t == T_CHAR else e


def s_fieldwidth(g, sc, out, ctx):
    """records mixing UInt8 / Bool / Int32 / Int64 / Char fields in orders that need padding: every field starts as
    all-ones, then each is written with a boundary value in ascending and in descending field order and everything is
    read back after every pass (a store wider than its field damages the neighbour written before it); the same record
    lives in a local, a class, a class field, an array element, a tuple, an enum payload, a captured variable, a global"""
    r = g.r
    layout = r.choice(FW_LAYOUTS)
    home = r.choice(['local', 'class', 'class-field', 'array-elem', 'tuple', 'enum', 'captured', 'global'])
    g.feat('fieldwidth', 'fw-' + home)
    g.boundary = True
    nf = len(layout)
    ones = [fw_lit(g, t, FW_ONES[t]) for t in layout]
    passes = [[r.choice(FW_VALS[t]) for t in layout] for _ in range(2)]
    if home == 'tuple':
        ty = t_tuple(*layout)
        nm = g.fresh('ft')
        out.append(let(nm, ty, N('tuple', *ones, ty=ty), mut=True))
        place = lambda j: N('tget', var(nm, ty), j, ty=layout[j])
    elif home == 'enum':
        en = g.fresh('Fe')
        g.decls.append(dict(k='enum', name=en, variants=[('A', list(layout)), ('B', [T_U8]), ('C', [])]))
        ety = t_enum(en)
        names = ['w%d' % j for j in range(nf)]
        fn = g.fresh('fe')
        marms = [(('pvariant', en, 'A') + tuple(('pvar', x) for x in names),
                  block(g.show(*[fw_shown(var(x, t), t) for x, t in zip(names, layout)], tag='A'))),
                 (('pvariant', en, 'B', ('pvar', 'b')), block(g.show(var('b', T_U8), tag='B'))),
                 (('pvariant', en, 'C'), block(println(template('C'))))]
        g.decls.append(fn_decl(fn, [('e', ety)], T_UNIT, block(N('match', var('e', ety), marms))))
        for vals in [None] + passes:
            fs = ones if vals is None else [fw_lit(g, t, v) for t, v in zip(layout, vals)]
            out.append(call(fn, N('variant', en, 'A', *fs, ty=ety), ty=T_UNIT))
        # an array of such values next to the small variants
        aty = t_array(ety)
        arr = g.fresh('fa')
        out.append(let(arr, aty, scall(aty, 'new', N('variant', en, 'B', lit(T_U8, 0x80), ty=ety),
                                       N('variant', en, 'A', *[fw_lit(g, t, v) for t, v in zip(layout, passes[0])], ty=ety),
                                       N('variant', en, 'C', ty=ety), ty=aty)))
        out.append(assign(N('index', var(arr, aty), lit(T_I64, 0), ty=ety), N('index', var(arr, aty), lit(T_I64, 1), ty=ety)))
        k = g.fresh('k')
        out.append(N('for', k, lit(T_I64, 0), lit(T_I64, 3), block(call(fn, N('index', var(arr, aty), var(k, T_I64), ty=ety), ty=T_UNIT))))
        g.feat('enum', 'match', 'array', 'for')
        return
    else:
        as_class = home == 'class'
        sn = g.fresh('Fw')
        fields = [('w%d' % j, t) for j, t in enumerate(layout)]
        g.decls.append(dict(k='class' if as_class else 'struct', name=sn, fields=fields))
        ty = t_class(sn) if as_class else t_struct(sn)
        mk = N('new', sn, list(zip([f for f, _ in fields], ones)), ty=ty)
        if home in ('local', 'class', 'captured'):
            nm = g.fresh('fw')
            out.append(let(nm, ty, mk, mut=not as_class))
            root = lambda: var(nm, ty)
        elif home == 'class-field':
            cn = g.fresh('Fh')
            g.decls.append(dict(k='class', name=cn, fields=[('pre', T_U8), ('st', ty), ('post', T_U8)]))
            nm = g.fresh('fh')
            cty = t_class(cn)
            out.append(let(nm, cty, N('new', cn, [('pre', lit(T_U8, 0x55)), ('st', mk), ('post', lit(T_U8, 0xAA))], ty=cty)))
            root = lambda: N('field', var(nm, cty), 'st', ty=ty)
        elif home == 'array-elem':
            aty = t_array(ty)
            nm = g.fresh('fa')
            ln = r.choice([1, 2, 3])
            idx = r.randrange(ln)
            out.append(let(nm, aty, scall(aty, 'fill', lit(T_I64, ln), mk, ty=aty)))
            root = lambda: N('index', var(nm, aty), lit(T_I64, idx), ty=ty)
        else:
            nm = 'GW%d' % g.uid
            g.uid += 1
            g.decls.insert(len(g.decls), dict(k='global', name=nm, ty=ty, mut=True, init=mk))
            root = lambda: var(nm, ty)
            g.feat('global')
        place = lambda j: N('field', root(), fields[j][0], ty=layout[j])
    show_all = lambda tag: out.append(g.show(*[fw_shown(place(j), layout[j]) for j in range(nf)], tag=tag))
    if home == 'captured':
        # the record is a captured variable of a lambda that writes it; the enclosing function reads it
        fty = t_fn([T_I64], T_I64)
        f = g.fresh('f')
        vals = passes[0]
        body = [assign(place(j), fw_lit(g, layout[j], vals[j])) for j in range(nf)]
        body.append(binop('add', var('x', T_I64), lit(T_I64, 1), ty=T_I64))
        out.append(let(f, fty, N('lambda', [('x', T_I64)], T_I64, block(*body), ty=fty)))
        show_all('w0')
        out.append(g.show(N('callv', var(f, fty), lit(T_I64, 1), ty=T_I64), tag='cl'))
        show_all('w1')
        g.feat('lambda', 'capture-mut')
        passes = passes[1:]
    else:
        show_all('w0')
    for pi, vals in enumerate(passes):
        order = list(range(nf)) if pi % 2 == 0 else list(range(nf - 1, -1, -1))
        for j in order:
            out.append(assign(place(j), fw_lit(g, layout[j], vals[j])))
        show_all('w%d' % (pi + 2))
    # one more single store between two reads: the two neighbours must keep their values
    j = r.randrange(nf)
    out.append(assign(place(j), fw_lit(g, layout[j], FW_ONES[layout[j]])))
    show_all('w9')
    if home in ('local', 'array-elem', 'class-field', 'global'):
        # a copy of the record is a value: changing the copy leaves the original
        cp = g.fresh('fw')
        out.append(let(cp, ty, root(), mut=True))
        out.append(assign(N('field', var(cp, ty), fields[j][0], ty=layout[j]), fw_lit(g, layout[j], r.choice(FW_VALS[layout[j]]))))
        out.append(g.show(fw_shown(N('field', var(cp, ty), fields[j][0], ty=layout[j]), layout[j]), fw_shown(place(j), layout[j]), tag='cp'))
        g.feat('struct-copy')
    g.feat('struct' if home != 'class' else 'class')


def s_option(g, sc, out, ctx):
    r = g.r
    t = r.choice([T_I32, T_I64, T_BOOL, T_CHAR])
    ty = t_option(t)
    nm = g.fresh('o')
    out.append(let(nm, ty, g.expr(sc, ty, 2)))
    sc.add(Var(nm, ty))
    g.feat('option', 'match')
    x = g.fresh('b')
    out.append(N('match', var(nm, ty), [(('pvariant', 'Option', 'Some', ('pvar', x)), block(g.show(var(x, t), tag='some'))),
                                        (('pvariant', 'Option', 'None'), block(println(template('none'))))]))
    out.append(g.show(meth('is_some', var(nm, ty), ty=T_BOOL), meth('is_none', var(nm, ty), ty=T_BOOL),
                      meth('unwrap_or', var(nm, ty), g.expr(sc, t, 1), ty=t)))
    if t in INT_RANGE and r.random() < 0.5:
        # value-level match as an expression
        e = N('match', var(nm, ty), [(('pvariant', 'Option', 'Some', ('pvar', x)), var(x, t)),
                                     (('pvariant', 'Option', 'None'), lit(t, 7))], ty=t)
        out.append(g.show(e))
    if r.random() < 0.3:
        g.feat('conv')
        out.append(g.show(N('match', meth('to_char', g.int_expr(sc, T_I32, 2)[0], ty=t_option(T_CHAR)),
                            [(('pvariant', 'Option', 'Some', ('pvar', x)), var(x, T_CHAR)),
                             (('pvariant', 'Option', 'None'), lit(T_CHAR, ord('?')))], ty=T_CHAR)))


def s_array(g, sc, out, ctx):
    r = g.r
    t = r.choice([T_I32, T_I64, T_I64, T_U8, T_BOOL, T_CHAR])
    ty = t_array(t)
    nm = g.fresh('a')
    n = r.randint(1, 6)
    c = r.random()
    if c < 0.35:
        out.append(let(nm, ty, scall(ty, 'zero', lit(T_I64, n), ty=ty)))
    elif c < 0.7:
        out.append(let(nm, ty, scall(ty, 'fill', lit(T_I64, n), g.expr(sc, t, 2), ty=ty)))
    else:
        out.append(let(nm, ty, scall(ty, 'new', *[g.expr(sc, t, 2) for _ in range(n)], ty=ty)))
    g.feat('array')
    for _ in range(r.randint(1, 3)):
        idx = lit(T_I64, r.randrange(n))
        if r.random() < 0.4:
            e, lo, hi = g.int_expr(sc, T_I64, 2)
            # ((e % n) + n) % n  is in [0, n)
            idx = binop('mod', binop('add', binop('mod', e, lit(T_I64, n), ty=T_I64), lit(T_I64, n), ty=T_I64),
                        lit(T_I64, n), ty=T_I64)
        out.append(assign(N('index', var(nm, ty), idx, ty=t), g.expr(sc, t, 2)))
    al = g.fresh('a')
    out.append(let(al, ty, var(nm, ty)))
    k = g.fresh('k')
    out.append(N('for', k, lit(T_I64, 0), meth('size', var(al, ty), ty=T_I64),
                 block(print_(template(N('index', var(al, ty), var(k, T_I64), ty=t), ',')))))
    out.append(g.show(meth('size', var(nm, ty), ty=T_I64)))
    g.feat('for', 'alias')


def s_vec(g, sc, out, ctx):
    r = g.r
    t = r.choice([T_I32, T_I64, T_BOOL, T_STR])
    ty = t_vec(t)
    nm = g.fresh('w')
    out.append(let(nm, ty, scall(ty, 'new', ty=ty)))
    n = r.randint(0, 5)
    for _ in range(n):
        out.append(N('meth', 'push', var(nm, ty), g.expr(sc, t, 2), ty=T_UNIT))
    g.feat('vec')
    if n:
        out.append(assign(N('index', var(nm, ty), lit(T_I64, r.randrange(n)), ty=t), g.expr(sc, t, 1)))
        out.append(g.show(N('index', var(nm, ty), lit(T_I64, r.randrange(n)), ty=t), meth('size', var(nm, ty), ty=T_I64)))
    x = g.fresh('b')
    for _ in range(r.randint(0, 2)):
        out.append(N('match', meth('pop', var(nm, ty), ty=t_option(t)),
                     [(('pvariant', 'Option', 'Some', ('pvar', x)), block(g.show(var(x, t), tag='pop'))),
                      (('pvariant', 'Option', 'None'), block(println(template('empty'))))]))
        g.feat('option', 'match')
    out.append(g.show(meth('size', var(nm, ty), ty=T_I64), meth('is_empty', var(nm, ty), ty=T_BOOL)))


def s_lambda(g, sc, out, ctx):
    r = g.r
    ty = r.choice([T_I32, T_I64])
    cap = new_int_var(g, sc, out, mut=False, ty=ty, d=1)
    cnt = g.fresh('n')
    out.append(let(cnt, ty, lit(ty, r.randint(0, 5)), mut=True))
    cv = sc.add(Var(cnt, ty, mut=False, iv=(-10 ** 6, 10 ** 6)))     # not assigned by other generated code
    cv.captured = True
    f = g.fresh('f')
    inner = Scope()
    inner.add(Var('x', ty, iv=(-1000, 1000)))
    inner.add(Var(cap.name, ty, iv=cap.iv))
    g.no_calls += 1
    e, lo, hi = g.int_expr(inner, ty, 2)
    g.no_calls -= 1
    e, lo, hi = g.narrow(e, lo, hi, ty, bound=1000)
    body = block(assign(var(cnt, ty), binop('add', var(cnt, ty), lit(ty, 1), ty=ty)), e)
    fty = t_fn([ty], ty)
    out.append(let(f, fty, N('lambda', [('x', ty)], ty, body, ty=fty)))
    g.feat('lambda', 'capture-mut')
    for _ in range(r.randint(1, 3)):
        rn = g.fresh('r')
        out.append(let(rn, ty, N('callv', var(f, fty), lit(ty, r.randint(-1000, 1000)), ty=ty)))
        out.append(g.show(var(rn, ty), var(cnt, ty)))
    if r.random() < 0.5:
        # outer update is seen by the lambda and vice versa (shared context)
        out.append(assign(var(cnt, ty), lit(ty, 100)))
        out.append(g.show(N('callv', var(f, fty), lit(ty, 1), ty=ty)))
        out.append(g.show(var(cnt, ty)))
    if r.random() < 0.4:
        # higher-order: pass the lambda to a generic identity and call through it
        g.feat('generic')
        h = g.fresh('f')
        out.append(let(h, fty, call('gid', ('targs', fty), var(f, fty), ty=fty)))
        out.append(g.show(N('callv', var(h, fty), lit(ty, 2), ty=ty), var(cnt, ty)))


def s_trait(g, sc, out, ctx):
    r = g.r
    impls = g.traits['Tr0']['impls']
    t = r.choice(impls)
    nm = g.fresh('x')
    out.append(let(nm, t, g.expr(sc, t, 2)))
    sc.add(Var(nm, t))
    c = r.random()
    arg = lit(T_I64, r.randint(-50, 50))
    if c < 0.35:
        g.feat('trait-static', 'generic')
        out.append(g.show(call('gapply', ('targs', t), var(nm, t), arg, ty=T_I64), tag='g'))
    elif c < 0.7:
        g.feat('trait-object')
        o = g.fresh('o')
        out.append(let(o, t_trait('Tr0'), N('as', 'Tr0', var(nm, t), ty=t_trait('Tr0'))))
        out.append(g.show(meth('m', var(o, t_trait('Tr0')), arg, ty=T_I64),
                          meth('twice', var(o, t_trait('Tr0')), lit(T_I64, 3), ty=T_I64), tag='o'))
    else:
        g.feat('trait-object', 'array', 'for')
        tt = t_trait('Tr0')
        arr = g.fresh('a')
        n = r.randint(1, 3)
        out.append(let(arr, t_array(tt), scall(t_array(tt), 'new', *[g.expr(sc, tt, 2) for _ in range(n)], ty=t_array(tt))))
        k = g.fresh('k')
        out.append(N('for', k, lit(T_I64, 0), lit(T_I64, n),
                     block(g.show(meth('m', N('index', var(arr, t_array(tt)), var(k, T_I64), ty=tt), var(k, T_I64), ty=T_I64)))))
    g.feat('method')
    out.append(g.show(meth('m', var(nm, t), arg, ty=T_I64), meth('twice', var(nm, t), arg, ty=T_I64)))


def s_calls(g, sc, out, ctx):
    """nested calls with many arguments, tracers in argument position, recursion"""
    r = g.r
    c = r.random()
    if c < 0.4:
        ret = g.rec_ret
        a, _, _ = g.int_expr(sc, ret, 1)
        g.feat('recursion', 'call', 'return')
        out.append(g.show(call('rec0', lit(T_I64, r.randint(0, 12)), a, ty=ret), tag='rec'))
    else:
        fs = [f for f in g.fns if not f.get('effect')]
        f = r.choice(fs)
        args = []
        for t in f['params']:
            if t in INT_RANGE and r.random() < 0.5:
                e, lo, hi = g.int_expr(sc, t, 1)
                args.append(call('tr' if t == T_I64 else 'tr32', e, ty=t))
                g.feat('evalorder')
            else:
                args.append(g.expr(sc, t, 2))
        g.feat('call')
        if len(args) >= 6:
            g.feat('many-args')
        out.append(g.show(call(f['name'], *args, ty=f['ret']), tag=f['name']))


def s_pressure(g, sc, out, ctx):
    """many simultaneously live locals"""
    r = g.r
    ty = r.choice([T_I32, T_I64])
    vs = []
    for _ in range(r.randint(10, 18)):
        vs.append(new_int_var(g, sc, out, ty=ty, d=1))
    e = None
    lo = hi = 0
    for v in vs:
        t, tlo, thi = g.narrow(var(v.name, ty), v.iv[0], v.iv[1], ty, bound=1000)
        if e is None:
            e, lo, hi = t, tlo, thi
        else:
            op = r.choice(['add', 'sub', 'bxor'])
            if op == 'bxor':
                e = meth('wrapping_add', e, binop('bxor', t, lit(ty, r.randint(0, 255)), ty=ty), ty=ty)
                lo, hi = INT_RANGE[ty]
                e, lo, hi = g.narrow(e, lo, hi, ty, bound=1000)
            else:
                e = binop(op, e, t, ty=ty)
                lo, hi = iv_op(op, lo, hi, tlo, thi)
    g.feat('many-locals')
    out.append(g.show(e, tag='sum'))
    out.append(g.show(*[var(v.name, ty) for v in vs[:6]]))


def s_probe(g, sc, out, ctx):
    """one checked operation on boundary constants whose outcome is known not to trap here"""
    for _ in range(20):
        p = make_probe(g, sc)
        if p[1][0] == 'ok':
            out.append(g.show(p[0], tag='p'))
            g.boundary = True
            g.feat('boundary')
            return


def make_probe(g, sc, want_trap=None):
    """(expr, ('ok', v) | ('trap', kind)): a single checked op at an edge; operands are literals, locals
    holding the literals, or go through an identity call (so the optimizer cannot always fold them)"""
    r = g.r
    ty = r.choice([T_I32, T_I64])
    lo_t, hi_t = INT_RANGE[ty]
    for _ in range(200):
        op = r.choice(['add', 'sub', 'mul', 'div', 'mod', 'shl', 'shr', 'sar', 'neg'])
        a = r.choice(boundary_consts(ty))
        if op == 'neg':
            res = ('ok', -a) if a != lo_t else ('trap', 'overflow')
            b = None
        elif op in ('shl', 'shr', 'sar'):
            b = r.choice([-1, 0, 1, BITS[ty] - 1, BITS[ty], BITS[ty] + 1, 31, 32, 33, 63, 64, 65, r.randint(-1, 65)])
            res = py_binop(ty, op, a, b)
        else:
            b = r.choice(boundary_consts(ty)) if op in ('add', 'sub', 'mul') else r.choice([0, -1, 1, 2, -2, lo_t, hi_t, 3, 10])
            res = py_binop(ty, op, a, b)
        if want_trap is None or (res[0] == 'trap' and res[1] == want_trap) or (want_trap == 'ok' and res[0] == 'ok'):
            break
    else:
        return None

    def operand(v, t):
        c = r.random()
        if c < 0.4:
            return lit(t, v)
        if c < 0.7:
            return call('gid', ('targs', t), lit(t, v), ty=t)
        return call('tr' if t == T_I64 else 'tr32', lit(t, v), ty=t) if r.random() < 0.5 else lit(t, v)
    ea = operand(a, ty)
    if op == 'neg':
        return unop('neg', ea, ty=ty), res, op
    eb = operand(b, T_I32 if op in ('shl', 'shr', 'sar') else ty)
    g.feat({'shl': 'shift', 'shr': 'shift', 'sar': 'shift', 'div': 'divmod', 'mod': 'divmod'}.get(
        op, 'arith32' if ty == T_I32 else 'arith64'))
    return binop(op, ea, eb, ty=ty), res, op


def s_global(g, sc, out, ctx):
    if not getattr(g, 'globals', None):
        return
    r = g.r
    nm, ty, mut = r.choice(g.globals)
    g.feat('global')
    if mut:
        out.append(assign(var(nm, ty), meth('wrapping_add', var(nm, ty), lit(ty, r.randint(-5, 5)), ty=ty)))
    out.append(g.show(var(nm, ty), tag=nm))


def s_return(g, sc, out, ctx):
    pass


SCENARIOS = [(s_lets, 5), (s_print, 4), (s_assign, 3), (s_if, 3), (s_while, 2), (s_for, 2), (s_tuple, 2),
             (s_struct, 2), (s_class, 2), (s_enum, 2), (s_option, 2), (s_array, 2), (s_vec, 2), (s_lambda, 2),
             (s_trait, 2), (s_calls, 3), (s_pressure, 1), (s_probe, 4), (s_global, 1), (s_intmatch, 2), (s_aggarray, 2),
             (s_charstrmatch, 2), (s_loops, 2), (s_convert, 2), (s_fieldwidth, 2)]
NEW_SCENARIOS = ['s_aggarray', 's_charstrmatch', 's_loops', 's_convert', 's_fieldwidth']
SIMPLE = [s_lets, s_print, s_assign, s_probe, s_calls, s_if]


def gen_block(g, sc, ctx, n):
    r = g.r
    out = []
    pool = SCENARIOS if ctx['depth'] < 2 else [(f, 1) for f in SIMPLE if f is not s_if]
    if ctx.get('only'):
        pool = [(f, w) for f, w in SCENARIOS if f.__name__ in ctx['only']]
    fs = [f for f, w in pool]
    ws = [w for f, w in pool]
    for _ in range(n):
        f = r.choices(fs, ws)[0]
        f(g, sc, out, ctx)
    return block(*out)


# ----------------------------------------------------------------------------------------------- endings
def ending(g, sc, kind):
    """statements that end the run in a chosen way; returns (stmts, expect)"""
    r = g.r
    out = []
    if kind in ('overflow', 'div0', 'shift'):
        for _ in range(50):
            p = make_probe(g, sc, want_trap=kind)
            if p:
                break
        g.boundary = True
        g.feat('boundary', 'trap:' + kind)
        c = r.random()
        if c < 0.4:
            out.append(g.show(p[0], tag='t'))
        elif c < 0.7:
            # the trapping operand sits between two traced arguments: only the first trace may appear
            out.append(g.show(call('tr', lit(T_I64, 1), ty=T_I64), p[0], call('tr', lit(T_I64, 2), ty=T_I64), tag='t'))
            g.feat('evalorder')
        else:
            nm = g.fresh('v')
            out.append(let(nm, p[0].ty, p[0]))
            out.append(g.show(var(nm, p[0].ty)))
        out.append(println(template('not reached')))
        if r.random() < 0.15:
            # a partial line printed before the trap (the runtime must not lose it)
            out.insert(0, print_(template('partial')))
            g.feat('partial-line-before-trap')
        return out, 'trap:' + kind
    if kind == 'index':
        t = r.choice([T_I32, T_I64, T_U8])
        ty = t_array(t)
        nm = g.fresh('a')
        n = r.randint(0, 4)
        out.append(let(nm, ty, scall(ty, 'zero', lit(T_I64, n), ty=ty)))
        bad = r.choice([n, n + 1, -1, 2 ** 31, -2 ** 63, 2 ** 63 - 1, 2 ** 32])
        idx = lit(T_I64, bad) if r.random() < 0.6 else call('tr', lit(T_I64, bad), ty=T_I64)
        g.feat('array', 'trap:index')
        if r.random() < 0.5:
            out.append(g.show(N('index', var(nm, ty), idx, ty=t)))
        else:
            # rhs is evaluated before the bounds check of the store
            rhs = lit(t, 1)
            if t == T_I64:
                rhs = call('tr', lit(T_I64, 5), ty=T_I64)
            out.append(assign(N('index', var(nm, ty), idx, ty=t), rhs))
        out.append(println(template('not reached')))
        return out, 'trap:index'
    if kind == 'assert':
        a, _, _ = g.int_expr(sc, T_I64, 2)
        g.feat('trap:assert')
        out.append(N('assert', binop('ne', a, a, ty=T_BOOL)) if r.random() < 0.5 else N('assert', lit(T_BOOL, False)))
        out.append(println(template('not reached')))
        return out, 'trap:assert'
    if kind == 'fatal':
        c = r.random()
        g.feat('fatal')
        if c < 0.35:
            ty = t_vec(T_I64)
            nm = g.fresh('w')
            out.append(let(nm, ty, scall(ty, 'new', ty=ty)))
            out.append(N('meth', 'push', var(nm, ty), lit(T_I64, 1), ty=T_UNIT))
            out.append(g.show(N('index', var(nm, ty), lit(T_I64, r.choice([1, -1, 5])), ty=T_I64)))
            g.feat('vec')
        elif c < 0.7:
            ty = t_option(T_I64)
            nm = g.fresh('o')
            out.append(let(nm, ty, N('variant', 'Option', 'None', ty=ty)))
            out.append(g.show(meth('get_or_panic', var(nm, ty), ty=T_I64)))
            g.feat('option')
        else:
            out.append(call('unreachable', ty=T_UNIT))
        out.append(println(template('not reached')))
        return out, 'fatal'
    if kind == 'exit':
        n = r.choice([0, 1, 2, 7, 42, 100, 255])
        out.append(call('exit', lit(T_I32, n), ty=T_UNIT))
        out.append(println(template('not reached')))
        g.feat('exit')
        return out, 'exit:%d' % n
    return out, None


ENDINGS = ['overflow', 'div0', 'shift', 'index', 'assert', 'fatal', 'exit']


def gen_program(seed, index, kind=None, only=None):
    """Program number `index` of the run with this seed.  kind: None (chosen from index), 'normal', or an
    ending in ENDINGS."""
    r = random.Random('%s/%s' % (seed, index))
    name = 'p%d_%d' % (seed, index)
    g = Gen(r, name)
    if kind is None:
        kind = 'normal' if index % 3 != 2 else ENDINGS[(index // 3) % len(ENDINGS)]
    g.globals = []
    if r.random() < 0.4:
        for i in range(r.randint(1, 2)):
            ty = r.choice([T_I32, T_I64])
            mut = r.random() < 0.5
            g.globals.append(('G%d' % i, ty, mut))
            g.decls.append(dict(k='global', name='G%d' % i, ty=ty, mut=mut, init=lit(ty, r.randint(-100, 100))))
    add_decls(g)
    sc = Scope()
    forced = None
    if only is None and kind == 'normal' and index % 9 == 4:
        # every ninth program concentrates on integer matches (jump-table / binary-search lowering at its edges)
        only = ['s_intmatch', 's_probe', 's_lets']
    if only is None and kind == 'normal' and index % 9 == 7:
        # ... and every ninth one on one of the scenarios around aggregates in arrays, literal matches on Char / String /
        # tuples, loop forms, conversions, field widths (in turn), so that each of them is present in every run
        forced = NEW_SCENARIOS[(index // 9) % len(NEW_SCENARIOS)]
        only = [forced, 's_probe', 's_lets']
    ctx = dict(depth=0, only=only)
    n = r.randint(3, 7) if kind == 'normal' else r.randint(1, 4)
    pre = []
    if forced:
        globals()[forced](g, sc, pre, dict(ctx, forced=True))          # at least one instance, ahead of the random statements
    body = gen_block(g, sc, ctx, n)
    stmts = pre + list(body.a)
    expect = None
    ret = T_UNIT
    if kind != 'normal':
        end, expect = ending(g, sc, kind)
        stmts += end
    elif r.random() < 0.08:
        # main returns an Int32: the exit status
        code = r.choice([0, 3, 77, 255, 256, -1])
        stmts.append(lit(T_I32, code))
        ret = T_I32
        expect = 'exit:%d' % (code % 256)
        g.feat('main-status')
    g.decls.append(fn_decl('main', [], ret, block(*stmts)))
    return Program(name, g.decls, g.features, boundary=g.boundary, expect=expect, kind=kind)



# ----------------------------------------------------------------------------------------------- C02: hostile arguments
class RawProgram:
    """a hand-templated Dora program (no S-expression twin): `family`/`case` name the finding key"""

    def __init__(self, name, dora, family, case, note=''):
        self.name = name
        self.dora = 'use std::string::Stringable;\n\n' + dora
        self.sexp = None
        self.features = {'hostile:' + family}
        self.boundary = True
        self.expect = None
        self.kind = 'hostile'
        self.family = family
        self.case = case
        self.note = note
        self.decls = None


LEN_CLASSES = [('neg1', '(-1i64)'), ('min', 'Int64::min_value()'), ('2p31', '2147483648i64'),
               ('2p61m1', '2305843009213693951i64'), ('2p61p1', '2305843009213693953i64'),
               ('max', 'Int64::max_value()'), ('neg5', '(-5i64)'), ('2p60', '1152921504606846976i64')]


def lenlit(x):
    return x


def hostile_programs(tier='quick'):
    """Boundary-value calls of stdlib entry points and intrinsics.  Every program prints what it gets and then
    USES the result, so a wrong allocation shows as a silent success, a trap or a crash."""
    out = []

    def add(family, case, body, note=''):
        out.append(RawProgram('h_%s_%s' % (family.replace('-', ''), case.replace('=', '').replace(':', '_').replace('-', 'm')),
                              'fn main() {\n%s}\n' % ''.join('    ' + l + '\n' for l in body), family, case, note))
    # --- array allocation with extreme lengths (the length goes through a function so it is not a literal)
    elems = [('Int64', '7i64'), ('UInt8', '7u8'), ('Int32', '7i32')] if tier == 'thorough' else [('Int64', '7i64'), ('UInt8', '7u8')]
    for cls, l in LEN_CLASSES:
        if tier == 'quick' and cls in ('neg5', '2p60', 'min'):
            continue
        for t, v in elems:
            ctors = [('zero', 'Array[%s]::zero(n)' % t)]
            if t == 'Int64' or tier == 'thorough':
                ctors.append(('fill', 'Array[%s]::fill(n, %s)' % (t, v)))
            for cn, ce in ctors:
                add('array-new', 'len=%s:%s:%s' % (cls, t, cn),
                    ['let n = %s;' % l, 'let a = %s;' % ce, 'println("size ${a.size()}");',
                     'a(1000000i64) = %s;' % v, 'println("stored ${a(1000000i64)}");'])
        if tier == 'thorough' or cls in ('neg1', '2p61p1', 'max'):
            add('array-new', 'len=%s:Int64:vec-capacity' % cls,
                ['let n = %s;' % l, 'let w = Vec[Int64]::new_with_capacity(n);', 'w.push(1i64);',
                 'println("size ${w.size()} ${w(0i64)}");'])
    # --- indexing
    for cls, idx in [('neg1', '(-1i64)'), ('size', '3i64'), ('max', 'Int64::max_value()'), ('min', 'Int64::min_value()'),
                     ('2p32', '4294967296i64')]:
        add('array-index', 'get:%s' % cls, ['let a = Array[Int64]::fill(3i64, 1i64);', 'let i = %s;' % idx, 'println("${a(i)}");'])
        add('array-index', 'set:%s' % cls, ['let a = Array[UInt8]::zero(3i64);', 'let i = %s;' % idx, 'a(i) = 1u8;', 'println("stored");'])
        add('vec-index', 'get:%s' % cls, ['let w = Vec[Int64]::new(1i64, 2i64, 3i64);', 'let i = %s;' % idx, 'println("${w(i)}");'])
        add('string-index', 'get_byte:%s' % cls, ['let s = "abc";', 'let i = %s;' % idx, 'println("${s.get_byte(i)}");'])
    for cls, (o, l) in [('neg-off', ('(-1i64)', '1i64')), ('neg-len', ('0i64', '(-1i64)')), ('too-long', ('1i64', '3i64')),
                        ('max-len', ('1i64', 'Int64::max_value()')), ('max-off', ('Int64::max_value()', '1i64'))]:
        add('string-slice', 'from_bytes_part:%s' % cls,
            ['let b = "abcd".as_bytes();', 'let o = %s;' % o, 'let l = %s;' % l,
             'let s = String::from_bytes_part(b, o, l);', 'println("${s.is_some()}");'])
    add('vec-ops', 'remove_at:empty', ['let w = Vec[Int64]::new();', 'println("${w.remove_at(0i64)}");'])
    add('vec-ops', 'remove_at:neg', ['let w = Vec[Int64]::new(1i64);', 'println("${w.remove_at(-1i64)}");'])
    add('vec-ops', 'pop:empty', ['let w = Vec[Int64]::new();', 'println("${w.pop().is_none()}");'])
    add('vec-ops', 'insert_at:far', ['let w = Vec[Int64]::new(1i64);', 'w.insert_at(5i64, 2i64);', 'println("${w.size()}");'])
    # --- arithmetic edges through variables
    for t, suf in (('Int32', 'i32'), ('Int64', 'i64')):
        add('arith', 'min-div-neg1:%s' % t, ['let a = %s::min_value();' % t, 'let b = -1%s;' % suf, 'println("${a / b}");'])
        add('arith', 'min-mod-neg1:%s' % t, ['let a = %s::min_value();' % t, 'let b = -1%s;' % suf, 'println("${a % b}");'])
        add('arith', 'div0:%s' % t, ['let a = 5%s;' % suf, 'let b = 0%s;' % suf, 'println("${a / b}");'])
        bits = 32 if t == 'Int32' else 64
        for amt in (-1, bits, bits + 1, 2147483647):
            add('shift', 'shl:%s:%d' % (t, amt), ['let a = 1%s;' % suf, 'let n = %s;' % ('(-1i32)' if amt < 0 else '%di32' % amt),
                                                  'println("${a << n}");'])
        add('shift', 'sar:%s:%d' % (t, bits), ['let a = 1%s;' % suf, 'let n = %di32;' % bits, 'println("${a >> n}");'])
        add('shift', 'shr:%s:%d' % (t, bits), ['let a = 1%s;' % suf, 'let n = %di32;' % bits, 'println("${a >>> n}");'])
    add('conv', 'narrow', ['let a = 4294967297i64;', 'let b = (-1i64);', 'let c = 1114112i32;', 'let d = 55296i32;',
                           'println("${a.to_int32()} ${b.to_uint8()} ${a.to_uint8()} ${c.to_char().is_none()} ${d.to_char().is_none()} ${b.to_char().is_none()}");'])
    add('conv', 'string-to-int', ['println("${"99999999999999999999".to_int64().is_none()} ${"-2147483649".to_int32().is_none()} ${"".to_int32().is_none()} ${"-9223372036854775808".to_int64().is_some()}");'])
    return out


# ----------------------------------------------------------------------------------------------- batching
def batchable(p):
    """May this program be one member of a batch executable?  (its `main` must return unit; programs
    taken verbatim from the repository are never batched)"""
    return getattr(p, 'kind', '') != 'rt' and 'main-status' not in p.features and '\nfn main() {\n' in p.dora


def batch_source(programs):
    """One Dora compile unit holding several programs, each in its own inline module; the batch's `main`
    runs the member named by the first command-line argument.  Linking dominates the cost of a compile, so
    a batch costs one link per back end; every member is still a separate process run ending in its own way
    (value, trap, fatal error, exit)."""
    out = []
    for p in programs:
        out.append('mod %s {' % p.name)
        for line in p.dora.splitlines():
            if line == 'fn main() {':
                line = 'pub fn main() {'
            out.append(('    ' + line) if line else '')
        out.append('}')
        out.append('')
    out.append('fn main() {')
    out.append('    let which = std::argv(0i32);')
    for i, p in enumerate(programs):
        out.append('    %sif which == "%s" {' % ('' if i == 0 else '} else ', p.name))
        out.append('        %s::main();' % p.name)
    out.append('    } else {')
    out.append('        std::fatal_error("no such batch member");')
    out.append('    }')
    out.append('}')
    return '\n'.join(out) + '\n'


# ----------------------------------------------------------------------------------------------- API for C14 / C05
TRAPPING_OPS = {'add', 'sub', 'mul', 'div', 'mod', 'shl', 'shr', 'sar'}


def walk(n, f):
    """pre-order walk over an AST node (N), calling f(node); descends into blocks, arms, lambdas, field inits"""
    if not isinstance(n, N):
        return
    f(n)
    for a in n.a:
        if isinstance(a, N):
            walk(a, f)
        elif isinstance(a, list):
            for x in a:
                if isinstance(x, N):
                    walk(x, f)
                elif isinstance(x, tuple):
                    for y in x:
                        walk(y, f)


def program_functions(decls):
    """[(qualified name, decl dict)] of every function / method body in a program"""
    out = []
    for d in decls:
        if d['k'] == 'fn':
            out.append((d['name'], d))
        elif d['k'] in ('impl', 'trait'):
            for m in d['methods']:
                if m.get('body') is not None:
                    out.append(('%s::%s' % (d.get('type') or d['name'], m['name']), m))
    return out


def op_lines(prog):
    """C14: every operation that can trap, with the function that contains it and its source line (lines are those
    of prog.dora; one statement per line).  -> [dict(fn, line, op, kind)]; kind in
    checked-arith | neg | index | assert | call"""
    res = []
    for name, d in program_functions(prog.decls):
        def f(n, name=name):
            if n.k == 'bin' and n.a[0] in TRAPPING_OPS:
                res.append(dict(fn=name, line=n.line, op=n.a[0], kind='checked-arith'))
            elif n.k == 'un' and n.a[0] == 'neg':
                res.append(dict(fn=name, line=n.line, op='neg', kind='neg'))
            elif n.k == 'index':
                res.append(dict(fn=name, line=n.line, op='index', kind='index'))
            elif n.k == 'assert':
                res.append(dict(fn=name, line=n.line, op='assert', kind='assert'))
            elif n.k in ('call', 'meth', 'callv', 'scall'):
                res.append(dict(fn=name, line=n.line, op=(n.a[0] if n.k != 'scall' else n.a[1]) if n.k != 'callv' else '<lambda>',
                                kind='call'))
        walk(d['body'], f)
    return res


FAULTS = ['int-width', 'bool-for-int', 'if-cond-int', 'arity', 'unknown-field', 'assign-immutable', 'unknown-variable']


def single_fault_mutants(seed, index, count=4):
    """C05: type-incorrect variants of gen_program(seed, index), each with exactly ONE fault of a named kind that
    the front end must reject (the original is well typed).  -> [RawProgram with .fault, .fault_line]
    Faults: int-width (Int32 literal where Int64 is required or vice versa), bool-for-int, if-cond-int,
    arity (last argument of a call of a helper dropped), unknown-field, assign-immutable, unknown-variable."""
    import copy
    base = gen_program(seed, index)
    r = random.Random('mut/%s/%s' % (seed, index))
    out = []
    kinds = FAULTS[:]
    r.shuffle(kinds)
    for kind in kinds:
        if len(out) >= count:
            break
        decls = copy.deepcopy(base.decls)
        main = [d for d in decls if d['k'] == 'fn' and d['name'] == 'main'][0]
        cands = []

        def f(n):
            if kind in ('int-width', 'bool-for-int') and n.k == 'bin' and n.a[0] in ('add', 'sub', 'mul') and n.ty in INT_RANGE:
                cands.append(n)
            elif kind == 'if-cond-int' and n.k == 'if':
                cands.append(n)
            elif kind == 'arity' and n.k == 'call' and isinstance(n.a[0], str) and n.a[0].startswith('h') and len(n.a) > 1:
                cands.append(n)
            elif kind == 'unknown-field' and n.k == 'field':
                cands.append(n)
            elif kind == 'unknown-variable' and n.k == 'var' and n.a[0] != 'self':
                cands.append(n)
            elif kind == 'assign-immutable' and n.k == 'let' and not n.a[3] and n.a[1] in INT_RANGE:
                cands.append(n)
        walk(main['body'], f)
        if not cands:
            continue
        n = r.choice(cands)
        if kind == 'int-width':
            other = T_I64 if n.ty == T_I32 else T_I32
            n.a[2] = lit(other, 1)
        elif kind == 'bool-for-int':
            n.a[2] = lit(T_BOOL, True)
        elif kind == 'if-cond-int':
            n.a[0] = lit(T_I64, 1)
        elif kind == 'arity':
            n.a.pop()
        elif kind == 'unknown-field':
            n.a[1] = 'no_such_field'
        elif kind == 'unknown-variable':
            n.a[0] = 'no_such_variable'
        elif kind == 'assign-immutable':
            # append an assignment to the immutable variable right after main's statements
            main['body'].a.append(assign(var(n.a[0], n.a[1]), lit(n.a[1], 1)))
        try:
            text = emit_dora(decls)
        except Exception:
            continue
        rp = RawProgram('%s_mut_%s' % (base.name, kind.replace('-', '')), '', 'mutant', kind)
        rp.dora = text
        rp.fault = kind
        rp.fault_line = n.line
        rp.kind = 'mutant'
        out.append(rp)
    return out

if __name__ == '__main__':
    import sys
    seed = int(sys.argv[1]) if len(sys.argv) > 1 else 1
    idx = int(sys.argv[2]) if len(sys.argv) > 2 else 0
    p = gen_program(seed, idx)
    sys.stdout.write(p.dora)
    sys.stderr.write(p.sexp + '\n')
