"""C09 workloads: small multi-threaded Dora programs with computable results.

Every program prints exactly one line `RESULT <numbers>`; the numbers are the same in EVERY legal
interleaving (sums, counts, order-sensitive hashes of an order that the synchronisation forces), so the
expected standard output is computed here, without running anything.

    generate(rng, family=None)        -> (source_text, expected_stdout, family_name, params_dict)
    generate_many(seed, n)            -> [(index, source_text, expected_stdout, family_name, params_dict)]

All randomness comes from the `random.Random` passed in (generate_many derives one generator per
program from `seed` and the program's index, so program i is the same for every n).

Families (thread count 2..4 including or excluding main, at most ~200 synchronising operations):
  mutex_counter      T threads add a weight to a plain field inside `mtx.lock`
  mutex_split_alloc  the same with the read and the write in two statements and an allocation (and forced
                     collections) between them, garbage allocated in the loop: the collector runs and moves
                     the mutex while other threads are queued on it
  mutex_striped      2..3 mutexes, each guards its own counter; iteration i of thread t uses stripe (i+t)%M
  atomic_fetch_add   fetch_add on AtomicInt32/AtomicInt64: final value and the sum of all returned old values
  atomic_cas         compare_exchange retry loop (add a weight / claim a ticket)
  atomic_token       exchange as a spin lock around a plain field, or a token value handed around by exchange
  cond_queue         bounded buffer (1 or 2 slots) with Mutex + Condition, producers / consumers
  cond_pingpong      T threads take turns in a ring (`while turn != me { cv.wait(mtx) }`), non-commutative update
  cond_barrier       barrier from Mutex + Condition + notify_all, phases of write-slot / read-all-slots
  join_visibility    children write plain fields / fresh arrays, parent joins and reads them
  join_chain         nested spawn/join (chain or binary tree), results combined non-commutatively
"""
import random

FAMILIES = [
    "mutex_counter", "mutex_split_alloc", "mutex_striped",
    "atomic_fetch_add", "atomic_cas", "atomic_token", "atomic_exchange",
    "cond_queue", "cond_pingpong", "cond_barrier",
    "join_visibility", "join_chain",
]

MOD = 1000003


# ----------------------------------------------------------------------------------------------- helpers

def _split_total(rng, total, parts, lo):
    """`parts` integers >= lo adding up to `total`"""
    assert total >= parts * lo
    res = [lo] * parts
    for _ in range(total - parts * lo):
        res[rng.randrange(parts)] += 1
    return res


def _spawn_join(rng, calls, main_call=None, work_before_join=None):
    """main-body lines: spawn one thread per call text, optionally run one call on main, join in a
    shuffled order.  Returns (lines, join_order)."""
    lines = []
    for i, c in enumerate(calls):
        lines.append("    let th%d = std::thread::spawn(|| { %s; });" % (i, c))
    if main_call:
        lines.append("    %s;" % main_call)
    if work_before_join:
        lines += work_before_join
    order = list(range(len(calls)))
    rng.shuffle(order)
    for i in order:
        lines.append("    th%d.join();" % i)
    return lines, order


def _result(nums):
    return "RESULT " + " ".join(str(n) for n in nums) + "\n"


def _print_result(exprs):
    return '    println("RESULT %s");' % " ".join("${%s}" % e for e in exprs)


def _thread_sizes(rng, max_total_ops, lo=5, hi=60):
    t = rng.randint(2, 4)
    per = max(lo, min(hi, max_total_ops // t))
    ns = [rng.randint(lo, per) for _ in range(t)]
    return t, ns


# ----------------------------------------------------------------------------------------------- a. mutex

def gen_mutex_counter(rng):
    t, ns = _thread_sizes(rng, 200)
    ws = [rng.randint(1, 9) for _ in range(t)]
    use_result = rng.random() < 0.6
    main_works = rng.random() < 0.4
    src = []
    src.append("""class Shared {
    mtx: std::Mutex,
    counter: Int64,
    ops: Int64,
    bad: Array[Int64],
}
""")
    if use_result:
        src.append("""fn worker(s: Shared, id: Int64, n: Int64, w: Int64) {
    let mut i = 0;
    let mut last = 0;
    let mut bad = 0;
    while i < n {
        let seen = s.mtx.lock[Int64](||: Int64 {
            s.counter = s.counter + w;
            s.ops = s.ops + 1;
            s.counter
        });
        if seen <= last {
            bad = bad + 1;
        }
        last = seen;
        i = i + 1;
    }
    s.bad(id) = bad;
}
""")
    else:
        src.append("""fn worker(s: Shared, id: Int64, n: Int64, w: Int64) {
    let mut i = 0;
    while i < n {
        s.mtx.lock[()](|| {
            s.counter = s.counter + w;
            s.ops = s.ops + 1;
        });
        i = i + 1;
    }
    s.bad(id) = 0;
}
""")
    nthreads = t - 1 if main_works else t
    calls = ["worker(s, %d, %d, %d)" % (i, ns[i], ws[i]) for i in range(nthreads)]
    main_call = "worker(s, %d, %d, %d)" % (t - 1, ns[t - 1], ws[t - 1]) if main_works else None
    body, order = _spawn_join(rng, calls, main_call)
    src.append("fn main() {")
    src.append("    let s = Shared(mtx = std::Mutex::new(), counter = 0, ops = 0, bad = Array[Int64]::zero(%d));" % t)
    src += body
    src.append("    let mut bad = 0;")
    src.append("    for b in s.bad { bad = bad + b; }")
    src.append(_print_result(["s.counter", "s.ops", "bad"]))
    src.append("}")
    exp = _result([sum(n * w for n, w in zip(ns, ws)), sum(ns), 0])
    params = dict(threads=t, iters=ns, weights=ws, use_result=use_result, main_works=main_works, join_order=order)
    return "\n".join(src) + "\n", exp, params


def gen_mutex_split_alloc(rng):
    t, ns = _thread_sizes(rng, 160, hi=50)
    ws = [rng.randint(1, 9) for _ in range(t)]
    glen = rng.choice([8, 64, 300, 2000])
    tlen = rng.choice([1, 16, 200])
    gc_inside = rng.choice(["none", "full", "minor"])
    gc_outside = rng.choice(["none", "full", "minor"])
    k_in = rng.choice([5, 8, 13])
    k_out = rng.choice([4, 7, 11])
    keep_every = rng.choice([1, 2, 3])
    gc_call = {"full": "std::force_collect();", "minor": "std::force_minor_collect();"}
    src = []
    src.append("""class Shared {
    mtx: std::Mutex,
    counter: Int64,
    ops: Int64,
    kept: Array[Int64],
}
""")
    w = []
    w.append("fn worker(s: Shared, id: Int64, n: Int64, w: Int64) {")
    w.append("    let mut i = 0;")
    w.append("    let mut keep = Array[Int64]::zero(1);")
    w.append("    while i < n {")
    w.append("        let garbage = Array[Int64]::fill(%d, i + id);" % glen)
    w.append("        if i %% %d == 0 {" % keep_every)
    w.append("            keep = garbage;")
    w.append("        }")
    w.append("        s.mtx.lock[()](|| {")
    w.append("            let old = s.counter;")
    w.append("            let tmp = Array[Int64]::zero(%d);" % tlen)
    w.append("            tmp(0) = old;")
    if gc_inside != "none":
        w.append("            if i %% %d == id %% %d {" % (k_in, k_in))
        w.append("                " + gc_call[gc_inside])
        w.append("            }")
    w.append("            s.counter = tmp(0) + w;")
    w.append("            s.ops = s.ops + 1;")
    w.append("        });")
    if gc_outside != "none":
        w.append("        if i %% %d == id %% %d {" % (k_out, k_out))
        w.append("            " + gc_call[gc_outside])
        w.append("        }")
    w.append("        i = i + 1;")
    w.append("    }")
    w.append("    s.kept(id) = keep(0) + keep(keep.size() - 1);")
    w.append("}")
    src.append("\n".join(w) + "\n")
    calls = ["worker(s, %d, %d, %d)" % (i, ns[i], ws[i]) for i in range(t)]
    body, order = _spawn_join(rng, calls)
    src.append("fn main() {")
    # the mutex is allocated right before the threads start: it is still in the young generation when the
    # first collections happen, so it moves while threads are queued on it
    src.append("    let s = Shared(mtx = std::Mutex::new(), counter = 0, ops = 0, kept = Array[Int64]::zero(%d));" % t)
    src += body
    src.append("    let mut kept = 0;")
    src.append("    for b in s.kept { kept = kept + b; }")
    src.append(_print_result(["s.counter", "s.ops", "kept"]))
    src.append("}")
    kept = 0
    for i in range(t):
        last_keep = ((ns[i] - 1) // keep_every) * keep_every     # last i with i % keep_every == 0
        kept += 2 * (last_keep + i)
    exp = _result([sum(n * w_ for n, w_ in zip(ns, ws)), sum(ns), kept])
    params = dict(threads=t, iters=ns, weights=ws, garbage_len=glen, tmp_len=tlen, gc_inside=gc_inside,
                  gc_outside=gc_outside, k_in=k_in, k_out=k_out, keep_every=keep_every, join_order=order)
    return "\n".join(src) + "\n", exp, params


def gen_mutex_striped(rng):
    t, ns = _thread_sizes(rng, 200)
    ws = [rng.randint(1, 9) for _ in range(t)]
    m = rng.randint(2, 3)
    src = []
    src.append("""class Stripe {
    mtx: std::Mutex,
    counter: Int64,
}

fn worker(stripes: Vec[Stripe], id: Int64, n: Int64, w: Int64) {
    let mut i = 0;
    while i < n {
        let st = stripes((i + id) % stripes.size());
        st.mtx.lock[()](|| {
            st.counter = st.counter + w;
        });
        i = i + 1;
    }
}
""")
    calls = ["worker(stripes, %d, %d, %d)" % (i, ns[i], ws[i]) for i in range(t)]
    body, order = _spawn_join(rng, calls)
    src.append("fn main() {")
    src.append("    let stripes = Vec[Stripe]::new();")
    for _ in range(m):
        src.append("    stripes.push(Stripe(mtx = std::Mutex::new(), counter = 0));")
    src += body
    src.append(_print_result(["stripes(%d).counter" % j for j in range(m)]))
    src.append("}")
    totals = [0] * m
    for tid in range(t):
        for i in range(ns[tid]):
            totals[(i + tid) % m] += ws[tid]
    params = dict(threads=t, iters=ns, weights=ws, stripes=m, join_order=order)
    return "\n".join(src) + "\n", _result(totals), params


# ----------------------------------------------------------------------------------------------- b. atomics

def _atomic_ty(width):
    return ("std::AtomicInt32", "Int32", "i32") if width == 32 else ("std::AtomicInt64", "Int64", "i64")


def gen_atomic_fetch_add(rng):
    t, ns = _thread_sizes(rng, 400, hi=100)
    width = rng.choice([32, 64])
    aty, ity, suf = _atomic_ty(width)
    d = rng.choice([1, 1, 2, 3, 5, -1, -4])
    ws = [rng.randint(-6, 9) for _ in range(t)]        # per-thread delta on the second cell
    main_works = rng.random() < 0.3
    src = []
    src.append("""class Shared {
    uniform: %s,
    weighted: %s,
    olds: Array[Int64],
}

fn worker(s: Shared, id: Int64, n: Int64, w: %s) {
    let mut i = 0;
    let mut olds = 0;
    while i < n {
        let old = s.uniform.fetch_add(%d%s);
        olds = olds + old.to_int64();
        s.weighted.fetch_add(w);
        i = i + 1;
    }
    s.olds(id) = olds;
}
""" % (aty, aty, ity, d, suf))
    nthreads = t - 1 if main_works else t
    calls = ["worker(s, %d, %d, %d%s)" % (i, ns[i], ws[i], suf) for i in range(nthreads)]
    main_call = "worker(s, %d, %d, %d%s)" % (t - 1, ns[t - 1], ws[t - 1], suf) if main_works else None
    body, order = _spawn_join(rng, calls, main_call)
    src.append("fn main() {")
    src.append("    let s = Shared(uniform = %s::new(0%s), weighted = %s::new(0%s), olds = Array[Int64]::zero(%d));"
               % (aty, suf, aty, suf, t))
    src += body
    src.append("    let mut olds = 0;")
    src.append("    for b in s.olds { olds = olds + b; }")
    src.append(_print_result(["s.uniform.get()", "s.weighted.get()", "olds"]))
    src.append("}")
    k = sum(ns)
    # the old values returned are exactly 0, d, 2d, ..., (k-1)d, each once
    exp = _result([k * d, sum(n * w for n, w in zip(ns, ws)), d * k * (k - 1) // 2])
    params = dict(threads=t, iters=ns, width=width, delta=d, weights=ws, main_works=main_works, join_order=order)
    if width == 64:
        src[0] = src[0].replace("old.to_int64()", "old")
    return "\n".join(src) + "\n", exp, params


def gen_atomic_exchange(rng):
    """exchange on AtomicInt64 AND AtomicInt32 with values that use the full width: every value stored is handed back
    exactly once (or is the final content), so  sum(returned olds) + final == initial + sum(stored)  for each cell — an
    exchange that moves fewer bits than the cell has breaks the identity."""
    t, ns = _thread_sizes(rng, 300, hi=80)
    base64 = (1 << 40) + 12345
    base32 = (1 << 20) + 77
    init64 = base64 * 3 + 1
    init32 = base32 * 3 + 1
    src = []
    src.append("""class Shared {
    wide: std::AtomicInt64,
    narrow: std::AtomicInt32,
    olds64: Array[Int64],
    olds32: Array[Int64],
}

fn worker(s: Shared, id: Int64, n: Int64) {
    let mut i = 0;
    let mut olds64 = 0;
    let mut olds32 = 0;
    while i < n {
        let v = %d + id * 1000003 + i * 17;
        olds64 = olds64 + s.wide.exchange(v);
        let w = %d + id * 1009 + i * 3;
        olds32 = olds32 + s.narrow.exchange(w.to_int32()).to_int64();
        i = i + 1;
    }
    s.olds64(id) = olds64;
    s.olds32(id) = olds32;
}
""" % (base64, base32))
    calls = ["worker(s, %d, %d)" % (i, ns[i]) for i in range(t)]
    body, order = _spawn_join(rng, calls, None)
    src.append("fn main() {")
    src.append("    let s = Shared(wide = std::AtomicInt64::new(%d), narrow = std::AtomicInt32::new(%di32), "
               "olds64 = Array[Int64]::zero(%d), olds32 = Array[Int64]::zero(%d));" % (init64, init32, t, t))
    src += body
    src.append("    let mut a = 0;")
    src.append("    for b in s.olds64 { a = a + b; }")
    src.append("    let mut c = 0;")
    src.append("    for b in s.olds32 { c = c + b; }")
    src.append(_print_result(["a + s.wide.get()", "c + s.narrow.get().to_int64()"]))
    src.append("}")
    stored64 = sum(base64 + i * 1000003 + k * 17 for i in range(t) for k in range(ns[i]))
    stored32 = sum(base32 + i * 1009 + k * 3 for i in range(t) for k in range(ns[i]))
    exp = _result([init64 + stored64, init32 + stored32])
    params = dict(threads=t, iters=ns, join_order=order)
    return "\n".join(src) + "\n", exp, params


def gen_atomic_cas(rng):
    t, ns = _thread_sizes(rng, 300, hi=80)
    width = rng.choice([32, 64])
    aty, ity, suf = _atomic_ty(width)
    ws = [rng.randint(1, 9) for _ in range(t)]
    mode = rng.choice(["add", "ticket"])
    conv = ".to_int64()" if width == 32 else ""
    src = []
    if mode == "add":
        src.append("""class Shared {
    cell: %s,
    extra: Array[Int64],
}

fn worker(s: Shared, id: Int64, n: Int64, w: %s) {
    let mut i = 0;
    while i < n {
        let mut done = false;
        while !done {
            let old = s.cell.get();
            let prev = s.cell.compare_exchange(old, old + w);
            done = prev == old;
        }
        i = i + 1;
    }
    s.extra(id) = n;
}
""" % (aty, ity))
        extra = sum(ns)
    else:
        # every successful compare_exchange(old, old + 1) claims ticket `old`: all tickets 0..k-1 are claimed
        # exactly once, so the claimed tickets add up to k(k-1)/2
        src.append("""class Shared {
    cell: %s,
    extra: Array[Int64],
}

fn worker(s: Shared, id: Int64, n: Int64) {
    let mut i = 0;
    let mut tickets = 0;
    while i < n {
        let mut expected = s.cell.get();
        let mut done = false;
        while !done {
            let prev = s.cell.compare_exchange(expected, expected + 1%s);
            if prev == expected {
                done = true;
                tickets = tickets + prev%s;
            } else {
                expected = prev;
            }
        }
        i = i + 1;
    }
    s.extra(id) = tickets;
}
""" % (aty, suf, conv))
        k = sum(ns)
        extra = k * (k - 1) // 2
    if mode == "add":
        calls = ["worker(s, %d, %d, %d%s)" % (i, ns[i], ws[i], suf) for i in range(t)]
    else:
        calls = ["worker(s, %d, %d)" % (i, ns[i]) for i in range(t)]
    body, order = _spawn_join(rng, calls)
    src.append("fn main() {")
    src.append("    let s = Shared(cell = %s::new(0%s), extra = Array[Int64]::zero(%d));" % (aty, suf, t))
    src += body
    src.append("    let mut extra = 0;")
    src.append("    for b in s.extra { extra = extra + b; }")
    src.append(_print_result(["s.cell.get()", "extra"]))
    src.append("}")
    final = sum(n * w for n, w in zip(ns, ws)) if mode == "add" else sum(ns)
    params = dict(threads=t, iters=ns, width=width, weights=ws, mode=mode, join_order=order)
    return "\n".join(src) + "\n", _result([final, extra]), params


def gen_atomic_token(rng):
    t, ns = _thread_sizes(rng, 120, hi=40)
    width = rng.choice([32, 64])
    aty, ity, suf = _atomic_ty(width)
    ws = [rng.randint(1, 9) for _ in range(t)]
    mode = rng.choice(["spinlock", "carry"])
    release = rng.choice(["set", "exchange"])
    src = []
    if mode == "spinlock":
        rel = "s.cell.set(0%s);" % suf if release == "set" else "s.cell.exchange(0%s);" % suf
        src.append("""class Shared {
    cell: %s,
    plain: Int64,
    ops: Int64,
}

fn worker(s: Shared, n: Int64, w: Int64) {
    let mut i = 0;
    while i < n {
        while s.cell.exchange(1%s) != 0%s {
        }
        let old = s.plain;
        s.ops = s.ops + 1;
        s.plain = old + w;
        %s
        i = i + 1;
    }
}
""" % (aty, suf, suf, rel))
        calls = ["worker(s, %d, %d)" % (ns[i], ws[i]) for i in range(t)]
        init = "Shared(cell = %s::new(0%s), plain = 0, ops = 0)" % (aty, suf)
        outs = ["s.plain", "s.ops", "s.cell.get()"]
        exp = [sum(n * w for n, w in zip(ns, ws)), sum(ns), 0]
    else:
        # the cell holds a non-zero token or 0 (= somebody has it); whoever takes it owns `plain`
        src.append("""class Shared {
    cell: %s,
    plain: Int64,
    ops: Int64,
}

fn worker(s: Shared, n: Int64, w: %s) {
    let mut i = 0;
    while i < n {
        let mut token = 0%s;
        while token == 0%s {
            token = s.cell.exchange(0%s);
        }
        s.plain = s.plain * 3 %% %d + 1;
        s.ops = s.ops + 1;
        let back = s.cell.exchange(token + w);
        if back != 0%s {
            s.ops = s.ops + 1000000;
        }
        i = i + 1;
    }
}
""" % (aty, ity, suf, suf, suf, MOD, suf))
        calls = ["worker(s, %d, %d%s)" % (ns[i], ws[i], suf) for i in range(t)]
        init = "Shared(cell = %s::new(1%s), plain = 0, ops = 0)" % (aty, suf)
        outs = ["s.cell.get()", "s.plain", "s.ops"]
        p = 0
        for _ in range(sum(ns)):
            p = p * 3 % MOD + 1
        exp = [1 + sum(n * w for n, w in zip(ns, ws)), p, sum(ns)]
    body, order = _spawn_join(rng, calls)
    src.append("fn main() {")
    src.append("    let s = %s;" % init)
    src += body
    src.append(_print_result(outs))
    src.append("}")
    params = dict(threads=t, iters=ns, width=width, weights=ws, mode=mode, release=release, join_order=order)
    return "\n".join(src) + "\n", _result(exp), params


# ----------------------------------------------------------------------------------------------- c. conditions

def gen_cond_queue(rng):
    producers = rng.randint(1, 2)
    consumers = rng.randint(1, 2)
    cap = rng.randint(1, 2)
    ks = [rng.randint(5, 25) for _ in range(producers)]
    total = sum(ks)
    single_cv = rng.random() < 0.3
    notify = "all" if single_cv else rng.choice(["one", "all"])
    notify_inside = rng.random() < 0.5
    termination = rng.choice(["quota", "sentinel"])
    quotas = _split_total(rng, total, consumers, 1)
    steps = [rng.randint(1, 5) for _ in range(producers)]
    fifo_hash = producers == 1 and consumers == 1
    n_in = "            self.%s.notify_" + notify + "();"
    n_out = "        self.%s.notify_" + notify + "();"
    src = []
    q = []
    q.append("""class BQueue {
    mtx: std::Mutex,
    notEmpty: std::Condition,
    notFull: std::Condition,
    buf: Array[Int64],
    head: Int64,
    count: Int64,
    cap: Int64,
}

impl BQueue {
    fn put(v: Int64) {
        self.mtx.lock[()](|| {
            while self.count == self.cap {
                self.notFull.wait(self.mtx);
            }
            let tail = (self.head + self.count) % self.cap;
            self.buf(tail) = v;
            self.count = self.count + 1;""")
    if notify_inside:
        q.append(n_in % "notEmpty")
    q.append("        });")
    if not notify_inside:
        q.append(n_out % "notEmpty")
    q.append("""    }

    fn take(): Int64 {
        let v = self.mtx.lock[Int64](||: Int64 {
            while self.count == 0 {
                self.notEmpty.wait(self.mtx);
            }
            let v = self.buf(self.head);
            self.head = (self.head + 1) % self.cap;
            self.count = self.count - 1;""")
    if notify_inside:
        q.append(n_in % "notFull")
    q.append("            v")
    q.append("        });")
    if not notify_inside:
        q.append(n_out % "notFull")
    q.append("""        v
    }
}

class Cell {
    sum: Int64,
    cnt: Int64,
    bad: Int64,
    hash: Int64,
}

fn producer(q: BQueue, id: Int64, k: Int64, step: Int64) {
    let mut i = 0;
    while i < k {
        q.put(id * 100000 + 1 + i * step);
        i = i + 1;
    }
}

fn consumer(q: BQueue, cell: Cell, quota: Int64) {
    let last = Array[Int64]::zero(%d);
    let mut taken = 0;
    let mut running = true;
    while running {
        if quota >= 0 && taken == quota {
            running = false;
        } else {
            let v = q.take();
            if v < 0 {
                running = false;
            } else {
                taken = taken + 1;
                cell.sum = cell.sum + v;
                cell.cnt = cell.cnt + 1;
                cell.hash = (cell.hash * 31 + v) %% %d;
                let p = v / 100000;
                if v <= last(p) {
                    cell.bad = cell.bad + 1;
                }
                last(p) = v;
            }
        }
    }
}
""" % (producers, MOD))
    src.append("\n".join(q))
    main = ["fn main() {"]
    if single_cv:
        main.append("    let cv = std::Condition::new();")
        cvs = "notEmpty = cv, notFull = cv"
    else:
        cvs = "notEmpty = std::Condition::new(), notFull = std::Condition::new()"
    main.append("    let q = BQueue(mtx = std::Mutex::new(), %s, buf = Array[Int64]::zero(%d), head = 0, count = 0, cap = %d);"
                % (cvs, cap, cap))
    for c in range(consumers):
        main.append("    let cell%d = Cell(sum = 0, cnt = 0, bad = 0, hash = 0);" % c)
    # consumers and producers are started in a shuffled order
    starts = [("p", i) for i in range(producers)] + [("c", i) for i in range(consumers)]
    rng.shuffle(starts)
    for kind, i in starts:
        if kind == "p":
            main.append("    let tp%d = std::thread::spawn(|| { producer(q, %d, %d, %d); });" % (i, i, ks[i], steps[i]))
        else:
            quota = quotas[i] if termination == "quota" else -1
            main.append("    let tc%d = std::thread::spawn(|| { consumer(q, cell%d, %d); });" % (i, i, quota))
    if termination == "sentinel":
        for i in range(producers):
            main.append("    tp%d.join();" % i)
        for _ in range(consumers):
            main.append("    q.put(-1);")
        for i in range(consumers):
            main.append("    tc%d.join();" % i)
    else:
        joins = ["tp%d" % i for i in range(producers)] + ["tc%d" % i for i in range(consumers)]
        rng.shuffle(joins)
        for j in joins:
            main.append("    %s.join();" % j)
    cells = ["cell%d" % c for c in range(consumers)]
    main.append("    let sum = %s;" % " + ".join(c + ".sum" for c in cells))
    main.append("    let cnt = %s;" % " + ".join(c + ".cnt" for c in cells))
    main.append("    let bad = %s;" % " + ".join(c + ".bad" for c in cells))
    outs = ["sum", "cnt", "bad", "q.count"]
    if fifo_hash:
        outs.append("cell0.hash")
    main.append(_print_result(outs))
    main.append("}")
    src.append("\n".join(main))
    items = [[p * 100000 + 1 + i * steps[p] for i in range(ks[p])] for p in range(producers)]
    exp = [sum(sum(x) for x in items), total, 0, 0]
    if fifo_hash:
        h = 0
        for v in items[0]:
            h = (h * 31 + v) % MOD
        exp.append(h)
    params = dict(threads=producers + consumers, producers=producers, consumers=consumers, capacity=cap, items=ks,
                  steps=steps, single_cv=single_cv, notify=notify, notify_inside=notify_inside,
                  termination=termination, quotas=quotas if termination == "quota" else None,
                  start_order=["%s%d" % s for s in starts])
    return "\n".join(src) + "\n", _result(exp), params


def gen_cond_pingpong(rng):
    t = rng.randint(2, 4)
    rounds = rng.randint(4, max(4, 60 // t))
    mode = rng.choice(["shared_all", "per_thread_one"] + (["shared_one"] if t == 2 else []))
    coef = [(rng.randint(2, 97), rng.randint(0, 999)) for _ in range(t)]
    first = rng.randrange(t)
    src = []
    if mode == "per_thread_one":
        wait = "s.cvs(me).wait(s.mtx);"
        wake = "s.cvs(next).notify_one();"
    else:
        wait = "s.cv.wait(s.mtx);"
        wake = "s.cv.notify_all();" if mode == "shared_all" else "s.cv.notify_one();"
    src.append("""class Shared {
    mtx: std::Mutex,
    cv: std::Condition,
    cvs: Vec[std::Condition],
    turn: Int64,
    x: Int64,
    steps: Int64,
}

fn player(s: Shared, me: Int64, players: Int64, rounds: Int64, a: Int64, b: Int64) {
    let next = (me + 1) %% players;
    let mut r = 0;
    while r < rounds {
        s.mtx.lock[()](|| {
            while s.turn != me {
                %s
            }
            s.x = (s.x * a + b) %% %d;
            s.steps = s.steps + 1;
            s.turn = next;
            %s
        });
        r = r + 1;
    }
}
""" % (wait, MOD, wake))
    main_plays = rng.random() < 0.4
    nthreads = t - 1 if main_plays else t
    calls = ["player(s, %d, %d, %d, %d, %d)" % (i, t, rounds, coef[i][0], coef[i][1]) for i in range(nthreads)]
    main_call = ("player(s, %d, %d, %d, %d, %d)" % (t - 1, t, rounds, coef[t - 1][0], coef[t - 1][1])) if main_plays else None
    body, order = _spawn_join(rng, calls, main_call)
    src.append("fn main() {")
    src.append("    let cvs = Vec[std::Condition]::new();")
    for _ in range(t):
        src.append("    cvs.push(std::Condition::new());")
    src.append("    let s = Shared(mtx = std::Mutex::new(), cv = std::Condition::new(), cvs = cvs, turn = %d, x = 1, steps = 0);" % first)
    src += body
    src.append(_print_result(["s.x", "s.steps", "s.turn"]))
    src.append("}")
    x = 1
    turn = first
    for _ in range(rounds * t):
        a, b = coef[turn]
        x = (x * a + b) % MOD
        turn = (turn + 1) % t
    params = dict(threads=t, rounds=rounds, mode=mode, coef=coef, first=first, main_plays=main_plays, join_order=order)
    return "\n".join(src) + "\n", _result([x, rounds * t, turn]), params


def gen_cond_barrier(rng):
    t = rng.randint(2, 4)
    phases = rng.randint(3, max(3, 40 // t))
    main_in = rng.random() < 0.4
    src = []
    src.append("""class Barrier {
    mtx: std::Mutex,
    cv: std::Condition,
    parties: Int64,
    arrived: Int64,
    generation: Int64,
}

impl Barrier {
    fn arrive_and_wait() {
        self.mtx.lock[()](|| {
            let my_gen = self.generation;
            self.arrived = self.arrived + 1;
            if self.arrived == self.parties {
                self.arrived = 0;
                self.generation = my_gen + 1;
                self.cv.notify_all();
            } else {
                while self.generation == my_gen {
                    self.cv.wait(self.mtx);
                }
            }
        });
    }
}

class Shared {
    barrier: Barrier,
    slots: Array[Int64],
    results: Array[Int64],
}

fn party(s: Shared, me: Int64, phases: Int64) {
    let mut acc = me + 1;
    let mut ph = 0;
    while ph < phases {
        s.slots(me) = (me + 1) * (ph + 3) + acc %% 7;
        s.barrier.arrive_and_wait();
        let mut sum = 0;
        let mut j = 0;
        while j < s.slots.size() {
            sum = sum * 5 + s.slots(j);
            j = j + 1;
        }
        acc = (acc * 3 + sum) %% %d;
        s.barrier.arrive_and_wait();
        ph = ph + 1;
    }
    s.results(me) = acc;
}
""" % MOD)
    nthreads = t - 1 if main_in else t
    calls = ["party(s, %d, %d)" % (i, phases) for i in range(nthreads)]
    main_call = "party(s, %d, %d)" % (t - 1, phases) if main_in else None
    body, order = _spawn_join(rng, calls, main_call)
    src.append("fn main() {")
    src.append("    let barrier = Barrier(mtx = std::Mutex::new(), cv = std::Condition::new(), parties = %d, arrived = 0, generation = 0);" % t)
    src.append("    let s = Shared(barrier, slots = Array[Int64]::zero(%d), results = Array[Int64]::zero(%d));" % (t, t))
    src += body
    src.append(_print_result(["s.results(%d)" % i for i in range(t)] + ["s.barrier.generation"]))
    src.append("}")
    acc = [i + 1 for i in range(t)]
    for ph in range(phases):
        slots = [(i + 1) * (ph + 3) + acc[i] % 7 for i in range(t)]
        sm = 0
        for v in slots:
            sm = sm * 5 + v
        acc = [(a * 3 + sm) % MOD for a in acc]
    params = dict(threads=t, phases=phases, main_in=main_in, join_order=order)
    return "\n".join(src) + "\n", _result(acc + [2 * phases]), params


# ----------------------------------------------------------------------------------------------- d. join

def gen_join_visibility(rng):
    t = rng.randint(1, 4)
    ns = [rng.randint(3, 40) for _ in range(t)]
    lens = [rng.randint(1, 6) for _ in range(t)]
    child_gc = [rng.choice(["none", "none", "full", "minor"]) for _ in range(t)]
    parent_gc = rng.choice(["none", "full", "minor"])
    busy = rng.choice([0, 0, 2000, 20000])          # parent work before join: the child has probably ended by then
    rejoin = rng.random() < 0.3
    gc_call = {"full": "std::force_collect();", "minor": "std::force_minor_collect();", "none": ""}
    src = []
    src.append("""class Rec {
    a: Int64,
    b: Int32,
    arr: Array[Int64],
    name: String,
    done: Bool,
}

fn child(r: Rec, id: Int64, n: Int64, len: Int64, gc: Int64) {
    let mut i = 0;
    let mut acc = id;
    while i < n {
        acc = (acc * 7 + i) %% %d;
        i = i + 1;
    }
    let arr = Array[Int64]::zero(len);
    let mut j = 0;
    while j < len {
        arr(j) = acc + j * j;
        j = j + 1;
    }
    if gc == 1 {
        std::force_collect();
    }
    if gc == 2 {
        std::force_minor_collect();
    }
    r.a = acc;
    r.b = (n * 3 + id).to_int32();
    r.arr = arr;
    r.name = "t${id}n${n}";
    r.done = true;
}

fn check(r: Rec): Int64 {
    let mut h = r.a * 3 + r.b.to_int64();
    for v in r.arr {
        h = (h * 31 + v) %% %d;
    }
    h = h + r.name.size();
    if r.done {
        h = h + 1;
    }
    h
}
""" % (MOD, MOD))
    gcnum = {"none": 0, "full": 1, "minor": 2}
    src.append("fn main() {")
    for i in range(t):
        src.append('    let r%d = Rec(a = -1, b = -1i32, arr = Array[Int64]::zero(0), name = "", done = false);' % i)
    calls = ["child(r%d, %d, %d, %d, %d)" % (i, i, ns[i], lens[i], gcnum[child_gc[i]]) for i in range(t)]
    before = []
    if busy:
        before += ["    let mut spin = 0;", "    let mut k = 0;",
                   "    while k < %d {" % busy, "        spin = (spin + k) % 1000;", "        k = k + 1;", "    }"]
    if parent_gc != "none":
        before.append("    " + gc_call[parent_gc])
    body, order = _spawn_join(rng, calls, None, before)
    src += body
    if rejoin:
        src.append("    th%d.join();" % order[0])
    src.append(_print_result(["check(r%d)" % i for i in range(t)]))
    src.append("}")
    exp = []
    for i in range(t):
        acc = i
        for k in range(ns[i]):
            acc = (acc * 7 + k) % MOD
        h = acc * 3 + (ns[i] * 3 + i)
        for j in range(lens[i]):
            h = (h * 31 + acc + j * j) % MOD
        h += len("t%dn%d" % (i, ns[i])) + 1
        exp.append(h)
    params = dict(threads=t + 1, children=t, iters=ns, lens=lens, child_gc=child_gc, parent_gc=parent_gc, busy=busy,
                  rejoin=rejoin, join_order=order)
    return "\n".join(src) + "\n", _result(exp), params


def gen_join_chain(rng):
    shape = rng.choice(["chain", "chain", "tree"])
    depth = rng.randint(2, 4) if shape == "chain" else 2
    seedv = rng.randint(1, 999)
    gc_leaf = rng.choice(["none", "full", "minor"])
    gc_call = {"full": "        std::force_collect();\n", "minor": "        std::force_minor_collect();\n", "none": ""}
    src = []
    if shape == "chain":
        src.append("""class Box {
    v: Int64,
    depth: Int64,
}

fn chain(d: Int64, b: Box) {
    if d == 0 {
%s        b.v = %d;
        b.depth = 0;
        return;
    }
    let inner = Box(v = -1, depth = -1);
    let th = std::thread::spawn(|| { chain(d - 1, inner); });
    th.join();
    b.v = (inner.v * 31 + d) %% %d;
    b.depth = inner.depth + 1;
}

fn main() {
    let top = Box(v = -1, depth = -1);
    let th = std::thread::spawn(|| { chain(%d, top); });
    th.join();
    println("RESULT ${top.v} ${top.depth}");
}
""" % (gc_call[gc_leaf], seedv, MOD, depth))
        v = seedv
        for d in range(1, depth + 1):
            v = (v * 31 + d) % MOD
        exp = [v, depth]
        threads = depth + 2
    else:
        src.append("""class Box {
    v: Int64,
    nodes: Int64,
}

fn tree(d: Int64, path: Int64, b: Box) {
    if d == 0 {
%s        b.v = %d + path;
        b.nodes = 1;
        return;
    }
    let left = Box(v = -1, nodes = 0);
    let right = Box(v = -1, nodes = 0);
    let tl = std::thread::spawn(|| { tree(d - 1, path * 2, left); });
    let tr = std::thread::spawn(|| { tree(d - 1, path * 2 + 1, right); });
    tr.join();
    tl.join();
    b.v = (left.v * 3 + right.v * 5 + d) %% %d;
    b.nodes = left.nodes + right.nodes + 1;
}

fn main() {
    let top = Box(v = -1, nodes = 0);
    tree(%d, 1, top);
    println("RESULT ${top.v} ${top.nodes}");
}
""" % (gc_call[gc_leaf], seedv, MOD, depth))

        def ev(d, path):
            if d == 0:
                return seedv + path, 1
            lv, ln = ev(d - 1, path * 2)
            rv, rn = ev(d - 1, path * 2 + 1)
            return (lv * 3 + rv * 5 + d) % MOD, ln + rn + 1
        exp = list(ev(depth, 1))
        threads = 2 ** (depth + 1) - 1
    params = dict(threads=threads, shape=shape, depth=depth, seed_value=seedv, gc_leaf=gc_leaf)
    return "\n".join(src), _result(exp), params


GENERATORS = {
    "mutex_counter": gen_mutex_counter,
    "mutex_split_alloc": gen_mutex_split_alloc,
    "mutex_striped": gen_mutex_striped,
    "atomic_fetch_add": gen_atomic_fetch_add,
    "atomic_cas": gen_atomic_cas,
    "atomic_token": gen_atomic_token,
    "cond_queue": gen_cond_queue,
    "cond_pingpong": gen_cond_pingpong,
    "atomic_exchange": gen_atomic_exchange,
    "cond_barrier": gen_cond_barrier,
    "join_visibility": gen_join_visibility,
    "join_chain": gen_join_chain,
}


def generate(rng, family=None):
    """One program. Returns (source_text, expected_stdout, family_name, params_dict)."""
    if family is None:
        family = rng.choice(FAMILIES)
    src, exp, params = GENERATORS[family](rng)
    return src, exp, family, params


def generate_many(seed, n):
    """n programs; program i depends only on (seed, i). Families rotate so that every family occurs once in
    any 11 consecutive programs. Returns [(index, source, expected_stdout, family, params)]."""
    order_rng = random.Random("c09w:%s:order" % seed)
    res = []
    order = []
    for i in range(n):
        if i % len(FAMILIES) == 0:
            order = list(FAMILIES)
            order_rng.shuffle(order)
        fam = order[i % len(FAMILIES)]
        rng = random.Random("c09w:%s:%d" % (seed, i))
        src, exp, fam, params = generate(rng, fam)
        res.append((i, src, exp, fam, params))
    return res


if __name__ == "__main__":
    import sys
    seed = sys.argv[1] if len(sys.argv) > 1 else "1"
    n = int(sys.argv[2]) if len(sys.argv) > 2 else 11
    for i, src, exp, fam, params in generate_many(seed, n):
        print("// ---- %d %s %s\n// expect %s%s" % (i, fam, params, exp, src))
