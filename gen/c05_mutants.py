#!/usr/bin/env python3
"""C05: single-fault mutants of typed generator programs + the TYPED S-expression twin read by the Lean
type checker `drv_c05` (lean/DoraModel/Typing/*).  python3 stdlib only; deterministic from (seed, index).

Uses gen/progs.py as a library (same AST: class N, declaration dicts, `DoraEmitter`).

Base programs
-------------
  family 'gen'  gen_program(seed, i) of gen/progs.py, unchanged
  family 'aug'  the same program with a fixed set of extra declarations and statements put in front of `main`
                (`augment`): a two-parameter generic `pair[A, B]`, a trait `Tr1` with two required methods and
                an impl, a module `hidden` with a private and a public function, a `match` on a Bool, an
                exhaustive `match` on every enum without a wildcard arm, calls of `gapply`/`gid` with explicit
                type arguments, a trait-object conversion.  They guarantee that every mutation operator below
                has a site in every 'aug' program.
Both families are well typed by construction; checks/c05.py additionally demands that the Lean checker accepts
them before they count.

Mutants
-------
`mutants(base, rng, per_class)` returns `Mutant`s: a deep copy of the base's declarations with exactly ONE
static rule broken by one operator at a random site.  Classes (= the nine classes of the property text = the
constructors of `Dora.Typing.TypeError`) and their operators:

  mismatch        lit_bool lit_str cond_int let_init arg_type ret_type
  argcount        drop_arg add_arg
  unknown         rename_var unknown_fn unknown_method unknown_field private_fn
  immutable       flip_mut insert_assign assign_param
  missingreturn   drop_final bare_return
  bound           bound_prim bound_user as_unimplemented
  typeargs        extra_fn_targ fewer_fn_targs ty_extra ty_none variant_extra scall_extra
  nonexhaustive   drop_arm
  missingmethod   drop_impl_method

A mutant that is still well typed (e.g. the deleted arm was shadowed by a wildcard arm) is recognised by the
Lean checker (verdict `ok`) and dropped by the check, counted as `stillWellTyped`.

Typed twin (one line per program; differences to the format documented in gen/progs.py)
---------------------------------------------------------------------------------------
  decl := (fn NAME LINE (TP*) ((p T)*) T body)              TP := (NAME BOUND*)
        | (modfn MOD pub|priv NAME LINE (TP*) ((p T)*) T body)
        | (impl TYPE TRAIT|- (method self|mutating|static NAME LINE (TP*) ((p T)*) T body)*)
        | (trait NAME (sig NAME ((p T)*) T)* (method self NAME LINE (TP*) ((p T)*) T body)*)
        | (global NAME T mut|imm expr)      struct / class / enum as before
  expr := (call F (targs T*) e*) | (mcall MOD F e*) | (let PAT T|_ mut|imm e) | (variant ENUM VARIANT (targs T*) e*)
        | (lambda ((p T)*) T body)      everything else as before;   pat additionally (pmut X)
  T may be any (NAME T*) - the number of type arguments is checked by the checker, not by the reader.
"""
import copy
import os
import random
import sys

sys.path.insert(0, os.path.dirname(os.path.abspath(__file__)))
import progs as G  # noqa: E402

N = G.N
CLASSES = ['mismatch', 'argcount', 'unknown', 'immutable', 'missingreturn', 'bound', 'typeargs', 'nonexhaustive',
           'missingmethod']
# verdict words printed by drv_c05 for each class
LEAN_CLASS = {'mismatch': 'typeMismatch', 'argcount': 'wrongArgCount', 'unknown': 'unknownName',
              'immutable': 'immutableAssign', 'missingreturn': 'missingReturn', 'bound': 'unsatisfiedBound',
              'typeargs': 'wrongTypeArgCount', 'nonexhaustive': 'nonExhaustiveMatch',
              'missingmethod': 'missingTraitMethod'}


class RawTy(tuple):
    """a type that gen/progs.py cannot express (wrong number of type arguments): prints `dora` in the source
    (progs.ty_dora prints the name of a ('Struct', name) verbatim) and `sx` in the typed twin"""

    def __new__(cls, dora, sx):
        t = tuple.__new__(cls, ('Struct', dora))
        return t

    def __init__(self, dora, sx):
        self.sx = sx

    def __deepcopy__(self, memo):
        return self

    def __reduce__(self):
        return (RawTy, (self[1], self.sx))


# ----------------------------------------------------------------------------------------------- typed twin
def tsx_ty(t):
    if isinstance(t, RawTy):
        return t.sx
    k = t[0]
    if k == 'Tuple':
        return '(Tuple %s)' % ' '.join(tsx_ty(x) for x in t[1:])
    if k in ('Array', 'Vec', 'Option'):
        return '(%s %s)' % (k, tsx_ty(t[1]))
    if k == 'Fn':
        return '(Fn (%s) %s)' % (' '.join(tsx_ty(x) for x in t[1]), tsx_ty(t[2]))
    return G.ty_sexp(t)


def tsx_targs(ts):
    out = []
    for t in ts:
        out.append(tsx_ty(t))
    return '(targs%s)' % ''.join(' ' + x for x in out)


def tsx_pat(p):
    k = p[0]
    if k == 'pmut':
        return '(pmut %s)' % p[1]
    if k == 'ptuple':
        return '(ptuple %s)' % ' '.join(tsx_pat(x) for x in p[1:])
    if k == 'pvariant':
        return '(pvariant %s %s%s)' % (p[1], p[2], ''.join(' ' + tsx_pat(x) for x in p[3:]))
    return G.pat_sexp(p)


def split_call(a):
    """call node attributes -> (name, targs tuple, args)"""
    if len(a) > 1 and isinstance(a[1], tuple) and a[1] and a[1][0] == 'targs':
        return a[0], a[1][1:], a[2:]
    return a[0], (), a[1:]


def tsx(n):
    k, a = n.k, n.a
    if k == 'lit':
        return G.lit_sexp(n.ty, a[0])
    if k == 'var':
        return '(var %s)' % a[0]
    if k == 'un':
        return '(un %s %s)' % (a[0], tsx(a[1]))
    if k == 'bin':
        return '(bin %s %s %s)' % (a[0], tsx(a[1]), tsx(a[2]))
    if k in ('andalso', 'orelse'):
        return '(%s %s %s)' % (k, tsx(a[0]), tsx(a[1]))
    if k == 'call':
        f, targs, rest = split_call(a)
        if '::' in f:
            m, fn = f.split('::', 1)
            return '(mcall %s %s%s)' % (m, fn, ''.join(' ' + tsx(x) for x in rest))
        return '(call %s %s%s)' % (f, tsx_targs(targs), ''.join(' ' + tsx(x) for x in rest))
    if k == 'scall':
        return '(scall %s %s%s)' % (tsx_ty(a[0]), a[1], ''.join(' ' + tsx(x) for x in a[2:]))
    if k == 'meth':
        return '(meth %s %s%s)' % (a[0], tsx(a[1]), ''.join(' ' + tsx(x) for x in a[2:]))
    if k == 'callv':
        return '(callv %s%s)' % (tsx(a[0]), ''.join(' ' + tsx(x) for x in a[1:]))
    if k == 'lambda':
        ps, ret, body = a
        return '(lambda (%s) %s %s)' % (' '.join('(%s %s)' % (x, tsx_ty(t)) for x, t in ps), tsx_ty(ret),
                                        tsx_block(body))
    if k == 'tuple':
        return '(tuple%s)' % ''.join(' ' + tsx(x) for x in a)
    if k == 'tget':
        return '(tget %s %d)' % (tsx(a[0]), a[1])
    if k == 'new':
        return '(new %s%s)' % (a[0], ''.join(' ' + tsx(x) for _, x in a[1]))
    if k == 'field':
        return '(field %s %s)' % (tsx(a[0]), a[1])
    if k == 'variant':
        if a[0] == 'Option':
            inner = n.ty[1]
            targs = inner.sx if isinstance(inner, RawTy) else tsx_ty(inner)
            return '(variant Option %s (targs %s)%s)' % (a[1], targs, ''.join(' ' + tsx(x) for x in a[2:]))
        return '(variant %s %s (targs)%s)' % (a[0], a[1], ''.join(' ' + tsx(x) for x in a[2:]))
    if k == 'match':
        return '(match %s%s)' % (tsx(a[0]), ''.join(' (arm %s %s)' % (tsx_pat(p), tsx_block(b)) for p, b in a[1]))
    if k == 'if':
        if len(a) > 2 and a[2] is not None:
            return '(if %s %s %s)' % (tsx(a[0]), tsx_block(a[1]), tsx_block(a[2]))
        return '(if %s %s)' % (tsx(a[0]), tsx_block(a[1]))
    if k == 'block':
        return tsx_block(n)
    if k == 'let':
        return '(let (%s %s) %s %s %s)' % ('pmut' if a[3] else 'pvar', a[0], tsx_ty(a[1]), 'mut' if a[3] else 'imm',
                                           tsx(a[2]))
    if k == 'letp':
        return '(let %s _ imm %s)' % (tsx_pat(a[0]), tsx(a[1]))
    if k == 'assign':
        return '(assign %s %s)' % (tsx(a[0]), tsx(a[1]))
    if k == 'while':
        return '(while %s %s)' % (tsx(a[0]), tsx_block(a[1]))
    if k == 'for':
        return '(for %s %s %s %s)' % (a[0], tsx(a[1]), tsx(a[2]), tsx_block(a[3]))
    if k == 'foreach':
        return '(foreach %s %s %s)' % (a[0], tsx(a[1]), tsx_block(a[2]))
    if k == 'break':
        return '(break)'
    if k == 'continue':
        return '(continue)'
    if k == 'return':
        return '(return %s)' % tsx(a[0]) if a and a[0] is not None else '(return)'
    if k == 'index':
        return '(index %s %s)' % (tsx(a[0]), tsx(a[1]))
    if k == 'template':
        return '(template%s)' % ''.join(' ' + (G.lit_sexp(G.T_STR, p) if isinstance(p, str) else tsx(p)) for p in a)
    if k == 'as':
        return '(as %s %s)' % (a[0], tsx(a[1]))
    if k == 'assert':
        return '(assert %s)' % tsx(a[0])
    raise ValueError(k)


def tsx_block(b):
    """same shape as progs.sx_block: a block whose last element is a statement form has value unit"""
    ss = b.a if b.k == 'block' else [b]
    out = ['(at %d %s)' % (s.line, tsx(s)) for s in ss]
    if ss and G.is_stmt(ss[-1]) and ss[-1].k not in ('return', 'break', 'continue'):
        out.append('(unit)')
    return '(block%s)' % ''.join(' ' + x for x in out)


def tsx_tps(d):
    return '(%s)' % ' '.join('(%s%s)' % (n, ''.join(' ' + b for b in bs)) for n, bs in (d.get('tparams') or []))


def tsx_fn(d, head):
    return '(%s %s %d %s (%s) %s %s)' % (head, d['name'], d.get('line', 0), tsx_tps(d),
                                        ' '.join('(%s %s)' % (x, tsx_ty(t)) for x, t in d['params']),
                                        tsx_ty(d['ret']), tsx_block(d['body']))


def emit_tsexp(name, decls):
    out = []
    for d in decls:
        k = d['k']
        if k == 'fn':
            out.append(tsx_fn(d, 'fn'))
        elif k == 'mod':
            for f in d['fns']:
                out.append(tsx_fn(f, 'modfn %s %s' % (d['name'], 'pub' if f.get('pub') else 'priv')))
        elif k in ('struct', 'class'):
            out.append('(%s %s%s)' % (k, d['name'], ''.join(' (%s %s)' % (f, tsx_ty(t)) for f, t in d['fields'])))
        elif k == 'enum':
            out.append('(enum %s%s)' % (d['name'], ''.join(
                ' (%s%s)' % (v, ''.join(' ' + tsx_ty(t) for t in ts)) for v, ts in d['variants'])))
        elif k == 'impl':
            out.append('(impl %s %s%s)' % (d['type'], d.get('trait') or '-', ''.join(
                ' ' + tsx_fn(m, 'method %s' % (m.get('self') or 'static')) for m in d['methods'])))
        elif k == 'trait':
            ms = []
            for m in d['methods']:
                if m.get('body') is None:
                    ms.append('(sig %s (%s) %s)' % (m['name'], ' '.join('(%s %s)' % (x, tsx_ty(t)) for x, t in m['params']),
                                                    tsx_ty(m['ret'])))
                else:
                    ms.append(tsx_fn(m, 'method self'))
            out.append('(trait %s%s)' % (d['name'], ''.join(' ' + m for m in ms)))
        elif k == 'global':
            out.append('(global %s %s %s %s)' % (d['name'], tsx_ty(d['ty']), 'mut' if d.get('mut') else 'imm',
                                                 tsx(d['init'])))
        else:
            raise ValueError(k)
    return '(program %s %s)' % (name, ' '.join(out))


def emit_dora_ext(decls):
    """progs.emit_dora plus inline modules (`mod m { fn f.. pub fn g.. }`)"""
    em = G.DoraEmitter()
    em.put(0, 'use std::string::Stringable;')
    em.put(0, '')
    for d in decls:
        if d['k'] == 'mod':
            em.put(0, 'mod %s {' % d['name'])
            for f in d['fns']:
                at = len(em.lines)
                em.fn(f, 1)
                if f.get('pub'):
                    em.lines[at] = em.lines[at].replace('fn ', 'pub fn ', 1)
            em.put(0, '}')
            em.put(0, '')
        else:
            em.decl(d)
    return '\n'.join(em.lines) + '\n'


# ----------------------------------------------------------------------------------------------- base programs
class Base:
    def __init__(self, name, decls, family, features=(), expect=None, kind='normal'):
        self.name = name
        self.decls = decls
        self.family = family
        self.features = set(features)
        self.expect = expect
        self.kind = kind
        self.dora = emit_dora_ext(decls)        # fills the line numbers
        self.tsexp = emit_tsexp(name, decls)


def default_expr(ty, decls):
    """some closed expression of type `ty` made of literals"""
    k = ty[0]
    if ty in G.INT_RANGE:
        return G.lit(ty, 7)
    if ty == G.T_BOOL:
        return G.lit(ty, True)
    if ty == G.T_U8:
        return G.lit(ty, 65)
    if ty == G.T_CHAR:
        return G.lit(ty, ord('q'))
    if ty == G.T_STR:
        return G.lit(ty, 'txt')
    if ty == G.T_UNIT:
        return G.lit(ty, None)
    if k == 'Tuple':
        return N('tuple', *[default_expr(t, decls) for t in ty[1:]], ty=ty)
    if k in ('Struct', 'Class'):
        d = [x for x in decls if x['k'] in ('struct', 'class') and x['name'] == ty[1]][0]
        return N('new', ty[1], [(f, default_expr(t, decls)) for f, t in d['fields']], ty=ty)
    if k == 'Enum':
        d = [x for x in decls if x['k'] == 'enum' and x['name'] == ty[1]][0]
        v, ts = d['variants'][0]
        return N('variant', ty[1], v, *[default_expr(t, decls) for t in ts], ty=ty)
    if k == 'Option':
        return N('variant', 'Option', 'Some', default_expr(ty[1], decls), ty=ty)
    if k == 'Fn':
        ps = [('dp%d' % i, t) for i, t in enumerate(ty[1])]
        return N('lambda', ps, ty[2], G.block(default_expr(ty[2], decls)), ty=ty)
    raise ValueError(ty)


def impl_types(decls, trait):
    res = []
    for d in decls:
        if d['k'] == 'impl' and d.get('trait') == trait:
            kinds = [x['k'] for x in decls if x['k'] in ('struct', 'class', 'enum') and x['name'] == d['type']]
            if kinds:
                res.append(({'struct': 'Struct', 'class': 'Class', 'enum': 'Enum'}[kinds[0]], d['type']))
    return res


def show(*es, tag=None):
    parts = [tag + ':'] if tag else []
    for i, e in enumerate(es):
        if i:
            parts.append(' ')
        parts.append(e)
    return G.println(G.template(*parts))


def augment(decls, rng):
    """extra declarations + statements in front of main (see module doc)"""
    decls = copy.deepcopy(decls)
    I64, BOOL = G.T_I64, G.T_BOOL
    main = [d for d in decls if d['k'] == 'fn' and d['name'] == 'main'][0]
    pos = decls.index(main)
    extra = []
    # two type parameters
    extra.append(G.fn_decl('pair', [('a', G.t_tp('A')), ('b', G.t_tp('B'))], G.t_tp('A'), G.block(G.var('a')),
                           tparams=[('A', []), ('B', [])]))
    # a trait with two required methods, implemented for the first class
    c0 = [d for d in decls if d['k'] == 'class'][0]
    cty = G.t_class(c0['name'])
    k1 = rng.randint(1, 9)
    extra.append(dict(k='trait', name='Tr1', methods=[
        dict(name='p', params=[], ret=I64, body=None, self='self'),
        dict(name='q', params=[('x', I64)], ret=BOOL, body=None, self='self')]))
    extra.append(dict(k='impl', type=c0['name'], trait='Tr1', methods=[
        dict(name='p', params=[], ret=I64, body=G.block(G.lit(I64, k1)), self='self'),
        dict(name='q', params=[('x', I64)], ret=BOOL, self='self',
             body=G.block(G.binop('lt', G.var('x', I64), G.lit(I64, k1), ty=BOOL)))]))
    extra.append(G.fn_decl('gboth', [('t', G.t_tp('T'))], I64,
                           G.block(N('if', G.meth('q', G.var('t'), G.lit(I64, 3), ty=BOOL),
                                     G.block(G.meth('p', G.var('t'), ty=I64)), G.block(G.lit(I64, 0)), ty=I64)),
                           tparams=[('T', ['Tr1'])]))
    # module with a private and a public function
    extra.append(dict(k='mod', name='hidden', fns=[
        dict(G.fn_decl('secret', [('x', I64)], I64, G.block(G.meth('wrapping_add', G.var('x', I64), G.lit(I64, 1), ty=I64))),
             pub=False),
        dict(G.fn_decl('open', [('x', I64)], I64, G.block(G.meth('wrapping_mul', G.var('x', I64), G.lit(I64, 2), ty=I64))),
             pub=True)]))
    # a class whose fields have a tuple type and a function type: constructor arguments are checked by type UNIFICATION
    # in the real front end (typeck/infer.rs), a path that differs from the one ordinary calls take
    tty = G.t_tuple(I64, BOOL)
    f1ty = G.t_fn([I64], I64)
    extra.append(dict(k='class', name='AugT', fields=[('t', tty), ('f', f1ty)]))
    decls[pos:pos] = extra
    st = []
    # Bool match (expression and statement form)
    st.append(G.let('aug_b', BOOL, G.lit(BOOL, rng.random() < 0.5)))
    st.append(show(N('match', G.var('aug_b', BOOL), [(('plit', BOOL, True), G.lit(I64, 1)),
                                                      (('plit', BOOL, False), G.lit(I64, 2))], ty=I64), tag='mb'))
    # every enum: exhaustive match without wildcard
    for d in decls:
        if d['k'] != 'enum':
            continue
        ety = G.t_enum(d['name'])
        nm = 'aug_' + d['name'].lower()
        vr, ts = rng.choice(d['variants'])
        st.append(G.let(nm, ety, N('variant', d['name'], vr, *[default_expr(t, decls) for t in ts], ty=ety)))
        arms = []
        for i, (v, ts) in enumerate(d['variants']):
            arms.append((('pvariant', d['name'], v) + tuple(('pwild',) for _ in ts), G.lit(I64, i)))
        st.append(show(N('match', G.var(nm, ety), arms, ty=I64), tag='me'))
    # Option match
    st.append(G.let('aug_o', G.t_option(I64), N('variant', 'Option', 'Some', G.lit(I64, 5), ty=G.t_option(I64))))
    st.append(show(N('match', G.var('aug_o', G.t_option(I64)),
                     [(('pvariant', 'Option', 'Some', ('pvar', 'aug_x')), G.var('aug_x', I64)),
                      (('pvariant', 'Option', 'None'), G.lit(I64, 0))], ty=I64), tag='mo'))
    # generic calls with explicit type arguments
    impls = impl_types(decls, 'Tr0')
    it = rng.choice(impls)
    st.append(G.let('aug_t', it, default_expr(it, decls)))
    st.append(show(G.call('gapply', ('targs', it), G.var('aug_t', it), G.lit(I64, 3), ty=I64),
                   G.call('gid', ('targs', I64), G.lit(I64, 4), ty=I64),
                   G.call('pair', ('targs', I64, BOOL), G.lit(I64, 6), G.lit(BOOL, True), ty=I64), tag='gc'))
    st.append(G.let('aug_c', cty, default_expr(cty, decls)))
    st.append(show(G.call('gboth', ('targs', cty), G.var('aug_c', cty), ty=I64),
                   G.meth('p', G.var('aug_c', cty), ty=I64), G.meth('q', G.var('aug_c', cty), G.lit(I64, 2), ty=BOOL),
                   tag='gb'))
    # trait object
    tt = G.t_trait('Tr0')
    st.append(G.let('aug_ob', tt, N('as', 'Tr0', G.var('aug_t', it), ty=tt)))
    st.append(show(G.meth('m', G.var('aug_ob', tt), G.lit(I64, 2), ty=I64), tag='ob'))
    # module functions
    st.append(show(G.call('hidden::open', G.lit(I64, rng.randint(1, 50)), ty=I64), tag='md'))
    # arrays / vectors with annotated types, a mutable counter, a lambda
    st.append(G.let('aug_a', G.t_array(I64), G.scall(G.t_array(I64), 'zero', G.lit(I64, 2), ty=G.t_array(I64))))
    st.append(G.let('aug_n', I64, G.lit(I64, 0), mut=True))
    st.append(G.assign(G.var('aug_n', I64), G.binop('add', G.var('aug_n', I64), G.meth('size', G.var('aug_a', G.t_array(I64)), ty=I64), ty=I64)))
    fty = G.t_fn([I64], I64)
    st.append(G.let('aug_f', fty, N('lambda', [('x', I64)], I64,
                                    G.block(G.binop('add', G.var('x', I64), G.var('aug_n', I64), ty=I64)), ty=fty)))
    st.append(show(N('callv', G.var('aug_f', fty), G.lit(I64, 1), ty=I64), tag='lf'))
    # constructor with a tuple argument and a function argument
    st.append(G.let('aug_tp', tty, N('tuple', G.lit(I64, rng.randint(1, 9)), G.lit(BOOL, True), ty=tty)))
    f2ty = G.t_fn([I64, I64], I64)
    st.append(G.let('aug_f2', f2ty, N('lambda', [('x', I64), ('y', I64)], I64,
                                      G.block(G.binop('sub', G.var('x', I64), G.var('y', I64), ty=I64)), ty=f2ty)))
    aty = G.t_class('AugT')
    st.append(G.let('aug_k', aty, N('new', 'AugT', [('t', G.var('aug_tp', tty)), ('f', G.var('aug_f', fty))], ty=aty)))
    st.append(show(N('tget', N('field', G.var('aug_k', aty), 't', ty=tty), 0, ty=I64),
                   N('callv', N('field', G.var('aug_k', aty), 'f', ty=fty), G.lit(I64, 2), ty=I64),
                   N('callv', G.var('aug_f2', f2ty), G.lit(I64, 9), G.lit(I64, 4), ty=I64), tag='kt'))
    main['body'].a[0:0] = st
    return decls


def base_programs(seed, n, aug_every=2):
    """n base programs: gen family, every `aug_every`-th one augmented"""
    res = []
    for i in range(n):
        p = G.gen_program(seed, i)
        if aug_every and i % aug_every == 1:
            rng = random.Random('c05aug/%s/%s' % (seed, i))
            b = Base(p.name + 'a', augment(p.decls, rng), 'aug', p.features | {'aug'}, p.expect, p.kind)
        else:
            b = Base(p.name, copy.deepcopy(p.decls), 'gen', p.features, p.expect, p.kind)
        res.append(b)
    return res


# ----------------------------------------------------------------------------------------------- AST walking
def subnodes(n):
    """(child, setter) for every direct sub-node"""
    k = n.k
    if k == 'new':
        for j, (f, x) in enumerate(n.a[1]):
            yield x, (lambda v, j=j, f=f, n=n: n.a[1].__setitem__(j, (f, v)))
        return
    if k == 'match':
        yield n.a[0], (lambda v, n=n: n.a.__setitem__(0, v))
        for j, (p, b) in enumerate(n.a[1]):
            yield b, (lambda v, j=j, p=p, n=n: n.a[1].__setitem__(j, (p, v)))
        return
    for i, x in enumerate(n.a):
        if isinstance(x, N):
            yield x, (lambda v, i=i, n=n: n.a.__setitem__(i, v))


def walk(n, setter, owner, out, in_lambda=False):
    out.append((n, setter, owner, in_lambda))
    for c, s in subnodes(n):
        walk(c, s, owner, out, in_lambda or n.k == 'lambda')


def bodies(decls):
    """(owner fn dict, kind) of every function-like declaration with a body"""
    for d in decls:
        k = d['k']
        if k == 'fn':
            yield d, 'fn'
        elif k == 'mod':
            for f in d['fns']:
                yield f, 'modfn'
        elif k == 'impl':
            for m in d['methods']:
                yield m, 'method'
        elif k == 'trait':
            for m in d['methods']:
                if m.get('body') is not None:
                    yield m, 'default'


def all_nodes(decls):
    out = []
    for d, _ in bodies(decls):
        b = d['body']
        walk(b, (lambda v, d=d: d.__setitem__('body', v)), d, out)
    for d in decls:
        if d['k'] == 'global':
            walk(d['init'], (lambda v, d=d: d.__setitem__('init', v)), None, out)
    return out


def user_fns(decls):
    res = {}
    for d in decls:
        if d['k'] == 'fn':
            res[d['name']] = d
        elif d['k'] == 'mod':
            for f in d['fns']:
                res['%s::%s' % (d['name'], f['name'])] = f
    return res


def user_methods(decls):
    names = set()
    for d in decls:
        if d['k'] in ('impl', 'trait'):
            for m in d['methods']:
                names.add(m['name'])
    return names


ARITH = ('add', 'sub', 'mul', 'div', 'mod', 'band', 'bor', 'bxor', 'shl', 'shr', 'sar', 'lt', 'le', 'gt', 'ge', 'eq', 'ne')


# ----------------------------------------------------------------------------------------------- operators
# each operator: f(decls, rng) -> description | None (no site); mutates `decls` (already a private copy)
def pick(rng, xs):
    return xs[rng.randrange(len(xs))] if xs else None


def op_lit(decls, rng, new):
    sites = []
    for n, s, o, _ in all_nodes(decls):
        if n.k == 'bin' and n.a[0] in ARITH:
            for i in (1, 2):
                x = n.a[i]
                if x.k == 'lit' and x.ty in G.INT_RANGE:
                    sites.append((n, i))
    c = pick(rng, sites)
    if not c:
        return None
    n, i = c
    old = n.a[i]
    n.a[i] = new
    return 'operand %d of `%s` at line %d: %s literal -> %s literal' % (i, n.a[0], n.line, old.ty[0], new.ty[0])


def op_lit_bool(decls, rng):
    return op_lit(decls, rng, G.lit(G.T_BOOL, True))


def op_lit_str(decls, rng):
    return op_lit(decls, rng, G.lit(G.T_STR, 's'))


def op_cond_int(decls, rng):
    sites = [(n, s) for n, s, o, _ in all_nodes(decls) if n.k in ('if', 'while')]
    c = pick(rng, sites)
    if not c:
        return None
    n, _ = c
    n.a[0] = G.lit(G.T_I64, 1)
    return 'condition of `%s` at line %d -> Int64 literal' % (n.k, n.line)


def op_let_init(decls, rng):
    sites = [n for n, s, o, _ in all_nodes(decls) if n.k == 'let' and (n.a[1] in G.INT_RANGE or n.a[1] == G.T_BOOL)]
    n = pick(rng, sites)
    if not n:
        return None
    n.a[2] = G.lit(G.T_BOOL, False) if n.a[1] in G.INT_RANGE else G.lit(G.T_I64, 3)
    return 'initialiser of `let %s: %s` at line %d -> literal of another type' % (n.a[0], n.a[1][0], n.line)


def op_arg_type(decls, rng):
    fns = user_fns(decls)
    sites = []
    for n, s, o, _ in all_nodes(decls):
        if n.k == 'call' and n.a[0] in fns and not fns[n.a[0]].get('tparams'):
            f, targs, args = split_call(n.a)
            off = len(n.a) - len(args)
            for i, (x, t) in enumerate(fns[f]['params']):
                if t in G.INT_RANGE and i < len(args):
                    sites.append((n, off + i))
    c = pick(rng, sites)
    if not c:
        return None
    n, i = c
    n.a[i] = G.lit(G.T_BOOL, True)
    return 'argument of call `%s` at line %d -> Bool literal' % (n.a[0], n.line)


def ctor_sites(decls, want):
    """(new-node, index of the field, field type) for constructor arguments whose declared field type satisfies `want`"""
    res = []
    for n, s, o, _ in all_nodes(decls):
        if n.k != 'new':
            continue
        d = [x for x in decls if x['k'] in ('struct', 'class') and x['name'] == n.a[0]]
        if not d:
            continue
        ft = dict(d[0]['fields'])
        for i, (f, e) in enumerate(n.a[1]):
            if f in ft and want(ft[f]):
                res.append((n, i, ft[f]))
    return res


def op_ctor_tuple_arity(decls, rng):
    """a constructor argument of tuple type gets one element MORE (the shared prefix keeps its types): a type mismatch
    that is a pure arity difference"""
    c = pick(rng, ctor_sites(decls, lambda t: t[0] == 'Tuple' and all(x in (G.T_I64, G.T_I32, G.T_BOOL) for x in t[1:])))
    if not c:
        return None
    n, i, t = c
    elems = [G.lit(x, True if x == G.T_BOOL else 1) for x in t[1:]] + [G.lit(G.T_I64, 0)]
    f = n.a[1][i][0]
    n.a[1][i] = (f, N('tuple', *elems, ty=G.t_tuple(*(list(t[1:]) + [G.T_I64]))))
    return 'constructor argument `%s` of %s at line %d -> tuple with one more element' % (f, n.a[0], n.line)


def op_ctor_fn_arity(decls, rng):
    """a constructor argument of function type (Int64): Int64 gets a value of type (Int64, Int64): Int64"""
    c = pick(rng, ctor_sites(decls, lambda t: t == G.t_fn([G.T_I64], G.T_I64)))
    if not c:
        return None
    n, i, t = c
    f2 = G.t_fn([G.T_I64, G.T_I64], G.T_I64)
    have = [m for m, s, o, _ in all_nodes(decls) if m.k == 'let' and m.a[0] == 'aug_f2']
    if not have:
        return None
    f = n.a[1][i][0]
    n.a[1][i] = (f, G.var('aug_f2', f2))
    return 'constructor argument `%s` of %s at line %d -> function value with one more parameter' % (f, n.a[0], n.line)


def op_ret_type(decls, rng):
    sites = []
    for d, kind in bodies(decls):
        b = d['body']
        if d['ret'] in G.INT_RANGE and b.k == 'block' and b.a and not G.is_stmt(b.a[-1]):
            sites.append(d)
    d = pick(rng, sites)
    if not d:
        return None
    d['body'].a[-1] = G.lit(G.T_BOOL, True)
    return 'final expression of `%s` (returns %s) -> Bool literal' % (d['name'], d['ret'][0])


def call_sites(decls):
    fns = user_fns(decls)
    ms = user_methods(decls)
    sites = []
    for n, s, o, _ in all_nodes(decls):
        if n.k == 'call' and n.a[0] in fns:
            f, targs, args = split_call(n.a)
            sites.append((n, len(n.a) - len(args)))
        elif n.k == 'meth' and n.a[0] in ms:
            sites.append((n, 2))
        elif n.k == 'callv':
            sites.append((n, 1))
    return sites


def op_drop_arg(decls, rng):
    sites = [(n, off) for n, off in call_sites(decls) if len(n.a) > off]
    c = pick(rng, sites)
    if not c:
        return None
    n, off = c
    i = rng.randrange(off, len(n.a))
    del n.a[i]
    return 'argument %d of `%s` at line %d deleted' % (i - off, n.a[0] if isinstance(n.a[0], str) else 'lambda call', n.line)


def op_add_arg(decls, rng):
    c = pick(rng, call_sites(decls))
    if not c:
        return None
    n, off = c
    n.a.append(G.lit(G.T_I64, 0))
    return 'extra argument appended to `%s` at line %d' % (n.a[0] if isinstance(n.a[0], str) else 'lambda call', n.line)


def op_rename_var(decls, rng):
    sites = [n for n, s, o, _ in all_nodes(decls) if n.k == 'var']
    n = pick(rng, sites)
    if not n:
        return None
    old = n.a[0]
    n.a[0] = 'zz_unbound_%d' % rng.randrange(1000)
    return 'use of `%s` at line %d renamed to the unbound `%s`' % (old, n.line, n.a[0])


def op_unknown_fn(decls, rng):
    fns = user_fns(decls)
    sites = [n for n, s, o, _ in all_nodes(decls) if n.k == 'call' and n.a[0] in fns and '::' not in n.a[0]]
    n = pick(rng, sites)
    if not n:
        return None
    old = n.a[0]
    n.a[0] = 'nofn_%d' % rng.randrange(1000)
    return 'call of `%s` at line %d renamed to the undeclared `%s`' % (old, n.line, n.a[0])


def op_unknown_method(decls, rng):
    sites = [n for n, s, o, _ in all_nodes(decls) if n.k == 'meth']
    n = pick(rng, sites)
    if not n:
        return None
    old = n.a[0]
    n.a[0] = 'nometh_%d' % rng.randrange(1000)
    return 'method `%s` at line %d renamed to the undeclared `%s`' % (old, n.line, n.a[0])


def op_unknown_field(decls, rng):
    sites = [n for n, s, o, _ in all_nodes(decls) if n.k == 'field']
    n = pick(rng, sites)
    if not n:
        return None
    old = n.a[1]
    n.a[1] = 'nofield_%d' % rng.randrange(1000)
    return 'field `%s` at line %d renamed to the undeclared `%s`' % (old, n.line, n.a[1])


def op_private_fn(decls, rng):
    priv = []
    for d in decls:
        if d['k'] == 'mod':
            for f in d['fns']:
                if not f.get('pub'):
                    priv.append('%s::%s' % (d['name'], f['name']))
    sites = [n for n, s, o, _ in all_nodes(decls) if n.k == 'call' and '::' in n.a[0] and o is not None
             and o.get('name') == 'main']
    n = pick(rng, sites)
    if not n or not priv:
        return None
    old = n.a[0]
    n.a[0] = pick(rng, [p for p in priv if p.split('::')[0] == old.split('::')[0]] or priv)
    return 'call of the public `%s` at line %d -> the private `%s`' % (old, n.line, n.a[0])


def assigned_names(decls):
    res = set()
    for n, s, o, _ in all_nodes(decls):
        if n.k == 'assign' and n.a[0].k == 'var':
            res.add(n.a[0].a[0])
    return res


def op_flip_mut(decls, rng):
    asg = assigned_names(decls)
    sites = [n for n, s, o, _ in all_nodes(decls) if n.k == 'let' and n.a[3] and n.a[0] in asg]
    gl = [d for d in decls if d['k'] == 'global' and d.get('mut') and d['name'] in asg]
    c = pick(rng, sites + gl)
    if c is None:
        return None
    if isinstance(c, dict):
        c['mut'] = False
        return 'global `%s` is assigned but no longer `mut`' % c['name']
    c.a[3] = False
    return '`let mut %s` at line %d lost its `mut`; the variable is assigned later' % (c.a[0], c.line)


def op_insert_assign(decls, rng):
    sites = []
    for n, s, o, _ in all_nodes(decls):
        if n.k == 'block':
            for i, x in enumerate(n.a):
                if x.k == 'let' and not x.a[3] and (x.a[1] in G.INT_RANGE or x.a[1] == G.T_BOOL):
                    sites.append((n, i))
    c = pick(rng, sites)
    if not c:
        return None
    b, i = c
    x = b.a[i]
    b.a.insert(i + 1, G.assign(G.var(x.a[0], x.a[1]), default_expr(x.a[1], decls)))
    return 'assignment to the immutable `%s` inserted after its `let` at line %d' % (x.a[0], x.line)


def op_assign_param(decls, rng):
    sites = []
    for d, kind in bodies(decls):
        for x, t in d['params']:
            if t in G.INT_RANGE or t == G.T_BOOL:
                sites.append((d, x, t))
    c = pick(rng, sites)
    if not c:
        return None
    d, x, t = c
    d['body'].a.insert(0, G.assign(G.var(x, t), default_expr(t, decls)))
    return 'assignment to the parameter `%s` of `%s` inserted' % (x, d['name'])


def op_drop_final(decls, rng):
    sites = []
    for d, kind in bodies(decls):
        b = d['body']
        if d['ret'] != G.T_UNIT and b.k == 'block' and b.a and not G.is_stmt(b.a[-1]):
            sites.append(('fn', d, b))
    for n, s, o, _ in all_nodes(decls):
        if n.k == 'lambda' and n.a[1] != G.T_UNIT and n.a[2].k == 'block' and n.a[2].a and not G.is_stmt(n.a[2].a[-1]):
            sites.append(('lambda', n, n.a[2]))
    c = pick(rng, sites)
    if not c:
        return None
    kind, d, b = c
    del b.a[-1]
    if kind == 'fn':
        return 'final expression of `%s` (returns %s) deleted' % (d['name'], G.ty_dora(d['ret']))
    return 'final expression of the lambda at line %d deleted' % d.line


def op_bare_return(decls, rng):
    sites = [n for n, s, o, il in all_nodes(decls) if n.k == 'return' and n.a and n.a[0] is not None]
    n = pick(rng, sites)
    if not n:
        return None
    n.a[0] = None
    return '`return e` at line %d -> `return`' % n.line


def lacking(decls, trait, rng):
    """a type without an impl of `trait` and a closed expression of it"""
    have = set(t[1] for t in impl_types(decls, trait))
    cands = [G.T_I64, G.T_BOOL, G.T_STR]
    for d in decls:
        if d['k'] in ('struct', 'class', 'enum') and d['name'] not in have:
            cands.append(({'struct': 'Struct', 'class': 'Class', 'enum': 'Enum'}[d['k']], d['name']))
    return cands


def bound_of(decls, fname):
    d = user_fns(decls).get(fname)
    if not d or not d.get('tparams'):
        return None
    tps = d['tparams']
    if len(tps) != 1 or not tps[0][1]:
        return None
    # the parameter of type T must be the first one
    if not d['params'] or d['params'][0][1] != G.t_tp(tps[0][0]):
        return None
    return tps[0][1][0]


def op_bound(decls, rng, user):
    sites = []
    for n, s, o, _ in all_nodes(decls):
        if n.k == 'call':
            f, targs, args = split_call(n.a)
            if len(targs) == 1 and bound_of(decls, f):
                sites.append(n)
    n = pick(rng, sites)
    if not n:
        return None
    tr = bound_of(decls, n.a[0])
    cands = lacking(decls, tr, rng)
    cands = [t for t in cands if (t[0] in ('Struct', 'Class', 'Enum')) == user]
    t = pick(rng, cands)
    if t is None:
        return None
    n.a[1] = ('targs', t)
    n.a[2] = default_expr(t, decls)
    return 'call of `%s` at line %d instantiated with `%s`, which does not implement `%s`' % (n.a[0], n.line, G.ty_dora(t), tr)


def op_bound_prim(decls, rng):
    return op_bound(decls, rng, False)


def op_bound_user(decls, rng):
    return op_bound(decls, rng, True)


def op_as_unimplemented(decls, rng):
    sites = [n for n, s, o, _ in all_nodes(decls) if n.k == 'as']
    n = pick(rng, sites)
    if not n:
        return None
    t = pick(rng, lacking(decls, n.a[0], rng))
    n.a[1] = default_expr(t, decls)
    return 'operand of `as %s` at line %d -> a value of `%s`, which does not implement the trait' % (n.a[0], n.line, G.ty_dora(t))


def op_extra_fn_targ(decls, rng):
    sites = [n for n, s, o, _ in all_nodes(decls) if n.k == 'call' and split_call(n.a)[1]]
    n = pick(rng, sites)
    if not n:
        return None
    n.a[1] = n.a[1] + (G.T_BOOL,)
    return 'extra type argument on the call of `%s` at line %d' % (n.a[0], n.line)


def op_fewer_fn_targs(decls, rng):
    sites = [n for n, s, o, _ in all_nodes(decls) if n.k == 'call' and len(split_call(n.a)[1]) >= 2]
    n = pick(rng, sites)
    if not n:
        return None
    n.a[1] = n.a[1][:-1]
    return 'one type argument fewer on the call of `%s` at line %d' % (n.a[0], n.line)


def generic_lets(decls):
    return [n for n, s, o, _ in all_nodes(decls) if n.k == 'let' and not isinstance(n.a[1], RawTy)
            and n.a[1][0] in ('Array', 'Vec', 'Option')]


def op_ty_extra(decls, rng):
    n = pick(rng, generic_lets(decls))
    if not n:
        return None
    t = n.a[1]
    n.a[1] = RawTy('%s[%s, Bool]' % (t[0], G.ty_dora(t[1])), '(%s %s Bool)' % (t[0], tsx_ty(t[1])))
    return 'annotation of `let %s` at line %d: `%s` with two type arguments' % (n.a[0], n.line, t[0])


def op_ty_none(decls, rng):
    n = pick(rng, generic_lets(decls))
    if not n:
        return None
    t = n.a[1]
    n.a[1] = RawTy(t[0], t[0])
    return 'annotation of `let %s` at line %d: `%s` without type arguments' % (n.a[0], n.line, t[0])


def op_variant_extra(decls, rng):
    sites = [n for n, s, o, _ in all_nodes(decls) if n.k == 'variant' and n.a[0] == 'Option'
             and not isinstance(n.ty[1], RawTy)]
    n = pick(rng, sites)
    if not n:
        return None
    t = n.ty[1]
    n.ty = ('Option', RawTy('%s, Bool' % G.ty_dora(t), '%s Bool' % tsx_ty(t)))
    return '`%s` at line %d with two type arguments' % (n.a[1], n.line)


def op_scall_extra(decls, rng):
    sites = [n for n, s, o, _ in all_nodes(decls) if n.k == 'scall' and not isinstance(n.a[0], RawTy)
             and n.a[0][0] in ('Array', 'Vec')]
    n = pick(rng, sites)
    if not n:
        return None
    t = n.a[0]
    n.a[0] = RawTy('%s[%s, Bool]' % (t[0], G.ty_dora(t[1])), '(%s %s Bool)' % (t[0], tsx_ty(t[1])))
    return '`%s[..]::%s` at line %d with two type arguments' % (t[0], n.a[1], n.line)


def op_drop_arm(decls, rng):
    sites = []
    for n, s, o, _ in all_nodes(decls):
        if n.k == 'match' and len(n.a[1]) >= 2:
            wild = [i for i, (p, b) in enumerate(n.a[1]) if p[0] in ('pwild', 'pvar')]
            if wild:
                sites += [(n, wild[0])] * 4         # the catch-all arm is what matters ...
                for i in range(len(n.a[1])):       # ... deleting another arm leaves the match exhaustive:
                    if i != wild[0]:               # such a mutant is still well typed and must be recognised as that
                        sites.append((n, i))
            else:
                for i in range(len(n.a[1])):
                    sites.append((n, i))
    c = pick(rng, sites)
    if not c:
        return None
    n, i = c
    p, _ = n.a[1][i]
    del n.a[1][i]
    return 'arm `%s` of the match at line %d deleted' % (G.pat_dora(p), n.line)


def op_drop_impl_method(decls, rng):
    sites = []
    for d in decls:
        if d['k'] == 'impl' and d.get('trait'):
            tr = [t for t in decls if t['k'] == 'trait' and t['name'] == d['trait']]
            req = set(m['name'] for m in tr[0]['methods'] if m.get('body') is None) if tr else set()
            for i, m in enumerate(d['methods']):
                if m['name'] in req:
                    sites.append((d, i))
    c = pick(rng, sites)
    if not c:
        return None
    d, i = c
    nm = d['methods'][i]['name']
    del d['methods'][i]
    return 'method `%s` deleted from `impl %s for %s`' % (nm, d['trait'], d['type'])


OPS = {
    'mismatch': [('lit_bool', op_lit_bool), ('lit_str', op_lit_str), ('cond_int', op_cond_int), ('let_init', op_let_init),
                 ('arg_type', op_arg_type), ('ret_type', op_ret_type), ('ctor_tuple_arity', op_ctor_tuple_arity),
                 ('ctor_fn_arity', op_ctor_fn_arity)],
    'argcount': [('drop_arg', op_drop_arg), ('add_arg', op_add_arg)],
    'unknown': [('rename_var', op_rename_var), ('unknown_fn', op_unknown_fn), ('unknown_method', op_unknown_method),
                ('unknown_field', op_unknown_field), ('private_fn', op_private_fn)],
    'immutable': [('flip_mut', op_flip_mut), ('insert_assign', op_insert_assign), ('assign_param', op_assign_param)],
    'missingreturn': [('drop_final', op_drop_final), ('bare_return', op_bare_return)],
    'bound': [('bound_prim', op_bound_prim), ('bound_user', op_bound_user), ('as_unimplemented', op_as_unimplemented)],
    'typeargs': [('extra_fn_targ', op_extra_fn_targ), ('fewer_fn_targs', op_fewer_fn_targs), ('ty_extra', op_ty_extra),
                 ('ty_none', op_ty_none), ('variant_extra', op_variant_extra), ('scall_extra', op_scall_extra)],
    'nonexhaustive': [('drop_arm', op_drop_arm)],
    'missingmethod': [('drop_impl_method', op_drop_impl_method)],
}
OP_CLASS = dict((name, cls) for cls, ops in OPS.items() for name, _ in ops)
OP_FN = dict((name, f) for cls, ops in OPS.items() for name, f in ops)


class Mutant:
    def __init__(self, name, base, cls, op, what, decls):
        self.name = name
        self.base = base.name
        self.family = base.family
        self.cls = cls
        self.op = op
        self.what = what
        self.dora = emit_dora_ext(decls)
        self.tsexp = emit_tsexp(name, decls)


def mutant(base, op, rng, tag):
    decls = copy.deepcopy(base.decls)
    what = OP_FN[op](decls, rng)
    if what is None:
        return None
    return Mutant('%s_%s' % (base.name, tag), base, OP_CLASS[op], op, what, decls)


def mutants(base, seed, per_class=1, classes=None):
    """`per_class` mutants of every class (of `classes`) for this base program (operators rotate; an operator
    without a site in this program is skipped for the next one of its class)"""
    res = []
    for ci, cls in enumerate(CLASSES):
        if classes is not None and cls not in classes:
            continue
        ops = OPS[cls]
        rng = random.Random('c05mut/%s/%s/%s' % (seed, base.name, cls))
        start = rng.randrange(len(ops))
        made = 0
        tries = 0
        while made < per_class and tries < len(ops) * 2:
            name, f = ops[(start + tries) % len(ops)]
            tries += 1
            m = mutant(base, name, rng, '%s%d' % (name, made))
            if m is not None:
                res.append(m)
                made += 1
    return res


def main(argv):
    seed = int(os.environ.get('VERIF_SEED', '1'))
    if len(argv) >= 2 and argv[1] == 'req':
        n = int(argv[2]) if len(argv) > 2 else 4
        for b in base_programs(seed, n):
            print('base %s %s' % (b.family, b.tsexp))
            for m in mutants(b, seed):
                print('mutant %s %s %s' % (m.cls, m.op, m.tsexp))
        return 0
    if len(argv) >= 2 and argv[1] == 'show':
        i = int(argv[2])
        b = base_programs(seed, i + 1)[i]
        if len(argv) > 3:
            ms = [m for m in mutants(b, seed, 2) if m.op == argv[3]]
            for m in ms:
                sys.stdout.write('// %s: %s\n%s' % (m.op, m.what, m.dora))
        else:
            sys.stdout.write(b.dora)
        return 0
    sys.stderr.write('usage: c05_mutants.py req <n> | show <i> [op]\n')
    return 2


if __name__ == '__main__':
    sys.exit(main(sys.argv))
