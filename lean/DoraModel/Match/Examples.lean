import DoraModel.Match.LemmasSurface
import DoraModel.Match.LemmasNoPanic
/-! The concrete matrix used by the non-vacuity examples of Props/C11.lean, and the facts about it that the
    examples need (kept out of Props/C11.lean, where every `theorem` counts as a property theorem). -/
namespace Dora.Match.C11
open Dora.Match

/-- rows `E::A(true | false, _)` (guarded) and `E::A(_, true)`; row under test `E::A(false, false) | E::B`:
    an alternative, nested constructors and a guard -/
def exMatrix : List (List Pat) :=
  [[.ctor [0] (.enum 0 0) [.alt [0, 0] [.lit [0, 0, 0] (.bool true), .lit [0, 0, 1] (.bool false)], .any (some [0, 1])], .guard],
   [.ctor [1] (.enum 0 0) [.any (some [1, 0]), .lit [1, 1] (.bool true)], anyNoSpan]]
def exRow : List Pat :=
  [.alt [2] [.ctor [2, 0] (.enum 0 0) [.lit [2, 0, 0] (.bool false), .lit [2, 0, 1] (.bool false)],
             .ctor [2, 1] (.enum 0 1) []], anyNoSpan]
def exTys : List Ty := [.adt 0, .guardT]

theorem exEnv_noGuardFields : NoGuardFields exEnv := by
  intro d tys htys
  match d with
  | 0 =>
    simp only [exEnv, envOf, exDecls, List.getD_cons_zero, List.mem_cons, List.not_mem_nil, or_false] at htys
    rcases htys with rfl | rfl <;> simp
  | n + 1 =>
    simp only [exEnv, envOf, exDecls, unitDecl, List.getD_cons_succ, List.getD_nil, List.mem_cons, List.not_mem_nil,
      or_false] at htys
    subst htys
    simp

theorem exMatrix_wt : matrixWT exEnv exMatrix exTys := by
  intro r hr
  simp only [exMatrix, List.mem_cons, List.not_mem_nil, or_false] at hr
  rcases hr with rfl | rfl <;> decide

theorem exTys_guardLast : guardLast exTys := by
  intro i hi
  match i with
  | 0 => simp [exTys] at hi
  | 1 => rfl
  | n + 2 => simp [exTys] at hi

end Dora.Match.C11
