import DoraModel.Match.LemmasConv
/-!
C11, the converse of `accepted_covers` at the level of `check_match`: if the unguarded arms of a match cover every
value of the scrutinee's type and `check_match` returns, it reports no missing pattern.
-/
namespace Dora.Match

theorem hasTypes_one {env : Env} {vs : List Val} {t : Ty} (h : hasTypes env vs [t] = true) :
    ∃ v, vs = [v] ∧ hasType env v t = true := by
  match vs, h with
  | [], h => simp [hasTypes] at h
  | [v], h => exact ⟨v, rfl, by simpa [hasTypes] using h⟩
  | _ :: _ :: _, h => simp [hasTypes] at h

theorem hasTypes_two {env : Env} {vs : List Val} {t u : Ty} (h : hasTypes env vs [t, u] = true) :
    ∃ v g, vs = [v, g] ∧ hasType env v t = true := by
  match vs, h with
  | [], h => simp [hasTypes] at h
  | [_], h => simp [hasTypes] at h
  | [v, g], h => exact ⟨v, g, rfl, by simp only [hasTypes, Bool.and_eq_true] at h; exact h.1⟩
  | _ :: _ :: _ :: _, h => simp [hasTypes] at h

/-- what `check_match` computed when it returned `r` -/
theorem checkMatch_unfold {env : Env} {fuel : Nat} {arms : List Arm} {r : MatchResult}
    (h : checkMatch env fuel arms = .ok r) :
    ∃ matrix useless, checkArms env fuel (arms.any (·.guarded)) 0 arms [] [] = .ok (matrix, useless) ∧
      checkExhaustive env fuel matrix (if arms.any (·.guarded) then 2 else 1) = .ok r.missing := by
  simp only [checkMatch] at h
  generalize hn : (if (arms.any fun x => x.guarded) = true then 2 else 1) = n at h
  cases hca : checkArms env fuel (arms.any fun x => x.guarded) 0 arms [] [] with
  | error e => simp [hca] at h
  | ok mu =>
    obtain ⟨matrix, useless⟩ := mu
    simp only [hca] at h
    cases hex : checkExhaustive env fuel matrix n with
    | error e => simp [hex] at h
    | ok missing =>
      simp only [hex] at h
      by_cases hany : (missing.any fun row => row.length != n) = true
      · simp [hany, panic] at h
      · simp only [hany, Bool.false_eq_true, ↓reduceIte, pure, Except.pure, Except.ok.injEq] at h
        subst h
        exact ⟨matrix, useless, rfl, by simpa [hn] using hex⟩

/-- if the unguarded arms cover every value of type `t`, `check_match` (when it returns) reports nothing missing -/
theorem covers_accepted {env : Env} (hinh : Inh env) (fuel : Nat) (arms : List Arm) (t : Ty)
    (hwf : ∀ a ∈ arms, spatWT env a.pat t = true) (r : MatchResult) (h : checkMatch env fuel arms = .ok r)
    (hcov : ∀ v, hasType env v t = true → ∃ a ∈ arms, smatch a.pat v = true ∧ a.guarded = false) :
    r.missing = [] := by
  obtain ⟨matrix, useless, hca, hex⟩ := checkMatch_unfold h
  obtain ⟨rows, hm, hl, hrows⟩ := checkArms_rows env fuel _ arms 0 [] [] matrix useless hca
  simp only [List.nil_append] at hm
  rw [hm] at hex
  -- the row of an arm
  have hrowOf : ∀ a ∈ arms, ∃ cp, (∃ j, convertPattern env [j] a.pat = .ok cp) ∧
      armRow (arms.any (·.guarded)) a cp ∈ rows := by
    intro a ha
    obtain ⟨j, hj, hja⟩ := List.mem_iff_getElem.mp ha
    obtain ⟨cp, hcp, hrj⟩ := hrows j a (by rw [List.getElem?_eq_getElem hj, hja])
    exact ⟨cp, ⟨j, by simpa using hcp⟩, List.mem_of_getElem? hrj⟩
  -- every row is the row of some arm
  have hrow : ∀ r ∈ rows, ∃ j a cp, arms[j]? = some a ∧ convertPattern env [j] a.pat = .ok cp ∧
      r = armRow (arms.any (·.guarded)) a cp := by
    intro r hr
    obtain ⟨j, hj, hjr⟩ := List.mem_iff_getElem.mp hr
    have hja : j < arms.length := by omega
    obtain ⟨cp, hcp, hrj⟩ := hrows j arms[j] (List.getElem?_eq_getElem hja)
    rw [List.getElem?_eq_getElem hj, hjr] at hrj
    exact ⟨j, arms[j], cp, List.getElem?_eq_getElem hja, by simpa using hcp, Option.some.inj hrj⟩
  cases hmiss : r.missing with
  | nil => rfl
  | cons w ws =>
    exfalso
    rw [hmiss] at hex
    cases hag : arms.any (·.guarded) with
    | true =>
      simp only [hag, ↓reduceIte] at hex hrow hrowOf
      have hmwt : matrixWT env rows [t, .guardT] := by
        intro r hr
        obtain ⟨j, a, cp, ha, hcp, rfl⟩ := hrow r hr
        have := (convert_correct env a.pat t [j] cp (hwf a (List.mem_of_getElem? ha)) hcp).1
        cases hg : a.guarded <;> simp [armRow, patsWT, patWT, this, hg, anyNoSpan]
      obtain ⟨vs, hvs, _, hun⟩ :=
        (checkExhaustive_correct hinh fuel rows 2 [t, .guardT] (w :: ws) hmwt rfl hex).2 w List.mem_cons_self
      obtain ⟨v, g, rfl, hv⟩ := hasTypes_two hvs
      obtain ⟨a, ha, hs, hg⟩ := hcov v hv
      obtain ⟨cp, ⟨j, hcp⟩, hmem⟩ := hrowOf a ha
      have hsem := (convert_correct env a.pat t [j] cp (hwf a ha) hcp).2 false v hv
      have := hun _ hmem
      simp [armRow, hg, matchPats, matchPat, anyNoSpan, hsem, hs] at this
    | false =>
      simp only [hag, Bool.false_eq_true, ↓reduceIte] at hex hrow hrowOf
      have hmwt : matrixWT env rows [t] := by
        intro r hr
        obtain ⟨j, a, cp, ha, hcp, rfl⟩ := hrow r hr
        have := (convert_correct env a.pat t [j] cp (hwf a (List.mem_of_getElem? ha)) hcp).1
        simp [armRow, patsWT, this]
      obtain ⟨vs, hvs, _, hun⟩ :=
        (checkExhaustive_correct hinh fuel rows 1 [t] (w :: ws) hmwt rfl hex).2 w List.mem_cons_self
      obtain ⟨v, rfl, hv⟩ := hasTypes_one hvs
      obtain ⟨a, ha, hs, hg⟩ := hcov v hv
      obtain ⟨cp, ⟨j, hcp⟩, hmem⟩ := hrowOf a ha
      have hsem := (convert_correct env a.pat t [j] cp (hwf a ha) hcp).2 false v hv
      have := hun _ hmem
      simp [armRow, matchPats, hsem, hs] at this

end Dora.Match
