import DoraModel.Match.Lemmas
/-!
C11: `check_useful_expand_inner` / `check_useful_expand` answer `Useless::Yes` exactly when the row under test
is not useful (Maranget's "useless clause" check with or-pattern expansion, transcribed in `Model.lean`).
-/
namespace Dora.Match

/-- a split row is well-typed for the column types of its three parts -/
def splitWT (env : Env) (tp tq tr : List Ty) (row : SplitRow) : Prop :=
  patsWT env row.p tp = true ∧ patsWT env row.q tq = true ∧ patsWT env row.r tr = true

def splitMatch (g : Bool) (row : SplitRow) (vp vq vr : List Val) : Bool :=
  matchPats g row.p vp && matchPats g row.q vq && matchPats g row.r vr

/-- usefulness of a split row: the three parts are just a rearrangement of the columns -/
def SplitUseful (env : Env) (tp tq tr : List Ty) (m : List SplitRow) (row : SplitRow) : Prop :=
  ∃ vp vq vr, hasTypes env vp tp = true ∧ hasTypes env vq tq = true ∧ hasTypes env vr tr = true ∧
    splitMatch true row vp vq vr = true ∧ ∀ r ∈ m, splitMatch false r vp vq vr = false

/-! ### a guard entry only makes matching harder when read with `g = false` -/

mutual
theorem matchPat_mono : ∀ (p : Pat) (v : Val), matchPat false p v = true → matchPat true p v = true
  | .any _, _, _ => by simp [matchPat]
  | .guard, _, h => by simp [matchPat] at h
  | .lit _ _, _, h => by simpa [matchPat] using h
  | .ctor _ _ ps, .ctor _ vs, h => by
    simp only [matchPat, Bool.and_eq_true] at h ⊢
    exact ⟨h.1, matchPats_mono ps vs h.2⟩
  | .ctor _ _ _, .lit _, h => by simp [matchPat] at h
  | .ctor _ _ _, .guardV, h => by simp [matchPat] at h
  | .alt _ ps, v, h => by
    simp only [matchPat] at h ⊢
    exact matchAlts_mono ps v h
theorem matchPats_mono : ∀ (ps : List Pat) (vs : List Val), matchPats false ps vs = true → matchPats true ps vs = true
  | [], [], _ => by simp [matchPats]
  | [], _ :: _, h => by simp [matchPats] at h
  | _ :: _, [], h => by simp [matchPats] at h
  | p :: ps, v :: vs, h => by
    simp only [matchPats, Bool.and_eq_true] at h ⊢
    exact ⟨matchPat_mono p v h.1, matchPats_mono ps vs h.2⟩
theorem matchAlts_mono : ∀ (ps : List Pat) (v : Val), matchAlts false ps v = true → matchAlts true ps v = true
  | [], _, h => by simp [matchAlts] at h
  | p :: ps, v, h => by
    simp only [matchAlts, Bool.or_eq_true] at h ⊢
    rcases h with h | h
    · exact Or.inl (matchPat_mono p v h)
    · exact Or.inr (matchAlts_mono ps v h)
end

/-! ### removing / inserting one column -/

theorem matchPats_eraseIdx (g : Bool) : ∀ (j : Nat) (ps : List Pat) (vs : List Val) (x : Pat) (w : Val),
    ps[j]? = some x → vs[j]? = some w →
    matchPats g ps vs = (matchPat g x w && matchPats g (ps.eraseIdx j) (vs.eraseIdx j))
  | _, [], _, _, _, h, _ => by simp at h
  | _, _ :: _, [], _, _, _, h => by simp at h
  | 0, p :: ps, v :: vs, x, w, h1, h2 => by
    simp only [List.getElem?_cons_zero, Option.some.injEq] at h1 h2
    subst h1 h2
    simp [matchPats]
  | j + 1, p :: ps, v :: vs, x, w, h1, h2 => by
    simp only [List.getElem?_cons_succ] at h1 h2
    simp only [List.eraseIdx_cons_succ, matchPats]
    rw [matchPats_eraseIdx g j ps vs x w h1 h2, Bool.and_left_comm]

theorem hasTypes_eraseIdx (env : Env) : ∀ (j : Nat) (vs : List Val) (ts : List Ty) (w : Val) (t : Ty),
    vs[j]? = some w → ts[j]? = some t →
    hasTypes env vs ts = (hasType env w t && hasTypes env (vs.eraseIdx j) (ts.eraseIdx j))
  | _, [], _, _, _, h, _ => by simp at h
  | _, _ :: _, [], _, _, _, h => by simp at h
  | 0, p :: ps, v :: vs, x, w, h1, h2 => by
    simp only [List.getElem?_cons_zero, Option.some.injEq] at h1 h2
    subst h1 h2
    simp [hasTypes]
  | j + 1, p :: ps, v :: vs, x, w, h1, h2 => by
    simp only [List.getElem?_cons_succ] at h1 h2
    simp only [List.eraseIdx_cons_succ, hasTypes]
    rw [hasTypes_eraseIdx env j ps vs x w h1 h2, Bool.and_left_comm]

theorem patsWT_eraseIdx (env : Env) : ∀ (j : Nat) (ps : List Pat) (ts : List Ty) (x : Pat),
    patsWT env ps ts = true → ps[j]? = some x →
    ∃ t, ts[j]? = some t ∧ patWT env x t = true ∧ patsWT env (ps.eraseIdx j) (ts.eraseIdx j) = true
  | _, [], _, _, _, h => by simp at h
  | _, _ :: _, [], _, h, _ => by simp [patsWT] at h
  | 0, p :: ps, t :: ts, x, h, h1 => by
    simp only [List.getElem?_cons_zero, Option.some.injEq] at h1
    subst h1
    simp only [patsWT, Bool.and_eq_true] at h
    exact ⟨t, by simp, h.1, by simpa using h.2⟩
  | j + 1, p :: ps, t :: ts, x, h, h1 => by
    simp only [List.getElem?_cons_succ] at h1
    simp only [patsWT, Bool.and_eq_true] at h
    obtain ⟨t', ht', hx, hr⟩ := patsWT_eraseIdx env j ps ts x h.2 h1
    exact ⟨t', by simpa using ht', hx, by simp [patsWT, h.1, hr]⟩

theorem exists_insert {α : Type} : ∀ (j : Nat) (a : List α) (x : α), j ≤ a.length →
    ∃ l : List α, l[j]? = some x ∧ l.eraseIdx j = a
  | 0, a, x, _ => ⟨x :: a, by simp, by simp⟩
  | j + 1, [], x, h => by simp at h
  | j + 1, y :: a, x, h => by
    obtain ⟨l, h1, h2⟩ := exists_insert j a x (by simpa using h)
    exact ⟨y :: l, by simpa using h1, by simp [h2]⟩

/-! ### `Useless::union_all` -/

theorem unionAll_yes {l : List (Useless × Span)} {u : Useless} (h : unionAll l = .ok u) :
    u.isYes = true ↔ ∀ e ∈ l, e.1.isYes = true := by
  simp only [unionAll] at h
  split at h
  · rename_i hall
    simp only [pure, Except.pure, Except.ok.injEq] at h
    subst h
    simpa [Useless.isYes] using hall
  · rename_i hall
    split at h
    · simp at h
    · simp only [pure, Except.pure, Except.ok.injEq] at h
      subst h
      simp only [Useless.isYes, Bool.false_eq_true, false_iff]
      intro hc
      exact hall (List.all_eq_true.mpr hc)

/-! ### the matrix seen from the `p` part: rows whose `q` and `r` parts match -/

def pm (m : List SplitRow) (vq vr : List Val) : List (List Pat) :=
  (m.filter (fun r => matchPats false r.q vq && matchPats false r.r vr)).map (·.p)

theorem suncov_iff (m : List SplitRow) (vp vq vr : List Val) :
    (∀ r ∈ m, splitMatch false r vp vq vr = false) ↔ Uncov (pm m vq vr) vp := by
  simp only [Uncov, pm, List.mem_map, List.mem_filter, splitMatch]
  constructor
  · rintro h x ⟨r, ⟨hr, hqr⟩, rfl⟩
    have := h r hr
    simp only [Bool.and_eq_true] at hqr
    simpa [hqr.1, hqr.2] using this
  · intro h r hr
    apply bool_not_true
    intro hm
    simp only [Bool.and_eq_true] at hm
    have := h r.p ⟨r, ⟨hr, by simp [hm.1.2, hm.2]⟩, rfl⟩
    simp [hm.1.1] at this

theorem onP_filter {f : List Pat → Except Err (List (List Pat))} (Q : SplitRow → Bool)
    (hQ : ∀ (r : SplitRow) (p' : List Pat), Q { r with p := p' } = Q r) :
    ∀ {m m' : List SplitRow}, flatMapE (onP f) m = .ok m' →
      flatMapE f ((m.filter Q).map (·.p)) = .ok ((m'.filter Q).map (·.p))
  | [], m', h => by
    simp only [flatMapE, pure, Except.pure, Except.ok.injEq] at h
    subst h
    simp [flatMapE, pure, Except.pure]
  | x :: xs, m', h => by
    simp only [flatMapE] at h
    cases hf : onP f x with
    | error e => simp [hf] at h
    | ok a =>
      cases hr : flatMapE (onP f) xs with
      | error e => simp [hf, hr] at h
      | ok b =>
        simp only [hf, hr, pure, Except.pure, Except.ok.injEq] at h
        subst h
        have ih := onP_filter Q hQ hr
        simp only [onP] at hf
        cases hfx : f x.p with
        | error e => simp [hfx] at hf
        | ok ps =>
          simp only [hfx, pure, Except.pure, Except.ok.injEq] at hf
          subst hf
          cases hqx : Q x with
          | true =>
            have hfil : (ps.map (fun p => ({ x with p := p } : SplitRow))).filter Q =
                ps.map (fun p => ({ x with p := p } : SplitRow)) := by
              apply List.filter_eq_self.mpr
              intro a ha
              obtain ⟨p, _, rfl⟩ := List.mem_map.mp ha
              rw [hQ]; exact hqx
            simp only [List.filter_cons, hqx, ↓reduceIte, List.map_cons, flatMapE, hfx, ih,
              List.filter_append, hfil, List.map_append, List.map_map, pure, Except.pure]
            have hcomp : ((fun x : SplitRow => x.p) ∘ fun p => ({ x with p := p } : SplitRow)) = id := rfl
            rw [hcomp, List.map_id]
          | false =>
            have hfil : (ps.map (fun p => ({ x with p := p } : SplitRow))).filter Q = [] := by
              apply List.filter_eq_nil_iff.mpr
              intro a ha
              obtain ⟨p, _, rfl⟩ := List.mem_map.mp ha
              rw [hQ]; simp [hqx]
            simp [hqx, ih, List.filter_append, hfil]

theorem onP_pm {f : List Pat → Except Err (List (List Pat))} {m m' : List SplitRow}
    (h : flatMapE (onP f) m = .ok m') (vq vr : List Val) :
    flatMapE f (pm m vq vr) = .ok (pm m' vq vr) :=
  onP_filter _ (fun _ _ => rfl) h

theorem onP_map {f : List Pat → Except Err (List (List Pat))} {m m' : List SplitRow}
    (h : flatMapE (onP f) m = .ok m') : flatMapE f (m.map (·.p)) = .ok (m'.map (·.p)) := by
  have := onP_filter (fun _ => true) (fun _ _ => rfl) h
  have e : ∀ l : List SplitRow, l.filter (fun _ => true) = l :=
    fun l => List.filter_eq_self.mpr (by simp)
  rw [e, e] at this
  exact this

theorem onP_mem {f : List Pat → Except Err (List (List Pat))} {m m' : List SplitRow}
    (h : flatMapE (onP f) m = .ok m') : ∀ r' ∈ m', ∃ r ∈ m, r'.q = r.q ∧ r'.r = r.r := by
  intro r' hr'
  obtain ⟨r, hr, zs, hz, hrz⟩ := ((flatMapE_ok h).2 r').mp hr'
  simp only [onP] at hz
  split at hz
  · simp at hz
  · simp only [pure, Except.pure, Except.ok.injEq] at hz
    subst hz
    obtain ⟨p, _, rfl⟩ := List.mem_map.mp hrz
    exact ⟨r, hr, rfl, rfl⟩

theorem onP_wt {env : Env} {f : List Pat → Except Err (List (List Pat))} {m m' : List SplitRow}
    {tp tp' tq tr : List Ty} (h : flatMapE (onP f) m = .ok m')
    (hm : ∀ r ∈ m, splitWT env tp tq tr r)
    (hp : matrixWT env (m.map (·.p)) tp → flatMapE f (m.map (·.p)) = .ok (m'.map (·.p)) →
      matrixWT env (m'.map (·.p)) tp') :
    ∀ r' ∈ m', splitWT env tp' tq tr r' := by
  have hmp : matrixWT env (m.map (·.p)) tp := by
    intro x hx
    obtain ⟨r, hr, rfl⟩ := List.mem_map.mp hx
    exact (hm r hr).1
  have hp' := hp hmp (onP_map h)
  intro r' hr'
  obtain ⟨r, hr, hq, hrr⟩ := onP_mem h r' hr'
  refine ⟨hp' _ (List.mem_map.mpr ⟨r', hr', rfl⟩), ?_, ?_⟩
  · rw [hq]; exact (hm r hr).2.1
  · rw [hrr]; exact (hm r hr).2.2

theorem pm_wt {env : Env} {m : List SplitRow} {tp tq tr : List Ty} (hm : ∀ r ∈ m, splitWT env tp tq tr r)
    (vq vr : List Val) : matrixWT env (pm m vq vr) tp := by
  intro x hx
  simp only [pm, List.mem_map, List.mem_filter] at hx
  obtain ⟨r, ⟨hr, _⟩, rfl⟩ := hx
  exact (hm r hr).1

theorem splitUseful_iff (env : Env) (tp tq tr : List Ty) (m : List SplitRow) (row : SplitRow) :
    SplitUseful env tp tq tr m row ↔
      ∃ vp vq vr, hasTypes env vp tp = true ∧ hasTypes env vq tq = true ∧ hasTypes env vr tr = true ∧
        splitMatch true row vp vq vr = true ∧ Uncov (pm m vq vr) vp := by
  simp only [SplitUseful, suncov_iff]

/-- moving value vectors along: if every vector of the old problem can be turned into one of the new problem
    such that the row still matches and a matching new matrix row comes from a matching old one -/
theorem splitUseful_transfer {env : Env} {tp tq tr tp' tq' tr' : List Ty} {m m' : List SplitRow}
    {row row' : SplitRow}
    (H : ∀ vp vq vr, hasTypes env vp tp = true → hasTypes env vq tq = true → hasTypes env vr tr = true →
      ∃ vp' vq' vr', hasTypes env vp' tp' = true ∧ hasTypes env vq' tq' = true ∧ hasTypes env vr' tr' = true ∧
        splitMatch true row' vp' vq' vr' = splitMatch true row vp vq vr ∧
        ∀ r' ∈ m', splitMatch false r' vp' vq' vr' = true → ∃ r ∈ m, splitMatch false r vp vq vr = true) :
    SplitUseful env tp tq tr m row → SplitUseful env tp' tq' tr' m' row' := by
  rintro ⟨vp, vq, vr, h1, h2, h3, hm, hu⟩
  obtain ⟨vp', vq', vr', h1', h2', h3', hm', hu'⟩ := H vp vq vr h1 h2 h3
  refine ⟨vp', vq', vr', h1', h2', h3', by rw [hm', hm], ?_⟩
  intro r' hr'
  apply bool_not_true
  intro hmr
  obtain ⟨r, hr, hmr'⟩ := hu' r' hr' hmr
  rw [hu r hr] at hmr'
  simp at hmr'

/-! ### `shift_p_into_q`, `shift_p_into_r` -/

theorem shiftQ_ok {r r' : SplitRow} (h : r.shiftPIntoQ = .ok r') :
    ∃ x ps q rr, r = ⟨x :: ps, q, rr⟩ ∧ r' = ⟨ps, x :: q, rr⟩ := by
  obtain ⟨rp, rq, rr⟩ := r
  simp only [SplitRow.shiftPIntoQ] at h
  split at h
  · simp [panic] at h
  · simp only [pure, Except.pure, Except.ok.injEq] at h
    subst h
    exact ⟨_, _, _, _, rfl, rfl⟩

theorem shiftR_ok {r r' : SplitRow} (h : r.shiftPIntoR = .ok r') :
    ∃ x ps q rr, r = ⟨x :: ps, q, rr⟩ ∧ r' = ⟨ps, q, x :: rr⟩ := by
  obtain ⟨rp, rq, rr⟩ := r
  simp only [SplitRow.shiftPIntoR] at h
  split at h
  · simp [panic] at h
  · simp only [pure, Except.pure, Except.ok.injEq] at h
    subst h
    exact ⟨_, _, _, _, rfl, rfl⟩

theorem shiftQ_match (g : Bool) (x : Pat) (ps q r : List Pat) (v : Val) (vp vq vr : List Val) :
    splitMatch g ⟨ps, x :: q, r⟩ vp (v :: vq) vr = splitMatch g ⟨x :: ps, q, r⟩ (v :: vp) vq vr := by
  simp only [splitMatch, matchPats]
  cases matchPat g x v <;> cases matchPats g ps vp <;> simp

theorem shiftR_match (g : Bool) (x : Pat) (ps q r : List Pat) (v : Val) (vp vq vr : List Val) :
    splitMatch g ⟨ps, q, x :: r⟩ vp vq (v :: vr) = splitMatch g ⟨x :: ps, q, r⟩ (v :: vp) vq vr := by
  simp only [splitMatch, matchPats]
  cases matchPat g x v <;> cases matchPats g ps vp <;> cases matchPats g q vq <;> simp

theorem patsWT_nil {env : Env} {ps : List Pat} (h : patsWT env ps [] = true) : ps = [] := by
  cases ps <;> simp_all [patsWT]

theorem hasTypes_nil {env : Env} {vs : List Val} (h : hasTypes env vs [] = true) : vs = [] := by
  cases vs <;> simp_all [hasTypes]

theorem useful_shiftQ {env : Env} {tp' tq tr : List Ty} {t : Ty} {m m' : List SplitRow} {x : Pat}
    {ps rq rr : List Pat} (h : mapE SplitRow.shiftPIntoQ m = .ok m') :
    SplitUseful env (t :: tp') tq tr m ⟨x :: ps, rq, rr⟩ ↔
      SplitUseful env tp' (t :: tq) tr m' ⟨ps, x :: rq, rr⟩ := by
  have hh := mapE_ok h
  constructor
  · apply splitUseful_transfer
    intro vp vq vr h1 h2 h3
    cases vp with
    | nil => simp [hasTypes] at h1
    | cons v vp =>
      simp only [hasTypes, Bool.and_eq_true] at h1
      refine ⟨vp, v :: vq, vr, h1.2, by simp [hasTypes, h1.1, h2], h3, shiftQ_match _ _ _ _ _ _ _ _ _, ?_⟩
      intro r' hr' hmr
      obtain ⟨r, hr, hs⟩ := hh.1 r' hr'
      obtain ⟨y, ys, q, rr', rfl, rfl⟩ := shiftQ_ok hs
      exact ⟨_, hr, by rw [← shiftQ_match]; exact hmr⟩
  · apply splitUseful_transfer
    intro vp vq vr h1 h2 h3
    cases vq with
    | nil => simp [hasTypes] at h2
    | cons v vq =>
      simp only [hasTypes, Bool.and_eq_true] at h2
      refine ⟨v :: vp, vq, vr, by simp [hasTypes, h2.1, h1], h2.2, h3, (shiftQ_match _ _ _ _ _ _ _ _ _).symm, ?_⟩
      intro r hr hmr
      obtain ⟨r', hr', hs⟩ := hh.2 r hr
      obtain ⟨y, ys, q, rr', rfl, rfl⟩ := shiftQ_ok hs
      exact ⟨_, hr', by rw [shiftQ_match]; exact hmr⟩

theorem wt_shiftQ {env : Env} {tp' tq tr : List Ty} {t : Ty} {m m' : List SplitRow}
    (h : mapE SplitRow.shiftPIntoQ m = .ok m') (hm : ∀ r ∈ m, splitWT env (t :: tp') tq tr r) :
    ∀ r' ∈ m', splitWT env tp' (t :: tq) tr r' := by
  intro r' hr'
  obtain ⟨r, hr, hs⟩ := (mapE_ok h).1 r' hr'
  obtain ⟨y, ys, q, rr', rfl, rfl⟩ := shiftQ_ok hs
  have := hm _ hr
  simp only [splitWT, patsWT, Bool.and_eq_true] at this ⊢
  exact ⟨this.1.2, ⟨this.1.1, this.2.1⟩, this.2.2⟩

theorem useful_shiftR {env : Env} {tp' tq tr : List Ty} {t : Ty} {m m' : List SplitRow} {x : Pat}
    {ps rq rr : List Pat} (h : mapE SplitRow.shiftPIntoR m = .ok m') :
    SplitUseful env (t :: tp') tq tr m ⟨x :: ps, rq, rr⟩ ↔
      SplitUseful env tp' tq (t :: tr) m' ⟨ps, rq, x :: rr⟩ := by
  have hh := mapE_ok h
  constructor
  · apply splitUseful_transfer
    intro vp vq vr h1 h2 h3
    cases vp with
    | nil => simp [hasTypes] at h1
    | cons v vp =>
      simp only [hasTypes, Bool.and_eq_true] at h1
      refine ⟨vp, vq, v :: vr, h1.2, h2, by simp [hasTypes, h1.1, h3], shiftR_match _ _ _ _ _ _ _ _ _, ?_⟩
      intro r' hr' hmr
      obtain ⟨r, hr, hs⟩ := hh.1 r' hr'
      obtain ⟨y, ys, q, rr', rfl, rfl⟩ := shiftR_ok hs
      exact ⟨_, hr, by rw [← shiftR_match]; exact hmr⟩
  · apply splitUseful_transfer
    intro vp vq vr h1 h2 h3
    cases vr with
    | nil => simp [hasTypes] at h3
    | cons v vr =>
      simp only [hasTypes, Bool.and_eq_true] at h3
      refine ⟨v :: vp, vq, vr, by simp [hasTypes, h3.1, h1], h2, h3.2, (shiftR_match _ _ _ _ _ _ _ _ _).symm, ?_⟩
      intro r hr hmr
      obtain ⟨r', hr', hs⟩ := hh.2 r hr
      obtain ⟨y, ys, q, rr', rfl, rfl⟩ := shiftR_ok hs
      exact ⟨_, hr', by rw [shiftR_match]; exact hmr⟩

theorem wt_shiftR {env : Env} {tp' tq tr : List Ty} {t : Ty} {m m' : List SplitRow}
    (h : mapE SplitRow.shiftPIntoR m = .ok m') (hm : ∀ r ∈ m, splitWT env (t :: tp') tq tr r) :
    ∀ r' ∈ m', splitWT env tp' tq (t :: tr) r' := by
  intro r' hr'
  obtain ⟨r, hr, hs⟩ := (mapE_ok h).1 r' hr'
  obtain ⟨y, ys, q, rr', rfl, rfl⟩ := shiftR_ok hs
  have := hm _ hr
  simp only [splitWT, patsWT, Bool.and_eq_true] at this ⊢
  exact ⟨this.1.2, this.2.1, this.1.1, this.2.2⟩

/-! ### the specialising cases -/

theorem useful_lit {env : Env} {t : Ty} {tp' tq tr : List Ty} {m m' : List SplitRow} {sp : Span} {l : Lit}
    {ps rq rr : List Pat} (hwtl : patWT env (.lit sp l) t = true)
    (h : flatMapE (onP (specializeRowForLiteral l)) m = .ok m') :
    SplitUseful env (t :: tp') tq tr m ⟨.lit sp l :: ps, rq, rr⟩ ↔
      SplitUseful env tp' tq tr m' ⟨ps, rq, rr⟩ := by
  simp only [splitUseful_iff]
  constructor
  · rintro ⟨vp, vq, vr, h1, h2, h3, hm, hu⟩
    cases vp with
    | nil => simp [hasTypes] at h1
    | cons v vp =>
      simp only [splitMatch, matchPats, matchPat, litMatches_iff, Bool.and_eq_true] at hm
      obtain ⟨⟨⟨rfl, hmp⟩, hmq⟩, hmr⟩ := hm
      simp only [hasTypes, Bool.and_eq_true] at h1
      exact ⟨vp, vq, vr, h1.2, h2, h3, by simp [splitMatch, hmp, hmq, hmr],
        (uncov_lit (onP_pm h vq vr) vp).mp hu⟩
  · rintro ⟨vp, vq, vr, h1, h2, h3, hm, hu⟩
    simp only [splitMatch, Bool.and_eq_true] at hm
    refine ⟨litVal l :: vp, vq, vr, by simp [hasTypes, h1, litVal_typed hwtl], h2, h3, ?_,
      (uncov_lit (onP_pm h vq vr) vp).mpr hu⟩
    simp [splitMatch, matchPats, matchPat, litMatches_iff, hm.1.1, hm.1.2, hm.2]

theorem useful_ctor {env : Env} {d : Nat} {tys tp' tq tr : List Ty} {m m' : List SplitRow} {sp : Span}
    {cid : CtorId} {params ps rq rr : List Pat}
    (hf : fieldsOf env (.adt d) cid.vid = some tys) (hlen : params.length = tys.length)
    (h : flatMapE (onP (specializeRowForConstructor cid.vid tys.length)) m = .ok m') :
    SplitUseful env (.adt d :: tp') tq tr m ⟨.ctor sp cid params :: ps, rq, rr⟩ ↔
      SplitUseful env (tys ++ tp') tq tr m' ⟨params ++ ps, rq, rr⟩ := by
  simp only [splitUseful_iff]
  constructor
  · rintro ⟨vp, vq, vr, h1, h2, h3, hm, hu⟩
    cases vp with
    | nil => simp [hasTypes] at h1
    | cons v vs =>
      simp only [hasTypes, Bool.and_eq_true] at h1
      obtain ⟨id, args, rfl⟩ := val_of_ctor_type env v _ h1.1 (Or.inr ⟨d, rfl⟩)
      simp only [splitMatch, matchPats, matchPat, Bool.and_eq_true, beq_iff_eq] at hm
      obtain ⟨⟨⟨⟨hid, hma⟩, hmp⟩, hmq⟩, hmr⟩ := hm
      subst hid
      obtain ⟨tys', hf', ha⟩ := (hasType_ctor_iff env _ args _).mp h1.1
      rw [hf] at hf'; cases hf'
      have hal : args.length = tys.length := hasTypes_length env _ _ ha
      have h' := onP_pm h vq vr
      rw [← hal] at h'
      refine ⟨args ++ vs, vq, vr, hasTypes_append env _ _ _ _ ha h1.2, h2, h3, ?_, (uncov_ctor h' vs).mp hu⟩
      simp only [splitMatch]
      rw [matchPats_append _ _ _ _ _ (by omega)]
      simp [hma, hmp, hmq, hmr]
  · rintro ⟨ws, vq, vr, h1, h2, h3, hm, hu⟩
    obtain ⟨args, vs, rfl, ha, hv⟩ := hasTypes_split env tys ws tp' h1
    have hal : args.length = tys.length := hasTypes_length env _ _ ha
    have h' := onP_pm h vq vr
    rw [← hal] at h'
    simp only [splitMatch] at hm
    rw [matchPats_append _ _ _ _ _ (by omega)] at hm
    simp only [Bool.and_eq_true] at hm
    refine ⟨.ctor cid.vid args :: vs, vq, vr, ?_, h2, h3, ?_, (uncov_ctor h' vs).mpr hu⟩
    · simp [hasTypes, (hasType_ctor_iff env _ args _).mpr ⟨tys, hf, ha⟩, hv]
    · simp [splitMatch, matchPats, matchPat, hm.1.1.1, hm.1.1.2, hm.1.2, hm.2]

theorem useful_guard {env : Env} {tp' tq tr : List Ty} {m m' : List SplitRow} {ps rq rr : List Pat}
    (hwt : ∀ r ∈ m, splitWT env (.guardT :: tp') tq tr r)
    (h : flatMapE (onP specializeRowForAny) m = .ok m') :
    SplitUseful env (.guardT :: tp') tq tr m ⟨.guard :: ps, rq, rr⟩ ↔
      SplitUseful env tp' tq tr m' ⟨ps, rq, rr⟩ := by
  simp only [splitUseful_iff]
  constructor
  · rintro ⟨vp, vq, vr, h1, h2, h3, hm, hu⟩
    cases vp with
    | nil => simp [hasTypes] at h1
    | cons v vp =>
      simp only [hasTypes, Bool.and_eq_true] at h1
      simp only [splitMatch, matchPats, matchPat, Bool.true_and] at hm
      exact ⟨vp, vq, vr, h1.2, h2, h3, hm, uncov_default_fwd (onP_pm h vq vr) v vp hu⟩
  · rintro ⟨vp, vq, vr, h1, h2, h3, hm, hu⟩
    obtain ⟨v, hv, hfr⟩ := fresh_guard (pm_wt hwt vq vr)
    refine ⟨v :: vp, vq, vr, by simp [hasTypes, hv, h1], h2, h3, ?_,
      uncov_default_bwd (onP_pm h vq vr) v vp hfr hu⟩
    simpa [splitMatch, matchPats, matchPat] using hm

theorem useful_base {env : Env} {tq : List Ty} {m : List SplitRow} {rq : List Pat}
    (hwt : ∀ r ∈ m, splitWT env [] tq [] r) :
    SplitUseful env [] tq [] m ⟨[], rq, []⟩ ↔ Useful env tq (m.map (·.q)) rq := by
  have hrows : ∀ r ∈ m, ∀ vq, splitMatch false r [] vq [] = matchPats false r.q vq := by
    intro r hr vq
    have h1 := patsWT_nil (hwt r hr).1
    have h2 := patsWT_nil (hwt r hr).2.2
    simp [splitMatch, h1, h2, matchPats]
  constructor
  · rintro ⟨vp, vq, vr, h1, h2, h3, hm, hu⟩
    have e1 := hasTypes_nil h1
    have e3 := hasTypes_nil h3
    subst e1 e3
    refine ⟨vq, h2, by simpa [splitMatch, matchPats] using hm, ?_⟩
    intro x hx
    obtain ⟨r, hr, rfl⟩ := List.mem_map.mp hx
    rw [← hrows r hr]; exact hu r hr
  · rintro ⟨vq, h2, hm, hu⟩
    refine ⟨[], vq, [], by simp [hasTypes], h2, by simp [hasTypes], by simpa [splitMatch, matchPats] using hm, ?_⟩
    intro r hr
    rw [hrows r hr]
    exact hu _ (List.mem_map.mpr ⟨r, hr, rfl⟩)

/-! ### the `r ≠ []` branch: one column of alternatives is expanded -/

theorem rearr_match (g : Bool) (rq rr : List Pat) (j : Nat) (x : Pat) (v : Val) (vq vr : List Val)
    (hx : rr[j]? = some x) (hv : vr[j]? = some v) (hlen : rr.length = vr.length) :
    splitMatch g ⟨[x], rr.eraseIdx j ++ rq, []⟩ [v] (vr.eraseIdx j ++ vq) [] =
      splitMatch g ⟨[], rq, rr⟩ [] vq vr := by
  simp only [splitMatch, matchPats, Bool.and_true, Bool.true_and]
  rw [matchPats_append _ _ _ _ _ (by simp [List.length_eraseIdx, hlen]),
    matchPats_eraseIdx g j rr vr x v hx hv]
  cases matchPat g x v <;> cases matchPats g (rr.eraseIdx j) (vr.eraseIdx j) <;> simp

theorem altLoop_yes {env : Env} {inner : List SplitRow → SplitRow → Except Err Useless} {t : Ty}
    {T2 : List Ty} {qcat : List Pat}
    (hinner : ∀ M row' u, (∀ r ∈ M, splitWT env [t] T2 [] r) → splitWT env [t] T2 [] row' →
      inner M row' = .ok u → (u.isYes = true ↔ ¬ SplitUseful env [t] T2 [] M row'))
    (hq : patsWT env qcat T2 = true) :
    ∀ (alts : List Pat) (M : List SplitRow) (results : List (Useless × Span)),
    altsWT env alts t = true → (∀ r ∈ M, splitWT env [t] T2 [] r) →
    altLoop inner qcat alts M = .ok results →
    ((∀ e ∈ results, e.1.isYes = true) ↔
      ¬ ∃ v vq, hasType env v t = true ∧ hasTypes env vq T2 = true ∧ matchAlts true alts v = true ∧
        matchPats true qcat vq = true ∧ ∀ r ∈ M, splitMatch false r [v] vq [] = false)
  | [], M, results, _, _, h => by
    simp only [altLoop, pure, Except.pure, Except.ok.injEq] at h
    subst h
    simp [matchAlts]
  | a :: alts, M, results, ha, hM, h => by
    simp only [altLoop] at h
    split at h
    · simp at h
    rename_i ar har
    split at h
    · simp at h
    rename_i sp hsp
    split at h
    · simp at h
    rename_i rest hrest
    simp only [pure, Except.pure, Except.ok.injEq] at h
    subst h
    simp only [altsWT, Bool.and_eq_true] at ha
    have hrowwt : splitWT env [t] T2 [] ⟨[a], qcat, []⟩ := ⟨by simp [patsWT, ha.1], hq, by simp [patsWT]⟩
    have h1 := hinner M _ ar hM hrowwt har
    have hM' : ∀ r ∈ M ++ [(⟨[a], qcat, []⟩ : SplitRow)], splitWT env [t] T2 [] r := by
      intro r hr
      rcases List.mem_append.mp hr with hr | hr
      · exact hM r hr
      · simp only [List.mem_singleton] at hr; subst hr; exact hrowwt
    have h2 := altLoop_yes hinner hq alts _ rest ha.2 hM' hrest
    simp only [List.forall_mem_cons, h1, h2]
    rw [← not_or]
    apply not_congr
    constructor
    · rintro (⟨vp, vq, vr, htp, htq, htr, hmt, hu⟩ | ⟨v, vq, hv, hvq, hma, hmq, hu⟩)
      · have e3 := hasTypes_nil htr
        subst e3
        cases vp with
        | nil => simp [hasTypes] at htp
        | cons v vp =>
          simp only [hasTypes, Bool.and_eq_true] at htp
          have e1 := hasTypes_nil htp.2
          subst e1
          simp only [splitMatch, matchPats, Bool.and_true, Bool.and_eq_true] at hmt
          exact ⟨v, vq, htp.1, htq, by simp [matchAlts, hmt.1], hmt.2, hu⟩
      · exact ⟨v, vq, hv, hvq, by simp [matchAlts, hma], hmq, fun r hr => hu r (List.mem_append_left _ hr)⟩
    · rintro ⟨v, vq, hv, hvq, hma, hmq, hu⟩
      simp only [matchAlts, Bool.or_eq_true] at hma
      by_cases hat : matchPat true a v = true
      · left
        exact ⟨[v], vq, [], by simp [hasTypes, hv], hvq, by simp [hasTypes],
          by simp [splitMatch, matchPats, hat, hmq], hu⟩
      · right
        have hma' : matchAlts true alts v = true := by
          rcases hma with h | h
          · exact absurd h hat
          · exact h
        refine ⟨v, vq, hv, hvq, hma', hmq, ?_⟩
        intro r hr
        rcases List.mem_append.mp hr with hr | hr
        · exact hu r hr
        · simp only [List.mem_singleton] at hr
          subst hr
          apply bool_not_true
          intro hm
          simp only [splitMatch, matchPats, Bool.and_true, Bool.and_eq_true] at hm
          exact hat (matchPat_mono a v hm.1)

theorem expandColumn_yes {env : Env} {inner : List SplitRow → SplitRow → Except Err Useless}
    {m : List SplitRow} {rq rr : List Pat} {tq tr : List Ty} {j : Nat} {e : Useless × Span}
    (hinner : ∀ (t : Ty) (T2 : List Ty) M row' u, (∀ r ∈ M, splitWT env [t] T2 [] r) →
      splitWT env [t] T2 [] row' → inner M row' = .ok u →
      (u.isYes = true ↔ ¬ SplitUseful env [t] T2 [] M row'))
    (hwt : ∀ r ∈ m, splitWT env [] tq tr r) (hrq : patsWT env rq tq = true) (hrr : patsWT env rr tr = true)
    (h : expandColumn inner m ⟨[], rq, rr⟩ j = .ok e) :
    e.1.isYes = true ↔ ¬ SplitUseful env [] tq tr m ⟨[], rq, rr⟩ := by
  simp only [expandColumn] at h
  split at h
  · simp [panic] at h
  rename_i rPattern hj
  split at h
  rotate_left
  · simp [panic] at h
  rename_i asp alts
  split at h
  · simp at h
  rename_i newM hnewM
  split at h
  · simp at h
  rename_i results hres
  split at h
  · simp at h
  rename_i uj hunion
  simp only [pure, Except.pure, Except.ok.injEq] at h
  subst h
  obtain ⟨t, htj, hxt, hrr'⟩ := patsWT_eraseIdx env j rr tr _ hrr hj
  simp only [patWT, Bool.and_eq_true] at hxt
  have hjlt : j < tr.length := (List.getElem?_eq_some_iff.mp htj).1
  have hqcat : patsWT env (rr.eraseIdx j ++ rq) (tr.eraseIdx j ++ tq) = true :=
    patsWT_append env _ _ _ _ hrr' hrq
  have hmm := mapE_ok hnewM
  -- what a rearranged matrix row looks like
  have hrow : ∀ (r r' : SplitRow), r ∈ m →
      (match r.r[j]? with
        | none => panic "exhaustiveness.rs:646 remove index out of range"
        | some x => pure (⟨[x], r.r.eraseIdx j ++ r.q, []⟩ : SplitRow)) = Except.ok r' →
      ∃ x, r.r[j]? = some x ∧ r' = ⟨[x], r.r.eraseIdx j ++ r.q, []⟩ ∧ r.p = [] ∧
        patWT env x t = true ∧ patsWT env (r.r.eraseIdx j) (tr.eraseIdx j) = true := by
    intro r r' hr hf
    split at hf
    · simp [panic] at hf
    rename_i x hx
    simp only [pure, Except.pure, Except.ok.injEq] at hf
    obtain ⟨t', ht', hxt', hrest⟩ := patsWT_eraseIdx env j r.r tr x (hwt r hr).2.2 hx
    rw [htj] at ht'; cases ht'
    exact ⟨x, hx, hf.symm, patsWT_nil (hwt r hr).1, hxt', hrest⟩
  have hnewWT : ∀ r ∈ newM, splitWT env [t] (tr.eraseIdx j ++ tq) [] r := by
    intro r' hr'
    obtain ⟨r, hr, hf⟩ := hmm.1 r' hr'
    obtain ⟨x, hx, rfl, _, hxt', hrest⟩ := hrow r r' hr hf
    exact ⟨by simp [patsWT, hxt'], patsWT_append env _ _ _ _ hrest (hwt r hr).2.1, by simp [patsWT]⟩
  rw [unionAll_yes hunion, altLoop_yes (hinner t _) hqcat alts newM results hxt.2 hnewWT hres]
  apply not_congr
  constructor
  · rintro ⟨v, vq', hv, hvq', hma, hmq, hu⟩
    obtain ⟨a, vq, rfl, ha, hvq⟩ := hasTypes_split env _ vq' tq hvq'
    have hal : a.length = (tr.eraseIdx j).length := hasTypes_length env _ _ ha
    obtain ⟨vr, hvrj, hvre⟩ := exists_insert j a v (by
      rw [hal, List.length_eraseIdx]; split <;> omega)
    subst hvre
    have hvr : hasTypes env vr tr = true := by
      rw [hasTypes_eraseIdx env j vr tr v t hvrj htj]; simp [hv, ha]
    have hvrl : vr.length = tr.length := hasTypes_length env _ _ hvr
    have hlen : rr.length = vr.length := by rw [patsWT_length env _ _ hrr, hvrl]
    refine ⟨[], vq, vr, by simp [hasTypes], hvq, hvr, ?_, ?_⟩
    · rw [← rearr_match true rq rr j _ v vq vr hj hvrj hlen]
      simp [splitMatch, matchPats, matchPat, hma, hmq]
    · intro r hr
      obtain ⟨r', hr', hf⟩ := hmm.2 r hr
      obtain ⟨x, hx, rfl, hp, _, _⟩ := hrow r r' hr hf
      have := hu _ hr'
      obtain ⟨rp, rq', rr'⟩ := r
      simp only at hp
      subst hp
      rw [rearr_match false rq' rr' j x v vq vr hx hvrj
        (by rw [patsWT_length env _ _ (hwt _ hr).2.2, hvrl])] at this
      exact this
  · rintro ⟨vp, vq, vr, h1, h2, h3, hm, hu⟩
    have e1 := hasTypes_nil h1
    subst e1
    have hvrl : vr.length = tr.length := hasTypes_length env _ _ h3
    have hjv : j < vr.length := by omega
    have hvrj : vr[j]? = some vr[j] := List.getElem?_eq_getElem hjv
    have hlen : rr.length = vr.length := by rw [patsWT_length env _ _ hrr, hvrl]
    rw [hasTypes_eraseIdx env j vr tr _ t hvrj htj, Bool.and_eq_true] at h3
    rw [← rearr_match true rq rr j _ _ vq vr hj hvrj hlen] at hm
    simp only [splitMatch, matchPats, matchPat, Bool.and_true, Bool.and_eq_true] at hm
    refine ⟨vr[j], vr.eraseIdx j ++ vq, h3.1, hasTypes_append env _ _ _ _ h3.2 h2, hm.1, hm.2, ?_⟩
    intro r' hr'
    obtain ⟨r, hr, hf⟩ := hmm.1 r' hr'
    obtain ⟨x, hx, rfl, hp, _, _⟩ := hrow r r' hr hf
    have := hu _ hr
    obtain ⟨rp, rq', rr'⟩ := r
    simp only at hp
    subst hp
    rw [rearr_match false rq' rr' j x _ vq vr hx hvrj
      (by rw [patsWT_length env _ _ (hwt _ hr).2.2, hvrl])]
    exact this

/-! ### the main theorem -/

/-- `check_useful_expand_inner` answers `Useless::Yes` exactly when the (split) row is not useful -/
theorem checkUsefulExpandInner_yes {env : Env} (hinh : Inh env) :
    ∀ (fuel : Nat) (m : List SplitRow) (row : SplitRow) (tp tq tr : List Ty) (u : Useless),
    (∀ r ∈ m, splitWT env tp tq tr r) → splitWT env tp tq tr row →
    checkUsefulExpandInner env fuel m row = .ok u →
    (u.isYes = true ↔ ¬ SplitUseful env tp tq tr m row)
  | 0, _, _, _, _, _, _, _, _, h => by simp [checkUsefulExpandInner] at h
  | fuel + 1, m, row, tp, tq, tr, u, hwt, hrow, h => by
    have ih := checkUsefulExpandInner_yes hinh fuel
    obtain ⟨rp, rq, rr⟩ := row
    obtain ⟨hrp, hrq, hrr⟩ := hrow
    dsimp only at hrp hrq hrr
    cases rp with
    | nil =>
      simp only [checkUsefulExpandInner] at h
      split at h
      · simp [panic] at h
      have htp : tp = [] := by cases tp <;> simp_all [patsWT]
      subst htp
      split at h
      · -- no alternatives were set aside: plain `check_useful` on the `q` parts
        rename_i hre
        have hrr0 : rr = [] := by simpa using hre
        subst hrr0
        have htr : tr = [] := by cases tr <;> simp_all [patsWT]
        subst htr
        have hmq : matrixWT env (m.map (·.q)) tq := by
          intro x hx
          obtain ⟨r, hr, rfl⟩ := List.mem_map.mp hx
          exact (hwt r hr).2.1
        rw [useful_base hwt]
        split at h
        · simp at h
        · rename_i hcu
          simp only [pure, Except.pure, Except.ok.injEq] at h
          subst h
          have := (checkUseful_correct hinh fuel _ rq tq true hmq hrq hcu).mp rfl
          simp [Useless.isYes, this]
        · rename_i hcu
          simp only [pure, Except.pure, Except.ok.injEq] at h
          subst h
          have hc := checkUseful_correct hinh fuel _ rq tq false hmq hrq hcu
          simp only [Useless.isYes, true_iff]
          intro hu
          have := hc.mpr hu
          simp at this
      · -- every column of alternatives is expanded
        rename_i hre
        split at h
        · simp at h
        rename_i l hl
        have hll := mapE_ok hl
        have hcol : ∀ e ∈ l, (e.1.isYes = true ↔ ¬ SplitUseful env [] tq tr m ⟨[], rq, rr⟩) := by
          intro e he
          obtain ⟨j, _, hj⟩ := hll.1 e he
          exact expandColumn_yes (fun t T2 M row' u a b c => ih M row' [t] T2 [] u a b c) hwt hrq hrr hj
        rw [unionAll_yes h]
        constructor
        · intro hall
          have hpos : 0 < rr.length := by
            cases rr with
            | nil => simp at hre
            | cons _ _ => simp
          have h0 : 0 ∈ (List.range rr.length).reverse := by simpa using hpos
          obtain ⟨e, he, _⟩ := hll.2 0 h0
          exact (hcol e he).mp (hall e he)
        · intro hnu e he
          exact (hcol e he).mpr hnu
    | cons hd p' =>
      cases tp with
      | nil => simp [patsWT] at hrp
      | cons t tp' =>
        simp only [patsWT, Bool.and_eq_true] at hrp
        cases hd with
        | lit sp value =>
          simp only [checkUsefulExpandInner] at h
          split at h
          · simp [panic] at h
          split at h
          · simp at h
          rename_i m' hm'
          have hwt' := onP_wt hm' hwt (fun a b => wt_lit a b)
          rw [ih m' ⟨p', rq, rr⟩ tp' tq tr u hwt' ⟨hrp.2, hrq, hrr⟩ h, useful_lit hrp.1 hm']
        | ctor sp cid params =>
          simp only [checkUsefulExpandInner] at h
          split at h
          · simp [panic] at h
          split at h
          · simp at h
          rename_i vid hv
          have hvid := (variantId_ok hv).1
          subst hvid
          cases t with
          | adt d =>
            have hq1 := hrp.1
            simp only [patWT, Bool.and_eq_true] at hq1
            cases hvar : (env d).variants[cid.vid]? with
            | none => simp [hvar] at hq1
            | some tys =>
              simp only [hvar] at hq1
              have hf : fieldsOf env (.adt d) cid.vid = some tys := by simp [fieldsOf, hvar]
              have hlen := patsWT_length env _ _ hq1.2
              split at h
              · simp at h
              rename_i m' hm'
              rw [hlen] at hm'
              have hwt' := onP_wt hm' hwt (fun a b => wt_ctor a hf b)
              rw [ih m' ⟨params ++ p', rq, rr⟩ (tys ++ tp') tq tr u hwt' ⟨patsWT_append env _ _ _ _ hq1.2 hrp.2, hrq, hrr⟩ h,
                useful_ctor hf hlen hm']
          | bool => simp [patWT] at hrp
          | int => simp [patWT] at hrp
          | char => simp [patWT] at hrp
          | str => simp [patWT] at hrp
          | guardT => simp [patWT] at hrp
        | any sp =>
          simp only [checkUsefulExpandInner] at h
          split at h
          · simp [panic] at h
          split at h
          · simp at h
          rename_i m' hm'
          rw [ih m' ⟨p', .any sp :: rq, rr⟩ tp' (t :: tq) tr u (wt_shiftQ hm' hwt)
              ⟨hrp.2, by simp [patsWT, patWT, hrq], hrr⟩ h,
            useful_shiftQ hm']
        | alt sp alts =>
          simp only [checkUsefulExpandInner] at h
          split at h
          · simp [panic] at h
          split at h
          · simp at h
          rename_i m' hm'
          rw [ih m' ⟨p', rq, .alt sp alts :: rr⟩ tp' tq (t :: tr) u (wt_shiftR hm' hwt)
              ⟨hrp.2, hrq, by simp [patsWT, hrp.1, hrr]⟩ h,
            useful_shiftR hm']
        | guard =>
          have ht : t = .guardT := by simpa [patWT] using hrp.1
          subst ht
          simp only [checkUsefulExpandInner] at h
          split at h
          · simp [panic] at h
          split at h
          · simp [panic] at h
          split at h
          · simp at h
          rename_i m' hm'
          have hwt' := onP_wt hm' hwt (fun a b => wt_default a b)
          rw [ih m' ⟨p', rq, rr⟩ tp' tq tr u hwt' ⟨hrp.2, hrq, hrr⟩ h, useful_guard hwt hm']

theorem splitUseful_new {env : Env} (tys : List Ty) (m : List (List Pat)) (row : List Pat) :
    SplitUseful env tys [] [] (m.map SplitRow.new) (SplitRow.new row) ↔ Useful env tys m row := by
  have hrows : ∀ (r : List Pat) (g : Bool) (vp : List Val),
      splitMatch g (SplitRow.new r) vp [] [] = matchPats g r vp := by
    intro r g vp
    simp [splitMatch, SplitRow.new, matchPats]
  constructor
  · rintro ⟨vp, vq, vr, h1, h2, h3, hm, hu⟩
    have e2 := hasTypes_nil h2
    have e3 := hasTypes_nil h3
    subst e2 e3
    rw [hrows] at hm
    refine ⟨vp, h1, hm, ?_⟩
    intro r hr
    rw [← hrows r false vp]
    exact hu _ (List.mem_map.mpr ⟨r, hr, rfl⟩)
  · rintro ⟨vp, h1, hm, hu⟩
    refine ⟨vp, [], [], h1, by simp [hasTypes], by simp [hasTypes], by rw [hrows]; exact hm, ?_⟩
    intro r' hr'
    obtain ⟨r, hr, rfl⟩ := List.mem_map.mp hr'
    rw [hrows]
    exact hu r hr

/-- `check_useful_expand` answers `Useless::Yes` (the whole arm is reported unreachable) exactly when the
    row is not useful -/
theorem checkUsefulExpand_yes {env : Env} (hinh : Inh env) (fuel : Nat) (m : List (List Pat)) (row : List Pat)
    (tys : List Ty) (u : Useless) (hwt : matrixWT env m tys) (hrow : patsWT env row tys = true)
    (h : checkUsefulExpand env fuel m row = .ok u) : u.isYes = true ↔ ¬ Useful env tys m row := by
  simp only [checkUsefulExpand] at h
  rw [← splitUseful_new]
  refine checkUsefulExpandInner_yes hinh fuel _ _ tys [] [] u ?_ ?_ h
  · intro r' hr'
    obtain ⟨r, hr, rfl⟩ := List.mem_map.mp hr'
    exact ⟨hwt r hr, by simp [SplitRow.new, patsWT], by simp [SplitRow.new, patsWT]⟩
  · exact ⟨hrow, by simp [SplitRow.new, patsWT], by simp [SplitRow.new, patsWT]⟩

end Dora.Match
