import DoraModel.Match.LemmasSurface
import DoraModel.Match.ModelWT
/-!
C11, the conversion `convert_pattern` of surface patterns to matrix patterns is meaning preserving.

* `spatWT env p t`: the surface pattern `p` is what the type checker (typeck/pattern.rs) accepts at type `t`.
* `convert_total`: on such a pattern the conversion does not panic, its result is a well-typed matrix pattern
  and matches exactly the values the run-time meaning `smatch` of the surface pattern selects — for `..` in any
  position of a tuple / constructor pattern and for named fields in any order.
* `accepted_no_fallthrough_full`: an accepted `match` never falls through.
-/
namespace Dora.Match

/-! ## what the type checker accepts: `spatWT` and its parts are defined in `ModelWT.lean` -/

/-! ## unfolding lemmas (a `..` item / any other item) -/

theorem isRest_eq_true {p : SPat} (h : p.isRest = true) : p = .rest := by
  cases p <;> simp_all [SPat.isRest]

theorem itemsWT_rest (env : Env) (tys : List Ty) (r : Option Nat) (tc : List (Option Nat)) (ps : List SPat) :
    itemsWT env tys (r :: tc) (.rest :: ps) = itemsWT env tys tc ps := by
  simp only [itemsWT, Bool.true_and]

theorem itemsWT_nonrest (env : Env) (tys : List Ty) (r : Option Nat) (tc : List (Option Nat)) (p : SPat)
    (ps : List SPat) (h : p.isRest = false) :
    itemsWT env tys (r :: tc) (p :: ps) =
      ((match r with
       | some idx => (match tys[idx]? with | some t' => spatWT env p t' | none => false)
       | none => false) && itemsWT env tys tc ps) := by
  cases p <;> first | (simp [SPat.isRest] at h; done) | (simp only [itemsWT]; try rfl)

theorem tcIndices_rest (n m idx : Nat) (seen : Bool) (ps : List SPat) :
    tcIndices n m idx seen (.rest :: ps) =
      none :: tcIndices n m (if seen then idx else idx + (n - (m - 1))) true ps := rfl

theorem tcIndices_nonrest (n m idx : Nat) (seen : Bool) (p : SPat) (ps : List SPat) (h : p.isRest = false) :
    tcIndices n m idx seen (p :: ps) = some idx :: tcIndices n m (idx + 1) seen ps := by
  cases p <;> first | (simp [SPat.isRest] at h; done) | rfl

theorem smatchPos_rest (ps : List SPat) (vs : List Val) :
    smatchPos (.rest :: ps) vs = smatchPos ps (vs.drop (vs.length - ps.length)) := by
  simp only [smatchPos]

theorem smatchPos_nonrest (p : SPat) (ps : List SPat) (vs : List Val) (h : p.isRest = false) :
    smatchPos (p :: ps) vs = (match vs with | [] => false | v :: vs' => smatch p v && smatchPos ps vs') := by
  cases p <;> first | (simp [SPat.isRest] at h; done) | (simp only [smatchPos]; cases vs <;> rfl)

theorem convertFields_rest (env : Env) (sp : Span) (i pi n : Nat) (r : Option Nat) (tc : List (Option Nat))
    (name : Option Nat) (names : List (Option Nat)) (ps : List SPat) (result : List (Option Pat)) :
    convertFields env sp i pi n (r :: tc) (name :: names) (.rest :: ps) result =
      convertFields env sp (i + 1) pi n tc names ps result := by
  simp only [convertFields]

theorem convertFields_nonrest (env : Env) (sp : Span) (i pi n : Nat) (r : Option Nat) (tc : List (Option Nat))
    (name : Option Nat) (names : List (Option Nat)) (p : SPat) (ps : List SPat) (result : List (Option Pat))
    (h : p.isRest = false) :
    convertFields env sp i pi n (r :: tc) (name :: names) (p :: ps) result =
      (match convertPattern env (sp ++ [i]) p with
       | .error e => .error e
       | .ok cp =>
         match setSlot result (match name with
            | some k => k
            | none => match r with
              | some idx => if idx < n then idx else pi
              | none => pi) cp with
         | .error e => .error e
         | .ok result' =>
           convertFields env sp (i + 1) (match name with | some _ => pi | none => pi + 1) n tc names ps result') := by
  cases p <;> first | (simp [SPat.isRest] at h; done) | (simp only [convertFields]; rfl)

theorem convertTupleRest_rest (env : Env) (sp : Span) (i n : Nat) (r : Option Nat) (tc : List (Option Nat))
    (ps : List SPat) (result : List (Option Pat)) :
    convertTupleRest env sp i n (r :: tc) (.rest :: ps) result = convertTupleRest env sp (i + 1) n tc ps result := by
  simp only [convertTupleRest]

theorem convertTupleRest_nonrest (env : Env) (sp : Span) (i n : Nat) (r : Option Nat) (tc : List (Option Nat))
    (p : SPat) (ps : List SPat) (result : List (Option Pat)) (h : p.isRest = false) :
    convertTupleRest env sp i n (r :: tc) (p :: ps) result =
      (match r with
       | some idx =>
         if idx < n then
           match convertPattern env (sp ++ [i]) p with
           | .error e => .error e
           | .ok cp => convertTupleRest env sp (i + 1) n tc ps (result.set idx (some cp))
         else convertTupleRest env sp (i + 1) n tc ps result
       | none => convertTupleRest env sp (i + 1) n tc ps result) := by
  cases p <;> first | (simp [SPat.isRest] at h; done) | (simp only [convertTupleRest]; rfl)

/-! ## `restCount`, `tcIndices` -/

theorem restCount_cons_rest (ps : List SPat) : restCount (.rest :: ps) = restCount ps + 1 := by
  have h : SPat.isRest .rest = true := rfl
  simp [restCount, h]

theorem restCount_cons_nonrest (p : SPat) (ps : List SPat) (h : p.isRest = false) :
    restCount (p :: ps) = restCount ps := by
  simp [restCount, h]

theorem restCount_zero {ps : List SPat} (h : restCount ps = 0) : ∀ q ∈ ps, q.isRest = false := by
  intro q hq
  cases hr : q.isRest with
  | false => rfl
  | true =>
    have : q ∈ ps.filter SPat.isRest := List.mem_filter.mpr ⟨hq, hr⟩
    have h0 : ps.filter SPat.isRest = [] := List.eq_nil_of_length_eq_zero h
    rw [h0] at this
    cases this

theorem restCount_zero_of_any {ps : List SPat} (h : ps.any SPat.isRest = false) : restCount ps = 0 := by
  induction ps with
  | nil => rfl
  | cons p ps ih =>
    simp only [List.any_cons, Bool.or_eq_false_iff] at h
    rw [restCount_cons_nonrest p ps h.1]
    exact ih h.2

theorem tcIndices_length (n m : Nat) : ∀ (ps : List SPat) (idx : Nat) (seen : Bool),
    (tcIndices n m idx seen ps).length = ps.length
  | [], _, _ => rfl
  | p :: ps, idx, seen => by
    cases hp : p.isRest with
    | true =>
      rw [isRest_eq_true hp, tcIndices_rest]
      simp [tcIndices_length n m ps]
    | false =>
      rw [tcIndices_nonrest _ _ _ _ _ _ hp]
      simp [tcIndices_length n m ps]

/-- the recorded indices never decrease -/
theorem tcIndices_ge (n m : Nat) : ∀ (ps : List SPat) (idx : Nat) (seen : Bool) (k : Nat),
    some k ∈ tcIndices n m idx seen ps → idx ≤ k
  | [], _, _, _, h => by simp [tcIndices] at h
  | p :: ps, idx, seen, k, h => by
    cases hp : p.isRest with
    | true =>
      rw [isRest_eq_true hp, tcIndices_rest] at h
      simp only [List.mem_cons, reduceCtorEq, false_or] at h
      have := tcIndices_ge n m ps _ _ k h
      cases seen <;> simp at this <;> omega
    | false =>
      rw [tcIndices_nonrest _ _ _ _ _ _ hp] at h
      simp only [List.mem_cons, Option.some.injEq] at h
      rcases h with rfl | h
      · exact Nat.le_refl _
      · have := tcIndices_ge n m ps _ _ k h
        omega

theorem tcIndices_distinct (n m : Nat) : ∀ (ps : List SPat) (idx : Nat) (seen : Bool),
    tgDistinct (tcIndices n m idx seen ps) = true
  | [], _, _ => rfl
  | p :: ps, idx, seen => by
    cases hp : p.isRest with
    | true =>
      rw [isRest_eq_true hp, tcIndices_rest]
      simp only [tgDistinct]
      exact tcIndices_distinct n m ps _ _
    | false =>
      rw [tcIndices_nonrest _ _ _ _ _ _ hp]
      simp only [tgDistinct, Bool.and_eq_true, Bool.not_eq_true']
      refine ⟨?_, tcIndices_distinct n m ps _ _⟩
      cases hc : (tcIndices n m (idx + 1) seen ps).contains (some idx) with
      | false => rfl
      | true =>
        have hm : some idx ∈ tcIndices n m (idx + 1) seen ps := by simpa using hc
        have := tcIndices_ge n m ps _ _ idx hm
        omega

/-! ## positional matching is matching by recorded field index -/

/-- items without `..` meet consecutive values -/
theorem smatchPos_norest (n m : Nat) (vs : List Val) : ∀ (qs : List SPat) (idx : Nat) (seen : Bool),
    (∀ q ∈ qs, q.isRest = false) →
    smatchPos qs (vs.drop idx) = smatchNamed (tcIndices n m idx seen qs) qs vs
  | [], idx, seen, _ => by simp [smatchPos, tcIndices, smatchNamed]
  | p :: qs, idx, seen, h => by
    have hp := h p List.mem_cons_self
    rw [smatchPos_nonrest _ _ _ hp, tcIndices_nonrest _ _ _ _ _ _ hp]
    simp only [smatchNamed]
    by_cases hi : idx < vs.length
    · rw [List.drop_eq_getElem_cons hi]
      simp only [List.getElem?_eq_getElem hi]
      rw [smatchPos_norest n m vs qs (idx + 1) seen (fun q hq => h q (List.mem_cons_of_mem _ hq))]
    · have h1 : vs.drop idx = [] := List.drop_eq_nil_of_le (by omega)
      have h2 : vs[idx]? = none := List.getElem?_eq_none (by omega)
      rw [h1, h2]
      simp

/-- `smatchPos` (items after the `..` meet the LAST values) tests every item against the value of the field the
    type checker recorded for it; `m` is the total number of items -/
theorem smatchPos_tc (n m : Nat) (vs : List Val) (hn : vs.length = n) : ∀ (qs : List SPat) (idx : Nat),
    restCount qs ≤ 1 → idx + qs.length = m →
    smatchPos qs (vs.drop idx) = smatchNamed (tcIndices n m idx false qs) qs vs
  | [], idx, _, _ => by simp [smatchPos, tcIndices, smatchNamed]
  | p :: qs, idx, hr, hm => by
    cases hp : p.isRest with
    | true =>
      have hpe := isRest_eq_true hp
      subst hpe
      rw [restCount_cons_rest] at hr
      have hq : ∀ q ∈ qs, q.isRest = false := restCount_zero (by omega)
      rw [smatchPos_rest, tcIndices_rest]
      simp only [smatchNamed, Bool.false_eq_true, ↓reduceIte]
      rw [← smatchPos_norest n m vs qs (idx + (n - (m - 1))) true hq, List.drop_drop, List.length_drop]
      simp only [List.length_cons] at hm
      have e : idx + (vs.length - idx - qs.length) = idx + (n - (m - 1)) := by omega
      rw [e]
    | false =>
      rw [restCount_cons_nonrest p qs hp] at hr
      rw [smatchPos_nonrest _ _ _ hp, tcIndices_nonrest _ _ _ _ _ _ hp]
      simp only [smatchNamed]
      simp only [List.length_cons] at hm
      by_cases hi : idx < vs.length
      · rw [List.drop_eq_getElem_cons hi]
        simp only [List.getElem?_eq_getElem hi]
        rw [smatchPos_tc n m vs hn qs (idx + 1) hr (by omega)]
      · have h1 : vs.drop idx = [] := List.drop_eq_nil_of_le (by omega)
        have h2 : vs[idx]? = none := List.getElem?_eq_none (by omega)
        rw [h1, h2]
        simp

/-! ## slots: `result[field_idx] = Some(p)` -/

/-- the constructor parameters the conversion builds from the slots -/
def slotPats (result : List (Option Pat)) : List Pat := result.map (fun t => t.getD anyNoSpan)

theorem hasTypes_get (env : Env) : ∀ (vs : List Val) (tys : List Ty) (k : Nat) (t' : Ty),
    hasTypes env vs tys = true → tys[k]? = some t' → ∃ v, vs[k]? = some v ∧ hasType env v t' = true
  | [], [], _, _, _, h => by simp at h
  | [], _ :: _, _, _, h, _ => by simp [hasTypes] at h
  | _ :: _, [], _, _, h, _ => by simp [hasTypes] at h
  | v :: vs, t :: tys, k, t', h, hk => by
    simp only [hasTypes, Bool.and_eq_true] at h
    cases k with
    | zero =>
      simp only [List.getElem?_cons_zero, Option.some.injEq] at hk
      subst hk
      exact ⟨v, by simp, h.1⟩
    | succ k => simpa using hasTypes_get env vs tys k t' h.2 (by simpa using hk)

theorem patsWT_set (env : Env) : ∀ (ps : List Pat) (tys : List Ty) (k : Nat) (t' : Ty) (cp : Pat),
    patsWT env ps tys = true → tys[k]? = some t' → patWT env cp t' = true → patsWT env (ps.set k cp) tys = true
  | [], [], _, _, _, _, h, _ => by simp at h
  | [], _ :: _, _, _, _, h, _, _ => by simp [patsWT] at h
  | _ :: _, [], _, _, _, h, _, _ => by simp [patsWT] at h
  | p :: ps, t :: tys, k, t', cp, h, hk, hc => by
    simp only [patsWT, Bool.and_eq_true] at h
    cases k with
    | zero =>
      simp only [List.getElem?_cons_zero, Option.some.injEq] at hk
      subst hk
      simp [patsWT, hc, h.2]
    | succ k =>
      simp only [List.set_cons_succ, patsWT, Bool.and_eq_true]
      exact ⟨h.1, patsWT_set env ps tys k t' cp h.2 (by simpa using hk) hc⟩

theorem matchPats_set (g : Bool) : ∀ (ps : List Pat) (vs : List Val) (k : Nat) (cp : Pat),
    ps.length = vs.length → ps[k]? = some anyNoSpan →
    matchPats g (ps.set k cp) vs =
      (matchPats g ps vs && (match vs[k]? with | some v => matchPat g cp v | none => false))
  | [], _, _, _, _, hk => by simp at hk
  | _ :: _, [], _, _, hl, _ => by simp at hl
  | p :: ps, v :: vs, k, cp, hl, hk => by
    cases k with
    | zero =>
      simp only [List.getElem?_cons_zero, Option.some.injEq] at hk
      subst hk
      simp [matchPats, anyNoSpan, matchPat, Bool.and_comm]
    | succ k =>
      simp only [List.set_cons_succ, matchPats, List.getElem?_cons_succ]
      rw [matchPats_set g ps vs k cp (by simpa using hl) (by simpa using hk), Bool.and_assoc]

/-- `p` converts (no panic) to a well-typed matrix pattern with the same meaning, at every type it is accepted at -/
def Good (env : Env) (p : SPat) : Prop :=
  ∀ (t : Ty) (sp : Span), spatWT env p t = true →
    ∃ cp, convertPattern env sp p = .ok cp ∧ patWT env cp t = true ∧
      ∀ (g : Bool) (v : Val), hasType env v t = true → matchPat g cp v = smatch p v

/-- writing the converted item into its (still empty) slot adds exactly the item's test -/
theorem slot_cont (env : Env) (tys : List Ty) (result : List (Option Pat)) (k : Nat) (t' : Ty) (cp : Pat) (p : SPat)
    (tg : List (Option Nat)) (ps : List SPat)
    (hl : result.length = tys.length) (htk : tys[k]? = some t') (hslot : result[k]? = some none)
    (hcwt : patWT env cp t' = true)
    (hcs : ∀ (g : Bool) (v : Val), hasType env v t' = true → matchPat g cp v = smatch p v)
    (result' : List (Option Pat))
    (h3 : patsWT env (slotPats (result.set k (some cp))) tys = true → patsWT env (slotPats result') tys = true)
    (h4 : ∀ g vs, hasTypes env vs tys = true →
      matchPats g (slotPats result') vs = (matchPats g (slotPats (result.set k (some cp))) vs && smatchNamed tg ps vs)) :
    (patsWT env (slotPats result) tys = true → patsWT env (slotPats result') tys = true) ∧
    ∀ g vs, hasTypes env vs tys = true →
      matchPats g (slotPats result') vs =
        (matchPats g (slotPats result) vs && smatchNamed (some k :: tg) (p :: ps) vs) := by
  have hset : slotPats (result.set k (some cp)) = (slotPats result).set k cp := by
    simp [slotPats, List.map_set]
  constructor
  · intro h
    apply h3
    rw [hset]
    exact patsWT_set env _ tys k t' cp h htk hcwt
  · intro g vs hvs
    obtain ⟨v, hv, hvt⟩ := hasTypes_get env vs tys k t' hvs htk
    have hlen : (slotPats result).length = vs.length := by
      rw [hasTypes_length env vs tys hvs]; simp [slotPats, hl]
    have hk0 : (slotPats result)[k]? = some anyNoSpan := by
      simp [slotPats, List.getElem?_map, hslot]
    rw [h4 g vs hvs, hset, matchPats_set g _ vs k cp hlen hk0]
    simp only [smatchNamed, hv]
    rw [hcs g v hvt, Bool.and_assoc]

theorem slots_preserved (n : Nat) (result : List (Option Pat)) (k : Nat) (cp : Pat) (tg : List (Option Nat))
    (hs : ∀ k', some k' ∈ some k :: tg → k' < n → result[k']? = some none)
    (hd : tgDistinct (some k :: tg) = true) :
    ∀ k', some k' ∈ tg → k' < n → (result.set k (some cp))[k']? = some none := by
  intro k' hk' hlt
  simp only [tgDistinct, Bool.and_eq_true, Bool.not_eq_true'] at hd
  have hne : k ≠ k' := by
    intro heq
    subst heq
    have : tg.contains (some k) = true := by simpa using hk'
    rw [hd.1] at this
    cases this
  rw [List.getElem?_set_ne hne]
  exact hs k' (List.mem_cons_of_mem _ hk') hlt

/-- the named field, else the recorded index -/
def pickTg : Option Nat → Option Nat → Option Nat
  | some k, _ => some k
  | none, r => r

/-- the field an item of `convert_subpatterns` is written to: the named field, else the recorded index -/
def mergeTg : List (Option Nat) → List (Option Nat) → List SPat → List (Option Nat)
  | r :: tc, name :: names, p :: ps =>
    (if p.isRest then none else pickTg name r) :: mergeTg tc names ps
  | _, _, _ => []

/-- the recorded index of every item other than `..` -/
def maskTg : List (Option Nat) → List SPat → List (Option Nat)
  | r :: tc, p :: ps => (if p.isRest then none else r) :: maskTg tc ps
  | _, _ => []

theorem smatchNamed_nil (ps : List SPat) (vs : List Val) : smatchNamed [] ps vs = true := by
  simp [smatchNamed]

/-- the slot loop of `convert_subpatterns` -/
theorem convertFields_spec (env : Env) (sp : Span) (tys : List Ty) :
    ∀ (ps : List SPat) (tc names : List (Option Nat)) (i pi : Nat) (result : List (Option Pat)),
    (∀ p ∈ ps, Good env p) →
    itemsWT env tys (mergeTg tc names ps) ps = true →
    tgDistinct (mergeTg tc names ps) = true →
    result.length = tys.length →
    (∀ k, some k ∈ mergeTg tc names ps → k < tys.length → result[k]? = some none) →
    ∃ result', convertFields env sp i pi tys.length tc names ps result = .ok result' ∧
      result'.length = tys.length ∧
      (patsWT env (slotPats result) tys = true → patsWT env (slotPats result') tys = true) ∧
      ∀ g vs, hasTypes env vs tys = true →
        matchPats g (slotPats result') vs =
          (matchPats g (slotPats result) vs && smatchNamed (mergeTg tc names ps) ps vs)
  | [], tc, names, i, pi, result, _, _, _, hl, _ => by
    refine ⟨result, ?_, hl, id, ?_⟩
    · cases tc <;> cases names <;> simp [convertFields, pure, Except.pure]
    · intro g vs _
      have : mergeTg tc names [] = [] := by cases tc <;> cases names <;> rfl
      rw [this, smatchNamed_nil, Bool.and_true]
  | p :: ps, [], names, i, pi, result, _, _, _, hl, _ => by
    refine ⟨result, ?_, hl, id, ?_⟩
    · simp [convertFields, pure, Except.pure]
    · intro g vs _
      have : mergeTg [] names (p :: ps) = [] := rfl
      rw [this, smatchNamed_nil, Bool.and_true]
  | p :: ps, r :: tc, [], i, pi, result, _, _, _, hl, _ => by
    refine ⟨result, ?_, hl, id, ?_⟩
    · simp [convertFields, pure, Except.pure]
    · intro g vs _
      have : mergeTg (r :: tc) [] (p :: ps) = [] := rfl
      rw [this, smatchNamed_nil, Bool.and_true]
  | p :: ps, r :: tc, name :: names, i, pi, result, IH, hwt, hd, hl, hs => by
    cases hp : p.isRest with
    | true =>
      have hpe := isRest_eq_true hp
      subst hpe
      have hm : mergeTg (r :: tc) (name :: names) (.rest :: ps) = none :: mergeTg tc names ps := by
        simp [mergeTg, SPat.isRest]
      rw [hm] at hwt hd hs ⊢
      rw [itemsWT_rest] at hwt
      simp only [tgDistinct] at hd
      obtain ⟨result', h1, h2, h3, h4⟩ := convertFields_spec env sp tys ps tc names (i + 1) pi result
        (fun q hq => IH q (List.mem_cons_of_mem _ hq)) hwt hd hl
        (fun k hk => hs k (List.mem_cons_of_mem _ hk))
      refine ⟨result', by rw [convertFields_rest]; exact h1, h2, h3, ?_⟩
      intro g vs hvs
      rw [h4 g vs hvs]
      simp only [smatchNamed]
    | false =>
      have hm : mergeTg (r :: tc) (name :: names) (p :: ps) =
          pickTg name r :: mergeTg tc names ps := by
        simp [mergeTg, hp]
      generalize he : pickTg name r = e at hm
      rw [hm] at hwt hd hs ⊢
      rw [itemsWT_nonrest _ _ _ _ _ _ hp] at hwt
      cases e with
      | none => simp at hwt
      | some k =>
        simp only [Bool.and_eq_true] at hwt
        cases htk : tys[k]? with
        | none => simp [htk] at hwt
        | some t' =>
          simp only [htk] at hwt
          obtain ⟨cp, hcp, hcwt, hcs⟩ := IH p List.mem_cons_self t' (sp ++ [i]) hwt.1
          have hkn : k < tys.length := by
            cases Nat.lt_or_ge k tys.length with
            | inl h => exact h
            | inr h => rw [List.getElem?_eq_none h] at htk; cases htk
          have hslot := hs k List.mem_cons_self hkn
          have hd2 : tgDistinct (mergeTg tc names ps) = true := by
            simp only [tgDistinct, Bool.and_eq_true] at hd
            exact hd.2
          have key : ∀ pi', ∃ result',
              convertFields env sp (i + 1) pi' tys.length tc names ps (result.set k (some cp)) = .ok result' ∧
              result'.length = tys.length ∧
              (patsWT env (slotPats result) tys = true → patsWT env (slotPats result') tys = true) ∧
              ∀ g vs, hasTypes env vs tys = true →
                matchPats g (slotPats result') vs =
                  (matchPats g (slotPats result) vs && smatchNamed (some k :: mergeTg tc names ps) (p :: ps) vs) := by
            intro pi'
            obtain ⟨result', h1, h2, h3, h4⟩ := convertFields_spec env sp tys ps tc names (i + 1) pi'
              (result.set k (some cp)) (fun q hq => IH q (List.mem_cons_of_mem _ hq)) hwt.2 hd2
              (by simp [hl]) (slots_preserved tys.length result k cp _ hs hd)
            have := slot_cont env tys result k t' cp p _ ps hl htk hslot hcwt hcs result' h3 h4
            exact ⟨result', h1, h2, this.1, this.2⟩
          have hss : setSlot result k cp = .ok (result.set k (some cp)) := by
            simp [setSlot, hl, hkn, pure, Except.pure]
          rw [convertFields_nonrest _ _ _ _ _ _ _ _ _ _ _ _ hp, hcp]
          cases name with
          | some k' =>
            simp only [pickTg, Option.some.injEq] at he
            subst he
            simp only [hss]
            exact key _
          | none =>
            simp only [pickTg] at he
            subst he
            simp only [hkn, ↓reduceIte, hss]
            exact key _

/-- the slot loop of the tuple case with `..` -/
theorem convertTupleRest_spec (env : Env) (sp : Span) (tys : List Ty) :
    ∀ (ps : List SPat) (tc : List (Option Nat)) (i : Nat) (result : List (Option Pat)),
    (∀ p ∈ ps, Good env p) →
    itemsWT env tys (maskTg tc ps) ps = true →
    tgDistinct (maskTg tc ps) = true →
    result.length = tys.length →
    (∀ k, some k ∈ maskTg tc ps → k < tys.length → result[k]? = some none) →
    ∃ result', convertTupleRest env sp i tys.length tc ps result = .ok result' ∧
      result'.length = tys.length ∧
      (patsWT env (slotPats result) tys = true → patsWT env (slotPats result') tys = true) ∧
      ∀ g vs, hasTypes env vs tys = true →
        matchPats g (slotPats result') vs =
          (matchPats g (slotPats result) vs && smatchNamed (maskTg tc ps) ps vs)
  | [], tc, i, result, _, _, _, hl, _ => by
    refine ⟨result, ?_, hl, id, ?_⟩
    · cases tc <;> simp [convertTupleRest, pure, Except.pure]
    · intro g vs _
      have : maskTg tc [] = [] := by cases tc <;> rfl
      rw [this, smatchNamed_nil, Bool.and_true]
  | p :: ps, [], i, result, _, _, _, hl, _ => by
    refine ⟨result, ?_, hl, id, ?_⟩
    · simp [convertTupleRest, pure, Except.pure]
    · intro g vs _
      have : maskTg [] (p :: ps) = [] := rfl
      rw [this, smatchNamed_nil, Bool.and_true]
  | p :: ps, r :: tc, i, result, IH, hwt, hd, hl, hs => by
    cases hp : p.isRest with
    | true =>
      have hpe := isRest_eq_true hp
      subst hpe
      have hm : maskTg (r :: tc) (.rest :: ps) = none :: maskTg tc ps := by
        simp [maskTg, SPat.isRest]
      rw [hm] at hwt hd hs ⊢
      rw [itemsWT_rest] at hwt
      simp only [tgDistinct] at hd
      obtain ⟨result', h1, h2, h3, h4⟩ := convertTupleRest_spec env sp tys ps tc (i + 1) result
        (fun q hq => IH q (List.mem_cons_of_mem _ hq)) hwt hd hl
        (fun k hk => hs k (List.mem_cons_of_mem _ hk))
      refine ⟨result', by rw [convertTupleRest_rest]; exact h1, h2, h3, ?_⟩
      intro g vs hvs
      rw [h4 g vs hvs]
      simp only [smatchNamed]
    | false =>
      have hm : maskTg (r :: tc) (p :: ps) = r :: maskTg tc ps := by
        simp [maskTg, hp]
      rw [hm] at hwt hd hs ⊢
      rw [itemsWT_nonrest _ _ _ _ _ _ hp] at hwt
      cases r with
      | none => simp at hwt
      | some k =>
        simp only [Bool.and_eq_true] at hwt
        cases htk : tys[k]? with
        | none => simp [htk] at hwt
        | some t' =>
          simp only [htk] at hwt
          obtain ⟨cp, hcp, hcwt, hcs⟩ := IH p List.mem_cons_self t' (sp ++ [i]) hwt.1
          have hkn : k < tys.length := by
            cases Nat.lt_or_ge k tys.length with
            | inl h => exact h
            | inr h => rw [List.getElem?_eq_none h] at htk; cases htk
          have hslot := hs k List.mem_cons_self hkn
          have hd2 : tgDistinct (maskTg tc ps) = true := by
            simp only [tgDistinct, Bool.and_eq_true] at hd
            exact hd.2
          obtain ⟨result', h1, h2, h3, h4⟩ := convertTupleRest_spec env sp tys ps tc (i + 1)
            (result.set k (some cp)) (fun q hq => IH q (List.mem_cons_of_mem _ hq)) hwt.2 hd2
            (by simp [hl]) (slots_preserved tys.length result k cp _ hs hd)
          have := slot_cont env tys result k t' cp p _ ps hl htk hslot hcwt hcs result' h3 h4
          refine ⟨result', ?_, h2, this.1, this.2⟩
          rw [convertTupleRest_nonrest _ _ _ _ _ _ _ _ _ hp]
          simp only [hkn, ↓reduceIte, hcp]
          exact h1

/-! ## which field list the loops see -/

theorem any_isSome_eq : ∀ (names : List (Option Nat)), names.any Option.isSome = !names.all Option.isNone
  | [] => rfl
  | name :: names => by
    cases name <;> simp [any_isSome_eq names]

theorem mergeTg_allnone : ∀ (tc names : List (Option Nat)) (ps : List SPat),
    names.all Option.isNone = true → names.length = ps.length → mergeTg tc names ps = maskTg tc ps
  | [], _, _, _, _ => by simp [mergeTg, maskTg]
  | _ :: _, [], ps, _, hl => by
    have : ps = [] := List.eq_nil_of_length_eq_zero (by simpa using hl.symm)
    subst this
    simp [mergeTg, maskTg]
  | _ :: _, _ :: _, [], _, hl => by simp at hl
  | r :: tc, name :: names, p :: ps, ha, hl => by
    simp only [List.all_cons, Bool.and_eq_true] at ha
    cases name with
    | some k => simp at ha
    | none =>
      simp only [mergeTg, maskTg, pickTg]
      rw [mergeTg_allnone tc names ps ha.2 (by simpa using hl)]

theorem maskTg_tcIndices (n m : Nat) : ∀ (ps : List SPat) (idx : Nat) (seen : Bool),
    maskTg (tcIndices n m idx seen ps) ps = tcIndices n m idx seen ps
  | [], _, _ => rfl
  | p :: ps, idx, seen => by
    cases hp : p.isRest with
    | true =>
      rw [isRest_eq_true hp, tcIndices_rest]
      simp [maskTg, SPat.isRest, maskTg_tcIndices n m ps]
    | false =>
      rw [tcIndices_nonrest _ _ _ _ _ _ hp]
      simp [maskTg, hp, maskTg_tcIndices n m ps]

theorem mergeTg_named (n m : Nat) : ∀ (ps : List SPat) (names : List (Option Nat)) (idx : Nat) (seen : Bool),
    namedShape names ps = true → mergeTg (tcIndices n m idx seen ps) names ps = names
  | [], [], _, _, _ => by simp [mergeTg, tcIndices]
  | [], _ :: _, _, _, h => by simp [namedShape] at h
  | _ :: _, [], _, _, h => by simp [namedShape] at h
  | p :: ps, name :: names, idx, seen, h => by
    simp only [namedShape, Bool.and_eq_true] at h
    cases hp : p.isRest with
    | true =>
      have h1 := h.1
      simp only [hp, ↓reduceIte, Bool.and_eq_true, Option.isNone_iff_eq_none] at h1
      rw [isRest_eq_true hp, tcIndices_rest]
      simp [mergeTg, SPat.isRest, h1.1, mergeTg_named n m ps names _ _ h.2]
    | false =>
      have h1 := h.1
      simp only [hp, Bool.false_eq_true, ↓reduceIte] at h1
      obtain ⟨k, hk⟩ := Option.isSome_iff_exists.mp h1
      subst hk
      rw [tcIndices_nonrest _ _ _ _ _ _ hp]
      simp [mergeTg, hp, pickTg, mergeTg_named n m ps names _ _ h.2]

/-! ## plain maps (`convertList`) -/

theorem convertList_alt (env : Env) (sp : Span) (t : Ty) : ∀ (ps : List SPat) (i : Nat),
    (∀ p ∈ ps, Good env p) → altsSWT env ps t = true →
    ∃ cps, convertList env sp i ps = .ok cps ∧ altsWT env cps t = true ∧ cps.isEmpty = ps.isEmpty ∧
      ∀ (g : Bool) (v : Val), hasType env v t = true → matchAlts g cps v = smatchAny ps v
  | [], i, _, _ =>
    ⟨[], by simp [convertList, pure, Except.pure], by simp [altsWT], rfl,
      by intro g v _; simp [matchAlts, smatchAny]⟩
  | p :: ps, i, IH, h => by
    simp only [altsSWT, Bool.and_eq_true] at h
    obtain ⟨cp, hcp, hwt, hsem⟩ := IH p List.mem_cons_self t (sp ++ [i]) h.1
    obtain ⟨cps, hcps, hwts, _, hsems⟩ := convertList_alt env sp t ps (i + 1)
      (fun q hq => IH q (List.mem_cons_of_mem _ hq)) h.2
    refine ⟨cp :: cps, by simp [convertList, hcp, hcps, pure, Except.pure], by simp [altsWT, hwt, hwts], rfl, ?_⟩
    intro g v hv
    simp only [matchAlts, smatchAny]
    rw [hsem g v hv, hsems g v hv]

theorem convertList_pos (env : Env) (sp : Span) (tys : List Ty) (n m : Nat) :
    ∀ (ps : List SPat) (idx : Nat) (seen : Bool) (i : Nat),
    (∀ p ∈ ps, Good env p) → (∀ p ∈ ps, p.isRest = false) →
    itemsWT env tys (tcIndices n m idx seen ps) ps = true → idx + ps.length = tys.length →
    ∃ cps, convertList env sp i ps = .ok cps ∧ patsWT env cps (tys.drop idx) = true ∧
      ∀ (g : Bool) (vs : List Val), hasTypes env vs (tys.drop idx) = true → matchPats g cps vs = smatchPos ps vs
  | [], idx, seen, i, _, _, _, hlen => by
    have hd : tys.drop idx = [] := List.drop_eq_nil_of_le (by simp at hlen; omega)
    refine ⟨[], by simp [convertList, pure, Except.pure], by rw [hd]; simp [patsWT], ?_⟩
    intro g vs hvs
    rw [hd] at hvs
    cases vs with
    | nil => simp [matchPats, smatchPos]
    | cons v vs => simp [hasTypes] at hvs
  | p :: ps, idx, seen, i, IH, hnr, hwt, hlen => by
    have hp := hnr p List.mem_cons_self
    rw [tcIndices_nonrest _ _ _ _ _ _ hp, itemsWT_nonrest _ _ _ _ _ _ hp] at hwt
    simp only [List.length_cons] at hlen
    have hi : idx < tys.length := by omega
    simp only [List.getElem?_eq_getElem hi, Bool.and_eq_true] at hwt
    obtain ⟨cp, hcp, hcwt, hcs⟩ := IH p List.mem_cons_self tys[idx] (sp ++ [i]) hwt.1
    obtain ⟨cps, hcps, hwts, hsems⟩ := convertList_pos env sp tys n m ps (idx + 1) seen (i + 1)
      (fun q hq => IH q (List.mem_cons_of_mem _ hq)) (fun q hq => hnr q (List.mem_cons_of_mem _ hq))
      hwt.2 (by omega)
    refine ⟨cp :: cps, by simp [convertList, hcp, hcps, pure, Except.pure], ?_, ?_⟩
    · rw [List.drop_eq_getElem_cons hi]
      simp [patsWT, hcwt, hwts]
    · intro g vs hvs
      rw [List.drop_eq_getElem_cons hi] at hvs
      cases vs with
      | nil => simp [hasTypes] at hvs
      | cons v vs =>
        simp only [hasTypes, Bool.and_eq_true] at hvs
        rw [smatchPos_nonrest _ _ _ hp]
        simp only [matchPats]
        rw [hcs g v hvs.1, hsems g vs hvs.2]

/-! ## values of a declared type -/

theorem val_adt (env : Env) (d : Nat) (v : Val) (h : hasType env v (.adt d) = true) :
    ∃ id vs tys, v = .ctor id vs ∧ (env d).variants[id]? = some tys ∧ hasTypes env vs tys = true := by
  obtain ⟨id, vs, rfl⟩ := val_of_ctor_type env v (.adt d) h (Or.inr ⟨d, rfl⟩)
  obtain ⟨tys, h1, h2⟩ := (hasType_ctor_iff env id vs (.adt d)).mp h
  exact ⟨id, vs, tys, rfl, by simpa [fieldsOf] using h1, h2⟩

theorem single_variant {α : Type} {l : List α} {id : Nat} {x : α} (h1 : l.length = 1) (h : l[id]? = some x) :
    id = 0 := by
  cases Nat.lt_or_ge id l.length with
  | inl hlt => omega
  | inr hge => rw [List.getElem?_eq_none hge] at h; cases h

theorem slotPats_replicate (n : Nat) : slotPats (List.replicate n none) = List.replicate n anyNoSpan := by
  simp [slotPats]

/-! ## the cases of the main theorem -/

theorem good_identVariant (env : Env) (e v : Nat) : Good env (.identVariant e v) := by
  intro t sp h
  simp only [spatWT, Bool.and_eq_true, beq_iff_eq] at h
  obtain ⟨⟨rfl, hkind⟩, hv⟩ := h
  refine ⟨.ctor sp (.enum e v) [], by simp [convertPattern, pure, Except.pure], ?_, ?_⟩
  · simp [patWT, ctorOk, hkind, CtorId.vid, hv, patsWT]
  · intro g w hw
    obtain ⟨id, vs, tys, rfl, hid, hvs⟩ := val_adt env e w hw
    simp only [matchPat, smatch, CtorId.vid]
    by_cases hc : v = id
    · subst hc
      rw [hv] at hid
      cases hid
      cases vs with
      | nil => simp [matchPats]
      | cons a as => simp [hasTypes] at hvs
    · simp [hc]

theorem good_alt (env : Env) (ps : List SPat) (IH : ∀ p ∈ ps, Good env p) : Good env (.alt ps) := by
  intro t sp h
  simp only [spatWT, Bool.and_eq_true, Bool.not_eq_true'] at h
  obtain ⟨cps, hc, hwt, hemp, hsem⟩ := convertList_alt env sp t ps 0 IH h.2
  refine ⟨.alt sp cps, by simp [convertPattern, hc, pure, Except.pure], ?_, ?_⟩
  · simp only [patWT, Bool.and_eq_true, Bool.not_eq_true']
    exact ⟨by rw [hemp]; exact h.1, hwt⟩
  · intro g v hv
    simp only [matchPat, smatch]
    exact hsem g v hv

theorem good_tuple (env : Env) (n : Nat) (ps : List SPat) (IH : ∀ p ∈ ps, Good env p) :
    Good env (.tuple n ps) := by
  intro t sp h
  cases t with
  | adt d =>
    simp only [spatWT, Bool.and_eq_true, beq_iff_eq] at h
    obtain ⟨⟨hkind, hone⟩, h3⟩ := h
    cases hv : (env d).variants[0]? with
    | none => simp [hv] at h3
    | some tys =>
      simp only [hv, Bool.and_eq_true, beq_iff_eq] at h3
      obtain ⟨⟨hn, hshape⟩, hitems⟩ := h3
      subst hn
      have hval : ∀ v, hasType env v (.adt d) = true → ∃ vs, v = .ctor 0 vs ∧ hasTypes env vs tys = true := by
        intro v hvt
        obtain ⟨id, vs, tys', rfl, hid, hvs⟩ := val_adt env d v hvt
        have := single_variant hone hid
        subst this
        rw [hv] at hid
        cases hid
        exact ⟨vs, rfl, hvs⟩
      have hcok : ctorOk env d .tuple = true := by simp [ctorOk, hkind, hone]
      simp only [posShape, Bool.and_eq_true, decide_eq_true_eq] at hshape
      cases hany : ps.any SPat.isRest with
      | false =>
        have h0 := restCount_zero_of_any hany
        have hlen : ps.length = tys.length := by simpa [h0] using hshape.2
        obtain ⟨cps, hc, hwt, hsem⟩ := convertList_pos env sp tys tys.length ps.length ps 0 false 0 IH
          (restCount_zero h0) hitems (by omega)
        simp only [List.drop_zero] at hwt hsem
        refine ⟨.ctor sp .tuple cps, by simp [convertPattern, hany, hc, pure, Except.pure], ?_, ?_⟩
        · simp [patWT, hcok, CtorId.vid, hv, hwt]
        · intro g v hvt
          obtain ⟨vs, rfl, hvs⟩ := hval v hvt
          simp only [matchPat, smatch, CtorId.vid]
          simp [hsem g vs hvs]
      | true =>
        have hmask := maskTg_tcIndices tys.length ps.length ps 0 false
        obtain ⟨result', h1, _, h3, h4⟩ := convertTupleRest_spec env sp tys ps
          (tcIndices tys.length ps.length 0 false ps) 0 (List.replicate tys.length none) IH
          (by rw [hmask]; exact hitems) (by rw [hmask]; exact tcIndices_distinct _ _ _ _ _) (by simp)
          (by intro k _ hk; simp [hk])
        rw [hmask] at h4
        refine ⟨.ctor sp .tuple (slotPats result'), ?_, ?_, ?_⟩
        · simp only [convertPattern, hany, ↓reduceIte, h1]
          rfl
        · have := h3 (by rw [slotPats_replicate]; exact patsWT_replicate_any env tys)
          simp [patWT, hcok, CtorId.vid, hv, this]
        · intro g v hvt
          obtain ⟨vs, rfl, hvs⟩ := hval v hvt
          have hlen := hasTypes_length env vs tys hvs
          simp only [matchPat, smatch, CtorId.vid]
          have hr : matchPats g (List.replicate tys.length anyNoSpan) vs = true := by
            rw [← hlen]; exact matchPats_replicate_any g vs
          rw [h4 g vs hvs, slotPats_replicate, hr]
          have := smatchPos_tc tys.length ps.length vs hlen ps 0 hshape.1 (by omega)
          simp only [List.drop_zero] at this
          rw [this]
          simp
  | bool => simp [spatWT] at h
  | int => simp [spatWT] at h
  | char => simp [spatWT] at h
  | str => simp [spatWT] at h
  | guardT => simp [spatWT] at h

theorem ctorOk_target (env : Env) (d : Nat) (tg : Target) : ctorOk env d tg.ctorId = targetOk env d tg := by
  cases tg <;> rfl

theorem vid_target (tg : Target) : tg.ctorId.vid = tg.vid := by
  cases tg <;> rfl

theorem fieldCount_target (env : Env) (d : Nat) (tg : Target) (tys : List Ty)
    (h : targetOk env d tg = true) (hv : (env d).variants[tg.vid]? = some tys) :
    tg.fieldCount env = tys.length := by
  cases tg with
  | variant e v =>
    simp only [targetOk, Bool.and_eq_true, beq_iff_eq] at h
    obtain ⟨rfl, _⟩ := h
    simp only [Target.vid] at hv
    simp [Target.fieldCount, List.getD_eq_getElem?_getD, hv]
  | cls c =>
    simp only [targetOk, Bool.and_eq_true, beq_iff_eq] at h
    obtain ⟨⟨rfl, _⟩, _⟩ := h
    simp only [Target.vid] at hv
    simp [Target.fieldCount, List.getD_eq_getElem?_getD, hv]
  | struct c =>
    simp only [targetOk, Bool.and_eq_true, beq_iff_eq] at h
    obtain ⟨⟨rfl, _⟩, _⟩ := h
    simp only [Target.vid] at hv
    simp [Target.fieldCount, List.getD_eq_getElem?_getD, hv]

/-- a constructor pattern whose parameters test what the items test -/
theorem ctor_frame (env : Env) (sp : Span) (d : Nat) (tg : Target) (names : List (Option Nat)) (ps : List SPat)
    (tys : List Ty) (htg : targetOk env d tg = true) (hv : (env d).variants[tg.vid]? = some tys)
    (params : List Pat) (hp : patsWT env params tys = true)
    (hsem : ∀ g vs, hasTypes env vs tys = true → matchPats g params vs =
      (if names.any Option.isSome then smatchNamed names ps vs else smatchPos ps vs)) :
    patWT env (.ctor sp tg.ctorId params) (.adt d) = true ∧
    ∀ (g : Bool) (v : Val), hasType env v (.adt d) = true →
      matchPat g (.ctor sp tg.ctorId params) v = smatch (.ctor tg names ps) v := by
  constructor
  · simp [patWT, ctorOk_target, htg, vid_target, hv, hp]
  · intro g v hvt
    obtain ⟨id, vs, tys', rfl, hid, hvs⟩ := val_adt env d v hvt
    simp only [matchPat, smatch, vid_target]
    by_cases hc : tg.vid = id
    · subst hc
      rw [hv] at hid
      cases hid
      rw [hsem g vs hvs]
      cases tg <;> simp [Target.vid]
    · cases tg with
      | variant e v =>
        simp only [Target.vid] at hc
        have hf : (v == id) = false := by simpa using hc
        simp only [Target.vid, hf, Bool.false_and]
      | cls c =>
        exfalso
        simp only [targetOk, Bool.and_eq_true, beq_iff_eq] at htg
        exact hc (single_variant htg.2 hid).symm
      | struct c =>
        exfalso
        simp only [targetOk, Bool.and_eq_true, beq_iff_eq] at htg
        exact hc (single_variant htg.2 hid).symm

theorem good_ctor (env : Env) (tg : Target) (names : List (Option Nat)) (ps : List SPat)
    (IH : ∀ p ∈ ps, Good env p) : Good env (.ctor tg names ps) := by
  intro t sp h
  cases t with
  | adt d =>
    simp only [spatWT, Bool.and_eq_true] at h
    obtain ⟨htg, h2⟩ := h
    cases hv : (env d).variants[tg.vid]? with
    | none => simp [hv] at h2
    | some tys =>
      simp only [hv] at h2
      have hfc := fieldCount_target env d tg tys htg hv
      cases hps : ps.isEmpty with
      | true =>
        have hpe : ps = [] := List.isEmpty_iff.mp hps
        subst hpe
        simp only [List.isEmpty_nil, ↓reduceIte, Bool.and_eq_true, List.isEmpty_iff] at h2
        obtain ⟨rfl, rfl⟩ := h2
        have := ctor_frame env sp d tg [] [] [] htg hv [] (by simp [patsWT]) (by
          intro g vs hvs
          cases vs with
          | nil => simp [matchPats, smatchPos]
          | cons a as => simp [hasTypes] at hvs)
        exact ⟨.ctor sp tg.ctorId [], by simp [convertPattern, pure, Except.pure], this.1, this.2⟩
      | false =>
        simp only [hps, Bool.false_eq_true, ↓reduceIte, Bool.and_eq_true, beq_iff_eq] at h2
        obtain ⟨hnl, h3⟩ := h2
        -- both loops start from empty slots
        have hstart : ∀ tgs : List (Option Nat), itemsWT env tys tgs ps = true → tgDistinct tgs = true →
            mergeTg (tcIndices tys.length ps.length 0 false ps) names ps = tgs →
            ∃ result', convertFields env sp 0 0 tys.length (tcIndices tys.length ps.length 0 false ps) names ps
                (List.replicate tys.length none) = .ok result' ∧
              patsWT env (slotPats result') tys = true ∧
              ∀ g vs, hasTypes env vs tys = true → matchPats g (slotPats result') vs = smatchNamed tgs ps vs := by
          intro tgs hi hd hm
          obtain ⟨result', h1, _, h3, h4⟩ := convertFields_spec env sp tys ps
            (tcIndices tys.length ps.length 0 false ps) names 0 0 (List.replicate tys.length none) IH
            (by rw [hm]; exact hi) (by rw [hm]; exact hd) (by simp)
            (by intro k _ hk; simp [hk])
          rw [hm] at h4
          refine ⟨result', h1, h3 (by rw [slotPats_replicate]; exact patsWT_replicate_any env tys), ?_⟩
          intro g vs hvs
          have hlen := hasTypes_length env vs tys hvs
          have hr : matchPats g (List.replicate tys.length anyNoSpan) vs = true := by
            rw [← hlen]; exact matchPats_replicate_any g vs
          rw [h4 g vs hvs, slotPats_replicate, hr, Bool.true_and]
        have hconv : ∀ result', convertFields env sp 0 0 tys.length (tcIndices tys.length ps.length 0 false ps)
            names ps (List.replicate tys.length none) = .ok result' →
            convertPattern env sp (.ctor tg names ps) = .ok (.ctor sp tg.ctorId (slotPats result')) := by
          intro result' h1
          simp only [convertPattern, hps, Bool.false_eq_true, ↓reduceIte, hfc, h1]
          rfl
        cases hall : names.all Option.isNone with
        | true =>
          simp only [hall, ↓reduceIte, Bool.and_eq_true] at h3
          obtain ⟨hshape, hitems⟩ := h3
          simp only [posShape, Bool.and_eq_true, decide_eq_true_eq] at hshape
          obtain ⟨result', h1, hwt, hsem⟩ := hstart _ hitems (tcIndices_distinct _ _ _ _ _)
            (by rw [mergeTg_allnone _ _ _ hall hnl, maskTg_tcIndices])
          have := ctor_frame env sp d tg names ps tys htg hv (slotPats result') hwt (by
            intro g vs hvs
            have hlen := hasTypes_length env vs tys hvs
            have hpos := smatchPos_tc tys.length ps.length vs hlen ps 0 hshape.1 (by omega)
            simp only [List.drop_zero] at hpos
            rw [hsem g vs hvs, any_isSome_eq, hall, hpos]
            simp)
          exact ⟨_, hconv result' h1, this.1, this.2⟩
        | false =>
          simp only [hall, Bool.false_eq_true, ↓reduceIte, Bool.and_eq_true] at h3
          obtain ⟨⟨hitems, hshape⟩, hdist⟩ := h3
          obtain ⟨result', h1, hwt, hsem⟩ := hstart names hitems hdist (mergeTg_named _ _ _ _ _ _ hshape)
          have := ctor_frame env sp d tg names ps tys htg hv (slotPats result') hwt (by
            intro g vs hvs
            rw [hsem g vs hvs, any_isSome_eq, hall]
            simp)
          exact ⟨_, hconv result' h1, this.1, this.2⟩
  | bool => simp [spatWT] at h
  | int => simp [spatWT] at h
  | char => simp [spatWT] at h
  | str => simp [spatWT] at h
  | guardT => simp [spatWT] at h

/-- every surface pattern: conversion total, well typed and meaning preserving where the type checker accepts it -/
theorem good_all (env : Env) : ∀ (p : SPat), Good env p
  | .underscore => by
    intro t sp _
    exact ⟨.any (some sp), by simp [convertPattern, pure, Except.pure], by simp [patWT], by
      intro g v _; simp [matchPat, smatch]⟩
  | .var => by
    intro t sp _
    exact ⟨.any (some sp), by simp [convertPattern, pure, Except.pure], by simp [patWT], by
      intro g v _; simp [matchPat, smatch]⟩
  | .rest => by
    intro t sp h
    simp [spatWT] at h
  | .litBool b => by
    intro t sp h
    exact ⟨.lit sp (.bool b), by simp [convertPattern, pure, Except.pure], by simpa [patWT, spatWT] using h, by
      intro g v _; simp [matchPat, smatch]⟩
  | .lit l => by
    intro t sp h
    refine ⟨.lit sp l, by simp [convertPattern, pure, Except.pure], ?_, by
      intro g v _; simp [matchPat, smatch]⟩
    cases l <;> simp_all [patWT, spatWT, litTy]
  | .const l => by
    intro t sp h
    refine ⟨.lit sp l, by simp [convertPattern, pure, Except.pure], ?_, by
      intro g v _; simp [matchPat, smatch]⟩
    cases l <;> simp_all [patWT, spatWT, litTy]
  | .identVariant e v => good_identVariant env e v
  | .alt ps => good_alt env ps (fun p hp => good_all env p)
  | .tuple n ps => good_tuple env n ps (fun p hp => good_all env p)
  | .ctor tg names ps => good_ctor env tg names ps (fun p hp => good_all env p)
termination_by p => sizeOf p
decreasing_by
  all_goals simp_wf
  all_goals (have := List.sizeOf_lt_of_mem hp; omega)

/-! ## the theorems -/

/-- on a pattern the type checker accepts the conversion does not panic; its result is a well-typed matrix
    pattern that matches exactly the values the surface pattern's run-time meaning selects -/
theorem convert_total (env : Env) (p : SPat) (t : Ty) (sp : Span) (h : spatWT env p t = true) :
    ∃ cp, convertPattern env sp p = .ok cp ∧ patWT env cp t = true ∧
      ∀ (g : Bool) (v : Val), hasType env v t = true → matchPat g cp v = smatch p v :=
  good_all env p t sp h

/-- the conversion does not panic on what the type checker accepts -/
theorem convert_ok (env : Env) (p : SPat) (t : Ty) (sp : Span) (h : spatWT env p t = true) :
    ∃ cp, convertPattern env sp p = .ok cp := by
  obtain ⟨cp, hc, _⟩ := convert_total env p t sp h
  exact ⟨cp, hc⟩

/-- the converted pattern is well typed and has the meaning of the surface pattern -/
theorem convert_correct (env : Env) : ∀ (p : SPat) (t : Ty) (sp : Span) (cp : Pat),
    spatWT env p t = true → convertPattern env sp p = .ok cp →
    patWT env cp t = true ∧ ∀ (g : Bool) (v : Val), hasType env v t = true → matchPat g cp v = smatch p v := by
  intro p t sp cp h hc
  obtain ⟨cp', hc', hwt, hsem⟩ := convert_total env p t sp h
  rw [hc] at hc'
  cases hc'
  exact ⟨hwt, hsem⟩

/-- an accepted match never falls through: every value of the scrutinee's type is selected by some arm,
    whatever the guards evaluate to — for `..` in ANY position -/
theorem accepted_no_fallthrough_full {env : Env} (hinh : Inh env) (fuel : Nat) (arms : List Arm) (t : Ty)
    (hwf : ∀ a ∈ arms, spatWT env a.pat t = true) (hacc : accepted env fuel arms = true) :
    ∀ v guards, hasType env v t = true → firstMatch arms guards v ≠ none := by
  intro v guards hv
  apply firstMatchFrom_ne_none guards v arms 0
  apply accepted_covers hinh fuel arms t ?_ ?_ hacc v hv
  · intro j a cp ha hc
    exact (convert_correct env a.pat t [j] cp (hwf a (List.mem_of_getElem? ha)) hc).1
  · intro j a cp ha hc w hw
    exact (convert_correct env a.pat t [j] cp (hwf a (List.mem_of_getElem? ha)) hc).2 false w hw

/-! ## the predicate is not vacuous (`exEnv`: `enum E { A(Bool, Bool), B }`) -/

-- `E::A(.., true)`, `E::A(false, .., true)`: `..` first / in the middle
example : spatWT exEnv (.ctor (.variant 0 0) [none, none] [.rest, .litBool true]) (.adt 0) = true := by decide
example : spatWT exEnv (.ctor (.variant 0 0) [none, none, none] [.litBool false, .rest, .litBool true]) (.adt 0) = true := by
  decide
-- two `..`, a missing field without `..`, a field named twice: rejected
example : spatWT exEnv (.ctor (.variant 0 0) [none, none, none] [.rest, .rest, .litBool true]) (.adt 0) = false := by decide
example : spatWT exEnv (.ctor (.variant 0 0) [none] [.var]) (.adt 0) = false := by decide
example : spatWT exEnv (.ctor (.variant 0 0) [some 1, some 1] [.litBool false, .var]) (.adt 0) = false := by decide
-- named fields in any order, with a trailing `..`
example : spatWT exEnv (.ctor (.variant 0 0) [some 1, some 0] [.litBool false, .var]) (.adt 0) = true := by decide
example : spatWT exEnv (.ctor (.variant 0 0) [some 1, none] [.litBool false, .rest]) (.adt 0) = true := by decide
-- `E::B` without parentheses; `E::A` without parentheses has fields: rejected
example : spatWT exEnv (.identVariant 0 1) (.adt 0) = true := by decide
example : spatWT exEnv (.identVariant 0 0) (.adt 0) = false := by decide

end Dora.Match
