import DoraModel.Match.Lemmas
/-!
C11: soundness of `check_exhaustive` (the witness-producing variant of Maranget's algorithm), on top of the
infrastructure of `Lemmas.lean`; same case structure as `checkUseful_correct`.
-/
namespace Dora.Match

mutual
/-- how a witness row printed in the error message is read: like `matchPat true`, except that a
    constructor pattern with NO parameters stands for "this constructor, any arguments"
    (`first.pattern(ctor_id, Vec::new())` in check_exhaustive) -/
def matchWit : Pat → Val → Bool
  | .any _, _ => true
  | .guard, _ => true
  | .lit _ l, v => litMatches l v
  | .ctor _ cid ps, .ctor id vs => cid.vid == id && (ps.isEmpty || matchWits ps vs)
  | .ctor _ _ _, _ => false
  | .alt _ ps, v => matchWitAlts ps v
def matchWits : List Pat → List Val → Bool
  | [], [] => true
  | p :: ps, v :: vs => matchWit p v && matchWits ps vs
  | _, _ => false
def matchWitAlts : List Pat → Val → Bool
  | [], _ => false
  | p :: ps, v => matchWit p v || matchWitAlts ps v
end

/-! ### witness rows against value vectors -/

theorem matchWits_length : ∀ (ps : List Pat) (vs : List Val),
    matchWits ps vs = true → ps.length = vs.length
  | [], [], _ => rfl
  | [], _ :: _, h => by simp [matchWits] at h
  | _ :: _, [], h => by simp [matchWits] at h
  | p :: ps, v :: vs, h => by
    simp only [matchWits, Bool.and_eq_true] at h
    simp [matchWits_length ps vs h.2]

theorem matchWits_append : ∀ (ps : List Pat) (vs : List Val) (qs : List Pat) (ws : List Val),
    ps.length = vs.length →
    matchWits (ps ++ qs) (vs ++ ws) = (matchWits ps vs && matchWits qs ws)
  | [], [], qs, ws, _ => by simp [matchWits]
  | [], _ :: _, _, _, h => by simp at h
  | _ :: _, [], _, _, h => by simp at h
  | p :: ps, v :: vs, qs, ws, h => by
    simp only [List.cons_append, matchWits]
    rw [matchWits_append ps vs qs ws (by simpa using h), Bool.and_assoc]

theorem matchWits_replicate_any : ∀ (vs : List Val),
    matchWits (List.replicate vs.length anyNoSpan) vs = true
  | [] => by simp [matchWits]
  | v :: vs => by
    simp only [List.length_cons, List.replicate_succ, matchWits, anyNoSpan, matchWit, Bool.true_and]
    exact matchWits_replicate_any vs

/-! ### the loops of `check_exhaustive` -/

theorem firstNonEmptyE_ok {f : Nat → Except Err (List (List Pat))} : ∀ {ids : List Nat} {res : List (List Pat)},
    firstNonEmptyE f ids = .ok res →
    (res = [] → ∀ id ∈ ids, f id = .ok []) ∧ (res ≠ [] → ∃ id ∈ ids, f id = .ok res)
  | [], res, h => by
    simp only [firstNonEmptyE, pure, Except.pure, Except.ok.injEq] at h
    subst h; simp
  | id :: ids, res, h => by
    simp only [firstNonEmptyE] at h
    split at h
    · simp at h
    · rename_i hf
      obtain ⟨a, b⟩ := firstNonEmptyE_ok h
      constructor
      · intro hres id' hid'
        rcases List.mem_cons.mp hid' with rfl | hid'
        · exact hf
        · exact a hres id' hid'
      · intro hres
        obtain ⟨id', hid', h'⟩ := b hres
        exact ⟨id', List.mem_cons_of_mem _ hid', h'⟩
    · rename_i r rs hf
      simp only [pure, Except.pure, Except.ok.injEq] at h
      subst h
      constructor
      · intro hres; simp at hres
      · intro _; exact ⟨id, List.mem_cons_self, hf⟩

theorem missingCtorRows_spec (first : CtorId) (ctors : CtorMap) (row : List Pat) :
    ∀ (ids : List Nat) (acc res : List (List Pat)), missingCtorRows first ctors row ids acc = .ok res →
    (∀ w ∈ res, w ∈ acc ∨ w = anyNoSpan :: row ∨
      ∃ id ∈ ids, ctors.containsKey id = false ∧ ∃ p, first.pattern id [] = .ok p ∧ w = p :: row) ∧
    ((acc ≠ [] ∨ ∃ id ∈ ids, ctors.containsKey id = false) → res ≠ [])
  | [], acc, res, h => by
    simp only [missingCtorRows, pure, Except.pure, Except.ok.injEq] at h
    subst h
    refine ⟨fun w hw => Or.inl hw, ?_⟩
    rintro (h | ⟨id, hid, _⟩)
    · exact h
    · simp at hid
  | id :: ids, acc, res, h => by
    simp only [missingCtorRows] at h
    split at h
    · rename_i hc
      obtain ⟨a, b⟩ := missingCtorRows_spec first ctors row ids acc res h
      constructor
      · intro w hw
        rcases a w hw with h1 | h1 | ⟨id', hid', rest⟩
        · exact Or.inl h1
        · exact Or.inr (Or.inl h1)
        · exact Or.inr (Or.inr ⟨id', List.mem_cons_of_mem _ hid', rest⟩)
      · rintro (h1 | ⟨id', hid', hm⟩)
        · exact b (Or.inl h1)
        · rcases List.mem_cons.mp hid' with rfl | hid'
          · simp [hc] at hm
          · exact b (Or.inr ⟨id', hid', hm⟩)
    · rename_i hc
      have hc' : ctors.containsKey id = false := by simpa using hc
      split at h
      · simp only [pure, Except.pure, Except.ok.injEq] at h
        subst h
        constructor
        · intro w hw
          rcases List.mem_append.mp hw with h1 | h1
          · exact Or.inl h1
          · simp only [List.mem_singleton] at h1
            exact Or.inr (Or.inl h1)
        · intro _; simp
      · split at h
        · simp at h
        rename_i p hp
        obtain ⟨a, b⟩ := missingCtorRows_spec first ctors row ids _ res h
        constructor
        · intro w hw
          rcases a w hw with h1 | h1 | ⟨id', hid', rest⟩
          · rcases List.mem_append.mp h1 with h2 | h2
            · exact Or.inl h2
            · simp only [List.mem_singleton] at h2
              exact Or.inr (Or.inr ⟨id, List.mem_cons_self, hc', p, hp, h2⟩)
          · exact Or.inr (Or.inl h1)
          · exact Or.inr (Or.inr ⟨id', List.mem_cons_of_mem _ hid', rest⟩)
        · intro _; exact b (Or.inl (by simp))

/-! ### the pattern rebuilt for a constructor id -/

theorem pattern_match {env : Env} {first : CtorId} {id : Nat} {ps : List Pat} {p : Pat} {args : List Val}
    (hp : first.pattern id ps = .ok p) (hid : id < first.total env)
    (hbool : first = .bool → ps = [] → args = [])
    (hm : ps = [] ∨ matchWits ps args = true) : matchWit p (.ctor id args) = true := by
  cases first with
  | bool =>
    simp only [CtorId.pattern] at hp
    split at hp
    · rename_i hemp
      simp only [pure, Except.pure, Except.ok.injEq] at hp
      subst hp
      have hps : ps = [] := by simpa using hemp
      have hargs := hbool rfl hps
      subst hargs
      simp only [CtorId.total] at hid
      have : id = 0 ∨ id = 1 := by omega
      rcases this with rfl | rfl <;> simp [matchWit, litMatches]
    · simp [panic] at hp
  | enum e v =>
    simp only [CtorId.pattern, pure, Except.pure, Except.ok.injEq] at hp
    subst hp
    rcases hm with rfl | hm
    · simp [matchWit, CtorId.vid]
    · simp [matchWit, CtorId.vid, hm]
  | cls c =>
    simp only [CtorId.pattern, pure, Except.pure, Except.ok.injEq] at hp
    subst hp
    simp only [CtorId.total] at hid
    have : id = 0 := by omega
    subst this
    rcases hm with rfl | hm
    · simp [matchWit, CtorId.vid]
    · simp [matchWit, CtorId.vid, hm]
  | struct s =>
    simp only [CtorId.pattern, pure, Except.pure, Except.ok.injEq] at hp
    subst hp
    simp only [CtorId.total] at hid
    have : id = 0 := by omega
    subst this
    rcases hm with rfl | hm
    · simp [matchWit, CtorId.vid]
    · simp [matchWit, CtorId.vid, hm]
  | tuple =>
    simp only [CtorId.pattern, pure, Except.pure, Except.ok.injEq] at hp
    subst hp
    simp only [CtorId.total] at hid
    have : id = 0 := by omega
    subst this
    rcases hm with rfl | hm
    · simp [matchWit, CtorId.vid]
    · simp [matchWit, CtorId.vid, hm]

/-- the witness rebuilt from a witness `u` of the specialised matrix matches `ctor id args :: vs` when `u`
    matches `args ++ vs` -/
theorem rebuildWitness_match {env : Env} {first : CtorId} {id arity tail : Nat} {u w : List Pat}
    {args vs : List Val}
    (h : rebuildWitness first id arity tail u = .ok w)
    (hal : args.length = arity) (hvl : vs.length = tail) (hid : id < first.total env)
    (hm : matchWits u (args ++ vs) = true) : matchWits w (.ctor id args :: vs) = true := by
  have hul : u.length = arity + tail := by
    have := matchWits_length _ _ hm
    simp only [List.length_append] at this
    omega
  simp only [rebuildWitness] at h
  split at h
  · simp [panic] at h
  split at h
  · simp [panic] at h
  have hk : u.length - tail = arity := by omega
  rw [hk] at h
  split at h
  · simp at h
  rename_i p hp
  simp only [pure, Except.pure, Except.ok.injEq] at h
  subst h
  have hsplit : u = u.take arity ++ u.drop arity := (List.take_append_drop arity u).symm
  have htl : (u.take arity).length = args.length := by
    rw [List.length_take]; omega
  rw [hsplit, matchWits_append _ _ _ _ htl, Bool.and_eq_true] at hm
  simp only [matchWits, Bool.and_eq_true]
  refine ⟨pattern_match hp hid ?_ (Or.inr hm.1), hm.2⟩
  intro _ hemp
  rw [hemp] at htl
  simp only [List.length_nil] at htl
  exact List.eq_nil_of_length_eq_zero htl.symm

/-! ### fresh head values -/

theorem firstOf_bool_typed {env : Env} {q : Pat} {t : Ty} (hf : firstOf q = some .bool)
    (hwt : patWT env q t = true) : t = .bool := by
  cases q with
  | ctor sp cid ps =>
    simp only [firstOf, Option.some.injEq] at hf
    subst hf
    cases t <;> simp [patWT, ctorOk] at hwt
  | lit sp l =>
    cases l with
    | bool b => simpa [patWT] using hwt
    | int _ => simp [firstOf] at hf
    | char _ => simp [firstOf] at hf
    | str _ => simp [firstOf] at hf
  | any _ => simp [firstOf] at hf
  | alt _ _ => simp [firstOf] at hf
  | guard => simp [firstOf] at hf

/-- `fresh_missing_ctor` for a GIVEN missing constructor id -/
theorem fresh_given_ctor {env : Env} (hinh : Inh env) {m : List (List Pat)} {t : Ty}
    {ctors : CtorMap} {first : CtorId}
    (inv : SigInv (headLeaves m) (ctors, some first))
    {id : Nat} (hid : id < nCtors env t) (hmiss : ctors.containsKey id = false) :
    ∃ tys args, fieldsOf env t id = some tys ∧ hasTypes env args tys = true ∧
      hasType env (.ctor id args) t = true ∧
      ∀ p r, (p :: r) ∈ m → ∀ q ∈ leaves p, q.isAny = false → matchPat false q (.ctor id args) = false := by
  obtain ⟨tys, hf⟩ := fieldsOf_of_lt hid
  obtain ⟨args, hargs⟩ := inh_list hinh tys
  refine ⟨tys, args, hf, hargs, (hasType_ctor_iff env id args t).mpr ⟨tys, hf, hargs⟩, ?_⟩
  intro p r hrow q hq hany
  apply bool_not_true
  intro hm
  obtain ⟨a, ha⟩ := leaf_match_ctor_key (leaves_not_alt p q hq) hany hm
  have : ctors.containsKey id = true :=
    (inv.keys id).mpr ⟨q, mem_headLeaves.mpr ⟨p, r, hrow, hq⟩, a, ha⟩
  simp [hmiss] at this

/-- lifting the result for the default matrix through a wildcard head -/
theorem default_lift {env : Env} {m m' : List (List Pat)} {t : Ty} {ts : List Ty} {res' : List (List Pat)}
    (hm' : flatMapE specializeRowForAny m = .ok m')
    (hfresh : ∃ v, hasType env v t = true ∧
      ∀ p r, (p :: r) ∈ m → ∀ q ∈ leaves p, q.isAny = false → matchPat false q v = false)
    (ih1 : res' = [] → ∀ vs, hasTypes env vs ts = true → ¬ Uncov m' vs)
    (ih2 : ∀ w ∈ res', ∃ vs, hasTypes env vs ts = true ∧ matchWits w vs = true ∧ Uncov m' vs) :
    (res'.map (fun row => anyNoSpan :: row) = [] → ∀ vs, hasTypes env vs (t :: ts) = true → ¬ Uncov m vs) ∧
    (∀ w ∈ res'.map (fun row => anyNoSpan :: row),
      ∃ vs, hasTypes env vs (t :: ts) = true ∧ matchWits w vs = true ∧ Uncov m vs) := by
  constructor
  · intro hres vs hvs hu
    have hres' : res' = [] := by simpa using hres
    cases vs with
    | nil => simp [hasTypes] at hvs
    | cons v vs =>
      simp only [hasTypes, Bool.and_eq_true] at hvs
      exact ih1 hres' vs hvs.2 (uncov_default_fwd hm' v vs hu)
  · intro w hw
    obtain ⟨w', hw', rfl⟩ := List.mem_map.mp hw
    obtain ⟨vs, hvs, hmw, hu⟩ := ih2 w' hw'
    obtain ⟨v, hv, hf⟩ := hfresh
    exact ⟨v :: vs, by simp [hasTypes, hv, hvs], by simp [matchWits, matchWit, anyNoSpan, hmw],
      uncov_default_bwd hm' v vs hf hu⟩

/-! ### `check_exhaustive` -/

/-- `check_exhaustive` returns `[]` only if every well-typed value vector is matched by some row, and every
    row it returns is a witness: it matches some well-typed vector that no row of the matrix matches. -/
theorem checkExhaustive_correct {env : Env} (hinh : Inh env) :
    ∀ (fuel : Nat) (m : List (List Pat)) (n : Nat) (tys : List Ty) (res : List (List Pat)),
    matrixWT env m tys → tys.length = n → checkExhaustive env fuel m n = .ok res →
    (res = [] → ∀ vs, hasTypes env vs tys = true → ¬ Uncov m vs) ∧
    (∀ w ∈ res, ∃ vs, hasTypes env vs tys = true ∧ matchWits w vs = true ∧ Uncov m vs)
  | 0, _, _, _, _, _, _, h => by simp [checkExhaustive] at h
  | fuel + 1, m, n, tys, res, hwt, hn, h => by
    have ih := checkExhaustive_correct hinh fuel
    simp only [checkExhaustive] at h
    split at h
    · simp [panic] at h
    split at h
    · -- empty matrix
      rename_i hempty
      simp only [pure, Except.pure, Except.ok.injEq] at h
      subst h
      have : m = [] := by simpa using hempty
      subst this
      obtain ⟨vs, hvs⟩ := inh_list hinh tys
      refine ⟨by simp, ?_⟩
      intro w hw
      simp only [List.mem_singleton] at hw
      subst hw
      refine ⟨vs, hvs, ?_, by intro r hr; simp at hr⟩
      rw [← hn, ← hasTypes_length env _ _ hvs]
      exact matchWits_replicate_any vs
    rename_i _ hne
    have hne' : m ≠ [] := by simpa using hne
    split at h
    · -- no columns left
      rename_i hn0
      simp only [pure, Except.pure, Except.ok.injEq] at h
      subst h
      have hn0' : n = 0 := by simpa using hn0
      have htys : tys = [] := by
        cases tys with
        | nil => rfl
        | cons t ts => simp at hn; omega
      subst htys
      refine ⟨?_, by simp⟩
      intro _ vs hvs hu
      cases m with
      | nil => exact hne' rfl
      | cons r rs =>
        have hr := hwt r List.mem_cons_self
        have hvs' : vs = [] := by cases vs <;> simp_all [hasTypes]
        have hr' : r = [] := by cases r <;> simp_all [patsWT]
        subst hvs' hr'
        have := hu [] List.mem_cons_self
        simp [matchPats] at this
    rename_i hn0
    have hnpos : n ≠ 0 := by simpa using hn0
    cases tys with
    | nil => simp at hn; omega
    | cons t ts =>
      have hn1 : ts.length = n - 1 := by simp at hn; omega
      split at h
      · simp at h
      · -- incomplete signature
        rename_i hsig
        rcases discoverSignature_spec hsig with ⟨_, hnone⟩ | ⟨c, f, hc, _⟩
        · split at h
          · simp at h
          rename_i m' hm'
          split at h
          · simp at h
          rename_i res' hrec
          simp only [pure, Except.pure, Except.ok.injEq] at h
          subst h
          obtain ⟨ih1, ih2⟩ := ih m' (n - 1) ts res' (wt_default hwt hm') hn1 hrec
          exact default_lift hm' (fresh_incomplete hinh hwt hnone) ih1 ih2
        · cases hc
      · -- complete signature
        rename_i ctors first hsig
        rcases discoverSignature_spec hsig with ⟨hc, _⟩ | ⟨c, f, hc, inv⟩
        · cases hc
        cases hc
        have hlw := headLeaves_wt hwt
        obtain ⟨q0, hq0, hf0⟩ := inv.kindSome first rfl
        obtain ⟨htot, htk⟩ := firstOf_typed hf0 (hlw q0 hq0)
        split at h
        · simp [panic] at h
        split at h
        · -- every constructor occurs: try them all
          have step : ∀ id r, id < first.total env →
              (match ctors.get id with
                | none => panic "exhaustiveness.rs:417 missing ctor id"
                | some arity =>
                  match flatMapE (specializeRowForConstructor id arity) m with
                  | .error e => .error e
                  | .ok newMatrix =>
                    match checkExhaustive env fuel newMatrix (n + arity - 1) with
                    | .error e => .error e
                    | .ok uncovered => mapE (rebuildWitness first id arity (n - 1)) uncovered) = .ok r →
              ∃ tys', fieldsOf env t id = some tys' ∧
                (r = [] → ∀ args vs, hasTypes env args tys' = true → hasTypes env vs ts = true →
                  ¬ Uncov m (.ctor id args :: vs)) ∧
                (∀ w ∈ r, ∃ args vs, hasTypes env args tys' = true ∧ hasTypes env vs ts = true ∧
                  matchWits w (.ctor id args :: vs) = true ∧ Uncov m (.ctor id args :: vs)) := by
            intro id r hid hstep
            split at hstep
            · simp [panic] at hstep
            rename_i arity hget
            obtain ⟨ql, hql, hkl⟩ := inv.arity id arity hget
            obtain ⟨tys', hf, hlen⟩ := keyOf_typed hkl (hlw ql hql)
            subst hlen
            split at hstep
            · simp at hstep
            rename_i m' hm'
            split at hstep
            · simp at hstep
            rename_i unc hrec
            obtain ⟨ih1, ih2⟩ := ih m' (n + tys'.length - 1) (tys' ++ ts) unc (wt_ctor hwt hf hm')
              (by simp only [List.length_append]; omega) hrec
            have hmap := mapE_ok hstep
            refine ⟨tys', hf, ?_, ?_⟩
            · intro hr args vs ha hv hu
              have hunc : unc = [] := by
                cases unc with
                | nil => rfl
                | cons u us =>
                  obtain ⟨y, hy, _⟩ := hmap.2 u List.mem_cons_self
                  subst hr; simp at hy
              have hal := hasTypes_length env _ _ ha
              rw [← hal] at hm'
              exact ih1 hunc (args ++ vs) (hasTypes_append env _ _ _ _ ha hv) ((uncov_ctor hm' vs).mp hu)
            · intro w hw
              obtain ⟨u, hu, hreb⟩ := hmap.1 w hw
              obtain ⟨ws, hws, hmw, huc⟩ := ih2 u hu
              obtain ⟨args, vs, rfl, ha, hv⟩ := hasTypes_split env tys' ws ts hws
              have hal := hasTypes_length env _ _ ha
              have hvl := hasTypes_length env _ _ hv
              refine ⟨args, vs, ha, hv, rebuildWitness_match hreb hal (by omega) hid hmw, ?_⟩
              rw [← hal] at hm'
              exact (uncov_ctor hm' vs).mpr huc
          obtain ⟨h1, h2⟩ := firstNonEmptyE_ok h
          constructor
          · intro hres vs hvs hu
            cases vs with
            | nil => simp [hasTypes] at hvs
            | cons v vs =>
              simp only [hasTypes, Bool.and_eq_true] at hvs
              obtain ⟨id, args, rfl⟩ := val_of_ctor_type env v t hvs.1 htk
              obtain ⟨tys', hf, ha⟩ := (hasType_ctor_iff env id args t).mp hvs.1
              have hid : id < first.total env := by rw [htot]; exact fieldsOf_lt hf
              obtain ⟨tys'', hf', hs1, _⟩ := step id [] hid (h1 hres id (by simpa using hid))
              rw [hf] at hf'; cases hf'
              exact hs1 rfl args vs ha hvs.2 hu
          · intro w hw
            have hne : res ≠ [] := by intro hc; subst hc; simp at hw
            obtain ⟨id, hid, hfid⟩ := h2 hne
            have hid' : id < first.total env := by simpa using hid
            obtain ⟨tys', hf, _, hs2⟩ := step id res hid' hfid
            obtain ⟨args, vs, ha, hv, hmw, hu⟩ := hs2 w hw
            exact ⟨.ctor id args :: vs,
              by simp [hasTypes, (hasType_ctor_iff env id args t).mpr ⟨tys', hf, ha⟩, hv], hmw, hu⟩
        · -- some constructor is missing: default matrix
          rename_i hgt hneq
          have hlt : ctors.length < first.total env := by
            simp only [gt_iff_lt, Nat.not_lt] at hgt
            simp only [beq_iff_eq] at hneq
            omega
          split at h
          · simp at h
          rename_i m' hm'
          split at h
          · simp at h
          · -- default matrix exhaustive
            rename_i hrec
            simp only [pure, Except.pure, Except.ok.injEq] at h
            subst h
            obtain ⟨ih1, ih2⟩ := ih m' (n - 1) ts [] (wt_default hwt hm') hn1 hrec
            have := default_lift hm' (fresh_missing_ctor hinh hwt inv hlt) ih1 ih2
            simpa using this
          · -- one witness: list the missing constructors
            rename_i row hrec
            obtain ⟨_, ih2⟩ := ih m' (n - 1) ts [row] (wt_default hwt hm') hn1 hrec
            obtain ⟨vs, hvs, hmrow, hurow⟩ := ih2 row (by simp)
            obtain ⟨hmem, hnonempty⟩ := missingCtorRows_spec first ctors row _ [] res h
            obtain ⟨id0, hid0, hmiss0⟩ := exists_missing_key ctors _ hlt
            constructor
            · intro hres
              exact absurd hres (hnonempty (Or.inr ⟨id0, by simpa using hid0, hmiss0⟩))
            · intro w hw
              rcases hmem w hw with hacc | rfl | ⟨id, hid, hmiss, p, hp, rfl⟩
              · simp at hacc
              · obtain ⟨v, hv, hf⟩ := fresh_missing_ctor hinh hwt inv hlt
                exact ⟨v :: vs, by simp [hasTypes, hv, hvs],
                  by simp [matchWits, matchWit, anyNoSpan, hmrow], uncov_default_bwd hm' v vs hf hurow⟩
              · have hidt : id < first.total env := by simpa using hid
                have hid' : id < nCtors env t := by rw [← htot]; exact hidt
                obtain ⟨tys', args, hf, ha, hty, hfr⟩ := fresh_given_ctor hinh inv hid' hmiss
                refine ⟨.ctor id args :: vs, by simp [hasTypes, hty, hvs], ?_,
                  uncov_default_bwd hm' _ vs hfr hurow⟩
                simp only [matchWits, hmrow, Bool.and_true]
                refine pattern_match hp hidt ?_ (Or.inl rfl)
                intro hb _
                subst hb
                have ht : t = .bool := firstOf_bool_typed hf0 (hlw q0 hq0)
                subst ht
                simp only [fieldsOf] at hf
                have htys : tys' = [] := by
                  by_cases h2 : id < 2 <;> simp [h2] at hf
                  exact hf
                subst htys
                cases args with
                | nil => rfl
                | cons a as => simp [hasTypes] at ha
          · -- several witnesses
            rename_i res' _ _ hrec
            simp only [pure, Except.pure, Except.ok.injEq] at h
            subst h
            obtain ⟨ih1, ih2⟩ := ih m' (n - 1) ts res' (wt_default hwt hm') hn1 hrec
            exact default_lift hm' (fresh_missing_ctor hinh hwt inv hlt) ih1 ih2

end Dora.Match
