import DoraModel.Match.LemmasExh
/-! Helper lemmas about `check_match`'s row construction and the run-time specification `firstMatch`. -/
namespace Dora.Match

/-- the match is accepted: `check_match` returns (no panic) and reports no missing pattern -/
def accepted (env : Env) (fuel : Nat) (arms : List Arm) : Bool :=
  match checkMatch env fuel arms with
  | .ok r => r.missing.isEmpty
  | .error _ => false

/-- the matrix row `check_match` builds for an arm -/
def armRow (anyGuard : Bool) (a : Arm) (cp : Pat) : List Pat :=
  if anyGuard then [cp, if a.guarded then Pat.guard else anyNoSpan] else [cp]

theorem checkArms_rows (env : Env) (fuel : Nat) (ag : Bool) : ∀ (arms : List Arm) (i : Nat)
    (matrix : List (List Pat)) (acc : List Span) (matrix' : List (List Pat)) (acc' : List Span),
    checkArms env fuel ag i arms matrix acc = .ok (matrix', acc') →
    ∃ rows, matrix' = matrix ++ rows ∧ rows.length = arms.length ∧
      ∀ j a, arms[j]? = some a → ∃ cp, convertPattern env [i + j] a.pat = .ok cp ∧
        rows[j]? = some (armRow ag a cp)
  | [], i, matrix, acc, matrix', acc', h => by
    simp only [checkArms, pure, Except.pure, Except.ok.injEq, Prod.mk.injEq] at h
    exact ⟨[], by simp [h.1], rfl, by simp⟩
  | arm :: arms, i, matrix, acc, matrix', acc', h => by
    simp only [checkArms] at h
    cases hc : convertPattern env [i] arm.pat with
    | error e => simp [hc] at h
    | ok cp =>
      simp only [hc] at h
      split at h
      · simp at h
      rename_i useless _
      obtain ⟨rows, hm, hl, hrows⟩ := checkArms_rows env fuel ag arms (i + 1) _ _ matrix' acc' h
      refine ⟨armRow ag arm cp :: rows, ?_, by simp [hl], ?_⟩
      · rw [hm]; simp [armRow]
      · intro j a ha
        cases j with
        | zero =>
          simp only [List.getElem?_cons_zero, Option.some.injEq] at ha
          subst ha
          exact ⟨cp, by simpa using hc, by simp⟩
        | succ j =>
          obtain ⟨cp', hcp', hr'⟩ := hrows j a (by simpa using ha)
          have e : i + 1 + j = i + (j + 1) := by omega
          rw [e] at hcp'
          exact ⟨cp', hcp', by simpa using hr'⟩

theorem firstMatchFrom_ne_none (guards : Nat → Bool) (v : Val) : ∀ (arms : List Arm) (k : Nat),
    (∃ a ∈ arms, smatch a.pat v = true ∧ a.guarded = false) → firstMatchFrom guards v k arms ≠ none
  | [], _, h => by obtain ⟨a, ha, _⟩ := h; simp at ha
  | arm :: arms, k, h => by
    simp only [firstMatchFrom]
    by_cases hc : (smatch arm.pat v && (!arm.guarded || guards k)) = true
    · simp [hc]
    · simp only [hc, Bool.false_eq_true, ↓reduceIte]
      apply firstMatchFrom_ne_none guards v arms (k + 1)
      obtain ⟨a, ha, hs, hg⟩ := h
      rcases List.mem_cons.mp ha with rfl | ha
      · simp [hs, hg] at hc
      · exact ⟨a, ha, hs, hg⟩

theorem firstMatchFrom_spec (guards : Nat → Bool) (v : Val) : ∀ (arms : List Arm) (k i : Nat),
    firstMatchFrom guards v k arms = some i ↔
      ∃ j, i = k + j ∧ ∃ a, arms[j]? = some a ∧ (smatch a.pat v && (!a.guarded || guards i)) = true ∧
        ∀ j' < j, ∀ a', arms[j']? = some a' → (smatch a'.pat v && (!a'.guarded || guards (k + j'))) = false
  | [], k, i => by simp [firstMatchFrom]
  | arm :: arms, k, i => by
    simp only [firstMatchFrom]
    by_cases hc : (smatch arm.pat v && (!arm.guarded || guards k)) = true
    · simp only [hc, ↓reduceIte, Option.some.injEq]
      constructor
      · rintro rfl
        exact ⟨0, rfl, arm, rfl, by simpa using hc, by intro j' hj'; omega⟩
      · rintro ⟨j, rfl, a, ha, hm, hmin⟩
        cases j with
        | zero => rfl
        | succ j =>
          have := hmin 0 (by omega) arm rfl
          simp only [Nat.add_zero] at this
          rw [hc] at this; cases this
    · have hc' : (smatch arm.pat v && (!arm.guarded || guards k)) = false := by
        cases h : (smatch arm.pat v && (!arm.guarded || guards k)) <;> simp_all
      simp only [hc', Bool.false_eq_true, ↓reduceIte]
      rw [firstMatchFrom_spec guards v arms (k + 1) i]
      constructor
      · rintro ⟨j, rfl, a, ha, hm, hmin⟩
        refine ⟨j + 1, by omega, a, by simpa using ha, ?_, ?_⟩
        · exact hm
        · intro j' hj' a' ha'
          cases j' with
          | zero => simp only [List.getElem?_cons_zero, Option.some.injEq] at ha'; subst ha'; simpa using hc'
          | succ j' =>
            have := hmin j' (by omega) a' (by simpa using ha')
            have e : k + 1 + j' = k + (j' + 1) := by omega
            first | exact this | (rw [e] at this; exact this) | (rw [← e] at this; exact this)
      · rintro ⟨j, rfl, a, ha, hm, hmin⟩
        cases j with
        | zero =>
          simp only [List.getElem?_cons_zero, Option.some.injEq] at ha; subst ha
          simp only [Nat.add_zero] at hm; rw [hc'] at hm; cases hm
        | succ j =>
          refine ⟨j, by omega, a, by simpa using ha, ?_, ?_⟩
          · exact hm
          · intro j' hj' a' ha'
            have := hmin (j' + 1) (by omega) a' (by simpa using ha')
            have e : k + 1 + j' = k + (j' + 1) := by omega
            first | exact this | (rw [e] at this; exact this) | (rw [← e] at this; exact this)

theorem accepted_unfold {env : Env} {fuel : Nat} {arms : List Arm} (hacc : accepted env fuel arms = true) :
    ∃ matrix useless, checkArms env fuel (arms.any (·.guarded)) 0 arms [] [] = .ok (matrix, useless) ∧
      checkExhaustive env fuel matrix (if arms.any (·.guarded) then 2 else 1) = .ok [] := by
  simp only [accepted, checkMatch] at hacc
  generalize hn : (if (arms.any fun x => x.guarded) = true then 2 else 1) = n at hacc
  cases hca : checkArms env fuel (arms.any fun x => x.guarded) 0 arms [] [] with
  | error e => simp [hca] at hacc
  | ok mu =>
    obtain ⟨matrix, useless⟩ := mu
    simp only [hca] at hacc
    cases hex : checkExhaustive env fuel matrix n with
    | error e => simp [hex] at hacc
    | ok missing =>
      simp only [hex] at hacc
      by_cases hany : (missing.any fun row => row.length != n) = true
      · simp [hany, panic] at hacc
      · simp only [hany, Bool.false_eq_true, ↓reduceIte, pure, Except.pure, List.isEmpty_iff] at hacc
        subst hacc
        exact ⟨matrix, useless, rfl, by simpa [hn] using hex⟩

/-- core of `accepted_no_fallthrough_partial` -/
theorem accepted_covers {env : Env} (hinh : Inh env) (fuel : Nat) (arms : List Arm) (t : Ty)
    (hwt : ∀ j a cp, arms[j]? = some a → convertPattern env [j] a.pat = .ok cp → patWT env cp t = true)
    (hconv : ∀ j a cp, arms[j]? = some a → convertPattern env [j] a.pat = .ok cp →
      ∀ v, hasType env v t = true → matchPat false cp v = smatch a.pat v)
    (hacc : accepted env fuel arms = true) (v : Val) (hv : hasType env v t = true) :
    ∃ a ∈ arms, smatch a.pat v = true ∧ a.guarded = false := by
  obtain ⟨matrix, useless, hca, hex⟩ := accepted_unfold hacc
  · -- (kept as one block for both guard cases)
    obtain ⟨rows, hm, hl, hrows⟩ := checkArms_rows env fuel _ arms 0 [] [] matrix useless hca
    simp only [List.nil_append] at hm
    rw [hm] at hex
    -- every row is the row of some arm
    have hrow : ∀ r ∈ rows, ∃ j a cp, arms[j]? = some a ∧ convertPattern env [j] a.pat = .ok cp ∧
        r = armRow (arms.any (·.guarded)) a cp := by
      intro r hr
      obtain ⟨j, hj, hjr⟩ := List.mem_iff_getElem.mp hr
      have hja : j < arms.length := by omega
      obtain ⟨cp, hcp, hrj⟩ := hrows j arms[j] (List.getElem?_eq_getElem hja)
      rw [List.getElem?_eq_getElem hj, hjr] at hrj
      refine ⟨j, arms[j], cp, List.getElem?_eq_getElem hja, by simpa using hcp, ?_⟩
      exact Option.some.inj hrj
    cases hag : arms.any (·.guarded) with
    | true =>
      simp only [hag, ↓reduceIte] at hex hrow
      have hmwt : matrixWT env rows [t, .guardT] := by
        intro r hr
        obtain ⟨j, a, cp, ha, hcp, rfl⟩ := hrow r hr
        have := hwt j a cp ha hcp
        cases hg : a.guarded <;> simp [armRow, patsWT, patWT, this, hg, anyNoSpan]
      have hnu := (checkExhaustive_correct hinh fuel rows 2 [t, .guardT] [] hmwt rfl hex).1 rfl
        [v, .guardV] (by simp [hasTypes, hasType, hv])
      have hex2 : ∃ r ∈ rows, matchPats false r [v, .guardV] = true := by
        apply Classical.byContradiction
        intro hno
        apply hnu
        intro r hr
        cases hmr : matchPats false r [v, .guardV] with
        | false => rfl
        | true => exact absurd ⟨r, hr, hmr⟩ hno
      obtain ⟨r, hr, hmr⟩ := hex2
      obtain ⟨j, a, cp, ha, hcp, rfl⟩ := hrow r hr
      have hmem : a ∈ arms := List.mem_of_getElem? ha
      cases hg : a.guarded with
      | true => simp [armRow, hg, matchPats, matchPat] at hmr
      | false =>
        simp only [armRow, hg, ↓reduceIte, Bool.false_eq_true, matchPats, Bool.and_eq_true] at hmr
        exact ⟨a, hmem, by rw [← hconv j a cp ha hcp v hv]; exact hmr.1, hg⟩
    | false =>
      simp only [hag, Bool.false_eq_true, ↓reduceIte] at hex hrow
      have hmwt : matrixWT env rows [t] := by
        intro r hr
        obtain ⟨j, a, cp, ha, hcp, rfl⟩ := hrow r hr
        have := hwt j a cp ha hcp
        simp [armRow, patsWT, this]
      have hnu := (checkExhaustive_correct hinh fuel rows 1 [t] [] hmwt rfl hex).1 rfl
        [v] (by simp [hasTypes, hv])
      have hex2 : ∃ r ∈ rows, matchPats false r [v] = true := by
        apply Classical.byContradiction
        intro hno
        apply hnu
        intro r hr
        cases hmr : matchPats false r [v] with
        | false => rfl
        | true => exact absurd ⟨r, hr, hmr⟩ hno
      obtain ⟨r, hr, hmr⟩ := hex2
      obtain ⟨j, a, cp, ha, hcp, rfl⟩ := hrow r hr
      have hmem : a ∈ arms := List.mem_of_getElem? ha
      have hg : a.guarded = false := by
        have := List.any_eq_false.mp hag a hmem
        simpa using this
      simp only [armRow, Bool.false_eq_true, ↓reduceIte, matchPats, Bool.and_eq_true] at hmr
      exact ⟨a, hmem, by rw [← hconv j a cp ha hcp v hv]; exact hmr.1, hg⟩

/-! ### the example environment used by the non-vacuity examples of Props/C11 -/

/-- `enum E { A(Bool, Bool), B }` -/
def exDecls : List Decl := [⟨.enum, [[.bool, .bool], []]⟩]
def exEnv : Env := envOf exDecls

theorem exEnv_inh : Inh exEnv := by
  intro t
  cases t with
  | bool => exact ⟨.ctor 0 [], by decide⟩
  | int => exact ⟨.lit (.int 0), by decide⟩
  | char => exact ⟨.lit (.char 0), by decide⟩
  | str => exact ⟨.lit (.str []), by decide⟩
  | guardT => exact ⟨.guardV, by decide⟩
  | adt d =>
    match d with
    | 0 => exact ⟨.ctor 1 [], by decide⟩
    | n + 1 => exact ⟨.ctor 0 [], by simp [hasType, exEnv, envOf, exDecls, unitDecl, hasTypes]⟩


end Dora.Match
