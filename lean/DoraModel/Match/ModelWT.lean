import DoraModel.Match.Model
/-!
C11: `spatWT env p t` — the surface pattern `p` is one the type checker (typeck/pattern.rs) accepts for a scrutinee
of type `t`. Executable and free of lemma imports: the driver evaluates it on every request (`!illtyped`), the
theorems `convert_pattern_correct` / `accepted_no_fallthrough` of Props/C11 have it as their hypothesis.
-/
namespace Dora.Match

/-! ## what the type checker accepts -/

/-- number of `..` items -/
def restCount (ps : List SPat) : Nat := (ps.filter SPat.isRest).length

/-- the recorded field indices (`some k`) are pairwise distinct -/
def tgDistinct : List (Option Nat) → Bool
  | [] => true
  | none :: tg => tgDistinct tg
  | some k :: tg => !tg.contains (some k) && tgDistinct tg

/-- items of a pattern with named fields: a `..` item carries no name and is the LAST item; every other item
    is of the form `name = pat` -/
def namedShape : List (Option Nat) → List SPat → Bool
  | [], [] => true
  | name :: names, p :: ps =>
    (if p.isRest then name.isNone && ps.isEmpty else name.isSome) && namedShape names ps
  | _, _ => false

/-- positional items against `n` fields: at most one `..`; without `..` exactly one item per field, with `..`
    at most `n` other items -/
def posShape (n : Nat) (ps : List SPat) : Bool :=
  decide (restCount ps ≤ 1) && (if restCount ps == 0 then ps.length == n else decide (ps.length ≤ n + 1))

/-- the resolved path fits declaration `d` (an enum variant of `d`; the class / struct `d` itself) -/
def targetOk (env : Env) (d : Nat) : Target → Bool
  | .variant e _ => e == d && (env d).kind == .enum
  | .cls c => c == d && (env d).kind == .cls && (env d).variants.length == 1
  | .struct s => s == d && (env d).kind == .struct && (env d).variants.length == 1

/-- index of the target's field list in the declaration -/
def Target.vid : Target → Nat
  | .variant _ v => v
  | _ => 0

mutual
/-- `spatWT env p t`: the type checker accepts pattern `p` for a scrutinee of type `t` -/
def spatWT (env : Env) : SPat → Ty → Bool
  | .underscore, _ => true
  | .var, _ => true
  -- `..` is only an item of a tuple / constructor pattern
  | .rest, _ => false
  | .litBool _, t => t == .bool
  -- Int / Char / String literal (`litTy (.bool _) = none`)
  | .lit l, t => litTy l == some t
  | .const (.bool _), t => t == .bool
  | .const l, t => litTy l == some t
  -- a path to a variant without parentheses: the variant has no fields
  | .identVariant e v, t => t == .adt e && (env e).kind == .enum && (env e).variants[v]? == some []
  | .alt ps, t => !ps.isEmpty && altsSWT env ps t
  -- tuple pattern: the recorded arity is the tuple type's, positional rule for the items
  | .tuple n ps, .adt d =>
    (env d).kind == .tuple && (env d).variants.length == 1 &&
    (match (env d).variants[0]? with
     | some tys => n == tys.length && posShape tys.length ps &&
         itemsWT env tys (tcIndices tys.length ps.length 0 false ps) ps
     | none => false)
  | .tuple _ _, _ => false
  -- constructor pattern: without items the target has no fields; all items positional: positional rule;
  -- otherwise (`namedWT`): every item other than `..` is `name = pat`, `name` resolved to field `k` of the
  -- target, `pat` accepted at that field's type, no field named twice, `..` (without name) only as last item
  | .ctor tg names ps, .adt d =>
    targetOk env d tg &&
    (match (env d).variants[tg.vid]? with
     | some tys =>
       if ps.isEmpty then tys.isEmpty && names.isEmpty
       else names.length == ps.length &&
         (if names.all Option.isNone then
            posShape tys.length ps && itemsWT env tys (tcIndices tys.length ps.length 0 false ps) ps
          else itemsWT env tys names ps && namedShape names ps && tgDistinct names)
     | none => false)
  | .ctor _ _ _, _ => false
/-- every alternative is accepted at `t` -/
def altsSWT (env : Env) : List SPat → Ty → Bool
  | [], _ => true
  | p :: ps, t => spatWT env p t && altsSWT env ps t
/-- pointwise over recorded field indices / items: a `..` item needs nothing; any other item has a recorded
    field index `idx`, that field exists and the item is accepted at the field's type -/
def itemsWT (env : Env) (tys : List Ty) : List (Option Nat) → List SPat → Bool
  | r :: tc, p :: ps =>
    (match p with
     | .rest => true
     | p => match r with
       | some idx => (match tys[idx]? with | some t' => spatWT env p t' | none => false)
       | none => false) && itemsWT env tys tc ps
  | _, _ => true
end

/-- the rule for items with named fields used in `spatWT` -/
def namedWT (env : Env) (tys : List Ty) (names : List (Option Nat)) (ps : List SPat) : Bool :=
  itemsWT env tys names ps && namedShape names ps && tgDistinct names

end Dora.Match
