import DoraModel.Match.Lemmas
/-!
C11: termination of the fuel-indexed recursions `checkUseful` / `checkExhaustive`: an explicit, computable
amount of fuel always suffices (`.error .fuel` is never returned above the bound). No typing hypotheses.

Measure. Weighted depth of a pattern: `wdepth (ctor ps) = 1 + ps.length + max (wdepth ps)`, a literal has 1,
wildcard and guard 0, an alternative the maximum of its alternatives. The matrix is described by a list `ds`
of per-column bounds on `wdepth`. The row under test is weighed against these bounds: a wildcard in a column
of bound `d` weighs `2 ^ d` (it may be expanded into `a` wildcards in columns of bound `d - 1 - a`, and
`a * 2 ^ (d - 1 - a) < 2 ^ d`), a constructor pattern weighs one more than its parameters in columns of
bound `d - 1 - params.length`, an alternative one more than the sum of its alternatives.
Every recursive call strictly decreases the weight.
-/
namespace Dora.Match

/-! ### the measure -/

mutual
/-- weighted depth: a constructor pattern costs `1 + arity` per level -/
def wdepth : Pat → Nat
  | .any _ => 0
  | .guard => 0
  | .lit _ _ => 1
  | .ctor _ _ ps => 1 + ps.length + wdepthL ps
  | .alt _ ps => wdepthL ps
/-- maximum over a list -/
def wdepthL : List Pat → Nat
  | [] => 0
  | p :: ps => max (wdepth p) (wdepthL ps)
end

/-- maximum weighted depth of all patterns of a matrix -/
def depthM : List (List Pat) → Nat
  | [] => 0
  | r :: rs => max (wdepthL r) (depthM rs)

mutual
/-- weight of a pattern of the row under test in a column whose matrix patterns have `wdepth ≤ d` -/
def wt : Nat → Pat → Nat
  | d, .any _ => 2 ^ d
  | _, .guard => 1
  | _, .lit _ _ => 1
  | d, .ctor _ _ ps => 1 + wtL (d - 1 - ps.length) ps
  | d, .alt _ ps => 1 + wtL d ps
/-- sum over a list, all in columns of the same bound -/
def wtL : Nat → List Pat → Nat
  | _, [] => 0
  | d, p :: ps => wt d p + wtL d ps
end

/-- weight of the row under test against the column bounds -/
def mu : List Nat → List Pat → Nat
  | d :: ds, p :: ps => wt d p + mu ds ps
  | _, _ => 0

/-- fuel bound for `checkUseful env · m q` -/
def usefulBound (m : List (List Pat)) (q : List Pat) : Nat :=
  mu (List.replicate q.length (depthM m)) q

/-- fuel bound for `checkExhaustive env · m n` -/
def exhaustiveBound (m : List (List Pat)) (n : Nat) : Nat :=
  n * 2 ^ depthM m

/-- a row respects the column bounds (positions beyond the shorter list are not constrained) -/
def rowB : List Pat → List Nat → Prop
  | p :: ps, d :: ds => wdepth p ≤ d ∧ rowB ps ds
  | _, _ => True

/-- all rows respect the column bounds -/
def MB (m : List (List Pat)) (ds : List Nat) : Prop := ∀ row ∈ m, rowB row ds

/-! ### no helper ever reports `fuel` -/

theorem panic_ne_fuel {α : Type} (s : String) : (panic s : Except Err α) ≠ .error .fuel := by
  simp [panic]

theorem flatMapE_ne_fuel {α β : Type} {f : α → Except Err (List β)} (hf : ∀ x, f x ≠ .error .fuel) :
    ∀ xs, flatMapE f xs ≠ .error .fuel
  | [] => by simp [flatMapE, pure, Except.pure]
  | x :: xs => by
    have h1 := hf x
    have h2 := flatMapE_ne_fuel hf xs
    simp only [flatMapE]
    cases hx : f x with
    | error e => rw [hx] at h1; simpa using h1
    | ok a =>
      cases hr : flatMapE f xs with
      | error e => rw [hr] at h2; simpa using h2
      | ok b => simp [pure, Except.pure]

theorem anyE_ne_fuel {α : Type} {f : α → Except Err Bool} :
    ∀ xs, (∀ x ∈ xs, f x ≠ .error .fuel) → anyE f xs ≠ .error .fuel
  | [], _ => by simp [anyE, pure, Except.pure]
  | x :: xs, hf => by
    have h1 := hf x List.mem_cons_self
    have h2 := anyE_ne_fuel xs (fun y hy => hf y (List.mem_cons_of_mem _ hy))
    simp only [anyE]
    cases hx : f x with
    | error e => rw [hx] at h1; simpa using h1
    | ok b => cases b <;> simp [h2, pure, Except.pure]

theorem mapE_ne_fuel {α β : Type} {f : α → Except Err β} (hf : ∀ x, f x ≠ .error .fuel) :
    ∀ xs, mapE f xs ≠ .error .fuel
  | [] => by simp [mapE, pure, Except.pure]
  | x :: xs => by
    have h1 := hf x
    have h2 := mapE_ne_fuel hf xs
    simp only [mapE]
    cases hx : f x with
    | error e => rw [hx] at h1; simpa using h1
    | ok a =>
      cases hr : mapE f xs with
      | error e => rw [hr] at h2; simpa using h2
      | ok b => simp [pure, Except.pure]

theorem firstNonEmptyE_ne_fuel {f : Nat → Except Err (List (List Pat))} :
    ∀ ids, (∀ id ∈ ids, f id ≠ .error .fuel) → firstNonEmptyE f ids ≠ .error .fuel
  | [], _ => by simp [firstNonEmptyE, pure, Except.pure]
  | x :: xs, hf => by
    have h1 := hf x List.mem_cons_self
    have h2 := firstNonEmptyE_ne_fuel xs (fun y hy => hf y (List.mem_cons_of_mem _ hy))
    simp only [firstNonEmptyE]
    cases hx : f x with
    | error e => rw [hx] at h1; simpa using h1
    | ok b => cases b <;> simp [h2, pure, Except.pure]

theorem variantId_ne_fuel (c : CtorId) : c.variantId ≠ .error .fuel := by
  cases c <;> simp [CtorId.variantId, panic, pure, Except.pure]

theorem ctorPattern_ne_fuel (c : CtorId) (id : Nat) (ps : List Pat) : c.pattern id ps ≠ .error .fuel := by
  cases c <;> simp only [CtorId.pattern, pure, Except.pure] <;> try simp
  split <;> simp [panic]

mutual
theorem specLitPat_ne_fuel (l : Lit) : ∀ (p : Pat) (row : List Pat), specLitPat l p row ≠ .error .fuel
  | .alt _ ps, row => by simpa [specLitPat] using specLitAlts_ne_fuel l ps row
  | .lit _ v, row => by simp only [specLitPat]; split <;> simp [pure, Except.pure]
  | .any _, row => by simp [specLitPat, pure, Except.pure]
  | .ctor _ _ _, row => by simp [specLitPat, panic]
  | .guard, row => by simp [specLitPat, panic]
theorem specLitAlts_ne_fuel (l : Lit) : ∀ (ps : List Pat) (row : List Pat), specLitAlts l ps row ≠ .error .fuel
  | [], row => by simp [specLitAlts, pure, Except.pure]
  | p :: ps, row => by
    have h1 := specLitPat_ne_fuel l p row
    have h2 := specLitAlts_ne_fuel l ps row
    simp only [specLitAlts]
    cases hx : specLitPat l p row with
    | error e => rw [hx] at h1; simpa using h1
    | ok a =>
      cases hr : specLitAlts l ps row with
      | error e => rw [hr] at h2; simpa using h2
      | ok b => simp [pure, Except.pure]
end

mutual
theorem specCtorPat_ne_fuel (id a : Nat) : ∀ (p : Pat) (row : List Pat), specCtorPat id a p row ≠ .error .fuel
  | .alt _ ps, row => by simpa [specCtorPat] using specCtorAlts_ne_fuel id a ps row
  | .lit _ (.bool v), row => by
    simp only [specCtorPat]; split
    · simp [panic]
    · split <;> simp [pure, Except.pure]
  | .lit _ (.int _), row => by simp [specCtorPat, panic]
  | .lit _ (.char _), row => by simp [specCtorPat, panic]
  | .lit _ (.str _), row => by simp [specCtorPat, panic]
  | .any _, row => by simp [specCtorPat, pure, Except.pure]
  | .ctor _ cid ps, row => by
    have h1 := variantId_ne_fuel cid
    simp only [specCtorPat]
    cases hv : cid.variantId with
    | error e => rw [hv] at h1; simpa using h1
    | ok vid =>
      simp only []
      split
      · split <;> simp [panic, pure, Except.pure]
      · simp [pure, Except.pure]
  | .guard, row => by simp [specCtorPat, panic]
theorem specCtorAlts_ne_fuel (id a : Nat) : ∀ (ps : List Pat) (row : List Pat),
    specCtorAlts id a ps row ≠ .error .fuel
  | [], row => by simp [specCtorAlts, pure, Except.pure]
  | p :: ps, row => by
    have h1 := specCtorPat_ne_fuel id a p row
    have h2 := specCtorAlts_ne_fuel id a ps row
    simp only [specCtorAlts]
    cases hx : specCtorPat id a p row with
    | error e => rw [hx] at h1; simpa using h1
    | ok b =>
      cases hr : specCtorAlts id a ps row with
      | error e => rw [hr] at h2; simpa using h2
      | ok c => simp [pure, Except.pure]
end

theorem specializeRowForAny_ne_fuel (row : List Pat) : specializeRowForAny row ≠ .error .fuel := by
  cases row <;> simp [specializeRowForAny, panic, pure, Except.pure]

theorem specializeRowForLiteral_ne_fuel (l : Lit) (row : List Pat) :
    specializeRowForLiteral l row ≠ .error .fuel := by
  cases row with
  | nil => simp [specializeRowForLiteral, panic]
  | cons p r => simpa [specializeRowForLiteral] using specLitPat_ne_fuel l p r

theorem specializeRowForConstructor_ne_fuel (id a : Nat) (row : List Pat) :
    specializeRowForConstructor id a row ≠ .error .fuel := by
  cases row with
  | nil => simp [specializeRowForConstructor, panic]
  | cons p r => simpa [specializeRowForConstructor] using specCtorPat_ne_fuel id a p r

mutual
theorem discoverPat_ne_fuel : ∀ (p : Pat) (st : SigState), discoverPat p st ≠ .error .fuel
  | .alt _ ps, st => by simpa [discoverPat] using discoverPats_ne_fuel ps st
  | .lit _ (.bool v), (ctors, kind) => by
    simp only [discoverPat]
    split <;> simp [panic, pure, Except.pure]
  | .lit _ (.int _), st => by simp [discoverPat, pure, Except.pure]
  | .lit _ (.char _), st => by simp [discoverPat, pure, Except.pure]
  | .lit _ (.str _), st => by simp [discoverPat, pure, Except.pure]
  | .any _, st => by simp [discoverPat, pure, Except.pure]
  | .guard, st => by simp [discoverPat, pure, Except.pure]
  | .ctor _ cid ps, (ctors, kind) => by
    have h1 := variantId_ne_fuel cid
    simp only [discoverPat]
    cases hv : cid.variantId with
    | error e => rw [hv] at h1; simpa using h1
    | ok vid => simp [pure, Except.pure]
theorem discoverPats_ne_fuel : ∀ (ps : List Pat) (st : SigState), discoverPats ps st ≠ .error .fuel
  | [], st => by simp [discoverPats, pure, Except.pure]
  | p :: ps, st => by
    have h1 := discoverPat_ne_fuel p st
    simp only [discoverPats]
    cases hx : discoverPat p st with
    | error e => rw [hx] at h1; simpa using h1
    | ok st' => simpa using discoverPats_ne_fuel ps st'
end

theorem discoverRows_ne_fuel : ∀ (m : List (List Pat)) (st : SigState), discoverRows m st ≠ .error .fuel
  | [], st => by simp [discoverRows, pure, Except.pure]
  | [] :: _, st => by simp [discoverRows, panic]
  | (p :: _) :: rows, st => by
    have h1 := discoverPat_ne_fuel p st
    simp only [discoverRows]
    cases hx : discoverPat p st with
    | error e => rw [hx] at h1; simpa using h1
    | ok st' => simpa using discoverRows_ne_fuel rows st'

theorem discoverSignature_ne_fuel (m : List (List Pat)) : discoverSignature m ≠ .error .fuel := by
  have h1 := discoverRows_ne_fuel m ([], none)
  simp only [discoverSignature]
  cases hx : discoverRows m ([], none) with
  | error e => rw [hx] at h1; simpa using h1
  | ok st =>
    obtain ⟨ctors, kind⟩ := st
    cases kind with
    | none => simp [pure, Except.pure]
    | some f =>
      simp only []
      split <;> simp [panic, pure, Except.pure]

theorem rebuildWitness_ne_fuel (first : CtorId) (id arity tail : Nat) (row : List Pat) :
    rebuildWitness first id arity tail row ≠ .error .fuel := by
  simp only [rebuildWitness]
  split
  · simp [panic]
  split
  · simp [panic]
  have h1 := ctorPattern_ne_fuel first id (row.take (row.length - tail))
  cases hx : first.pattern id (row.take (row.length - tail)) with
  | error e => rw [hx] at h1; simpa using h1
  | ok p => simp [pure, Except.pure]

theorem missingCtorRows_ne_fuel (first : CtorId) (ctors : CtorMap) (row : List Pat) :
    ∀ (ids : List Nat) (acc : List (List Pat)), missingCtorRows first ctors row ids acc ≠ .error .fuel
  | [], acc => by simp [missingCtorRows, pure, Except.pure]
  | i :: ids, acc => by
    simp only [missingCtorRows]
    split
    · exact missingCtorRows_ne_fuel first ctors row ids acc
    split
    · simp [pure, Except.pure]
    have h1 := ctorPattern_ne_fuel first i []
    cases hx : first.pattern i [] with
    | error e => rw [hx] at h1; simpa using h1
    | ok p => simpa using missingCtorRows_ne_fuel first ctors row ids (acc ++ [p :: row])

/-! ### depth of leaves, bounded rows -/

theorem wdepthL_mem : ∀ {ps : List Pat} {p : Pat}, p ∈ ps → wdepth p ≤ wdepthL ps
  | [], _, h => by simp at h
  | x :: xs, p, h => by
    simp only [wdepthL]
    rcases List.mem_cons.mp h with rfl | h
    · exact Nat.le_max_left _ _
    · exact Nat.le_trans (wdepthL_mem h) (Nat.le_max_right _ _)

mutual
theorem leaves_wdepth : ∀ (p : Pat), ∀ q ∈ leaves p, wdepth q ≤ wdepth p
  | .alt _ ps => by simpa [leaves, wdepth] using leavesL_wdepth ps
  | .any _ => by simp [leaves]
  | .lit _ _ => by simp [leaves]
  | .ctor _ _ _ => by simp [leaves]
  | .guard => by simp [leaves]
theorem leavesL_wdepth : ∀ (ps : List Pat), ∀ q ∈ leavesL ps, wdepth q ≤ wdepthL ps
  | [] => by simp [leavesL]
  | p :: ps => by
    intro q hq
    simp only [leavesL, List.mem_append] at hq
    simp only [wdepthL]
    rcases hq with h | h
    · exact Nat.le_trans (leaves_wdepth p q h) (Nat.le_max_left _ _)
    · exact Nat.le_trans (leavesL_wdepth ps q h) (Nat.le_max_right _ _)
end

theorem rowB_append (e : Nat) (row : List Pat) (ds : List Nat) (hr : rowB row ds) :
    ∀ (ps : List Pat), (∀ p ∈ ps, wdepth p ≤ e) → rowB (ps ++ row) (List.replicate ps.length e ++ ds)
  | [], _ => by simpa using hr
  | p :: ps, h => by
    simp only [List.cons_append, List.length_cons, List.replicate_succ, rowB]
    exact ⟨h p List.mem_cons_self, rowB_append e row ds hr ps (fun x hx => h x (List.mem_cons_of_mem _ hx))⟩

theorem rowB_replicate_any (a e : Nat) (row : List Pat) (ds : List Nat) (hr : rowB row ds) :
    rowB (List.replicate a anyNoSpan ++ row) (List.replicate a e ++ ds) := by
  have := rowB_append e row ds hr (List.replicate a anyNoSpan)
    (by intro p hp; rw [List.eq_of_mem_replicate hp]; simp [anyNoSpan, wdepth])
  simpa using this

theorem rowB_init (D : Nat) : ∀ (row : List Pat) (k : Nat), wdepthL row ≤ D → rowB row (List.replicate k D)
  | [], _, _ => by simp [rowB]
  | p :: ps, 0, _ => by simp [rowB]
  | p :: ps, k + 1, h => by
    simp only [wdepthL] at h
    simp only [List.replicate_succ, rowB]
    exact ⟨Nat.le_trans (Nat.le_max_left _ _) h, rowB_init D ps k (Nat.le_trans (Nat.le_max_right _ _) h)⟩

theorem MB_init : ∀ (m : List (List Pat)) (k : Nat), MB m (List.replicate k (depthM m))
  | [], _ => by intro r hr; simp at hr
  | r :: rs, k => by
    intro row hrow
    simp only [depthM]
    rcases List.mem_cons.mp hrow with rfl | h
    · exact rowB_init _ _ k (Nat.le_max_left _ _)
    · have h1 := MB_init rs k row h
      -- weaken the bound
      have weaken : ∀ (row : List Pat) (k D D' : Nat), D ≤ D' → rowB row (List.replicate k D) →
          rowB row (List.replicate k D') := by
        intro row
        induction row with
        | nil => intro k D D' _ _; simp [rowB]
        | cons p ps ihp =>
          intro k D D' hD hr
          cases k with
          | zero => simp [rowB]
          | succ k =>
            simp only [List.replicate_succ, rowB] at hr ⊢
            exact ⟨Nat.le_trans hr.1 hD, ihp k D D' hD hr.2⟩
      exact weaken row k _ _ (Nat.le_max_right _ _) h1

/-! ### the specialised matrices respect the new bounds -/

mutual
theorem specAnyPat_eq : ∀ (p : Pat) (row : List Pat), ∀ r ∈ specAnyPat p row, r = row
  | .alt _ ps, row => by simpa [specAnyPat] using specAnyAlts_eq' ps row
  | .any _, row => by simp [specAnyPat]
  | .lit _ _, row => by simp [specAnyPat]
  | .ctor _ _ _, row => by simp [specAnyPat]
  | .guard, row => by simp [specAnyPat]
theorem specAnyAlts_eq' : ∀ (ps : List Pat) (row : List Pat), ∀ r ∈ specAnyAlts ps row, r = row
  | [], row => by simp [specAnyAlts]
  | p :: ps, row => by
    intro r hr
    simp only [specAnyAlts, List.mem_append] at hr
    rcases hr with h | h
    · exact specAnyPat_eq p row r h
    · exact specAnyAlts_eq' ps row r h
end

mutual
theorem specLitPat_eq (l : Lit) : ∀ (p : Pat) (row : List Pat) (zs : List (List Pat)),
    specLitPat l p row = .ok zs → ∀ r ∈ zs, r = row
  | .alt _ ps, row, zs, h => specLitAlts_eq' l ps row zs (by simpa [specLitPat] using h)
  | .any _, row, zs, h => by
    simp only [specLitPat, pure, Except.pure, Except.ok.injEq] at h; subst h; simp
  | .lit _ v, row, zs, h => by
    simp only [specLitPat] at h
    split at h <;> simp only [pure, Except.pure, Except.ok.injEq] at h <;> subst h <;> simp
  | .ctor _ _ _, row, zs, h => by simp [specLitPat, panic] at h
  | .guard, row, zs, h => by simp [specLitPat, panic] at h
theorem specLitAlts_eq' (l : Lit) : ∀ (ps : List Pat) (row : List Pat) (zs : List (List Pat)),
    specLitAlts l ps row = .ok zs → ∀ r ∈ zs, r = row
  | [], row, zs, h => by
    simp only [specLitAlts, pure, Except.pure, Except.ok.injEq] at h; subst h; simp
  | p :: ps, row, zs, h => by
    simp only [specLitAlts] at h
    cases hx : specLitPat l p row with
    | error e => simp [hx] at h
    | ok a =>
      cases hr : specLitAlts l ps row with
      | error e => simp [hx, hr] at h
      | ok b =>
        simp only [hx, hr, pure, Except.pure, Except.ok.injEq] at h
        subst h
        intro r hrm
        rcases List.mem_append.mp hrm with h' | h'
        · exact specLitPat_eq l p row a hx r h'
        · exact specLitAlts_eq' l ps row b hr r h'
end

mutual
theorem specCtorPat_rowB (id a d : Nat) (ds : List Nat) : ∀ (p : Pat) (row : List Pat) (zs : List (List Pat)),
    specCtorPat id a p row = .ok zs → wdepth p ≤ d → rowB row ds →
    ∀ r ∈ zs, rowB r (List.replicate a (d - 1 - a) ++ ds)
  | .alt _ ps, row, zs, h, hd, hr =>
    specCtorAlts_rowB id a d ds ps row zs (by simpa [specCtorPat] using h) (by simpa [wdepth] using hd) hr
  | .any _, row, zs, h, _, hr => by
    simp only [specCtorPat, pure, Except.pure, Except.ok.injEq] at h; subst h
    intro r hrm
    simp only [List.mem_singleton] at hrm; subst hrm
    exact rowB_replicate_any a _ row ds hr
  | .lit _ (.bool v), row, zs, h, _, hr => by
    simp only [specCtorPat] at h
    split at h
    · simp [panic] at h
    rename_i ha
    have ha0 : a = 0 := by simpa using ha
    subst ha0
    split at h <;> simp only [pure, Except.pure, Except.ok.injEq] at h <;> subst h
    · intro r hrm
      simp only [List.mem_singleton] at hrm; subst hrm
      simpa using hr
    · simp
  | .lit _ (.int _), row, zs, h, _, _ => by simp [specCtorPat, panic] at h
  | .lit _ (.char _), row, zs, h, _, _ => by simp [specCtorPat, panic] at h
  | .lit _ (.str _), row, zs, h, _, _ => by simp [specCtorPat, panic] at h
  | .guard, row, zs, h, _, _ => by simp [specCtorPat, panic] at h
  | .ctor _ cid ps, row, zs, h, hd, hr => by
    simp only [specCtorPat] at h
    cases hv : cid.variantId with
    | error e => simp [hv] at h
    | ok vid =>
      simp only [hv] at h
      split at h
      · split at h
        · simp [panic] at h
        rename_i ha
        have ha' : a = ps.length := by simpa using ha
        simp only [pure, Except.pure, Except.ok.injEq] at h; subst h
        intro r hrm
        simp only [List.mem_singleton] at hrm; subst hrm
        simp only [wdepth] at hd
        rw [ha']
        apply rowB_append _ row ds hr ps
        intro p hp
        have := wdepthL_mem hp
        omega
      · simp only [pure, Except.pure, Except.ok.injEq] at h; subst h; simp
theorem specCtorAlts_rowB (id a d : Nat) (ds : List Nat) : ∀ (ps : List Pat) (row : List Pat) (zs : List (List Pat)),
    specCtorAlts id a ps row = .ok zs → wdepthL ps ≤ d → rowB row ds →
    ∀ r ∈ zs, rowB r (List.replicate a (d - 1 - a) ++ ds)
  | [], row, zs, h, _, _ => by
    simp only [specCtorAlts, pure, Except.pure, Except.ok.injEq] at h; subst h; simp
  | p :: ps, row, zs, h, hd, hrow => by
    simp only [specCtorAlts] at h
    simp only [wdepthL] at hd
    cases hx : specCtorPat id a p row with
    | error e => simp [hx] at h
    | ok b =>
      cases hr : specCtorAlts id a ps row with
      | error e => simp [hx, hr] at h
      | ok c =>
        simp only [hx, hr, pure, Except.pure, Except.ok.injEq] at h
        subst h
        intro r hrm
        rcases List.mem_append.mp hrm with h' | h'
        · exact specCtorPat_rowB id a d ds p row b hx (Nat.le_trans (Nat.le_max_left _ _) hd) hrow r h'
        · exact specCtorAlts_rowB id a d ds ps row c hr (Nat.le_trans (Nat.le_max_right _ _) hd) hrow r h'
end

theorem MB_default {m m' : List (List Pat)} {d : Nat} {ds : List Nat}
    (h : flatMapE specializeRowForAny m = .ok m') (hb : MB m (d :: ds)) : MB m' ds := by
  intro r hr
  obtain ⟨row, hrow, zs, hz, hrz⟩ := ((flatMapE_ok h).2 r).mp hr
  cases row with
  | nil => simp [specializeRowForAny, panic] at hz
  | cons p rest =>
    simp only [specializeRowForAny, pure, Except.pure, Except.ok.injEq] at hz; subst hz
    rw [specAnyPat_eq p rest r hrz]
    exact (hb _ hrow).2

theorem MB_lit {m m' : List (List Pat)} {l : Lit} {d : Nat} {ds : List Nat}
    (h : flatMapE (specializeRowForLiteral l) m = .ok m') (hb : MB m (d :: ds)) : MB m' ds := by
  intro r hr
  obtain ⟨row, hrow, zs, hz, hrz⟩ := ((flatMapE_ok h).2 r).mp hr
  cases row with
  | nil => simp [specializeRowForLiteral, panic] at hz
  | cons p rest =>
    simp only [specializeRowForLiteral] at hz
    rw [specLitPat_eq l p rest zs hz r hrz]
    exact (hb _ hrow).2

theorem MB_ctor {m m' : List (List Pat)} {id a : Nat} {d : Nat} {ds : List Nat}
    (h : flatMapE (specializeRowForConstructor id a) m = .ok m') (hb : MB m (d :: ds)) :
    MB m' (List.replicate a (d - 1 - a) ++ ds) := by
  intro r hr
  obtain ⟨row, hrow, zs, hz, hrz⟩ := ((flatMapE_ok h).2 r).mp hr
  cases row with
  | nil => simp [specializeRowForConstructor, panic] at hz
  | cons p rest =>
    simp only [specializeRowForConstructor] at hz
    have hrow' := hb _ hrow
    exact specCtorPat_rowB id a d ds p rest zs hz hrow'.1 hrow'.2 r hrz

/-! ### arithmetic of the weight -/

theorem wtL_mem_le (d : Nat) : ∀ {ps : List Pat} {p : Pat}, p ∈ ps → wt d p ≤ wtL d ps
  | [], _, h => by simp at h
  | x :: xs, p, h => by
    simp only [wtL]
    rcases List.mem_cons.mp h with rfl | h
    · omega
    · have := wtL_mem_le d h; omega

theorem mu_append (e : Nat) (ds : List Nat) (q : List Pat) :
    ∀ (ps : List Pat), mu (List.replicate ps.length e ++ ds) (ps ++ q) = wtL e ps + mu ds q
  | [] => by simp [wtL]
  | p :: ps => by
    simp only [List.length_cons, List.replicate_succ, List.cons_append, mu, wtL, mu_append e ds q ps]
    omega

theorem wtL_replicate_any (e : Nat) : ∀ (a : Nat), wtL e (List.replicate a anyNoSpan) = a * 2 ^ e
  | 0 => by simp [wtL]
  | a + 1 => by
    have ih := wtL_replicate_any e a
    simp only [List.replicate_succ, wtL, anyNoSpan, wt, Nat.succ_mul] at ih ⊢
    omega

theorem mu_replicate_any (a e : Nat) (ds : List Nat) (q : List Pat) :
    mu (List.replicate a e ++ ds) (List.replicate a anyNoSpan ++ q) = a * 2 ^ e + mu ds q := by
  have := mu_append e ds q (List.replicate a anyNoSpan)
  simp only [List.length_replicate] at this
  rw [this, wtL_replicate_any]

theorem expand_lt {a d : Nat} (h : a = 0 ∨ 1 + a ≤ d) : a * 2 ^ (d - 1 - a) < 2 ^ d := by
  rcases h with rfl | h
  · simp [Nat.pow_pos]
  · have hd : d = (a + 1) + (d - 1 - a) := by omega
    have h1 : a < 2 ^ (a + 1) :=
      Nat.lt_trans Nat.lt_two_pow_self (Nat.pow_lt_pow_right (by omega) (by omega))
    have h2 : a * 2 ^ (d - 1 - a) < 2 ^ (a + 1) * 2 ^ (d - 1 - a) :=
      Nat.mul_lt_mul_of_pos_right h1 (Nat.pow_pos (by omega))
    rw [← Nat.pow_add] at h2
    rw [← hd] at h2
    exact h2

/-- the arity recorded in a complete signature comes from a leaf of the first column -/
theorem keyOf_wdepth {q : Pat} {id a : Nat} (h : keyOf q = some (id, a)) : a = 0 ∨ 1 + a ≤ wdepth q := by
  cases q with
  | ctor sp cid ps =>
    simp only [keyOf, Option.some.injEq, Prod.mk.injEq] at h
    right; simp only [wdepth]; omega
  | lit sp l =>
    cases l <;> simp only [keyOf, Option.some.injEq, Prod.mk.injEq] at h
    · left; omega
    all_goals cases h
  | any _ => simp [keyOf] at h
  | alt _ _ => simp [keyOf] at h
  | guard => simp [keyOf] at h

theorem sig_arity_bound {m : List (List Pat)} {ctors : CtorMap} {first : CtorId} {id a d : Nat} {ds : List Nat}
    (hs : discoverSignature m = .ok (.complete ctors first)) (hg : ctors.get id = some a)
    (hb : MB m (d :: ds)) : a = 0 ∨ 1 + a ≤ d := by
  rcases discoverSignature_spec hs with ⟨hc, _⟩ | ⟨c, f, hc, inv⟩
  · cases hc
  cases hc
  obtain ⟨q0, hq0, hk⟩ := inv.arity id a hg
  obtain ⟨p, r, hpr, hq0p⟩ := mem_headLeaves.mp hq0
  have hpd : wdepth p ≤ d := (hb _ hpr).1
  have hq0d := leaves_wdepth p q0 hq0p
  rcases keyOf_wdepth hk with h | h
  · exact Or.inl h
  · right; omega

/-! ### `checkUseful` -/

theorem checkUseful_fuel_gen (env : Env) : ∀ (fuel : Nat) (m : List (List Pat)) (q : List Pat) (ds : List Nat),
    ds.length = q.length → MB m ds → mu ds q < fuel → checkUseful env fuel m q ≠ .error .fuel
  | 0, _, _, _, _, _, h => by omega
  | fuel + 1, m, q, ds, hlen, hb, hmu => by
    have ih := checkUseful_fuel_gen env fuel
    simp only [checkUseful]
    split
    · exact panic_ne_fuel _
    split
    · simp [pure, Except.pure]
    cases q with
    | nil => simp [pure, Except.pure]
    | cons p rest =>
      cases ds with
      | nil => simp at hlen
      | cons d ds =>
        have hlen' : ds.length = rest.length := by simpa using hlen
        -- the three places where the default matrix is taken
        have dflt : mu ds rest < fuel →
            (match flatMapE specializeRowForAny m with
              | .error e => (.error e : Except Err Bool)
              | .ok newMatrix => checkUseful env fuel newMatrix rest) ≠ .error .fuel := by
          intro hlt
          cases hf : flatMapE specializeRowForAny m with
          | error e =>
            have := flatMapE_ne_fuel specializeRowForAny_ne_fuel m
            rw [hf] at this; simpa using this
          | ok m' => exact ih m' rest ds hlen' (MB_default hf hb) hlt
        cases p with
        | alt sp alts =>
          simp only []
          apply anyE_ne_fuel
          intro a ha
          apply ih m (a :: rest) (d :: ds) (by simpa using hlen) hb
          simp only [mu, wt] at hmu ⊢
          have := wtL_mem_le d ha
          omega
        | lit sp value =>
          simp only []
          cases hf : flatMapE (specializeRowForLiteral value) m with
          | error e =>
            have := flatMapE_ne_fuel (specializeRowForLiteral_ne_fuel value) m
            rw [hf] at this; simpa using this
          | ok m' =>
            apply ih m' rest ds hlen' (MB_lit hf hb)
            simp only [mu, wt] at hmu
            omega
        | guard =>
          simp only []
          split
          · exact panic_ne_fuel _
          apply dflt
          simp only [mu, wt] at hmu
          omega
        | ctor sp cid params =>
          simp only []
          cases hv : cid.variantId with
          | error e =>
            have := variantId_ne_fuel cid
            rw [hv] at this; simpa using this
          | ok vid =>
            simp only []
            cases hf : flatMapE (specializeRowForConstructor vid params.length) m with
            | error e =>
              have := flatMapE_ne_fuel (specializeRowForConstructor_ne_fuel vid params.length) m
              rw [hf] at this; simpa using this
            | ok m' =>
              apply ih m' (params ++ rest) (List.replicate params.length (d - 1 - params.length) ++ ds)
                (by simp [hlen']) (MB_ctor hf hb)
              rw [mu_append]
              simp only [mu, wt] at hmu
              omega
        | any sp =>
          simp only []
          have hpos : 0 < 2 ^ d := Nat.pow_pos (by omega)
          cases hs : discoverSignature m with
          | error e =>
            have := discoverSignature_ne_fuel m
            rw [hs] at this; simpa using this
          | ok sig =>
            cases sig with
            | incomplete =>
              apply dflt
              simp only [mu, wt] at hmu
              omega
            | complete ctors first =>
              simp only []
              split
              · exact panic_ne_fuel _
              split
              · apply anyE_ne_fuel
                intro id _
                cases hg : ctors.get id with
                | none => exact panic_ne_fuel _
                | some arity =>
                  simp only []
                  cases hf : flatMapE (specializeRowForConstructor id arity) m with
                  | error e =>
                    have := flatMapE_ne_fuel (specializeRowForConstructor_ne_fuel id arity) m
                    rw [hf] at this; simpa using this
                  | ok m' =>
                    apply ih m' _ (List.replicate arity (d - 1 - arity) ++ ds)
                      (by simp [hlen']) (MB_ctor hf hb)
                    rw [mu_replicate_any]
                    simp only [mu, wt] at hmu
                    have := expand_lt (sig_arity_bound hs hg hb)
                    omega
              · apply dflt
                simp only [mu, wt] at hmu
                omega

/-- Enough fuel always exists: above `usefulBound m q` the model of `check_useful` never runs out of fuel. -/
theorem checkUseful_fuel_suffices (env : Env) (m : List (List Pat)) (q : List Pat) :
    ∀ fuel, usefulBound m q < fuel → checkUseful env fuel m q ≠ .error .fuel := by
  intro fuel h
  exact checkUseful_fuel_gen env fuel m q (List.replicate q.length (depthM m)) (by simp) (MB_init m _) h

/-! ### `checkExhaustive` -/

theorem checkExhaustive_fuel_gen (env : Env) : ∀ (fuel : Nat) (m : List (List Pat)) (n : Nat) (ds : List Nat),
    ds.length = n → MB m ds → mu ds (List.replicate n anyNoSpan) < fuel →
    checkExhaustive env fuel m n ≠ .error .fuel
  | 0, _, _, _, _, _, h => by omega
  | fuel + 1, m, n, ds, hlen, hb, hmu => by
    have ih := checkExhaustive_fuel_gen env fuel
    simp only [checkExhaustive]
    split
    · exact panic_ne_fuel _
    split
    · simp [pure, Except.pure]
    split
    · simp [pure, Except.pure]
    rename_i hn0
    cases ds with
    | nil => simp at hlen; subst hlen; simp at hn0
    | cons d ds =>
      have hn1 : n - 1 = ds.length := by simp at hlen; omega
      have hrep : List.replicate n anyNoSpan = anyNoSpan :: List.replicate ds.length anyNoSpan := by
        have : n = ds.length + 1 := by simp at hlen; omega
        rw [this, List.replicate_succ]
      rw [hrep] at hmu
      simp only [mu, anyNoSpan, wt] at hmu
      have hpos : 0 < 2 ^ d := Nat.pow_pos (by omega)
      have dflt : ∀ m', flatMapE specializeRowForAny m = .ok m' →
          checkExhaustive env fuel m' (n - 1) ≠ .error .fuel := by
        intro m' hf
        apply ih m' (n - 1) ds hn1.symm (MB_default hf hb)
        rw [hn1]
        simp only [anyNoSpan]
        omega
      have hfe := flatMapE_ne_fuel specializeRowForAny_ne_fuel m
      cases hs : discoverSignature m with
      | error e =>
        have := discoverSignature_ne_fuel m
        rw [hs] at this; simpa using this
      | ok sig =>
        cases sig with
        | incomplete =>
          simp only []
          cases hf : flatMapE specializeRowForAny m with
          | error e => rw [hf] at hfe; simpa using hfe
          | ok m' =>
            simp only []
            have h1 := dflt m' hf
            cases hr : checkExhaustive env fuel m' (n - 1) with
            | error e => rw [hr] at h1; simpa using h1
            | ok res => simp [pure, Except.pure]
        | complete ctors first =>
          simp only []
          split
          · exact panic_ne_fuel _
          split
          · apply firstNonEmptyE_ne_fuel
            intro id _
            cases hg : ctors.get id with
            | none => exact panic_ne_fuel _
            | some arity =>
              simp only []
              cases hf : flatMapE (specializeRowForConstructor id arity) m with
              | error e =>
                have := flatMapE_ne_fuel (specializeRowForConstructor_ne_fuel id arity) m
                rw [hf] at this; simpa using this
              | ok m' =>
                simp only []
                have hn2 : n + arity - 1 = arity + ds.length := by simp at hlen; omega
                have h1 : checkExhaustive env fuel m' (n + arity - 1) ≠ .error .fuel := by
                  apply ih m' _ (List.replicate arity (d - 1 - arity) ++ ds) (by simp [hn2]) (MB_ctor hf hb)
                  rw [hn2, ← List.replicate_append_replicate, mu_replicate_any]
                  have := expand_lt (sig_arity_bound hs hg hb)
                  simp only [anyNoSpan]
                  omega
                cases hr : checkExhaustive env fuel m' (n + arity - 1) with
                | error e => rw [hr] at h1; simpa using h1
                | ok res => exact mapE_ne_fuel (rebuildWitness_ne_fuel first id arity (n - 1)) res
          · cases hf : flatMapE specializeRowForAny m with
            | error e => rw [hf] at hfe; simpa using hfe
            | ok m' =>
              simp only []
              have h1 := dflt m' hf
              cases hr : checkExhaustive env fuel m' (n - 1) with
              | error e => rw [hr] at h1; simpa using h1
              | ok res =>
                cases res with
                | nil => simp [pure, Except.pure]
                | cons r rs =>
                  cases rs with
                  | nil => exact missingCtorRows_ne_fuel first ctors r _ _
                  | cons r2 rs => simp [pure, Except.pure]

theorem exhaustiveBound_eq (D : Nat) : ∀ (n : Nat),
    mu (List.replicate n D) (List.replicate n anyNoSpan) = n * 2 ^ D
  | 0 => by simp [mu]
  | n + 1 => by
    simp only [List.replicate_succ, mu, exhaustiveBound_eq D n, Nat.succ_mul]
    simp only [anyNoSpan, wt]
    omega

/-- Enough fuel always exists: above `exhaustiveBound m n` the model of `check_exhaustive` never runs out of fuel. -/
theorem checkExhaustive_fuel_suffices (env : Env) (m : List (List Pat)) (n : Nat) :
    ∀ fuel, exhaustiveBound m n < fuel → checkExhaustive env fuel m n ≠ .error .fuel := by
  intro fuel h
  apply checkExhaustive_fuel_gen env fuel m n (List.replicate n (depthM m)) (by simp) (MB_init m _)
  rw [exhaustiveBound_eq]
  exact h

end Dora.Match
