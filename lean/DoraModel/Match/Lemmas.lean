import DoraModel.Match.Model
/-!
Helper lemmas for C11 (Maranget's usefulness argument for the transcribed algorithm).
Everything recursive over the nested `Pat` type is reduced once to statements about `leaves p`
(the non-alternative patterns reachable through `|`), after which only list reasoning is needed.
-/
namespace Dora.Match

/-! ### well-typed patterns -/

/-- field types of constructor `id` of type `t` (`Bool` has the two nullary constructors 0 and 1) -/
def fieldsOf (env : Env) : Ty → Nat → Option (List Ty)
  | .bool, id => if id < 2 then some [] else none
  | .adt d, id => (env d).variants[id]?
  | _, _ => none

/-- number of constructors of a type that has constructors -/
def nCtors (env : Env) : Ty → Nat
  | .bool => 2
  | .adt d => (env d).variants.length
  | _ => 0

/-- the constructor id fits declaration `d` -/
def ctorOk (env : Env) (d : Nat) : CtorId → Bool
  | .bool => false
  | .enum e _ => e == d && (env d).kind == .enum
  | .cls c => c == d && (env d).kind == .cls && (env d).variants.length == 1
  | .struct s => s == d && (env d).kind == .struct && (env d).variants.length == 1
  | .tuple => (env d).kind == .tuple && (env d).variants.length == 1

mutual
def patWT (env : Env) : Pat → Ty → Bool
  | .any _, _ => true
  | .guard, t => t == .guardT
  | .lit _ (.bool _), t => t == .bool
  | .lit _ l, t => litTy l == some t
  | .ctor _ cid ps, .adt d =>
    ctorOk env d cid &&
    (match (env d).variants[cid.vid]? with
     | some tys => patsWT env ps tys
     | none => false)
  | .ctor _ _ _, _ => false
  | .alt _ ps, t => !ps.isEmpty && altsWT env ps t
def patsWT (env : Env) : List Pat → List Ty → Bool
  | [], [] => true
  | p :: ps, t :: ts => patWT env p t && patsWT env ps ts
  | _, _ => false
def altsWT (env : Env) : List Pat → Ty → Bool
  | [], _ => true
  | p :: ps, t => patWT env p t && altsWT env ps t
end

def matrixWT (env : Env) (m : List (List Pat)) (tys : List Ty) : Prop := ∀ r ∈ m, patsWT env r tys = true

/-- every type has a value -/
def Inh (env : Env) : Prop := ∀ t, ∃ v, hasType env v t = true

/-! ### leaves -/

mutual
def leaves : Pat → List Pat
  | .alt _ ps => leavesL ps
  | .any sp => [.any sp]
  | .lit sp l => [.lit sp l]
  | .ctor sp c ps => [.ctor sp c ps]
  | .guard => [.guard]
def leavesL : List Pat → List Pat
  | [] => []
  | p :: ps => leaves p ++ leavesL ps
end

def Pat.isAlt : Pat → Bool
  | .alt _ _ => true
  | _ => false

def Pat.isAny : Pat → Bool
  | .any _ => true
  | _ => false

mutual
theorem leaves_not_alt : ∀ (p : Pat), ∀ q ∈ leaves p, q.isAlt = false
  | .alt _ ps => by simpa [leaves] using leavesL_not_alt ps
  | .any _ => by simp [leaves, Pat.isAlt]
  | .lit _ _ => by simp [leaves, Pat.isAlt]
  | .ctor _ _ _ => by simp [leaves, Pat.isAlt]
  | .guard => by simp [leaves, Pat.isAlt]
theorem leavesL_not_alt : ∀ (ps : List Pat), ∀ q ∈ leavesL ps, q.isAlt = false
  | [] => by simp [leavesL]
  | p :: ps => by
    intro q hq
    simp only [leavesL, List.mem_append] at hq
    rcases hq with h | h
    · exact leaves_not_alt p q h
    · exact leavesL_not_alt ps q h
end

theorem leaves_of_not_alt (p : Pat) (h : p.isAlt = false) : leaves p = [p] := by
  cases p <;> simp_all [leaves, Pat.isAlt]

theorem matchAlts_eq_any (g : Bool) (ps : List Pat) (v : Val) :
    matchAlts g ps v = ps.any (fun p => matchPat g p v) := by
  induction ps with
  | nil => simp [matchAlts]
  | cons p ps ih => simp [matchAlts, ih]

mutual
theorem matchPat_leaves (g : Bool) : ∀ (p : Pat) (v : Val),
    matchPat g p v = (leaves p).any (fun q => matchPat g q v)
  | .alt _ ps, v => by simpa [matchPat, leaves] using matchAlts_leaves g ps v
  | .any _, v => by simp [leaves]
  | .lit _ _, v => by simp [leaves]
  | .ctor _ _ _, v => by simp [leaves]
  | .guard, v => by simp [leaves]
theorem matchAlts_leaves (g : Bool) : ∀ (ps : List Pat) (v : Val),
    matchAlts g ps v = (leavesL ps).any (fun q => matchPat g q v)
  | [], v => by simp [matchAlts, leavesL]
  | p :: ps, v => by
    simp only [matchAlts, leavesL, List.any_append]
    rw [matchPat_leaves g p v, matchAlts_leaves g ps v]
end

mutual
theorem patWT_leaves (env : Env) : ∀ (p : Pat) (t : Ty), patWT env p t = true →
    leaves p ≠ [] ∧ ∀ q ∈ leaves p, patWT env q t = true
  | .alt _ ps, t => by
    intro h
    simp only [patWT, Bool.and_eq_true, Bool.not_eq_true', List.isEmpty_eq_false_iff] at h
    have := altsWT_leaves env ps t h.2
    simp only [leaves]
    refine ⟨?_, this.2⟩
    cases ps with
    | nil => exact absurd rfl h.1
    | cons p ps =>
      simp only [altsWT, Bool.and_eq_true] at h
      have hp := (patWT_leaves env p t h.2.1).1
      simp only [leavesL]
      intro hc
      exact hp (List.append_eq_nil_iff.mp hc).1
  | .any _, t => by intro h; simp [leaves, h]
  | .lit _ _, t => by intro h; simp [leaves, h]
  | .ctor _ _ _, t => by intro h; simp [leaves, h]
  | .guard, t => by intro h; simp [leaves, h]
theorem altsWT_leaves (env : Env) : ∀ (ps : List Pat) (t : Ty), altsWT env ps t = true →
    True ∧ ∀ q ∈ leavesL ps, patWT env q t = true
  | [], t => by simp [leavesL]
  | p :: ps, t => by
    intro h
    simp only [altsWT, Bool.and_eq_true] at h
    refine ⟨trivial, ?_⟩
    intro q hq
    simp only [leavesL, List.mem_append] at hq
    rcases hq with hq | hq
    · exact (patWT_leaves env p t h.1).2 q hq
    · exact (altsWT_leaves env ps t h.2).2 q hq
end

/-! ### the `Except` list helpers -/

theorem flatMapE_ok {α β : Type} {f : α → Except Err (List β)} : ∀ {xs : List α} {ys : List β},
    flatMapE f xs = .ok ys →
    (∀ x ∈ xs, ∃ zs, f x = .ok zs) ∧ ∀ y, y ∈ ys ↔ ∃ x ∈ xs, ∃ zs, f x = .ok zs ∧ y ∈ zs
  | [], ys, h => by
    simp only [flatMapE, pure, Except.pure, Except.ok.injEq] at h
    subst h; simp
  | x :: xs, ys, h => by
    simp only [flatMapE] at h
    cases hf : f x with
    | error e => simp [hf] at h
    | ok a =>
      cases hr : flatMapE f xs with
      | error e => simp [hf, hr] at h
      | ok b =>
        simp only [hf, hr, pure, Except.pure, Except.ok.injEq] at h
        subst h
        have ih := flatMapE_ok hr
        constructor
        · intro x' hx'
          rcases List.mem_cons.mp hx' with rfl | hx'
          · exact ⟨a, hf⟩
          · exact ih.1 x' hx'
        · intro y
          simp only [List.mem_append, List.mem_cons]
          constructor
          · rintro (hy | hy)
            · exact ⟨x, Or.inl rfl, a, hf, hy⟩
            · obtain ⟨x', hx', zs, hz, hy⟩ := (ih.2 y).mp hy
              exact ⟨x', Or.inr hx', zs, hz, hy⟩
          · rintro ⟨x', hx' | hx', zs, hz, hy⟩
            · subst hx'; rw [hf] at hz; cases hz; exact Or.inl hy
            · exact Or.inr ((ih.2 y).mpr ⟨x', hx', zs, hz, hy⟩)

theorem flatMapE_append {α β : Type} (f : α → Except Err (List β)) : ∀ (xs ys : List α),
    flatMapE f (xs ++ ys) =
      match flatMapE f xs with
      | .error e => .error e
      | .ok a => match flatMapE f ys with
        | .error e => .error e
        | .ok b => pure (a ++ b)
  | [], ys => by
    simp only [List.nil_append, flatMapE, pure, Except.pure]
    cases flatMapE f ys <;> simp
  | x :: xs, ys => by
    simp only [List.cons_append, flatMapE]
    rw [flatMapE_append f xs ys]
    cases f x with
    | error e => rfl
    | ok a =>
      cases flatMapE f xs with
      | error e => rfl
      | ok b =>
        cases flatMapE f ys with
        | error e => rfl
        | ok c => simp [pure, Except.pure, List.append_assoc]

theorem flatMapE_singleton {α β : Type} (f : α → Except Err (List β)) (x : α) : flatMapE f [x] = f x := by
  simp only [flatMapE, pure, Except.pure]
  cases f x <;> simp

theorem anyE_true {α : Type} {f : α → Except Err Bool} : ∀ {xs : List α},
    anyE f xs = .ok true → ∃ x ∈ xs, f x = .ok true
  | [], h => by simp [anyE, pure, Except.pure] at h
  | x :: xs, h => by
    simp only [anyE] at h
    cases hf : f x with
    | error e => simp [hf] at h
    | ok b =>
      cases b with
      | true => exact ⟨x, List.mem_cons_self, hf⟩
      | false =>
        simp only [hf] at h
        obtain ⟨y, hy, hfy⟩ := anyE_true h
        exact ⟨y, List.mem_cons_of_mem _ hy, hfy⟩

theorem anyE_false {α : Type} {f : α → Except Err Bool} : ∀ {xs : List α},
    anyE f xs = .ok false → ∀ x ∈ xs, f x = .ok false
  | [], _ => by simp
  | x :: xs, h => by
    simp only [anyE] at h
    cases hf : f x with
    | error e => simp [hf] at h
    | ok b =>
      cases b with
      | true => simp [hf, pure, Except.pure] at h
      | false =>
        simp only [hf] at h
        intro y hy
        rcases List.mem_cons.mp hy with rfl | hy
        · exact hf
        · exact anyE_false h y hy

theorem mapE_ok {α β : Type} {f : α → Except Err β} : ∀ {xs : List α} {ys : List β},
    mapE f xs = .ok ys →
    (∀ y ∈ ys, ∃ x ∈ xs, f x = .ok y) ∧ (∀ x ∈ xs, ∃ y ∈ ys, f x = .ok y)
  | [], ys, h => by
    simp only [mapE, pure, Except.pure, Except.ok.injEq] at h
    subst h; simp
  | x :: xs, ys, h => by
    simp only [mapE] at h
    cases hf : f x with
    | error e => simp [hf] at h
    | ok a =>
      cases hr : mapE f xs with
      | error e => simp [hf, hr] at h
      | ok b =>
        simp only [hf, hr, pure, Except.pure, Except.ok.injEq] at h
        subst h
        have ih := mapE_ok hr
        constructor
        · intro y hy
          rcases List.mem_cons.mp hy with rfl | hy
          · exact ⟨x, List.mem_cons_self, hf⟩
          · obtain ⟨x', hx', h'⟩ := ih.1 y hy
            exact ⟨x', List.mem_cons_of_mem _ hx', h'⟩
        · intro x' hx'
          rcases List.mem_cons.mp hx' with rfl | hx'
          · exact ⟨a, List.mem_cons_self, hf⟩
          · obtain ⟨y, hy, h'⟩ := ih.2 x' hx'
            exact ⟨y, List.mem_cons_of_mem _ hy, h'⟩

/-! ### specialisation through leaves -/

theorem specAnyAlts_eq (ps : List Pat) (row : List Pat) :
    specAnyAlts ps row = ps.flatMap (fun p => specAnyPat p row) := by
  induction ps with
  | nil => simp [specAnyAlts]
  | cons p ps ih => simp [specAnyAlts, ih]

mutual
theorem specAnyPat_leaves : ∀ (p : Pat) (row : List Pat),
    specAnyPat p row = (leaves p).flatMap (fun q => specAnyPat q row)
  | .alt _ ps, row => by simpa [specAnyPat, leaves] using specAnyAlts_leaves ps row
  | .any _, row => by simp [leaves]
  | .lit _ _, row => by simp [leaves]
  | .ctor _ _ _, row => by simp [leaves]
  | .guard, row => by simp [leaves]
theorem specAnyAlts_leaves : ∀ (ps : List Pat) (row : List Pat),
    specAnyAlts ps row = (leavesL ps).flatMap (fun q => specAnyPat q row)
  | [], row => by simp [specAnyAlts, leavesL]
  | p :: ps, row => by
    simp only [specAnyAlts, leavesL, List.flatMap_append]
    rw [specAnyPat_leaves p row, specAnyAlts_leaves ps row]
end

theorem specLitAlts_eq (l : Lit) (ps : List Pat) (row : List Pat) :
    specLitAlts l ps row = flatMapE (fun p => specLitPat l p row) ps := by
  induction ps with
  | nil => simp [specLitAlts, flatMapE]
  | cons p ps ih =>
    simp only [specLitAlts, flatMapE, ih]
    cases specLitPat l p row with
    | error e => rfl
    | ok a => cases flatMapE (fun p => specLitPat l p row) ps <;> rfl

mutual
theorem specLitPat_leaves (l : Lit) : ∀ (p : Pat) (row : List Pat),
    specLitPat l p row = flatMapE (fun q => specLitPat l q row) (leaves p)
  | .alt _ ps, row => by simpa [specLitPat, leaves] using specLitAlts_leaves l ps row
  | .any _, row => by simp [leaves, flatMapE_singleton]
  | .lit _ _, row => by simp [leaves, flatMapE_singleton]
  | .ctor _ _ _, row => by simp [leaves, flatMapE_singleton]
  | .guard, row => by simp [leaves, flatMapE_singleton]
theorem specLitAlts_leaves (l : Lit) : ∀ (ps : List Pat) (row : List Pat),
    specLitAlts l ps row = flatMapE (fun q => specLitPat l q row) (leavesL ps)
  | [], row => by simp [specLitAlts, leavesL, flatMapE]
  | p :: ps, row => by
    simp only [specLitAlts, leavesL]
    rw [flatMapE_append, ← specLitPat_leaves l p row, ← specLitAlts_leaves l ps row]
    cases specLitPat l p row with
    | error e => rfl
    | ok a => cases specLitAlts l ps row <;> rfl
end

mutual
theorem specCtorPat_leaves (id a : Nat) : ∀ (p : Pat) (row : List Pat),
    specCtorPat id a p row = flatMapE (fun q => specCtorPat id a q row) (leaves p)
  | .alt _ ps, row => by simpa [specCtorPat, leaves] using specCtorAlts_leaves id a ps row
  | .any _, row => by simp [leaves, flatMapE_singleton]
  | .lit _ _, row => by simp [leaves, flatMapE_singleton]
  | .ctor _ _ _, row => by simp [leaves, flatMapE_singleton]
  | .guard, row => by simp [leaves, flatMapE_singleton]
theorem specCtorAlts_leaves (id a : Nat) : ∀ (ps : List Pat) (row : List Pat),
    specCtorAlts id a ps row = flatMapE (fun q => specCtorPat id a q row) (leavesL ps)
  | [], row => by simp [specCtorAlts, leavesL, flatMapE]
  | p :: ps, row => by
    simp only [specCtorAlts, leavesL]
    rw [flatMapE_append, ← specCtorPat_leaves id a p row, ← specCtorAlts_leaves id a ps row]
    cases specCtorPat id a p row with
    | error e => rfl
    | ok b => cases specCtorAlts id a ps row <;> rfl
end

/-! ### values, matching of vectors -/

def litVal : Lit → Val
  | .bool b => .ctor b.toNat []
  | .int i => .lit (.int i)
  | .char c => .lit (.char c)
  | .str s => .lit (.str s)

theorem litMatches_iff (l : Lit) (v : Val) : litMatches l v = true ↔ v = litVal l := by
  cases l <;> cases v <;> simp [litMatches, litVal]
  case bool.ctor b id args => cases args <;> simp
  all_goals exact eq_comm

theorem matchPats_length (g : Bool) : ∀ (ps : List Pat) (vs : List Val),
    matchPats g ps vs = true → ps.length = vs.length
  | [], [], _ => rfl
  | [], _ :: _, h => by simp [matchPats] at h
  | _ :: _, [], h => by simp [matchPats] at h
  | p :: ps, v :: vs, h => by
    simp only [matchPats, Bool.and_eq_true] at h
    simp [matchPats_length g ps vs h.2]

theorem matchPats_append (g : Bool) : ∀ (ps : List Pat) (vs : List Val) (qs : List Pat) (ws : List Val),
    ps.length = vs.length →
    matchPats g (ps ++ qs) (vs ++ ws) = (matchPats g ps vs && matchPats g qs ws)
  | [], [], qs, ws, _ => by simp [matchPats]
  | [], _ :: _, _, _, h => by simp at h
  | _ :: _, [], _, _, h => by simp at h
  | p :: ps, v :: vs, qs, ws, h => by
    simp only [List.cons_append, matchPats]
    rw [matchPats_append g ps vs qs ws (by simpa using h), Bool.and_assoc]

theorem matchPats_replicate_any (g : Bool) : ∀ (vs : List Val),
    matchPats g (List.replicate vs.length anyNoSpan) vs = true
  | [] => by simp [matchPats]
  | v :: vs => by
    simp only [List.length_cons, List.replicate_succ, matchPats, anyNoSpan, matchPat, Bool.true_and]
    exact matchPats_replicate_any g vs

theorem hasTypes_length (env : Env) : ∀ (vs : List Val) (ts : List Ty),
    hasTypes env vs ts = true → vs.length = ts.length
  | [], [], _ => rfl
  | [], _ :: _, h => by simp [hasTypes] at h
  | _ :: _, [], h => by simp [hasTypes] at h
  | v :: vs, t :: ts, h => by
    simp only [hasTypes, Bool.and_eq_true] at h
    simp [hasTypes_length env vs ts h.2]

theorem hasTypes_append (env : Env) : ∀ (as : List Val) (tys : List Ty) (bs : List Val) (ts : List Ty),
    hasTypes env as tys = true → hasTypes env bs ts = true → hasTypes env (as ++ bs) (tys ++ ts) = true
  | [], [], bs, ts, _, h => by simpa using h
  | [], _ :: _, _, _, h, _ => by simp [hasTypes] at h
  | _ :: _, [], _, _, h, _ => by simp [hasTypes] at h
  | a :: as, t :: tys, bs, ts, h, h2 => by
    simp only [hasTypes, Bool.and_eq_true] at h
    simp only [List.cons_append, hasTypes, Bool.and_eq_true]
    exact ⟨h.1, hasTypes_append env as tys bs ts h.2 h2⟩

theorem hasTypes_split (env : Env) : ∀ (tys : List Ty) (ws : List Val) (ts : List Ty),
    hasTypes env ws (tys ++ ts) = true →
    ∃ as bs, ws = as ++ bs ∧ hasTypes env as tys = true ∧ hasTypes env bs ts = true
  | [], ws, ts, h => ⟨[], ws, rfl, by simp [hasTypes], by simpa using h⟩
  | t :: tys, [], ts, h => by simp [hasTypes] at h
  | t :: tys, w :: ws, ts, h => by
    simp only [List.cons_append, hasTypes, Bool.and_eq_true] at h
    obtain ⟨as, bs, rfl, ha, hb⟩ := hasTypes_split env tys ws ts h.2
    exact ⟨w :: as, bs, rfl, by simp [hasTypes, h.1, ha], hb⟩

theorem hasType_ctor_iff (env : Env) (id : Nat) (args : List Val) (t : Ty) :
    hasType env (.ctor id args) t = true ↔
      ∃ tys, fieldsOf env t id = some tys ∧ hasTypes env args tys = true := by
  cases t with
  | bool =>
    simp only [hasType, fieldsOf, Bool.and_eq_true, decide_eq_true_eq, List.isEmpty_iff]
    constructor
    · rintro ⟨h1, rfl⟩; exact ⟨[], by simp [h1], by simp [hasTypes]⟩
    · rintro ⟨tys, h1, h2⟩
      by_cases h : id < 2
      · simp only [h, ↓reduceIte, Option.some.injEq] at h1
        subst h1
        cases args with
        | nil => exact ⟨h, rfl⟩
        | cons a as => simp [hasTypes] at h2
      · simp [h] at h1
  | adt d =>
    simp only [hasType, fieldsOf]
    cases (env d).variants[id]? with
    | none => simp
    | some tys => simp
  | int => simp [hasType, fieldsOf]
  | char => simp [hasType, fieldsOf]
  | str => simp [hasType, fieldsOf]
  | guardT => simp [hasType, fieldsOf]

/-- a value of a type that has constructors is a constructor application -/
theorem val_of_ctor_type (env : Env) (v : Val) (t : Ty) (h : hasType env v t = true)
    (ht : t = .bool ∨ ∃ d, t = .adt d) : ∃ id args, v = .ctor id args := by
  cases v with
  | ctor id args => exact ⟨id, args, rfl⟩
  | lit l =>
    rcases ht with rfl | ⟨d, rfl⟩ <;> cases l <;> simp [hasType, litTy] at h
  | guardV =>
    rcases ht with rfl | ⟨d, rfl⟩ <;> simp [hasType] at h

theorem variantId_ok {cid : CtorId} {vid : Nat} (h : cid.variantId = .ok vid) : vid = cid.vid ∧ cid ≠ .bool := by
  cases cid <;> simp_all [CtorId.variantId, CtorId.vid, panic, pure, Except.pure]
  all_goals exact h.symm

/-! ### what specialisation means, per leaf -/

theorem specAny_mem (p : Pat) (row r' : List Pat) :
    r' ∈ specAnyPat p row ↔ r' = row ∧ ∃ q ∈ leaves p, q.isAny = true := by
  rw [specAnyPat_leaves]
  simp only [List.mem_flatMap]
  constructor
  · rintro ⟨q, hq, hr⟩
    cases q <;> simp_all [specAnyPat, Pat.isAny]
    · exact ⟨_, hq, rfl⟩
    · have := leaves_not_alt p _ hq; simp [Pat.isAlt] at this
  · rintro ⟨rfl, q, hq, hany⟩
    refine ⟨q, hq, ?_⟩
    cases q <;> simp_all [specAnyPat, Pat.isAny]

theorem specLit_mem (l : Lit) (p : Pat) (row : List Pat) (rs : List (List Pat))
    (h : specLitPat l p row = .ok rs) (r' : List Pat) :
    r' ∈ rs ↔ r' = row ∧ ∃ q ∈ leaves p, matchPat false q (litVal l) = true := by
  rw [specLitPat_leaves] at h
  have hh := flatMapE_ok h
  rw [hh.2]
  constructor
  · rintro ⟨q, hq, zs, hz, hr⟩
    have hna := leaves_not_alt p q hq
    cases q with
    | alt _ _ => simp [Pat.isAlt] at hna
    | any _ =>
      simp only [specLitPat, pure, Except.pure, Except.ok.injEq] at hz
      subst hz
      exact ⟨by simpa using hr, _, hq, by simp [matchPat]⟩
    | lit sp l' =>
      simp only [specLitPat, pure, Except.pure] at hz
      by_cases hl : l' = l
      · simp only [hl, ↓reduceIte, Except.ok.injEq] at hz
        subst hz
        refine ⟨by simpa using hr, _, hq, ?_⟩
        simp only [matchPat, litMatches_iff, hl]
      · simp only [hl, ↓reduceIte, Except.ok.injEq] at hz
        subst hz; simp at hr
    | ctor _ _ _ => simp [specLitPat, panic] at hz
    | guard => simp [specLitPat, panic] at hz
  · rintro ⟨rfl, q, hq, hm⟩
    obtain ⟨zs, hz⟩ := hh.1 q hq
    refine ⟨q, hq, zs, hz, ?_⟩
    cases q with
    | alt _ _ => have := leaves_not_alt p _ hq; simp [Pat.isAlt] at this
    | any _ =>
      simp only [specLitPat, pure, Except.pure, Except.ok.injEq] at hz
      subst hz; simp
    | lit sp l' =>
      simp only [matchPat, litMatches_iff] at hm
      have hl : l' = l := by
        cases l <;> cases l' <;> simp_all [litVal]
        rename_i a b; cases a <;> cases b <;> simp_all
      simp only [specLitPat, hl, ↓reduceIte, pure, Except.pure, Except.ok.injEq] at hz
      subst hz; simp
    | ctor _ _ _ => simp [specLitPat, panic] at hz
    | guard => simp [matchPat] at hm

theorem specCtor_mem (id : Nat) (args : List Val) (p : Pat) (row : List Pat) (rs : List (List Pat))
    (h : specCtorPat id args.length p row = .ok rs) (vs : List Val) :
    (∃ r' ∈ rs, matchPats false r' (args ++ vs) = true) ↔
      (matchPat false p (.ctor id args) = true ∧ matchPats false row vs = true) := by
  rw [specCtorPat_leaves] at h
  have hh := flatMapE_ok h
  rw [matchPat_leaves]
  simp only [List.any_eq_true]
  constructor
  · rintro ⟨r', hr', hm⟩
    obtain ⟨q, hq, zs, hz, hrz⟩ := (hh.2 r').mp hr'
    have hna := leaves_not_alt p q hq
    cases q with
    | alt _ _ => simp [Pat.isAlt] at hna
    | any _ =>
      simp only [specCtorPat, pure, Except.pure, Except.ok.injEq] at hz
      subst hz
      simp only [List.mem_singleton] at hrz
      subst hrz
      rw [matchPats_append _ _ _ _ _ (by simp), matchPats_replicate_any] at hm
      exact ⟨⟨_, hq, by simp [matchPat]⟩, by simpa using hm⟩
    | lit sp l =>
      cases l with
      | bool b =>
        simp only [specCtorPat, pure, Except.pure] at hz
        by_cases ha : args.length = 0
        · have hargs : args = [] := List.eq_nil_of_length_eq_zero ha
          subst hargs
          by_cases hid : id = b.toNat
          · simp [hid] at hz
            subst hz
            simp only [List.mem_singleton] at hrz
            subst hrz
            exact ⟨⟨_, hq, by simp [matchPat, litMatches, hid]⟩, by simpa using hm⟩
          · simp [hid] at hz
            subst hz; simp at hrz
        · simp [ha, panic] at hz
      | int _ => simp [specCtorPat, panic] at hz
      | char _ => simp [specCtorPat, panic] at hz
      | str _ => simp [specCtorPat, panic] at hz
    | ctor sp cid ps =>
      simp only [specCtorPat] at hz
      cases hv : cid.variantId with
      | error e => simp [hv] at hz
      | ok vid =>
        have hvid := (variantId_ok hv).1
        simp only [hv] at hz
        by_cases hid : id = vid
        · by_cases hl : args.length = ps.length
          · simp [hid, hl, pure, Except.pure] at hz
            subst hz
            simp only [List.mem_singleton] at hrz
            subst hrz
            rw [matchPats_append _ _ _ _ _ hl.symm] at hm
            simp only [Bool.and_eq_true] at hm
            exact ⟨⟨_, hq, by simp [matchPat, ← hvid, ← hid, hm.1]⟩, hm.2⟩
          · simp [hid, hl, panic] at hz
        · simp [hid, pure, Except.pure] at hz
          subst hz; simp at hrz
    | guard => simp [specCtorPat, panic] at hz
  · rintro ⟨⟨q, hq, hm⟩, hrow⟩
    obtain ⟨zs, hz⟩ := hh.1 q hq
    have hna := leaves_not_alt p q hq
    cases q with
    | alt _ _ => simp [Pat.isAlt] at hna
    | any _ =>
      simp only [specCtorPat, pure, Except.pure, Except.ok.injEq] at hz
      refine ⟨_, (hh.2 _).mpr ⟨_, hq, zs, by simp [specCtorPat, pure, Except.pure, hz], by rw [← hz]; exact List.mem_singleton_self _⟩, ?_⟩
      rw [matchPats_append _ _ _ _ _ (by simp), matchPats_replicate_any]
      simpa using hrow
    | lit sp l =>
      cases l with
      | bool b =>
        simp only [matchPat, litMatches_iff, litVal, Val.ctor.injEq] at hm
        obtain ⟨hid, hargs⟩ := hm
        subst hargs
        simp only [specCtorPat, List.length_nil, bne_self_eq_false, Bool.false_eq_true, ↓reduceIte, hid,
          beq_self_eq_true, pure, Except.pure, Except.ok.injEq] at hz
        refine ⟨row, (hh.2 _).mpr ⟨_, hq, zs, by simp [specCtorPat, pure, Except.pure, hid, hz], by rw [← hz]; exact List.mem_singleton_self _⟩, ?_⟩
        simpa using hrow
      | int _ => simp [specCtorPat, panic] at hz
      | char _ => simp [specCtorPat, panic] at hz
      | str _ => simp [specCtorPat, panic] at hz
    | ctor sp cid ps =>
      simp only [matchPat, Bool.and_eq_true, beq_iff_eq] at hm
      have hz' := hz
      simp only [specCtorPat] at hz
      cases hv : cid.variantId with
      | error e => simp [hv] at hz
      | ok vid =>
        have hvid := (variantId_ok hv).1
        have hid : id = vid := by rw [hvid]; exact hm.1.symm
        have hl : ps.length = args.length := matchPats_length _ _ _ hm.2
        simp [hv, hid, hl, pure, Except.pure] at hz
        refine ⟨ps ++ row, (hh.2 _).mpr ⟨_, hq, zs, hz', by rw [← hz]; exact List.mem_singleton_self _⟩, ?_⟩
        rw [matchPats_append _ _ _ _ _ hl]
        simp [hm.2, hrow]
    | guard => simp [matchPat] at hm

/-! ### matrices: uncovered value vectors under specialisation -/

/-- no row of the matrix matches the vector (guarded rows never match: `g = false`) -/
def Uncov (m : List (List Pat)) (vs : List Val) : Prop := ∀ r ∈ m, matchPats false r vs = false

theorem bool_not_true {b : Bool} (h : b = true → False) : b = false := by cases b <;> simp_all

theorem uncov_ctor {m m' : List (List Pat)} {id : Nat} {args : List Val}
    (h : flatMapE (specializeRowForConstructor id args.length) m = .ok m') (vs : List Val) :
    Uncov m (.ctor id args :: vs) ↔ Uncov m' (args ++ vs) := by
  have hh := flatMapE_ok h
  constructor
  · intro hu r' hr'
    obtain ⟨row, hrow, zs, hz, hrz⟩ := (hh.2 r').mp hr'
    cases row with
    | nil => simp [specializeRowForConstructor, panic] at hz
    | cons p rest =>
      apply bool_not_true
      intro hm
      have := (specCtor_mem id args p rest zs hz vs).mp ⟨r', hrz, hm⟩
      have hu' := hu _ hrow
      simp [matchPats, this.1, this.2] at hu'
  · intro hu row hrow
    cases row with
    | nil => simp [matchPats]
    | cons p rest =>
      obtain ⟨zs, hz⟩ := hh.1 _ hrow
      apply bool_not_true
      intro hm
      simp only [matchPats, Bool.and_eq_true] at hm
      obtain ⟨r', hr', hm'⟩ := (specCtor_mem id args p rest zs hz vs).mpr hm
      have := hu r' ((hh.2 r').mpr ⟨_, hrow, zs, hz, hr'⟩)
      simp [hm'] at this

theorem uncov_lit {m m' : List (List Pat)} {l : Lit}
    (h : flatMapE (specializeRowForLiteral l) m = .ok m') (vs : List Val) :
    Uncov m (litVal l :: vs) ↔ Uncov m' vs := by
  have hh := flatMapE_ok h
  constructor
  · intro hu r' hr'
    obtain ⟨row, hrow, zs, hz, hrz⟩ := (hh.2 r').mp hr'
    cases row with
    | nil => simp [specializeRowForLiteral, panic] at hz
    | cons p rest =>
      obtain ⟨rfl, q, hq, hm⟩ := (specLit_mem l p rest zs hz r').mp hrz
      apply bool_not_true
      intro hm'
      have hu' := hu _ hrow
      have hp : matchPat false p (litVal l) = true := by
        rw [matchPat_leaves]; exact List.any_eq_true.mpr ⟨q, hq, hm⟩
      simp [matchPats, hp, hm'] at hu'
  · intro hu row hrow
    cases row with
    | nil => simp [matchPats]
    | cons p rest =>
      obtain ⟨zs, hz⟩ := hh.1 _ hrow
      apply bool_not_true
      intro hm
      simp only [matchPats, Bool.and_eq_true] at hm
      rw [matchPat_leaves] at hm
      obtain ⟨q, hq, hmq⟩ := List.any_eq_true.mp hm.1
      have hr' : rest ∈ zs := (specLit_mem l p rest zs hz rest).mpr ⟨rfl, q, hq, hmq⟩
      have := hu rest ((hh.2 rest).mpr ⟨_, hrow, zs, hz, hr'⟩)
      simp [hm.2] at this

theorem uncov_default_fwd {m m' : List (List Pat)} (h : flatMapE specializeRowForAny m = .ok m')
    (v : Val) (vs : List Val) (hu : Uncov m (v :: vs)) : Uncov m' vs := by
  have hh := flatMapE_ok h
  intro r' hr'
  obtain ⟨row, hrow, zs, hz, hrz⟩ := (hh.2 r').mp hr'
  cases row with
  | nil => simp [specializeRowForAny, panic] at hz
  | cons p rest =>
    simp only [specializeRowForAny, pure, Except.pure, Except.ok.injEq] at hz
    subst hz
    obtain ⟨rfl, q, hq, hany⟩ := (specAny_mem p rest r').mp hrz
    apply bool_not_true
    intro hm
    have hu' := hu _ hrow
    have hp : matchPat false p v = true := by
      rw [matchPat_leaves]
      refine List.any_eq_true.mpr ⟨q, hq, ?_⟩
      cases q <;> simp_all [Pat.isAny, matchPat]
    simp [matchPats, hp, hm] at hu'

theorem uncov_default_bwd {m m' : List (List Pat)} (h : flatMapE specializeRowForAny m = .ok m')
    (v : Val) (vs : List Val)
    (hfresh : ∀ p rest, (p :: rest) ∈ m → ∀ q ∈ leaves p, q.isAny = false → matchPat false q v = false)
    (hu : Uncov m' vs) : Uncov m (v :: vs) := by
  have hh := flatMapE_ok h
  intro row hrow
  cases row with
  | nil => simp [matchPats]
  | cons p rest =>
    apply bool_not_true
    intro hm
    simp only [matchPats, Bool.and_eq_true] at hm
    rw [matchPat_leaves] at hm
    obtain ⟨q, hq, hmq⟩ := List.any_eq_true.mp hm.1
    have hany : q.isAny = true := by
      cases hqa : q.isAny with
      | true => rfl
      | false => rw [hfresh p rest hrow q hq hqa] at hmq; simp at hmq
    have hr' : rest ∈ specAnyPat p rest := (specAny_mem p rest rest).mpr ⟨rfl, q, hq, hany⟩
    have := hu rest ((hh.2 rest).mpr ⟨_, hrow, _, rfl, hr'⟩)
    simp [hm.2] at this

/-! ### well-typedness is preserved -/

theorem patsWT_length (env : Env) : ∀ (ps : List Pat) (ts : List Ty), patsWT env ps ts = true → ps.length = ts.length
  | [], [], _ => rfl
  | [], _ :: _, h => by simp [patsWT] at h
  | _ :: _, [], h => by simp [patsWT] at h
  | p :: ps, t :: ts, h => by
    simp only [patsWT, Bool.and_eq_true] at h
    simp [patsWT_length env ps ts h.2]

theorem patsWT_append (env : Env) : ∀ (ps : List Pat) (tys : List Ty) (qs : List Pat) (ts : List Ty),
    patsWT env ps tys = true → patsWT env qs ts = true → patsWT env (ps ++ qs) (tys ++ ts) = true
  | [], [], qs, ts, _, h => by simpa using h
  | [], _ :: _, _, _, h, _ => by simp [patsWT] at h
  | _ :: _, [], _, _, h, _ => by simp [patsWT] at h
  | p :: ps, t :: tys, qs, ts, h, h2 => by
    simp only [patsWT, Bool.and_eq_true] at h
    simp only [List.cons_append, patsWT, Bool.and_eq_true]
    exact ⟨h.1, patsWT_append env ps tys qs ts h.2 h2⟩

theorem patsWT_replicate_any (env : Env) : ∀ (tys : List Ty),
    patsWT env (List.replicate tys.length anyNoSpan) tys = true
  | [] => by simp [patsWT]
  | t :: tys => by
    simp only [List.length_cons, List.replicate_succ, patsWT, anyNoSpan, patWT, Bool.true_and]
    exact patsWT_replicate_any env tys

theorem patsWT_split (env : Env) : ∀ (tys : List Ty) (ws : List Pat) (ts : List Ty),
    patsWT env ws (tys ++ ts) = true →
    patsWT env (ws.take tys.length) tys = true ∧ patsWT env (ws.drop tys.length) ts = true
  | [], ws, ts, h => by simpa [patsWT] using h
  | t :: tys, [], ts, h => by simp [patsWT] at h
  | t :: tys, w :: ws, ts, h => by
    simp only [List.cons_append, patsWT, Bool.and_eq_true] at h
    have := patsWT_split env tys ws ts h.2
    simp [patsWT, h.1, this.1, this.2]

theorem wt_default {env : Env} {m m' : List (List Pat)} {t : Ty} {ts : List Ty}
    (hwt : matrixWT env m (t :: ts)) (h : flatMapE specializeRowForAny m = .ok m') : matrixWT env m' ts := by
  have hh := flatMapE_ok h
  intro r' hr'
  obtain ⟨row, hrow, zs, hz, hrz⟩ := (hh.2 r').mp hr'
  cases row with
  | nil => simp [specializeRowForAny, panic] at hz
  | cons p rest =>
    simp only [specializeRowForAny, pure, Except.pure, Except.ok.injEq] at hz
    subst hz
    obtain ⟨rfl, _⟩ := (specAny_mem p rest r').mp hrz
    have := hwt _ hrow
    simp only [patsWT, Bool.and_eq_true] at this
    exact this.2

theorem wt_lit {env : Env} {m m' : List (List Pat)} {t : Ty} {ts : List Ty} {l : Lit}
    (hwt : matrixWT env m (t :: ts)) (h : flatMapE (specializeRowForLiteral l) m = .ok m') :
    matrixWT env m' ts := by
  have hh := flatMapE_ok h
  intro r' hr'
  obtain ⟨row, hrow, zs, hz, hrz⟩ := (hh.2 r').mp hr'
  cases row with
  | nil => simp [specializeRowForLiteral, panic] at hz
  | cons p rest =>
    obtain ⟨rfl, _⟩ := (specLit_mem l p rest zs hz r').mp hrz
    have := hwt _ hrow
    simp only [patsWT, Bool.and_eq_true] at this
    exact this.2

theorem wt_ctor {env : Env} {m m' : List (List Pat)} {t : Ty} {ts tys : List Ty} {id : Nat}
    (hwt : matrixWT env m (t :: ts)) (hf : fieldsOf env t id = some tys)
    (h : flatMapE (specializeRowForConstructor id tys.length) m = .ok m') : matrixWT env m' (tys ++ ts) := by
  have hh := flatMapE_ok h
  intro r' hr'
  obtain ⟨row, hrow, zs, hz, hrz⟩ := (hh.2 r').mp hr'
  cases row with
  | nil => simp [specializeRowForConstructor, panic] at hz
  | cons p rest =>
    have hrowwt := hwt _ hrow
    simp only [patsWT, Bool.and_eq_true] at hrowwt
    simp only [specializeRowForConstructor] at hz
    rw [specCtorPat_leaves] at hz
    obtain ⟨q, hq, zs', hz', hrz'⟩ := ((flatMapE_ok hz).2 r').mp hrz
    have hqwt := (patWT_leaves env p t hrowwt.1).2 q hq
    have hna := leaves_not_alt p q hq
    cases q with
    | alt _ _ => simp [Pat.isAlt] at hna
    | any _ =>
      simp only [specCtorPat, pure, Except.pure, Except.ok.injEq] at hz'
      subst hz'
      simp only [List.mem_singleton] at hrz'
      subst hrz'
      exact patsWT_append env _ _ _ _ (patsWT_replicate_any env tys) hrowwt.2
    | lit sp l =>
      cases l with
      | bool b =>
        have ht : t = .bool := by simpa [patWT] using hqwt
        subst ht
        simp only [fieldsOf] at hf
        have htys : tys = [] := by
          by_cases h2 : id < 2 <;> simp [h2] at hf
          exact hf
        subst htys
        simp only [specCtorPat, List.length_nil, bne_self_eq_false, Bool.false_eq_true, ↓reduceIte, pure,
          Except.pure] at hz'
        by_cases hid : id = b.toNat
        · simp [hid] at hz'; subst hz'
          simp only [List.mem_singleton] at hrz'
          subst hrz'; simpa using hrowwt.2
        · simp [hid] at hz'; subst hz'; simp at hrz'
      | int _ => simp [specCtorPat, panic] at hz'
      | char _ => simp [specCtorPat, panic] at hz'
      | str _ => simp [specCtorPat, panic] at hz'
    | ctor sp cid ps =>
      simp only [specCtorPat] at hz'
      cases hv : cid.variantId with
      | error e => simp [hv] at hz'
      | ok vid =>
        have hvid := (variantId_ok hv).1
        simp only [hv] at hz'
        by_cases hid : id = vid
        · by_cases hl : tys.length = ps.length
          · simp [hid, hl, pure, Except.pure] at hz'
            subst hz'
            simp only [List.mem_singleton] at hrz'
            subst hrz'
            cases t with
            | adt d =>
              simp only [patWT, Bool.and_eq_true] at hqwt
              simp only [fieldsOf, hid, hvid] at hf
              rw [hf] at hqwt
              exact patsWT_append env _ _ _ _ hqwt.2 hrowwt.2
            | bool => simp [patWT] at hqwt
            | int => simp [patWT] at hqwt
            | char => simp [patWT] at hqwt
            | str => simp [patWT] at hqwt
            | guardT => simp [patWT] at hqwt
          · simp [hid, hl, panic] at hz'
        · simp [hid, pure, Except.pure] at hz'
          subst hz'; simp at hrz'
    | guard => simp [specCtorPat, panic] at hz'

/-! ### `discover_signature` -/

/-- constructor key (id, arity) a leaf contributes to the signature -/
def keyOf : Pat → Option (Nat × Nat)
  | .ctor _ cid ps => some (cid.vid, ps.length)
  | .lit _ (.bool b) => some (b.toNat, 0)
  | _ => none

/-- the `ConstructorId` a leaf would set `first` to -/
def firstOf : Pat → Option CtorId
  | .ctor _ cid _ => some cid
  | .lit _ (.bool _) => some .bool
  | _ => none

theorem CtorMap.containsKey_insert (m : CtorMap) (k v k' : Nat) :
    (m.insert k v).containsKey k' = (k == k' || m.containsKey k') := by
  simp only [CtorMap.insert, CtorMap.containsKey, List.any_cons, List.any_filter]
  by_cases h : k = k'
  · simp [h]
  · have h1 : (k == k') = false := by simpa using h
    simp only [h1, Bool.false_or]
    congr 1
    funext e
    by_cases he : e.1 = k'
    · subst he; simp; exact fun hh => h hh.symm
    · simp [he]

theorem CtorMap.get_insert (m : CtorMap) (k v k' : Nat) :
    (m.insert k v).get k' = if k = k' then some v else m.get k' := by
  simp only [CtorMap.insert, CtorMap.get, List.find?_cons]
  by_cases h : k = k'
  · simp [h]
  · have h1 : (k == k') = false := by simpa using h
    simp only [h1, h, ↓reduceIte]
    congr 1
    rw [List.find?_filter]
    congr 1
    funext e
    by_cases he : e.1 = k'
    · subst he; simp; exact fun hh => h hh.symm
    · simp [he]

theorem discoverPats_append : ∀ (xs ys : List Pat) (st : SigState),
    discoverPats (xs ++ ys) st =
      match discoverPats xs st with
      | .error e => .error e
      | .ok st' => discoverPats ys st'
  | [], ys, st => by simp [discoverPats, pure, Except.pure]
  | x :: xs, ys, st => by
    simp only [List.cons_append, discoverPats]
    cases discoverPat x st with
    | error e => rfl
    | ok st' => exact discoverPats_append xs ys st'

theorem discoverPats_singleton (p : Pat) (st : SigState) : discoverPats [p] st = discoverPat p st := by
  simp only [discoverPats, pure, Except.pure]
  cases discoverPat p st <;> rfl

mutual
theorem discoverPat_leaves : ∀ (p : Pat) (st : SigState), discoverPat p st = discoverPats (leaves p) st
  | .alt _ ps, st => by simpa [discoverPat, leaves] using discoverAlts_leaves ps st
  | .any _, st => by simp [leaves, discoverPats_singleton]
  | .lit _ _, st => by simp [leaves, discoverPats_singleton]
  | .ctor _ _ _, st => by simp [leaves, discoverPats_singleton]
  | .guard, st => by simp [leaves, discoverPats_singleton]
theorem discoverAlts_leaves : ∀ (ps : List Pat) (st : SigState), discoverPats ps st = discoverPats (leavesL ps) st
  | [], st => by simp [leavesL]
  | p :: ps, st => by
    simp only [leavesL, discoverPats_append, discoverPats]
    rw [← discoverPat_leaves p st]
    cases discoverPat p st with
    | error e => rfl
    | ok st' => exact discoverAlts_leaves ps st'
end

/-- leaves of the first column -/
def headLeaves : List (List Pat) → List Pat
  | [] => []
  | [] :: rows => headLeaves rows
  | (p :: _) :: rows => leaves p ++ headLeaves rows

theorem mem_headLeaves {m : List (List Pat)} {q : Pat} :
    q ∈ headLeaves m ↔ ∃ p rest, (p :: rest) ∈ m ∧ q ∈ leaves p := by
  induction m with
  | nil => simp [headLeaves]
  | cons row rows ih =>
    cases row with
    | nil =>
      simp only [headLeaves, ih, List.mem_cons]
      constructor
      · rintro ⟨p, rest, h, hq⟩; exact ⟨p, rest, Or.inr h, hq⟩
      · rintro ⟨p, rest, h | h, hq⟩
        · cases h
        · exact ⟨p, rest, h, hq⟩
    | cons p0 rest0 =>
      simp only [headLeaves, List.mem_append, ih, List.mem_cons]
      constructor
      · rintro (h | ⟨p, rest, h, hq⟩)
        · exact ⟨p0, rest0, Or.inl rfl, h⟩
        · exact ⟨p, rest, Or.inr h, hq⟩
      · rintro ⟨p, rest, h | h, hq⟩
        · cases h; exact Or.inl hq
        · exact Or.inr ⟨p, rest, h, hq⟩

theorem discoverRows_eq : ∀ (m : List (List Pat)) (st st' : SigState),
    discoverRows m st = .ok st' → discoverPats (headLeaves m) st = .ok st'
  | [], st, st', h => by simpa [discoverRows, headLeaves, discoverPats] using h
  | [] :: rows, st, st', h => by simp [discoverRows, panic] at h
  | (p :: rest) :: rows, st, st', h => by
    simp only [discoverRows] at h
    simp only [headLeaves, discoverPats_append, ← discoverPat_leaves]
    cases hd : discoverPat p st with
    | error e => simp [hd] at h
    | ok st1 =>
      simp only [hd] at h
      exact discoverRows_eq rows st1 st' h

/-- what the fold over non-alternative leaves `l` has established -/
structure SigInv (l : List Pat) (st : SigState) : Prop where
  keys : ∀ k, st.1.containsKey k = true ↔ ∃ q ∈ l, ∃ a, keyOf q = some (k, a)
  arity : ∀ k a, st.1.get k = some a → ∃ q ∈ l, keyOf q = some (k, a)
  kindNone : st.2 = none ↔ ∀ q ∈ l, keyOf q = none
  kindSome : ∀ c, st.2 = some c → ∃ q ∈ l, firstOf q = some c

theorem sigInv_nil : SigInv [] ([], none) :=
  ⟨by simp [CtorMap.containsKey], by simp [CtorMap.get], by simp, by simp⟩

theorem sigInv_step {l : List Pat} {st st' : SigState} {q : Pat} (hq : q.isAlt = false)
    (inv : SigInv l st) (h : discoverPat q st = .ok st') : SigInv (l ++ [q]) st' := by
  obtain ⟨ctors, kind⟩ := st
  have same : keyOf q = none → firstOf q = none → st' = (ctors, kind) → SigInv (l ++ [q]) st' := by
    intro hk hf hst
    subst hst
    refine ⟨?_, ?_, ?_, ?_⟩
    · intro k; rw [inv.keys k]
      constructor
      · rintro ⟨q', hq', a, ha⟩; exact ⟨q', List.mem_append_left _ hq', a, ha⟩
      · rintro ⟨q', hq', a, ha⟩
        rcases List.mem_append.mp hq' with h' | h'
        · exact ⟨q', h', a, ha⟩
        · simp only [List.mem_singleton] at h'; subst h'; simp [hk] at ha
    · intro k a hka
      obtain ⟨q', hq', ha⟩ := inv.arity k a hka
      exact ⟨q', List.mem_append_left _ hq', ha⟩
    · rw [inv.kindNone]
      constructor
      · intro hall q' hq'
        rcases List.mem_append.mp hq' with h' | h'
        · exact hall q' h'
        · simp only [List.mem_singleton] at h'; subst h'; exact hk
      · intro hall q' hq'; exact hall q' (List.mem_append_left _ hq')
    · intro c hc
      obtain ⟨q', hq', ha⟩ := inv.kindSome c hc
      exact ⟨q', List.mem_append_left _ hq', ha⟩
  have added : ∀ k a (c : CtorId), keyOf q = some (k, a) → firstOf q = some c →
      ∀ kind', (kind' = some c ∨ (kind' = kind ∧ kind ≠ none)) → st' = (ctors.insert k a, kind') →
      SigInv (l ++ [q]) st' := by
    intro k a c hk hf kind' hkind hst
    subst hst
    refine ⟨?_, ?_, ?_, ?_⟩
    · intro k'
      simp only [CtorMap.containsKey_insert, Bool.or_eq_true, beq_iff_eq]
      rw [inv.keys k']
      constructor
      · rintro (rfl | ⟨q', hq', a', ha'⟩)
        · exact ⟨q, by simp, a, hk⟩
        · exact ⟨q', List.mem_append_left _ hq', a', ha'⟩
      · rintro ⟨q', hq', a', ha'⟩
        rcases List.mem_append.mp hq' with h' | h'
        · exact Or.inr ⟨q', h', a', ha'⟩
        · simp only [List.mem_singleton] at h'; subst h'
          rw [hk] at ha'; simp only [Option.some.injEq, Prod.mk.injEq] at ha'
          exact Or.inl ha'.1
    · intro k' a' hka
      simp only [CtorMap.get_insert] at hka
      by_cases hkk : k = k'
      · simp only [hkk, ↓reduceIte, Option.some.injEq] at hka
        subst hka; subst hkk
        exact ⟨q, by simp, hk⟩
      · simp only [hkk, ↓reduceIte] at hka
        obtain ⟨q', hq', ha⟩ := inv.arity k' a' hka
        exact ⟨q', List.mem_append_left _ hq', ha⟩
    · constructor
      · intro hnone
        rcases hkind with h1 | ⟨h1, h2⟩
        · simp [h1] at hnone
        · simp only at hnone; rw [h1] at hnone; exact absurd hnone h2
      · intro hall
        have := hall q (by simp)
        simp [hk] at this
    · intro c' hc'
      rcases hkind with h1 | ⟨h1, h2⟩
      · simp only at hc'; rw [h1] at hc'; simp only [Option.some.injEq] at hc'
        subst hc'; exact ⟨q, by simp, hf⟩
      · simp only at hc'; rw [h1] at hc'
        obtain ⟨q', hq', ha⟩ := inv.kindSome c' hc'
        exact ⟨q', List.mem_append_left _ hq', ha⟩
  cases q with
  | alt _ _ => simp [Pat.isAlt] at hq
  | any _ =>
    simp only [discoverPat, pure, Except.pure, Except.ok.injEq] at h
    exact same rfl rfl h.symm
  | guard =>
    simp only [discoverPat, pure, Except.pure, Except.ok.injEq] at h
    exact same rfl rfl h.symm
  | lit sp lv =>
    cases lv with
    | bool b =>
      simp only [discoverPat] at h
      cases kind with
      | none =>
        simp only [pure, Except.pure, Except.ok.injEq] at h
        exact added b.toNat 0 .bool rfl rfl (some .bool) (Or.inl rfl) h.symm
      | some c0 =>
        cases c0 with
        | bool =>
          simp only [pure, Except.pure, Except.ok.injEq] at h
          exact added b.toNat 0 .bool rfl rfl (some .bool) (Or.inl rfl) h.symm
        | enum _ _ => simp [panic] at h
        | cls _ => simp [panic] at h
        | struct _ => simp [panic] at h
        | tuple => simp [panic] at h
    | int _ =>
      simp only [discoverPat, pure, Except.pure, Except.ok.injEq] at h
      exact same rfl rfl h.symm
    | char _ =>
      simp only [discoverPat, pure, Except.pure, Except.ok.injEq] at h
      exact same rfl rfl h.symm
    | str _ =>
      simp only [discoverPat, pure, Except.pure, Except.ok.injEq] at h
      exact same rfl rfl h.symm
  | ctor sp cid ps =>
    simp only [discoverPat] at h
    cases hv : cid.variantId with
    | error e => simp [hv] at h
    | ok vid =>
      have hvid := (variantId_ok hv).1
      simp only [hv, pure, Except.pure, Except.ok.injEq] at h
      subst hvid
      cases kind with
      | none => exact added cid.vid ps.length cid rfl rfl (some cid) (Or.inl rfl) h.symm
      | some c0 => exact added cid.vid ps.length cid rfl rfl (some c0) (Or.inr ⟨rfl, by simp⟩) h.symm

theorem sigInv_fold : ∀ (l' : List Pat) (l : List Pat) (st st' : SigState),
    (∀ q ∈ l', q.isAlt = false) → SigInv l st → discoverPats l' st = .ok st' → SigInv (l ++ l') st'
  | [], l, st, st', _, inv, h => by
    simp only [discoverPats, pure, Except.pure, Except.ok.injEq] at h
    subst h; simpa using inv
  | q :: l', l, st, st', hna, inv, h => by
    simp only [discoverPats] at h
    cases hd : discoverPat q st with
    | error e => simp [hd] at h
    | ok st1 =>
      simp only [hd] at h
      have inv1 := sigInv_step (hna q List.mem_cons_self) inv hd
      have := sigInv_fold l' (l ++ [q]) st1 st' (fun q' hq' => hna q' (List.mem_cons_of_mem _ hq')) inv1 h
      simpa using this

theorem headLeaves_not_alt (m : List (List Pat)) : ∀ q ∈ headLeaves m, q.isAlt = false := by
  intro q hq
  obtain ⟨p, rest, _, hq⟩ := mem_headLeaves.mp hq
  exact leaves_not_alt p q hq

/-- what `discover_signature` returns, in terms of the leaves of the first column -/
theorem discoverSignature_spec {m : List (List Pat)} {sig : Signature} (h : discoverSignature m = .ok sig) :
    (sig = .incomplete ∧ ∀ q ∈ headLeaves m, keyOf q = none) ∨
    (∃ ctors first, sig = .complete ctors first ∧ SigInv (headLeaves m) (ctors, some first)) := by
  simp only [discoverSignature] at h
  cases hd : discoverRows m ([], none) with
  | error e => simp [hd] at h
  | ok st =>
    have inv := sigInv_fold (headLeaves m) [] ([], none) st (headLeaves_not_alt m) sigInv_nil
      (discoverRows_eq m _ _ hd)
    simp only [List.nil_append] at inv
    obtain ⟨ctors, kind⟩ := st
    cases kind with
    | none =>
      simp only [hd, pure, Except.pure, Except.ok.injEq] at h
      exact Or.inl ⟨h.symm, inv.kindNone.mp rfl⟩
    | some first =>
      simp only [hd] at h
      by_cases he : ctors.isEmpty = true
      · simp [he, panic] at h
      · simp only [he, Bool.false_eq_true, ↓reduceIte, pure, Except.pure, Except.ok.injEq] at h
        exact Or.inr ⟨ctors, first, h.symm, inv⟩

/-! ### facts about typed leaves -/

theorem fieldsOf_lt {env : Env} {t : Ty} {id : Nat} {tys : List Ty} (h : fieldsOf env t id = some tys) :
    id < nCtors env t := by
  cases t with
  | bool => simp only [fieldsOf] at h; by_cases h2 : id < 2 <;> simp_all [nCtors]
  | adt d =>
    simp only [fieldsOf] at h
    simp only [nCtors]
    exact (List.getElem?_eq_some_iff.mp h).1
  | int => simp [fieldsOf] at h
  | char => simp [fieldsOf] at h
  | str => simp [fieldsOf] at h
  | guardT => simp [fieldsOf] at h

theorem fieldsOf_of_lt {env : Env} {t : Ty} {id : Nat} (h : id < nCtors env t) :
    ∃ tys, fieldsOf env t id = some tys := by
  cases t with
  | bool => simp only [nCtors] at h; exact ⟨[], by simp [fieldsOf, h]⟩
  | adt d => simp only [nCtors] at h; exact ⟨_, by simp only [fieldsOf]; exact List.getElem?_eq_getElem h⟩
  | int => simp [nCtors] at h
  | char => simp [nCtors] at h
  | str => simp [nCtors] at h
  | guardT => simp [nCtors] at h

theorem keyOf_typed {env : Env} {q : Pat} {t : Ty} {k a : Nat} (hk : keyOf q = some (k, a))
    (hwt : patWT env q t = true) : ∃ tys, fieldsOf env t k = some tys ∧ tys.length = a := by
  cases q with
  | ctor sp cid ps =>
    simp only [keyOf, Option.some.injEq, Prod.mk.injEq] at hk
    cases t with
    | adt d =>
      simp only [patWT, Bool.and_eq_true] at hwt
      cases hv : (env d).variants[cid.vid]? with
      | none => simp [hv] at hwt
      | some tys =>
        simp only [hv] at hwt
        refine ⟨tys, by simp only [fieldsOf, ← hk.1, hv], ?_⟩
        rw [← hk.2]; exact (patsWT_length env _ _ hwt.2).symm
    | bool => simp [patWT] at hwt
    | int => simp [patWT] at hwt
    | char => simp [patWT] at hwt
    | str => simp [patWT] at hwt
    | guardT => simp [patWT] at hwt
  | lit sp l =>
    cases l with
    | bool b =>
      simp only [keyOf, Option.some.injEq, Prod.mk.injEq] at hk
      have ht : t = .bool := by simpa [patWT] using hwt
      subst ht
      refine ⟨[], ?_, by simp [← hk.2]⟩
      simp only [fieldsOf, ← hk.1]
      cases b <;> simp
    | int _ => simp [keyOf] at hk
    | char _ => simp [keyOf] at hk
    | str _ => simp [keyOf] at hk
  | any _ => simp [keyOf] at hk
  | alt _ _ => simp [keyOf] at hk
  | guard => simp [keyOf] at hk

theorem firstOf_typed {env : Env} {q : Pat} {t : Ty} {c : CtorId} (hf : firstOf q = some c)
    (hwt : patWT env q t = true) : c.total env = nCtors env t ∧ (t = .bool ∨ ∃ d, t = .adt d) := by
  cases q with
  | ctor sp cid ps =>
    simp only [firstOf, Option.some.injEq] at hf
    subst hf
    cases t with
    | adt d =>
      simp only [patWT, Bool.and_eq_true] at hwt
      refine ⟨?_, Or.inr ⟨d, rfl⟩⟩
      have hok := hwt.1
      cases cid <;> simp_all [ctorOk, CtorId.total, nCtors]
    | bool => simp [patWT] at hwt
    | int => simp [patWT] at hwt
    | char => simp [patWT] at hwt
    | str => simp [patWT] at hwt
    | guardT => simp [patWT] at hwt
  | lit sp l =>
    cases l with
    | bool b =>
      simp only [firstOf, Option.some.injEq] at hf
      subst hf
      have ht : t = .bool := by simpa [patWT] using hwt
      subst ht
      exact ⟨rfl, Or.inl rfl⟩
    | int _ => simp [firstOf] at hf
    | char _ => simp [firstOf] at hf
    | str _ => simp [firstOf] at hf
  | any _ => simp [firstOf] at hf
  | alt _ _ => simp [firstOf] at hf
  | guard => simp [firstOf] at hf

/-- a non-wildcard leaf that matches a constructor value contributes that constructor's key -/
theorem leaf_match_ctor_key {q : Pat} {id : Nat} {args : List Val} (hna : q.isAlt = false)
    (hany : q.isAny = false) (hm : matchPat false q (.ctor id args) = true) : ∃ a, keyOf q = some (id, a) := by
  cases q with
  | ctor sp cid ps =>
    simp only [matchPat, Bool.and_eq_true, beq_iff_eq] at hm
    exact ⟨ps.length, by simp [keyOf, hm.1]⟩
  | lit sp l =>
    simp only [matchPat, litMatches_iff] at hm
    cases l with
    | bool b => simp only [litVal, Val.ctor.injEq] at hm; exact ⟨0, by simp [keyOf, hm.1]⟩
    | int _ => simp [litVal] at hm
    | char _ => simp [litVal] at hm
    | str _ => simp [litVal] at hm
  | any _ => simp [Pat.isAny] at hany
  | alt _ _ => simp [Pat.isAlt] at hna
  | guard => simp [matchPat] at hm

/-! ### pigeonhole, fresh literals, inhabitants -/

theorem all_below_mem_length : ∀ (n : Nat) (ks : List Nat), (∀ i, i < n → i ∈ ks) → n ≤ ks.length
  | 0, _, _ => Nat.zero_le _
  | n + 1, ks, h => by
    have hn : n ∈ ks := h n (Nat.lt_succ_self n)
    have ih := all_below_mem_length n (ks.erase n) (fun i hi =>
      (List.mem_erase_of_ne (Nat.ne_of_lt hi)).mpr (h i (Nat.lt_succ_of_lt hi)))
    rw [List.length_erase_of_mem hn] at ih
    have : 0 < ks.length := List.length_pos_of_mem hn
    omega

theorem exists_missing_key (ctors : CtorMap) (n : Nat) (h : ctors.length < n) :
    ∃ i, i < n ∧ ctors.containsKey i = false := by
  apply Classical.byContradiction
  intro hno
  have hall : ∀ i, i < n → i ∈ ctors.map (·.1) := by
    intro i hi
    have : ctors.containsKey i = true := by
      cases hc : ctors.containsKey i with
      | true => rfl
      | false => exact absurd ⟨i, hi, hc⟩ hno
    simp only [CtorMap.containsKey, List.any_eq_true, beq_iff_eq] at this
    obtain ⟨e, he, hei⟩ := this
    exact List.mem_map.mpr ⟨e, he, hei⟩
  have := all_below_mem_length n _ hall
  simp at this
  omega

def litSize : Lit → Nat
  | .bool _ => 0
  | .int i => i.natAbs
  | .char c => c
  | .str s => s.length

def freshLit (t : Ty) (n : Nat) : Lit :=
  match t with
  | .char => .char n
  | .str => .str (List.replicate n 0)
  | _ => .int n

theorem litSize_fresh (t : Ty) (n : Nat) : litSize (freshLit t n) = n := by
  cases t <;> simp [freshLit, litSize]

theorem fresh_not_mem (t : Ty) (ls : List Lit) :
    freshLit t ((ls.map litSize).sum + 1) ∉ ls := by
  intro hmem
  have : ∀ (ls : List Lit) (l : Lit), l ∈ ls → litSize l ≤ (ls.map litSize).sum := by
    intro ls
    induction ls with
    | nil => simp
    | cons x xs ih =>
      intro l hl
      simp only [List.map_cons, List.sum_cons]
      rcases List.mem_cons.mp hl with rfl | hl
      · omega
      · have := ih l hl; omega
  have h2 := this ls _ hmem
  rw [litSize_fresh] at h2
  omega

theorem freshLit_typed (env : Env) (t : Ty) (n : Nat) (ht : t = .int ∨ t = .char ∨ t = .str) :
    hasType env (.lit (freshLit t n)) t = true := by
  rcases ht with rfl | rfl | rfl <;> simp [freshLit, hasType, litTy]

theorem inh_list {env : Env} (hinh : Inh env) : ∀ (tys : List Ty), ∃ vs, hasTypes env vs tys = true
  | [] => ⟨[], by simp [hasTypes]⟩
  | t :: tys => by
    obtain ⟨v, hv⟩ := hinh t
    obtain ⟨vs, hvs⟩ := inh_list hinh tys
    exact ⟨v :: vs, by simp [hasTypes, hv, hvs]⟩

mutual
theorem exists_match {env : Env} (hinh : Inh env) : ∀ (p : Pat) (t : Ty), patWT env p t = true →
    ∃ v, hasType env v t = true ∧ matchPat true p v = true
  | .any _, t, _ => by
    obtain ⟨v, hv⟩ := hinh t
    exact ⟨v, hv, by simp [matchPat]⟩
  | .guard, t, h => by
    have : t = .guardT := by simpa [patWT] using h
    subst this
    exact ⟨.guardV, by simp [hasType], by simp [matchPat]⟩
  | .lit _ l, t, h => by
    refine ⟨litVal l, ?_, by simp [matchPat, litMatches_iff]⟩
    cases l <;> simp_all [patWT, litVal, hasType, litTy]
    rename_i b; cases b <;> simp
  | .ctor _ cid ps, t, h => by
    cases t with
    | adt d =>
      simp only [patWT, Bool.and_eq_true] at h
      cases hv : (env d).variants[cid.vid]? with
      | none => simp [hv] at h
      | some tys =>
        simp only [hv] at h
        obtain ⟨vs, hvs, hm⟩ := exists_matchs hinh ps tys h.2
        exact ⟨.ctor cid.vid vs, by simp [hasType, hv, hvs], by simp [matchPat, hm]⟩
    | bool => simp [patWT] at h
    | int => simp [patWT] at h
    | char => simp [patWT] at h
    | str => simp [patWT] at h
    | guardT => simp [patWT] at h
  | .alt _ ps, t, h => by
    simp only [patWT, Bool.and_eq_true, Bool.not_eq_true', List.isEmpty_eq_false_iff] at h
    cases ps with
    | nil => exact absurd rfl h.1
    | cons p ps =>
      simp only [altsWT, Bool.and_eq_true] at h
      obtain ⟨v, hv, hm⟩ := exists_match hinh p t h.2.1
      exact ⟨v, hv, by simp [matchPat, matchAlts, hm]⟩
theorem exists_matchs {env : Env} (hinh : Inh env) : ∀ (ps : List Pat) (ts : List Ty), patsWT env ps ts = true →
    ∃ vs, hasTypes env vs ts = true ∧ matchPats true ps vs = true
  | [], [], _ => ⟨[], by simp [hasTypes], by simp [matchPats]⟩
  | [], _ :: _, h => by simp [patsWT] at h
  | _ :: _, [], h => by simp [patsWT] at h
  | p :: ps, t :: ts, h => by
    simp only [patsWT, Bool.and_eq_true] at h
    obtain ⟨v, hv, hm⟩ := exists_match hinh p t h.1
    obtain ⟨vs, hvs, hms⟩ := exists_matchs hinh ps ts h.2
    exact ⟨v :: vs, by simp [hasTypes, hv, hvs], by simp [matchPats, hm, hms]⟩
end

/-! ### usefulness -/

theorem litVal_typed {env : Env} {sp : Span} {l : Lit} {t : Ty} (h : patWT env (.lit sp l) t = true) :
    hasType env (litVal l) t = true := by
  cases l with
  | bool b =>
    have : t = .bool := by simpa [patWT] using h
    subst this
    cases b <;> simp [litVal, hasType]
  | int i => simpa [patWT, litVal, hasType] using h
  | char c => simpa [patWT, litVal, hasType] using h
  | str s => simpa [patWT, litVal, hasType] using h

/-- the row `q` is useful w.r.t. matrix `m`: some well-typed value vector is matched by `q` (its guard, if
    any, taken to hold) and by no row of `m` (guarded rows never count) -/
def Useful (env : Env) (tys : List Ty) (m : List (List Pat)) (q : List Pat) : Prop :=
  ∃ vs, hasTypes env vs tys = true ∧ matchPats true q vs = true ∧ Uncov m vs

theorem headLeaves_wt {env : Env} {m : List (List Pat)} {t : Ty} {ts : List Ty}
    (hwt : matrixWT env m (t :: ts)) : ∀ q ∈ headLeaves m, patWT env q t = true := by
  intro q hq
  obtain ⟨p, rest, hrow, hq⟩ := mem_headLeaves.mp hq
  have := hwt _ hrow
  simp only [patsWT, Bool.and_eq_true] at this
  exact (patWT_leaves env p t this.1).2 q hq

theorem useful_spec_ctor {env : Env} {m m' : List (List Pat)} {ts tys : List Ty} {id : Nat}
    (h : flatMapE (specializeRowForConstructor id tys.length) m = .ok m')
    (front rest : List Pat) (hfl : front.length = tys.length) :
    Useful env (tys ++ ts) m' (front ++ rest) ↔
      ∃ args vs, hasTypes env args tys = true ∧ hasTypes env vs ts = true ∧ matchPats true front args = true ∧
        matchPats true rest vs = true ∧ Uncov m (.ctor id args :: vs) := by
  constructor
  · rintro ⟨ws, hty, hm, hu⟩
    obtain ⟨args, vs, rfl, ha, hv⟩ := hasTypes_split env tys ws ts hty
    have hal : args.length = tys.length := hasTypes_length env _ _ ha
    rw [matchPats_append _ _ _ _ _ (by omega), Bool.and_eq_true] at hm
    rw [← hal] at h
    exact ⟨args, vs, ha, hv, hm.1, hm.2, (uncov_ctor h vs).mpr hu⟩
  · rintro ⟨args, vs, ha, hv, hm1, hm2, hu⟩
    have hal : args.length = tys.length := hasTypes_length env _ _ ha
    rw [← hal] at h
    refine ⟨args ++ vs, hasTypes_append env _ _ _ _ ha hv, ?_, (uncov_ctor h vs).mp hu⟩
    rw [matchPats_append _ _ _ _ _ (by omega)]
    simp [hm1, hm2]

theorem useful_default {env : Env} {m m' : List (List Pat)} {t : Ty} {ts : List Ty} {w : Pat} {rest : List Pat}
    (h : flatMapE specializeRowForAny m = .ok m')
    (hw : ∀ v, matchPat true w v = true)
    (hfresh : ∃ v, hasType env v t = true ∧
      ∀ p r, (p :: r) ∈ m → ∀ q ∈ leaves p, q.isAny = false → matchPat false q v = false) :
    Useful env (t :: ts) m (w :: rest) ↔ Useful env ts m' rest := by
  constructor
  · rintro ⟨vs, hty, hm, hu⟩
    cases vs with
    | nil => simp [hasTypes] at hty
    | cons v vs =>
      simp only [hasTypes, matchPats, Bool.and_eq_true] at hty hm
      exact ⟨vs, hty.2, hm.2, uncov_default_fwd h v vs hu⟩
  · rintro ⟨vs, hty, hm, hu⟩
    obtain ⟨v, hv, hf⟩ := hfresh
    exact ⟨v :: vs, by simp [hasTypes, hv, hty], by simp [matchPats, hw v, hm], uncov_default_bwd h v vs hf hu⟩

/-- a head value that no non-wildcard leaf of the first column matches, when the column has no constructor
    and no Bool literal (`Signature::Incomplete`) -/
theorem fresh_incomplete {env : Env} (hinh : Inh env) {m : List (List Pat)} {t : Ty} {ts : List Ty}
    (hwt : matrixWT env m (t :: ts)) (hnone : ∀ q ∈ headLeaves m, keyOf q = none) :
    ∃ v, hasType env v t = true ∧
      ∀ p r, (p :: r) ∈ m → ∀ q ∈ leaves p, q.isAny = false → matchPat false q v = false := by
  have hlw := headLeaves_wt hwt
  by_cases ht : t = .int ∨ t = .char ∨ t = .str
  · let ls := (headLeaves m).filterMap (fun q => match q with | .lit _ l => some l | _ => none)
    refine ⟨.lit (freshLit t ((ls.map litSize).sum + 1)), freshLit_typed env t _ ht, ?_⟩
    intro p r hrow q hq hany
    have hqh : q ∈ headLeaves m := mem_headLeaves.mpr ⟨p, r, hrow, hq⟩
    have hk := hnone q hqh
    cases q with
    | any _ => simp [Pat.isAny] at hany
    | guard => simp [matchPat]
    | ctor _ _ _ => simp [keyOf] at hk
    | alt _ _ => have := leaves_not_alt p _ hq; simp [Pat.isAlt] at this
    | lit sp l =>
      apply bool_not_true
      intro hm
      simp only [matchPat, litMatches_iff] at hm
      have hl : l ∈ ls := List.mem_filterMap.mpr ⟨_, hqh, rfl⟩
      have hfr := fresh_not_mem t ls
      cases l with
      | bool b => simp [litVal] at hm
      | int i => simp only [litVal, Val.lit.injEq] at hm; rw [hm] at hfr; exact hfr hl
      | char c => simp only [litVal, Val.lit.injEq] at hm; rw [hm] at hfr; exact hfr hl
      | str s => simp only [litVal, Val.lit.injEq] at hm; rw [hm] at hfr; exact hfr hl
  · obtain ⟨v, hv⟩ := hinh t
    refine ⟨v, hv, ?_⟩
    intro p r hrow q hq hany
    have hqh : q ∈ headLeaves m := mem_headLeaves.mpr ⟨p, r, hrow, hq⟩
    have hk := hnone q hqh
    have hqwt := hlw q hqh
    cases q with
    | any _ => simp [Pat.isAny] at hany
    | guard => simp [matchPat]
    | ctor _ _ _ => simp [keyOf] at hk
    | alt _ _ => have := leaves_not_alt p _ hq; simp [Pat.isAlt] at this
    | lit sp l =>
      exfalso
      apply ht
      cases l with
      | bool b => simp [keyOf] at hk
      | int i => left; simp only [patWT, litTy, beq_iff_eq, Option.some.injEq] at hqwt; exact hqwt.symm
      | char c => right; left; simp only [patWT, litTy, beq_iff_eq, Option.some.injEq] at hqwt; exact hqwt.symm
      | str s => right; right; simp only [patWT, litTy, beq_iff_eq, Option.some.injEq] at hqwt; exact hqwt.symm

/-- same when the signature is complete but some constructor is missing from the column -/
theorem fresh_missing_ctor {env : Env} (hinh : Inh env) {m : List (List Pat)} {t : Ty} {ts : List Ty}
    {ctors : CtorMap} {first : CtorId}
    (hwt : matrixWT env m (t :: ts)) (inv : SigInv (headLeaves m) (ctors, some first))
    (hlt : ctors.length < first.total env) :
    ∃ v, hasType env v t = true ∧
      ∀ p r, (p :: r) ∈ m → ∀ q ∈ leaves p, q.isAny = false → matchPat false q v = false := by
  have hlw := headLeaves_wt hwt
  obtain ⟨q0, hq0, hf0⟩ := inv.kindSome first rfl
  obtain ⟨htot, _⟩ := firstOf_typed hf0 (hlw q0 hq0)
  obtain ⟨id, hid, hmiss⟩ := exists_missing_key ctors _ hlt
  rw [htot] at hid
  obtain ⟨tys, hf⟩ := fieldsOf_of_lt hid
  obtain ⟨args, hargs⟩ := inh_list hinh tys
  refine ⟨.ctor id args, (hasType_ctor_iff env id args t).mpr ⟨tys, hf, hargs⟩, ?_⟩
  intro p r hrow q hq hany
  apply bool_not_true
  intro hm
  obtain ⟨a, ha⟩ := leaf_match_ctor_key (leaves_not_alt p q hq) hany hm
  have : ctors.containsKey id = true :=
    (inv.keys id).mpr ⟨q, mem_headLeaves.mpr ⟨p, r, hrow, hq⟩, a, ha⟩
  simp [hmiss] at this

/-- the guard column -/
theorem fresh_guard {env : Env} {m : List (List Pat)} {ts : List Ty} (hwt : matrixWT env m (.guardT :: ts)) :
    ∃ v, hasType env v .guardT = true ∧
      ∀ p r, (p :: r) ∈ m → ∀ q ∈ leaves p, q.isAny = false → matchPat false q v = false := by
  have hlw := headLeaves_wt hwt
  refine ⟨.guardV, by simp [hasType], ?_⟩
  intro p r hrow q hq hany
  have hqwt := hlw q (mem_headLeaves.mpr ⟨p, r, hrow, hq⟩)
  cases q with
  | any _ => simp [Pat.isAny] at hany
  | guard => simp [matchPat]
  | ctor _ _ _ => simp [patWT] at hqwt
  | alt _ _ => have := leaves_not_alt p _ hq; simp [Pat.isAlt] at this
  | lit sp l => cases l <;> simp [patWT, litTy] at hqwt

theorem matrix_rows_length {env : Env} {m : List (List Pat)} {tys : List Ty} (hwt : matrixWT env m tys) :
    ∀ r ∈ m, r.length = tys.length := fun r hr => patsWT_length env r tys (hwt r hr)

/-- `check_useful` decides usefulness (whenever it returns at all) -/
theorem checkUseful_correct {env : Env} (hinh : Inh env) : ∀ (fuel : Nat) (m : List (List Pat)) (q : List Pat)
    (tys : List Ty) (b : Bool), matrixWT env m tys → patsWT env q tys = true →
    checkUseful env fuel m q = .ok b → (b = true ↔ Useful env tys m q)
  | 0, _, _, _, _, _, _, h => by simp [checkUseful] at h
  | fuel + 1, m, q, tys, b, hwt, hq, h => by
    have ih := checkUseful_correct hinh fuel
    simp only [checkUseful] at h
    split at h
    · simp [panic] at h
    split at h
    · -- empty matrix
      rename_i hempty
      simp only [pure, Except.pure, Except.ok.injEq] at h
      subst h
      have : m = [] := by simpa using hempty
      subst this
      obtain ⟨vs, hvs, hm⟩ := exists_matchs hinh q tys hq
      simp only [true_iff]
      exact ⟨vs, hvs, hm, by intro r hr; simp at hr⟩
    rename_i _ hne
    have hne' : m ≠ [] := by simpa using hne
    split at h
    · -- no columns left
      simp only [pure, Except.pure, Except.ok.injEq] at h
      subst h
      have htys : tys = [] := by cases tys <;> simp_all [patsWT]
      subst htys
      simp only [Bool.false_eq_true, false_iff]
      rintro ⟨vs, hvs, _, hu⟩
      cases m with
      | nil => exact hne' rfl
      | cons r rs =>
        have hr := hwt r List.mem_cons_self
        have hvs' : vs = [] := by cases vs <;> simp_all [hasTypes]
        have hr' : r = [] := by cases r <;> simp_all [patsWT]
        subst hvs' hr'
        have := hu [] List.mem_cons_self
        simp [matchPats] at this
    · -- alternatives
      rename_i sp alts rest _
      cases tys with
      | nil => simp [patsWT] at hq
      | cons t ts =>
        simp only [patsWT, patWT, Bool.and_eq_true, Bool.not_eq_true', List.isEmpty_eq_false_iff] at hq
        have halts : ∀ a ∈ alts, patWT env a t = true := by
          have : ∀ (l : List Pat), altsWT env l t = true → ∀ a ∈ l, patWT env a t = true := by
            intro l
            induction l with
            | nil => simp
            | cons x xs ihx =>
              intro hx a ha
              simp only [altsWT, Bool.and_eq_true] at hx
              rcases List.mem_cons.mp ha with rfl | ha
              · exact hx.1
              · exact ihx hx.2 a ha
          exact this alts hq.1.2
        have key : Useful env (t :: ts) m (.alt sp alts :: rest) ↔
            ∃ a ∈ alts, Useful env (t :: ts) m (a :: rest) := by
          constructor
          · rintro ⟨vs, hty, hm, hu⟩
            cases vs with
            | nil => simp [hasTypes] at hty
            | cons v vs =>
              simp only [matchPats, matchPat, Bool.and_eq_true, matchAlts_eq_any, List.any_eq_true] at hm
              obtain ⟨⟨a, ha, hma⟩, hmr⟩ := hm
              exact ⟨a, ha, v :: vs, hty, by simp [matchPats, hma, hmr], hu⟩
          · rintro ⟨a, ha, vs, hty, hm, hu⟩
            cases vs with
            | nil => simp [hasTypes] at hty
            | cons v vs =>
              simp only [matchPats, Bool.and_eq_true] at hm
              refine ⟨v :: vs, hty, ?_, hu⟩
              simp only [matchPats, matchPat, Bool.and_eq_true, matchAlts_eq_any, List.any_eq_true]
              exact ⟨⟨a, ha, hm.1⟩, hm.2⟩
        rw [key]
        cases b with
        | true =>
          obtain ⟨a, ha, hfa⟩ := anyE_true h
          simp only [true_iff]
          exact ⟨a, ha, (ih m (a :: rest) (t :: ts) true hwt (by simp [patsWT, halts a ha, hq.2]) hfa).mp rfl⟩
        | false =>
          have hall := anyE_false h
          simp only [Bool.false_eq_true, false_iff]
          rintro ⟨a, ha, hu⟩
          have := (ih m (a :: rest) (t :: ts) false hwt (by simp [patsWT, halts a ha, hq.2]) (hall a ha)).mpr hu
          simp at this
    · -- literal
      rename_i sp value rest _
      cases tys with
      | nil => simp [patsWT] at hq
      | cons t ts =>
        simp only [patsWT, Bool.and_eq_true] at hq
        split at h
        · simp at h
        rename_i m' hm'
        rw [ih m' rest ts b (wt_lit hwt hm') hq.2 h]
        constructor
        · rintro ⟨vs, hty, hm, hu⟩
          refine ⟨litVal value :: vs, ?_, by simp [matchPats, matchPat, litMatches_iff, hm], (uncov_lit hm' vs).mpr hu⟩
          simp only [hasTypes, hty, Bool.and_true]
          exact litVal_typed hq.1
        · rintro ⟨vs, hty, hm, hu⟩
          cases vs with
          | nil => simp [hasTypes] at hty
          | cons v vs =>
            simp only [hasTypes, matchPats, matchPat, litMatches_iff, Bool.and_eq_true] at hty hm
            obtain ⟨rfl, hmr⟩ := hm
            exact ⟨vs, hty.2, hmr, (uncov_lit hm' vs).mp hu⟩
    · -- wildcard
      rename_i sp rest _
      cases tys with
      | nil => simp [patsWT] at hq
      | cons t ts =>
        simp only [patsWT, patWT, Bool.true_and] at hq
        split at h
        · simp at h
        · -- incomplete signature
          rename_i hsig
          rcases discoverSignature_spec hsig with ⟨_, hnone⟩ | ⟨c, f, hc, _⟩
          · split at h
            · simp at h
            rename_i m' hm'
            rw [ih m' rest ts b (wt_default hwt hm') hq h]
            exact (useful_default hm' (by simp [matchPat]) (fresh_incomplete hinh hwt hnone)).symm
          · cases hc
        · -- complete signature
          rename_i ctors first hsig
          rcases discoverSignature_spec hsig with ⟨hc, _⟩ | ⟨c, f, hc, inv⟩
          · cases hc
          cases hc
          have hlw := headLeaves_wt hwt
          obtain ⟨q0, hq0, hf0⟩ := inv.kindSome first rfl
          obtain ⟨htot, htk⟩ := firstOf_typed hf0 (hlw q0 hq0)
          split at h
          · simp [panic] at h
          split at h
          · -- every constructor occurs: try them all
            have step : ∀ id bb, id < first.total env →
                (match ctors.get id with
                  | none => panic "exhaustiveness.rs:882 missing ctor"
                  | some arity =>
                    match flatMapE (specializeRowForConstructor id arity) m with
                    | .error e => .error e
                    | .ok newMatrix => checkUseful env fuel newMatrix (List.replicate arity anyNoSpan ++ rest)) = .ok bb →
                ∃ tys, fieldsOf env t id = some tys ∧
                  (bb = true ↔ ∃ args vs, hasTypes env args tys = true ∧ hasTypes env vs ts = true ∧
                    matchPats true rest vs = true ∧ Uncov m (.ctor id args :: vs)) := by
              intro id bb _ hstep
              split at hstep
              · simp [panic] at hstep
              rename_i arity hget
              obtain ⟨ql, hql, hkl⟩ := inv.arity id arity hget
              obtain ⟨tys, hf, hlen⟩ := keyOf_typed hkl (hlw ql hql)
              subst hlen
              split at hstep
              · simp at hstep
              rename_i m' hm'
              refine ⟨tys, hf, ?_⟩
              rw [ih m' _ (tys ++ ts) bb (wt_ctor hwt hf hm')
                (patsWT_append env _ _ _ _ (patsWT_replicate_any env tys) hq) hstep]
              rw [useful_spec_ctor hm' _ rest (by simp)]
              constructor
              · rintro ⟨args, vs, ha, hv, _, hm2, hu⟩; exact ⟨args, vs, ha, hv, hm2, hu⟩
              · rintro ⟨args, vs, ha, hv, hm2, hu⟩
                refine ⟨args, vs, ha, hv, ?_, hm2, hu⟩
                rw [← hasTypes_length env _ _ ha]; exact matchPats_replicate_any true args
            cases b with
            | true =>
              obtain ⟨id, hid, hfid⟩ := anyE_true h
              have hid' : id < first.total env := by simpa using hid
              obtain ⟨tys, hf, hiff⟩ := step id true hid' hfid
              obtain ⟨args, vs, ha, hv, hm2, hu⟩ := hiff.mp rfl
              simp only [true_iff]
              exact ⟨.ctor id args :: vs,
                by simp [hasTypes, (hasType_ctor_iff env id args t).mpr ⟨tys, hf, ha⟩, hv],
                by simp [matchPats, matchPat, hm2], hu⟩
            | false =>
              have hall := anyE_false h
              simp only [Bool.false_eq_true, false_iff]
              rintro ⟨vs, hty, hm, hu⟩
              cases vs with
              | nil => simp [hasTypes] at hty
              | cons v vs =>
                simp only [hasTypes, matchPats, matchPat, Bool.true_and, Bool.and_eq_true] at hty hm
                obtain ⟨id, args, rfl⟩ := val_of_ctor_type env v t hty.1 htk
                obtain ⟨tys, hf, ha⟩ := (hasType_ctor_iff env id args t).mp hty.1
                have hid : id < first.total env := by rw [htot]; exact fieldsOf_lt hf
                obtain ⟨tys', hf', hiff⟩ := step id false hid (hall id (by simpa using hid))
                rw [hf] at hf'; cases hf'
                have := hiff.mpr ⟨args, vs, ha, hty.2, hm, hu⟩
                simp at this
          · -- some constructor is missing: default matrix
            rename_i hgt hneq
            split at h
            · simp at h
            rename_i m' hm'
            rw [ih m' rest ts b (wt_default hwt hm') hq h]
            have hlt : ctors.length < first.total env := by
              simp only [gt_iff_lt, Nat.not_lt] at hgt
              simp only [beq_iff_eq] at hneq
              omega
            exact (useful_default hm' (by simp [matchPat]) (fresh_missing_ctor hinh hwt inv hlt)).symm
    · -- constructor pattern
      rename_i sp cid params rest _
      cases tys with
      | nil => simp [patsWT] at hq
      | cons t ts =>
        simp only [patsWT, Bool.and_eq_true] at hq
        split at h
        · simp at h
        rename_i vid hv
        have hvid := (variantId_ok hv).1
        subst hvid
        cases t with
        | adt d =>
          have hq1 := hq.1
          simp only [patWT, Bool.and_eq_true] at hq1
          cases hvar : (env d).variants[cid.vid]? with
          | none => simp [hvar] at hq1
          | some tys =>
            simp only [hvar] at hq1
            have hf : fieldsOf env (.adt d) cid.vid = some tys := by simp [fieldsOf, hvar]
            have hlen := patsWT_length env _ _ hq1.2
            split at h
            · simp at h
            rename_i m' hm'
            rw [hlen] at hm'
            rw [ih m' _ (tys ++ ts) b (wt_ctor hwt hf hm') (patsWT_append env _ _ _ _ hq1.2 hq.2) h]
            rw [useful_spec_ctor hm' params rest hlen]
            constructor
            · rintro ⟨args, vs, ha, hv', hm1, hm2, hu⟩
              exact ⟨.ctor cid.vid args :: vs,
                by simp [hasTypes, (hasType_ctor_iff env _ args _).mpr ⟨tys, hf, ha⟩, hv'],
                by simp [matchPats, matchPat, hm1, hm2], hu⟩
            · rintro ⟨vs, hty, hm, hu⟩
              cases vs with
              | nil => simp [hasTypes] at hty
              | cons v vs =>
                simp only [hasTypes, matchPats, Bool.and_eq_true] at hty hm
                obtain ⟨id, args, rfl⟩ := val_of_ctor_type env v _ hty.1 (Or.inr ⟨d, rfl⟩)
                simp only [matchPat, Bool.and_eq_true, beq_iff_eq] at hm
                obtain ⟨⟨hid, hma⟩, hmr⟩ := hm
                subst hid
                obtain ⟨tys', hf', ha⟩ := (hasType_ctor_iff env _ args _).mp hty.1
                rw [hf] at hf'; cases hf'
                exact ⟨args, vs, ha, hty.2, hma, hmr, hu⟩
        | bool => simp [patWT] at hq
        | int => simp [patWT] at hq
        | char => simp [patWT] at hq
        | str => simp [patWT] at hq
        | guardT => simp [patWT] at hq
    · -- guard entry
      rename_i rest _
      cases tys with
      | nil => simp [patsWT] at hq
      | cons t ts =>
        simp only [patsWT, patWT, Bool.and_eq_true, beq_iff_eq] at hq
        obtain ⟨rfl, hq2⟩ := hq
        split at h
        · simp [panic] at h
        split at h
        · simp at h
        rename_i m' hm'
        rw [ih m' rest ts b (wt_default hwt hm') hq2 h]
        exact (useful_default hm' (by simp [matchPat]) (fresh_guard hwt)).symm

end Dora.Match
