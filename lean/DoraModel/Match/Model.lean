/-
Model of dora-frontend/src/exhaustiveness.rs (C11), function by function.

Representation choices (stated once, used everywhere):
* Every Rust `Vec<Pattern>` that the code uses as a STACK (`pop`/`push`/`last`/`append` at the end: matrix
  rows, the `p`/`q`/`r` parts of a `SplitRow`, `Pattern::Constructor::params`, witness rows) is stored
  REVERSED: the head of the Lean list is the last element of the Rust vector. So a constructor's `params`
  are in field order here (Rust stores them reversed so that `pop` yields field 0 first), `row.append(params)`
  is `params ++ row`, and the guard column (Rust index 0) is the LAST element of a row.
* `Pattern::Alt::alts` is iterated front to back in Rust and is kept in source order.
* `HashMap<usize, usize>` is an association list with replace-on-insert; `HashSet<Span>` a duplicate-free list
  (the code asserts that every insertion is new). Nothing depends on iteration order.
* A `Span` is the path of the pattern in the match: arm index followed by child indices.
* `assert!`/`unreachable!`/`expect`/`unimplemented!`/out-of-range indexing are `Except.error (.panic site)`.
* The recursion of `check_useful`, `check_exhaustive`, `check_useful_expand_inner` is not structural
  (an `_` is expanded to `arity` wildcards); the model takes a fuel argument, `.error .fuel` = ran out.
* Float literals are not modelled (NaN); `Int`, `Char`, `String` literals range over infinite sets.
-/
namespace Dora.Match

abbrev Span := List Nat

inductive Err where
  | panic (site : String)
  | fuel
  deriving DecidableEq, Repr

def panic {α : Type} (site : String) : Except Err α := .error (.panic site)

/-- `enum LiteralValue` (without `Float`). `char` is the code point, `str` the code points. -/
inductive Lit where
  | bool (b : Bool)
  | int (i : Int)
  | char (c : Nat)
  | str (s : List Nat)
  deriving DecidableEq, Repr

/-- `enum ConstructorId`; the ids are indices into the declaration table. -/
inductive CtorId where
  | bool
  | enum (e : Nat) (variant : Nat)
  | cls (c : Nat)
  | struct (s : Nat)
  | tuple
  deriving DecidableEq, Repr

/-- `enum Pattern` -/
inductive Pat where
  | any (sp : Option Span)
  | lit (sp : Span) (value : Lit)
  | ctor (sp : Span) (cid : CtorId) (params : List Pat)
  | alt (sp : Span) (alts : List Pat)
  | guard
  deriving Repr

/-- `Pattern::any_no_span` -/
def anyNoSpan : Pat := .any none

/-- `Pattern::span` -/
def Pat.span : Pat → Except Err Span
  | .any (some sp) => pure sp
  | .any none => panic "exhaustiveness.rs:1202 missing span"
  | .lit sp _ => pure sp
  | .alt sp _ => pure sp
  | .ctor sp _ _ => pure sp
  | .guard => panic "exhaustiveness.rs:1206 unreachable"

/-! ## Types, declarations, values (the semantic side) -/

inductive Ty where
  | bool | int | char | str
  | adt (d : Nat)
  /-- type of the guard column that `check_match` adds when some arm is guarded -/
  | guardT
  deriving DecidableEq, Repr

inductive Kind where
  | enum | cls | struct | tuple
  deriving DecidableEq, Repr

/-- one declared type: an enum with its variants' field types, or a single-variant struct/class/tuple -/
structure Decl where
  kind : Kind
  variants : List (List Ty)
  deriving Repr

/-- declaration table (total: unknown ids denote a unit-like struct, see `envOf`) -/
abbrev Env := Nat → Decl

def unitDecl : Decl := ⟨.struct, [[]]⟩

def envOf (ds : List Decl) : Env := fun i => ds.getD i unitDecl

/-- Values. A `Bool` value is `ctor 0 []` (false) / `ctor 1 []` (true) — the checker itself treats Bool
    as a two-constructor type (`ConstructorId::Bool`, ids `value as usize`). -/
inductive Val where
  | lit (l : Lit)
  | ctor (id : Nat) (args : List Val)
  | guardV
  deriving Repr

/-- `ConstructorId::variant_id` -/
def CtorId.variantId : CtorId → Except Err Nat
  | .bool => panic "exhaustiveness.rs:1123 unreachable"
  | .enum _ v => pure v
  | .tuple | .cls _ | .struct _ => pure 0

/-- total version used by the semantics -/
def CtorId.vid : CtorId → Nat
  | .enum _ v => v
  | _ => 0

/-- `ConstructorId::total` -/
def CtorId.total (env : Env) : CtorId → Nat
  | .bool => 2
  | .cls _ | .struct _ | .tuple => 1
  | .enum e _ => (env e).variants.length

/-- `ConstructorId::pattern` (spans `Span::new(1,1)` are `[]`) -/
def CtorId.pattern (self : CtorId) (id : Nat) (params : List Pat) : Except Err Pat :=
  match self with
  | .bool => if params.isEmpty then pure (.lit [] (.bool (id == 1))) else panic "exhaustiveness.rs:1132 assert"
  | .cls c => pure (.ctor [] (.cls c) params)
  | .struct s => pure (.ctor [] (.struct s) params)
  | .tuple => pure (.ctor [] .tuple params)
  | .enum e _ => pure (.ctor [] (.enum e id) params)

/-! ## matching -/

def litMatches (l : Lit) (v : Val) : Bool :=
  match l, v with
  | .bool b, .ctor id [] => id == b.toNat
  | .bool _, _ => false
  | l, .lit l' => decide (l = l')
  | _, _ => false

mutual
/-- `matchPat g p v`: does pattern `p` match value `v`; a `Guard` entry matches iff `g` (rows of the matrix
    are read with `g = false`: a guarded arm covers nothing; the row under test with `g = true`). -/
def matchPat (g : Bool) : Pat → Val → Bool
  | .any _, _ => true
  | .guard, _ => g
  | .lit _ l, v => litMatches l v
  | .ctor _ cid ps, .ctor id vs => cid.vid == id && matchPats g ps vs
  | .ctor _ _ _, _ => false
  | .alt _ ps, v => matchAlts g ps v
/-- pointwise, equal length -/
def matchPats (g : Bool) : List Pat → List Val → Bool
  | [], [] => true
  | p :: ps, v :: vs => matchPat g p v && matchPats g ps vs
  | _, _ => false
def matchAlts (g : Bool) : List Pat → Val → Bool
  | [], _ => false
  | p :: ps, v => matchPat g p v || matchAlts g ps v
end

/-- a row against a value vector (same list convention as rows) -/
abbrev matchRow (g : Bool) (row : List Pat) (vs : List Val) : Bool := matchPats g row vs

/-! ## `discover_signature` -/

abbrev CtorMap := List (Nat × Nat)

def CtorMap.insert (m : CtorMap) (k v : Nat) : CtorMap := (k, v) :: m.filter (fun e => e.1 != k)
def CtorMap.get (m : CtorMap) (k : Nat) : Option Nat := (m.find? (fun e => e.1 == k)).map (·.2)
def CtorMap.containsKey (m : CtorMap) (k : Nat) : Bool := m.any (fun e => e.1 == k)

/-- `enum Signature` -/
inductive Signature where
  | complete (ctors : CtorMap) (first : CtorId)
  | incomplete
  deriving Repr

abbrev SigState := CtorMap × Option CtorId

mutual
/-- `discover_signature_for_pattern` -/
def discoverPat : Pat → SigState → Except Err SigState
  | .alt _ alts, st => discoverPats alts st
  | .lit _ (.bool value), (ctors, kind) =>
    match kind with
    | none => pure (ctors.insert value.toNat 0, some .bool)
    | some .bool => pure (ctors.insert value.toNat 0, kind)
    | some _ => panic "exhaustiveness.rs:534 unreachable"
  | .lit _ _, st => pure st
  | .any _, st => pure st
  | .ctor _ cid params, (ctors, kind) =>
    match cid.variantId with
    | .error e => .error e
    | .ok vid => pure (ctors.insert vid params.length, match kind with | none => some cid | some k => some k)
  | .guard, st => pure st
def discoverPats : List Pat → SigState → Except Err SigState
  | [], st => pure st
  | p :: ps, st =>
    match discoverPat p st with
    | .error e => .error e
    | .ok st' => discoverPats ps st'
end

/-- the `for row in matrix` loop of `discover_signature` -/
def discoverRows : List (List Pat) → SigState → Except Err SigState
  | [], st => pure st
  | [] :: _, _ => panic "exhaustiveness.rs:504 missing pattern"
  | (p :: _) :: rows, st =>
    match discoverPat p st with
    | .error e => .error e
    | .ok st' => discoverRows rows st'

/-- `discover_signature` -/
def discoverSignature (matrix : List (List Pat)) : Except Err Signature :=
  match discoverRows matrix ([], none) with
  | .error e => .error e
  | .ok (ctors, some first) =>
    if ctors.isEmpty then panic "exhaustiveness.rs:510 assert" else pure (.complete ctors first)
  | .ok (_, none) => pure .incomplete

/-! ## row specialisation (`SpecializeRow` is implemented by `Vec<Pattern>` and by `SplitRow` through its `p`) -/

mutual
/-- `specialize_row_for_any` after `row.pop()`: `p` is the popped pattern, `row` the rest -/
def specAnyPat : Pat → List Pat → List (List Pat)
  | .alt _ alts, row => specAnyAlts alts row
  | .lit _ _, _ => []
  | .ctor _ _ _, _ => []
  | .guard, _ => []
  | .any _, row => [row]
def specAnyAlts : List Pat → List Pat → List (List Pat)
  | [], _ => []
  | p :: ps, row => specAnyPat p row ++ specAnyAlts ps row
end

/-- `specialize_row_for_any` -/
def specializeRowForAny : List Pat → Except Err (List (List Pat))
  | [] => panic "exhaustiveness.rs:1017 missing pattern"
  | p :: row => pure (specAnyPat p row)

mutual
def specLitPat (literal : Lit) : Pat → List Pat → Except Err (List (List Pat))
  | .alt _ alts, row => specLitAlts literal alts row
  | .lit _ value, row => if value = literal then pure [row] else pure []
  | .any _, row => pure [row]
  | .ctor _ _ _, _ => panic "exhaustiveness.rs:984 unreachable"
  | .guard, _ => panic "exhaustiveness.rs:984 unreachable"
def specLitAlts (literal : Lit) : List Pat → List Pat → Except Err (List (List Pat))
  | [], _ => pure []
  | p :: ps, row =>
    match specLitPat literal p row with
    | .error e => .error e
    | .ok a =>
      match specLitAlts literal ps row with
      | .error e => .error e
      | .ok b => pure (a ++ b)
end

/-- `specialize_row_for_literal` -/
def specializeRowForLiteral (literal : Lit) : List Pat → Except Err (List (List Pat))
  | [] => panic "exhaustiveness.rs:1017 missing pattern"
  | p :: row => specLitPat literal p row

mutual
def specCtorPat (id arity : Nat) : Pat → List Pat → Except Err (List (List Pat))
  | .alt _ alts, row => specCtorAlts id arity alts row
  | .lit _ (.bool value), row =>
    if arity != 0 then panic "exhaustiveness.rs:1052 assert"
    else if id == value.toNat then pure [row] else pure []
  | .lit _ _, _ => panic "exhaustiveness.rs:1065 unreachable"
  | .ctor _ cid params, row =>
    match cid.variantId with
    | .error e => .error e
    | .ok vid =>
      if id == vid then
        if arity != params.length then panic "exhaustiveness.rs:1073 assert" else pure [params ++ row]
      else pure []
  | .any _, row => pure [List.replicate arity anyNoSpan ++ row]
  | .guard, _ => panic "exhaustiveness.rs:1085 unimplemented"
def specCtorAlts (id arity : Nat) : List Pat → List Pat → Except Err (List (List Pat))
  | [], _ => pure []
  | p :: ps, row =>
    match specCtorPat id arity p row with
    | .error e => .error e
    | .ok a =>
      match specCtorAlts id arity ps row with
      | .error e => .error e
      | .ok b => pure (a ++ b)
end

/-- `specialize_row_for_constructor` -/
def specializeRowForConstructor (id arity : Nat) : List Pat → Except Err (List (List Pat))
  | [] => panic "exhaustiveness.rs:1017 missing pattern"
  | p :: row => specCtorPat id arity p row

/-- `.into_iter().flat_map(f).collect()` with a panicking `f` -/
def flatMapE {α β : Type} (f : α → Except Err (List β)) : List α → Except Err (List β)
  | [] => pure []
  | x :: xs =>
    match f x with
    | .error e => .error e
    | .ok a =>
      match flatMapE f xs with
      | .error e => .error e
      | .ok b => pure (a ++ b)

/-- `for x in xs { if f(x) { return true } } false` -/
def anyE {α : Type} (f : α → Except Err Bool) : List α → Except Err Bool
  | [] => pure false
  | x :: xs =>
    match f x with
    | .error e => .error e
    | .ok true => pure true
    | .ok false => anyE f xs

def mapE {α β : Type} (f : α → Except Err β) : List α → Except Err (List β)
  | [] => pure []
  | x :: xs =>
    match f x with
    | .error e => .error e
    | .ok a =>
      match mapE f xs with
      | .error e => .error e
      | .ok b => pure (a :: b)

/-! ## `check_useful` -/

/-- `check_useful(sa, matrix, pattern)` -/
def checkUseful (env : Env) : Nat → List (List Pat) → List Pat → Except Err Bool
  | 0, _, _ => .error .fuel
  | fuel + 1, matrix, pattern =>
    if matrix.any (fun row => row.length != pattern.length) then panic "exhaustiveness.rs:829 assert" else
    if matrix.isEmpty then pure true else
    match pattern with
    | [] => pure false
    | .alt _ alts :: pattern =>
      anyE (fun param => checkUseful env fuel matrix (param :: pattern)) alts
    | .lit _ value :: pattern =>
      match flatMapE (specializeRowForLiteral value) matrix with
      | .error e => .error e
      | .ok newMatrix => checkUseful env fuel newMatrix pattern
    | .any _ :: pattern =>
      match discoverSignature matrix with
      | .error e => .error e
      | .ok .incomplete =>
        match flatMapE specializeRowForAny matrix with
        | .error e => .error e
        | .ok newMatrix => checkUseful env fuel newMatrix pattern
      | .ok (.complete ctors first) =>
        let ctorsTotal := first.total env
        if ctors.length > ctorsTotal then panic "exhaustiveness.rs:878 assert" else
        if ctors.length == ctorsTotal then
          anyE (fun id =>
            match ctors.get id with
            | none => panic "exhaustiveness.rs:882 missing ctor"
            | some arity =>
              match flatMapE (specializeRowForConstructor id arity) matrix with
              | .error e => .error e
              | .ok newMatrix =>
                checkUseful env fuel newMatrix (List.replicate arity anyNoSpan ++ pattern))
            (List.range ctorsTotal)
        else
          match flatMapE specializeRowForAny matrix with
          | .error e => .error e
          | .ok newMatrix => checkUseful env fuel newMatrix pattern
    | .ctor _ cid params :: pattern =>
      match cid.variantId with
      | .error e => .error e
      | .ok vid =>
        match flatMapE (specializeRowForConstructor vid params.length) matrix with
        | .error e => .error e
        | .ok newMatrix => checkUseful env fuel newMatrix (params ++ pattern)
    | .guard :: pattern =>
      if !pattern.isEmpty then panic "exhaustiveness.rs:927 assert" else
      match flatMapE specializeRowForAny matrix with
      | .error e => .error e
      | .ok newMatrix => checkUseful env fuel newMatrix pattern

/-! ## `check_exhaustive` -/

/-- the closure of the `uncovered.into_iter().map(..)` in `check_exhaustive`: `row.drain(tail..)`, rebuild -/
def rebuildWitness (first : CtorId) (id arity tail : Nat) (row : List Pat) : Except Err (List Pat) :=
  if row.length < tail then panic "exhaustiveness.rs:430 drain out of range" else
  let k := row.length - tail
  if k != arity then panic "exhaustiveness.rs:431 assert" else
  match first.pattern id (row.take k) with
  | .error e => .error e
  | .ok p => pure (p :: row.drop k)

/-- the `for ctor_id in 0..ctors_total` loop that lists missing constructors (at most 5, then `_`) -/
def missingCtorRows (first : CtorId) (ctors : CtorMap) (row : List Pat) :
    List Nat → List (List Pat) → Except Err (List (List Pat))
  | [], acc => pure acc
  | ctorId :: ids, acc =>
    if ctors.containsKey ctorId then missingCtorRows first ctors row ids acc
    else if acc.length == 5 then pure (acc ++ [anyNoSpan :: row])
    else
      match first.pattern ctorId [] with
      | .error e => .error e
      | .ok p => missingCtorRows first ctors row ids (acc ++ [p :: row])

/-- `for id in 0..ctors_total { … if !result.is_empty() { return result } } Vec::new()` -/
def firstNonEmptyE (f : Nat → Except Err (List (List Pat))) : List Nat → Except Err (List (List Pat))
  | [] => pure []
  | id :: ids =>
    match f id with
    | .error e => .error e
    | .ok [] => firstNonEmptyE f ids
    | .ok (r :: rs) => pure (r :: rs)

/-- `check_exhaustive(sa, matrix, n)` -/
def checkExhaustive (env : Env) : Nat → List (List Pat) → Nat → Except Err (List (List Pat))
  | 0, _, _ => .error .fuel
  | fuel + 1, matrix, n =>
    if matrix.any (fun row => row.length != n) then panic "exhaustiveness.rs:374 assert" else
    if matrix.isEmpty then pure [List.replicate n anyNoSpan] else
    if n == 0 then pure [] else
    match discoverSignature matrix with
    | .error e => .error e
    | .ok .incomplete =>
      match flatMapE specializeRowForAny matrix with
      | .error e => .error e
      | .ok newMatrix =>
        match checkExhaustive env fuel newMatrix (n - 1) with
        | .error e => .error e
        | .ok result => pure (result.map (fun row => anyNoSpan :: row))
    | .ok (.complete ctors first) =>
      let ctorsTotal := first.total env
      if ctors.length > ctorsTotal then panic "exhaustiveness.rs:413 assert" else
      if ctors.length == ctorsTotal then
        firstNonEmptyE (fun id =>
          match ctors.get id with
          | none => panic "exhaustiveness.rs:417 missing ctor id"
          | some arity =>
            match flatMapE (specializeRowForConstructor id arity) matrix with
            | .error e => .error e
            | .ok newMatrix =>
              match checkExhaustive env fuel newMatrix (n + arity - 1) with
              | .error e => .error e
              | .ok uncovered => mapE (rebuildWitness first id arity (n - 1)) uncovered)
          (List.range ctorsTotal)
      else
        match flatMapE specializeRowForAny matrix with
        | .error e => .error e
        | .ok newMatrix =>
          match checkExhaustive env fuel newMatrix (n - 1) with
          | .error e => .error e
          | .ok [] => pure []
          | .ok [row] => missingCtorRows first ctors row (List.range ctorsTotal) []
          | .ok result => pure (result.map (fun row => anyNoSpan :: row))

/-! ## `check_useful_expand` -/

/-- `struct SplitRow` -/
structure SplitRow where
  p : List Pat
  q : List Pat
  r : List Pat
  deriving Repr

/-- `SplitRow::new` -/
def SplitRow.new (p : List Pat) : SplitRow := ⟨p, [], []⟩

/-- `enum Useless` -/
inductive Useless where
  | yes
  | set (spans : List Span)
  deriving Repr

def Useless.isYes : Useless → Bool
  | .yes => true
  | .set _ => false

/-- `assert!(spans.insert(span))` -/
def insertNew (spans : List Span) (sp : Span) : Except Err (List Span) :=
  if spans.contains sp then panic "exhaustiveness.rs:677 assert (span reported twice)" else pure (spans ++ [sp])

def insertAllNew : List Span → List Span → Except Err (List Span)
  | spans, [] => pure spans
  | spans, sp :: rest =>
    match insertNew spans sp with
    | .error e => .error e
    | .ok s => insertAllNew s rest

def collectSpans : List (Useless × Span) → List Span → Except Err (List Span)
  | [], spans => pure spans
  | (.yes, sp) :: rest, spans =>
    match insertNew spans sp with
    | .error e => .error e
    | .ok s => collectSpans rest s
  | (.set set, _) :: rest, spans =>
    match insertAllNew spans set with
    | .error e => .error e
    | .ok s => collectSpans rest s

/-- `Useless::union_all` -/
def unionAll (results : List (Useless × Span)) : Except Err Useless :=
  if results.all (fun e => e.1.isYes) then pure .yes
  else
    match collectSpans results [] with
    | .error e => .error e
    | .ok spans => pure (.set spans)

/-- lift a row specialisation to `SplitRow` (the trait methods only touch `p`) -/
def onP (f : List Pat → Except Err (List (List Pat))) (row : SplitRow) : Except Err (List SplitRow) :=
  match f row.p with
  | .error e => .error e
  | .ok ps => pure (ps.map (fun p => { row with p := p }))

/-- `shift_p_into_q` -/
def SplitRow.shiftPIntoQ (row : SplitRow) : Except Err SplitRow :=
  match row.p with
  | [] => panic "exhaustiveness.rs:581 missing pattern"
  | x :: p => pure { row with p := p, q := x :: row.q }

/-- `shift_p_into_r` -/
def SplitRow.shiftPIntoR (row : SplitRow) : Except Err SplitRow :=
  match row.p with
  | [] => panic "exhaustiveness.rs:586 missing pattern"
  | x :: p => pure { row with p := p, r := x :: row.r }

/-- the `for alt in alts` loop: `matrix` grows by one row per alternative already tried -/
def altLoop (inner : List SplitRow → SplitRow → Except Err Useless) (qcat : List Pat) :
    List Pat → List SplitRow → Except Err (List (Useless × Span))
  | [], _ => pure []
  | alt :: alts, matrix =>
    match inner matrix ⟨[alt], qcat, []⟩ with
    | .error e => .error e
    | .ok altResult =>
      match alt.span with
      | .error e => .error e
      | .ok sp =>
        match altLoop inner qcat alts (matrix ++ [⟨[alt], qcat, []⟩]) with
        | .error e => .error e
        | .ok rest => pure ((altResult, sp) :: rest)

/-- body of `for (r_idx, r_pattern) in pattern.r.iter().enumerate()`; `j` indexes the Lean (reversed) list -/
def expandColumn (inner : List SplitRow → SplitRow → Except Err Useless)
    (matrix : List SplitRow) (pattern : SplitRow) (j : Nat) : Except Err (Useless × Span) :=
  match pattern.r[j]? with
  | none => panic "exhaustiveness.rs:782 index out of range"
  | some rPattern =>
    match rPattern with
    | .alt sp alts =>
      match mapE (fun (row : SplitRow) =>
          match row.r[j]? with
          | none => panic "exhaustiveness.rs:646 remove index out of range"
          | some x => pure (⟨[x], row.r.eraseIdx j ++ row.q, []⟩ : SplitRow)) matrix with
      | .error e => .error e
      | .ok newMatrix =>
        match altLoop inner (pattern.r.eraseIdx j ++ pattern.q) alts newMatrix with
        | .error e => .error e
        | .ok results =>
          match unionAll results with
          | .error e => .error e
          | .ok u => pure (u, sp)
    | _ => panic "exhaustiveness.rs:777 unreachable"

/-- `check_useful_expand_inner(sa, matrix, pattern)` -/
def checkUsefulExpandInner (env : Env) : Nat → List SplitRow → SplitRow → Except Err Useless
  | 0, _, _ => .error .fuel
  | fuel + 1, matrix, pattern =>
    if matrix.any (fun row => row.p.length != pattern.p.length || row.q.length != pattern.q.length
        || row.r.length != pattern.r.length) then panic "exhaustiveness.rs:697 assert" else
    match pattern.p with
    | .lit _ value :: p =>
      match flatMapE (onP (specializeRowForLiteral value)) matrix with
      | .error e => .error e
      | .ok newMatrix => checkUsefulExpandInner env fuel newMatrix { pattern with p := p }
    | .ctor _ cid params :: p =>
      match cid.variantId with
      | .error e => .error e
      | .ok vid =>
        match flatMapE (onP (specializeRowForConstructor vid params.length)) matrix with
        | .error e => .error e
        | .ok newMatrix => checkUsefulExpandInner env fuel newMatrix { pattern with p := params ++ p }
    | .any sp :: p =>
      match mapE SplitRow.shiftPIntoQ matrix with
      | .error e => .error e
      | .ok newMatrix => checkUsefulExpandInner env fuel newMatrix { pattern with p := p, q := .any sp :: pattern.q }
    | .alt sp alts :: p =>
      match mapE SplitRow.shiftPIntoR matrix with
      | .error e => .error e
      | .ok newMatrix =>
        checkUsefulExpandInner env fuel newMatrix { pattern with p := p, r := .alt sp alts :: pattern.r }
    | .guard :: p =>
      if !p.isEmpty then panic "exhaustiveness.rs:752 assert" else
      match flatMapE (onP specializeRowForAny) matrix with
      | .error e => .error e
      | .ok newMatrix => checkUsefulExpandInner env fuel newMatrix { pattern with p := p }
    | [] =>
      if pattern.r.isEmpty then
        match checkUseful env fuel (matrix.map (·.q)) pattern.q with
        | .error e => .error e
        | .ok true => pure (.set [])
        | .ok false => pure .yes
      else
        match mapE (expandColumn (checkUsefulExpandInner env fuel) matrix pattern)
            (List.range pattern.r.length).reverse with
        | .error e => .error e
        | .ok rPatternUseless => unionAll rPatternUseless

/-- `check_useful_expand` -/
def checkUsefulExpand (env : Env) (fuel : Nat) (matrix : List (List Pat)) (row : List Pat) : Except Err Useless :=
  checkUsefulExpandInner env fuel (matrix.map SplitRow.new) (SplitRow.new row)

/-! ## surface patterns (what the type checker hands over) and `convert_pattern` -/

/-- what a constructor pattern's path resolved to (`IdentType`) -/
inductive Target where
  | variant (e : Nat) (v : Nat)
  | cls (c : Nat)
  | struct (s : Nat)
  deriving DecidableEq, Repr

/-- `sema::Pattern` after type checking. In `ctor`, `names[i]` is the resolved field index of a
    `name = pat` item (`field_by_name`), `none` for a positional item; `pats[i]` its pattern (`rest` = `..`). -/
inductive SPat where
  | underscore
  | rest
  | litBool (b : Bool)
  | lit (l : Lit)            -- LitInt / LitChar / LitStr with the constant the type checker stored
  | tuple (arity : Nat) (pats : List SPat)   -- arity = `body.ty_opt(pattern_id).tuple_subtypes().len()`
  | var                      -- Ident resolved to a variable
  | identVariant (e v : Nat) -- Ident / path without parentheses resolved to an enum variant
  | const (l : Lit)          -- Ident resolved to a constant
  | alt (pats : List SPat)
  | ctor (t : Target) (names : List (Option Nat)) (pats : List SPat)
  deriving Repr

def SPat.isRest : SPat → Bool
  | .rest => true
  | _ => false

def Target.fieldCount (env : Env) : Target → Nat
  | .variant e v => ((env e).variants.getD v []).length
  | .cls c => ((env c).variants.getD 0 []).length
  | .struct s => ((env s).variants.getD 0 []).length

def Target.ctorId : Target → CtorId
  | .variant e v => .enum e v
  | .cls c => .cls c
  | .struct s => .struct s

/-- The field index the type checker records for every positional item (`insert_field_id` in
    `check_subpatterns` / `check_pattern_tuple` of typeck/pattern.rs): `idx` counts up; at the first `..` it
    jumps by `n - (number of items - 1)` (saturating), so the items after the `..` meet the LAST fields.
    `none` for a `..` item. `n` = number of fields, `m` = number of items. -/
def tcIndices (n m : Nat) : Nat → Bool → List SPat → List (Option Nat)
  | _, _, [] => []
  | idx, seen, p :: ps =>
    match p with
    | .rest => none :: tcIndices n m (if seen then idx else idx + (n - (m - 1))) true ps
    | _ => some idx :: tcIndices n m (idx + 1) seen ps

/-- `result[field_idx] = Some(p)` -/
def setSlot (result : List (Option Pat)) (idx : Nat) (p : Pat) : Except Err (List (Option Pat)) :=
  if idx < result.length then pure (result.set idx (some p)) else panic "exhaustiveness.rs:1511 index out of bounds"

mutual
/-- `convert_pattern`; `sp` is the span (path) of this pattern -/
def convertPattern (env : Env) (sp : Span) : SPat → Except Err Pat
  | .underscore => pure (.any (some sp))
  | .rest => panic "exhaustiveness.rs:1267 unreachable"
  | .litBool b => pure (.lit sp (.bool b))
  | .lit l => pure (.lit sp l)
  | .tuple arity pats =>
    if pats.any SPat.isRest then
      match convertTupleRest env sp 0 arity (tcIndices arity pats.length 0 false pats) pats
          (List.replicate arity none) with
      | .error e => .error e
      | .ok result => pure (.ctor sp .tuple (result.map (fun t => t.getD anyNoSpan)))
    else
      match convertList env sp 0 pats with
      | .error e => .error e
      | .ok ps => pure (.ctor sp .tuple ps)
  | .var => pure (.any (some sp))
  | .identVariant e v => pure (.ctor sp (.enum e v) [])
  | .const l => pure (.lit sp l)
  | .alt pats =>
    match convertList env sp 0 pats with
    | .error e => .error e
    | .ok ps => pure (.alt sp ps)
  | .ctor t names pats =>
    if pats.isEmpty then pure (.ctor sp t.ctorId []) else
    match convertFields env sp 0 0 (t.fieldCount env) (tcIndices (t.fieldCount env) pats.length 0 false pats)
        names pats (List.replicate (t.fieldCount env) none) with
    | .error e => .error e
    | .ok result => pure (.ctor sp t.ctorId (result.map (fun t => t.getD anyNoSpan)))
/-- `.iter().map(convert_pattern)` with child index `i` -/
def convertList (env : Env) (sp : Span) (i : Nat) : List SPat → Except Err (List Pat)
  | [] => pure []
  | p :: ps =>
    match convertPattern env (sp ++ [i]) p with
    | .error e => .error e
    | .ok a =>
      match convertList env sp (i + 1) ps with
      | .error e => .error e
      | .ok b => pure (a :: b)
/-- the `for field in &ctor.fields` loop of `convert_subpatterns` (`i` = item index, for the span; `tc` = the
    recorded field ids, `body.get_field_id`) -/
def convertFields (env : Env) (sp : Span) (i positionalIdx n : Nat) :
    List (Option Nat) → List (Option Nat) → List SPat → List (Option Pat) → Except Err (List (Option Pat))
  | rec :: tc, name :: names, p :: ps, result =>
    match p with
    | .rest => convertFields env sp (i + 1) positionalIdx n tc names ps result
    | p =>
      let fieldIdx := match name with
        | some k => k
        | none => match rec with
          | some idx => if idx < n then idx else positionalIdx
          | none => positionalIdx
      let positionalIdx' := match name with | some _ => positionalIdx | none => positionalIdx + 1
      match convertPattern env (sp ++ [i]) p with
      | .error e => .error e
      | .ok cp =>
        match setSlot result fieldIdx cp with
        | .error e => .error e
        | .ok result' => convertFields env sp (i + 1) positionalIdx' n tc names ps result'
  | _, _, _, result => pure result
/-- the `for &subpattern_id in &tuple.patterns` loop of the tuple case when the pattern has a `..` -/
def convertTupleRest (env : Env) (sp : Span) (i n : Nat) :
    List (Option Nat) → List SPat → List (Option Pat) → Except Err (List (Option Pat))
  | rec :: tc, p :: ps, result =>
    match p with
    | .rest => convertTupleRest env sp (i + 1) n tc ps result
    | p =>
      match rec with
      | some idx =>
        if idx < n then
          match convertPattern env (sp ++ [i]) p with
          | .error e => .error e
          | .ok cp => convertTupleRest env sp (i + 1) n tc ps (result.set idx (some cp))
        else convertTupleRest env sp (i + 1) n tc ps result
      | none => convertTupleRest env sp (i + 1) n tc ps result
  | _, _, result => pure result
end

/-- one arm of a `match`: guarded?, pattern -/
structure Arm where
  guarded : Bool
  pat : SPat
  deriving Repr

structure MatchResult where
  useless : List Span
  missing : List (List Pat)
  deriving Repr

def uselessSpans (armSpan : Span) : Useless → List Span
  | .yes => [armSpan]
  | .set spans => spans

/-- the `for arm in &match_expr.arms` loop of `check_match` -/
def checkArms (env : Env) (fuel : Nat) (anyGuard : Bool) :
    Nat → List Arm → List (List Pat) → List Span → Except Err (List (List Pat) × List Span)
  | _, [], matrix, acc => pure (matrix, acc)
  | i, arm :: arms, matrix, acc =>
    match convertPattern env [i] arm.pat with
    | .error e => .error e
    | .ok cp =>
      let row := if anyGuard then [cp, if arm.guarded then Pat.guard else anyNoSpan] else [cp]
      match checkUsefulExpand env fuel matrix row with
      | .error e => .error e
      | .ok useless => checkArms env fuel anyGuard (i + 1) arms (matrix ++ [row]) (acc ++ uselessSpans [i] useless)

/-- `check_match` -/
def checkMatch (env : Env) (fuel : Nat) (arms : List Arm) : Except Err MatchResult :=
  let anyGuard := arms.any (·.guarded)
  let perRow := if anyGuard then 2 else 1
  match checkArms env fuel anyGuard 0 arms [] [] with
  | .error e => .error e
  | .ok (matrix, useless) =>
    match checkExhaustive env fuel matrix perRow with
    | .error e => .error e
    | .ok missing =>
      if missing.any (fun row => row.length != perRow) then panic "exhaustiveness.rs:237 assert"
      else pure ⟨useless, missing⟩

/-! ## run-time meaning of surface patterns (what the lowering implements; the specification) -/

mutual
/-- does the surface pattern match the value? Sub-patterns after a `..` are aligned to the END. -/
def smatch : SPat → Val → Bool
  | .underscore, _ => true
  | .rest, _ => true
  | .var, _ => true
  | .litBool b, v => litMatches (.bool b) v
  | .lit l, v => litMatches l v
  | .const l, v => litMatches l v
  | .identVariant _ v, .ctor id _ => v == id
  | .identVariant _ _, _ => false
  | .alt pats, v => smatchAny pats v
  | .tuple _ pats, .ctor _ vs => smatchPos pats vs
  | .tuple _ _, _ => false
  | .ctor t names pats, .ctor id vs =>
    (match t with | .variant _ v => v == id | _ => true) &&
    (if names.any Option.isSome then smatchNamed names pats vs else smatchPos pats vs)
  | .ctor _ _ _, _ => false
def smatchAny : List SPat → Val → Bool
  | [], _ => false
  | p :: ps, v => smatch p v || smatchAny ps v
/-- positional items against the field values; at a `..` skip so that the remaining items meet the last values -/
def smatchPos : List SPat → List Val → Bool
  | [], _ => true
  | p :: ps, vs =>
    match p with
    | .rest => smatchPos ps (vs.drop (vs.length - ps.length))
    | p =>
      match vs with
      | [] => false
      | v :: vs' => smatch p v && smatchPos ps vs'
/-- named items: `name = pat` tests field `name`; `..` and binders test nothing -/
def smatchNamed : List (Option Nat) → List SPat → List Val → Bool
  | some k :: names, p :: ps, vs =>
    (match vs[k]? with | some v => smatch p v | none => false) && smatchNamed names ps vs
  | none :: names, _ :: ps, vs => smatchNamed names ps vs
  | _, _, _ => true
end

/-- the arm the lowering must select: least index whose pattern matches and whose guard (if any) holds -/
def firstMatchFrom (guards : Nat → Bool) (v : Val) : Nat → List Arm → Option Nat
  | _, [] => none
  | i, arm :: arms =>
    if smatch arm.pat v && (!arm.guarded || guards i) then some i else firstMatchFrom guards v (i + 1) arms

def firstMatch (arms : List Arm) (guards : Nat → Bool) (v : Val) : Option Nat :=
  firstMatchFrom guards v 0 arms

/-! ## typing of values (semantic side; `hasType env v t`) -/

def litTy : Lit → Option Ty
  | .bool _ => none      -- Bool values are constructors
  | .int _ => some .int
  | .char _ => some .char
  | .str _ => some .str

mutual
def hasType (env : Env) : Val → Ty → Bool
  | .lit l, t => litTy l == some t
  | .guardV, t => t == .guardT
  | .ctor id args, .bool => id < 2 && args.isEmpty
  | .ctor id args, .adt d =>
    match (env d).variants[id]? with
    | none => false
    | some tys => hasTypes env args tys
  | .ctor _ _, _ => false
def hasTypes (env : Env) : List Val → List Ty → Bool
  | [], [] => true
  | v :: vs, t :: ts => hasType env v t && hasTypes env vs ts
  | _, _ => false
end

end Dora.Match
