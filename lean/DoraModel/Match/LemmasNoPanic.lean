import DoraModel.Match.LemmasExh
import DoraModel.Match.LemmasExpand
/-!
C11: well-typed inputs never reach an `assert!` / `unreachable!` / `expect` of `check_useful` and
`check_exhaustive` (the model's `.error (.panic site)`; running out of fuel is not a panic).

Hypotheses beyond column typing (`matrixWT`, `patsWT`):
* `NoGuardFields env`: no declared variant has a field of the guard pseudo-type `Ty.guardT`;
* `guardOK q tys` (only `check_useful`): in every column of type `guardT` other than the last one, the
  row under test has no `Pattern::Guard` leaf. `check_match` only builds rows `[pat]` / `[pat, guard]`
  whose guard column is the last one (`guardOK_of_guardLast`), and the rows `check_useful_expand_inner`
  hands over contain no `Guard` at all (`guardOK_of_noGuard`).
-/
namespace Dora.Match

/-! ### errors of the `Except` list helpers -/

theorem flatMapE_total {α β : Type} {f : α → Except Err (List β)} : ∀ {xs : List α},
    (∀ x ∈ xs, ∃ zs, f x = .ok zs) → ∃ ys, flatMapE f xs = .ok ys
  | [], _ => ⟨[], rfl⟩
  | x :: xs, h => by
    obtain ⟨a, ha⟩ := h x List.mem_cons_self
    obtain ⟨b, hb⟩ := flatMapE_total (xs := xs) (fun x' hx' => h x' (List.mem_cons_of_mem _ hx'))
    exact ⟨a ++ b, by simp [flatMapE, ha, hb, pure, Except.pure]⟩

theorem flatMapE_error {α β : Type} {f : α → Except Err (List β)} {e : Err} : ∀ {xs : List α},
    flatMapE f xs = .error e → ∃ x ∈ xs, f x = .error e
  | [], h => by simp [flatMapE, pure, Except.pure] at h
  | x :: xs, h => by
    simp only [flatMapE] at h
    cases hf : f x with
    | error e' =>
      simp only [hf, Except.error.injEq] at h
      subst h
      exact ⟨x, List.mem_cons_self, hf⟩
    | ok a =>
      cases hr : flatMapE f xs with
      | error e' =>
        simp only [hf, hr, Except.error.injEq] at h
        subst h
        obtain ⟨y, hy, hfy⟩ := flatMapE_error hr
        exact ⟨y, List.mem_cons_of_mem _ hy, hfy⟩
      | ok b => simp [hf, hr, pure, Except.pure] at h

theorem anyE_error {α : Type} {f : α → Except Err Bool} {e : Err} : ∀ {xs : List α},
    anyE f xs = .error e → ∃ x ∈ xs, f x = .error e
  | [], h => by simp [anyE, pure, Except.pure] at h
  | x :: xs, h => by
    simp only [anyE] at h
    cases hf : f x with
    | error e' =>
      simp only [hf, Except.error.injEq] at h
      subst h
      exact ⟨x, List.mem_cons_self, hf⟩
    | ok b =>
      cases b with
      | true => simp [hf, pure, Except.pure] at h
      | false =>
        simp only [hf] at h
        obtain ⟨y, hy, hfy⟩ := anyE_error h
        exact ⟨y, List.mem_cons_of_mem _ hy, hfy⟩

theorem mapE_error {α β : Type} {f : α → Except Err β} {e : Err} : ∀ {xs : List α},
    mapE f xs = .error e → ∃ x ∈ xs, f x = .error e
  | [], h => by simp [mapE, pure, Except.pure] at h
  | x :: xs, h => by
    simp only [mapE] at h
    cases hf : f x with
    | error e' =>
      simp only [hf, Except.error.injEq] at h
      subst h
      exact ⟨x, List.mem_cons_self, hf⟩
    | ok a =>
      cases hr : mapE f xs with
      | error e' =>
        simp only [hf, hr, Except.error.injEq] at h
        subst h
        obtain ⟨y, hy, hfy⟩ := mapE_error hr
        exact ⟨y, List.mem_cons_of_mem _ hy, hfy⟩
      | ok b => simp [hf, hr, pure, Except.pure] at h

theorem firstNonEmptyE_error {f : Nat → Except Err (List (List Pat))} {e : Err} : ∀ {ids : List Nat},
    firstNonEmptyE f ids = .error e → ∃ id ∈ ids, f id = .error e
  | [], h => by simp [firstNonEmptyE, pure, Except.pure] at h
  | id :: ids, h => by
    simp only [firstNonEmptyE] at h
    split at h
    · rename_i e' hf
      simp only [Except.error.injEq] at h
      subst h
      exact ⟨id, List.mem_cons_self, hf⟩
    · obtain ⟨y, hy, hfy⟩ := firstNonEmptyE_error h
      exact ⟨y, List.mem_cons_of_mem _ hy, hfy⟩
    · simp [pure, Except.pure] at h

/-! ### the guard column -/

/-- no declared variant has a field of the guard pseudo-type -/
def NoGuardFields (env : Env) : Prop := ∀ d, ∀ tys ∈ (env d).variants, Ty.guardT ∉ tys

/-- `Ty.guardT` occurs only as the type of the last column -/
def guardLast (tys : List Ty) : Prop := ∀ i, tys[i]? = some .guardT → i + 1 = tys.length

/-- in a `guardT` column that is not the last one the row under test has no `Guard` leaf -/
def guardOK : List Pat → List Ty → Prop
  | p :: ps, t :: ts => (t = .guardT → ts = [] ∨ Pat.guard ∉ leaves p) ∧ guardOK ps ts
  | _, _ => True

theorem guardOK_of_guardLast : ∀ (q : List Pat) (tys : List Ty), guardLast tys → guardOK q tys
  | [], _, _ => by simp [guardOK]
  | _ :: _, [], _ => by simp [guardOK]
  | p :: ps, t :: ts, h => by
    simp only [guardOK]
    refine ⟨?_, guardOK_of_guardLast ps ts ?_⟩
    · intro ht
      subst ht
      have := h 0 (by simp)
      simp only [List.length_cons] at this
      left
      exact List.eq_nil_of_length_eq_zero (by omega)
    · intro i hi
      have := h (i + 1) (by simpa using hi)
      simp only [List.length_cons] at this
      omega

theorem guardOK_of_noGuard : ∀ (q : List Pat) (tys : List Ty), (∀ p ∈ q, Pat.guard ∉ leaves p) → guardOK q tys
  | [], _, _ => by simp [guardOK]
  | _ :: _, [], _ => by simp [guardOK]
  | p :: ps, t :: ts, h => by
    simp only [guardOK]
    exact ⟨fun _ => Or.inr (h p List.mem_cons_self),
      guardOK_of_noGuard ps ts (fun p' hp' => h p' (List.mem_cons_of_mem _ hp'))⟩

theorem guardOK_append {env : Env} : ∀ (ps : List Pat) (tys : List Ty) (rest : List Pat) (ts : List Ty),
    patsWT env ps tys = true → Ty.guardT ∉ tys → guardOK rest ts → guardOK (ps ++ rest) (tys ++ ts)
  | [], [], rest, ts, _, _, h => by simpa using h
  | [], _ :: _, _, _, h, _, _ => by simp [patsWT] at h
  | _ :: _, [], _, _, h, _, _ => by simp [patsWT] at h
  | p :: ps, t :: tys, rest, ts, h, hng, hr => by
    simp only [patsWT, Bool.and_eq_true] at h
    simp only [List.cons_append, guardOK]
    simp only [List.mem_cons, not_or] at hng
    exact ⟨fun ht => absurd ht.symm hng.1, guardOK_append ps tys rest ts h.2 hng.2 hr⟩

theorem fieldsOf_noGuard {env : Env} (hnog : NoGuardFields env) {t : Ty} {id : Nat} {tys : List Ty}
    (h : fieldsOf env t id = some tys) : Ty.guardT ∉ tys := by
  cases t with
  | bool =>
    simp only [fieldsOf] at h
    by_cases h2 : id < 2 <;> simp [h2] at h
    subst h; simp
  | adt d =>
    simp only [fieldsOf] at h
    exact hnog d tys (List.mem_of_getElem? h)
  | int => simp [fieldsOf] at h
  | char => simp [fieldsOf] at h
  | str => simp [fieldsOf] at h
  | guardT => simp [fieldsOf] at h

theorem mem_leaves_of_mem_alts : ∀ (alts : List Pat) (a : Pat), a ∈ alts → ∀ q ∈ leaves a, q ∈ leavesL alts
  | [], _, h, _, _ => by simp at h
  | x :: xs, a, h, q, hq => by
    simp only [leavesL, List.mem_append]
    rcases List.mem_cons.mp h with rfl | h
    · exact Or.inl hq
    · exact Or.inr (mem_leaves_of_mem_alts xs a h q hq)

theorem altsWT_mem {env : Env} {t : Ty} : ∀ (l : List Pat), altsWT env l t = true → ∀ a ∈ l, patWT env a t = true
  | [], _, a, ha => by simp at ha
  | x :: xs, hx, a, ha => by
    simp only [altsWT, Bool.and_eq_true] at hx
    rcases List.mem_cons.mp ha with rfl | ha
    · exact hx.1
    · exact altsWT_mem xs hx.2 a ha

/-! ### row specialisation cannot fail on a well-typed column -/

theorem rows_nonempty {env : Env} {m : List (List Pat)} {t : Ty} {ts : List Ty}
    (hwt : matrixWT env m (t :: ts)) : ∀ r ∈ m, ∃ p rest, r = p :: rest ∧ patWT env p t = true ∧
      patsWT env rest ts = true := by
  intro r hr
  have := hwt r hr
  cases r with
  | nil => simp [patsWT] at this
  | cons p rest =>
    simp only [patsWT, Bool.and_eq_true] at this
    exact ⟨p, rest, rfl, this.1, this.2⟩

theorem specAny_total {env : Env} {m : List (List Pat)} {t : Ty} {ts : List Ty}
    (hwt : matrixWT env m (t :: ts)) : ∃ m', flatMapE specializeRowForAny m = .ok m' := by
  apply flatMapE_total
  intro r hr
  obtain ⟨p, rest, rfl, _, _⟩ := rows_nonempty hwt r hr
  exact ⟨_, rfl⟩

theorem specLit_total {env : Env} {m : List (List Pat)} {t : Ty} {ts : List Ty} {sp : Span} {l0 : Lit}
    (hl : patWT env (.lit sp l0) t = true) (l : Lit)
    (hwt : matrixWT env m (t :: ts)) : ∃ m', flatMapE (specializeRowForLiteral l) m = .ok m' := by
  apply flatMapE_total
  intro r hr
  obtain ⟨p, rest, rfl, hp, _⟩ := rows_nonempty hwt r hr
  simp only [specializeRowForLiteral]
  rw [specLitPat_leaves]
  apply flatMapE_total
  intro q hq
  have hqwt := (patWT_leaves env p t hp).2 q hq
  have hna := leaves_not_alt p q hq
  cases q with
  | alt _ _ => simp [Pat.isAlt] at hna
  | any _ => exact ⟨_, rfl⟩
  | lit _ v =>
    simp only [specLitPat]
    by_cases hv : v = l <;> simp [hv, pure, Except.pure]
  | ctor _ _ _ =>
    exfalso
    cases t <;> simp [patWT] at hqwt
    cases l0 <;> simp [patWT, litTy] at hl
  | guard =>
    exfalso
    have ht : t = .guardT := by simpa [patWT] using hqwt
    subst ht
    cases l0 <;> simp [patWT, litTy] at hl

theorem specCtor_total {env : Env} {m : List (List Pat)} {t : Ty} {ts tys : List Ty} {id : Nat}
    (hf : fieldsOf env t id = some tys)
    (hwt : matrixWT env m (t :: ts)) : ∃ m', flatMapE (specializeRowForConstructor id tys.length) m = .ok m' := by
  apply flatMapE_total
  intro r hr
  obtain ⟨p, rest, rfl, hp, _⟩ := rows_nonempty hwt r hr
  simp only [specializeRowForConstructor]
  rw [specCtorPat_leaves]
  apply flatMapE_total
  intro q hq
  have hqwt := (patWT_leaves env p t hp).2 q hq
  have hna := leaves_not_alt p q hq
  cases q with
  | alt _ _ => simp [Pat.isAlt] at hna
  | any _ => exact ⟨_, rfl⟩
  | lit _ v =>
    cases v with
    | bool b =>
      have ht : t = .bool := by simpa [patWT] using hqwt
      subst ht
      simp only [fieldsOf] at hf
      have htys : tys = [] := by
        by_cases h2 : id < 2 <;> simp [h2] at hf
        exact hf
      subst htys
      simp only [specCtorPat, List.length_nil, bne_self_eq_false, Bool.false_eq_true, ↓reduceIte]
      by_cases hid : id = b.toNat <;> simp [hid, pure, Except.pure]
    | int _ =>
      exfalso
      simp only [patWT, litTy, beq_iff_eq, Option.some.injEq] at hqwt
      subst hqwt; simp [fieldsOf] at hf
    | char _ =>
      exfalso
      simp only [patWT, litTy, beq_iff_eq, Option.some.injEq] at hqwt
      subst hqwt; simp [fieldsOf] at hf
    | str _ =>
      exfalso
      simp only [patWT, litTy, beq_iff_eq, Option.some.injEq] at hqwt
      subst hqwt; simp [fieldsOf] at hf
  | ctor _ cid ps =>
    cases t with
    | adt d =>
      simp only [patWT, Bool.and_eq_true] at hqwt
      cases hvar : (env d).variants[cid.vid]? with
      | none => simp [hvar] at hqwt
      | some tys' =>
        simp only [hvar] at hqwt
        have hlen := patsWT_length env _ _ hqwt.2
        have hcid : cid.variantId = .ok cid.vid := by
          have hok := hqwt.1
          cases cid <;> simp_all [ctorOk, CtorId.variantId, CtorId.vid, pure, Except.pure]
        simp only [specCtorPat, hcid]
        by_cases hid : id = cid.vid
        · subst hid
          simp only [fieldsOf] at hf
          rw [hvar] at hf
          cases hf
          simp [hlen, pure, Except.pure]
        · simp [hid, pure, Except.pure]
    | bool => simp [patWT] at hqwt
    | int => simp [patWT] at hqwt
    | char => simp [patWT] at hqwt
    | str => simp [patWT] at hqwt
    | guardT => simp [patWT] at hqwt
  | guard =>
    exfalso
    have ht : t = .guardT := by simpa [patWT] using hqwt
    subst ht
    simp [fieldsOf] at hf

/-! ### `discover_signature` cannot fail on a well-typed column -/

theorem CtorMap.keys_nodup_insert (m : CtorMap) (k v : Nat) (h : (m.map (·.1)).Nodup) :
    ((m.insert k v).map (·.1)).Nodup := by
  simp only [CtorMap.insert, List.map_cons, List.nodup_cons]
  constructor
  · intro hmem
    obtain ⟨e, he, hek⟩ := List.mem_map.mp hmem
    have := (List.mem_filter.mp he).2
    simp [hek] at this
  · exact List.Nodup.sublist (List.Sublist.map _ List.filter_sublist) h

/-- what the fold has established, as far as panics are concerned: a `first` other than `Bool` is never
    recorded in a `Bool` column, a key is present once `first` is set, keys are distinct -/
structure DInv (t : Ty) (st : SigState) : Prop where
  kind : ∀ c, st.2 = some c → t = .bool → c = .bool
  nonempty : st.2 ≠ none → st.1 ≠ []
  nodup : (st.1.map (·.1)).Nodup

theorem dInv_nil (t : Ty) : DInv t ([], none) := ⟨by simp, by simp, by simp⟩

theorem insert_ne_nil (m : CtorMap) (k v : Nat) : m.insert k v ≠ [] := by simp [CtorMap.insert]

mutual
theorem discoverPat_total (env : Env) (t : Ty) : ∀ (p : Pat) (st : SigState), patWT env p t = true → DInv t st →
    ∃ st', discoverPat p st = .ok st' ∧ DInv t st'
  | .alt _ ps, st, h, inv => by
    simp only [patWT, Bool.and_eq_true] at h
    simpa [discoverPat] using discoverPats_total env t ps st h.2 inv
  | .any _, st, _, inv => ⟨st, rfl, inv⟩
  | .guard, st, _, inv => ⟨st, rfl, inv⟩
  | .lit _ (.int _), st, _, inv => ⟨st, rfl, inv⟩
  | .lit _ (.char _), st, _, inv => ⟨st, rfl, inv⟩
  | .lit _ (.str _), st, _, inv => ⟨st, rfl, inv⟩
  | .lit _ (.bool b), (ctors, kind), h, inv => by
    have ht : t = .bool := by simpa [patWT] using h
    cases kind with
    | none =>
      exact ⟨_, rfl, ⟨by simp, fun _ => insert_ne_nil _ _ _, CtorMap.keys_nodup_insert _ _ _ inv.nodup⟩⟩
    | some c =>
      have hc := inv.kind c rfl ht
      subst hc
      exact ⟨_, rfl, ⟨by simp, fun _ => insert_ne_nil _ _ _, CtorMap.keys_nodup_insert _ _ _ inv.nodup⟩⟩
  | .ctor _ cid ps, (ctors, kind), h, inv => by
    cases t with
    | adt d =>
      simp only [patWT, Bool.and_eq_true] at h
      have hcid : cid.variantId = .ok cid.vid := by
        have hok := h.1
        cases cid <;> simp_all [ctorOk, CtorId.variantId, CtorId.vid, pure, Except.pure]
      simp only [discoverPat, hcid]
      refine ⟨_, rfl, ⟨by simp, fun _ => insert_ne_nil _ _ _, CtorMap.keys_nodup_insert _ _ _ inv.nodup⟩⟩
    | bool => simp [patWT] at h
    | int => simp [patWT] at h
    | char => simp [patWT] at h
    | str => simp [patWT] at h
    | guardT => simp [patWT] at h
theorem discoverPats_total (env : Env) (t : Ty) : ∀ (ps : List Pat) (st : SigState), altsWT env ps t = true →
    DInv t st → ∃ st', discoverPats ps st = .ok st' ∧ DInv t st'
  | [], st, _, inv => ⟨st, rfl, inv⟩
  | p :: ps, st, h, inv => by
    simp only [altsWT, Bool.and_eq_true] at h
    obtain ⟨st1, h1, inv1⟩ := discoverPat_total env t p st h.1 inv
    obtain ⟨st2, h2, inv2⟩ := discoverPats_total env t ps st1 h.2 inv1
    exact ⟨st2, by simp [discoverPats, h1, h2], inv2⟩
end

theorem discoverRows_total {env : Env} {t : Ty} {ts : List Ty} : ∀ (m : List (List Pat)) (st : SigState),
    matrixWT env m (t :: ts) → DInv t st → ∃ st', discoverRows m st = .ok st' ∧ DInv t st'
  | [], st, _, inv => ⟨st, rfl, inv⟩
  | [] :: rows, st, hwt, _ => by
    have := hwt [] List.mem_cons_self
    simp [patsWT] at this
  | (p :: rest) :: rows, st, hwt, inv => by
    have hrow := hwt _ List.mem_cons_self
    simp only [patsWT, Bool.and_eq_true] at hrow
    obtain ⟨st1, h1, inv1⟩ := discoverPat_total env t p st hrow.1 inv
    obtain ⟨st2, h2, inv2⟩ := discoverRows_total rows st1 (fun r hr => hwt r (List.mem_cons_of_mem _ hr)) inv1
    exact ⟨st2, by simp [discoverRows, h1, h2], inv2⟩

theorem discoverSignature_total {env : Env} {m : List (List Pat)} {t : Ty} {ts : List Ty}
    (hwt : matrixWT env m (t :: ts)) :
    ∃ sig, discoverSignature m = .ok sig ∧
      ∀ ctors first, sig = .complete ctors first → (ctors.map (·.1)).Nodup := by
  obtain ⟨⟨ctors, kind⟩, hst, inv⟩ := discoverRows_total m ([], none) hwt (dInv_nil t)
  cases kind with
  | none => exact ⟨.incomplete, by simp [discoverSignature, hst, pure, Except.pure], by simp⟩
  | some first =>
    have hne : ctors.isEmpty = false := by
      have := inv.nonempty (by simp)
      cases ctors <;> simp_all
    refine ⟨.complete ctors first, by simp [discoverSignature, hst, hne, pure, Except.pure], ?_⟩
    intro c f hc
    cases hc
    exact inv.nodup

/-! ### pigeonhole for the signature map -/

theorem nodup_below : ∀ (n : Nat) (ks : List Nat), ks.Nodup → (∀ k ∈ ks, k < n) →
    ks.length ≤ n ∧ (ks.length = n → ∀ i, i < n → i ∈ ks)
  | 0, ks, _, hlt => by
    cases ks with
    | nil => simp
    | cons k ks => exact absurd (hlt k List.mem_cons_self) (Nat.not_lt_zero _)
  | n + 1, ks, hnd, hlt => by
    by_cases hn : n ∈ ks
    · have ih := nodup_below n (ks.erase n) (hnd.erase n) (fun k hk => by
        have := (hnd.mem_erase_iff).mp hk
        have := hlt k this.2
        omega)
      rw [List.length_erase_of_mem hn] at ih
      have hpos : 0 < ks.length := List.length_pos_of_mem hn
      refine ⟨by omega, ?_⟩
      intro hlen i hi
      by_cases hin : i = n
      · subst hin; exact hn
      · exact ((hnd.mem_erase_iff).mp (ih.2 (by omega) i (by omega))).2
    · have ih := nodup_below n ks hnd (fun k hk => by
        have := hlt k hk
        have : k ≠ n := fun hkn => hn (hkn ▸ hk)
        omega)
      refine ⟨by omega, ?_⟩
      intro hlen
      omega

theorem containsKey_of_mem_keys {ctors : CtorMap} {k : Nat} (h : k ∈ ctors.map (·.1)) :
    ctors.containsKey k = true := by
  obtain ⟨e, he, hek⟩ := List.mem_map.mp h
  simp only [CtorMap.containsKey, List.any_eq_true, beq_iff_eq]
  exact ⟨e, he, hek⟩

theorem get_of_mem_keys {ctors : CtorMap} {k : Nat} (h : k ∈ ctors.map (·.1)) : ∃ a, ctors.get k = some a := by
  obtain ⟨e, he, hek⟩ := List.mem_map.mp h
  have : (ctors.find? (fun e => e.1 == k)).isSome = true :=
    List.find?_isSome.mpr ⟨e, he, by simp [hek]⟩
  simp only [CtorMap.get]
  cases hfd : ctors.find? (fun e => e.1 == k) with
  | none => simp [hfd] at this
  | some x => exact ⟨x.2, rfl⟩

/-- on a well-typed column a complete signature never has more keys than the type has constructors, and
    when it has as many every constructor id is a key -/
theorem sig_counts {env : Env} {m : List (List Pat)} {t : Ty} {ts : List Ty} {ctors : CtorMap} {first : CtorId}
    (hwt : matrixWT env m (t :: ts)) (inv : SigInv (headLeaves m) (ctors, some first))
    (hnd : (ctors.map (·.1)).Nodup) :
    first.total env = nCtors env t ∧ ctors.length ≤ first.total env ∧
      (ctors.length = first.total env → ∀ id, id < first.total env → ∃ a, ctors.get id = some a) := by
  have hlw := headLeaves_wt hwt
  obtain ⟨q0, hq0, hf0⟩ := inv.kindSome first rfl
  obtain ⟨htot, _⟩ := firstOf_typed hf0 (hlw q0 hq0)
  have hlt : ∀ k ∈ ctors.map (·.1), k < first.total env := by
    intro k hk
    obtain ⟨q, hq, a, ha⟩ := (inv.keys k).mp (containsKey_of_mem_keys hk)
    obtain ⟨tys, hf, _⟩ := keyOf_typed ha (hlw q hq)
    rw [htot]; exact fieldsOf_lt hf
  have := nodup_below (first.total env) _ hnd hlt
  simp only [List.length_map] at this
  exact ⟨htot, this.1, fun hlen id hid => get_of_mem_keys (this.2 hlen id hid)⟩

/-! ### `check_useful` -/

theorem rows_length_ok {env : Env} {m : List (List Pat)} {tys : List Ty} {n : Nat}
    (hwt : matrixWT env m tys) (hn : tys.length = n) : m.any (fun row => row.length != n) = false := by
  apply bool_not_true
  intro h
  simp only [List.any_eq_true, bne_iff_ne, ne_eq] at h
  obtain ⟨r, hr, hne⟩ := h
  exact hne (by rw [matrix_rows_length hwt r hr, hn])

/-- `check_useful` on a well-typed matrix and row reaches no assert -/
theorem checkUseful_no_panic {env : Env} (hnog : NoGuardFields env) : ∀ (fuel : Nat) (m : List (List Pat))
    (q : List Pat) (tys : List Ty) (s : String),
    matrixWT env m tys → patsWT env q tys = true → guardOK q tys →
    checkUseful env fuel m q ≠ .error (.panic s)
  | 0, _, _, _, _, _, _, _ => by simp [checkUseful]
  | fuel + 1, m, q, tys, s, hwt, hq, hg => by
    have ih := checkUseful_no_panic hnog fuel
    intro h
    simp only [checkUseful] at h
    rw [rows_length_ok hwt (patsWT_length env q tys hq).symm] at h
    simp only [Bool.false_eq_true, ↓reduceIte] at h
    split at h
    · simp [pure, Except.pure] at h
    split at h
    · simp [pure, Except.pure] at h
    · -- alternatives
      rename_i sp alts rest
      cases tys with
      | nil => simp [patsWT] at hq
      | cons t ts =>
        simp only [patsWT, patWT, Bool.and_eq_true, Bool.not_eq_true', List.isEmpty_eq_false_iff] at hq
        obtain ⟨a, ha, hfa⟩ := anyE_error h
        simp only [guardOK] at hg
        refine ih m (a :: rest) (t :: ts) s hwt (by simp [patsWT, altsWT_mem alts hq.1.2 a ha, hq.2]) ?_ hfa
        simp only [guardOK]
        refine ⟨fun ht => ?_, hg.2⟩
        rcases hg.1 ht with h1 | h1
        · exact Or.inl h1
        · right
          intro hmem
          exact h1 (by simpa [leaves] using mem_leaves_of_mem_alts alts a ha _ hmem)
    · -- literal
      rename_i sp value rest
      cases tys with
      | nil => simp [patsWT] at hq
      | cons t ts =>
        simp only [patsWT, Bool.and_eq_true] at hq
        simp only [guardOK] at hg
        obtain ⟨m', hm'⟩ := specLit_total hq.1 value hwt
        rw [hm'] at h
        exact ih m' rest ts s (wt_lit hwt hm') hq.2 hg.2 h
    · -- wildcard
      rename_i sp rest
      cases tys with
      | nil => simp [patsWT] at hq
      | cons t ts =>
        simp only [patsWT, patWT, Bool.true_and] at hq
        simp only [guardOK] at hg
        obtain ⟨sig, hsig, hnd⟩ := discoverSignature_total hwt
        obtain ⟨md, hmd⟩ := specAny_total hwt
        rw [hsig] at h
        cases sig with
        | incomplete =>
          simp only [hmd] at h
          exact ih md rest ts s (wt_default hwt hmd) hq hg.2 h
        | complete ctors first =>
          simp only at h
          rcases discoverSignature_spec hsig with ⟨hc, _⟩ | ⟨c, f, hc, inv⟩
          · cases hc
          cases hc
          obtain ⟨htot, hle, hall⟩ := sig_counts hwt inv (hnd _ _ rfl)
          have hlw := headLeaves_wt hwt
          split at h
          · rename_i hgt; omega
          split at h
          · rename_i _ heq
            have heq' : ctors.length = first.total env := by simpa using heq
            obtain ⟨id, hid, hfid⟩ := anyE_error h
            have hid' : id < first.total env := by simpa using hid
            obtain ⟨arity, hget⟩ := hall heq' id hid'
            simp only [hget] at hfid
            obtain ⟨ql, hql, hkl⟩ := inv.arity id arity hget
            obtain ⟨tys', hf, hlen⟩ := keyOf_typed hkl (hlw ql hql)
            subst hlen
            obtain ⟨m', hm'⟩ := specCtor_total hf hwt
            simp only [hm'] at hfid
            have hrep := patsWT_replicate_any env tys'
            exact ih m' _ (tys' ++ ts) s (wt_ctor hwt hf hm')
              (patsWT_append env _ _ _ _ hrep hq)
              (guardOK_append _ _ _ _ hrep (fieldsOf_noGuard hnog hf) hg.2) hfid
          · simp only [hmd] at h
            exact ih md rest ts s (wt_default hwt hmd) hq hg.2 h
    · -- constructor pattern
      rename_i sp cid params rest
      cases tys with
      | nil => simp [patsWT] at hq
      | cons t ts =>
        simp only [patsWT, Bool.and_eq_true] at hq
        simp only [guardOK] at hg
        cases t with
        | adt d =>
          have hq1 := hq.1
          simp only [patWT, Bool.and_eq_true] at hq1
          cases hvar : (env d).variants[cid.vid]? with
          | none => simp [hvar] at hq1
          | some tys' =>
            simp only [hvar] at hq1
            have hcid : cid.variantId = .ok cid.vid := by
              have hok := hq1.1
              cases cid <;> simp_all [ctorOk, CtorId.variantId, CtorId.vid, pure, Except.pure]
            have hf : fieldsOf env (.adt d) cid.vid = some tys' := by simp [fieldsOf, hvar]
            have hlen := patsWT_length env _ _ hq1.2
            obtain ⟨m', hm'⟩ := specCtor_total hf hwt
            simp only [hcid, hlen, hm'] at h
            exact ih m' _ (tys' ++ ts) s (wt_ctor hwt hf hm') (patsWT_append env _ _ _ _ hq1.2 hq.2)
              (guardOK_append _ _ _ _ hq1.2 (fieldsOf_noGuard hnog hf) hg.2) h
        | bool => simp [patWT] at hq
        | int => simp [patWT] at hq
        | char => simp [patWT] at hq
        | str => simp [patWT] at hq
        | guardT => simp [patWT] at hq
    · -- guard entry
      rename_i rest
      cases tys with
      | nil => simp [patsWT] at hq
      | cons t ts =>
        simp only [patsWT, patWT, Bool.and_eq_true, beq_iff_eq] at hq
        obtain ⟨rfl, hq2⟩ := hq
        simp only [guardOK] at hg
        have hts : ts = [] := by
          rcases hg.1 trivial with h1 | h1
          · exact h1
          · simp [leaves] at h1
        subst hts
        have hrest : rest = [] := by cases rest <;> simp_all [patsWT]
        subst hrest
        obtain ⟨md, hmd⟩ := specAny_total hwt
        simp only [List.isEmpty_nil, Bool.not_true, Bool.false_eq_true, ↓reduceIte, hmd] at h
        exact ih md [] [] s (wt_default hwt hmd) hq2 (by simp [guardOK]) h

/-! ### `check_exhaustive` -/

theorem pattern_ok (first : CtorId) (id : Nat) (ps : List Pat) (h : first = .bool → ps = []) :
    ∃ p, first.pattern id ps = .ok p := by
  cases first with
  | bool => simp [CtorId.pattern, h rfl, pure, Except.pure]
  | enum e v => exact ⟨_, rfl⟩
  | cls c => exact ⟨_, rfl⟩
  | struct c => exact ⟨_, rfl⟩
  | tuple => exact ⟨_, rfl⟩

theorem missingCtorRows_total (first : CtorId) (ctors : CtorMap) (row : List Pat) :
    ∀ (ids : List Nat) (acc : List (List Pat)), ∃ res, missingCtorRows first ctors row ids acc = .ok res
  | [], acc => ⟨acc, rfl⟩
  | id :: ids, acc => by
    simp only [missingCtorRows]
    split
    · exact missingCtorRows_total first ctors row ids acc
    · split
      · exact ⟨_, rfl⟩
      · obtain ⟨p, hp⟩ := pattern_ok first id [] (fun _ => rfl)
        simp only [hp]
        exact missingCtorRows_total first ctors row ids _

theorem rebuildWitness_length {first : CtorId} {id arity tail : Nat} {u w : List Pat}
    (h : rebuildWitness first id arity tail u = .ok w) : w.length = tail + 1 := by
  simp only [rebuildWitness] at h
  split at h
  · simp [panic] at h
  split at h
  · simp [panic] at h
  split at h
  · simp at h
  simp only [pure, Except.pure, Except.ok.injEq] at h
  subst h
  simp only [List.length_cons, List.length_drop]
  omega

theorem rebuildWitness_total {first : CtorId} {id arity tail : Nat} {u : List Pat}
    (hlen : u.length = arity + tail) (hb : first = .bool → arity = 0) :
    ∃ w, rebuildWitness first id arity tail u = .ok w := by
  have h1 : ¬ u.length < tail := by omega
  have h2 : u.length - tail = arity := by omega
  obtain ⟨p, hp⟩ := pattern_ok first id (u.take arity) (fun hf => by simp [hb hf])
  simp only [rebuildWitness, h1, h2, ↓reduceIte, bne_self_eq_false, Bool.false_eq_true, hp, pure, Except.pure]
  exact ⟨_, rfl⟩

/-- `check_exhaustive` on a well-typed matrix reaches no assert, and every row it returns has `n` entries
    (the property the `assert!`s of `check_match` and of the callers' `drain` rely on) -/
theorem checkExhaustive_no_panic_len {env : Env} : ∀ (fuel : Nat) (m : List (List Pat)) (n : Nat) (tys : List Ty),
    matrixWT env m tys → tys.length = n →
    (∀ s, checkExhaustive env fuel m n ≠ .error (.panic s)) ∧
    (∀ res, checkExhaustive env fuel m n = .ok res → ∀ w ∈ res, w.length = n)
  | 0, _, _, _, _, _ => by simp [checkExhaustive]
  | fuel + 1, m, n, tys, hwt, hn => by
    have ih := checkExhaustive_no_panic_len (env := env) fuel
    simp only [checkExhaustive]
    rw [rows_length_ok hwt hn]
    simp only [Bool.false_eq_true, ↓reduceIte]
    split
    · -- empty matrix
      simp [pure, Except.pure]
    split
    · simp [pure, Except.pure]
    rename_i hn0
    have hnpos : n ≠ 0 := by simpa using hn0
    cases tys with
    | nil => simp at hn; omega
    | cons t ts =>
      have hn1 : ts.length = n - 1 := by simp at hn; omega
      obtain ⟨sig, hsig, hnd⟩ := discoverSignature_total hwt
      obtain ⟨md, hmd⟩ := specAny_total hwt
      obtain ⟨ihd1, ihd2⟩ := ih md (n - 1) ts (wt_default hwt hmd) hn1
      have hmap : ∀ (res : List (List Pat)), (∀ w ∈ res, w.length = n - 1) →
          ∀ w ∈ res.map (fun row => anyNoSpan :: row), w.length = n := by
        intro res hres w hw
        obtain ⟨w', hw', rfl⟩ := List.mem_map.mp hw
        simp only [List.length_cons, hres w' hw']
        omega
      rw [hsig]
      cases sig with
      | incomplete =>
        simp only [hmd]
        cases hrec : checkExhaustive env fuel md (n - 1) with
        | error e =>
          simp only [ne_eq, Except.error.injEq, reduceCtorEq, false_implies, implies_true, and_true]
          intro s hs
          subst hs
          exact ihd1 s hrec
        | ok res' =>
          simp only [pure, Except.pure, ne_eq, reduceCtorEq, not_false_eq_true, implies_true, Except.ok.injEq,
            true_and]
          intro res hres
          subst hres
          exact hmap res' (ihd2 res' hrec)
      | complete ctors first =>
        simp only
        rcases discoverSignature_spec hsig with ⟨hc, _⟩ | ⟨c, f, hc, inv⟩
        · cases hc
        cases hc
        obtain ⟨htot, hle, hall⟩ := sig_counts hwt inv (hnd _ _ rfl)
        have hlw := headLeaves_wt hwt
        obtain ⟨q0, hq0, hf0⟩ := inv.kindSome first rfl
        split
        · rename_i hgt; omega
        split
        · -- every constructor occurs
          rename_i _ heq
          have heq' : ctors.length = first.total env := by simpa using heq
          have step : ∀ id, id < first.total env →
              (∀ s, (match ctors.get id with
                | none => panic "exhaustiveness.rs:417 missing ctor id"
                | some arity =>
                  match flatMapE (specializeRowForConstructor id arity) m with
                  | .error e => .error e
                  | .ok newMatrix =>
                    match checkExhaustive env fuel newMatrix (n + arity - 1) with
                    | .error e => .error e
                    | .ok uncovered => mapE (rebuildWitness first id arity (n - 1)) uncovered) ≠ .error (.panic s)) ∧
              (∀ r, (match ctors.get id with
                | none => panic "exhaustiveness.rs:417 missing ctor id"
                | some arity =>
                  match flatMapE (specializeRowForConstructor id arity) m with
                  | .error e => .error e
                  | .ok newMatrix =>
                    match checkExhaustive env fuel newMatrix (n + arity - 1) with
                    | .error e => .error e
                    | .ok uncovered => mapE (rebuildWitness first id arity (n - 1)) uncovered) = .ok r →
                ∀ w ∈ r, w.length = n) := by
            intro id hid
            obtain ⟨arity, hget⟩ := hall heq' id hid
            obtain ⟨ql, hql, hkl⟩ := inv.arity id arity hget
            obtain ⟨tys', hf, hlen⟩ := keyOf_typed hkl (hlw ql hql)
            subst hlen
            obtain ⟨m', hm'⟩ := specCtor_total hf hwt
            obtain ⟨ih1, ih2⟩ := ih m' (n + tys'.length - 1) (tys' ++ ts) (wt_ctor hwt hf hm')
              (by simp only [List.length_append]; omega)
            simp only [hget, hm']
            cases hrec : checkExhaustive env fuel m' (n + tys'.length - 1) with
            | error e =>
              simp only [ne_eq, Except.error.injEq, reduceCtorEq, false_implies, implies_true, and_true]
              intro s hs
              subst hs
              exact ih1 s hrec
            | ok unc =>
              simp only
              constructor
              · intro s hs
                obtain ⟨u, hu, hue⟩ := mapE_error hs
                have hul := ih2 unc hrec u hu
                obtain ⟨w, hw⟩ := rebuildWitness_total (first := first) (id := id) (arity := tys'.length)
                  (tail := n - 1) (u := u) (by omega) (by
                    intro hb
                    subst hb
                    have ht : t = .bool := firstOf_bool_typed hf0 (hlw q0 hq0)
                    subst ht
                    simp only [fieldsOf] at hf
                    by_cases h2 : id < 2 <;> simp [h2] at hf
                    subst hf; rfl)
                rw [hw] at hue
                cases hue
              · intro r hr w hw
                obtain ⟨u, _, hreb⟩ := (mapE_ok hr).1 w hw
                have := rebuildWitness_length hreb
                omega
          constructor
          · intro s hs
            obtain ⟨id, hid, hfid⟩ := firstNonEmptyE_error hs
            exact (step id (by simpa using hid)).1 s hfid
          · intro res hres w hw
            have hne : res ≠ [] := by intro hc; subst hc; simp at hw
            obtain ⟨id, hid, hfid⟩ := (firstNonEmptyE_ok hres).2 hne
            exact (step id (by simpa using hid)).2 res hfid w hw
        · -- some constructor is missing
          simp only [hmd]
          cases hrec : checkExhaustive env fuel md (n - 1) with
          | error e =>
            simp only [ne_eq, Except.error.injEq, reduceCtorEq, false_implies, implies_true, and_true]
            intro s hs
            subst hs
            exact ihd1 s hrec
          | ok res' =>
            have hlen' := ihd2 res' hrec
            cases res' with
            | nil => simp [pure, Except.pure]
            | cons row rest =>
              cases rest with
              | nil =>
                simp only
                obtain ⟨res, hres⟩ := missingCtorRows_total first ctors row (List.range (first.total env)) []
                rw [hres]
                simp only [ne_eq, reduceCtorEq, not_false_eq_true, implies_true, Except.ok.injEq, true_and]
                intro res2 hres2
                subst hres2
                intro w hw
                have hrow : row.length = n - 1 := hlen' row (by simp)
                rcases (missingCtorRows_spec first ctors row _ [] res hres).1 w hw with
                  hacc | rfl | ⟨id, _, _, p, _, rfl⟩
                · simp at hacc
                · simp only [List.length_cons, hrow]; omega
                · simp only [List.length_cons, hrow]; omega
              | cons row2 rest2 =>
                simp only [pure, Except.pure, ne_eq, reduceCtorEq, not_false_eq_true, implies_true,
                  Except.ok.injEq, true_and]
                intro res hres
                subst hres
                exact hmap _ hlen'

theorem checkExhaustive_no_panic {env : Env} (fuel : Nat) (m : List (List Pat)) (n : Nat) (tys : List Ty)
    (s : String) (hwt : matrixWT env m tys) (hn : tys.length = n) :
    checkExhaustive env fuel m n ≠ .error (.panic s) :=
  (checkExhaustive_no_panic_len fuel m n tys hwt hn).1 s

theorem checkExhaustive_length {env : Env} (fuel : Nat) (m : List (List Pat)) (n : Nat) (tys : List Ty)
    (res : List (List Pat)) (hwt : matrixWT env m tys) (hn : tys.length = n)
    (h : checkExhaustive env fuel m n = .ok res) : ∀ w ∈ res, w.length = n :=
  (checkExhaustive_no_panic_len fuel m n tys hwt hn).2 res h

/-! ### `check_useful_expand_inner` -/

/-- `Pattern::span` succeeds -/
def Pat.hasSpan : Pat → Bool
  | .any none => false
  | .guard => false
  | _ => true

mutual
/-- every alternative of every `|` (at any depth) carries a span (in particular is not `Guard`) -/
def spanned : Pat → Bool
  | .alt _ ps => altsSpanned ps
  | .ctor _ _ ps => spannedL ps
  | _ => true
def altsSpanned : List Pat → Bool
  | [] => true
  | p :: ps => p.hasSpan && spanned p && altsSpanned ps
def spannedL : List Pat → Bool
  | [] => true
  | p :: ps => spanned p && spannedL ps
end

theorem spannedL_mem : ∀ (ps : List Pat), spannedL ps = true → ∀ p ∈ ps, spanned p = true
  | [], _, p, hp => by simp at hp
  | x :: xs, h, p, hp => by
    simp only [spannedL, Bool.and_eq_true] at h
    rcases List.mem_cons.mp hp with rfl | hp
    · exact h.1
    · exact spannedL_mem xs h.2 p hp

mutual
theorem spanned_leaves : ∀ (p : Pat), p.hasSpan = true → spanned p = true → Pat.guard ∉ leaves p
  | .alt _ ps, _, h => by
    simp only [spanned] at h
    simpa [leaves] using altsSpanned_leaves ps h
  | .any _, _, _ => by simp [leaves]
  | .lit _ _, _, _ => by simp [leaves]
  | .ctor _ _ _, _, _ => by simp [leaves]
  | .guard, h, _ => by simp [Pat.hasSpan] at h
theorem altsSpanned_leaves : ∀ (ps : List Pat), altsSpanned ps = true → Pat.guard ∉ leavesL ps
  | [], _ => by simp [leavesL]
  | p :: ps, h => by
    simp only [altsSpanned, Bool.and_eq_true] at h
    simp only [leavesL, List.mem_append, not_or]
    exact ⟨spanned_leaves p h.1.1 h.1.2, altsSpanned_leaves ps h.2⟩
end

theorem alt_spanned_leaves {x : Pat} (hs : spanned x = true) (ha : x.isAlt = true) : Pat.guard ∉ leaves x := by
  cases x with
  | alt sp ps => simp only [spanned] at hs; simpa [leaves] using altsSpanned_leaves ps hs
  | any _ => simp [Pat.isAlt] at ha
  | lit _ _ => simp [Pat.isAlt] at ha
  | ctor _ _ _ => simp [Pat.isAlt] at ha
  | guard => simp [Pat.isAlt] at ha

theorem span_total {a : Pat} (h : a.hasSpan = true) : ∃ sp, a.span = .ok sp := by
  cases a with
  | any sp => cases sp <;> simp_all [Pat.hasSpan, Pat.span, pure, Except.pure]
  | lit _ _ => exact ⟨_, rfl⟩
  | ctor _ _ _ => exact ⟨_, rfl⟩
  | alt _ _ => exact ⟨_, rfl⟩
  | guard => simp [Pat.hasSpan] at h

/-- a `Guard` leaf of the row under test is the pattern `Guard` itself in the last column -/
def guardX : List Pat → Prop
  | [] => True
  | p :: ps => (Pat.guard ∉ leaves p ∨ (p = .guard ∧ ps = [])) ∧ guardX ps

theorem guardX_append : ∀ (ps rest : List Pat), (∀ p ∈ ps, Pat.guard ∉ leaves p) → guardX rest → guardX (ps ++ rest)
  | [], rest, _, h => by simpa using h
  | p :: ps, rest, hp, h => by
    simp only [List.cons_append, guardX]
    exact ⟨Or.inl (hp p List.mem_cons_self), guardX_append ps rest (fun x hx => hp x (List.mem_cons_of_mem _ hx)) h⟩

theorem patsWT_noGuard {env : Env} : ∀ (ps : List Pat) (tys : List Ty), patsWT env ps tys = true →
    Ty.guardT ∉ tys → ∀ p ∈ ps, Pat.guard ∉ leaves p
  | [], _, _, _, p, hp => by simp at hp
  | _ :: _, [], h, _, _, _ => by simp [patsWT] at h
  | x :: xs, t :: ts, h, hng, p, hp => by
    simp only [patsWT, Bool.and_eq_true] at h
    simp only [List.mem_cons, not_or] at hng
    rcases List.mem_cons.mp hp with rfl | hp
    · intro hmem
      have := (patWT_leaves env p t h.1).2 _ hmem
      simp only [patWT, beq_iff_eq] at this
      exact hng.1 this.symm
    · exact patsWT_noGuard xs ts h.2 hng.2 p hp

/-- what `check_useful_expand_inner` maintains about the row under test besides typing -/
structure RowInv (row : SplitRow) : Prop where
  pSp : ∀ x ∈ row.p, spanned x = true
  pG : guardX row.p
  qG : ∀ x ∈ row.q, Pat.guard ∉ leaves x
  rA : ∀ x ∈ row.r, spanned x = true ∧ x.isAlt = true

def site677 : String := "exhaustiveness.rs:677 assert (span reported twice)"

/-- the only assert the computation can reach is `assert!(spans.insert(span))` of `Useless::union_all` -/
def OnlyDup {α : Type} (x : Except Err α) : Prop := ∀ s, x = .error (.panic s) → s = site677

theorem insertNew_onlyDup (spans : List Span) (sp : Span) : OnlyDup (insertNew spans sp) := by
  intro s h
  simp only [insertNew] at h
  split at h
  · simp only [panic, Except.error.injEq, Err.panic.injEq] at h
    exact h.symm
  · simp [pure, Except.pure] at h

theorem insertAllNew_onlyDup : ∀ (l spans : List Span), OnlyDup (insertAllNew spans l)
  | [], spans => by intro s h; simp [insertAllNew, pure, Except.pure] at h
  | sp :: l, spans => by
    intro s h
    simp only [insertAllNew] at h
    split at h
    · rename_i e he
      simp only [Except.error.injEq] at h
      subst h
      exact insertNew_onlyDup _ _ s he
    · exact insertAllNew_onlyDup l _ s h

theorem collectSpans_onlyDup : ∀ (l : List (Useless × Span)) (spans : List Span), OnlyDup (collectSpans l spans)
  | [], spans => by intro s h; simp [collectSpans, pure, Except.pure] at h
  | (.yes, sp) :: l, spans => by
    intro s h
    simp only [collectSpans] at h
    split at h
    · rename_i e he
      simp only [Except.error.injEq] at h
      subst h
      exact insertNew_onlyDup _ _ s he
    · exact collectSpans_onlyDup l _ s h
  | (.set set, sp) :: l, spans => by
    intro s h
    simp only [collectSpans] at h
    split at h
    · rename_i e he
      simp only [Except.error.injEq] at h
      subst h
      exact insertAllNew_onlyDup _ _ s he
    · exact collectSpans_onlyDup l _ s h

theorem unionAll_onlyDup (l : List (Useless × Span)) : OnlyDup (unionAll l) := by
  intro s h
  simp only [unionAll] at h
  split at h
  · simp [pure, Except.pure] at h
  · split at h
    · rename_i e he
      simp only [Except.error.injEq] at h
      subst h
      exact collectSpans_onlyDup _ _ s he
    · simp [pure, Except.pure] at h

theorem mapE_total {α β : Type} {f : α → Except Err β} : ∀ {xs : List α},
    (∀ x ∈ xs, ∃ y, f x = .ok y) → ∃ ys, mapE f xs = .ok ys
  | [], _ => ⟨[], rfl⟩
  | x :: xs, h => by
    obtain ⟨a, ha⟩ := h x List.mem_cons_self
    obtain ⟨b, hb⟩ := mapE_total (xs := xs) (fun x' hx' => h x' (List.mem_cons_of_mem _ hx'))
    exact ⟨a :: b, by simp [mapE, ha, hb, pure, Except.pure]⟩

theorem onP_total {f : List Pat → Except Err (List (List Pat))} {m : List SplitRow}
    (h : ∃ m'', flatMapE f (m.map (·.p)) = .ok m'') : ∃ m', flatMapE (onP f) m = .ok m' := by
  obtain ⟨m'', hm''⟩ := h
  apply flatMapE_total
  intro r hr
  obtain ⟨zs, hz⟩ := (flatMapE_ok hm'').1 r.p (List.mem_map.mpr ⟨r, hr, rfl⟩)
  exact ⟨_, by simp only [onP, hz]; rfl⟩

theorem split_p_wt {env : Env} {m : List SplitRow} {tp tq tr : List Ty}
    (hm : ∀ r ∈ m, splitWT env tp tq tr r) : matrixWT env (m.map (·.p)) tp := by
  intro x hx
  obtain ⟨r, hr, rfl⟩ := List.mem_map.mp hx
  exact (hm r hr).1

theorem split_lengths_ok {env : Env} {m : List SplitRow} {tp tq tr : List Ty} {row : SplitRow}
    (hwt : ∀ r ∈ m, splitWT env tp tq tr r) (hrow : splitWT env tp tq tr row) :
    m.any (fun r => r.p.length != row.p.length || r.q.length != row.q.length
      || r.r.length != row.r.length) = false := by
  apply bool_not_true
  intro h
  simp only [List.any_eq_true] at h
  obtain ⟨r, hr, hne⟩ := h
  have h1 := hwt r hr
  rw [patsWT_length env _ _ h1.1, patsWT_length env _ _ h1.2.1, patsWT_length env _ _ h1.2.2,
    patsWT_length env _ _ hrow.1, patsWT_length env _ _ hrow.2.1, patsWT_length env _ _ hrow.2.2] at hne
  simp at hne

theorem altLoop_onlyDup {env : Env} {inner : List SplitRow → SplitRow → Except Err Useless} {t : Ty}
    {T2 : List Ty} {qcat : List Pat}
    (hinner : ∀ M row', (∀ r ∈ M, splitWT env [t] T2 [] r) → splitWT env [t] T2 [] row' → RowInv row' →
      OnlyDup (inner M row'))
    (hq : patsWT env qcat T2 = true) (hqg : ∀ x ∈ qcat, Pat.guard ∉ leaves x) :
    ∀ (alts : List Pat) (M : List SplitRow), altsWT env alts t = true → altsSpanned alts = true →
      (∀ r ∈ M, splitWT env [t] T2 [] r) → OnlyDup (altLoop inner qcat alts M)
  | [], M, _, _, _ => by intro s h; simp [altLoop, pure, Except.pure] at h
  | a :: alts, M, ha, hs, hM => by
    intro s h
    simp only [altLoop] at h
    simp only [altsWT, Bool.and_eq_true] at ha
    simp only [altsSpanned, Bool.and_eq_true] at hs
    have hrowwt : splitWT env [t] T2 [] ⟨[a], qcat, []⟩ := ⟨by simp [patsWT, ha.1], hq, by simp [patsWT]⟩
    have hinv : RowInv ⟨[a], qcat, []⟩ :=
      ⟨by simp [hs.1.2], by simp only [guardX, and_true]; exact Or.inl (spanned_leaves a hs.1.1 hs.1.2), hqg,
        by simp⟩
    obtain ⟨sp, hsp⟩ := span_total hs.1.1
    split at h
    · rename_i e he
      simp only [Except.error.injEq] at h
      subst h
      exact hinner M _ hM hrowwt hinv s he
    simp only [hsp] at h
    split at h
    · rename_i e he
      simp only [Except.error.injEq] at h
      subst h
      have hM' : ∀ r ∈ M ++ [(⟨[a], qcat, []⟩ : SplitRow)], splitWT env [t] T2 [] r := by
        intro r hr
        rcases List.mem_append.mp hr with hr | hr
        · exact hM r hr
        · simp only [List.mem_singleton] at hr; subst hr; exact hrowwt
      exact altLoop_onlyDup hinner hq hqg alts _ ha.2 hs.2 hM' s he
    · simp [pure, Except.pure] at h

theorem expandColumn_onlyDup {env : Env} {inner : List SplitRow → SplitRow → Except Err Useless}
    {m : List SplitRow} {rq rr : List Pat} {tq tr : List Ty} {j : Nat}
    (hinner : ∀ (t : Ty) (T2 : List Ty) M row', (∀ r ∈ M, splitWT env [t] T2 [] r) →
      splitWT env [t] T2 [] row' → RowInv row' → OnlyDup (inner M row'))
    (hwt : ∀ r ∈ m, splitWT env [] tq tr r) (hrq : patsWT env rq tq = true) (hrr : patsWT env rr tr = true)
    (hinv : RowInv ⟨[], rq, rr⟩) (hj : j < rr.length) :
    OnlyDup (expandColumn inner m ⟨[], rq, rr⟩ j) := by
  intro s h
  simp only [expandColumn] at h
  have hjj : rr[j]? = some rr[j] := List.getElem?_eq_getElem hj
  have hmem : rr[j] ∈ rr := List.getElem_mem hj
  obtain ⟨hsx, hax⟩ := hinv.rA _ hmem
  rw [hjj] at h
  simp only at h
  cases hx : rr[j] with
  | any _ => simp [hx, Pat.isAlt] at hax
  | lit _ _ => simp [hx, Pat.isAlt] at hax
  | ctor _ _ _ => simp [hx, Pat.isAlt] at hax
  | guard => simp [hx, Pat.isAlt] at hax
  | alt asp alts =>
    rw [hx] at h hjj hsx
    simp only at h
    obtain ⟨t, htj, hxt, hrr'⟩ := patsWT_eraseIdx env j rr tr _ hrr hjj
    simp only [patWT, Bool.and_eq_true] at hxt
    simp only [spanned] at hsx
    have hqcat : patsWT env (rr.eraseIdx j ++ rq) (tr.eraseIdx j ++ tq) = true :=
      patsWT_append env _ _ _ _ hrr' hrq
    have hqg : ∀ x ∈ rr.eraseIdx j ++ rq, Pat.guard ∉ leaves x := by
      intro x hx'
      rcases List.mem_append.mp hx' with h1 | h1
      · have := hinv.rA x (List.mem_of_mem_eraseIdx h1)
        exact alt_spanned_leaves this.1 this.2
      · exact hinv.qG x h1
    split at h
    · rename_i e he
      simp only [Except.error.injEq] at h
      subst h
      obtain ⟨r, hr, hre⟩ := mapE_error he
      have hlen : r.r.length = rr.length := by
        rw [patsWT_length env _ _ (hwt r hr).2.2, patsWT_length env _ _ hrr]
      split at hre
      · rename_i hnone
        have : r.r[j]? = some (r.r[j]'(by omega)) := List.getElem?_eq_getElem (by omega)
        rw [this] at hnone
        cases hnone
      · simp [pure, Except.pure] at hre
    rename_i newM hnewM
    have hmm := mapE_ok hnewM
    have hnewWT : ∀ r ∈ newM, splitWT env [t] (tr.eraseIdx j ++ tq) [] r := by
      intro r' hr'
      obtain ⟨r, hr, hf⟩ := hmm.1 r' hr'
      split at hf
      · simp [panic] at hf
      rename_i x hxr
      simp only [pure, Except.pure, Except.ok.injEq] at hf
      obtain ⟨t', ht', hxt', hrest⟩ := patsWT_eraseIdx env j r.r tr x (hwt r hr).2.2 hxr
      rw [htj] at ht'; cases ht'
      subst hf
      exact ⟨by simp [patsWT, hxt'], patsWT_append env _ _ _ _ hrest (hwt r hr).2.1, by simp [patsWT]⟩
    split at h
    · rename_i e he
      simp only [Except.error.injEq] at h
      subst h
      exact altLoop_onlyDup (hinner t _) hqcat hqg alts newM hxt.2 hsx hnewWT s he
    split at h
    · rename_i e he
      simp only [Except.error.injEq] at h
      subst h
      exact unionAll_onlyDup _ s he
    · simp [pure, Except.pure] at h

/-- `check_useful_expand_inner` on well-typed split rows reaches no assert other than
    `assert!(spans.insert(span))` (which typing does not exclude) -/
theorem checkUsefulExpandInner_onlyDup {env : Env} (hnog : NoGuardFields env) :
    ∀ (fuel : Nat) (m : List SplitRow) (row : SplitRow) (tp tq tr : List Ty),
    (∀ r ∈ m, splitWT env tp tq tr r) → splitWT env tp tq tr row → RowInv row →
    OnlyDup (checkUsefulExpandInner env fuel m row)
  | 0, _, _, _, _, _, _, _, _ => by intro s h; simp [checkUsefulExpandInner] at h
  | fuel + 1, m, row, tp, tq, tr, hwt, hrow, hinv => by
    have ih := checkUsefulExpandInner_onlyDup hnog fuel
    have hlens := split_lengths_ok hwt hrow
    obtain ⟨rp, rq, rr⟩ := row
    obtain ⟨hrp, hrq, hrr⟩ := hrow
    dsimp only at hrp hrq hrr hlens
    intro s h
    cases rp with
    | nil =>
      simp only [checkUsefulExpandInner] at h
      split at h
      · rename_i hc; exact Bool.noConfusion (hlens.symm.trans hc)
      have htp : tp = [] := by cases tp <;> simp_all [patsWT]
      subst htp
      split at h
      · rename_i hre
        have hrr0 : rr = [] := by simpa using hre
        subst hrr0
        have hmq : matrixWT env (m.map (·.q)) tq := by
          intro x hx
          obtain ⟨r, hr, rfl⟩ := List.mem_map.mp hx
          exact (hwt r hr).2.1
        split at h
        · rename_i e he
          simp only [Except.error.injEq] at h
          subst h
          exact absurd he (checkUseful_no_panic hnog fuel _ rq tq s hmq hrq (guardOK_of_noGuard _ _ hinv.qG))
        · simp [pure, Except.pure] at h
        · simp [pure, Except.pure] at h
      · split at h
        · rename_i e he
          simp only [Except.error.injEq] at h
          subst h
          obtain ⟨j, hj, hje⟩ := mapE_error he
          have hj' : j < rr.length := by simpa using hj
          exact expandColumn_onlyDup (fun t T2 M row' a b c => ih M row' [t] T2 [] a b c) hwt hrq hrr hinv hj' s hje
        · exact unionAll_onlyDup _ s h
    | cons hd p' =>
      cases tp with
      | nil => simp [patsWT] at hrp
      | cons t tp' =>
        simp only [patsWT, Bool.and_eq_true] at hrp
        have hmp := split_p_wt hwt
        have hpSp : ∀ x ∈ p', spanned x = true := fun x hx => hinv.pSp x (List.mem_cons_of_mem _ hx)
        have hpG := hinv.pG
        simp only [guardX] at hpG
        have hshift : ∀ r ∈ m, ∃ x ps, r.p = x :: ps := by
          intro r hr
          have := (hwt r hr).1
          cases hrp' : r.p with
          | nil => rw [hrp'] at this; simp [patsWT] at this
          | cons x ps => exact ⟨x, ps, rfl⟩
        cases hd with
        | lit sp value =>
          simp only [checkUsefulExpandInner] at h
          split at h
          · rename_i hc; exact Bool.noConfusion (hlens.symm.trans hc)
          obtain ⟨m', hm'⟩ := onP_total (specLit_total hrp.1 value hmp)
          simp only [hm'] at h
          exact ih m' ⟨p', rq, rr⟩ tp' tq tr (onP_wt hm' hwt (fun a b => wt_lit a b)) ⟨hrp.2, hrq, hrr⟩
            ⟨hpSp, hpG.2, hinv.qG, hinv.rA⟩ s h
        | ctor sp cid params =>
          simp only [checkUsefulExpandInner] at h
          split at h
          · rename_i hc; exact Bool.noConfusion (hlens.symm.trans hc)
          cases t with
          | adt d =>
            have hq1 := hrp.1
            simp only [patWT, Bool.and_eq_true] at hq1
            cases hvar : (env d).variants[cid.vid]? with
            | none => simp [hvar] at hq1
            | some tys =>
              simp only [hvar] at hq1
              have hcid : cid.variantId = .ok cid.vid := by
                have hok := hq1.1
                cases cid <;> simp_all [ctorOk, CtorId.variantId, CtorId.vid, pure, Except.pure]
              have hf : fieldsOf env (.adt d) cid.vid = some tys := by simp [fieldsOf, hvar]
              have hlen := patsWT_length env _ _ hq1.2
              obtain ⟨m', hm'⟩ := onP_total (specCtor_total hf hmp)
              simp only [hcid, hlen, hm'] at h
              have hparamsS : ∀ x ∈ params, spanned x = true := by
                have := hinv.pSp _ List.mem_cons_self
                simp only [spanned] at this
                exact spannedL_mem params this
              refine ih m' ⟨params ++ p', rq, rr⟩ (tys ++ tp') tq tr
                (onP_wt hm' hwt (fun a b => wt_ctor a hf b))
                ⟨patsWT_append env _ _ _ _ hq1.2 hrp.2, hrq, hrr⟩ ⟨?_, ?_, hinv.qG, hinv.rA⟩ s h
              · intro x hx
                rcases List.mem_append.mp hx with h1 | h1
                · exact hparamsS x h1
                · exact hpSp x h1
              · exact guardX_append _ _ (patsWT_noGuard _ _ hq1.2 (fieldsOf_noGuard hnog hf)) hpG.2
          | bool => simp [patWT] at hrp
          | int => simp [patWT] at hrp
          | char => simp [patWT] at hrp
          | str => simp [patWT] at hrp
          | guardT => simp [patWT] at hrp
        | any sp =>
          simp only [checkUsefulExpandInner] at h
          split at h
          · rename_i hc; exact Bool.noConfusion (hlens.symm.trans hc)
          obtain ⟨m', hm'⟩ := mapE_total (f := SplitRow.shiftPIntoQ) (xs := m) (fun r hr => by
            obtain ⟨x, ps, hxp⟩ := hshift r hr
            exact ⟨_, by simp only [SplitRow.shiftPIntoQ, hxp]; rfl⟩)
          simp only [hm'] at h
          refine ih m' ⟨p', .any sp :: rq, rr⟩ tp' (t :: tq) tr (wt_shiftQ hm' hwt)
            ⟨hrp.2, by simp [patsWT, patWT, hrq], hrr⟩ ⟨hpSp, hpG.2, ?_, hinv.rA⟩ s h
          intro x hx
          rcases List.mem_cons.mp hx with rfl | hx
          · simp [leaves]
          · exact hinv.qG x hx
        | alt sp alts =>
          simp only [checkUsefulExpandInner] at h
          split at h
          · rename_i hc; exact Bool.noConfusion (hlens.symm.trans hc)
          obtain ⟨m', hm'⟩ := mapE_total (f := SplitRow.shiftPIntoR) (xs := m) (fun r hr => by
            obtain ⟨x, ps, hxp⟩ := hshift r hr
            exact ⟨_, by simp only [SplitRow.shiftPIntoR, hxp]; rfl⟩)
          simp only [hm'] at h
          refine ih m' ⟨p', rq, .alt sp alts :: rr⟩ tp' tq (t :: tr) (wt_shiftR hm' hwt)
            ⟨hrp.2, hrq, by simp [patsWT, hrp.1, hrr]⟩ ⟨hpSp, hpG.2, hinv.qG, ?_⟩ s h
          intro x hx
          rcases List.mem_cons.mp hx with rfl | hx
          · exact ⟨hinv.pSp _ List.mem_cons_self, rfl⟩
          · exact hinv.rA x hx
        | guard =>
          have ht : t = .guardT := by simpa [patWT] using hrp.1
          subst ht
          have hp' : p' = [] := by
            rcases hpG.1 with h1 | h1
            · simp [leaves] at h1
            · exact h1.2
          subst hp'
          simp only [checkUsefulExpandInner] at h
          split at h
          · rename_i hc; exact Bool.noConfusion (hlens.symm.trans hc)
          obtain ⟨m', hm'⟩ := onP_total (specAny_total hmp)
          simp only [List.isEmpty_nil, Bool.not_true, Bool.false_eq_true, ↓reduceIte, hm'] at h
          exact ih m' ⟨[], rq, rr⟩ tp' tq tr (onP_wt hm' hwt (fun a b => wt_default a b)) ⟨hrp.2, hrq, hrr⟩
            ⟨by simp, by simp [guardX], hinv.qG, hinv.rA⟩ s h

/-- `check_useful_expand` for a row whose `|`-alternatives all carry spans and whose only `Guard` is the last
    entry: no assert other than `assert!(spans.insert(span))` -/
theorem checkUsefulExpand_onlyDup {env : Env} (hnog : NoGuardFields env) (fuel : Nat) (m : List (List Pat))
    (row : List Pat) (tys : List Ty) (hwt : matrixWT env m tys) (hrow : patsWT env row tys = true)
    (hsp : ∀ x ∈ row, spanned x = true) (hg : guardX row) :
    OnlyDup (checkUsefulExpand env fuel m row) := by
  simp only [checkUsefulExpand]
  refine checkUsefulExpandInner_onlyDup hnog fuel _ _ tys [] [] ?_ ?_ ?_
  · intro r' hr'
    obtain ⟨r, hr, rfl⟩ := List.mem_map.mp hr'
    exact ⟨hwt r hr, by simp [SplitRow.new, patsWT], by simp [SplitRow.new, patsWT]⟩
  · exact ⟨hrow, by simp [SplitRow.new, patsWT], by simp [SplitRow.new, patsWT]⟩
  · exact ⟨hsp, hg, by simp [SplitRow.new], by simp [SplitRow.new]⟩

end Dora.Match
