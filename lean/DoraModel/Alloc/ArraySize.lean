/-
C13 — array size arithmetic of both code generators and of the runtime.

* `cannonSize`   : `MacroAssembler::determine_array_size` (dora-cannon-compiler/src/masm/x64.rs) as used by
                   `emit_new_array` (codegen.rs): `lea dest,[len*es + 16 (+7)]` or `imul`/`add`, then `and -8`
                   — 64-bit wrapping arithmetic, with header.
* `cannonGuard`  : the range check in front of it (`emit_new_array`): unsigned `len > maxLen es` ⇒ overflow trap.
* `bootsOutcome` : `emit_new_array` of pkgs/boots/bytecode_graph_builder.dora: CheckedAdd(len, Int64::MIN) (sign
                   check: overflows exactly for len < 0; `signCheck = false` is the code before the fix),
                   CheckedMul, CheckedAdd 16, (CheckedAdd 7, And ~7) — signed overflow traps.
* `runtimeSize`  : `determine_array_size` of dora-runtime/src/mirror.rs (what the collectors use to walk the heap).
-/
namespace Dora.Alloc

/-- `Header::size() + ptr_width()` = `ARRAY_HEADER_LENGTH` = 16 -/
def arrayHeader : Nat := 16

def align8 (n : Nat) : Nat := (n + 7) / 8 * 8

/-- the mathematically intended size of an array object -/
def intendedSize (len es : Nat) : Nat := align8 (arrayHeader + len * es)

/-- `determine_array_size(dest, length, es, with_header = true)` -/
def cannonSize (len : BitVec 64) (es : Nat) : BitVec 64 :=
  let c : Nat := arrayHeader + (if es = 8 then 0 else 7)
  let raw := len * BitVec.ofNat 64 es + BitVec.ofNat 64 c
  if es = 8 then raw else raw &&& BitVec.ofInt 64 (-8)

/-- largest length whose byte size (header, alignment slack included) stays below 2^63 -/
def maxLen (es : Nat) : Nat := (2 ^ 63 - 1 - arrayHeader - 8) / (max es 1)

/-- outcome of the baseline generator for `Array[T]::unsafe_new(len)`: `none` = overflow trap.
`guard = false` is the code before the fix (no check at all). -/
def cannonOutcome (guard : Bool) (len : BitVec 64) (es : Nat) : Option (BitVec 64) :=
  if guard && decide (len.toNat > maxLen es) then none else some (cannonSize len es)

inductive BootsResult
  | trap                       -- overflow trap (exit 109)
  | size (s : Int)
  deriving DecidableEq, Repr

def inI64 (x : Int) : Bool := decide (-(2 ^ 63 : Int) ≤ x) && decide (x < (2 ^ 63 : Int))

/-- optimizing generator: checked signed arithmetic on the length as an Int64 -/
def bootsOutcome (signCheck : Bool) (len : Int) (es : Nat) : BootsResult :=
  if signCheck && !inI64 (len + (-(2 ^ 63 : Int))) then .trap else
  let m := len * es
  if !inI64 m then .trap else
  let a := m + arrayHeader
  if !inI64 a then .trap else
  if es % 8 = 0 then .size a else
  let b := a + 7
  if !inI64 b then .trap else .size (b / 8 * 8)    -- `And ~7` on a two's complement value = floor to a multiple of 8

/-- `determine_array_size` of the runtime (usize arithmetic; here for lengths it can meet) -/
def runtimeSize (len es : Nat) : Nat := align8 (arrayHeader + es * len)

end Dora.Alloc
