import DoraModel.Alloc.ArraySize
namespace Dora.Alloc

theorem maxLen_bound (es len : Nat) (hes : 0 < es) (h : len ≤ maxLen es) :
    arrayHeader + len * es + 8 ≤ 2 ^ 63 - 1 := by
  unfold maxLen at h
  have hm : max es 1 = es := by omega
  rw [hm] at h
  have := Nat.mul_le_of_le_div es len (2 ^ 63 - 1 - arrayHeader - 8) h
  unfold arrayHeader at *
  omega

theorem and_neg8 (x : BitVec 64) : (x &&& BitVec.ofInt 64 (-8)).toNat = x.toNat / 8 * 8 := by
  have h8 : BitVec.ofInt 64 (-8) = ~~~(7#64) := by decide
  rw [h8]
  have : x &&& ~~~(7#64) = (x >>> 3) <<< 3 := by
    apply BitVec.eq_of_getLsbD_eq
    intro i hi
    simp only [BitVec.getLsbD_and, BitVec.getLsbD_not, BitVec.getLsbD_shiftLeft, BitVec.getLsbD_ushiftRight]
    by_cases h3 : i < 3
    · have : (7#64).getLsbD i = true := by
        have : i = 0 ∨ i = 1 ∨ i = 2 := by omega
        rcases this with h | h | h <;> subst h <;> decide
      simp [this, h3, hi]
    · have : (7#64).getLsbD i = false := by
        rw [BitVec.getLsbD_ofNat]
        have h8 : 7 < 2 ^ i := by
          have : 2 ^ 3 ≤ 2 ^ i := Nat.pow_le_pow_right (by decide) (by omega)
          omega
        simp [Nat.testBit_lt_two_pow h8]
      have e : 3 + (i - 3) = i := by omega
      have this' : (7#64)[i] = false := by
        rw [← BitVec.getLsbD_eq_getElem]; exact this
      simp [h3, hi, e, this']
  rw [this]
  simp only [BitVec.toNat_shiftLeft, BitVec.toNat_ushiftRight, Nat.shiftRight_eq_div_pow, Nat.shiftLeft_eq]
  have hx := x.isLt
  have : x.toNat / 2 ^ 3 * 2 ^ 3 < 2 ^ 64 := by
    have := Nat.div_mul_le_self x.toNat (2 ^ 3)
    omega
  rw [Nat.mod_eq_of_lt this]

end Dora.Alloc
