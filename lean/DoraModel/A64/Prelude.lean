/-!
# Helpers the translated AArch64 assembler (`DoraModel/Gen/A64*.lean`) is written against

Hand-written, core Lean only. Rust's debug-build integer semantics: `+ - *` and unary `-` panic on
overflow, shifts panic when the amount is not smaller than the width, `/ %` panic on zero (and
`MIN / -1`), `as` casts wrap. A panic is `Except.error`.
-/
namespace Dora.A64

/-- `assert!` -/
def rassert (b : Bool) (msg : String) : Except String Unit := if b then .ok () else .error msg

def addU {w : Nat} (a b : BitVec w) : Except String (BitVec w) :=
  if a.toNat + b.toNat < 2 ^ w then .ok (a + b) else .error "overflow: add"
def subU {w : Nat} (a b : BitVec w) : Except String (BitVec w) :=
  if b.toNat ≤ a.toNat then .ok (a - b) else .error "overflow: sub"
def mulU {w : Nat} (a b : BitVec w) : Except String (BitVec w) :=
  if a.toNat * b.toNat < 2 ^ w then .ok (a * b) else .error "overflow: mul"

def inS (w : Nat) (r : Int) : Bool := decide (-(2 ^ (w - 1) : Int) ≤ r) && decide (r < (2 ^ (w - 1) : Int))
def addS {w : Nat} (a b : BitVec w) : Except String (BitVec w) :=
  if inS w (a.toInt + b.toInt) then .ok (a + b) else .error "overflow: add"
def subS {w : Nat} (a b : BitVec w) : Except String (BitVec w) :=
  if inS w (a.toInt - b.toInt) then .ok (a - b) else .error "overflow: sub"
def mulS {w : Nat} (a b : BitVec w) : Except String (BitVec w) :=
  if inS w (a.toInt * b.toInt) then .ok (a * b) else .error "overflow: mul"
def negS {w : Nat} (a : BitVec w) : Except String (BitVec w) :=
  if inS w (- a.toInt) then .ok (- a) else .error "overflow: neg"

def shlC {w : Nat} (a : BitVec w) (n : Nat) : Except String (BitVec w) :=
  if n < w then .ok (a <<< n) else .error "overflow: shl"
def shrU {w : Nat} (a : BitVec w) (n : Nat) : Except String (BitVec w) :=
  if n < w then .ok (a >>> n) else .error "overflow: shr"
def shrS {w : Nat} (a : BitVec w) (n : Nat) : Except String (BitVec w) :=
  if n < w then .ok (a.sshiftRight n) else .error "overflow: shr"

def divU {w : Nat} (a b : BitVec w) : Except String (BitVec w) :=
  if b.toNat = 0 then .error "division by zero" else .ok (a / b)
def remU {w : Nat} (a b : BitVec w) : Except String (BitVec w) :=
  if b.toNat = 0 then .error "division by zero" else .ok (a % b)
def divS {w : Nat} (a b : BitVec w) : Except String (BitVec w) :=
  if b.toNat = 0 then .error "division by zero"
  else if inS w (a.toInt.tdiv b.toInt) then .ok (a.sdiv b) else .error "overflow: div"
def remS {w : Nat} (a b : BitVec w) : Except String (BitVec w) :=
  if b.toNat = 0 then .error "division by zero"
  else if inS w (a.toInt.tdiv b.toInt) then .ok (a.srem b) else .error "overflow: rem"

/-- `u64::trailing_zeros` (width when zero) -/
def ctz {w : Nat} (a : BitVec w) : BitVec 32 :=
  BitVec.ofNat 32 (((List.range w).find? fun i => a.getLsbD i).getD w)
/-- `u64::leading_zeros` (width when zero) -/
def clz {w : Nat} (a : BitVec w) : BitVec 32 :=
  BitVec.ofNat 32 (((List.range w).find? fun i => a.getMsbD i).getD w)

/-- `Option::unwrap` / `expect` -/
def optExpect {α : Type} (o : Option α) (msg : String) : Except String α :=
  match o with
  | some a => .ok a
  | none => .error msg

/-- `usize::try_into().unwrap()` to an unsigned (`sgn = false`) or signed target of width `w` -/
def tryInto {v : Nat} (w : Nat) (sgn : Bool) (a : BitVec v) : Except String (BitVec w) :=
  if a.toNat < 2 ^ (if sgn then w - 1 else w) then .ok (a.setWidth w) else .error "try_into: out of range"

/-- little-endian bytes of `v`, `n` of them -/
def leBytes (v : Nat) : Nat → List (BitVec 8)
  | 0 => []
  | n + 1 => BitVec.ofNat 8 (v % 256) :: leBytes (v / 256) n

/-- `vec.write_uN::<LittleEndian>(v)` : append -/
def pushLE (code : Array (BitVec 8)) (v : Nat) (n : Nat) : Array (BitVec 8) :=
  code ++ (leBytes v n).toArray

def setBytes (code : Array (BitVec 8)) (pos : Nat) : List (BitVec 8) → Array (BitVec 8)
  | [] => code
  | b :: r => setBytes (code.setIfInBounds pos b) (pos + 1) r

/-- `(&mut vec[pos..]).write_uN::<LittleEndian>(v).unwrap()` : overwrite in place; slicing past the end and a
slice shorter than `n` both panic -/
def overwriteLE (code : Array (BitVec 8)) (pos : Nat) (v : Nat) (n : Nat) : Except String (Array (BitVec 8)) :=
  if pos + n ≤ code.size then .ok (setBytes code pos (leBytes v n)) else .error "write past the end of the buffer"

def vecIndex {α : Type} (a : Array α) (i : BitVec 64) : Except String α :=
  match a[i.toNat]? with
  | some x => .ok x
  | none => .error "index out of bounds"

def vecSet {α : Type} (a : Array α) (i : BitVec 64) (x : α) : Except String (Array α) :=
  if i.toNat < a.size then .ok (a.setIfInBounds i.toNat x) else .error "index out of bounds"

/-- run a sub-state computation on a field -/
abbrev SM (σ : Type) := StateT σ (Except String)

end Dora.A64
