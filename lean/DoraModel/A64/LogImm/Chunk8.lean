import DoraModel.A64.LogImm.Base
/-! kernel-evaluated round trip `decode → encode_logical_imm → decode` over a slice of the 13-bit encodings
(part 8 of 8; split so that the parts build in parallel; each `decide +kernel` evaluates the regenerated
`encode_logical_imm` on 128 encodings) -/
namespace Dora.A64.LogImm
open Dora.A64

theorem c64_896 : (List.range' 896 128).all (logImmOk 64) = true := by decide +kernel
theorem c64_1920 : (List.range' 1920 128).all (logImmOk 64) = true := by decide +kernel
theorem c64_2944 : (List.range' 2944 128).all (logImmOk 64) = true := by decide +kernel
theorem c64_3968 : (List.range' 3968 128).all (logImmOk 64) = true := by decide +kernel
theorem c64_4992 : (List.range' 4992 128).all (logImmOk 64) = true := by decide +kernel
theorem c64_6016 : (List.range' 6016 128).all (logImmOk 64) = true := by decide +kernel
theorem c64_7040 : (List.range' 7040 128).all (logImmOk 64) = true := by decide +kernel
theorem c64_8064 : (List.range' 8064 128).all (logImmOk 64) = true := by decide +kernel
theorem c32_896 : (List.range' 896 128).all (logImmOk 32) = true := by decide +kernel
theorem c32_1920 : (List.range' 1920 128).all (logImmOk 32) = true := by decide +kernel
theorem c32_2944 : (List.range' 2944 128).all (logImmOk 32) = true := by decide +kernel
theorem c32_3968 : (List.range' 3968 128).all (logImmOk 32) = true := by decide +kernel

end Dora.A64.LogImm
