import DoraModel.A64.LogImm.Base
/-! kernel-evaluated round trip `decode → encode_logical_imm → decode` over a slice of the 13-bit encodings
(part 4 of 8; split so that the parts build in parallel; each `decide +kernel` evaluates the regenerated
`encode_logical_imm` on 128 encodings) -/
namespace Dora.A64.LogImm
open Dora.A64

theorem c64_384 : (List.range' 384 128).all (logImmOk 64) = true := by decide +kernel
theorem c64_1408 : (List.range' 1408 128).all (logImmOk 64) = true := by decide +kernel
theorem c64_2432 : (List.range' 2432 128).all (logImmOk 64) = true := by decide +kernel
theorem c64_3456 : (List.range' 3456 128).all (logImmOk 64) = true := by decide +kernel
theorem c64_4480 : (List.range' 4480 128).all (logImmOk 64) = true := by decide +kernel
theorem c64_5504 : (List.range' 5504 128).all (logImmOk 64) = true := by decide +kernel
theorem c64_6528 : (List.range' 6528 128).all (logImmOk 64) = true := by decide +kernel
theorem c64_7552 : (List.range' 7552 128).all (logImmOk 64) = true := by decide +kernel
theorem c32_384 : (List.range' 384 128).all (logImmOk 32) = true := by decide +kernel
theorem c32_1408 : (List.range' 1408 128).all (logImmOk 32) = true := by decide +kernel
theorem c32_2432 : (List.range' 2432 128).all (logImmOk 32) = true := by decide +kernel
theorem c32_3456 : (List.range' 3456 128).all (logImmOk 32) = true := by decide +kernel

end Dora.A64.LogImm
