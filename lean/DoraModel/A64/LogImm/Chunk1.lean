import DoraModel.A64.LogImm.Base
/-! kernel-evaluated round trip `decode → encode_logical_imm → decode` over a slice of the 13-bit encodings
(part 1 of 8; split so that the parts build in parallel; each `decide +kernel` evaluates the regenerated
`encode_logical_imm` on 128 encodings) -/
namespace Dora.A64.LogImm
open Dora.A64

theorem c64_0 : (List.range' 0 128).all (logImmOk 64) = true := by decide +kernel
theorem c64_1024 : (List.range' 1024 128).all (logImmOk 64) = true := by decide +kernel
theorem c64_2048 : (List.range' 2048 128).all (logImmOk 64) = true := by decide +kernel
theorem c64_3072 : (List.range' 3072 128).all (logImmOk 64) = true := by decide +kernel
theorem c64_4096 : (List.range' 4096 128).all (logImmOk 64) = true := by decide +kernel
theorem c64_5120 : (List.range' 5120 128).all (logImmOk 64) = true := by decide +kernel
theorem c64_6144 : (List.range' 6144 128).all (logImmOk 64) = true := by decide +kernel
theorem c64_7168 : (List.range' 7168 128).all (logImmOk 64) = true := by decide +kernel
theorem c32_0 : (List.range' 0 128).all (logImmOk 32) = true := by decide +kernel
theorem c32_1024 : (List.range' 1024 128).all (logImmOk 32) = true := by decide +kernel
theorem c32_2048 : (List.range' 2048 128).all (logImmOk 32) = true := by decide +kernel
theorem c32_3072 : (List.range' 3072 128).all (logImmOk 32) = true := by decide +kernel

end Dora.A64.LogImm
