import DoraModel.A64.LogImm.Base
/-! kernel-evaluated round trip `decode → encode_logical_imm → decode` over a slice of the 13-bit encodings
(part 5 of 8; split so that the parts build in parallel; each `decide +kernel` evaluates the regenerated
`encode_logical_imm` on 128 encodings) -/
namespace Dora.A64.LogImm
open Dora.A64

theorem c64_512 : (List.range' 512 128).all (logImmOk 64) = true := by decide +kernel
theorem c64_1536 : (List.range' 1536 128).all (logImmOk 64) = true := by decide +kernel
theorem c64_2560 : (List.range' 2560 128).all (logImmOk 64) = true := by decide +kernel
theorem c64_3584 : (List.range' 3584 128).all (logImmOk 64) = true := by decide +kernel
theorem c64_4608 : (List.range' 4608 128).all (logImmOk 64) = true := by decide +kernel
theorem c64_5632 : (List.range' 5632 128).all (logImmOk 64) = true := by decide +kernel
theorem c64_6656 : (List.range' 6656 128).all (logImmOk 64) = true := by decide +kernel
theorem c64_7680 : (List.range' 7680 128).all (logImmOk 64) = true := by decide +kernel
theorem c32_512 : (List.range' 512 128).all (logImmOk 32) = true := by decide +kernel
theorem c32_1536 : (List.range' 1536 128).all (logImmOk 32) = true := by decide +kernel
theorem c32_2560 : (List.range' 2560 128).all (logImmOk 32) = true := by decide +kernel
theorem c32_3584 : (List.range' 3584 128).all (logImmOk 32) = true := by decide +kernel

end Dora.A64.LogImm
