import DoraModel.Gen.A64LogImm
import DoraModel.A64.Dec
/-!
Round-trip predicate for logical immediates over the regenerated `encode_logical_imm`
(imports only the small generated module `Gen/A64LogImm.lean`, so the kernel-evaluated slices next to this file
are rebuilt only when `encode_logical_imm` / `is_shifted_mask` / `is_mask` change).
-/
namespace Dora.A64

/-- fields N:immr:imms of a 13-bit logical-immediate encoding -/
def lN (e : Nat) : Nat := e / 4096
def lImmr (e : Nat) : Nat := e / 64 % 64
def lImms (e : Nat) : Nat := e % 64

/-- round trip at one encoding `e` for register width `m`: if `e` denotes the value `v`, then `encode_logical_imm v m`
accepts and returns an encoding that denotes `v` again -/
def logImmOk (m : Nat) (e : Nat) : Bool :=
  match decodeBitMasks (lN e) (lImms e) (lImmr e) m with
  | none => true
  | some v =>
    match encode_logical_imm (BitVec.ofNat 64 v) (BitVec.ofNat 32 m) with
    | .ok (some e') => decodeBitMasks (lN e'.toNat) (lImms e'.toNat) (lImmr e'.toNat) m == some v
    | _ => false

theorem logImmOk_of_chunk (m s n e : Nat) (h : (List.range' s n).all (logImmOk m) = true) (h1 : s ≤ e) (h2 : e < s + n) :
    logImmOk m e = true := by
  rw [List.all_eq_true] at h
  exact h e (List.mem_range'_1.mpr ⟨h1, h2⟩)

end Dora.A64
