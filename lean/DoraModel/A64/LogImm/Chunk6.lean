import DoraModel.A64.LogImm.Base
/-! kernel-evaluated round trip `decode → encode_logical_imm → decode` over a slice of the 13-bit encodings
(part 6 of 8; split so that the parts build in parallel; each `decide +kernel` evaluates the regenerated
`encode_logical_imm` on 128 encodings) -/
namespace Dora.A64.LogImm
open Dora.A64

theorem c64_640 : (List.range' 640 128).all (logImmOk 64) = true := by decide +kernel
theorem c64_1664 : (List.range' 1664 128).all (logImmOk 64) = true := by decide +kernel
theorem c64_2688 : (List.range' 2688 128).all (logImmOk 64) = true := by decide +kernel
theorem c64_3712 : (List.range' 3712 128).all (logImmOk 64) = true := by decide +kernel
theorem c64_4736 : (List.range' 4736 128).all (logImmOk 64) = true := by decide +kernel
theorem c64_5760 : (List.range' 5760 128).all (logImmOk 64) = true := by decide +kernel
theorem c64_6784 : (List.range' 6784 128).all (logImmOk 64) = true := by decide +kernel
theorem c64_7808 : (List.range' 7808 128).all (logImmOk 64) = true := by decide +kernel
theorem c32_640 : (List.range' 640 128).all (logImmOk 32) = true := by decide +kernel
theorem c32_1664 : (List.range' 1664 128).all (logImmOk 32) = true := by decide +kernel
theorem c32_2688 : (List.range' 2688 128).all (logImmOk 32) = true := by decide +kernel
theorem c32_3712 : (List.range' 3712 128).all (logImmOk 32) = true := by decide +kernel

end Dora.A64.LogImm
