import DoraModel.A64.LogImm.Base
/-! kernel-evaluated round trip `decode → encode_logical_imm → decode` over a slice of the 13-bit encodings
(part 3 of 8; split so that the parts build in parallel; each `decide +kernel` evaluates the regenerated
`encode_logical_imm` on 128 encodings) -/
namespace Dora.A64.LogImm
open Dora.A64

theorem c64_256 : (List.range' 256 128).all (logImmOk 64) = true := by decide +kernel
theorem c64_1280 : (List.range' 1280 128).all (logImmOk 64) = true := by decide +kernel
theorem c64_2304 : (List.range' 2304 128).all (logImmOk 64) = true := by decide +kernel
theorem c64_3328 : (List.range' 3328 128).all (logImmOk 64) = true := by decide +kernel
theorem c64_4352 : (List.range' 4352 128).all (logImmOk 64) = true := by decide +kernel
theorem c64_5376 : (List.range' 5376 128).all (logImmOk 64) = true := by decide +kernel
theorem c64_6400 : (List.range' 6400 128).all (logImmOk 64) = true := by decide +kernel
theorem c64_7424 : (List.range' 7424 128).all (logImmOk 64) = true := by decide +kernel
theorem c32_256 : (List.range' 256 128).all (logImmOk 32) = true := by decide +kernel
theorem c32_1280 : (List.range' 1280 128).all (logImmOk 32) = true := by decide +kernel
theorem c32_2304 : (List.range' 2304 128).all (logImmOk 32) = true := by decide +kernel
theorem c32_3328 : (List.range' 3328 128).all (logImmOk 32) = true := by decide +kernel

end Dora.A64.LogImm
