import DoraModel.A64.LogImm.Chunk1
import DoraModel.A64.LogImm.Chunk2
import DoraModel.A64.LogImm.Chunk3
import DoraModel.A64.LogImm.Chunk4
import DoraModel.A64.LogImm.Chunk5
import DoraModel.A64.LogImm.Chunk6
import DoraModel.A64.LogImm.Chunk7
import DoraModel.A64.LogImm.Chunk8
/-! every 13-bit logical-immediate encoding round-trips (assembled from the 96 slices) -/
namespace Dora.A64.LogImm
open Dora.A64

theorem logImmOk64 (e : Nat) (h : e < 8192) : logImmOk 64 e = true := by
  rcases Nat.lt_or_ge e 128 with h0 | h0
  · exact logImmOk_of_chunk 64 0 128 e c64_0 (by omega) (by omega)
  rcases Nat.lt_or_ge e 256 with h0 | h0
  · exact logImmOk_of_chunk 64 128 128 e c64_128 (by omega) (by omega)
  rcases Nat.lt_or_ge e 384 with h0 | h0
  · exact logImmOk_of_chunk 64 256 128 e c64_256 (by omega) (by omega)
  rcases Nat.lt_or_ge e 512 with h0 | h0
  · exact logImmOk_of_chunk 64 384 128 e c64_384 (by omega) (by omega)
  rcases Nat.lt_or_ge e 640 with h0 | h0
  · exact logImmOk_of_chunk 64 512 128 e c64_512 (by omega) (by omega)
  rcases Nat.lt_or_ge e 768 with h0 | h0
  · exact logImmOk_of_chunk 64 640 128 e c64_640 (by omega) (by omega)
  rcases Nat.lt_or_ge e 896 with h0 | h0
  · exact logImmOk_of_chunk 64 768 128 e c64_768 (by omega) (by omega)
  rcases Nat.lt_or_ge e 1024 with h0 | h0
  · exact logImmOk_of_chunk 64 896 128 e c64_896 (by omega) (by omega)
  rcases Nat.lt_or_ge e 1152 with h0 | h0
  · exact logImmOk_of_chunk 64 1024 128 e c64_1024 (by omega) (by omega)
  rcases Nat.lt_or_ge e 1280 with h0 | h0
  · exact logImmOk_of_chunk 64 1152 128 e c64_1152 (by omega) (by omega)
  rcases Nat.lt_or_ge e 1408 with h0 | h0
  · exact logImmOk_of_chunk 64 1280 128 e c64_1280 (by omega) (by omega)
  rcases Nat.lt_or_ge e 1536 with h0 | h0
  · exact logImmOk_of_chunk 64 1408 128 e c64_1408 (by omega) (by omega)
  rcases Nat.lt_or_ge e 1664 with h0 | h0
  · exact logImmOk_of_chunk 64 1536 128 e c64_1536 (by omega) (by omega)
  rcases Nat.lt_or_ge e 1792 with h0 | h0
  · exact logImmOk_of_chunk 64 1664 128 e c64_1664 (by omega) (by omega)
  rcases Nat.lt_or_ge e 1920 with h0 | h0
  · exact logImmOk_of_chunk 64 1792 128 e c64_1792 (by omega) (by omega)
  rcases Nat.lt_or_ge e 2048 with h0 | h0
  · exact logImmOk_of_chunk 64 1920 128 e c64_1920 (by omega) (by omega)
  rcases Nat.lt_or_ge e 2176 with h0 | h0
  · exact logImmOk_of_chunk 64 2048 128 e c64_2048 (by omega) (by omega)
  rcases Nat.lt_or_ge e 2304 with h0 | h0
  · exact logImmOk_of_chunk 64 2176 128 e c64_2176 (by omega) (by omega)
  rcases Nat.lt_or_ge e 2432 with h0 | h0
  · exact logImmOk_of_chunk 64 2304 128 e c64_2304 (by omega) (by omega)
  rcases Nat.lt_or_ge e 2560 with h0 | h0
  · exact logImmOk_of_chunk 64 2432 128 e c64_2432 (by omega) (by omega)
  rcases Nat.lt_or_ge e 2688 with h0 | h0
  · exact logImmOk_of_chunk 64 2560 128 e c64_2560 (by omega) (by omega)
  rcases Nat.lt_or_ge e 2816 with h0 | h0
  · exact logImmOk_of_chunk 64 2688 128 e c64_2688 (by omega) (by omega)
  rcases Nat.lt_or_ge e 2944 with h0 | h0
  · exact logImmOk_of_chunk 64 2816 128 e c64_2816 (by omega) (by omega)
  rcases Nat.lt_or_ge e 3072 with h0 | h0
  · exact logImmOk_of_chunk 64 2944 128 e c64_2944 (by omega) (by omega)
  rcases Nat.lt_or_ge e 3200 with h0 | h0
  · exact logImmOk_of_chunk 64 3072 128 e c64_3072 (by omega) (by omega)
  rcases Nat.lt_or_ge e 3328 with h0 | h0
  · exact logImmOk_of_chunk 64 3200 128 e c64_3200 (by omega) (by omega)
  rcases Nat.lt_or_ge e 3456 with h0 | h0
  · exact logImmOk_of_chunk 64 3328 128 e c64_3328 (by omega) (by omega)
  rcases Nat.lt_or_ge e 3584 with h0 | h0
  · exact logImmOk_of_chunk 64 3456 128 e c64_3456 (by omega) (by omega)
  rcases Nat.lt_or_ge e 3712 with h0 | h0
  · exact logImmOk_of_chunk 64 3584 128 e c64_3584 (by omega) (by omega)
  rcases Nat.lt_or_ge e 3840 with h0 | h0
  · exact logImmOk_of_chunk 64 3712 128 e c64_3712 (by omega) (by omega)
  rcases Nat.lt_or_ge e 3968 with h0 | h0
  · exact logImmOk_of_chunk 64 3840 128 e c64_3840 (by omega) (by omega)
  rcases Nat.lt_or_ge e 4096 with h0 | h0
  · exact logImmOk_of_chunk 64 3968 128 e c64_3968 (by omega) (by omega)
  rcases Nat.lt_or_ge e 4224 with h0 | h0
  · exact logImmOk_of_chunk 64 4096 128 e c64_4096 (by omega) (by omega)
  rcases Nat.lt_or_ge e 4352 with h0 | h0
  · exact logImmOk_of_chunk 64 4224 128 e c64_4224 (by omega) (by omega)
  rcases Nat.lt_or_ge e 4480 with h0 | h0
  · exact logImmOk_of_chunk 64 4352 128 e c64_4352 (by omega) (by omega)
  rcases Nat.lt_or_ge e 4608 with h0 | h0
  · exact logImmOk_of_chunk 64 4480 128 e c64_4480 (by omega) (by omega)
  rcases Nat.lt_or_ge e 4736 with h0 | h0
  · exact logImmOk_of_chunk 64 4608 128 e c64_4608 (by omega) (by omega)
  rcases Nat.lt_or_ge e 4864 with h0 | h0
  · exact logImmOk_of_chunk 64 4736 128 e c64_4736 (by omega) (by omega)
  rcases Nat.lt_or_ge e 4992 with h0 | h0
  · exact logImmOk_of_chunk 64 4864 128 e c64_4864 (by omega) (by omega)
  rcases Nat.lt_or_ge e 5120 with h0 | h0
  · exact logImmOk_of_chunk 64 4992 128 e c64_4992 (by omega) (by omega)
  rcases Nat.lt_or_ge e 5248 with h0 | h0
  · exact logImmOk_of_chunk 64 5120 128 e c64_5120 (by omega) (by omega)
  rcases Nat.lt_or_ge e 5376 with h0 | h0
  · exact logImmOk_of_chunk 64 5248 128 e c64_5248 (by omega) (by omega)
  rcases Nat.lt_or_ge e 5504 with h0 | h0
  · exact logImmOk_of_chunk 64 5376 128 e c64_5376 (by omega) (by omega)
  rcases Nat.lt_or_ge e 5632 with h0 | h0
  · exact logImmOk_of_chunk 64 5504 128 e c64_5504 (by omega) (by omega)
  rcases Nat.lt_or_ge e 5760 with h0 | h0
  · exact logImmOk_of_chunk 64 5632 128 e c64_5632 (by omega) (by omega)
  rcases Nat.lt_or_ge e 5888 with h0 | h0
  · exact logImmOk_of_chunk 64 5760 128 e c64_5760 (by omega) (by omega)
  rcases Nat.lt_or_ge e 6016 with h0 | h0
  · exact logImmOk_of_chunk 64 5888 128 e c64_5888 (by omega) (by omega)
  rcases Nat.lt_or_ge e 6144 with h0 | h0
  · exact logImmOk_of_chunk 64 6016 128 e c64_6016 (by omega) (by omega)
  rcases Nat.lt_or_ge e 6272 with h0 | h0
  · exact logImmOk_of_chunk 64 6144 128 e c64_6144 (by omega) (by omega)
  rcases Nat.lt_or_ge e 6400 with h0 | h0
  · exact logImmOk_of_chunk 64 6272 128 e c64_6272 (by omega) (by omega)
  rcases Nat.lt_or_ge e 6528 with h0 | h0
  · exact logImmOk_of_chunk 64 6400 128 e c64_6400 (by omega) (by omega)
  rcases Nat.lt_or_ge e 6656 with h0 | h0
  · exact logImmOk_of_chunk 64 6528 128 e c64_6528 (by omega) (by omega)
  rcases Nat.lt_or_ge e 6784 with h0 | h0
  · exact logImmOk_of_chunk 64 6656 128 e c64_6656 (by omega) (by omega)
  rcases Nat.lt_or_ge e 6912 with h0 | h0
  · exact logImmOk_of_chunk 64 6784 128 e c64_6784 (by omega) (by omega)
  rcases Nat.lt_or_ge e 7040 with h0 | h0
  · exact logImmOk_of_chunk 64 6912 128 e c64_6912 (by omega) (by omega)
  rcases Nat.lt_or_ge e 7168 with h0 | h0
  · exact logImmOk_of_chunk 64 7040 128 e c64_7040 (by omega) (by omega)
  rcases Nat.lt_or_ge e 7296 with h0 | h0
  · exact logImmOk_of_chunk 64 7168 128 e c64_7168 (by omega) (by omega)
  rcases Nat.lt_or_ge e 7424 with h0 | h0
  · exact logImmOk_of_chunk 64 7296 128 e c64_7296 (by omega) (by omega)
  rcases Nat.lt_or_ge e 7552 with h0 | h0
  · exact logImmOk_of_chunk 64 7424 128 e c64_7424 (by omega) (by omega)
  rcases Nat.lt_or_ge e 7680 with h0 | h0
  · exact logImmOk_of_chunk 64 7552 128 e c64_7552 (by omega) (by omega)
  rcases Nat.lt_or_ge e 7808 with h0 | h0
  · exact logImmOk_of_chunk 64 7680 128 e c64_7680 (by omega) (by omega)
  rcases Nat.lt_or_ge e 7936 with h0 | h0
  · exact logImmOk_of_chunk 64 7808 128 e c64_7808 (by omega) (by omega)
  rcases Nat.lt_or_ge e 8064 with h0 | h0
  · exact logImmOk_of_chunk 64 7936 128 e c64_7936 (by omega) (by omega)
  exact logImmOk_of_chunk 64 8064 128 e c64_8064 (by omega) (by omega)

theorem logImmOk32 (e : Nat) (h : e < 4096) : logImmOk 32 e = true := by
  rcases Nat.lt_or_ge e 128 with h0 | h0
  · exact logImmOk_of_chunk 32 0 128 e c32_0 (by omega) (by omega)
  rcases Nat.lt_or_ge e 256 with h0 | h0
  · exact logImmOk_of_chunk 32 128 128 e c32_128 (by omega) (by omega)
  rcases Nat.lt_or_ge e 384 with h0 | h0
  · exact logImmOk_of_chunk 32 256 128 e c32_256 (by omega) (by omega)
  rcases Nat.lt_or_ge e 512 with h0 | h0
  · exact logImmOk_of_chunk 32 384 128 e c32_384 (by omega) (by omega)
  rcases Nat.lt_or_ge e 640 with h0 | h0
  · exact logImmOk_of_chunk 32 512 128 e c32_512 (by omega) (by omega)
  rcases Nat.lt_or_ge e 768 with h0 | h0
  · exact logImmOk_of_chunk 32 640 128 e c32_640 (by omega) (by omega)
  rcases Nat.lt_or_ge e 896 with h0 | h0
  · exact logImmOk_of_chunk 32 768 128 e c32_768 (by omega) (by omega)
  rcases Nat.lt_or_ge e 1024 with h0 | h0
  · exact logImmOk_of_chunk 32 896 128 e c32_896 (by omega) (by omega)
  rcases Nat.lt_or_ge e 1152 with h0 | h0
  · exact logImmOk_of_chunk 32 1024 128 e c32_1024 (by omega) (by omega)
  rcases Nat.lt_or_ge e 1280 with h0 | h0
  · exact logImmOk_of_chunk 32 1152 128 e c32_1152 (by omega) (by omega)
  rcases Nat.lt_or_ge e 1408 with h0 | h0
  · exact logImmOk_of_chunk 32 1280 128 e c32_1280 (by omega) (by omega)
  rcases Nat.lt_or_ge e 1536 with h0 | h0
  · exact logImmOk_of_chunk 32 1408 128 e c32_1408 (by omega) (by omega)
  rcases Nat.lt_or_ge e 1664 with h0 | h0
  · exact logImmOk_of_chunk 32 1536 128 e c32_1536 (by omega) (by omega)
  rcases Nat.lt_or_ge e 1792 with h0 | h0
  · exact logImmOk_of_chunk 32 1664 128 e c32_1664 (by omega) (by omega)
  rcases Nat.lt_or_ge e 1920 with h0 | h0
  · exact logImmOk_of_chunk 32 1792 128 e c32_1792 (by omega) (by omega)
  rcases Nat.lt_or_ge e 2048 with h0 | h0
  · exact logImmOk_of_chunk 32 1920 128 e c32_1920 (by omega) (by omega)
  rcases Nat.lt_or_ge e 2176 with h0 | h0
  · exact logImmOk_of_chunk 32 2048 128 e c32_2048 (by omega) (by omega)
  rcases Nat.lt_or_ge e 2304 with h0 | h0
  · exact logImmOk_of_chunk 32 2176 128 e c32_2176 (by omega) (by omega)
  rcases Nat.lt_or_ge e 2432 with h0 | h0
  · exact logImmOk_of_chunk 32 2304 128 e c32_2304 (by omega) (by omega)
  rcases Nat.lt_or_ge e 2560 with h0 | h0
  · exact logImmOk_of_chunk 32 2432 128 e c32_2432 (by omega) (by omega)
  rcases Nat.lt_or_ge e 2688 with h0 | h0
  · exact logImmOk_of_chunk 32 2560 128 e c32_2560 (by omega) (by omega)
  rcases Nat.lt_or_ge e 2816 with h0 | h0
  · exact logImmOk_of_chunk 32 2688 128 e c32_2688 (by omega) (by omega)
  rcases Nat.lt_or_ge e 2944 with h0 | h0
  · exact logImmOk_of_chunk 32 2816 128 e c32_2816 (by omega) (by omega)
  rcases Nat.lt_or_ge e 3072 with h0 | h0
  · exact logImmOk_of_chunk 32 2944 128 e c32_2944 (by omega) (by omega)
  rcases Nat.lt_or_ge e 3200 with h0 | h0
  · exact logImmOk_of_chunk 32 3072 128 e c32_3072 (by omega) (by omega)
  rcases Nat.lt_or_ge e 3328 with h0 | h0
  · exact logImmOk_of_chunk 32 3200 128 e c32_3200 (by omega) (by omega)
  rcases Nat.lt_or_ge e 3456 with h0 | h0
  · exact logImmOk_of_chunk 32 3328 128 e c32_3328 (by omega) (by omega)
  rcases Nat.lt_or_ge e 3584 with h0 | h0
  · exact logImmOk_of_chunk 32 3456 128 e c32_3456 (by omega) (by omega)
  rcases Nat.lt_or_ge e 3712 with h0 | h0
  · exact logImmOk_of_chunk 32 3584 128 e c32_3584 (by omega) (by omega)
  rcases Nat.lt_or_ge e 3840 with h0 | h0
  · exact logImmOk_of_chunk 32 3712 128 e c32_3712 (by omega) (by omega)
  rcases Nat.lt_or_ge e 3968 with h0 | h0
  · exact logImmOk_of_chunk 32 3840 128 e c32_3840 (by omega) (by omega)
  exact logImmOk_of_chunk 32 3968 128 e c32_3968 (by omega) (by omega)

end Dora.A64.LogImm
