import DoraModel.A64.LogImm.Base
/-! kernel-evaluated round trip `decode → encode_logical_imm → decode` over a slice of the 13-bit encodings
(part 2 of 8; split so that the parts build in parallel; each `decide +kernel` evaluates the regenerated
`encode_logical_imm` on 128 encodings) -/
namespace Dora.A64.LogImm
open Dora.A64

theorem c64_128 : (List.range' 128 128).all (logImmOk 64) = true := by decide +kernel
theorem c64_1152 : (List.range' 1152 128).all (logImmOk 64) = true := by decide +kernel
theorem c64_2176 : (List.range' 2176 128).all (logImmOk 64) = true := by decide +kernel
theorem c64_3200 : (List.range' 3200 128).all (logImmOk 64) = true := by decide +kernel
theorem c64_4224 : (List.range' 4224 128).all (logImmOk 64) = true := by decide +kernel
theorem c64_5248 : (List.range' 5248 128).all (logImmOk 64) = true := by decide +kernel
theorem c64_6272 : (List.range' 6272 128).all (logImmOk 64) = true := by decide +kernel
theorem c64_7296 : (List.range' 7296 128).all (logImmOk 64) = true := by decide +kernel
theorem c32_128 : (List.range' 128 128).all (logImmOk 32) = true := by decide +kernel
theorem c32_1152 : (List.range' 1152 128).all (logImmOk 32) = true := by decide +kernel
theorem c32_2176 : (List.range' 2176 128).all (logImmOk 32) = true := by decide +kernel
theorem c32_3200 : (List.range' 3200 128).all (logImmOk 32) = true := by decide +kernel

end Dora.A64.LogImm
