import DoraModel.A64.LogImm.Base
/-! kernel-evaluated round trip `decode → encode_logical_imm → decode` over a slice of the 13-bit encodings
(part 7 of 8; split so that the parts build in parallel; each `decide +kernel` evaluates the regenerated
`encode_logical_imm` on 128 encodings) -/
namespace Dora.A64.LogImm
open Dora.A64

theorem c64_768 : (List.range' 768 128).all (logImmOk 64) = true := by decide +kernel
theorem c64_1792 : (List.range' 1792 128).all (logImmOk 64) = true := by decide +kernel
theorem c64_2816 : (List.range' 2816 128).all (logImmOk 64) = true := by decide +kernel
theorem c64_3840 : (List.range' 3840 128).all (logImmOk 64) = true := by decide +kernel
theorem c64_4864 : (List.range' 4864 128).all (logImmOk 64) = true := by decide +kernel
theorem c64_5888 : (List.range' 5888 128).all (logImmOk 64) = true := by decide +kernel
theorem c64_6912 : (List.range' 6912 128).all (logImmOk 64) = true := by decide +kernel
theorem c64_7936 : (List.range' 7936 128).all (logImmOk 64) = true := by decide +kernel
theorem c32_768 : (List.range' 768 128).all (logImmOk 32) = true := by decide +kernel
theorem c32_1792 : (List.range' 1792 128).all (logImmOk 32) = true := by decide +kernel
theorem c32_2816 : (List.range' 2816 128).all (logImmOk 32) = true := by decide +kernel
theorem c32_3840 : (List.range' 3840 128).all (logImmOk 32) = true := by decide +kernel

end Dora.A64.LogImm
