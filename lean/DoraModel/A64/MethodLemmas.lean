import DoraModel.A64.AsmLemmas
import DoraModel.A64.Spec
import Std.Tactic.BVDecide
/-!
# Interface lemmas for the generated per-method theorems (`Gen/A64Thm*.lean`, C08 sentence 1)

Hand-written; independent of `arm64.rs`. Three groups:
* running a translated single-instruction method (`SM AssemblerArm64 Unit`) in append mode: the lifted `Except`
  steps come out as an `Except` chain, `emit_u32 w; pure ()` appends the four bytes of `w`;
* the reference decoder's top-level dispatch (`decode`, Dec.lean) in bit-vector form: `decode_<class>`:
  if the class-selecting bits of `w` have the class' value then `decode w = dec<Class> w`;
* reading the decoder's register operands and the specification's register operands (`rz`/`rsp`/`fpr`) from the
  5-bit field the class theorems (`Props/C08/Cls*.lean`) place them in.
-/
namespace Dora.A64
set_option linter.unusedSimpArgs false

theorem lift_bind_run {σ α β : Type} (x : Except String α) (f : α → SM σ β) (s : σ) :
    ((monadLift x : SM σ α) >>= f).run s = x >>= fun a => (f a).run s := by
  simp only [StateT.run_bind, StateT.run_monadLift, monadLift_self]
  cases x <;> simp [bind, Except.bind, pure, Except.pure]

theorem emit_pure_run (s : AssemblerArm64) (v : BitVec 32) (h : AppendCond s) :
    (AssemblerArm64.emit_u32 v >>= fun _ => (pure () : SM AssemblerArm64 Unit)).run s = .ok ((), emitted s v) := by
  simp only [StateT.run_bind, asm_emit_u32 s v h]
  simp [bind, Except.bind, pure, StateT.pure, Except.pure, StateT.run]

/-- "the emitted word decodes under the reference decoder to exactly the requested instruction" -/
def Requested (sp : SpecRes) (w : BitVec 32) : Prop := ∃ i, sp = .ok i ∧ decode w = some i

theorem requested_iff (sp : SpecRes) (w : BitVec 32) : Requested sp w ↔ (decode w).map SpecRes.ok = some sp := by
  unfold Requested
  cases decode w <;> simp [eq_comm]

/-! ## the decoder's dispatch in bit-vector form -/

/-- the decoder's mask test as a bit-vector equation -/
theorem mt_eq' (w : BitVec 32) (m v : Nat) :
    Dora.A64.mt w m v = (decide (v < 4294967296) && (w &&& BitVec.ofNat 32 m == BitVec.ofNat 32 v)) := by
  unfold Dora.A64.mt
  by_cases hv : v < 4294967296
  · simp only [hv, decide_true, Bool.true_and]
    rw [Bool.eq_iff_iff]
    simp only [beq_iff_eq]
    have e : w.toNat &&& m = w.toNat &&& (m % 4294967296) := by
      apply Nat.eq_of_testBit_eq; intro i
      simp only [Nat.testBit_and]
      by_cases hi : i < 32
      · rw [show (4294967296:Nat) = 2^32 from rfl, Nat.testBit_mod_two_pow]; simp [hi]
      · have : w.toNat.testBit i = false :=
          Nat.testBit_lt_two_pow (Nat.lt_of_lt_of_le w.isLt (Nat.pow_le_pow_right (by decide) (by omega)))
        simp [this]
    constructor
    · intro h; apply BitVec.eq_of_toNat_eq; simp [BitVec.toNat_and, Nat.mod_eq_of_lt hv, ← e, h]
    · intro h; have := congrArg BitVec.toNat h; simpa [BitVec.toNat_and, Nat.mod_eq_of_lt hv, ← e] using this
  · simp only [hv, decide_false, Bool.false_and]
    rw [beq_eq_false_iff_ne]
    intro h
    have : w.toNat &&& m ≤ w.toNat := Nat.and_le_left
    have := w.isLt
    omega

/-- two mask tests that disagree on a common bit cannot both hold -/
theorem and_ne_of_common (w m v m1 v1 : BitVec 32) (h : w &&& m = v) (hne : (v &&& m1 == v1 &&& m) = false) :
    ¬ (w &&& m1 == v1) = true := by
  bv_decide (timeout := 600)

/-- `decode w = dec<Class> w` from the class-selecting bits: earlier tests of `decode` fail on a common bit (`decide`) -/
macro "dispatch_tac " h:ident : tactic =>
  `(tactic| (unfold decode
             simp only [mt_eq', Nat.reduceLT, decide_true, Bool.true_and]
             repeat (first | (rw [if_neg]; case hnc => exact and_ne_of_common _ _ _ _ _ $h (by decide))
                           | (rw [if_pos]; case hc => (rw [$h:ident]; rfl)))))

theorem decode_PcRel (w : BitVec 32) (h : w &&& 520093696#32 = 268435456#32) : decode w = decPcRel w := by
  dispatch_tac h

theorem decode_AddSubImm (w : BitVec 32) (h : w &&& 528482304#32 = 285212672#32) : decode w = decAddSubImm w := by
  dispatch_tac h

theorem decode_LogImm (w : BitVec 32) (h : w &&& 528482304#32 = 301989888#32) : decode w = decLogImm w := by
  dispatch_tac h

theorem decode_MoveWide (w : BitVec 32) (h : w &&& 528482304#32 = 310378496#32) : decode w = decMoveWide w := by
  dispatch_tac h

theorem decode_Bitfield (w : BitVec 32) (h : w &&& 528482304#32 = 318767104#32) : decode w = decBitfield w := by
  dispatch_tac h

theorem decode_BImm (w : BitVec 32) (h : w &&& 2080374784#32 = 335544320#32) : decode w = decBImm w := by
  dispatch_tac h

theorem decode_CmpBranch (w : BitVec 32) (h : w &&& 2113929216#32 = 872415232#32) : decode w = decCmpBranch w := by
  dispatch_tac h

theorem decode_TestBranch (w : BitVec 32) (h : w &&& 2113929216#32 = 905969664#32) : decode w = decTestBranch w := by
  dispatch_tac h

theorem decode_CondBranch (w : BitVec 32) (h : w &&& 4261412864#32 = 1409286144#32) : decode w = decCondBranch w := by
  dispatch_tac h

theorem decode_Exception (w : BitVec 32) (h : w &&& 4278190080#32 = 3556769792#32) : decode w = decException w := by
  dispatch_tac h

theorem decode_System (w : BitVec 32) (h : w &&& 4290772992#32 = 3573547008#32) : decode w = decSystem w := by
  dispatch_tac h

theorem decode_BReg (w : BitVec 32) (h : w &&& 4261412864#32 = 3590324224#32) : decode w = decBReg w := by
  dispatch_tac h

theorem decode_LdStExcl (w : BitVec 32) (h : w &&& 1056964608#32 = 134217728#32) : decode w = decLdStExcl w := by
  dispatch_tac h

theorem decode_LdStPair1 (w : BitVec 32) (h : w &&& 998244352#32 = 679477248#32) : decode w = decLdStPair w 1 := by
  dispatch_tac h

theorem decode_LdStPair2 (w : BitVec 32) (h : w &&& 998244352#32 = 687865856#32) : decode w = decLdStPair w 2 := by
  dispatch_tac h

theorem decode_LdStPair3 (w : BitVec 32) (h : w &&& 998244352#32 = 696254464#32) : decode w = decLdStPair w 3 := by
  dispatch_tac h

theorem decode_LdStUnscaled (w : BitVec 32) (h : w &&& 991955968#32 = 939524096#32) : decode w = decLdStUnscaled w := by
  dispatch_tac h

theorem decode_Atomic (w : BitVec 32) (h : w &&& 991955968#32 = 941621248#32) : decode w = decAtomic w := by
  dispatch_tac h

theorem decode_LdStRegOff (w : BitVec 32) (h : w &&& 991955968#32 = 941623296#32) : decode w = decLdStRegOff w := by
  dispatch_tac h

theorem decode_LdStUImm (w : BitVec 32) (h : w &&& 989855744#32 = 956301312#32) : decode w = decLdStUImm w := by
  dispatch_tac h

theorem decode_LogShReg (w : BitVec 32) (h : w &&& 520093696#32 = 167772160#32) : decode w = decLogShReg w := by
  dispatch_tac h

theorem decode_AddSubShReg (w : BitVec 32) (h : w &&& 522190848#32 = 184549376#32) : decode w = decAddSubShReg w := by
  dispatch_tac h

theorem decode_AddSubExtReg (w : BitVec 32) (h : w &&& 522190848#32 = 186646528#32) : decode w = decAddSubExtReg w := by
  dispatch_tac h

theorem decode_CondSel (w : BitVec 32) (h : w &&& 534775808#32 = 444596224#32) : decode w = decCondSel w := by
  dispatch_tac h

theorem decode_DP1 (w : BitVec 32) (h : w &&& 1608515584#32 = 1522532352#32) : decode w = decDP1 w := by
  dispatch_tac h

theorem decode_DP2 (w : BitVec 32) (h : w &&& 1608515584#32 = 448790528#32) : decode w = decDP2 w := by
  dispatch_tac h

theorem decode_DP3 (w : BitVec 32) (h : w &&& 520093696#32 = 452984832#32) : decode w = decDP3 w := by
  dispatch_tac h

theorem decode_FpInt (w : BitVec 32) (h : w &&& 1595997184#32 = 505413632#32) : decode w = decFpInt w := by
  dispatch_tac h

theorem decode_FpDP1 (w : BitVec 32) (h : w &&& 1595964416#32 = 505430016#32) : decode w = decFpDP1 w := by
  dispatch_tac h

theorem decode_FpCmp (w : BitVec 32) (h : w &&& 1595948032#32 = 505421824#32) : decode w = decFpCmp w := by
  dispatch_tac h

theorem decode_FpDP2 (w : BitVec 32) (h : w &&& 1595935744#32 = 505415680#32) : decode w = decFpDP2 w := by
  dispatch_tac h

theorem decode_SimdLanes (w : BitVec 32) (h : w &&& 2671643648#32 = 238028800#32) : decode w = decSimdLanes w := by
  dispatch_tac h

theorem decode_SimdMisc (w : BitVec 32) (h : w &&& 2671643648#32 = 236980224#32) : decode w = decSimdMisc w := by
  dispatch_tac h

end Dora.A64
