import DoraModel.Gen.A64Asm
import DoraModel.A64.Dec
import DoraModel.A64.LogImm.Base
import Std.Tactic.BVDecide
/-!
# Interface lemmas about the translated encoder (helpers for `Props/C08.lean`)

The per-class theorems only go through these: `Except` chains of `assert!`s become conjunctions, the
`Register::encoding*` family becomes a guard plus a 5-bit value. So a harmless rewrite of a class encoder
keeps the proofs, a semantic change breaks them.
-/
namespace Dora.A64

/-! Equation lemmas of the small range predicates are realised HERE, in the common ancestor of the `Props/C08/Cls*`
modules: Lean generates `f.eq_1` lazily in whichever module first unfolds `f`; when two sibling modules both do, importing
them together fails ("environment already contains 'Dora.A64.fits_i14.eq_1'"). Which sibling needs one depends on the proof
search, so it showed up only after a rebuild. Referring to the lemmas here makes them part of this module. -/
section realise_eq_lemmas
example := @fits_u16.eq_1
example := @fits_u2.eq_1
example := @fits_u3.eq_1
example := @fits_bit.eq_1
example := @fits_i21.eq_1
example := @fits_i26.eq_1
example := @fits_i19.eq_1
example := @fits_u7.eq_1
example := @fits_i14.eq_1
example := @fits_u6.eq_1
example := @fits_u5.eq_1
example := @fits_u12.eq_1
example := @fits_u13.eq_1
example := @fits_u4.eq_1
example := @fits_i7.eq_1
example := @fits_i9.eq_1
end realise_eq_lemmas

/-- Arm ARM, "ADD (extended register)" and friends: the 3-bit `option` field. `LSL` is the preferred spelling of
UXTX in the 64-bit form (sf = 1) and of UXTW in the 32-bit form (sf = 0). Hand-written specification, used by the
generated theorem of class `addsub_extreg`. -/
def extendOptionSpec (e : Extend) (sf : BitVec 32) : BitVec 3 :=
  match e with
  | .UXTB => 0#3 | .UXTH => 1#3 | .UXTW => 2#3 | .UXTX => 3#3
  | .SXTB => 4#3 | .SXTH => 5#3 | .SXTW => 6#3 | .SXTX => 7#3
  | .LSL => if sf = 0#32 then 2#3 else 3#3

theorem bind_ok {α β : Type} (x : Except String α) (f : α → Except String β) (b : β) :
    (x >>= f) = .ok b ↔ ∃ a, x = .ok a ∧ f a = .ok b := by
  cases x <;> simp [bind, Except.bind]

theorem rassert_ok (b : Bool) (m : String) (u : Unit) : rassert b m = .ok u ↔ b = true := by
  unfold rassert; cases b <;> simp

theorem pure_ok {α : Type} (a b : α) : (pure a : Except String α) = .ok b ↔ a = b := by
  simp [pure, Except.pure]

theorem ok_ok {α : Type} (a b : α) : (Except.ok a : Except String α) = .ok b ↔ a = b := by
  simp

theorem ite_ok {α : Type} (c : Prop) [Decidable c] (x y : Except String α) (b : α) :
    (if c then x else y) = .ok b ↔ (c ∧ x = .ok b) ∨ (¬ c ∧ y = .ok b) := by
  by_cases h : c <;> simp [h]

/-- `∃ a, (P ∧ a = t) ∧ Q a` -/
theorem ex_elim {α : Type} (P : Prop) (t : α) (Q : α → Prop) : (∃ a, (P ∧ a = t) ∧ Q a) ↔ P ∧ Q t := by
  constructor
  · rintro ⟨a, ⟨hp, rfl⟩, hq⟩; exact ⟨hp, hq⟩
  · rintro ⟨hp, hq⟩; exact ⟨t, ⟨hp, rfl⟩, hq⟩

theorem ex_elim' {α : Type} (t : α) (Q : α → Prop) : (∃ a, a = t ∧ Q a) ↔ Q t := by
  constructor
  · rintro ⟨a, rfl, hq⟩; exact hq
  · intro hq; exact ⟨t, rfl, hq⟩

theorem ex_elim_r {α : Type} (t : α) (Q : α → Prop) : (∃ a, t = a ∧ Q a) ↔ Q t := by
  constructor
  · rintro ⟨a, rfl, hq⟩; exact hq
  · intro hq; exact ⟨t, rfl, hq⟩

theorem ex_unit (P : Prop) (Q : Prop) : (∃ _ : Unit, P ∧ Q) ↔ P ∧ Q := by
  constructor
  · rintro ⟨_, h⟩; exact h
  · intro h; exact ⟨(), h⟩

/-- `Register::encoding`: general-purpose registers only -/
theorem enc_ok (r : Register) (v : BitVec 32) :
    Register.encoding r = .ok v ↔ r.v.ule 30#8 = true ∧ v = BitVec.setWidth 32 r.v := by
  unfold Register.encoding
  simp only [bind_ok, rassert_ok, pure_ok, Register.is_gpr, R30, ex_unit]
  constructor
  · rintro ⟨h, rfl⟩; exact ⟨h, rfl⟩
  · rintro ⟨h, rfl⟩; exact ⟨h, rfl⟩

/-- `Register::encoding_zero`: 31 means the zero register -/
theorem encz_ok (r : Register) (v : BitVec 32) :
    Register.encoding_zero r = .ok v ↔
      (r.v.ule 30#8 || r.v == 100#8) = true ∧ v = (if r.v.ule 30#8 = true then BitVec.setWidth 32 r.v else 31#32) := by
  unfold Register.encoding_zero
  simp only [bind_ok, rassert_ok, Register.is_gpr, Register.is_gpr_or_zero, R30, REG_ZERO, ex_unit]
  by_cases hc : r.v.ule 30#8 = true <;> simp [hc, pure, Except.pure]
  · exact eq_comm
  · intro _; exact eq_comm

/-- `Register::encoding_sp`: 31 means the stack pointer -/
theorem encs_ok (r : Register) (v : BitVec 32) :
    Register.encoding_sp r = .ok v ↔
      (r.v.ule 30#8 || r.v == 101#8) = true ∧ v = (if r.v.ule 30#8 = true then BitVec.setWidth 32 r.v else 31#32) := by
  unfold Register.encoding_sp
  simp only [bind_ok, rassert_ok, Register.is_gpr, Register.is_gpr_or_sp, R30, REG_SP, ex_unit]
  by_cases hc : r.v.ule 30#8 = true <;> simp [hc, pure, Except.pure]
  · exact eq_comm
  · intro _; exact eq_comm

/-- `Register::encoding_zero_or_sp` -/
theorem enczs_ok (r : Register) (v : BitVec 32) :
    Register.encoding_zero_or_sp r = .ok v ↔
      (r.v.ule 30#8 || r.v == 100#8 || r.v == 101#8) = true ∧
        v = (if r.v.ule 30#8 = true then BitVec.setWidth 32 r.v else 31#32) := by
  unfold Register.encoding_zero_or_sp
  simp only [Register.is_gpr, R30, REG_ZERO, REG_SP]
  by_cases hc : r.v.ule 30#8 = true
  · simp [hc, pure, Except.pure]
    exact eq_comm
  · by_cases h2 : (r.v == 100#8 || r.v == 101#8) = true
    · simp [hc, h2, pure, Except.pure]
      exact eq_comm
    · simp [hc, h2, throw, throwThe, MonadExceptOf.throw]

/-- `encoding_rn` -/
theorem encrn_ok (r : Register) (v : BitVec 32) :
    encoding_rn r = .ok v ↔ r.v.ule 30#8 = true ∧ v = BitVec.setWidth 32 r.v <<< 5 := by
  unfold encoding_rn
  simp only [bind_ok, rassert_ok, pure_ok, enc_ok, Register.is_gpr, R30, ex_unit, ex_elim]
  constructor
  · rintro ⟨h, _, rfl⟩; exact ⟨h, rfl⟩
  · rintro ⟨h, rfl⟩; exact ⟨h, h, rfl⟩

/-- simp set that turns `cls.xyz … = .ok w` into `guards ∧ word = w` -/
macro "cls_norm" " at " h:ident : tactic =>
  `(tactic| simp only [bind_ok, rassert_ok, pure_ok, ok_ok, ite_ok, enc_ok, encz_ok, encs_ok, enczs_ok, encrn_ok, ex_unit, ex_elim, ex_elim', ex_elim_r,
      fits_bit, fits_u2, fits_u3, fits_u4, fits_u5, fits_u6, fits_u7, fits_u12, fits_u13, fits_u16,
      fits_i7, fits_i9, fits_i14, fits_i19, fits_i21, fits_i26,
      Shift.is_ror, Shift.u32, Cond.u32, Extend.encoding, NeonRegister.encoding,
      Register.is_gpr, Register.is_gpr_or_zero, Register.is_gpr_or_sp, R30, REG_ZERO, REG_SP] at $h:ident)

end Dora.A64

