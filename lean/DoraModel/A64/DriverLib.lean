import DoraModel.Gen.A64Asm
/-!
# Request parsing / response formatting shared by the generated dispatch and `Drivers/C08.lean`
Hand-written, core Lean only. Mirrors `harness/crates/c08/src/main.rs` token for token.
-/
namespace Dora.A64

structure Drv where
  asm : AssemblerArm64
  labels : Array Label
  outs : Array String

/-- a panic of the implementation; the text after `!panic` is for debugging only -/
def panicky {α : Type} (x : Except String α) : Except String α :=
  match x with
  | .ok a => .ok a
  | .error e => .error ("!panic " ++ e)

def parseNat? (s : String) : Option Nat :=
  if s.isEmpty || !s.all Char.isDigit then none else s.toNat?

/-- decimal integer of the given width/signedness, as the harness' `str::parse::<uN/iN>()` accepts it -/
def parseNum (w : Nat) (sgn : Bool) (s : String) : Except String (BitVec w) :=
  if sgn then
    let (neg, body) := if s.startsWith "-" then (true, (s.drop 1).toString) else (false, s)
    match parseNat? body with
    | some n =>
      if neg then (if n ≤ 2 ^ (w - 1) then .ok (BitVec.ofInt w (-(n : Int))) else .error "!badreq")
      else (if n < 2 ^ (w - 1) then .ok (BitVec.ofNat w n) else .error "!badreq")
    | none => .error "!badreq"
  else
    match parseNat? s with
    | some n => if n < 2 ^ w then .ok (BitVec.ofNat w n) else .error "!badreq"
    | none => .error "!badreq"

/-- `100` = `REG_ZERO`, `101` = `REG_SP`, everything else through the public `Register::new` -/
def parseReg (s : String) : Except String Register := do
  let n ← parseNum 8 false s
  if n == 100#8 then pure REG_ZERO
  else if n == 101#8 then pure REG_SP
  else panicky (Register.new n)

def parseFReg (s : String) : Except String NeonRegister := do
  let n ← parseNum 8 false s
  panicky (NeonRegister.new n)

def parseLabel (labels : Array Label) (s : String) : Except String Label :=
  if s.startsWith "L" then
    match parseNat? (s.drop 1).toString with
    | some k => match labels[k]? with
      | some l => .ok l
      | none => .error "!badreq"
    | none => .error "!badreq"
  else .error "!badreq"

def hexNib (n : Nat) : Char := if n < 10 then Char.ofNat (48 + n) else Char.ofNat (87 + n)

/-- lower-case hex; a maximal run of at least 16 zero bytes is written `z<len>.`; `-` when empty -/
def hexCode (code : Array (BitVec 8)) : String := Id.run do
  if code.size == 0 then return "-"
  let mut s := ""
  let mut i := 0
  let n := code.size
  for _ in [0:n] do
    if i ≥ n then break
    let b := code[i]!
    if b == 0#8 then
      let mut j := i
      for _ in [i:n] do
        if j < n && code[j]! == 0#8 then j := j + 1 else break
      if j - i ≥ 16 then
        s := s ++ "z" ++ toString (j - i) ++ "."
        i := j
        continue
    s := (s.push (hexNib (b.toNat / 16))).push (hexNib (b.toNat % 16))
    i := i + 1
  return s

end Dora.A64
