import DoraModel.A64.Lemmas
/-!
# Interface lemmas for the state-monad part of the translated assembler (helpers for `Props/C08.lean`)

`SM σ = StateT σ (Except String)`. A run that ends in `.ok` is turned into a formula: binds become
existentials, lifted `Except` steps become equations, `if` becomes a disjunction; `emit_u32` in append mode
appends the four little-endian bytes of the word (`emitted`).
-/
namespace Dora.A64
set_option linter.unusedSimpArgs false

section sm
variable {σ α β : Type}

theorem run_bind_ok (x : SM σ α) (f : α → SM σ β) (s s' : σ) (b : β) :
    (x >>= f).run s = .ok (b, s') ↔ ∃ a s1, x.run s = .ok (a, s1) ∧ (f a).run s1 = .ok (b, s') := by
  simp only [StateT.run_bind, bind_ok]
  constructor
  · rintro ⟨⟨a, s1⟩, h1, h2⟩; exact ⟨a, s1, h1, h2⟩
  · rintro ⟨a, s1, h1, h2⟩; exact ⟨(a, s1), h1, h2⟩

theorem run_pure_ok (a b : α) (s s' : σ) : (pure a : SM σ α).run s = .ok (b, s') ↔ a = b ∧ s = s' := by
  simp [StateT.run, pure, StateT.pure, Except.pure]

theorem run_lift_ok (x : Except String α) (a : α) (s s' : σ) :
    (monadLift x : SM σ α).run s = .ok (a, s') ↔ x = .ok a ∧ s = s' := by
  cases x <;> simp [StateT.run_monadLift, monadLift_self, bind, Except.bind, pure, Except.pure]

theorem run_map_ok (g : α → β) (x : SM σ α) (s s' : σ) (b : β) :
    (g <$> x).run s = .ok (b, s') ↔ ∃ a, x.run s = .ok (a, s') ∧ g a = b := by
  simp only [StateT.run_map]
  cases h : x.run s with
  | error e => simp [Functor.map, Except.map]
  | ok p =>
    obtain ⟨a, s1⟩ := p
    simp [Functor.map, Except.map]
    constructor
    · rintro ⟨h1, h2⟩; exact ⟨a, ⟨rfl, h2⟩, h1⟩
    · rintro ⟨a', ⟨h1, h2⟩, h3⟩; subst h1; exact ⟨h3, h2⟩

theorem run_ite_ok (c : Prop) [Decidable c] (x y : SM σ α) (s s' : σ) (a : α) :
    (if c then x else y).run s = .ok (a, s') ↔ (c ∧ x.run s = .ok (a, s')) ∨ (¬ c ∧ y.run s = .ok (a, s')) := by
  by_cases h : c <;> simp [h]
end sm

theorem subU_ok {w} (a b c : BitVec w) : subU a b = .ok c ↔ b.toNat ≤ a.toNat ∧ c = a - b := by
  unfold subU; by_cases h : b.toNat ≤ a.toNat <;> simp [h, eq_comm]
theorem mulU_ok {w} (a b c : BitVec w) : mulU a b = .ok c ↔ a.toNat * b.toNat < 2 ^ w ∧ c = a * b := by
  unfold mulU; by_cases h : a.toNat * b.toNat < 2 ^ w <;> simp [h, eq_comm]
theorem addU_ok {w} (a b c : BitVec w) : addU a b = .ok c ↔ a.toNat + b.toNat < 2 ^ w ∧ c = a + b := by
  unfold addU; by_cases h : a.toNat + b.toNat < 2 ^ w <;> simp [h, eq_comm]
theorem shrU_ok {w} (a c : BitVec w) (n : Nat) : shrU a n = .ok c ↔ n < w ∧ c = a >>> n := by
  unfold shrU; by_cases h : n < w <;> simp [h, eq_comm]

theorem size_pushLE (c : Array (BitVec 8)) (v n : Nat) : (pushLE c v n).size = c.size + n := by
  have : ∀ (n v : Nat), (leBytes v n).length = n := by
    intro n; induction n with
    | zero => intro v; rfl
    | succ k ih => intro v; simp [leBytes, ih]
  simp [pushLE, this]

theorem buf_emit_u32 (b : AssemblerBuffer) (v : BitVec 32) (hp : b.position = BitVec.ofNat 64 b.code.size)
    (hs : b.code.size + 4 < 2 ^ 64) :
    (AssemblerBuffer.emit_u32 v).run b =
      .ok ((), { b with code := pushLE b.code v.toNat 4, position := b.position + 4#64 }) := by
  unfold AssemblerBuffer.emit_u32
  have hm : b.code.size % 18446744073709551616 = b.code.size := Nat.mod_eq_of_lt (by omega)
  simp [StateT.run, bind, StateT.bind, get, getThe, MonadStateOf.get, StateT.get, pure, StateT.pure, Except.bind, Except.pure,
    modify, modifyGet, MonadStateOf.modifyGet, StateT.modifyGet, hp, liftM, monadLift, MonadLift.monadLift, StateT.lift, addU, hm]
  have h2 : b.code.size + 4 < 18446744073709551616 := by omega
  simp [h2]

/-- the assembler state after appending one instruction word (its four little-endian bytes) -/
def emitted (s : AssemblerArm64) (v : BitVec 32) : AssemblerArm64 :=
  { s with buffer := { s.buffer with code := pushLE s.buffer.code v.toNat 4, position := s.buffer.position + 4#64 } }

/-- append mode: the write position is the end of the code -/
def AppendCond (s : AssemblerArm64) : Prop :=
  s.buffer.position = BitVec.ofNat 64 s.buffer.code.size ∧ s.buffer.code.size + 4 < 2 ^ 64

instance (s : AssemblerArm64) : Decidable (AppendCond s) := by unfold AppendCond; infer_instance

theorem asm_emit_u32 (s : AssemblerArm64) (v : BitVec 32) (h : AppendCond s) :
    (AssemblerArm64.emit_u32 v).run s = .ok ((), emitted s v) := by
  unfold AssemblerArm64.emit_u32
  have := buf_emit_u32 s.buffer v h.1 h.2
  simp [StateT.run] at this
  simp [StateT.run, bind, StateT.bind, get, getThe, MonadStateOf.get, StateT.get, pure, StateT.pure, Except.bind, Except.pure,
    set, StateT.set, liftM, monadLift, MonadLift.monadLift, StateT.lift, emitted, this]

theorem emit_ok (s s' : AssemblerArm64) (v : BitVec 32) (u : Unit) (h : AppendCond s) :
    (AssemblerArm64.emit_u32 v).run s = .ok (u, s') ↔ s' = emitted s v := by
  rw [asm_emit_u32 s v h]; simp [eq_comm]

theorem appendCond_new : AppendCond AssemblerArm64.new := by
  simp [AppendCond, AssemblerArm64.new, AssemblerBuffer.new]

/-- after an append the assembler is in append mode again (as long as the code stays below 2^63 bytes) -/
theorem appendCond_emitted (s : AssemblerArm64) (v : BitVec 32) (h : AppendCond s) (hs : s.buffer.code.size + 8 < 2 ^ 64) :
    AppendCond (emitted s v) := by
  obtain ⟨hp, _⟩ := h
  refine ⟨?_, ?_⟩
  · simp only [emitted, size_pushLE, hp]
    apply BitVec.eq_of_toNat_eq
    simp [BitVec.toNat_add, BitVec.toNat_ofNat]
  · simp only [emitted, size_pushLE]; omega

theorem size_emitted (s : AssemblerArm64) (v : BitVec 32) : (emitted s v).buffer.code.size = s.buffer.code.size + 4 := by
  simp [emitted, size_pushLE]

end Dora.A64
