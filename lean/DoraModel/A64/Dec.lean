/-!
# Reference decoder for the A64 instructions the dora assembler can request (specification, hand-written)

Written from the Arm ARM (DDI 0487) encoding tables, independently of `dora-asm/src/arm64.rs`:
field extraction per instruction class, register-31 interpretation per operand (sp / zr), unallocated
encodings → `none`, `DecodeBitMasks` for logical immediates from the ARM pseudocode.
The printer `Instr.asm` produces LLVM assembler syntax; the check assembles that text with
`llvm-mc -triple=aarch64 -mattr=+lse` and compares the bytes (validation of this file against LLVM 14).
Core Lean only.
-/
namespace Dora.A64

/-- general register operand as written in assembly -/
inductive GReg where
  | x (n : Nat) | w (n : Nat) | xzr | wzr | sp | wsp
  deriving DecidableEq, Repr, Inhabited

inductive Opd where
  | r (g : GReg)
  | b (n : Nat) | h (n : Nat) | s (n : Nat) | d (n : Nat)
  | v (n : Nat) (arr : String)
  | imm (i : Int)
  | immx (i : Nat)                    -- bitmask immediate (printed in hex)
  | shift (kind : String) (amt : Nat)  -- `lsl #3`, `uxtw #2`
  | cond (c : String)
  | mem (base : GReg) (off : Int)      -- [base, #off]
  | memPre (base : GReg) (off : Int)   -- [base, #off]!
  | memPost (base : GReg) (off : Int)  -- [base], #off
  | memReg (base idx : GReg) (ext : String) (amt : Option Nat)  -- [base, idx, ext #amt]
  | label (off : Int)                  -- pc-relative byte offset
  deriving DecidableEq, Repr, Inhabited

structure Instr where
  mnem : String
  ops : List Opd
  deriving DecidableEq, Repr, Inhabited

/-! ## printing (LLVM syntax) -/

def GReg.asm : GReg → String
  | .x n => s!"x{n}" | .w n => s!"w{n}" | .xzr => "xzr" | .wzr => "wzr" | .sp => "sp" | .wsp => "wsp"

def hexDigits (n : Nat) : String := String.ofList (Nat.toDigits 16 n)

def Opd.asm : Opd → String
  | .r g => g.asm
  | .b n => s!"b{n}" | .h n => s!"h{n}" | .s n => s!"s{n}" | .d n => s!"d{n}"
  | .v n a => s!"v{n}.{a}"
  | .imm i => s!"#{i}"
  | .immx i => s!"#0x{hexDigits i}"
  | .shift k a => s!"{k} #{a}"
  | .cond c => c
  | .mem bs o => if o = 0 then s!"[{bs.asm}]" else s!"[{bs.asm}, #{o}]"
  | .memPre bs o => s!"[{bs.asm}, #{o}]!"
  | .memPost bs o => s!"[{bs.asm}], #{o}"
  | .memReg bs i e none => if e = "lsl" then s!"[{bs.asm}, {i.asm}]" else s!"[{bs.asm}, {i.asm}, {e}]"
  | .memReg bs i e (some a) => s!"[{bs.asm}, {i.asm}, {e} #{a}]"
  | .label o => s!"#{o}"

def Instr.asm (i : Instr) : String :=
  match i.ops with
  | [] => i.mnem
  | ops => i.mnem ++ " " ++ ", ".intercalate (ops.map Opd.asm)

/-! ## field helpers -/

/-- bits `[lo+len-1 : lo]` of the word -/
def fld (w : BitVec 32) (lo len : Nat) : Nat := (w.extractLsb' lo len).toNat

/-- sign-extend a `len`-bit field value -/
def sext (v len : Nat) : Int := if v < 2 ^ (len - 1) then (v : Int) else (v : Int) - (2 ^ len : Int)

def xz (n : Nat) : GReg := if n = 31 then .xzr else .x n
def wz (n : Nat) : GReg := if n = 31 then .wzr else .w n
def xs (n : Nat) : GReg := if n = 31 then .sp else .x n
def ws (n : Nat) : GReg := if n = 31 then .wsp else .w n
/-- zero-register reading, width by `sf` -/
def gz (sf n : Nat) : GReg := if sf = 1 then xz n else wz n
/-- stack-pointer reading, width by `sf` -/
def gs (sf n : Nat) : GReg := if sf = 1 then xs n else ws n

def condName (c : Nat) : String :=
  ["eq", "ne", "hs", "lo", "mi", "pl", "vs", "vc", "hi", "ls", "ge", "lt", "gt", "le", "al", "nv"].getD c "?"
def shiftName (s : Nat) : String := ["lsl", "lsr", "asr", "ror"].getD s "?"
def extName (o : Nat) : String := ["uxtb", "uxth", "uxtw", "uxtx", "sxtb", "sxth", "sxtw", "sxtx"].getD o "?"

/-! ## DecodeBitMasks (ARM pseudocode, `immediate = TRUE`) -/

def highestSetBit (v : Nat) : Option Nat := if v = 0 then none else some (Nat.log2 v)

def ones (n : Nat) : Nat := 2 ^ n - 1

/-- rotate right within `esize` bits -/
def rorN (v esize r : Nat) : Nat := ((v >>> r) ||| (v <<< (esize - r))) % 2 ^ esize

def replicate (v esize : Nat) : Nat → Nat
  | 0 => 0
  | k + 1 => v ||| (replicate v esize k <<< esize)

/-- `DecodeBitMasks(N, imms, immr, TRUE)` for register width `m` (32/64): the `wmask`, or `none` = UNDEFINED -/
def decodeBitMasks (n imms immr m : Nat) : Option Nat :=
  match highestSetBit (n * 64 + (imms ^^^ 63) % 64) with
  | none => none
  | some len =>
    if len < 1 then none
    else if m < 2 ^ len then none
    else
      let levels := ones len
      if imms &&& levels = levels then none
      else
        let s := imms &&& levels
        let r := immr &&& levels
        let esize := 2 ^ len
        let welem := ones (s + 1)
        some (replicate (rorN welem esize r) esize (m / esize))

/-! ## the decoder, class by class -/

def mk (m : String) (ops : List Opd) : Option Instr := some ⟨m, ops⟩

/-- PC-relative addressing: `adr`, `adrp` -/
def decPcRel (w : BitVec 32) : Option Instr :=
  let imm := sext (fld w 5 19 * 4 + fld w 29 2) 21
  if fld w 31 1 = 0 then mk "adr" [.r (xz (fld w 0 5)), .label imm]
  else mk "adrp" [.r (xz (fld w 0 5)), .label (imm * 4096)]

/-- add/sub (immediate) -/
def decAddSubImm (w : BitVec 32) : Option Instr :=
  let sf := fld w 31 1
  let s := fld w 29 1
  let m := (if fld w 30 1 = 0 then "add" else "sub") ++ (if s = 1 then "s" else "")
  let rd := if s = 1 then gz sf (fld w 0 5) else gs sf (fld w 0 5)
  let base := [Opd.r rd, .r (gs sf (fld w 5 5)), .imm (fld w 10 12)]
  mk m (if fld w 22 1 = 1 then base ++ [.shift "lsl" 12] else base)

/-- logical (immediate) -/
def decLogImm (w : BitVec 32) : Option Instr :=
  let sf := fld w 31 1
  let opc := fld w 29 2
  if sf = 0 && fld w 22 1 = 1 then none else
  match decodeBitMasks (fld w 22 1) (fld w 10 6) (fld w 16 6) (if sf = 1 then 64 else 32) with
  | none => none
  | some imm =>
    let rd := if opc = 3 then gz sf (fld w 0 5) else gs sf (fld w 0 5)
    mk (["and", "orr", "eor", "ands"].getD opc "?") [.r rd, .r (gz sf (fld w 5 5)), .immx imm]

/-- move wide (immediate) -/
def decMoveWide (w : BitVec 32) : Option Instr :=
  let sf := fld w 31 1
  let opc := fld w 29 2
  let hw := fld w 21 2
  if opc = 1 then none
  else if sf = 0 && hw ≥ 2 then none
  else mk (["movn", "?", "movz", "movk"].getD opc "?") [.r (gz sf (fld w 0 5)), .imm (fld w 5 16), .shift "lsl" (hw * 16)]

/-- bitfield -/
def decBitfield (w : BitVec 32) : Option Instr :=
  let sf := fld w 31 1
  let opc := fld w 29 2
  let immr := fld w 16 6
  let imms := fld w 10 6
  if opc = 3 then none
  else if fld w 22 1 ≠ sf then none
  else if sf = 0 && (immr ≥ 32 || imms ≥ 32) then none
  else mk (["sbfm", "bfm", "ubfm"].getD opc "?") [.r (gz sf (fld w 0 5)), .r (gz sf (fld w 5 5)), .imm immr, .imm imms]

/-- unconditional branch (immediate) -/
def decBImm (w : BitVec 32) : Option Instr :=
  mk (if fld w 31 1 = 0 then "b" else "bl") [.label (sext (fld w 0 26) 26 * 4)]

/-- compare and branch -/
def decCmpBranch (w : BitVec 32) : Option Instr :=
  mk (if fld w 24 1 = 0 then "cbz" else "cbnz") [.r (gz (fld w 31 1) (fld w 0 5)), .label (sext (fld w 5 19) 19 * 4)]

/-- test and branch -/
def decTestBranch (w : BitVec 32) : Option Instr :=
  let b5 := fld w 31 1
  mk (if fld w 24 1 = 0 then "tbz" else "tbnz")
    [.r (gz b5 (fld w 0 5)), .imm (b5 * 32 + fld w 19 5), .label (sext (fld w 5 14) 14 * 4)]

/-- conditional branch (immediate) -/
def decCondBranch (w : BitVec 32) : Option Instr :=
  if fld w 24 1 = 1 || fld w 4 1 = 1 then none
  else mk ("b." ++ condName (fld w 0 4)) [.label (sext (fld w 5 19) 19 * 4)]

/-- exception generation -/
def decException (w : BitVec 32) : Option Instr :=
  let opc := fld w 21 3
  let ll := fld w 0 2
  if fld w 2 3 ≠ 0 then none else
  let m := if opc = 0 && ll = 1 then "svc" else if opc = 0 && ll = 2 then "hvc" else if opc = 0 && ll = 3 then "smc"
    else if opc = 1 && ll = 0 then "brk" else if opc = 2 && ll = 0 then "hlt" else ""
  if m = "" then none else mk m [.imm (fld w 5 16)]

/-- hints and barriers (`hint #imm7`, `dmb #CRm`) -/
def decSystem (w : BitVec 32) : Option Instr :=
  if fld w 12 10 = 0b0000110010 && fld w 0 5 = 31 then mk "hint" [.imm (fld w 5 7)]
  else if fld w 12 10 = 0b0000110011 && fld w 5 3 = 5 && fld w 0 5 = 31 then mk "dmb" [.imm (fld w 8 4)]
  else none

/-- unconditional branch (register) -/
def decBReg (w : BitVec 32) : Option Instr :=
  let opc := fld w 21 4
  if fld w 16 5 ≠ 31 || fld w 10 6 ≠ 0 || fld w 0 5 ≠ 0 then none
  else if opc = 0 then mk "br" [.r (xz (fld w 5 5))]
  else if opc = 1 then mk "blr" [.r (xz (fld w 5 5))]
  else if opc = 2 then mk "ret" [.r (xz (fld w 5 5))]
  else none

def sizeSuffix (size : Nat) : String := if size = 0 then "b" else if size = 1 then "h" else ""

/-- load/store exclusive, ordered, compare-and-swap -/
def decLdStExcl (w : BitVec 32) : Option Instr :=
  let size := fld w 30 2
  let o2 := fld w 23 1
  let l := fld w 22 1
  let o1 := fld w 21 1
  let rs := fld w 16 5
  let o0 := fld w 15 1
  let rt2 := fld w 10 5
  let base := Opd.mem (xs (fld w 5 5)) 0
  let rt := gz (if size = 3 then 1 else 0) (fld w 0 5)
  let suf := sizeSuffix size
  if o2 = 0 && o1 = 0 then
    if l = 0 then
      if rt2 ≠ 31 then none else mk ((if o0 = 1 then "stlxr" else "stxr") ++ suf) [.r (wz rs), .r rt, base]
    else
      if rt2 ≠ 31 || rs ≠ 31 then none else mk ((if o0 = 1 then "ldaxr" else "ldxr") ++ suf) [.r rt, base]
  else if o2 = 1 && o1 = 0 then
    if o0 = 0 || rt2 ≠ 31 || rs ≠ 31 then none
    else mk ((if l = 1 then "ldar" else "stlr") ++ suf) [.r rt, base]
  else if o2 = 1 && o1 = 1 then
    if rt2 ≠ 31 then none
    else mk ("cas" ++ (if l = 1 then "a" else "") ++ (if o0 = 1 then "l" else "") ++ suf)
      [.r (gz (if size = 3 then 1 else 0) rs), .r rt, base]
  else none

/-- atomic memory operations (LSE) -/
def decAtomic (w : BitVec 32) : Option Instr :=
  let size := fld w 30 2
  let a := fld w 23 1
  let r := fld w 22 1
  let o3 := fld w 15 1
  let opc := fld w 12 3
  if fld w 26 1 = 1 then none else
  let nm := if o3 = 1 then (if opc = 0 then "swp" else "")
    else ["ldadd", "ldclr", "ldeor", "ldset", "ldsmax", "ldsmin", "ldumax", "ldumin"].getD opc ""
  if nm = "" then none else
  let sf := if size = 3 then 1 else 0
  mk (nm ++ (if a = 1 then "a" else "") ++ (if r = 1 then "l" else "") ++ sizeSuffix size)
    [.r (gz sf (fld w 16 5)), .r (gz sf (fld w 0 5)), .mem (xs (fld w 5 5)) 0]

/-- load/store pair: `mode` 1 = post-index, 2 = signed offset, 3 = pre-index -/
def decLdStPair (w : BitVec 32) (mode : Nat) : Option Instr :=
  let opc := fld w 30 2
  if fld w 26 1 = 1 then none
  else if opc ≠ 0 && opc ≠ 2 then none
  else
    let sf := if opc = 2 then 1 else 0
    let scale : Int := if opc = 2 then 8 else 4
    let off := sext (fld w 15 7) 7 * scale
    let base := xs (fld w 5 5)
    let m := if mode = 1 then Opd.memPost base off else if mode = 3 then Opd.memPre base off else Opd.mem base off
    mk (if fld w 22 1 = 1 then "ldp" else "stp") [.r (gz sf (fld w 0 5)), .r (gz sf (fld w 10 5)), m]

/-- transfer register and mnemonic of a single-register load/store; `none` = outside the modelled subset -/
def ldstRegName (size v opc rt : Nat) : Option (String × Opd) :=
  if v = 0 then
    if opc = 0 then some ("str" ++ sizeSuffix size, .r (gz (if size = 3 then 1 else 0) rt))
    else if opc = 1 then some ("ldr" ++ sizeSuffix size, .r (gz (if size = 3 then 1 else 0) rt))
    else none
  else
    if opc ≥ 2 then none
    else if size = 2 then some (if opc = 0 then "str" else "ldr", .s rt)
    else if size = 3 then some (if opc = 0 then "str" else "ldr", .d rt)
    else none

/-- load/store register (unsigned immediate) -/
def decLdStUImm (w : BitVec 32) : Option Instr :=
  let size := fld w 30 2
  match ldstRegName size (fld w 26 1) (fld w 22 2) (fld w 0 5) with
  | none => none
  | some (m, rt) => mk m [rt, .mem (xs (fld w 5 5)) ((fld w 10 12 : Int) * (2 ^ size : Nat))]

/-- load/store register (unscaled immediate) -/
def decLdStUnscaled (w : BitVec 32) : Option Instr :=
  let size := fld w 30 2
  match ldstRegName size (fld w 26 1) (fld w 22 2) (fld w 0 5) with
  | none => none
  | some (m, rt) =>
    let m' := (if m.startsWith "str" then "stur" else "ldur") ++ (m.drop 3).toString
    mk m' [rt, .mem (xs (fld w 5 5)) (sext (fld w 12 9) 9)]

/-- load/store register (register offset) -/
def decLdStRegOff (w : BitVec 32) : Option Instr :=
  let size := fld w 30 2
  let option := fld w 13 3
  let s := fld w 12 1
  if option &&& 2 = 0 then none else
  match ldstRegName size (fld w 26 1) (fld w 22 2) (fld w 0 5) with
  | none => none
  | some (m, rt) =>
    let idx := if option &&& 1 = 1 then xz (fld w 16 5) else wz (fld w 16 5)
    let ext := if option = 3 then "lsl" else extName option
    mk m [rt, .memReg (xs (fld w 5 5)) idx ext (if s = 1 then some size else none)]

/-- logical (shifted register) -/
def decLogShReg (w : BitVec 32) : Option Instr :=
  let sf := fld w 31 1
  let imm6 := fld w 10 6
  if sf = 0 && imm6 ≥ 32 then none else
  let m := ["and", "bic", "orr", "orn", "eor", "eon", "ands", "bics"].getD (fld w 29 2 * 2 + fld w 21 1) "?"
  mk m [.r (gz sf (fld w 0 5)), .r (gz sf (fld w 5 5)), .r (gz sf (fld w 16 5)), .shift (shiftName (fld w 22 2)) imm6]

/-- add/sub (shifted register) -/
def decAddSubShReg (w : BitVec 32) : Option Instr :=
  let sf := fld w 31 1
  let imm6 := fld w 10 6
  if fld w 22 2 = 3 then none
  else if sf = 0 && imm6 ≥ 32 then none
  else
    let m := (if fld w 30 1 = 0 then "add" else "sub") ++ (if fld w 29 1 = 1 then "s" else "")
    mk m [.r (gz sf (fld w 0 5)), .r (gz sf (fld w 5 5)), .r (gz sf (fld w 16 5)), .shift (shiftName (fld w 22 2)) imm6]

/-- add/sub (extended register) -/
def decAddSubExtReg (w : BitVec 32) : Option Instr :=
  let sf := fld w 31 1
  let s := fld w 29 1
  let option := fld w 13 3
  let imm3 := fld w 10 3
  if fld w 22 2 ≠ 0 || imm3 > 4 then none else
  let m := (if fld w 30 1 = 0 then "add" else "sub") ++ (if s = 1 then "s" else "")
  let rd := if s = 1 then gz sf (fld w 0 5) else gs sf (fld w 0 5)
  let rm := if sf = 1 && option &&& 3 = 3 then xz (fld w 16 5) else wz (fld w 16 5)
  mk m [.r rd, .r (gs sf (fld w 5 5)), .r rm, .shift (extName option) imm3]

/-- conditional select -/
def decCondSel (w : BitVec 32) : Option Instr :=
  let sf := fld w 31 1
  let op2 := fld w 10 2
  if fld w 29 1 = 1 || op2 ≥ 2 then none else
  let m := ["csel", "csinc", "csinv", "csneg"].getD (fld w 30 1 * 2 + op2) "?"
  mk m [.r (gz sf (fld w 0 5)), .r (gz sf (fld w 5 5)), .r (gz sf (fld w 16 5)), .cond (condName (fld w 12 4))]

/-- data processing (1 source) -/
def decDP1 (w : BitVec 32) : Option Instr :=
  let sf := fld w 31 1
  let opc := fld w 10 6
  if fld w 29 1 = 1 || fld w 16 5 ≠ 0 then none else
  let m := if opc = 0 then "rbit" else if opc = 1 then "rev16" else if opc = 2 then (if sf = 1 then "rev32" else "rev")
    else if opc = 3 then (if sf = 1 then "rev" else "") else if opc = 4 then "clz" else if opc = 5 then "cls" else ""
  if m = "" then none else mk m [.r (gz sf (fld w 0 5)), .r (gz sf (fld w 5 5))]

/-- data processing (2 source) -/
def decDP2 (w : BitVec 32) : Option Instr :=
  let sf := fld w 31 1
  let opc := fld w 10 6
  if fld w 29 1 = 1 then none else
  let m := if opc = 2 then "udiv" else if opc = 3 then "sdiv" else if opc = 8 then "lsl" else if opc = 9 then "lsr"
    else if opc = 10 then "asr" else if opc = 11 then "ror" else ""
  if m = "" then none else mk m [.r (gz sf (fld w 0 5)), .r (gz sf (fld w 5 5)), .r (gz sf (fld w 16 5))]

/-- data processing (3 source) -/
def decDP3 (w : BitVec 32) : Option Instr :=
  let sf := fld w 31 1
  let op31 := fld w 21 3
  let o0 := fld w 15 1
  let rd := fld w 0 5
  let rn := fld w 5 5
  let rm := fld w 16 5
  let ra := fld w 10 5
  if fld w 29 2 ≠ 0 then none
  else if op31 = 0 then mk (if o0 = 0 then "madd" else "msub") [.r (gz sf rd), .r (gz sf rn), .r (gz sf rm), .r (gz sf ra)]
  else if sf = 0 then none
  else if op31 = 1 then mk (if o0 = 0 then "smaddl" else "smsubl") [.r (xz rd), .r (wz rn), .r (wz rm), .r (xz ra)]
  else if op31 = 5 then mk (if o0 = 0 then "umaddl" else "umsubl") [.r (xz rd), .r (wz rn), .r (wz rm), .r (xz ra)]
  else if op31 = 2 && o0 = 0 && ra = 31 then mk "smulh" [.r (xz rd), .r (xz rn), .r (xz rm)]
  else if op31 = 6 && o0 = 0 && ra = 31 then mk "umulh" [.r (xz rd), .r (xz rn), .r (xz rm)]
  else none

/-- scalar FP register by `type` (0 = single, 1 = double) -/
def fpReg (ty n : Nat) : Option Opd := if ty = 0 then some (.s n) else if ty = 1 then some (.d n) else none

/-- conversion between floating point and integer -/
def decFpInt (w : BitVec 32) : Option Instr :=
  let sf := fld w 31 1
  let ty := fld w 22 2
  let rmode := fld w 19 2
  let opc := fld w 16 3
  let rn := fld w 5 5
  let rd := fld w 0 5
  if fld w 29 1 = 1 then none else
  match fpReg ty rn, fpReg ty rd with
  | some fn, some fd =>
    if rmode = 3 && opc = 0 then mk "fcvtzs" [.r (gz sf rd), fn]
    else if rmode = 3 && opc = 1 then mk "fcvtzu" [.r (gz sf rd), fn]
    else if rmode = 0 && opc = 2 then mk "scvtf" [fd, .r (gz sf rn)]
    else if rmode = 0 && opc = 3 then mk "ucvtf" [fd, .r (gz sf rn)]
    else if rmode = 0 && opc = 6 && sf = ty then mk "fmov" [.r (gz sf rd), fn]
    else if rmode = 0 && opc = 7 && sf = ty then mk "fmov" [fd, .r (gz sf rn)]
    else none
  | _, _ => none

/-- floating-point data processing (1 source) -/
def decFpDP1 (w : BitVec 32) : Option Instr :=
  let ty := fld w 22 2
  let opc := fld w 15 6
  let rn := fld w 5 5
  let rd := fld w 0 5
  if fld w 31 1 = 1 || fld w 29 1 = 1 then none else
  match fpReg ty rn, fpReg ty rd with
  | some fn, some fd =>
    if opc = 4 && ty = 1 then mk "fcvt" [.s rd, fn]
    else if opc = 5 && ty = 0 then mk "fcvt" [.d rd, fn]
    else
      let m := if opc = 0 then "fmov" else if opc = 1 then "fabs" else if opc = 2 then "fneg" else if opc = 3 then "fsqrt"
        else if opc = 8 then "frintn" else if opc = 9 then "frintp" else if opc = 10 then "frintm"
        else if opc = 11 then "frintz" else if opc = 12 then "frinta" else if opc = 14 then "frintx"
        else if opc = 15 then "frinti" else ""
      if m = "" then none else mk m [fd, fn]
  | _, _ => none

/-- floating-point compare -/
def decFpCmp (w : BitVec 32) : Option Instr :=
  let ty := fld w 22 2
  let opc2 := fld w 0 5
  if fld w 31 1 = 1 || fld w 29 1 = 1 || fld w 14 2 ≠ 0 then none else
  match fpReg ty (fld w 5 5), fpReg ty (fld w 16 5) with
  | some fn, some fm =>
    if opc2 = 0 then mk "fcmp" [fn, fm] else if opc2 = 16 then mk "fcmpe" [fn, fm] else none
  | _, _ => none

/-- floating-point data processing (2 source) -/
def decFpDP2 (w : BitVec 32) : Option Instr :=
  let ty := fld w 22 2
  let opc := fld w 12 4
  if fld w 31 1 = 1 || fld w 29 1 = 1 then none else
  match fpReg ty (fld w 0 5), fpReg ty (fld w 5 5), fpReg ty (fld w 16 5) with
  | some fd, some fn, some fm =>
    let m := ["fmul", "fdiv", "fadd", "fsub", "fmax", "fmin", "fmaxnm", "fminnm", "fnmul"].getD opc ""
    if m = "" then none else mk m [fd, fn, fm]
  | _, _, _ => none

/-- Advanced SIMD across lanes (`addv` only) -/
def decSimdLanes (w : BitVec 32) : Option Instr :=
  let q := fld w 30 1
  let size := fld w 22 2
  if fld w 29 1 = 1 || fld w 12 5 ≠ 0b11011 then none
  else if size = 0 then mk "addv" [.b (fld w 0 5), .v (fld w 5 5) (if q = 1 then "16b" else "8b")]
  else if size = 1 then mk "addv" [.h (fld w 0 5), .v (fld w 5 5) (if q = 1 then "8h" else "4h")]
  else if size = 2 && q = 1 then mk "addv" [.s (fld w 0 5), .v (fld w 5 5) "4s"]
  else none

/-- Advanced SIMD two-register miscellaneous (`cnt` only) -/
def decSimdMisc (w : BitVec 32) : Option Instr :=
  let q := fld w 30 1
  if fld w 29 1 = 1 || fld w 12 5 ≠ 0b00101 || fld w 22 2 ≠ 0 then none
  else
    let a := if q = 1 then "16b" else "8b"
    mk "cnt" [.v (fld w 0 5) a, .v (fld w 5 5) a]

/-- `w &&& mask = val` -/
def mt (w : BitVec 32) (mask val : Nat) : Bool := w.toNat &&& mask == val

/-- top-level decode (Arm ARM C4.1), restricted to the classes above; `none` = unallocated / not modelled -/
def decode (w : BitVec 32) : Option Instr :=
  -- data processing, immediate
  if mt w 0x1f000000 0x10000000 then decPcRel w
  else if mt w 0x1f800000 0x11000000 then decAddSubImm w
  else if mt w 0x1f800000 0x12000000 then decLogImm w
  else if mt w 0x1f800000 0x12800000 then decMoveWide w
  else if mt w 0x1f800000 0x13000000 then decBitfield w
  -- branches, exceptions, system
  else if mt w 0x7c000000 0x14000000 then decBImm w
  else if mt w 0x7e000000 0x34000000 then decCmpBranch w
  else if mt w 0x7e000000 0x36000000 then decTestBranch w
  else if mt w 0xfe000000 0x54000000 then decCondBranch w
  else if mt w 0xff000000 0xd4000000 then decException w
  else if mt w 0xffc00000 0xd5000000 then decSystem w
  else if mt w 0xfe000000 0xd6000000 then decBReg w
  -- loads and stores
  else if mt w 0x3f000000 0x08000000 then decLdStExcl w
  else if mt w 0x3b800000 0x28800000 then decLdStPair w 1
  else if mt w 0x3b800000 0x29000000 then decLdStPair w 2
  else if mt w 0x3b800000 0x29800000 then decLdStPair w 3
  else if mt w 0x3b200c00 0x38000000 then decLdStUnscaled w
  else if mt w 0x3b200c00 0x38200000 then decAtomic w
  else if mt w 0x3b200c00 0x38200800 then decLdStRegOff w
  else if mt w 0x3b000000 0x39000000 then decLdStUImm w
  -- data processing, register
  else if mt w 0x1f000000 0x0a000000 then decLogShReg w
  else if mt w 0x1f200000 0x0b000000 then decAddSubShReg w
  else if mt w 0x1f200000 0x0b200000 then decAddSubExtReg w
  else if mt w 0x1fe00800 0x1a800000 then decCondSel w
  else if mt w 0x5fe00000 0x5ac00000 then decDP1 w
  else if mt w 0x5fe00000 0x1ac00000 then decDP2 w
  else if mt w 0x1f000000 0x1b000000 then decDP3 w
  -- scalar floating point and Advanced SIMD
  else if mt w 0x5f20fc00 0x1e200000 then decFpInt w
  else if mt w 0x5f207c00 0x1e204000 then decFpDP1 w
  else if mt w 0x5f203c00 0x1e202000 then decFpCmp w
  else if mt w 0x5f200c00 0x1e200800 then decFpDP2 w
  else if mt w 0x9f3e0c00 0x0e300800 then decSimdLanes w
  else if mt w 0x9f3e0c00 0x0e200800 then decSimdMisc w
  else none

end Dora.A64
