import DoraModel.A64.MethodLemmas
import DoraModel.A64.KEval
import DoraModel.Props.C08.Cls1
import DoraModel.Props.C08.Cls2
import DoraModel.Props.C08.Cls3
import DoraModel.Props.C08.Cls4
import DoraModel.Props.C08.Cls5
/-!
# Bridging lemmas and tactic macros of the generated per-method theorems (`Gen/A64Thm*.lean`)

The class theorems (`Props/C08/Cls*.lean`) say which operand sits in which field of the emitted word; the reference
decoder (`Dec.lean`) reads those fields as natural numbers; the specification (`Spec.lean`) names registers through
`rz`/`rsp`/`fpr`. The lemmas here connect the three readings of one 5-bit register field.
-/
namespace Dora.A64
set_option linter.unusedSimpArgs false

/-- 5-bit field of a register operand: its number, or 31 for `REG_ZERO`/`REG_SP` -/
def regField (r : Register) : BitVec 5 := if r.v.ule 30#8 = true then BitVec.setWidth 5 r.v else 31#5

theorem regField_def (r : Register) : (if r.v.ule 30#8 = true then BitVec.setWidth 5 r.v else 31#5) = regField r := rfl

theorem regField_zr : regField ⟨100#8⟩ = 31#5 := by decide
theorem regField_sp : regField ⟨101#8⟩ = 31#5 := by decide

theorem regField_gpr (r : Register) (h : r.v.ule 30#8 = true) : BitVec.setWidth 5 r.v = regField r := by
  simp [regField, h]

theorem rz_field (sf : Nat) (r : Register) (h : r.v.ule 30#8 = true ∨ r.v = 100#8) :
    rz sf r = some (gz sf (regField r).toNat) := by
  obtain ⟨v⟩ := r
  simp only [rz, gz, xz, wz, regField] at h ⊢
  rcases h with h | h
  · have h1 : v.toNat ≤ 30 := by simpa [BitVec.ule, BitVec.le_def] using h
    have h2 : (BitVec.setWidth 5 v).toNat = v.toNat := by simp [BitVec.toNat_setWidth]; omega
    simp [h, h1, h2]
    have : v.toNat ≠ 31 := by omega
    by_cases hs : sf = 1 <;> simp [hs, this]
  · subst h
    by_cases hs : sf = 1 <;> simp [hs] <;> decide

theorem rsp_field (sf : Nat) (r : Register) (h : r.v.ule 30#8 = true ∨ r.v = 101#8) :
    rsp sf r = some (gs sf (regField r).toNat) := by
  obtain ⟨v⟩ := r
  simp only [rsp, gs, xs, ws, regField] at h ⊢
  rcases h with h | h
  · have h1 : v.toNat ≤ 30 := by simpa [BitVec.ule, BitVec.le_def] using h
    have h2 : (BitVec.setWidth 5 v).toNat = v.toNat := by simp [BitVec.toNat_setWidth]; omega
    simp [h, h1, h2]
    have : v.toNat ≠ 31 := by omega
    by_cases hs : sf = 1 <;> simp [hs, this]
  · subst h
    by_cases hs : sf = 1 <;> simp [hs] <;> decide

theorem rz_gpr (sf : Nat) (r : Register) (h : r.v.ule 30#8 = true) : rz sf r = some (gz sf (regField r).toNat) :=
  rz_field sf r (Or.inl h)
theorem rsp_gpr (sf : Nat) (r : Register) (h : r.v.ule 30#8 = true) : rsp sf r = some (gs sf (regField r).toNat) :=
  rsp_field sf r (Or.inl h)

theorem gz_one (n : Nat) : gz 1 n = xz n := by simp [gz]
theorem gz_zero (n : Nat) : gz 0 n = wz n := by simp [gz]
theorem gs_one (n : Nat) : gs 1 n = xs n := by simp [gs]
theorem gs_zero (n : Nat) : gs 0 n = ws n := by simp [gs]

/-- scalar FP / SIMD register operand -/
theorem fpr_field (ty : Nat) (x : NeonRegister) (h : x.v.ult 32#8 = true) :
    fpr ty x = some (if ty = 0 then .s (BitVec.setWidth 5 x.v).toNat else .d (BitVec.setWidth 5 x.v).toNat) := by
  have h1 : x.v.toNat < 32 := by simpa [BitVec.ult, BitVec.lt_def] using h
  have h2 : (BitVec.setWidth 5 x.v).toNat = x.v.toNat := by simp [BitVec.toNat_setWidth]; omega
  simp [fpr, h2]; omega

theorem fpr_field' (ty : Nat) (x : NeonRegister) (h : x.v.toNat < 32) :
    fpr ty x = some (if ty = 0 then .s (BitVec.setWidth 5 x.v).toNat else .d (BitVec.setWidth 5 x.v).toNat) :=
  fpr_field ty x (by simp [BitVec.ult, BitVec.lt_def]; exact h)

theorem neon_toNat (x : NeonRegister) (h : x.v.ult 32#8 = true) : x.v.toNat = (BitVec.setWidth 5 x.v).toNat := by
  have h1 : x.v.toNat < 32 := by simpa [BitVec.ult, BitVec.lt_def] using h
  simp [BitVec.toNat_setWidth]; omega

theorem regField_enc (r : Register) :
    BitVec.setWidth 5 (if r.v.ule 30#8 = true then BitVec.setWidth 32 r.v else 31#32) = regField r := by
  unfold regField; split <;> simp [BitVec.setWidth_setWidth_of_le]

theorem setWidth5_32 (v : BitVec 8) : BitVec.setWidth 5 (BitVec.setWidth 32 v) = BitVec.setWidth 5 v := by
  simp [BitVec.setWidth_setWidth_of_le]

theorem filterMap_id_some {α : Type} (a : α) (l : List (Option α)) :
    List.filterMap id (some a :: l) = a :: List.filterMap id l := by simp

/-- a decoder field one bit wider than what the class theorem speaks about: low part + top bit -/
theorem toNat_extract_succ (w : BitVec 32) (lo n : Nat) :
    (BitVec.extractLsb' lo (n + 1) w).toNat = (BitVec.extractLsb' lo n w).toNat + 2 ^ n * (BitVec.extractLsb' (lo + n) 1 w).toNat := by
  simp only [BitVec.extractLsb'_toNat, Nat.shiftRight_eq_div_pow]
  have h1 : w.toNat / 2 ^ (lo + n) = w.toNat / 2 ^ lo / 2 ^ n := by rw [Nat.pow_add, Nat.div_div_eq_div_mul]
  rw [h1, Nat.pow_succ, Nat.pow_one]
  generalize w.toNat / 2 ^ lo = x
  rw [Nat.mod_mul, Nat.add_comm]

theorem ult_lit (a : BitVec 32) (k : Nat) : (a.ult (BitVec.ofNat 32 k) = true) ↔ a.toNat < k % 4294967296 := by
  simp [BitVec.ult, BitVec.lt_def]
theorem ule_lit8 (a : BitVec 8) (k : Nat) : (a.ule (BitVec.ofNat 8 k) = true) ↔ a.toNat ≤ k % 256 := by
  simp [BitVec.ule, BitVec.le_def]
theorem slt_lit (a : BitVec 32) (k : Nat) : (a.slt (BitVec.ofNat 32 k) = true) ↔ a.toInt < (BitVec.ofNat 32 k).toInt := by
  simp [BitVec.slt]
theorem sle_lit (a : BitVec 32) (k : Nat) : ((BitVec.ofNat 32 k).sle a = true) ↔ (BitVec.ofNat 32 k).toInt ≤ a.toInt := by
  simp [BitVec.sle]

theorem ult_lit8 (a : BitVec 8) (k : Nat) : (a.ult (BitVec.ofNat 8 k) = true) ↔ a.toNat < k % 256 := by
  simp [BitVec.ult, BitVec.lt_def]
theorem ult_lit_false (a : BitVec 32) (k : Nat) : (a.ult (BitVec.ofNat 32 k) = false) ↔ k % 4294967296 ≤ a.toNat := by
  simp [BitVec.ult, BitVec.lt_def]
theorem umod_lit (x : BitVec 32) (k : Nat) : (x % BitVec.ofNat 32 k = 0#32) ↔ x.toNat % (k % 4294967296) = 0 := by
  constructor
  · intro h; have := congrArg BitVec.toNat h; simpa using this
  · intro h; apply BitVec.eq_of_toNat_eq; simpa using h
theorem fits_false_hi (v lo hi : Int) (h : hi < v) : fits v lo hi = false := by
  simp [fits]; omega
theorem fits_false_lo (v lo hi : Int) (h : v < lo) : fits v lo hi = false := by
  simp [fits]; omega

theorem sext7 (x : BitVec 32) (h1 : -64 ≤ x.toInt) (h2 : x.toInt < 64) : sext (x.toNat % 128) 7 = x.toInt := by
  have hx := x.isLt
  simp only [sext, BitVec.toInt_eq_toNat_cond] at *
  split at h1 <;> split <;> simp only [Nat.reducePow, Nat.reduceSub, Int.reducePow] at * <;> omega

theorem sext9 (x : BitVec 32) (h1 : -256 ≤ x.toInt) (h2 : x.toInt < 256) : sext (x.toNat % 512) 9 = x.toInt := by
  have hx := x.isLt
  simp only [sext, BitVec.toInt_eq_toNat_cond] at *
  split at h1 <;> split <;> simp only [Nat.reducePow, Nat.reduceSub, Int.reducePow] at * <;> omega

theorem sext14 (x : BitVec 32) (h1 : -8192 ≤ x.toInt) (h2 : x.toInt < 8192) : sext (x.toNat % 16384) 14 = x.toInt := by
  have hx := x.isLt
  simp only [sext, BitVec.toInt_eq_toNat_cond] at *
  split at h1 <;> split <;> simp only [Nat.reducePow, Nat.reduceSub, Int.reducePow] at * <;> omega

theorem sext19 (x : BitVec 32) (h1 : -262144 ≤ x.toInt) (h2 : x.toInt < 262144) : sext (x.toNat % 524288) 19 = x.toInt := by
  have hx := x.isLt
  simp only [sext, BitVec.toInt_eq_toNat_cond] at *
  split at h1 <;> split <;> simp only [Nat.reducePow, Nat.reduceSub, Int.reducePow] at * <;> omega

theorem sext21 (x : BitVec 32) (h1 : -1048576 ≤ x.toInt) (h2 : x.toInt < 1048576) : sext (x.toNat % 2097152) 21 = x.toInt := by
  have hx := x.isLt
  simp only [sext, BitVec.toInt_eq_toNat_cond] at *
  split at h1 <;> split <;> simp only [Nat.reducePow, Nat.reduceSub, Int.reducePow] at * <;> omega

theorem sext26 (x : BitVec 32) (h1 : -33554432 ≤ x.toInt) (h2 : x.toInt < 33554432) : sext (x.toNat % 67108864) 26 = x.toInt := by
  have hx := x.isLt
  simp only [sext, BitVec.toInt_eq_toNat_cond] at *
  split at h1 <;> split <;> simp only [Nat.reducePow, Nat.reduceSub, Int.reducePow] at * <;> omega

theorem fits_of_bounds (v lo hi : Int) (h1 : lo ≤ v) (h2 : v ≤ hi) : fits v lo hi = true := by
  simp [fits, h1, h2]

/-- `bv_decide` declares its helper functions for an enumeration type (`Cond.enumToBitVec`, …) in the module where it
first meets the type; meeting them here, once, keeps the generated theorem modules from declaring them several times -/
theorem enum_helpers_declared (c : Cond) (sh : Shift) (e : Extend) (h1 : c = Cond.EQ) (h2 : sh = Shift.LSL)
    (h3 : e = Extend.LSL) : c = Cond.EQ ∧ sh = Shift.LSL ∧ e = Extend.LSL := by
  bv_decide (timeout := 600)

theorem isSP_iff (r : Register) : isSP r = true ↔ r.v = 101#8 := by
  obtain ⟨v⟩ := r
  simp only [isSP, decide_eq_true_eq]
  constructor
  · intro h; apply BitVec.eq_of_toNat_eq; simpa using h
  · intro h; subst h; rfl

theorem optExpect_ok {α : Type} (o : Option α) (m : String) (a : α) : optExpect o m = .ok a ↔ o = some a := by
  cases o <;> simp [optExpect]

theorem and_4095_iff (imm : BitVec 32) : imm &&& 4095#32 = 0#32 ↔ imm.toNat % 4096 = 0 := by
  have key : (imm &&& 4095#32).toNat = imm.toNat % 4096 := by
    rw [BitVec.toNat_and]
    exact Nat.and_two_pow_sub_one_eq_mod imm.toNat 12
  constructor
  · intro h; rw [← key, h]; rfl
  · intro h; apply BitVec.eq_of_toNat_eq; rw [key, h]; rfl

/-- `encode_addsub_imm`: the plain form below 4096, the `lsl #12` form for the multiples of 4096 below 2^24 -/
theorem encode_addsub_imm_ok (imm : BitVec 32) (p : BitVec 32 × BitVec 32) :
    encode_addsub_imm imm = some p ↔
      (imm.ult 4096#32 = true ∧ p = (0#32, imm)) ∨
      (imm.ult 4096#32 = false ∧ imm &&& 4095#32 = 0#32 ∧ imm.ult 16777216#32 = true ∧ p = (1#32, imm >>> 12)) := by
  unfold encode_addsub_imm
  simp only []
  have e1 : (imm &&& ~~~4095#32 == 0#32) = imm.ult 4096#32 := by bv_decide (timeout := 600)
  have e2 : (imm &&& ~~~(4095#32 <<< 12) == 0#32) = ((imm &&& 4095#32 == 0#32) && imm.ult 16777216#32) := by
    bv_decide (timeout := 600)
  rw [e1, e2]
  cases h1 : imm.ult 4096#32 <;> cases h2 : imm.ult 16777216#32 <;> by_cases h3 : imm &&& 4095#32 = 0#32 <;>
    simp [h3] <;> exact eq_comm

theorem ite_orElse {α : Type} (c : Prop) [Decidable c] (x y : Option α) (f : Unit → Option α) :
    (if c then x else y).orElse f = if c then x.orElse f else y.orElse f := by split <;> rfl
theorem ite_getD {α : Type} (c : Prop) [Decidable c] (x y : Option α) (d : α) :
    (if c then x else y).getD d = if c then x.getD d else y.getD d := by split <;> rfl

/-- evaluate `spec "<literal>" [operands]` to `build <mnemonic> [operand readings]` (kernel-checked simprocs of KEval) -/
macro "spec_eval" : tactic =>
  `(tactic| simp only [spec, splitW, kEndsWith, kSliceToString, kSliceCopy, kStartsWith, kAppend, Bool.false_eq_true,
    Bool.or_false, Bool.or_true, Bool.true_or, Bool.false_or, ↓reduceIte, kSpecFp, kSpecLdSt, kSpecAddSub,
    kSpecLogicMove, kSpecDataProc, kSpecBranchSys, kSpecAtomic, Option.orElse_none, Option.orElse_some,
    Option.getD_some, Option.getD_none, ite_orElse, ite_getD])

/-- a wrapper method (`mul` = `madd … zr`) runs its callee and returns unit -/
theorem sm_bind_pure_unit {σ : Type} (x : SM σ Unit) : (x >>= fun _ => (pure () : SM σ Unit)) = x := by
  have : (fun (_ : Unit) => (pure () : SM σ Unit)) = pure := by funext u; rfl
  rw [this, bind_pure]

/-- a field of the word that lies entirely inside the class' fixed opcode bits has the value those bits give it -/
theorem extract_of_mask (w M V : BitVec 32) (lo len : Nat) (h : w &&& M = V)
    (hin : (BitVec.extractLsb' lo len (~~~M) == 0) = true) :
    BitVec.extractLsb' lo len w = BitVec.extractLsb' lo len V := by
  simp only [beq_iff_eq] at hin
  subst h
  apply BitVec.eq_of_getLsbD_eq
  intro i hi
  have h2 := congrArg (fun x => x.getLsbD i) hin
  simp only [BitVec.getLsbD_extractLsb', BitVec.getLsbD_and, BitVec.getLsbD_not, hi, decide_true, Bool.true_and,
    BitVec.getLsbD_zero] at h2 ⊢
  by_cases hlt : lo + i < 32
  · simp [hlt] at h2
    have : M.getLsbD (lo + i) = true := by rw [BitVec.getLsbD_eq_getElem hlt]; exact h2
    simp [this]
  · have : w.getLsbD (lo + i) = false := BitVec.getLsbD_of_ge _ _ (by omega)
    simp [this]

/-- turn `(method …).run s = .ok ((), s')` (append mode) into the accepted guards, the class encoder's equation and
`s' = emitted s w`; everything lands in the context, equations between variables are substituted -/
macro "peel " hA:ident h:ident : tactic =>
  `(tactic| (revert $h:ident
             simp only [sm_bind_pure_unit, pure_bind, lift_bind_run, asm_emit_u32 _ _ $hA, bind_ok, rassert_ok, pure_ok, enc_ok, encz_ok, encs_ok,
               enczs_ok, ex_unit, Except.ok.injEq, Prod.mk.injEq, true_and, forall_exists_index, and_imp,
               NeonRegister.encoding, FLOAT_TYPE_SINGLE, FLOAT_TYPE_DOUBLE, REG_ZERO, REG_SP]
             intros
             subst_vars))

/-- `peel` for the methods that go through `encode_addsub_imm`: two goals, the plain and the `lsl #12` form -/
macro "peel_imm " hA:ident h:ident : tactic =>
  `(tactic| (revert $h:ident
             simp only [sm_bind_pure_unit, pure_bind, lift_bind_run, asm_emit_u32 _ _ $hA, bind_ok, rassert_ok, pure_ok, enc_ok, encz_ok, encs_ok,
               enczs_ok, ex_unit, Except.ok.injEq, Prod.mk.injEq, true_and, forall_exists_index, and_imp,
               NeonRegister.encoding, FLOAT_TYPE_SINGLE, FLOAT_TYPE_DOUBLE, REG_ZERO, REG_SP, optExpect_ok, encode_addsub_imm_ok,
               or_imp, forall_and]
             first | (constructor <;> (intros; subst_vars)) | (intros; subst_vars)))

/-- split the `if`s of a method body (`add`/`sub`/`mov` choose the form that can name `sp`, …) -/
macro "method_split " h:ident : tactic => `(tactic| repeat' (split at $h:ident))

theorem toInt_of_srem8 (x : BitVec 32) (h : x.srem 8#32 = 0#32) : x.toInt = (x.sdiv 8#32).toInt * 8 := by
  have e : x = x.sdiv 8#32 * 8#32 := by bv_decide (timeout := 600)
  have b1 : (x.sdiv 8#32).slt 268435456#32 = true ∧ (4026531840#32).sle (x.sdiv 8#32) = true := by
    bv_decide (timeout := 600)
  have h2 := congrArg BitVec.toInt e
  rw [BitVec.toInt_mul] at h2
  simp only [BitVec.slt, BitVec.sle, decide_eq_true_eq, BitVec.reduceToInt] at b1
  rw [h2]
  simp only [BitVec.reduceToInt, Int.bmod_def, Nat.reducePow]
  split <;> omega

theorem toInt_of_srem4 (x : BitVec 32) (h : x.srem 4#32 = 0#32) : x.toInt = (x.sdiv 4#32).toInt * 4 := by
  have e : x = x.sdiv 4#32 * 4#32 := by bv_decide (timeout := 600)
  have b1 : (x.sdiv 4#32).slt 536870912#32 = true ∧ (3758096384#32).sle (x.sdiv 4#32) = true := by
    bv_decide (timeout := 600)
  have h2 := congrArg BitVec.toInt e
  rw [BitVec.toInt_mul] at h2
  simp only [BitVec.slt, BitVec.sle, decide_eq_true_eq, BitVec.reduceToInt] at b1
  rw [h2]
  simp only [BitVec.reduceToInt, Int.bmod_def, Nat.reducePow]
  split <;> omega

theorem pcrel_imm (imm : BitVec 32) :
    (BitVec.extractLsb' 2 19 imm).toNat * 4 + (BitVec.extractLsb' 0 2 imm).toNat = imm.toNat % 2097152 := by
  simp only [BitVec.extractLsb'_toNat, Nat.shiftRight_eq_div_pow, Nat.reducePow]
  omega

theorem ldst_enc_ok (e : Extend) (x : BitVec 3) :
    Extend.ldst_encoding e = .ok (BitVec.setWidth 32 x) ↔
      (e = .UXTW ∧ x = 2#3) ∨ (e = .LSL ∧ x = 3#3) ∨ (e = .SXTW ∧ x = 6#3) ∨ (e = .SXTX ∧ x = 7#3) := by
  cases e <;> simp only [Extend.ldst_encoding, pure_ok, reduceCtorEq, false_and, true_and, or_false, false_or, throw, throwThe,
    MonadExceptOf.throw] <;> first | (constructor <;> intro h <;> bv_decide (timeout := 600)) | simp

/-- the register-offset class accepts only the four extends the instruction has -/
theorem regoffset_ext_ok (size v opc : BitVec 32) (rm : Register) (e : Extend) (s : BitVec 32) (rn : Register) (rt w : BitVec 32)
    (h : cls.ldst_regoffset size v opc rm e s rn rt = .ok w) : e = .UXTW ∨ e = .LSL ∨ e = .SXTW ∨ e = .SXTX := by
  have hc := C08.ldst_regoffset_sound _ _ _ _ _ _ _ _ _ h
  have he := hc.2.2.2.2.2.2.2.2.1
  rw [ldst_enc_ok] at he
  rcases he with ⟨h, _⟩ | ⟨h, _⟩ | ⟨h, _⟩ | ⟨h, _⟩ <;> simp [h]

macro "regoff_cases" : tactic =>
  `(tactic| (have he := regoffset_ext_ok _ _ _ _ _ _ _ _ _ (by assumption)
             rcases he with h | h | h | h <;> subst h))

/-- the decoder's class-selecting bits are among the fixed bits of the word -/
theorem mask_sub (w M V M0 V0 : BitVec 32) (h : w &&& M = V) (hs : (M0 &&& ~~~M == 0#32 && V &&& M0 == V0) = true) :
    w &&& M0 = V0 := by
  bv_decide (timeout := 600)

/-- first half of every generated proof: class theorem → facts in the context → decoder class selected → `hm` = every
bit of the word that does not depend on an operand (mask and value computed by the generator, checked here by
`bv_decide`) → `spec` evaluated → decoder function unfolded with the fields replaced by operands / fixed bits -/
macro "method_pre " hc:term:max ppSpace dl:ident ppSpace df:ident ppSpace M:term:max ppSpace V:term:max : tactic =>
  `(tactic| (have hc := $hc
             repeat (first | specialize hc (by assumption) | specialize hc (by decide))
             refine ⟨_, rfl, ?_⟩
             repeat (obtain ⟨_, hc⟩ := hc)
             try simp only [ldst_enc_ok, reduceCtorEq, false_and, true_and, or_false, false_or] at *
             have hm : (by assumption : BitVec 32) &&& $M = $V := by bv_decide (timeout := 600)
             rw [requested_iff, $dl:ident]
             case h => exact mask_sub _ _ _ _ _ hm (by decide)
             simp (maxSteps := 400000) (disch := decide) only [$df:ident, fld, *, regField_enc, setWidth5_32, regField_def, pcrel_imm, extract_of_mask _ _ _ _ _ hm,
               BitVec.reduceExtractLsb', BitVec.reduceSetWidth, BitVec.reduceToNat, Nat.reduceEqDiff, ↓reduceIte, decide_true, decide_false,
               Bool.or_false, Bool.false_or, Bool.and_true, Bool.true_and, Bool.and_false, Bool.false_and, Bool.false_eq_true, Nat.reduceBEq, Nat.reduceBNe]
             try simp (disch := decide) only [toNat_extract_succ _ _ 1, toNat_extract_succ _ _ 2, toNat_extract_succ _ _ 3, toNat_extract_succ _ _ 4, toNat_extract_succ _ _ 5, *, extract_of_mask _ _ _ _ _ hm, Nat.reduceAdd, Nat.reduceMul,
               Nat.reducePow, BitVec.reduceExtractLsb', BitVec.reduceSetWidth, BitVec.reduceToNat, BitVec.toNat_ofNat, Nat.reduceMod,
               Nat.add_zero, Nat.zero_add, Nat.mul_zero, Nat.mul_one]))

/-- second half: compare the two instructions operand by operand -/
macro "method_fin0" : tactic =>
  `(tactic| ((try simp only [ult_lit, ult_lit8, ult_lit_false, umod_lit, slt_lit, sle_lit, BitVec.toNat_ushiftRight, Nat.shiftRight_eq_div_pow, Nat.reducePow, Nat.reduceMod, BitVec.reduceToInt, isSP_iff, REG_SP, REG_ZERO, Bool.or_eq_true,
               beq_iff_eq, not_or, ↓reduceIte, BitVec.reduceEq, and_4095_iff, BitVec.toNat_udiv, BitVec.toNat_umod, BitVec.toNat_ofNat, ne_eq,
               not_true_eq_false, not_false_eq_true, reduceCtorEq, false_imp_iff, true_imp_iff] at *) <;>
             (simp (maxSteps := 400000) (disch := first | assumption | omega | decide) [*, regField_zr, regField_sp, REG_ZERO, REG_SP, filterMap_id_some, fits_of_bounds, fits_false_hi, fits_false_lo, sext7, sext9, sext14, sext19, sext21, sext26, pairMem, memOff, memRegOpd, addvD, addvV, ldstRegName, sizeSuffix,
               kStartsWith, kSliceToString, kSliceCopy, kAppend, if_pos, if_neg, toInt_of_srem8, toInt_of_srem4, Int.mul_emod_left, Int.mul_ediv_cancel, Shift.u32, Cond.u32, BitVec.toNat_udiv, BitVec.toNat_umod, ult_lit8, Nat.mod_eq_of_lt, Int.emod_eq_of_lt, rz_field, rsp_field, rz_gpr, rsp_gpr, fpr_field, fpr_field', regField_gpr,
               gz_one, gz_zero, gs_one, gs_zero, build, oreg, mk, guard', fpReg, isSP_iff, extendOptionSpec, extName, shiftName, condName, shiftStr, condStr, extStr,
               BitVec.toNat_ushiftRight, Nat.shiftRight_eq_div_pow])))

macro "method_fin" : tactic => `(tactic| (method_fin0 <;> (first | with_reducible rfl | decide | omega)))

end Dora.A64
