import Lean
import DoraModel.A64.Spec
/-!
# Partial evaluation of the specification `spec "<method>" [operands]` inside `simp` (helpers for `Gen/A64Thm*.lean`)

`Spec.lean` selects the requested instruction by string tests on the method name (`endsWith "_w"`, `startsWith "sub"`,
`match name with | "madd" => …`). The elaborator cannot evaluate `String` functions on literals, the kernel can. The
simprocs below ask the kernel for the value and justify every step by a proof term the kernel re-checks when the theorem
is added (`decide`-style `of_decide_eq_true (Eq.refl true)` for closed `Bool`/`String`/`Nat` terms, `rfl` for the weak
head normal form of a specification family applied to a literal name and operands with free variables). Nothing here is
trusted: a wrong value makes the kernel reject the theorem. No `unsafe`, no `native_decide`.
-/
open Lean Meta Simp

namespace Dora.A64.KEval
def kwhnf (e : Expr) : MetaM Expr := do
  ofExceptKernelException (Kernel.whnf (← getEnv) {} e)

partial def readNat (e : Expr) : MetaM Nat := do
  let e ← kwhnf e
  match e with
  | .lit (.natVal n) => pure n
  | _ =>
    if e.isConstOf ``Nat.zero then pure 0
    else if e.isAppOfArity ``Nat.succ 1 then return (← readNat e.appArg!) + 1
    else throwError "readNat: {e}"

partial def readList (e : Expr) : MetaM (List Expr) := do
  let e ← kwhnf e
  if e.isAppOfArity ``List.nil 1 then pure []
  else if e.isAppOfArity ``List.cons 3 then return e.getArg! 1 :: (← readList (e.getArg! 2))
  else throwError "readList: {e}"

def readCtor1 (e : Expr) (c : Name) (arity idx : Nat) : MetaM Expr := do
  let e ← kwhnf e
  if e.isAppOfArity c arity then pure (e.getArg! idx) else throwError "readCtor {c}: {e}"

def readUInt8 (e : Expr) : MetaM UInt8 := do
  let bv ← readCtor1 e ``UInt8.ofBitVec 1 0
  let f ← readCtor1 bv ``BitVec.ofFin 2 1
  let n ← readCtor1 f ``Fin.mk 3 1
  return (← readNat n).toUInt8

def readString (e : Expr) : MetaM String := do
  let ba ← readCtor1 e ``String.ofByteArray 2 0
  let arr ← readCtor1 ba ``ByteArray.mk 1 0
  let l ← readCtor1 arr ``Array.mk 2 1
  let bytes ← (← readList l).mapM readUInt8
  match String.fromUTF8? ⟨bytes.toArray⟩ with
  | some s => pure s
  | none => throwError "readString: invalid utf8"

def readBool (e : Expr) : MetaM Bool := do
  let e ← kwhnf e
  if e.isConstOf ``Bool.true then pure true
  else if e.isConstOf ``Bool.false then pure false
  else throwError "readBool: {e}"

def closed (e : Expr) : Bool := !e.hasFVar && !e.hasMVar && !e.hasLooseBVars

/-- closed term of type Bool / String / Nat: value read off the kernel's normal form, equation by `decide` (kernel-checked) -/
def evalClosed (e : Expr) : SimpM Step := do
  unless closed e do return .continue
  let ty ← whnfR (← inferType e)
  let v ← try
      if ty.isConstOf ``Bool then pure (toExpr (← readBool e))
      else if ty.isConstOf ``String then pure (toExpr (← readString e))
      else if ty.isConstOf ``Nat then pure (toExpr (← readNat e))
      else return .continue
    catch _ => return .continue
  if v == e then return .continue
  let p ← mkEq e v
  let pf ← mkDecideProof p
  return .done { expr := v, proof? := some pf }
/-- kernel weak head normal form of a specification family applied to a literal name and operands with free
variables, as a tree: `none` / `some …` at the leaves; where the kernel got stuck on an `if` whose condition depends on
an operand (`Decidable.rec … inst`), the `if` is put back (`ite c t e` with the same instance) and both branches are
evaluated in turn. `none` when the shape is not understood. -/
partial def evalTree (e : Expr) (fuel : Nat := 8) : MetaM (Option Expr) := do
  let r ← try ofExceptKernelException (Kernel.whnf (← getEnv) (← getLCtx) e) catch _ => return none
  if r.isAppOf ``Option.some || r.isAppOf ``Option.none then return some r
  if fuel = 0 then return none
  if r.isAppOfArity ``Decidable.rec 5 then
    let args := r.getAppArgs
    let p := args[0]!
    let inst := args[4]!
    let branch (f : Expr) (hyp : Expr) : MetaM (Option Expr) :=
      withLocalDeclD `h hyp fun h => do
        let b := (mkApp f h).headBeta
        let b ← Core.betaReduce b
        if b.containsFVar h.fvarId! then return none
        evalTree b (fuel - 1)
    let some eb ← branch args[2]! (mkNot p) | return none
    let some tb ← branch args[3]! p | return none
    let α ← inferType tb
    let u ← getLevel α
    return some (mkAppN (mkConst ``ite [u]) #[α, p, inst, tb, eb])
  return none

/-- application of a specification family (`Option SpecRes`, closed method name, operands with free variables):
replaced by its `evalTree`; equation by `rfl` (definitional equality, re-checked by the kernel) -/
def evalHead (e : Expr) : SimpM Step := do
  if e.hasMVar || e.hasLooseBVars then return .continue
  let some r ← evalTree e | return .continue
  if r == e then return .continue
  let pf ← mkExpectedTypeHint (← mkEqRefl r) (← mkEq e r)
  return .done { expr := r, proof? := some pf }
end Dora.A64.KEval

open Dora.A64.KEval in
simproc kStartsWith (String.startsWith _ _) := evalClosed
open Dora.A64.KEval in
simproc kEndsWith (String.endsWith _ _) := evalClosed
open Dora.A64.KEval in
simproc kSliceToString (String.Slice.toString _) := evalClosed
open Dora.A64.KEval in
simproc kSliceCopy (String.Slice.copy _) := evalClosed
open Dora.A64.KEval in
simproc kSplitLen (List.length (String.splitOn _ _)) := evalClosed

open Dora.A64.KEval in
simproc kAppend (@HAppend.hAppend String String String _ _ _) := evalClosed
open Dora.A64.KEval in
simproc kSpecFp (Dora.A64.specFp _ _) := evalHead
open Dora.A64.KEval in
simproc kSpecLdSt (Dora.A64.specLdSt _ _ _ _) := evalHead
open Dora.A64.KEval in
simproc kSpecAddSub (Dora.A64.specAddSub _ _ _) := evalHead
open Dora.A64.KEval in
simproc kSpecLogicMove (Dora.A64.specLogicMove _ _ _) := evalHead
open Dora.A64.KEval in
simproc kSpecDataProc (Dora.A64.specDataProc _ _ _) := evalHead
open Dora.A64.KEval in
simproc kSpecBranchSys (Dora.A64.specBranchSys _ _ _) := evalHead
open Dora.A64.KEval in
simproc kSpecAtomic (Dora.A64.specAtomic _ _ _) := evalHead

