import DoraModel.Gen.A64Dispatch
import DoraModel.A64.Spec
/-!
Text front end of `Spec`/`Dec` for the driver: `spec <method> <operands>` and `dec <hex>`.
-/
namespace Dora.A64

def parseArgs : List String → List String → Except String (List Arg)
  | [], [] => .ok []
  | "M" :: ks, b :: o :: ts => do
    let base ← parseReg b
    let off ← parseNum 64 true o
    let rest ← parseArgs ks ts
    pure (.m base off.toInt :: rest)
  | k :: ks, t :: ts => do
    let a ← (match k with
      | "R" => Arg.r <$> parseReg t
      | "F" => Arg.f <$> parseFReg t
      | "L" => pure Arg.l
      | "E:Cond" => Arg.c <$> parseCond t
      | "E:Shift" => Arg.sh <$> parseShift t
      | "E:Extend" => Arg.ex <$> parseExtend t
      | "i32" => (fun (v : BitVec 32) => Arg.n v.toInt) <$> parseNum 32 true t
      | "i64" => (fun (v : BitVec 64) => Arg.n v.toInt) <$> parseNum 64 true t
      | "u8" => (fun (v : BitVec 8) => Arg.n v.toNat) <$> parseNum 8 false t
      | "u32" => (fun (v : BitVec 32) => Arg.n v.toNat) <$> parseNum 32 false t
      | "u64" | "usize" => (fun (v : BitVec 64) => Arg.n v.toNat) <$> parseNum 64 false t
      | "u128" => (fun (v : BitVec 128) => Arg.n v.toNat) <$> parseNum 128 false t
      | _ => .error "!badreq")
    let rest ← parseArgs ks ts
    pure (a :: rest)
  | _, _ => .error "!badreq"

def specText (name : String) (toks : List String) : String :=
  match methodKinds.lookup name with
  | none => "!nospec"
  | some kinds =>
    match parseArgs kinds toks with
    | .error e => if e.startsWith "!panic" then "!refuse" else "!badreq"
    | .ok args =>
      match spec name args with
      | .ok i => i.asm
      | .refuse => "!refuse"
      | .nospec => "!nospec"

def hexVal (c : Char) : Nat :=
  if c.toNat ≥ 97 then c.toNat - 87 else if c.toNat ≥ 65 then c.toNat - 55 else c.toNat - 48

/-- 8 hex characters = 4 bytes in memory order (little endian word) -/
def decText (h : String) : String :=
  match h.toList.map hexVal with
  | [a0, a1, b0, b1, c0, c1, d0, d1] =>
    let w := (a0 * 16 + a1) + 256 * (b0 * 16 + b1) + 65536 * (c0 * 16 + c1) + 16777216 * (d0 * 16 + d1)
    match decode (BitVec.ofNat 32 w) with
    | some i => i.asm
    | none => "!undecoded"
  | _ => "!badreq"

end Dora.A64
