import DoraModel.Gen.A64
import DoraModel.A64.Dec
/-!
# What instruction each public single-instruction method of `AssemblerArm64` requests (specification)

Hand-written reading of the method names / operand lists, in terms of the assembly-level `Instr` of
`Dec.lean`; independent of how `arm64.rs` encodes. `SpecRes.refuse` = the operands do not denote an
encodable instruction (the method has to refuse), `SpecRes.nospec` = not a single-instruction method
(label methods, `mov_imm`, `ldr_mem_*`: covered by their own oracles/theorems; buffer plumbing).

Conventions that the method names do not tell (found by reading callers):
* `ldp/ldp_w`, `stp_post(_w)`, `ldr_imm_*`, `str_imm_*`, `ldrh_imm`, `strh_imm` take BYTE offsets;
  `stp(_w)`, `stp_pre(_w)`, `ldp_post(_w)` take the already scaled imm7; `ldrb_imm/strb_imm` bytes = imm12.
* `*_imm` branches (`bl_imm`, `cbz_imm`, …) take the distance in instructions; `adr_imm` bytes; `adrp_imm` pages.
* `Extend::LSL` in an add/sub (extended register) means the preferred-`LSL` option of the ARM ARM:
  `UXTX` for 64-bit, `UXTW` for 32-bit operations.
-/
namespace Dora.A64

inductive Arg where
  | r (x : Register) | f (x : NeonRegister) | n (v : Int) | c (x : Cond) | sh (x : Shift) | ex (x : Extend)
  | m (base : Register) (off : Int)
  | l
  deriving Inhabited

inductive SpecRes where
  | ok (l : Instr) | refuse | nospec
  deriving DecidableEq, Repr, Inhabited

/-- register as a zero-register-reading operand (gpr or `REG_ZERO`) -/
def rz (sf : Nat) (x : Register) : Option GReg :=
  if x.v.toNat ≤ 30 then some (if sf = 1 then .x x.v.toNat else .w x.v.toNat)
  else if x.v.toNat = 100 then some (if sf = 1 then .xzr else .wzr) else none
/-- register as a stack-pointer-reading operand (gpr or `REG_SP`) -/
def rsp (sf : Nat) (x : Register) : Option GReg :=
  if x.v.toNat ≤ 30 then some (if sf = 1 then .x x.v.toNat else .w x.v.toNat)
  else if x.v.toNat = 101 then some (if sf = 1 then .sp else .wsp) else none

def isSP (x : Register) : Bool := x.v.toNat = 101

def condStr : Cond → String
  | .EQ => "eq" | .NE => "ne" | .CS => "hs" | .HS => "hs" | .CC => "lo" | .LO => "lo" | .MI => "mi" | .PL => "pl"
  | .VS => "vs" | .VC => "vc" | .HI => "hi" | .LS => "ls" | .GE => "ge" | .LT => "lt" | .GT => "gt" | .LE => "le"

def condInv : Cond → String
  | .EQ => "ne" | .NE => "eq" | .CS => "lo" | .HS => "lo" | .CC => "hs" | .LO => "hs" | .MI => "pl" | .PL => "mi"
  | .VS => "vc" | .VC => "vs" | .HI => "ls" | .LS => "hi" | .GE => "lt" | .LT => "ge" | .GT => "le" | .LE => "gt"

def shiftStr : Shift → String
  | .LSL => "lsl" | .LSR => "lsr" | .ASR => "asr" | .ROR => "ror"

/-- extend name in add/sub (extended register); `LSL` = the preferred alias for the operation width -/
def extStr (sf : Nat) : Extend → String
  | .UXTB => "uxtb" | .UXTH => "uxth" | .LSL => (if sf = 1 then "uxtx" else "uxtw") | .UXTW => "uxtw" | .UXTX => "uxtx"
  | .SXTB => "sxtb" | .SXTH => "sxth" | .SXTW => "sxtw" | .SXTX => "sxtx"

/-- all operands present → instruction, otherwise refuse -/
def build (m : String) (ops : List (Option Opd)) : SpecRes :=
  if ops.all Option.isSome then .ok ⟨m, ops.filterMap id⟩ else .refuse

def oreg (g : Option GReg) : Option Opd := g.map Opd.r
def guard' (b : Bool) (o : Option Opd) : Option Opd := if b then o else none
def fits (v : Int) (lo hi : Int) : Bool := decide (lo ≤ v) && decide (v ≤ hi)

/-- `name` without a trailing `_w`, and sf (1 = 64-bit) -/
def splitW (name : String) : String × Nat :=
  if name.endsWith "_w" then ((name.dropEnd 2).toString, 0) else (name, 1)

/-- is `imm` a bitmask immediate of width `m` (exists N:immr:imms decoding to it) -/
def isBitmask (imm : Nat) (m : Nat) : Bool :=
  (List.range 8192).any fun e => decodeBitMasks (e / 4096) (e % 64) (e / 64 % 64) m == some imm && (m = 64 || e / 4096 = 0)

def fpSuffix (name : String) : Option (String × Nat) :=
  if name.endsWith "_s" then some ((name.dropEnd 2).toString, 0)
  else if name.endsWith "_d" then some ((name.dropEnd 2).toString, 1) else none
def fpr (ty : Nat) (x : NeonRegister) : Option Opd := if x.v.toNat ≤ 31 then some (if ty = 0 then .s x.v.toNat else .d x.v.toNat) else none

def memOff (base : Register) (off : Int) (scale : Int) (ok : Bool) : Option Opd :=
  match rsp 1 base with
  | some b => if ok && off % scale = 0 then some (.mem b off) else none
  | none => none

def specAddSub (b : String) (sf : Nat) (args : List Arg) : Option SpecRes :=
  let flags := b.startsWith "adds" || b.startsWith "subs" || b.startsWith "cmp" || b.startsWith "cmn"
  let m (s : String) : String := (if s.startsWith "sub" || s.startsWith "cmp" then "sub" else "add") ++ (if flags then "s" else "")
  let rd' (x : Register) := if flags then rz sf x else rsp sf x
  match b, args with
  | "add", [.r rd, .r rn, .r rm] | "sub", [.r rd, .r rn, .r rm] =>
    if isSP rd || isSP rn then
      -- only the extended-register form can name sp; any extend that is the identity at this width will do
      some (build (m b) [oreg (rsp sf rd), oreg (rsp sf rn), oreg (rz sf rm),
        some (.shift (if sf = 1 then "uxtx" else (if b = "add" then "uxtx" else "uxtw")) 0)])
    else some (build (m b) [oreg (rz sf rd), oreg (rz sf rn), oreg (rz sf rm), some (.shift "lsl" 0)])
  | "adds", [.r rd, .r rn, .r rm] | "subs", [.r rd, .r rn, .r rm] =>
    some (build (m b) [oreg (rz sf rd), oreg (rz sf rn), oreg (rz sf rm), some (.shift "lsl" 0)])
  | "cmp", [.r rn, .r rm] =>
    some (build (m b) [oreg (rz sf REG_ZERO), oreg (rz sf rn), oreg (rz sf rm), some (.shift "lsl" 0)])
  | "add_sh", [.r rd, .r rn, .r rm, .sh s, .n a] | "adds_sh", [.r rd, .r rn, .r rm, .sh s, .n a]
  | "sub_sh", [.r rd, .r rn, .r rm, .sh s, .n a] | "subs_sh", [.r rd, .r rn, .r rm, .sh s, .n a] =>
    some (build (m b) [oreg (rz sf rd), oreg (rz sf rn), oreg (rz sf rm),
      guard' (s != .ROR && fits a 0 (if sf = 1 then 63 else 31)) (some (.shift (shiftStr s) a.toNat))])
  | "cmp_sh", [.r rn, .r rm, .sh s, .n a] =>
    some (build (m b) [oreg (rz sf REG_ZERO), oreg (rz sf rn), oreg (rz sf rm),
      guard' (s != .ROR && fits a 0 (if sf = 1 then 63 else 31)) (some (.shift (shiftStr s) a.toNat))])
  | "add_ext", [.r rd, .r rn, .r rm, .ex e, .n a] | "sub_ext", [.r rd, .r rn, .r rm, .ex e, .n a]
  | "subs_ext", [.r rd, .r rn, .r rm, .ex e, .n a] =>
    let es := extStr sf e
    some (build (m b) [oreg (rd' rd), oreg (rsp sf rn), oreg (rz (if sf = 1 && (es = "uxtx" || es = "sxtx") then 1 else 0) rm),
      guard' (fits a 0 4) (some (.shift es a.toNat))])
  | "cmp_ext", [.r rn, .r rm, .ex e, .n a] =>
    let es := extStr sf e
    some (build (m b) [oreg (rz sf REG_ZERO), oreg (rsp sf rn), oreg (rz (if sf = 1 && (es = "uxtx" || es = "sxtx") then 1 else 0) rm),
      guard' (fits a 0 4) (some (.shift es a.toNat))])
  | "add_imm", [.r rd, .r rn, .n i] | "adds_imm", [.r rd, .r rn, .n i]
  | "sub_imm", [.r rd, .r rn, .n i] | "subs_imm", [.r rd, .r rn, .n i] =>
    if fits i 0 4095 then some (build (m b) [oreg (rd' rd), oreg (rsp sf rn), some (.imm i)])
    else if i % 4096 = 0 && fits i 0 (4095 * 4096) then
      some (build (m b) [oreg (rd' rd), oreg (rsp sf rn), some (.imm (i / 4096)), some (.shift "lsl" 12)])
    else some .refuse
  | "cmp_imm", [.r rn, .n i] | "cmn_imm", [.r rn, .n i] =>
    if fits i 0 4095 then some (build (m b) [oreg (rz sf REG_ZERO), oreg (rsp sf rn), some (.imm i)])
    else if i % 4096 = 0 && fits i 0 (4095 * 4096) then
      some (build (m b) [oreg (rz sf REG_ZERO), oreg (rsp sf rn), some (.imm (i / 4096)), some (.shift "lsl" 12)])
    else some .refuse
  | _, _ => none

def specLogicMove (b : String) (sf : Nat) (args : List Arg) : Option SpecRes :=
  let size : Int := if sf = 1 then 64 else 32
  match b, args with
  | "and_sh", [.r rd, .r rn, .r rm, .sh s, .n a] | "ands_sh", [.r rd, .r rn, .r rm, .sh s, .n a]
  | "bic_sh", [.r rd, .r rn, .r rm, .sh s, .n a] | "bics_sh", [.r rd, .r rn, .r rm, .sh s, .n a]
  | "eor_sh", [.r rd, .r rn, .r rm, .sh s, .n a] | "eon_sh", [.r rd, .r rn, .r rm, .sh s, .n a]
  | "orr_sh", [.r rd, .r rn, .r rm, .sh s, .n a] | "orn_sh", [.r rd, .r rn, .r rm, .sh s, .n a] =>
    some (build (b.dropEnd 3).toString [oreg (rz sf rd), oreg (rz sf rn), oreg (rz sf rm),
      guard' (fits a 0 (size - 1)) (some (.shift (shiftStr s) a.toNat))])
  | "and_imm", [.r rd, .r rn, .n i] =>
    some (build "and" [oreg (rsp sf rd), oreg (rz sf rn), guard' (decide (0 ≤ i) && isBitmask i.toNat size.toNat) (some (.immx i.toNat))])
  | "mov", [.r rd, .r rs] =>
    if isSP rd || isSP rs then some (build "add" [oreg (rsp sf rd), oreg (rsp sf rs), some (.imm 0)])
    else some (build "orr" [oreg (rz sf rd), oreg (rz sf REG_ZERO), oreg (rz sf rs), some (.shift "lsl" 0)])
  | "movz", [.r rd, .n i, .n s] | "movn", [.r rd, .n i, .n s] | "movk", [.r rd, .n i, .n s] =>
    some (build b [oreg (rz sf rd), guard' (fits i 0 65535) (some (.imm i)),
      guard' (s % 16 = 0 && fits s 0 (size - 16)) (some (.shift "lsl" s.toNat))])
  | "bfm", [.r rd, .r rn, .n ir, .n is] | "sbfm", [.r rd, .r rn, .n ir, .n is] | "ubfm", [.r rd, .r rn, .n ir, .n is] =>
    some (build b [oreg (rz sf rd), oreg (rz sf rn), guard' (fits ir 0 (size - 1)) (some (.imm ir)),
      guard' (fits is 0 (size - 1)) (some (.imm is))])
  | "lsl_imm", [.r rd, .r rn, .n s] =>
    some (build "ubfm" [oreg (rz sf rd), oreg (rz sf rn), guard' (fits s 0 (size - 1)) (some (.imm ((size - s) % size))),
      some (.imm (size - 1 - s))])
  | "lsr_imm", [.r rd, .r rn, .n s] =>
    some (build "ubfm" [oreg (rz sf rd), oreg (rz sf rn), guard' (fits s 0 (size - 1)) (some (.imm s)), some (.imm (size - 1))])
  | "sxtw", [.r rd, .r rn] => some (build "sbfm" [oreg (rz 1 rd), oreg (rz 1 rn), some (.imm 0), some (.imm 31)])
  | "uxtw", [.r rd, .r rn] => some (build "ubfm" [oreg (rz 1 rd), oreg (rz 1 rn), some (.imm 0), some (.imm 31)])
  | "uxtb", [.r rd, .r rn] => some (build "ubfm" [oreg (rz 0 rd), oreg (rz 0 rn), some (.imm 0), some (.imm 7)])
  | _, _ => none

def specDataProc (b : String) (sf : Nat) (args : List Arg) : Option SpecRes :=
  let r3 (m : String) (rd rn rm : Register) := some (build m [oreg (rz sf rd), oreg (rz sf rn), oreg (rz sf rm)])
  match b, args with
  | "asrv", [.r rd, .r rn, .r rm] => r3 "asr" rd rn rm
  | "lsl", [.r rd, .r rn, .r rm] => r3 "lsl" rd rn rm
  | "lsr", [.r rd, .r rn, .r rm] => r3 "lsr" rd rn rm
  | "ror", [.r rd, .r rn, .r rm] => r3 "ror" rd rn rm
  | "udiv", [.r rd, .r rn, .r rm] => r3 "udiv" rd rn rm
  | "sdiv", [.r rd, .r rn, .r rm] => r3 "sdiv" rd rn rm
  | "madd", [.r rd, .r rn, .r rm, .r ra] | "msub", [.r rd, .r rn, .r rm, .r ra] =>
    some (build b [oreg (rz sf rd), oreg (rz sf rn), oreg (rz sf rm), oreg (rz sf ra)])
  | "mul", [.r rd, .r rn, .r rm] => some (build "madd" [oreg (rz sf rd), oreg (rz sf rn), oreg (rz sf rm), oreg (rz sf REG_ZERO)])
  | "smaddl", [.r rd, .r rn, .r rm, .r ra] =>
    if sf = 1 then some (build b [oreg (rz 1 rd), oreg (rz 0 rn), oreg (rz 0 rm), oreg (rz 1 ra)]) else none
  | "smull", [.r rd, .r rn, .r rm] =>
    if sf = 1 then some (build "smaddl" [oreg (rz 1 rd), oreg (rz 0 rn), oreg (rz 0 rm), oreg (rz 1 REG_ZERO)]) else none
  | "smulh", [.r rd, .r rn, .r rm] => if sf = 1 then r3 "smulh" rd rn rm else none
  | "cls", [.r rd, .r rn] | "clz", [.r rd, .r rn] | "rbit", [.r rd, .r rn] | "rev", [.r rd, .r rn] =>
    some (build b [oreg (rz sf rd), oreg (rz sf rn)])
  | "csel", [.r rd, .r rn, .r rm, .c c] | "csinc", [.r rd, .r rn, .r rm, .c c] | "csinv", [.r rd, .r rn, .r rm, .c c] =>
    some (build b [oreg (rz sf rd), oreg (rz sf rn), oreg (rz sf rm), some (.cond (condStr c))])
  | "cset", [.r rd, .c c] =>
    some (build "csinc" [oreg (rz sf rd), oreg (rz sf REG_ZERO), oreg (rz sf REG_ZERO), some (.cond (condInv c))])
  | _, _ => none

def specBranchSys (b : String) (sf : Nat) (args : List Arg) : Option SpecRes :=
  match b, args with
  | "b_r", [.r rn] => if sf = 1 then some (build "br" [oreg (rz 1 rn)]) else none
  | "bl_r", [.r rn] => if sf = 1 then some (build "blr" [oreg (rz 1 rn)]) else none
  | "ret", [.r rn] => if sf = 1 then some (build "ret" [oreg (rz 1 rn)]) else none
  | "bl_imm", [.n i] => some (build "bl" [guard' (fits i (-(2 ^ 25)) (2 ^ 25 - 1)) (some (.label (i * 4)))])
  | "uncond_branch_imm", _ => none
  | "cbz_imm", [.r rt, .n i] | "cbnz_imm", [.r rt, .n i] =>
    some (build (b.dropEnd 4).toString [oreg (rz sf rt), guard' (fits i (-(2 ^ 18)) (2 ^ 18 - 1)) (some (.label (i * 4)))])
  | "adr_imm", [.r rd, .n i] => some (build "adr" [oreg (rz 1 rd), guard' (fits i (-(2 ^ 20)) (2 ^ 20 - 1)) (some (.label i))])
  | "adrp_imm", [.r rd, .n i] => some (build "adrp" [oreg (rz 1 rd), guard' (fits i (-(2 ^ 20)) (2 ^ 20 - 1)) (some (.label (i * 4096)))])
  | "brk", [.n i] => some (build "brk" [guard' (fits i 0 65535) (some (.imm i))])
  | "nop", [] => some (build "hint" [some (.imm 0)])
  | "dmb_ish", [] => some (build "dmb" [some (.imm 11)])
  | "dmb_ishst", [] => some (build "dmb" [some (.imm 10)])
  | "dmb", [.n i] => some (build "dmb" [guard' (fits i 0 15) (some (.imm i))])
  | _, _ => none

/-- strip the acquire/release letters: name → (base, suffix) for `ldadd`, `swp`, `cas` -/
def lseName (b : String) : Option (String × String) :=
  let try' (p : String) : Option (String × String) :=
    if b.startsWith p then
      let rest := (b.drop p.length).toString
      if rest = "" || rest = "a" || rest = "l" || rest = "al" then some (p, rest) else none
    else none
  (try' "ldadd").orElse fun _ => (try' "swp").orElse fun _ => try' "cas"

def specAtomic (b : String) (sf : Nat) (args : List Arg) : Option SpecRes :=
  let addr (x : Register) : Option Opd := (rsp 1 x).map fun g => .mem g 0
  match lseName b, args with
  | some (p, suf), [.r a, .r b', .r ad] => some (build (p ++ suf) [oreg (rz sf a), oreg (rz sf b'), addr ad])
  | _, _ =>
  match b, args with
  | "ldar", [.r rt, .r rn] | "ldaxr", [.r rt, .r rn] | "ldxr", [.r rt, .r rn] | "stlr", [.r rt, .r rn] =>
    some (build b [oreg (rz sf rt), addr rn])
  | "ldarb", [.r rt, .r rn] | "ldarh", [.r rt, .r rn] | "stlrb", [.r rt, .r rn] | "stlrh", [.r rt, .r rn] =>
    if sf = 1 then some (build b [oreg (rz 0 rt), addr rn]) else none
  | "stxr", [.r st, .r src, .r ad] | "stlxr", [.r st, .r src, .r ad] =>
    some (build b [oreg (rz 0 st), oreg (rz sf src), addr ad])
  | _, _ => none

def pairMem (mode : Nat) (base : Register) (off : Int) (scale : Int) : Option Opd :=
  match rsp 1 base with
  | some g =>
    if off % scale = 0 && fits (off / scale) (-64) 63 then
      some (if mode = 1 then .memPost g off else if mode = 3 then .memPre g off else .mem g off)
    else none
  | none => none

/-- register-offset addressing `[base, idx, ext #amt]`: only UXTW/LSL/SXTW/SXTX, amount 0 or the access size -/
def memRegOpd (rn rm : Register) (e : Extend) (a : Int) (lg : Nat) : Option Opd :=
  let en : Option (String × Nat) := match e with
    | .UXTW => some ("uxtw", 0) | .LSL => some ("lsl", 1) | .SXTW => some ("sxtw", 0) | .SXTX => some ("sxtx", 1)
    | _ => none
  match en, rsp 1 rn with
  | some (es, w), some base =>
    let amt : Option (Option Nat) := if a = 0 then some none else if a = lg && lg ≠ 0 then some (some lg) else none
    (match amt, rz w rm with
     | some am, some idx => some (.memReg base idx es am)
     | _, _ => none)
  | _, _ => none

def specLdSt (name : String) (b : String) (sf : Nat) (args : List Arg) : Option SpecRes :=
  let sc : Int := if sf = 1 then 8 else 4
  match b, args with
  | "ldp", [.r rt, .r rt2, .r rn, .n i] => some (build "ldp" [oreg (rz sf rt), oreg (rz sf rt2), pairMem 2 rn i sc])
  | "ldp_post", [.r rt, .r rt2, .r rn, .n i] => some (build "ldp" [oreg (rz sf rt), oreg (rz sf rt2), pairMem 1 rn (i * sc) sc])
  | "stp", [.r rt, .r rt2, .r rn, .n i] => some (build "stp" [oreg (rz sf rt), oreg (rz sf rt2), pairMem 2 rn (i * sc) sc])
  | "stp_post", [.r rt, .r rt2, .r rn, .n i] => some (build "stp" [oreg (rz sf rt), oreg (rz sf rt2), pairMem 1 rn i sc])
  | "stp_pre", [.r rt, .r rt2, .r rn, .n i] => some (build "stp" [oreg (rz sf rt), oreg (rz sf rt2), pairMem 3 rn (i * sc) sc])
  | _, _ =>
  -- single register: (mnemonic, transfer register, log2 size) by method name
  let gp (m : String) (w lg : Nat) (rt : Register) := some (m, oreg (rz w rt), lg)
  let info : Option (String × Option Opd × Nat) × List Arg :=
    match name, args with
    | "ldr_imm_x", .r rt :: r => (gp "ldr" 1 3 rt, r) | "ldr_imm_w", .r rt :: r => (gp "ldr" 0 2 rt, r)
    | "ldrh_imm", .r rt :: r => (gp "ldrh" 0 1 rt, r) | "ldrb_imm", .r rt :: r => (gp "ldrb" 0 0 rt, r)
    | "ldr_imm_d", .f rt :: r => (some ("ldr", fpr 1 rt, 3), r) | "ldr_imm_s", .f rt :: r => (some ("ldr", fpr 0 rt, 2), r)
    | "str_imm_x", .r rt :: r => (gp "str" 1 3 rt, r) | "str_imm", .r rt :: r => (gp "str" 1 3 rt, r)
    | "str_imm_w", .r rt :: r => (gp "str" 0 2 rt, r)
    | "strh_imm", .r rt :: r => (gp "strh" 0 1 rt, r) | "strb_imm", .r rt :: r => (gp "strb" 0 0 rt, r)
    | "str_imm_d", .f rt :: r => (some ("str", fpr 1 rt, 3), r) | "str_imm_s", .f rt :: r => (some ("str", fpr 0 rt, 2), r)
    | "ldr", .r rt :: r => (gp "ldr" 1 3 rt, r)
    | "ldr_reg", .r rt :: r => (gp "ldr" 1 3 rt, r) | "ldr_reg_w", .r rt :: r => (gp "ldr" 0 2 rt, r)
    | "ldrh_reg", .r rt :: r => (gp "ldrh" 0 1 rt, r) | "ldrb_reg", .r rt :: r => (gp "ldrb" 0 0 rt, r)
    | "ldr_reg_d", .f rt :: r => (some ("ldr", fpr 1 rt, 3), r) | "ldr_reg_s", .f rt :: r => (some ("ldr", fpr 0 rt, 2), r)
    | "str_reg", .r rt :: r => (gp "str" 1 3 rt, r) | "str_reg_w", .r rt :: r => (gp "str" 0 2 rt, r)
    | "strh_reg", .r rt :: r => (gp "strh" 0 1 rt, r) | "strb_reg", .r rt :: r => (gp "strb" 0 0 rt, r)
    | "str_reg_d", .f rt :: r => (some ("str", fpr 1 rt, 3), r) | "str_reg_s", .f rt :: r => (some ("str", fpr 0 rt, 2), r)
    | "ldur", .r rt :: r => (gp "ldur" 1 3 rt, r) | "ldur_w", .r rt :: r => (gp "ldur" 0 2 rt, r)
    | "ldurh", .r rt :: r => (gp "ldurh" 0 1 rt, r) | "ldurb", .r rt :: r => (gp "ldurb" 0 0 rt, r)
    | "ldur_d", .f rt :: r => (some ("ldur", fpr 1 rt, 3), r) | "ldur_s", .f rt :: r => (some ("ldur", fpr 0 rt, 2), r)
    | "stur", .r rt :: r => (gp "stur" 1 3 rt, r) | "stur_w", .r rt :: r => (gp "stur" 0 2 rt, r)
    | "sturh", .r rt :: r => (gp "sturh" 0 1 rt, r) | "sturb", .r rt :: r => (gp "sturb" 0 0 rt, r)
    | "stur_d", .f rt :: r => (some ("stur", fpr 1 rt, 3), r) | "stur_s", .f rt :: r => (some ("stur", fpr 0 rt, 2), r)
    | _, r => (none, r)
  match info with
  | (none, _) => none
  | (some (m, rt, lg), rest) =>
    let scale : Int := (2 ^ lg : Nat)
    if name.endsWith "_imm" || (name.dropEnd 2).toString.endsWith "_imm" then
      match rest with
      | [.r rn, .n i] => some (build m [rt, memOff rn i scale (fits (i / scale) 0 4095)])
      | _ => none
    else if name = "ldr" then
      match rest with
      | [.m base off] => some (build m [rt, memOff base off scale (fits (off / scale) 0 4095)])
      | _ => none
    else if m.startsWith "ldur" || m.startsWith "stur" then
      match rest with
      | [.r rn, .n i] => some (build m [rt, memOff rn i 1 (fits i (-256) 255)])
      | _ => none
    else
      match rest with
      | [.r rn, .r rm, .ex e, .n a] => some (build m [rt, memRegOpd rn rm e a lg])
      | _ => none

/-- `addv` destination (scalar of the element size) and source (vector arrangement) -/
def addvD (size q : Int) (rd : NeonRegister) : Option Opd :=
  if size = 0 && fits q 0 1 then some (.b rd.v.toNat)
  else if size = 1 && fits q 0 1 then some (.h rd.v.toNat)
  else if size = 2 && q = 1 then some (.s rd.v.toNat) else none
def addvV (size q : Int) (rn : NeonRegister) : Option Opd :=
  if size = 0 && fits q 0 1 then some (.v rn.v.toNat (if q = 1 then "16b" else "8b"))
  else if size = 1 && fits q 0 1 then some (.v rn.v.toNat (if q = 1 then "8h" else "4h"))
  else if size = 2 && q = 1 then some (.v rn.v.toNat "4s") else none

def specFp (name : String) (args : List Arg) : Option SpecRes :=
  match name, args with
  | "fcvt_ds", [.f rd, .f rn] => some (build "fcvt" [fpr 1 rd, fpr 0 rn])
  | "fcvt_sd", [.f rd, .f rn] => some (build "fcvt" [fpr 0 rd, fpr 1 rn])
  | "fcvtzs_d", [.r rd, .f rn] => some (build "fcvtzs" [oreg (rz 1 rd), fpr 1 rn])
  | "fcvtzs_s", [.r rd, .f rn] => some (build "fcvtzs" [oreg (rz 1 rd), fpr 0 rn])
  | "fcvtzs_wd", [.r rd, .f rn] => some (build "fcvtzs" [oreg (rz 0 rd), fpr 1 rn])
  | "fcvtzs_ws", [.r rd, .f rn] => some (build "fcvtzs" [oreg (rz 0 rd), fpr 0 rn])
  | "fmov_fs_d", [.f rd, .r rn] => some (build "fmov" [fpr 1 rd, oreg (rz 1 rn)])
  | "fmov_fs_s", [.f rd, .r rn] => some (build "fmov" [fpr 0 rd, oreg (rz 0 rn)])
  | "fmov_sf_d", [.r rd, .f rn] => some (build "fmov" [oreg (rz 1 rd), fpr 1 rn])
  | "fmov_sf_s", [.r rd, .f rn] => some (build "fmov" [oreg (rz 0 rd), fpr 0 rn])
  | "scvtf_si_dw", [.f rd, .r rn] => some (build "scvtf" [fpr 1 rd, oreg (rz 0 rn)])
  | "scvtf_si_dx", [.f rd, .r rn] => some (build "scvtf" [fpr 1 rd, oreg (rz 1 rn)])
  | "scvtf_si_sw", [.f rd, .r rn] => some (build "scvtf" [fpr 0 rd, oreg (rz 0 rn)])
  | "scvtf_si_sx", [.f rd, .r rn] => some (build "scvtf" [fpr 0 rd, oreg (rz 1 rn)])
  | "addv", [.n q, .n size, .f rd, .f rn] => some (build "addv" [addvD size q rd, addvV size q rn])
  | "cnt", [.n q, .n size, .f rd, .f rn] =>
    some (build "cnt" [guard' (size = 0 && fits q 0 1) (some (.v rd.v.toNat (if q = 1 then "16b" else "8b"))),
      some (.v rn.v.toNat (if q = 1 then "16b" else "8b"))])
  | _, _ =>
  match fpSuffix name, args with
  | some (b, ty), [.f rd, .f rn, .f rm] =>
    if b = "fadd" || b = "fsub" || b = "fmul" || b = "fdiv" then some (build b [fpr ty rd, fpr ty rn, fpr ty rm]) else none
  | some (b, ty), [.f ra, .f rb] =>
    if b = "fcmp" || b = "fcmpe" || b = "fmov" || b = "fabs" || b = "fneg" || b = "fsqrt" || b = "frintn" || b = "frintp"
        || b = "frintm" || b = "frintz" || b = "frinta" then some (build b [fpr ty ra, fpr ty rb]) else none
  | _, _ => none

/-- the requested instruction of a public method -/
def spec (name : String) (args : List Arg) : SpecRes :=
  let (b, sf) := splitW name
  let r := (specFp name args).orElse fun _ => (specLdSt name b sf args).orElse fun _ => (specAddSub b sf args).orElse fun _ =>
    (specLogicMove b sf args).orElse fun _ => (specDataProc b sf args).orElse fun _ => (specBranchSys b sf args).orElse fun _ =>
    specAtomic b sf args
  r.getD .nospec

end Dora.A64
