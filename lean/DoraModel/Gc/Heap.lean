/-!
# Abstract heap graphs and the collection validator (C03)

A heap dump (written by the hook `dora-runtime/src/gc/verif_heapdump.rs`, cfg `dinfuehr_dora_verif`)
is the part of the heap that is reachable from the strong roots: the ordered list of root slots
(`iterate_strong_roots` order; interior slots as base + offset) and one record per reachable object
(address, shape id, size, hash of the non-reference payload, the reference fields in field order,
`0` = null).

`checkCollection pre post` decides whether the dump taken after a collection is the dump taken
before it up to a renaming of addresses:

1. a *candidate* renaming `φ` is built by walking both graphs simultaneously from the paired roots
   (`buildCandidate`; nothing about it is trusted);
2. the candidate is *verified* (`verifyMap`): keys distinct and values distinct (so `φ` is a
   partial injection), roots pairwise related, and for every pair `(a, b)` of `φ` both objects exist,
   agree on shape, size, payload hash and number of reference fields, and their reference fields
   are pairwise null/null or related by `φ`.

Soundness (`DoraModel/Gc/HeapLemmas.lean`, property theorem `validator_sound` in `Props/C03.lean`)
only talks about step 2.
-/
namespace DoraModel.Gc.Heap

/-- one reachable object of a dump -/
structure Obj where
  id : Nat
  shape : Nat
  size : Nat
  hash : Nat
  refs : List Nat
  deriving Repr, BEq, Inhabited, DecidableEq

/-- one strong root slot: a reference to `base` (0 = null), or — interior slot — to `base + off` -/
structure Root where
  base : Nat
  off : Nat
  deriving Repr, BEq, Inhabited, DecidableEq

structure Heap where
  roots : List Root
  objs : List Obj
  deriving Repr, Inhabited

/-- the object record at address `a` (first one, should the dump list an address twice) -/
def Heap.find (h : Heap) (a : Nat) : Option Obj := h.objs.find? (fun o => o.id == a)

/-- reachability from the roots along non-null reference fields -/
inductive Reach (h : Heap) : Nat → Prop
  | root {r : Root} : r ∈ h.roots → r.base ≠ 0 → Reach h r.base
  | step {a c : Nat} {o : Obj} : Reach h a → h.find a = some o → c ∈ o.refs → c ≠ 0 → Reach h c

/-! ## the verified part -/

/-- `all2 p xs ys`: same length and `p` holds pairwise -/
def all2 {α β : Type} (p : α → β → Bool) : List α → List β → Bool
  | [], [] => true
  | a :: as, b :: bs => p a b && all2 p as bs
  | _, _ => false

/-- the renaming as a function: first pair with key `a` -/
def related (φ : List (Nat × Nat)) (a b : Nat) : Bool := φ.lookup a == some b

/-- two references correspond: both null, or both non-null and related by `φ` -/
def refOk (φ : List (Nat × Nat)) (c c' : Nat) : Bool :=
  (c == 0 && c' == 0) || (c != 0 && c' != 0 && related φ c c')

def rootOk (φ : List (Nat × Nat)) (r r' : Root) : Bool := r.off == r'.off && refOk φ r.base r'.base

/-- the pair `(a, b)` of the renaming is consistent with the two dumps -/
def pairOk (pre post : Heap) (φ : List (Nat × Nat)) (ab : Nat × Nat) : Bool :=
  match pre.find ab.1, post.find ab.2 with
  | some oa, some ob =>
    ab.1 != 0 && ab.2 != 0 && oa.shape == ob.shape && oa.size == ob.size && oa.hash == ob.hash
      && all2 (refOk φ) oa.refs ob.refs
  | _, _ => false

/-- no element occurs twice -/
def distinct : List Nat → Bool
  | [] => true
  | a :: as => !as.contains a && distinct as

/-- The verification step. -/
def verifyMap (pre post : Heap) (φ : List (Nat × Nat)) : Bool :=
  distinct (φ.map Prod.fst) && distinct (φ.map Prod.snd)
    && all2 (rootOk φ) pre.roots post.roots
    && φ.all (pairOk pre post φ)

/-! ## the untrusted part: a candidate renaming by simultaneous traversal

Plain lists and structural recursion on fuel, so that the kernel can evaluate the validator on the
small examples in `Props/C03.lean`; dumps hold the reachable graph of small test programs (tens to a
few thousand objects), for which the quadratic cost does not matter. -/

/-- pair up two reference lists (stops at the shorter one; a length mismatch is caught by `verifyMap`) -/
def zipRefs : List Nat → List Nat → List (Nat × Nat)
  | c :: cs, c' :: cs' => (c, c') :: zipRefs cs cs'
  | _, _ => []

/-- walk both graphs in lock step from a stack of paired references; every pop costs one unit of fuel -/
def buildLoop (pre post : Heap) : Nat → List (Nat × Nat) → List (Nat × Nat) → List (Nat × Nat)
  | 0, _, φ => φ
  | _ + 1, [], φ => φ
  | fuel + 1, (a, a') :: rest, φ =>
    if a == 0 || a' == 0 then buildLoop pre post fuel rest φ
    else if (φ.lookup a).isSome then buildLoop pre post fuel rest φ
    else
      match pre.find a, post.find a' with
      | some oa, some ob => buildLoop pre post fuel (zipRefs oa.refs ob.refs ++ rest) ((a, a') :: φ)
      | _, _ => buildLoop pre post fuel rest ((a, a') :: φ)

def edgeCount (h : Heap) : Nat := h.objs.foldl (fun n o => n + o.refs.length) h.roots.length

def buildCandidate (pre post : Heap) : List (Nat × Nat) :=
  buildLoop pre post (edgeCount pre + edgeCount post + 1)
    (zipRefs (pre.roots.map (·.base)) (post.roots.map (·.base))) []

/-! ## the validator -/

def hx (n : Nat) : String := String.ofList (Nat.toDigits 16 n)

/-- first failing condition of `verifyMap`, for the report (not used by the proofs) -/
def explain (pre post : Heap) (φ : List (Nat × Nat)) : String :=
  if !distinct (φ.map Prod.fst) then "renaming is not a function (an object would have two images)"
  else if !distinct (φ.map Prod.snd) then "renaming is not injective (two objects merged into one)"
  else if pre.roots.length != post.roots.length then
    s!"number of root slots differs: {pre.roots.length} before, {post.roots.length} after"
  else if !all2 (rootOk φ) pre.roots post.roots then
    match (pre.roots.zip post.roots).findIdx? (fun rr => !rootOk φ rr.1 rr.2) with
    | some i =>
      let r := pre.roots[i]!
      let r' := post.roots[i]!
      s!"root slot {i} not preserved: before base={hx r.base} off={r.off}, after base={hx r'.base} off={r'.off}"
    | none => "roots not preserved"
  else
    match φ.find? (fun ab => !pairOk pre post φ ab) with
    | some (a, b) =>
      match pre.find a, post.find b with
      | some oa, some ob =>
        if oa.shape != ob.shape then s!"object {hx a} -> {hx b}: shape differs ({oa.shape} / {ob.shape})"
        else if oa.size != ob.size then s!"object {hx a} -> {hx b}: size differs ({oa.size} / {ob.size})"
        else if oa.hash != ob.hash then s!"object {hx a} -> {hx b}: payload changed (hash {oa.hash} / {ob.hash})"
        else if oa.refs.length != ob.refs.length then
          s!"object {hx a} -> {hx b}: number of reference fields differs ({oa.refs.length} / {ob.refs.length})"
        else
          match (oa.refs.zip ob.refs).findIdx? (fun cc => !refOk φ cc.1 cc.2) with
          | some j => s!"object {hx a} -> {hx b}: reference field {j} not preserved ({hx oa.refs[j]!} / {hx ob.refs[j]!})"
          | none => s!"object {hx a} -> {hx b}: inconsistent"
      | none, _ => s!"object {hx a} is referenced before the collection but has no record"
      | _, none => s!"object {hx b} (image of {hx a}) is referenced after the collection but has no record: reachable object lost"
    | none => "ok"

/-- Accept iff the candidate renaming passes the verification step. -/
def checkCollection (pre post : Heap) : Except String Unit :=
  let φ := buildCandidate pre post
  if verifyMap pre post φ then .ok () else .error (explain pre post φ)

/-! ## dump parser (driver side) -/

def hexVal? (s : String) : Option Nat :=
  if s.isEmpty then none else
  s.toList.foldl (fun acc c =>
    match acc with
    | none => none
    | some n =>
      let v := c.toNat
      if 48 ≤ v && v ≤ 57 then some (n * 16 + (v - 48))
      else if 97 ≤ v && v ≤ 102 then some (n * 16 + (v - 87))
      else none) (some 0)

def parseRoot (ws : List String) : Option Root :=
  match ws with
  | ["root", "r", a] => (hexVal? a).map fun a => { base := a, off := 0 }
  | ["root", "i", a, o] => do
    let a ← hexVal? a
    let o ← hexVal? o
    pure { base := a, off := o }
  | _ => none

def parseObj (ws : List String) : Option Obj :=
  match ws with
  | "obj" :: a :: sh :: sz :: hs :: n :: rest => do
    let a ← hexVal? a
    let sh ← hexVal? sh
    let sz ← hexVal? sz
    let hs ← hexVal? hs
    let n ← hexVal? n
    let refs ← rest.mapM hexVal?
    if refs.length == n then pure { id := a, shape := sh, size := sz, hash := hs, refs := refs } else none
  | _ => none

end DoraModel.Gc.Heap
