/-!
# Object header word (model of `HeaderWord`, dora-runtime/src/mirror.rs lines 25–180)

The header of every heap object is one 64-bit word

    bits 0..31   compressed shape pointer (vtblptr − shape_base), bit 0 is clear for a shape word
    bit  32      mark bit        (MARK_BIT,       MARK_BIT_SHIFT = METADATA_OFFSET * 8)
    bit  33      remembered bit  (REMEMBERED_BIT, dora-compiler/src/abi.rs REMEMBERED_BIT_SHIFT = 33)
    bits 34..63  sentinel, all ones (`0xFFFF_FFFC << 32`)

or, once the object has been moved, a forwarding pointer `new_address | 1` (FWDPTR_BIT).

Function-by-function transcription on `BitVec 64` (`usize` of the pinned 64-bit targets). The pinned
build profile has debug assertions and overflow checks on: `debug_assert!` failures and `usize`
overflow are `Except.error`, never a default value. `Address` is a newtype over `usize`
(dora-runtime/src/gc.rs); `Address::offset_from` / `Address::offset` are modelled below.

The word lives in an `AtomicUsize`. A compare-and-swap is modelled by two explicit words: the value
the function has read (`cur` / `current`) and the value that is in memory when the CAS executes
(`actual`); single-threaded `actual = cur`. A `compare_exchange_weak` additionally takes a Bool
`spurious` (it may fail although the values are equal).

Imports nothing outside core Lean, so a native driver can link it.
-/
namespace DoraModel.Gc.Header

/-- `usize` on the pinned targets -/
abbrev Word := BitVec 64

/-- `const FWDPTR_BIT: usize = 1;` -/
abbrev FWDPTR_BIT : Word := 1#64
/-- `const METADATA_OFFSET: usize = 4;` -/
abbrev METADATA_OFFSET : Nat := 4
/-- `const MARK_BIT_SHIFT: usize = METADATA_OFFSET * 8;` -/
abbrev MARK_BIT_SHIFT : Nat := METADATA_OFFSET * 8
/-- `const MARK_BIT: usize = 1 << MARK_BIT_SHIFT;` -/
abbrev MARK_BIT : Word := 1#64 <<< MARK_BIT_SHIFT
/-- `pub const REMEMBERED_BIT_SHIFT: usize = dora_compiler::REMEMBERED_BIT_SHIFT;` (abi.rs: 33) -/
abbrev REMEMBERED_BIT_SHIFT : Nat := 33
/-- `const REMEMBERED_BIT: usize = 1 << REMEMBERED_BIT_SHIFT;` -/
abbrev REMEMBERED_BIT : Word := 1#64 <<< REMEMBERED_BIT_SHIFT
/-- the literal `0xFFFF_FFFF` (mask of the compressed shape pointer) -/
abbrev LOW32 : Word := 0xFFFFFFFF#64
/-- the expression `0xFFFF_FFFF << 32` of `try_install_fwdptr` (mask of the metadata half) -/
abbrev HIGH32 : Word := 0xFFFFFFFF#64 <<< 32
/-- the expression `0xFFFF_FFFC << 32` of `compute_word` (the sentinel bits) -/
abbrev SENTINEL_BITS : Word := 0xFFFFFFFC#64 <<< 32

/-- `Address::offset_from(self, base)`: `debug_assert!(self >= base); self.to_usize() - base.to_usize()` -/
def offsetFrom (self base : Word) : Except String Word :=
  if self < base then .error "offset_from: self < base" else .ok (self - base)

/-- `Address::offset(self, offset)`: `Address(self.0 + offset)`; `usize` overflow panics (overflow checks on) -/
def offset (self off : Word) : Except String Word :=
  if BitVec.uaddOverflow self off then .error "offset: usize overflow" else .ok (self + off)

/-- `is_marked as usize` -/
def boolWord (b : Bool) : Word := if b then 1#64 else 0#64

/-- `boolWord` in the form the bit-vector decision procedure understands -/
theorem boolWord_eq (b : Bool) : boolWord b = BitVec.setWidth 64 (BitVec.ofBool b) := by
  cases b <;> rfl

/-- `HeaderWord::compute_word(vtblptr, shape_base, is_marked, is_remembered)`; also
`Header::compute_header_word`. Note that `compressed` is NOT masked to 32 bits. -/
def computeWord (vtblptr shapeBase : Word) (isMarked isRemembered : Bool) : Except String Word := do
  let compressed ← offsetFrom vtblptr shapeBase
  pure (compressed
    ||| SENTINEL_BITS
    ||| (boolWord isMarked <<< MARK_BIT_SHIFT)
    ||| (boolWord isRemembered <<< REMEMBERED_BIT_SHIFT))

/-- `HeaderWord::setup` / `Header::setup_header_word`: `self.set_raw(compute_word(..))`; returns the new word -/
def setup (_w : Word) (vtblptr shapeBase : Word) (isMarked isRemembered : Bool) : Except String Word :=
  computeWord vtblptr shapeBase isMarked isRemembered

/-- `HeaderWord::raw_vtblptr(&self, shape_base)`; `w` is `self.raw()`.
`debug_assert_eq!(full.to_usize() & FWDPTR_BIT, 0)` -/
def rawVtblptr (w shapeBase : Word) : Except String Word := do
  let value := w &&& LOW32
  let full ← offset shapeBase value
  if full &&& FWDPTR_BIT == 0#64 then pure full else .error "raw_vtblptr: bit 0 set"

/-- `HeaderWord::install_fwdptr(&self, value)`: `self.set_raw(value.to_usize() | FWDPTR_BIT)`; the new word.
The previous content of the word is irrelevant (plain store). -/
def installFwdptr (value : Word) : Word := value ||| FWDPTR_BIT

/-- `enum VtblptrWordKind { Vtblptr(Address), Fwdptr(Address) }` -/
inductive Kind where
  | vtblptr (a : Word)
  | fwdptr (a : Word)
  deriving DecidableEq, Repr

/-- `HeaderWord::vtblptr_or_fwdptr(&self, shape_base)`; `w` is `self.raw()`.
The shape branch computes `shape_base.offset(value)` (overflow panics); no alignment assertion here. -/
def vtblptrOrFwdptr (w shapeBase : Word) : Except String Kind :=
  if w &&& FWDPTR_BIT != 0#64 then
    pure (.fwdptr (w &&& ~~~FWDPTR_BIT))
  else do
    let value := w &&& LOW32
    let full ← offset shapeBase value
    pure (.vtblptr full)

/-- `enum ForwardResult { Forwarded, AlreadyForwarded(Address) }` -/
inductive ForwardResult where
  | forwarded
  | alreadyForwarded (a : Word)
  deriving DecidableEq, Repr

/-- what one call of `try_install_fwdptr` does: the `expected_value` it computes, the word in memory
afterwards, and the result -/
structure FwdOutcome where
  expected : Word
  word : Word
  result : ForwardResult
  deriving DecidableEq, Repr

/-- `HeaderWord::try_install_fwdptr(&self, expected_vtblptr, shape_base, new_address)`.
`cur` is the value read by `self.raw()`, `actual` the value in memory when the `compare_exchange`
executes. In Rust `&` binds tighter than `|`:
`expected_value = (current_value & (0xFFFF_FFFF << 32)) | compressed_shape`.
The CAS succeeds iff `actual = expected_value`; on failure it returns `actual`
(`debug_assert!((forwarding_value | 1) != 0)` cannot fail; `assert_eq!(value, expected_value)` on
success holds by the definition of compare_exchange). -/
def tryInstallFwdptr (cur actual expectedVtblptr shapeBase newAddress : Word) : Except String FwdOutcome := do
  let currentValue := cur
  let compressedShape ← offsetFrom expectedVtblptr shapeBase
  let expectedValue := (currentValue &&& HIGH32) ||| compressedShape
  let fwd := newAddress ||| 1#64
  if actual == expectedValue then
    pure { expected := expectedValue, word := fwd, result := .forwarded }
  else
    let forwardingValue := actual
    pure { expected := expectedValue, word := actual,
           result := .alreadyForwarded (forwardingValue &&& ~~~1#64) }

/-- `try_install_fwdptr` without interference (`actual = cur`) -/
def tryInstallFwdptr1 (cur expectedVtblptr shapeBase newAddress : Word) : Except String FwdOutcome :=
  tryInstallFwdptr cur cur expectedVtblptr shapeBase newAddress

/-- the value `try_mark` tries to store: `(current & !REMEMBERED_BIT) | MARK_BIT` -/
def markNext (current : Word) : Word := (current &&& ~~~REMEMBERED_BIT) ||| MARK_BIT

/-- outcome of one iteration of the loop of `try_mark` -/
inductive MarkStep where
  /-- the CAS succeeded: `return true`; memory now holds `newWord` -/
  | claimed (newWord : Word)
  /-- `current & MARK_BIT != 0`: `return false`, no CAS executed -/
  | alreadyMarked
  /-- the CAS failed: `current = actual`, go round again -/
  | retry (current : Word)
  deriving DecidableEq, Repr

/-- one iteration of the loop body of `HeaderWord::try_mark`: the local variable holds `current`,
memory holds `actual` when the `compare_exchange_weak` executes, `spurious` = it fails although equal -/
def tryMarkStep (current actual : Word) (spurious : Bool) : MarkStep :=
  if current &&& MARK_BIT == 0#64 then
    let next := markNext current
    if actual == current && !spurious then .claimed next else .retry actual
  else
    .alreadyMarked

/-- `HeaderWord::try_mark` / `Header::try_mark` without interference and without spurious failure
(one CAS attempt on the word `w`): (claimed?, word afterwards) -/
def tryMark (w : Word) : Bool × Word :=
  if w &&& MARK_BIT == 0#64 then (true, markNext w) else (false, w)

/-- result of the whole loop of `try_mark` -/
structure MarkResult where
  claimed : Bool
  word : Word
  /-- number of `compare_exchange_weak` calls executed -/
  attempts : Nat
  deriving DecidableEq, Repr

/-- The loop of `HeaderWord::try_mark`. `current` is the local variable (initially `self.raw()`);
`script` lists, for every CAS still to come that is interfered with, the value another thread left
in memory by then and whether the CAS fails spuriously. After the script memory is quiet: it holds
what the last failed CAS returned, i.e. `current`. -/
def tryMarkLoop (current : Word) : List (Word × Bool) → MarkResult
  | [] =>
    let r := tryMark current
    { claimed := r.1, word := r.2, attempts := if r.1 then 1 else 0 }
  | (actual, spurious) :: rest =>
    match tryMarkStep current actual spurious with
    | .claimed w => { claimed := true, word := w, attempts := 1 }
    | .alreadyMarked => { claimed := false, word := current, attempts := 0 }
    | .retry c =>
      let r := tryMarkLoop c rest
      { r with attempts := r.attempts + 1 }

/-- `HeaderWord::clear_mark`: `fetch_and(!MARK_BIT)`; the new word -/
def clearMark (w : Word) : Word := w &&& ~~~MARK_BIT

/-- `HeaderWord::is_marked` -/
def isMarked (w : Word) : Bool := w &&& MARK_BIT != 0#64

/-- `HeaderWord::is_remembered` -/
def isRemembered (w : Word) : Bool := w &&& REMEMBERED_BIT != 0#64

/-- `HeaderWord::set_remembered`: `set_raw(current | REMEMBERED_BIT)`; the new word -/
def setRemembered (w : Word) : Word := w ||| REMEMBERED_BIT

/-- `HeaderWord::clear_remembered`: `set_raw(current & !REMEMBERED_BIT)`; the new word -/
def clearRemembered (w : Word) : Word := w &&& ~~~REMEMBERED_BIT

/-- `Header::compressed_vtblptr`: `self.word.raw() & 0xFFFF_FFFF` -/
def compressedVtblptr (w : Word) : Word := w &&& LOW32

/-- `Header::sentinel`: `(self.word.raw() >> 32) & 0xFFFF_FFFC` -/
def sentinel (w : Word) : Word := (w >>> 32) &&& 0xFFFFFFFC#64

/-- the value `Header::sentinel` returns for every word made by `compute_word` with a 32-bit offset -/
abbrev SENTINEL_VALUE : Word := 0xFFFFFFFC#64

end DoraModel.Gc.Header
