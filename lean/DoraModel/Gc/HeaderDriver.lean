import DoraModel.Gc.Header
/-!
# Line-protocol responder for the header-word model (C03)

Answers the requests of `h_c03` (harness/crates/c03/src/main.rs documents the grammar) with the model
of `DoraModel.Gc.Header`. All numbers are 16-digit lower-case hex words, booleans are `0`/`1`,
every panic of the implementation (debug assertion, `usize` overflow) is exactly `!panic`.
-/
namespace DoraModel.Gc.HeaderDriver
open DoraModel.Gc.Header

def hexNib (n : Nat) : Char := if n < 10 then Char.ofNat (48 + n) else Char.ofNat (87 + n)

/-- 16 lower-case hex digits -/
def hex (w : Word) : String :=
  String.ofList ((List.range 16).map fun i => hexNib ((w.toNat >>> (4 * (15 - i))) % 16))

def nibVal? (c : Char) : Option Nat :=
  if '0' ≤ c ∧ c ≤ '9' then some (c.toNat - 48)
  else if 'a' ≤ c ∧ c ≤ 'f' then some (c.toNat - 87)
  else none

/-- exactly 16 lower-case hex digits -/
def unhex? (s : String) : Option Word :=
  let cs := s.toList
  if cs.length ≠ 16 then none else
  (cs.foldlM (fun (acc : Nat) c => (nibVal? c).map (acc * 16 + ·)) 0).map (BitVec.ofNat 64)

def bit? (s : String) : Option Bool :=
  if s == "0" then some false else if s == "1" then some true else none

def b01 (b : Bool) : String := if b then "1" else "0"

/-- the operations of a `seq` request -/
inductive Op where
  | tm | cm | sr | cr | im | ir | cv | se | k | rv
  | installFwd (a : Word)
  | tryFwd (expectedVtblptr newAddress : Word)
  | setup (vtblptr : Word) (m r : Bool)

def parseOp (t : String) : Option Op :=
  match t.splitOn ":" with
  | ["tm"] => some .tm
  | ["cm"] => some .cm
  | ["sr"] => some .sr
  | ["cr"] => some .cr
  | ["im"] => some .im
  | ["ir"] => some .ir
  | ["cv"] => some .cv
  | ["se"] => some .se
  | ["k"] => some .k
  | ["rv"] => some .rv
  | ["if", a] => (unhex? a).map .installFwd
  | ["tf", e, n] => do some (.tryFwd (← unhex? e) (← unhex? n))
  | ["su", v, m, r] => do some (.setup (← unhex? v) (← bit? m) (← bit? r))
  | _ => none

/-- one operation on the word `w` (no interference): (response token, word afterwards) -/
def applyOp (w base : Word) : Op → Except String (String × Word)
  | .tm => let r := tryMark w; pure (b01 r.1, r.2)
  | .cm => pure ("-", clearMark w)
  | .sr => pure ("-", setRemembered w)
  | .cr => pure ("-", clearRemembered w)
  | .im => pure (b01 (isMarked w), w)
  | .ir => pure (b01 (isRemembered w), w)
  | .cv => pure (hex (compressedVtblptr w), w)
  | .se => pure (hex (sentinel w), w)
  | .k => do
    match ← vtblptrOrFwdptr w base with
    | .vtblptr a => pure ("v:" ++ hex a, w)
    | .fwdptr a => pure ("f:" ++ hex a, w)
  | .rv => do pure (hex (← rawVtblptr w base), w)
  | .installFwd a => pure ("-", installFwdptr a)
  | .tryFwd e n => do
    let o ← tryInstallFwdptr1 w e base n
    match o.result with
    | .forwarded => pure ("ok", o.word)
    | .alreadyForwarded a => pure ("al:" ++ hex a, o.word)
  | .setup v m r => do pure ("-", ← setup w v base m r)

def applyOps (w base : Word) : List Op → Except String (List String × Word)
  | [] => pure ([], w)
  | op :: rest => do
    let (t, w') ← applyOp w base op
    let (ts, w'') ← applyOps w' base rest
    pure (t :: ts, w'')

def panicStr : String := "!panic"

/-- a single operation, formatted by `fmt token newWord` -/
def single (w base : Word) (op : Op) (fmt : String → Word → String) : String :=
  match applyOp w base op with
  | .ok (t, w') => fmt t w'
  | .error _ => panicStr

def parseEvent (t : String) : Option (Word × Bool) :=
  match t.splitOn ":" with
  | [a, s] => do some (← unhex? a, ← bit? s)
  | _ => none

def badreq : String := "!badreq"

/-- answer one request line -/
def respond (line : String) : String :=
  match line.trimAscii.toString.splitOn " " with
  | ["consts"] =>
    " ".intercalate [hex FWDPTR_BIT, hex (BitVec.ofNat 64 METADATA_OFFSET), hex (BitVec.ofNat 64 MARK_BIT_SHIFT),
      hex MARK_BIT, hex (BitVec.ofNat 64 REMEMBERED_BIT_SHIFT), hex REMEMBERED_BIT]
  | ["compute", v, b, m, r] =>
    match unhex? v, unhex? b, bit? m, bit? r with
    | some v, some b, some m, some r =>
      match computeWord v b m r with
      | .ok w => hex w
      | .error _ => panicStr
    | _, _, _, _ => badreq
  | ["kind", w, b] =>
    match unhex? w, unhex? b with
    | some w, some b => single w b .k fun t _ => t.replace ":" " "
    | _, _ => badreq
  | ["rawvtbl", w, b] =>
    match unhex? w, unhex? b with
    | some w, some b => single w b .rv fun t _ => t
    | _, _ => badreq
  | ["installfwd", w, a] =>
    match unhex? w, unhex? a with
    | some w, some a => single w 0 (.installFwd a) fun _ w' => hex w'
    | _, _ => badreq
  | ["tryfwd", cur, actual, ev, base, na] =>
    match unhex? cur, unhex? actual, unhex? ev, unhex? base, unhex? na with
    | some cur, some actual, some ev, some base, some na =>
      match tryInstallFwdptr cur actual ev base na with
      | .ok o =>
        match o.result with
        | .forwarded => s!"ok {hex o.expected} {hex o.word}"
        | .alreadyForwarded a => s!"already {hex o.expected} {hex a} {hex o.word}"
      | .error _ => panicStr
    | _, _, _, _, _ => badreq
  | ["trymark", w] =>
    match unhex? w with
    | some w => single w 0 .tm fun t w' => s!"{t} {hex w'}"
    | none => badreq
  | "trymarkx" :: w :: evs =>
    match unhex? w, evs.mapM parseEvent with
    | some w, some evs =>
      let r := tryMarkLoop w evs
      s!"{b01 r.claimed} {hex r.word} {hex (BitVec.ofNat 64 r.attempts)}"
    | _, _ => badreq
  | ["clearmark", w] => match unhex? w with
    | some w => single w 0 .cm fun _ w' => hex w'
    | none => badreq
  | ["setrem", w] => match unhex? w with
    | some w => single w 0 .sr fun _ w' => hex w'
    | none => badreq
  | ["clearrem", w] => match unhex? w with
    | some w => single w 0 .cr fun _ w' => hex w'
    | none => badreq
  | ["ismarked", w] => match unhex? w with
    | some w => single w 0 .im fun t _ => t
    | none => badreq
  | ["isrem", w] => match unhex? w with
    | some w => single w 0 .ir fun t _ => t
    | none => badreq
  | ["cvtbl", w] => match unhex? w with
    | some w => single w 0 .cv fun t _ => t
    | none => badreq
  | ["sentinel", w] => match unhex? w with
    | some w => single w 0 .se fun t _ => t
    | none => badreq
  | "seq" :: w :: base :: ops =>
    match unhex? w, unhex? base, ops.mapM parseOp with
    | some w, some base, some ops =>
      match applyOps w base ops with
      | .ok (ts, w') => " ".intercalate (ts ++ ["= " ++ hex w'])
      | .error _ => panicStr
    | _, _, _ => badreq
  | _ => badreq

end DoraModel.Gc.HeaderDriver
