import DoraModel.Gc.Heap
/-!
# Soundness of the verification step of the collection validator

`verifyMap pre post φ = true` makes `R a b := φ.lookup a = some b` a *simulation in both directions*
(`Sim`) between the two dumps; a simulation that contains the roots maps reachable objects to
reachable objects (closure argument: induction over `Reach`), and its converse does the same for the
other direction. Distinct values make `R` injective; it is functional by construction.
-/
namespace DoraModel.Gc.Heap

/-- pointwise relation of two lists of equal length (core Lean 4.33 has no `List.Forall₂`) -/
inductive Forall2 {α β : Type} (R : α → β → Prop) : List α → List β → Prop
  | nil : Forall2 R [] []
  | cons {a : α} {b : β} {as : List α} {bs : List β} : R a b → Forall2 R as bs → Forall2 R (a :: as) (b :: bs)

/-- two references correspond under `R`: both null, or both non-null and related -/
def RefRel (R : Nat → Nat → Prop) (c c' : Nat) : Prop := (c = 0 ∧ c' = 0) ∨ (c ≠ 0 ∧ c' ≠ 0 ∧ R c c')

/-- two root slots correspond: same interior offset, corresponding base references -/
def RootRel (R : Nat → Nat → Prop) (r r' : Root) : Prop := r.off = r'.off ∧ RefRel R r.base r'.base

/-- two object records correspond: same shape, size, payload hash; reference fields correspond in order -/
def ObjRel (R : Nat → Nat → Prop) (oa ob : Obj) : Prop :=
  oa.shape = ob.shape ∧ oa.size = ob.size ∧ oa.hash = ob.hash ∧ Forall2 (RefRel R) oa.refs ob.refs

/-- `R` relates the roots pairwise and every related pair consists of two existing, corresponding objects -/
structure Sim (pre post : Heap) (R : Nat → Nat → Prop) : Prop where
  roots : Forall2 (RootRel R) pre.roots post.roots
  objs : ∀ a b, R a b → ∃ oa ob, pre.find a = some oa ∧ post.find b = some ob ∧ ObjRel R oa ob

/-! ### small list facts -/

theorem forall2_imp {α β : Type} {P Q : α → β → Prop} (hpq : ∀ a b, P a b → Q a b) :
    ∀ {xs : List α} {ys : List β}, Forall2 P xs ys → Forall2 Q xs ys
  | _, _, .nil => .nil
  | _, _, .cons h t => .cons (hpq _ _ h) (forall2_imp hpq t)

theorem forall2_flip {α β : Type} {P : α → β → Prop} :
    ∀ {xs : List α} {ys : List β}, Forall2 P xs ys → Forall2 (fun b a => P a b) ys xs
  | _, _, .nil => .nil
  | _, _, .cons h t => .cons h (forall2_flip t)

theorem forall2_mem_left {α β : Type} {P : α → β → Prop} :
    ∀ {xs : List α} {ys : List β}, Forall2 P xs ys → ∀ {x}, x ∈ xs → ∃ y, y ∈ ys ∧ P x y
  | _, _, .nil, _, hx => by cases hx
  | _, _, .cons (a := a) (b := b) h t, x, hx => by
    rcases List.mem_cons.mp hx with rfl | hx
    · exact ⟨b, List.mem_cons_self, h⟩
    · obtain ⟨y, hy, hp⟩ := forall2_mem_left t hx
      exact ⟨y, List.mem_cons_of_mem _ hy, hp⟩

theorem forall2_length {α β : Type} {P : α → β → Prop} :
    ∀ {xs : List α} {ys : List β}, Forall2 P xs ys → xs.length = ys.length
  | _, _, .nil => rfl
  | _, _, .cons _ t => by simp [forall2_length t]

theorem all2_forall2 {α β : Type} (p : α → β → Bool) :
    ∀ (xs : List α) (ys : List β), all2 p xs ys = true → Forall2 (fun a b => p a b = true) xs ys
  | [], [], _ => .nil
  | [], _ :: _, h => by simp [all2] at h
  | _ :: _, [], h => by simp [all2] at h
  | a :: as, b :: bs, h => by
    simp only [all2, Bool.and_eq_true] at h
    exact .cons h.1 (all2_forall2 p as bs h.2)

theorem lookup_mem : ∀ (φ : List (Nat × Nat)) (a b : Nat), φ.lookup a = some b → (a, b) ∈ φ
  | [], _, _, h => by simp [List.lookup] at h
  | (k, v) :: ps, a, b, h => by
    by_cases hk : a = k
    · subst hk
      simp [List.lookup] at h
      subst h
      exact List.mem_cons_self
    · have : (a == k) = false := by simpa using hk
      simp only [List.lookup, this] at h
      exact List.mem_cons_of_mem _ (lookup_mem ps a b h)

theorem distinct_nodup : ∀ (l : List Nat), distinct l = true → l.Nodup
  | [], _ => List.nodup_nil
  | a :: as, h => by
    simp only [distinct, Bool.and_eq_true, Bool.not_eq_true', List.contains_eq_mem, decide_eq_false_iff_not] at h
    exact List.nodup_cons.mpr ⟨h.1, distinct_nodup as h.2⟩

theorem snd_inj_of_nodup : ∀ (φ : List (Nat × Nat)), (φ.map Prod.snd).Nodup →
    ∀ a a' b, (a, b) ∈ φ → (a', b) ∈ φ → a = a'
  | [], _, _, _, _, h, _ => by cases h
  | p :: ps, hn, a, a', b, h1, h2 => by
    simp only [List.map_cons, List.nodup_cons] at hn
    rcases List.mem_cons.mp h1 with e1 | m1 <;> rcases List.mem_cons.mp h2 with e2 | m2
    · rw [← e1] at e2; exact (Prod.mk.inj e2).1.symm
    · exfalso
      apply hn.1
      have : b ∈ ps.map Prod.snd := List.mem_map.mpr ⟨(a', b), m2, rfl⟩
      rw [← e1]; exact this
    · exfalso
      apply hn.1
      have : b ∈ ps.map Prod.snd := List.mem_map.mpr ⟨(a, b), m1, rfl⟩
      rw [← e2]; exact this
    · exact snd_inj_of_nodup ps hn.2 a a' b m1 m2

/-! ### from the Boolean checks to `Sim` -/

/-- the relation denoted by a renaming list -/
def RelOf (φ : List (Nat × Nat)) (a b : Nat) : Prop := φ.lookup a = some b

theorem refOk_sound (φ : List (Nat × Nat)) (c c' : Nat) (h : refOk φ c c' = true) : RefRel (RelOf φ) c c' := by
  simp only [refOk, related, Bool.or_eq_true, Bool.and_eq_true, beq_iff_eq, bne_iff_ne, ne_eq] at h
  rcases h with ⟨h1, h2⟩ | ⟨⟨h1, h2⟩, h3⟩
  · exact Or.inl ⟨h1, h2⟩
  · exact Or.inr ⟨h1, h2, h3⟩

theorem rootOk_sound (φ : List (Nat × Nat)) (r r' : Root) (h : rootOk φ r r' = true) : RootRel (RelOf φ) r r' := by
  simp only [rootOk, Bool.and_eq_true, beq_iff_eq] at h
  exact ⟨h.1, refOk_sound φ _ _ h.2⟩

theorem pairOk_sound (pre post : Heap) (φ : List (Nat × Nat)) (a b : Nat) (h : pairOk pre post φ (a, b) = true) :
    a ≠ 0 ∧ b ≠ 0 ∧ ∃ oa ob, pre.find a = some oa ∧ post.find b = some ob ∧ ObjRel (RelOf φ) oa ob := by
  unfold pairOk at h
  cases hpa : pre.find a with
  | none => simp [hpa] at h
  | some oa =>
    cases hpb : post.find b with
    | none => simp [hpa, hpb] at h
    | some ob =>
      simp only [hpa, hpb, Bool.and_eq_true, beq_iff_eq, bne_iff_ne, ne_eq] at h
      obtain ⟨⟨⟨⟨⟨ha, hb⟩, hs⟩, hz⟩, hh⟩, hr⟩ := h
      exact ⟨ha, hb, oa, ob, rfl, rfl, hs, hz, hh,
        forall2_imp (fun c c' hc => refOk_sound φ c c' hc) (all2_forall2 _ _ _ hr)⟩

theorem verifyMap_sim (pre post : Heap) (φ : List (Nat × Nat)) (h : verifyMap pre post φ = true) :
    Sim pre post (RelOf φ) := by
  simp only [verifyMap, Bool.and_eq_true] at h
  obtain ⟨⟨⟨_, _⟩, hroots⟩, hall⟩ := h
  constructor
  · exact forall2_imp (fun r r' hr => rootOk_sound φ r r' hr) (all2_forall2 _ _ _ hroots)
  · intro a b hab
    have hm : (a, b) ∈ φ := lookup_mem φ a b hab
    have hp := List.all_eq_true.mp hall (a, b) hm
    exact (pairOk_sound pre post φ a b hp).2.2

theorem verifyMap_injective (pre post : Heap) (φ : List (Nat × Nat)) (h : verifyMap pre post φ = true) :
    ∀ a a' b, RelOf φ a b → RelOf φ a' b → a = a' := by
  simp only [verifyMap, Bool.and_eq_true] at h
  obtain ⟨⟨⟨_, hd⟩, _⟩, _⟩ := h
  intro a a' b h1 h2
  exact snd_inj_of_nodup φ (distinct_nodup _ hd) a a' b (lookup_mem φ a b h1) (lookup_mem φ a' b h2)

theorem relOf_functional (φ : List (Nat × Nat)) : ∀ a b b', RelOf φ a b → RelOf φ a b' → b = b' := by
  intro a b b' h1 h2
  unfold RelOf at h1 h2
  rw [h1] at h2
  exact Option.some.inj h2

/-! ### the closure argument -/

theorem RefRel.flip {R : Nat → Nat → Prop} {c c' : Nat} (h : RefRel R c c') : RefRel (fun b a => R a b) c' c := by
  rcases h with ⟨h1, h2⟩ | ⟨h1, h2, h3⟩
  · exact Or.inl ⟨h2, h1⟩
  · exact Or.inr ⟨h2, h1, h3⟩

theorem Sim.flip {pre post : Heap} {R : Nat → Nat → Prop} (s : Sim pre post R) : Sim post pre (fun b a => R a b) := by
  constructor
  · exact forall2_imp (fun r' r (hr : RootRel R r r') => ⟨hr.1.symm, hr.2.flip⟩) (forall2_flip s.roots)
  · intro b a hab
    obtain ⟨oa, ob, h1, h2, hs, hz, hh, hr⟩ := s.objs a b hab
    exact ⟨ob, oa, h2, h1, hs.symm, hz.symm, hh.symm,
      forall2_imp (fun c' c (hc : RefRel R c c') => hc.flip) (forall2_flip hr)⟩

/-- roots ⊆ dom R and dom R closed under children ⇒ every reachable object has a reachable image -/
theorem Sim.forward {pre post : Heap} {R : Nat → Nat → Prop} (s : Sim pre post R) :
    ∀ {a : Nat}, Reach pre a → ∃ b, R a b ∧ Reach post b := by
  intro a ha
  induction ha with
  | root hr h0 =>
    obtain ⟨r', hr', _, hrel⟩ := forall2_mem_left s.roots hr
    rcases hrel with ⟨hz, _⟩ | ⟨_, hnz, hR⟩
    · exact absurd hz h0
    · exact ⟨r'.base, hR, Reach.root hr' hnz⟩
  | step _ hfind hc hc0 ih =>
    obtain ⟨b, hab, hb⟩ := ih
    obtain ⟨oa, ob, h1, h2, _, _, _, hrefs⟩ := s.objs _ _ hab
    rw [hfind] at h1
    cases h1
    obtain ⟨c', hc', hrel⟩ := forall2_mem_left hrefs hc
    rcases hrel with ⟨hz, _⟩ | ⟨_, hnz, hR⟩
    · exact absurd hz hc0
    · exact ⟨c', hR, Reach.step hb h2 hc' hnz⟩

end DoraModel.Gc.Heap
