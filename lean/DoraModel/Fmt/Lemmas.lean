import DoraModel.Fmt.Spec
/-!
Helper lemmas for C17: loop invariants of `renderLoop` / `fitsLoop`.  Core Lean only.
-/
namespace Dora.Fmt

/-! ### sizes (termination measure) -/

theorem Doc.size_pos (d : Doc) : 1 ≤ d.size := by
  cases d <;> simp [Doc.size] <;> omega

theorem stackSize_pushChildren (i : Nat) (m : Mode) (cs : List Doc) (rest : Stack) :
    stackSize (pushChildren i m cs rest) = Doc.sizeList cs + stackSize rest := by
  induction cs with
  | nil => simp [pushChildren, Doc.sizeList]
  | cons c cs ih =>
    simp only [pushChildren, List.map_cons, List.cons_append, stackSize, Doc.sizeList] at ih ⊢
    omega

theorem fitsLoop_total : ∀ (fuel : Nat) (rem : Int) (stack : Stack), stackSize stack ≤ fuel →
    ∃ b, fitsLoop fuel rem stack = some b := by
  intro fuel
  induction fuel with
  | zero =>
    intro rem stack h
    cases stack with
    | nil => exact ⟨decide (0 ≤ rem), by simp [fitsLoop]⟩
    | cons it rest =>
      obtain ⟨i, m, d⟩ := it
      have := Doc.size_pos d
      simp only [stackSize] at h
      omega
  | succ fuel ih =>
    intro rem stack h
    cases stack with
    | nil => exact ⟨decide (0 ≤ rem), by simp [fitsLoop]⟩
    | cons it rest =>
      obtain ⟨i, m, d⟩ := it
      simp only [stackSize] at h
      by_cases hr : rem < 0
      · exact ⟨false, by simp [fitsLoop, hr]⟩
      · cases d with
        | concat cs =>
          have h2 : stackSize (pushChildren i m cs rest) ≤ fuel := by
            rw [stackSize_pushChildren]; simp only [Doc.size] at h; omega
          obtain ⟨b, hb⟩ := ih rem _ h2
          exact ⟨b, by simp [fitsLoop, hr, hb]⟩
        | nest n d =>
          have h2 : stackSize ((i + n, m, d) :: rest) ≤ fuel := by
            simp only [stackSize]; simp only [Doc.size] at h; omega
          obtain ⟨b, hb⟩ := ih rem _ h2
          exact ⟨b, by simp [fitsLoop, hr, hb]⟩
        | group d =>
          have h2 : stackSize ((i, Mode.flat, d) :: rest) ≤ fuel := by
            simp only [stackSize]; simp only [Doc.size] at h; omega
          obtain ⟨b, hb⟩ := ih rem _ h2
          exact ⟨b, by simp [fitsLoop, hr, hb]⟩
        | text s =>
          have h2 : stackSize rest ≤ fuel := by simp only [Doc.size] at h; omega
          obtain ⟨b, hb⟩ := ih (rem - s.length) _ h2
          exact ⟨b, by simp [fitsLoop, hr, hb]⟩
        | softLine =>
          have h2 : stackSize rest ≤ fuel := by simp only [Doc.size] at h; omega
          cases m with
          | flat =>
            obtain ⟨b, hb⟩ := ih (rem - 1) _ h2
            exact ⟨b, by simp [fitsLoop, hr, hb]⟩
          | brk => exact ⟨true, by simp [fitsLoop, hr]⟩
        | softBreak =>
          have h2 : stackSize rest ≤ fuel := by simp only [Doc.size] at h; omega
          cases m with
          | flat =>
            obtain ⟨b, hb⟩ := ih rem _ h2
            exact ⟨b, by simp [fitsLoop, hr, hb]⟩
          | brk => exact ⟨true, by simp [fitsLoop, hr]⟩
        | ifBreak d =>
          cases m with
          | flat =>
            have h2 : stackSize rest ≤ fuel := by simp only [Doc.size] at h; omega
            obtain ⟨b, hb⟩ := ih rem _ h2
            exact ⟨b, by simp [fitsLoop, hr, hb]⟩
          | brk =>
            have h2 : stackSize ((i, Mode.brk, d) :: rest) ≤ fuel := by
              simp only [stackSize]; simp only [Doc.size] at h; omega
            obtain ⟨b, hb⟩ := ih rem _ h2
            exact ⟨b, by simp [fitsLoop, hr, hb]⟩
        | hardLine => exact ⟨decide (m = Mode.brk), by simp [fitsLoop, hr]⟩

theorem renderLoop_total : ∀ (fuel : Nat) (r : Render) (stack : Stack), stackSize stack ≤ fuel →
    ∃ r', renderLoop fuel r stack = some r' := by
  intro fuel
  induction fuel with
  | zero =>
    intro r stack h
    cases stack with
    | nil => exact ⟨r, by simp [renderLoop]⟩
    | cons it rest =>
      obtain ⟨i, m, d⟩ := it
      have := Doc.size_pos d
      simp only [stackSize] at h
      omega
  | succ fuel ih =>
    intro r stack h
    cases stack with
    | nil => exact ⟨r, by simp [renderLoop]⟩
    | cons it rest =>
      obtain ⟨i, m, d⟩ := it
      simp only [stackSize] at h
      cases d with
      | concat cs =>
        have h2 : stackSize (pushChildren i m cs rest) ≤ fuel := by
          rw [stackSize_pushChildren]; simp only [Doc.size] at h; omega
        obtain ⟨b, hb⟩ := ih r _ h2
        exact ⟨b, by simp [renderLoop, hb]⟩
      | nest n d =>
        have h2 : stackSize ((i + n, m, d) :: rest) ≤ fuel := by
          simp only [stackSize]; simp only [Doc.size] at h; omega
        obtain ⟨b, hb⟩ := ih r _ h2
        exact ⟨b, by simp [renderLoop, hb]⟩
      | group d =>
        have hf : stackSize ((i, Mode.flat, d) :: rest) ≤ fuel := by
          simp only [stackSize]; simp only [Doc.size] at h; omega
        have hb' : stackSize ((i, Mode.brk, d) :: rest) ≤ fuel := by
          simp only [stackSize]; simp only [Doc.size] at h; omega
        obtain ⟨fb, hfb⟩ := fitsLoop_total fuel
          ((r.lineLength : Int) - ((if r.atLineStart then i else r.col : Nat) : Int)) _ hf
        cases fb with
        | true =>
          obtain ⟨b, hb⟩ := ih r _ hf
          exact ⟨b, by simp [renderLoop, Render.fits, hfb, hb]⟩
        | false =>
          obtain ⟨b, hb⟩ := ih r _ hb'
          exact ⟨b, by simp [renderLoop, Render.fits, hfb, hb]⟩
      | text s =>
        have h2 : stackSize rest ≤ fuel := by simp only [Doc.size] at h; omega
        obtain ⟨b, hb⟩ := ih (r.emitText i s) _ h2
        exact ⟨b, by simp [renderLoop, hb]⟩
      | softLine =>
        have h2 : stackSize rest ≤ fuel := by simp only [Doc.size] at h; omega
        cases m with
        | flat =>
          obtain ⟨b, hb⟩ := ih (r.emitText i [' ']) _ h2
          exact ⟨b, by simp [renderLoop, hb]⟩
        | brk =>
          obtain ⟨b, hb⟩ := ih r.emitNewline _ h2
          exact ⟨b, by simp [renderLoop, hb]⟩
      | softBreak =>
        have h2 : stackSize rest ≤ fuel := by simp only [Doc.size] at h; omega
        cases m with
        | flat =>
          obtain ⟨b, hb⟩ := ih r _ h2
          exact ⟨b, by simp [renderLoop, hb]⟩
        | brk =>
          obtain ⟨b, hb⟩ := ih r.emitNewline _ h2
          exact ⟨b, by simp [renderLoop, hb]⟩
      | ifBreak d =>
        cases m with
        | flat =>
          have h2 : stackSize rest ≤ fuel := by simp only [Doc.size] at h; omega
          obtain ⟨b, hb⟩ := ih r _ h2
          exact ⟨b, by simp [renderLoop, hb]⟩
        | brk =>
          have h2 : stackSize ((i, Mode.brk, d) :: rest) ≤ fuel := by
            simp only [stackSize]; simp only [Doc.size] at h; omega
          obtain ⟨b, hb⟩ := ih r _ h2
          exact ⟨b, by simp [renderLoop, hb]⟩
      | hardLine =>
        have h2 : stackSize rest ≤ fuel := by simp only [Doc.size] at h; omega
        obtain ⟨b, hb⟩ := ih r.emitNewline _ h2
        exact ⟨b, by simp [renderLoop, hb]⟩

/-! ### non-layout characters -/

theorem nonLayout_append (a b : List Char) : nonLayout (a ++ b) = nonLayout a ++ nonLayout b := by
  simp [nonLayout]

theorem nonLayout_reverse (a : List Char) : nonLayout a.reverse = (nonLayout a).reverse := by
  simp [nonLayout, List.filter_reverse]

theorem nonLayout_replicate_space (n : Nat) : nonLayout (List.replicate n ' ') = [] := by
  induction n with
  | zero => simp [nonLayout]
  | succ n ih =>
    rw [List.replicate_succ]
    simp only [nonLayout, List.filter] at ih ⊢
    simp [isLayout]

theorem nonLayout_dropWhile_space (l : List Char) :
    nonLayout (l.dropWhile (· == ' ')) = nonLayout l := by
  induction l with
  | nil => rfl
  | cons c l ih =>
    by_cases hc : c = ' '
    · subst hc
      simp only [List.dropWhile_cons, beq_self_eq_true, if_true]
      rw [ih]
      simp [nonLayout, isLayout]
    · have : (c == ' ') = false := by simp [hc]
      simp [this]

/-- text written so far, in reading order -/
def Render.written (r : Render) : List Char := r.out.reverse

theorem written_emitNewline (r : Render) :
    nonLayout r.emitNewline.written = nonLayout r.written := by
  simp only [Render.written, Render.emitNewline, List.reverse_cons, nonLayout_append, nonLayout_reverse,
    nonLayout_dropWhile_space]
  simp [nonLayout, isLayout]

theorem written_ensureIndent (r : Render) (i : Nat) :
    nonLayout (r.ensureIndent i).written = nonLayout r.written := by
  unfold Render.ensureIndent
  by_cases h : r.atLineStart
  · simp only [h, if_true, Render.written, List.reverse_append, nonLayout_append, nonLayout_reverse,
      nonLayout_replicate_space]
    simp
  · simp [h]

theorem written_emitText (r : Render) (i : Nat) (s : List Char) :
    nonLayout (r.emitText i s).written = nonLayout r.written ++ nonLayout s := by
  have h := written_ensureIndent r i
  simp only [Render.written] at h
  simp only [Render.emitText, Render.written, List.reverse_append, List.reverse_reverse, nonLayout_append, h]

/-! ### atoms of a stack -/

theorem stackAtoms_pushChildren (i : Nat) (m : Mode) (cs : List Doc) (rest : Stack) (l : List Char)
    (h : StackAtoms (pushChildren i m cs rest) l) :
    ∃ l1 l2, l = l1 ++ l2 ∧ DocsAtoms m cs l1 ∧ StackAtoms rest l2 := by
  induction cs generalizing l with
  | nil => exact ⟨[], l, rfl, DocsAtoms.nil m, by simpa [pushChildren] using h⟩
  | cons c cs ih =>
    simp only [pushChildren, List.map_cons, List.cons_append] at h
    cases h with
    | cons _ _ _ _ la lb ha hb =>
      obtain ⟨l1, l2, e, hd, hs⟩ := ih lb hb
      exact ⟨la ++ l1, l2, by rw [e, List.append_assoc], DocsAtoms.cons m c cs la l1 ha hd, hs⟩

/-- Loop invariant of `render_node`: whatever the loop still writes is, up to layout characters, an atom
sequence of the work stack. -/
theorem renderLoop_atoms : ∀ (fuel : Nat) (r : Render) (stack : Stack) (r' : Render),
    renderLoop fuel r stack = some r' →
    ∃ l, StackAtoms stack l ∧ nonLayout r'.written = nonLayout r.written ++ nonLayout l := by
  intro fuel
  induction fuel with
  | zero =>
    intro r stack r' h
    cases stack with
    | nil =>
      simp only [renderLoop, Option.some.injEq] at h
      subst h
      exact ⟨[], StackAtoms.nil, by simp [nonLayout]⟩
    | cons it rest => simp [renderLoop] at h
  | succ fuel ih =>
    intro r stack r' h
    cases stack with
    | nil =>
      simp only [renderLoop, Option.some.injEq] at h
      subst h
      exact ⟨[], StackAtoms.nil, by simp [nonLayout]⟩
    | cons it rest =>
      obtain ⟨i, m, d⟩ := it
      cases d with
      | concat cs =>
        simp only [renderLoop] at h
        obtain ⟨l, hs, he⟩ := ih _ _ _ h
        obtain ⟨l1, l2, e, hd, hr⟩ := stackAtoms_pushChildren i m cs rest l hs
        exact ⟨l1 ++ l2, StackAtoms.cons i m _ rest l1 l2 (DocAtoms.concat m cs l1 hd) hr, by rw [← e]; exact he⟩
      | nest n d =>
        simp only [renderLoop] at h
        obtain ⟨l, hs, he⟩ := ih _ _ _ h
        cases hs with
        | cons _ _ _ _ la lb ha hb =>
          exact ⟨la ++ lb, StackAtoms.cons i m _ rest la lb (DocAtoms.nest m n d la ha) hb, he⟩
      | group d =>
        simp only [renderLoop] at h
        cases hf : r.fits fuel i d rest with
        | none => simp [hf] at h
        | some b =>
          cases b with
          | true =>
            simp only [hf] at h
            obtain ⟨l, hs, he⟩ := ih _ _ _ h
            cases hs with
            | cons _ _ _ _ la lb ha hb =>
              exact ⟨la ++ lb, StackAtoms.cons i m _ rest la lb (DocAtoms.group m .flat d la ha) hb, he⟩
          | false =>
            simp only [hf] at h
            obtain ⟨l, hs, he⟩ := ih _ _ _ h
            cases hs with
            | cons _ _ _ _ la lb ha hb =>
              exact ⟨la ++ lb, StackAtoms.cons i m _ rest la lb (DocAtoms.group m .brk d la ha) hb, he⟩
      | text s =>
        simp only [renderLoop] at h
        obtain ⟨l, hs, he⟩ := ih _ _ _ h
        refine ⟨s ++ l, StackAtoms.cons i m _ rest s l (DocAtoms.text m s) hs, ?_⟩
        rw [he, written_emitText, nonLayout_append, List.append_assoc]
      | softLine =>
        cases m with
        | flat =>
          simp only [renderLoop] at h
          obtain ⟨l, hs, he⟩ := ih _ _ _ h
          refine ⟨[] ++ l, StackAtoms.cons i .flat _ rest [] l (DocAtoms.softLine .flat) hs, ?_⟩
          rw [he, written_emitText]
          simp [nonLayout, isLayout]
        | brk =>
          simp only [renderLoop] at h
          obtain ⟨l, hs, he⟩ := ih _ _ _ h
          refine ⟨[] ++ l, StackAtoms.cons i .brk _ rest [] l (DocAtoms.softLine .brk) hs, ?_⟩
          rw [he, written_emitNewline]
          simp
      | softBreak =>
        cases m with
        | flat =>
          simp only [renderLoop] at h
          obtain ⟨l, hs, he⟩ := ih _ _ _ h
          exact ⟨[] ++ l, StackAtoms.cons i .flat _ rest [] l (DocAtoms.softBreak .flat) hs, by simpa using he⟩
        | brk =>
          simp only [renderLoop] at h
          obtain ⟨l, hs, he⟩ := ih _ _ _ h
          refine ⟨[] ++ l, StackAtoms.cons i .brk _ rest [] l (DocAtoms.softBreak .brk) hs, ?_⟩
          rw [he, written_emitNewline]
          simp
      | ifBreak d =>
        cases m with
        | flat =>
          simp only [renderLoop] at h
          obtain ⟨l, hs, he⟩ := ih _ _ _ h
          exact ⟨[] ++ l, StackAtoms.cons i .flat _ rest [] l (DocAtoms.ifBreakFlat d) hs, by simpa using he⟩
        | brk =>
          simp only [renderLoop] at h
          obtain ⟨l, hs, he⟩ := ih _ _ _ h
          cases hs with
          | cons _ _ _ _ la lb ha hb =>
            exact ⟨la ++ lb, StackAtoms.cons i .brk _ rest la lb (DocAtoms.ifBreakBrk d la ha) hb, he⟩
      | hardLine =>
        simp only [renderLoop] at h
        obtain ⟨l, hs, he⟩ := ih _ _ _ h
        refine ⟨[] ++ l, StackAtoms.cons i m _ rest [] l (DocAtoms.hardLine m) hs, ?_⟩
        rw [he, written_emitNewline]
        simp

/-! ### no blank in front of a line break -/

theorem okRev_cons (a : Char) (l : List Char) :
    okRev (a :: l) ↔ (a = '\n' → l.head? ≠ some ' ') ∧ okRev l := by
  cases l with
  | nil => simp [okRev]
  | cons b rest =>
    simp only [okRev, List.head?_cons, ne_eq, Option.some.injEq, not_and]

theorem okRev_tail (a : Char) (l : List Char) (h : okRev (a :: l)) : okRev l :=
  ((okRev_cons a l).mp h).2

theorem okRev_append_right (a b : List Char) (h : okRev (a ++ b)) : okRev b := by
  induction a with
  | nil => simpa using h
  | cons c a ih => exact ih (okRev_tail c _ h)

theorem okRev_dropWhile (p : Char → Bool) (l : List Char) (h : okRev l) : okRev (l.dropWhile p) := by
  induction l with
  | nil => simpa using h
  | cons c l ih =>
    simp only [List.dropWhile_cons]
    split
    · exact ih (okRev_tail c l h)
    · exact h

theorem head_dropWhile_space (l : List Char) : (l.dropWhile (· == ' ')).head? ≠ some ' ' := by
  induction l with
  | nil => simp
  | cons c l ih =>
    simp only [List.dropWhile_cons]
    split
    · exact ih
    · rename_i hc
      simp only [List.head?_cons, ne_eq, Option.some.injEq]
      intro e; subst e; simp at hc

theorem okRev_prepend (s l : List Char) (hs : ∀ c ∈ s, c ≠ '\n') (h : okRev l) : okRev (s ++ l) := by
  induction s with
  | nil => simpa using h
  | cons c s ih =>
    have hc : c ≠ '\n' := hs c (by simp)
    have := ih (fun x hx => hs x (by simp [hx]))
    rw [List.cons_append, okRev_cons]
    exact ⟨fun e => absurd e hc, this⟩

theorem okRev_emitNewline (r : Render) (h : okRev r.out) : okRev r.emitNewline.out := by
  simp only [Render.emitNewline]
  rw [okRev_cons]
  exact ⟨fun _ => head_dropWhile_space r.out, okRev_dropWhile _ _ h⟩

theorem okRev_ensureIndent (r : Render) (i : Nat) (h : okRev r.out) : okRev (r.ensureIndent i).out := by
  unfold Render.ensureIndent
  split
  · exact okRev_prepend _ _ (by intro c hc; rw [List.mem_replicate] at hc; rw [hc.2]; decide) h
  · exact h

theorem okRev_emitText (r : Render) (i : Nat) (s : List Char) (hs : '\n' ∉ s) (h : okRev r.out) :
    okRev (r.emitText i s).out := by
  simp only [Render.emitText]
  refine okRev_prepend _ _ ?_ (okRev_ensureIndent r i h)
  intro c hc e
  subst e
  exact hs (List.mem_reverse.mp hc)

theorem stackTexts_pushChildren (i : Nat) (m : Mode) (cs : List Doc) (rest : Stack) :
    stackTexts (pushChildren i m cs rest) = Doc.textsList cs ++ stackTexts rest := by
  induction cs with
  | nil => simp [pushChildren, Doc.textsList]
  | cons c cs ih =>
    simp only [pushChildren, List.map_cons, List.cons_append, stackTexts, Doc.textsList] at ih ⊢
    rw [ih, List.append_assoc]

/-- Loop invariant: if no text on the stack contains a line break, the loop never leaves a blank directly in
front of a line break. -/
theorem renderLoop_okRev : ∀ (fuel : Nat) (r : Render) (stack : Stack) (r' : Render),
    renderLoop fuel r stack = some r' → (∀ s ∈ stackTexts stack, '\n' ∉ s) → okRev r.out → okRev r'.out := by
  intro fuel
  induction fuel with
  | zero =>
    intro r stack r' h _ hok
    cases stack with
    | nil => simp only [renderLoop, Option.some.injEq] at h; subst h; exact hok
    | cons it rest => simp [renderLoop] at h
  | succ fuel ih =>
    intro r stack r' h ht hok
    cases stack with
    | nil => simp only [renderLoop, Option.some.injEq] at h; subst h; exact hok
    | cons it rest =>
      obtain ⟨i, m, d⟩ := it
      have htr : ∀ s ∈ stackTexts rest, '\n' ∉ s := fun s hs => ht s (by simp [stackTexts, hs])
      cases d with
      | concat cs =>
        simp only [renderLoop] at h
        refine ih _ _ _ h ?_ hok
        intro s hs
        rw [stackTexts_pushChildren] at hs
        exact ht s (by simpa [stackTexts, Doc.texts] using hs)
      | nest n d =>
        simp only [renderLoop] at h
        exact ih _ _ _ h (fun s hs => ht s (by simpa [stackTexts, Doc.texts] using hs)) hok
      | group d =>
        simp only [renderLoop] at h
        cases hf : r.fits fuel i d rest with
        | none => simp [hf] at h
        | some b =>
          cases b with
          | true =>
            simp only [hf] at h
            exact ih _ _ _ h (fun s hs => ht s (by simpa [stackTexts, Doc.texts] using hs)) hok
          | false =>
            simp only [hf] at h
            exact ih _ _ _ h (fun s hs => ht s (by simpa [stackTexts, Doc.texts] using hs)) hok
      | text s =>
        simp only [renderLoop] at h
        exact ih _ _ _ h htr (okRev_emitText r i s (ht s (by simp [stackTexts, Doc.texts])) hok)
      | softLine =>
        cases m with
        | flat =>
          simp only [renderLoop] at h
          exact ih _ _ _ h htr (okRev_emitText r i [' '] (by decide) hok)
        | brk =>
          simp only [renderLoop] at h
          exact ih _ _ _ h htr (okRev_emitNewline r hok)
      | softBreak =>
        cases m with
        | flat => simp only [renderLoop] at h; exact ih _ _ _ h htr hok
        | brk => simp only [renderLoop] at h; exact ih _ _ _ h htr (okRev_emitNewline r hok)
      | ifBreak d =>
        cases m with
        | flat => simp only [renderLoop] at h; exact ih _ _ _ h htr hok
        | brk =>
          simp only [renderLoop] at h
          exact ih _ _ _ h (fun s hs => ht s (by simpa [stackTexts, Doc.texts] using hs)) hok
      | hardLine =>
        simp only [renderLoop] at h
        exact ih _ _ _ h htr (okRev_emitNewline r hok)

theorem okRev_no_blank_newline (out : List Char) (h : okRev out) (pre suf : List Char) :
    out.reverse ≠ pre ++ ' ' :: '\n' :: suf := by
  intro e
  have e2 : out = suf.reverse ++ ('\n' :: ' ' :: pre.reverse) := by
    have := congrArg List.reverse e
    simpa using this
  rw [e2] at h
  have h3 := okRev_append_right _ _ h
  simp [okRev] at h3

/-! ### documents without IfBreak -/

mutual
/-- a document without `IfBreak` has exactly one atom sequence: all its texts -/
theorem docAtoms_noIfBreak : ∀ {m : Mode} {d : Doc} {l : List Char},
    DocAtoms m d l → d.hasIfBreak = false → l = d.texts.flatten
  | _, _, _, .text _ _, _ => by simp [Doc.texts]
  | _, _, _, .softLine _, _ => by simp [Doc.texts]
  | _, _, _, .softBreak _, _ => by simp [Doc.texts]
  | _, _, _, .hardLine _, _ => by simp [Doc.texts]
  | _, _, _, .nest _ _ _ _ h, hn => by
    simpa [Doc.texts] using docAtoms_noIfBreak h (by simpa [Doc.hasIfBreak] using hn)
  | _, _, _, .group _ _ _ _ h, hn => by
    simpa [Doc.texts] using docAtoms_noIfBreak h (by simpa [Doc.hasIfBreak] using hn)
  | _, _, _, .ifBreakFlat _, hn => by simp [Doc.hasIfBreak] at hn
  | _, _, _, .ifBreakBrk _ _ _, hn => by simp [Doc.hasIfBreak] at hn
  | _, _, _, .concat _ _ _ h, hn => by
    simpa [Doc.texts] using docsAtoms_noIfBreak h (by simpa [Doc.hasIfBreak] using hn)
theorem docsAtoms_noIfBreak : ∀ {m : Mode} {ds : List Doc} {l : List Char},
    DocsAtoms m ds l → Doc.hasIfBreakList ds = false → l = (Doc.textsList ds).flatten
  | _, _, _, .nil _, _ => by simp [Doc.textsList]
  | _, _, _, .cons _ _ _ _ _ h1 h2, hn => by
    simp only [Doc.hasIfBreakList, Bool.or_eq_false_iff] at hn
    rw [docAtoms_noIfBreak h1 hn.1, docsAtoms_noIfBreak h2 hn.2]
    simp [Doc.textsList]
end

end Dora.Fmt
