/-
Model of dora-format/src/render.rs (C17): the layout document `Doc` (dora-format/src/doc.rs) and the
width-aware renderer, transcribed statement by statement.

* Texts and the output are `List Char` (`SmolStr` / `String`; the renderer only ever counts `chars()`).
* The output buffer `Render.out` is kept REVERSED (head = last character pushed), so that `push`, `pop`
  and `ends_with(' ')` are head operations.
* Rust's `Vec` stacks are lists whose head is the top of the stack (`stack.pop()` = head).
* The two `while` loops become recursion on a fuel argument; running out of fuel is `none`.  `render`
  supplies `Doc.size` as fuel, and `C17.render_total` shows that this is always enough.
* Integer widths: `indent`, `col` are `Nat`, `remaining` is `Int`.  The Rust code computes them in
  `u32` / `usize` / `i32`; model and code agree as long as no such value reaches 2^31
  (line length < 2^31, documents smaller than 2 GiB of text).  Stated as an assumption in the evidence.
-/
namespace Dora.Fmt

/-- `pub enum Doc` (dora-format/src/doc.rs) -/
inductive Doc where
  | concat (children : List Doc)
  | nest (indent : Nat) (doc : Doc)
  | group (doc : Doc)
  | text (text : List Char)
  | softLine
  | softBreak
  | ifBreak (doc : Doc)
  | hardLine

/-- `enum Mode { Flat, Break }` -/
inductive Mode where
  | flat
  | brk
  deriving DecidableEq, Repr

/-- one entry `(indent, mode, doc)` of the work stacks -/
abbrev Item := Nat × Mode × Doc
abbrev Stack := List Item

mutual
/-- number of nodes: the termination measure of both loops -/
def Doc.size : Doc → Nat
  | .concat cs => 1 + Doc.sizeList cs
  | .nest _ d => 1 + d.size
  | .group d => 1 + d.size
  | .text _ => 1
  | .softLine => 1
  | .softBreak => 1
  | .ifBreak d => 1 + d.size
  | .hardLine => 1
def Doc.sizeList : List Doc → Nat
  | [] => 0
  | d :: ds => d.size + Doc.sizeList ds
end

def stackSize : Stack → Nat
  | [] => 0
  | (_, _, d) :: rest => d.size + stackSize rest

/-- `for child in children.iter().rev() { stack.push((indent, mode, child)) }`: afterwards the children are
on top of the stack, first child first. -/
def pushChildren (indent : Nat) (mode : Mode) (cs : List Doc) (rest : Stack) : Stack :=
  cs.map (fun c => (indent, mode, c)) ++ rest

/-- `struct Render` -/
structure Render where
  /-- reversed -/
  out : List Char
  atLineStart : Bool
  col : Nat
  lineLength : Nat

/-- `Render::new` -/
def Render.new (lineLength : Nat) : Render :=
  { out := [], atLineStart := true, col := 0, lineLength := lineLength }

/-- `emit_newline`: `while self.out.ends_with(' ') { self.out.pop(); }` then push `'\n'` -/
def Render.emitNewline (r : Render) : Render :=
  { r with out := '\n' :: r.out.dropWhile (· == ' '), atLineStart := true, col := 0 }

/-- `ensure_indent` -/
def Render.ensureIndent (r : Render) (indent : Nat) : Render :=
  if r.atLineStart then
    { r with out := List.replicate indent ' ' ++ r.out, atLineStart := false, col := indent }
  else r

/-- `emit_text` -/
def Render.emitText (r : Render) (indent : Nat) (s : List Char) : Render :=
  let r := r.ensureIndent indent
  { r with out := s.reverse ++ r.out, col := r.col + s.length }

/-- the `while !stack.is_empty() && remaining >= 0` loop of `fits`, and the final `remaining >= 0` -/
def fitsLoop : Nat → Int → Stack → Option Bool
  | _, rem, [] => some (decide (0 ≤ rem))
  | fuel, rem, (indent, mode, doc) :: rest =>
    if rem < 0 then some false
    else match fuel with
      | 0 => none
      | fuel + 1 =>
        match doc with
        | .concat cs => fitsLoop fuel rem (pushChildren indent mode cs rest)
        | .nest n d => fitsLoop fuel rem ((indent + n, mode, d) :: rest)
        | .group d => fitsLoop fuel rem ((indent, .flat, d) :: rest)
        | .text s => fitsLoop fuel (rem - s.length) rest
        | .softLine =>
          match mode with
          | .flat => fitsLoop fuel (rem - 1) rest
          | .brk => some true
        | .softBreak =>
          match mode with
          | .flat => fitsLoop fuel rem rest
          | .brk => some true
        | .ifBreak d =>
          match mode with
          | .flat => fitsLoop fuel rem rest
          | .brk => fitsLoop fuel rem ((indent, mode, d) :: rest)
        | .hardLine => some (decide (mode = .brk))

/-- `fits(&mut self, indent, doc, current_stack)`; `fuel` bounds the loop -/
def Render.fits (r : Render) (fuel : Nat) (indent : Nat) (d : Doc) (stack : Stack) : Option Bool :=
  let col := if r.atLineStart then indent else r.col
  fitsLoop fuel ((r.lineLength : Int) - (col : Int)) ((indent, Mode.flat, d) :: stack)

/-- the `while let Some((indent, mode, doc)) = stack.pop()` loop of `render_node` -/
def renderLoop : Nat → Render → Stack → Option Render
  | _, r, [] => some r
  | 0, _, _ :: _ => none
  | fuel + 1, r, (indent, mode, doc) :: rest =>
    match doc with
    | .concat cs => renderLoop fuel r (pushChildren indent mode cs rest)
    | .nest n d => renderLoop fuel r ((indent + n, mode, d) :: rest)
    | .group d =>
      match r.fits fuel indent d rest with
      | none => none
      | some true => renderLoop fuel r ((indent, .flat, d) :: rest)
      | some false => renderLoop fuel r ((indent, .brk, d) :: rest)
    | .text s => renderLoop fuel (r.emitText indent s) rest
    | .softLine =>
      match mode with
      | .flat => renderLoop fuel (r.emitText indent [' ']) rest
      | .brk => renderLoop fuel r.emitNewline rest
    | .softBreak =>
      match mode with
      | .flat => renderLoop fuel r rest
      | .brk => renderLoop fuel r.emitNewline rest
    | .ifBreak d =>
      match mode with
      | .flat => renderLoop fuel r rest
      | .brk => renderLoop fuel r ((indent, mode, d) :: rest)
    | .hardLine => renderLoop fuel r.emitNewline rest

/-- `render_doc_with_line_length`: `Render::new`, `render_node(root)` starting from
`vec![(0, Mode::Break, root)]`, `finish`. -/
def render (root : Doc) (lineLength : Nat) : Option (List Char) :=
  (renderLoop root.size (Render.new lineLength) [(0, .brk, root)]).map (fun r => r.out.reverse)

/-- `render_doc` -/
def renderDefault (root : Doc) : Option (List Char) := render root 90

end Dora.Fmt
