import DoraModel.Fmt.Model
/-!
Specification vocabulary for C17 (what the theorems in `Props/C17.lean` talk about).  Core Lean only.
-/
namespace Dora.Fmt

/-- layout characters: the only ones the renderer itself ever inserts or removes -/
def isLayout (c : Char) : Bool := c == ' ' || c == '\n'

/-- a character sequence without its blanks and line breaks -/
def nonLayout (l : List Char) : List Char := l.filter (fun c => !isLayout c)

mutual
/-- `DocAtoms m d l`: `l` is the concatenation, in document order, of the `Text` payloads of `d` when `d` is laid
out in mode `m`, where every `Group` picks its own mode and an `IfBreak` subtree contributes everything it
contains (in `Break` mode) or nothing at all (in `Flat` mode). -/
inductive DocAtoms : Mode → Doc → List Char → Prop
  | text (m : Mode) (s : List Char) : DocAtoms m (.text s) s
  | softLine (m : Mode) : DocAtoms m .softLine []
  | softBreak (m : Mode) : DocAtoms m .softBreak []
  | hardLine (m : Mode) : DocAtoms m .hardLine []
  | nest (m : Mode) (i : Nat) (d : Doc) (l : List Char) : DocAtoms m d l → DocAtoms m (.nest i d) l
  | group (m m' : Mode) (d : Doc) (l : List Char) : DocAtoms m' d l → DocAtoms m (.group d) l
  | ifBreakFlat (d : Doc) : DocAtoms .flat (.ifBreak d) []
  | ifBreakBrk (d : Doc) (l : List Char) : DocAtoms .brk d l → DocAtoms .brk (.ifBreak d) l
  | concat (m : Mode) (cs : List Doc) (l : List Char) : DocsAtoms m cs l → DocAtoms m (.concat cs) l
inductive DocsAtoms : Mode → List Doc → List Char → Prop
  | nil (m : Mode) : DocsAtoms m [] []
  | cons (m : Mode) (d : Doc) (ds : List Doc) (l1 l2 : List Char) :
      DocAtoms m d l1 → DocsAtoms m ds l2 → DocsAtoms m (d :: ds) (l1 ++ l2)
end

/-- the same for a work stack (every entry carries its own mode) -/
inductive StackAtoms : Stack → List Char → Prop
  | nil : StackAtoms [] []
  | cons (i : Nat) (m : Mode) (d : Doc) (rest : Stack) (l1 l2 : List Char) :
      DocAtoms m d l1 → StackAtoms rest l2 → StackAtoms ((i, m, d) :: rest) (l1 ++ l2)

mutual
/-- all `Text` payloads of a document, in order (IfBreak subtrees included) -/
def Doc.texts : Doc → List (List Char)
  | .concat cs => Doc.textsList cs
  | .nest _ d => d.texts
  | .group d => d.texts
  | .text s => [s]
  | .softLine => []
  | .softBreak => []
  | .ifBreak d => d.texts
  | .hardLine => []
def Doc.textsList : List Doc → List (List Char)
  | [] => []
  | d :: ds => d.texts ++ Doc.textsList ds
end

mutual
/-- does the document contain an `IfBreak`? -/
def Doc.hasIfBreak : Doc → Bool
  | .concat cs => Doc.hasIfBreakList cs
  | .nest _ d => d.hasIfBreak
  | .group d => d.hasIfBreak
  | .text _ => false
  | .softLine => false
  | .softBreak => false
  | .ifBreak _ => true
  | .hardLine => false
def Doc.hasIfBreakList : List Doc → Bool
  | [] => false
  | d :: ds => d.hasIfBreak || Doc.hasIfBreakList ds
end

def stackTexts : Stack → List (List Char)
  | [] => []
  | (_, _, d) :: rest => d.texts ++ stackTexts rest

/-- on the REVERSED output buffer: no line break is directly preceded (in reading order) by a blank -/
def okRev : List Char → Prop
  | [] => True
  | [_] => True
  | a :: b :: rest => ¬(a = '\n' ∧ b = ' ') ∧ okRev (b :: rest)

end Dora.Fmt
