import DoraModel.X64.Lemmas
/-!
# C07 — label resolution in general: the four jump methods and `resolve_jumps` on an arbitrary script

Part 1 (this file): what each regenerated jump method (`jmp`, `jcc`, `jmp_near`, `jcc_near`), `bind_label` and the raw
byte emitter do to an assembler whose write position is at the end of the buffer, as closed-form step functions
(`farStep`, `nearStep`, `bindStep`), proved equal to the regenerated definitions of `DoraModel/Gen/X64.lean`.
-/
namespace Dora.X64
open Dora.X64.Dec

/-! ## state combinators -/

/-- state after appending `bs` (position at the end) -/
def Asm.app (s : Asm) (bs : Bytes) : Asm := { s with code := s.code ++ bs, position := s.code.length + bs.length }
/-- state after `unresolved_jumps.push(j)` -/
def Asm.pushJ (s : Asm) (j : ForwardJump) : Asm := { s with unresolved_jumps := s.unresolved_jumps ++ [j] }

@[simp] theorem Asm.app_position (s : Asm) (bs : Bytes) : (s.app bs).position = s.code.length + bs.length := rfl
@[simp] theorem Asm.app_code (s : Asm) (bs : Bytes) : (s.app bs).code = s.code ++ bs := rfl
@[simp] theorem Asm.app_labels (s : Asm) (bs : Bytes) : (s.app bs).labels = s.labels := rfl
@[simp] theorem Asm.app_uj (s : Asm) (bs : Bytes) : (s.app bs).unresolved_jumps = s.unresolved_jumps := rfl
@[simp] theorem Asm.app_avx (s : Asm) (bs : Bytes) : (s.app bs).has_avx2 = s.has_avx2 := rfl
@[simp] theorem Asm.pushJ_position (s : Asm) (j : ForwardJump) : (s.pushJ j).position = s.position := rfl
@[simp] theorem Asm.pushJ_code (s : Asm) (j : ForwardJump) : (s.pushJ j).code = s.code := rfl
@[simp] theorem Asm.pushJ_labels (s : Asm) (j : ForwardJump) : (s.pushJ j).labels = s.labels := rfl
@[simp] theorem Asm.pushJ_uj (s : Asm) (j : ForwardJump) : (s.pushJ j).unresolved_jumps = s.unresolved_jumps ++ [j] := rfl
@[simp] theorem Asm.pushJ_avx (s : Asm) (j : ForwardJump) : (s.pushJ j).has_avx2 = s.has_avx2 := rfl

theorem Asm.app_app (s : Asm) (a b : Bytes) : (s.app a).app b = s.app (a ++ b) := by
  simp [Asm.app, Nat.add_assoc]

/-! ## the primitives applied to a state -/

theorem emitBytes_eq (bs : Bytes) (s : Asm) (h : s.position = s.code.length) :
    Buf.emitBytes bs s = .ok ((), s.app bs) := by
  simp [Buf.emitBytes, h, Asm.app]

theorem emit_u8_if (b : UInt8) (s : Asm) :
    emit_u8 b s = if s.position = s.code.length then .ok ((), s.app [b]) else Buf.emitBytes [b] s := by
  split
  · next h => exact emitBytes_eq [b] s h
  · rfl

theorem emit_u32_if (v : UInt32) (s : Asm) :
    emit_u32 v s = if s.position = s.code.length then .ok ((), s.app (Buf.le32 v)) else Buf.emitBytes (Buf.le32 v) s := by
  split
  · next h => exact emitBytes_eq _ s h
  · rfl

theorem position_eq (s : Asm) : position s = .ok (s.position, s) := rfl
theorem push_jump_eq (j : ForwardJump) (s : Asm) : Buf.push_jump j s = .ok ((), s.pushJ j) := rfl
theorem toU32_eq (n : Nat) (s : Asm) :
    (toU32 n : X64 UInt32) s = if n < 4294967296 then .ok (UInt32.ofNat n, s) else .error "try_into: out of range" := by
  unfold toU32; split <;> rfl
theorem rassert_eq (c : Bool) (msg : String) (s : Asm) :
    (rassert c msg : X64 Unit) s = if c then .ok ((), s) else .error msg := by
  unfold rassert; cases c <;> rfl
theorem usub_eq (a b : Nat) (s : Asm) :
    (usub a b : X64 Nat) s = if b ≤ a then .ok (a - b, s) else .error "attempt to subtract with overflow" := by
  unfold usub; split <;> rfl

theorem le32_zero : Buf.le32 0 = [0, 0, 0, 0] := by decide

/-! ## closed forms of the jump methods -/

/-- `jmp` / `jcc`: `sopc` = rel8 opcode, `lopc` = rel32 opcode bytes.
Label already bound at `q ≤ position`: the rel8 form iff `position + 2 - q ≤ 128`, else the rel32 form, displacement
computed at once. Label not bound: the rel32 form with a zero field, recorded as a `Far` forward jump. -/
def farStep (sopc : UInt8) (lopc : Bytes) (l : Nat) (s : Asm) : Except String (Unit × Asm) :=
  match s.labels[l]? with
  | none => .error "index out of bounds"
  | some none =>
    if s.code.length + lopc.length < 4294967296 then
      .ok ((), ((s.app lopc).pushJ ⟨UInt32.ofNat (s.code.length + lopc.length), ⟨l⟩, .Far⟩).app [0, 0, 0, 0])
    else .error "try_into: out of range"
  | some (some q) =>
    if q.toNat ≤ s.code.length then
      if s.code.length + 2 - q.toNat ≤ 128 then
        .ok ((), s.app [sopc, UInt8.ofInt (-((s.code.length + 2 - q.toNat : Nat) : Int))])
      else
        .ok ((), s.app (lopc ++ Buf.le32 (UInt32.ofInt (-((s.code.length + (lopc.length + 4) - q.toNat : Nat) : Int)))))
    else .error "assert failed"

/-- `jmp_near` / `jcc_near`: always the rel8 form; a bound label further than 128 bytes behind the end of the
instruction is refused. -/
def nearStep (sopc : UInt8) (l : Nat) (s : Asm) : Except String (Unit × Asm) :=
  match s.labels[l]? with
  | none => .error "index out of bounds"
  | some none =>
    if s.code.length + 1 < 4294967296 then
      .ok ((), ((s.app [sopc]).pushJ ⟨UInt32.ofNat (s.code.length + 1), ⟨l⟩, .Near⟩).app [0])
    else .error "try_into: out of range"
  | some (some q) =>
    if q.toNat ≤ s.code.length then
      if s.code.length + 2 - q.toNat ≤ 128 then
        .ok ((), s.app [sopc, UInt8.ofInt (-((s.code.length + 2 - q.toNat : Nat) : Int))])
      else .error "assert failed"
    else .error "assert failed"

/-- `bind_label` -/
def bindStep (l : Nat) (s : Asm) : Except String (Unit × Asm) :=
  match s.labels[l]? with
  | none => .error "index out of bounds"
  | some (some _) => .error "assertion failed: self.labels[idx].is_none()"
  | some none =>
    if s.position < 4294967296 then
      .ok ((), { s with labels := s.labels.set l (some (UInt32.ofNat s.position)) })
    else .error "try_into: out of range"

theorem bind_label_eq (l : Nat) (s : Asm) : (bind_label ⟨l⟩).run s = bindStep l s := rfl

set_option linter.unusedSimpArgs false

/-- one pass of symbolic execution of a method body on a state -/
macro "run_simp " "[" hs:Lean.Parser.Tactic.simpLemma,* "]" : tactic => `(tactic|
  simp only [StateT.bind, bind, Except.bind, emit_u8_if, emit_u32_if, position_eq, push_jump_eq, toU32_eq,
    rassert_eq, usub_eq, RCast.cast, Int.ofNat_eq_natCast,
    Asm.app_position, Asm.app_code, Asm.pushJ_position, Asm.pushJ_code, List.length_append, List.length_cons,
    List.length_nil, if_true, if_false, decide_true, decide_false, Bool.false_eq_true, Asm.app_app, List.cons_append,
    List.nil_append, Nat.zero_add, Nat.add_assoc, Nat.reduceAdd, le32_zero, ge_iff_le, $hs,*])

theorem jmp_eq (l : Nat) (s : Asm) (h : s.position = s.code.length) : (jmp ⟨l⟩).run s = farStep 0xEB [0xE9] l s := by
  unfold farStep
  simp only [jmp, offset, Buf.offset, StateT.run, bind, StateT.bind, Except.bind]
  cases hl : s.labels[l]? with
  | none => rfl
  | some o =>
    cases o with
    | none =>
      simp only []
      by_cases hp : s.code.length + 1 < 4294967296
      · run_simp [h, hp]
      · run_simp [h, hp]
    | some q =>
      simp only []
      by_cases h1 : q.toNat ≤ s.code.length
      · have h2 : q.toNat ≤ s.code.length + 2 := by omega
        have h3 : -((s.code.length + 2 - q.toNat : Nat) : Int) ≤ -2 := by omega
        by_cases h4 : s.code.length + 2 - q.toNat ≤ 128
        · have h5 : -128 ≤ -((s.code.length + 2 - q.toNat : Nat) : Int) := by omega
          run_simp [h, h1, h2, h3, h4, h5]
        · have h5 : ¬ (-128 ≤ -((s.code.length + 2 - q.toNat : Nat) : Int)) := by omega
          have h6 : q.toNat ≤ s.code.length + 5 := by omega
          run_simp [h, h1, h2, h3, h4, h5, h6]
      · run_simp [h, h1]

theorem jcc_eq (c : Condition) (l : Nat) (s : Asm) (h : s.position = s.code.length) :
    (jcc c ⟨l⟩).run s = farStep (0x70 + c.int) [0x0F, 0x80 + c.int] l s := by
  unfold farStep
  simp only [jcc, offset, Buf.offset, StateT.run, bind, StateT.bind, Except.bind]
  cases hl : s.labels[l]? with
  | none => rfl
  | some o =>
    cases o with
    | none =>
      simp only []
      by_cases hp : s.code.length + 2 < 4294967296
      · run_simp [h, hp]
      · run_simp [h, hp]
    | some q =>
      simp only []
      by_cases h1 : q.toNat ≤ s.code.length
      · have h2 : q.toNat ≤ s.code.length + 2 := by omega
        have h3 : -((s.code.length + 2 - q.toNat : Nat) : Int) ≤ -2 := by omega
        by_cases h4 : s.code.length + 2 - q.toNat ≤ 128
        · have h5 : -128 ≤ -((s.code.length + 2 - q.toNat : Nat) : Int) := by omega
          run_simp [h, h1, h2, h3, h4, h5]
        · have h5 : ¬ (-128 ≤ -((s.code.length + 2 - q.toNat : Nat) : Int)) := by omega
          have h6 : q.toNat ≤ s.code.length + 6 := by omega
          run_simp [h, h1, h2, h3, h4, h5, h6]
      · run_simp [h, h1]

theorem jmp_near_eq (l : Nat) (s : Asm) (h : s.position = s.code.length) :
    (jmp_near ⟨l⟩).run s = nearStep 0xEB l s := by
  unfold nearStep
  simp only [jmp_near, offset, Buf.offset, StateT.run, bind, StateT.bind, Except.bind]
  cases hl : s.labels[l]? with
  | none => rfl
  | some o =>
    cases o with
    | none =>
      simp only []
      by_cases hp : s.code.length + 1 < 4294967296
      · run_simp [h, hp]
      · run_simp [h, hp]
    | some q =>
      simp only []
      by_cases h1 : q.toNat ≤ s.code.length
      · have h2 : q.toNat ≤ s.code.length + 2 := by omega
        have h3 : -((s.code.length + 2 - q.toNat : Nat) : Int) ≤ -2 := by omega
        by_cases h4 : s.code.length + 2 - q.toNat ≤ 128
        · have h5 : -128 ≤ -((s.code.length + 2 - q.toNat : Nat) : Int) := by omega
          run_simp [h, h1, h2, h3, h4, h5, Bool.and_self]
        · have h5 : ¬ (-128 ≤ -((s.code.length + 2 - q.toNat : Nat) : Int)) := by omega
          run_simp [h, h1, h2, h3, h4, h5, Bool.false_and]
      · run_simp [h, h1]

theorem jcc_near_eq (c : Condition) (l : Nat) (s : Asm) (h : s.position = s.code.length) :
    (jcc_near c ⟨l⟩).run s = nearStep (0x70 + c.int) l s := by
  unfold nearStep
  simp only [jcc_near, offset, Buf.offset, StateT.run, bind, StateT.bind, Except.bind]
  cases hl : s.labels[l]? with
  | none => rfl
  | some o =>
    cases o with
    | none =>
      simp only []
      by_cases hp : s.code.length + 1 < 4294967296
      · run_simp [h, hp]
      · run_simp [h, hp]
    | some q =>
      simp only []
      by_cases h1 : q.toNat ≤ s.code.length
      · have h2 : q.toNat ≤ s.code.length + 2 := by omega
        have h3 : -((s.code.length + 2 - q.toNat : Nat) : Int) ≤ -2 := by omega
        by_cases h4 : s.code.length + 2 - q.toNat ≤ 128
        · have h5 : -128 ≤ -((s.code.length + 2 - q.toNat : Nat) : Int) := by omega
          run_simp [h, h1, h2, h3, h4, h5, Bool.and_self]
        · have h5 : ¬ (-128 ≤ -((s.code.length + 2 - q.toNat : Nat) : Int)) := by omega
          run_simp [h, h1, h2, h3, h4, h5, Bool.false_and]
      · run_simp [h, h1]
