import DoraModel.X64.Check
import Lean
/-!
# C07 — helper lemmas: little-endian / sign-extension round trips, and the `kernel_rfl` tactic
-/
namespace Dora.X64
open Dora.X64.Dec Lean Elab Tactic Meta

/-- close `a = b` by `Eq.refl a`; the definitional-equality check (evaluation with the free variables left
symbolic) is done by the kernel only. No axioms involved — the same mechanism as `decide +kernel`. -/
elab "kernel_rfl" : tactic => do
  let g ← getMainGoal
  let t ← whnfR (← instantiateMVars (← g.getType))
  let some (α, lhs, _) := t.eq? | throwError "kernel_rfl: not an equality"
  let u ← getLevel α
  g.assign (mkApp2 (mkConst ``Eq.refl [u]) α lhs)

theorem sx8_toUInt8 (e : Int8) : sx8 e.toUInt8 = e.toInt := by
  have h1 : e.toUInt8.toNat = e.toBitVec.toNat := by
    rw [← UInt8.toNat_toBitVec, Int8.toBitVec_toUInt8]
  have h2 : e.toInt = (e.toBitVec.toNat : Int).bmod (2 ^ 8) := by
    rw [← Int8.toInt_toBitVec, BitVec.toInt_eq_toNat_bmod]
  have h3 := e.toBitVec.isLt
  simp only [sx8, h1, h2]
  generalize e.toBitVec.toNat = n at *
  simp only [Int.bmod]
  split <;> omega

theorem sxN32_toUInt32 (d : Int32) : sxN 32 d.toUInt32.toNat = d.toInt := by
  have h1 : d.toUInt32.toNat = d.toBitVec.toNat := by
    rw [← UInt32.toNat_toBitVec, Int32.toBitVec_toUInt32]
  have h2 : d.toInt = (d.toBitVec.toNat : Int).bmod (2 ^ 32) := by
    rw [← Int32.toInt_toBitVec, BitVec.toInt_eq_toNat_bmod]
  have h3 := d.toBitVec.isLt
  simp only [sxN, h1, h2]
  generalize d.toBitVec.toNat = n at *
  simp only [Int.bmod]
  split <;> omega

theorem sxN64_toUInt64 (d : Int64) : sxN 64 d.toUInt64.toNat = d.toInt := by
  have h1 : d.toUInt64.toNat = d.toBitVec.toNat := by
    rw [← UInt64.toNat_toBitVec, Int64.toBitVec_toUInt64]
  have h2 : d.toInt = (d.toBitVec.toNat : Int).bmod (2 ^ 64) := by
    rw [← Int64.toInt_toBitVec, BitVec.toInt_eq_toNat_bmod]
  have h3 := d.toBitVec.isLt
  simp only [sxN, h1, h2]
  generalize d.toBitVec.toNat = n at *
  simp only [Int.bmod]
  split <;> omega

/-- little-endian split of a `u32` and reassembly (`emit_u32` / `set_disp32` vs the decoder's `le32u`) -/
theorem le32u_roundtrip (x : UInt32) :
    le32u x.toUInt8 (x >>> 8).toUInt8 (x >>> 16).toUInt8 (x >>> 24).toUInt8 = x.toNat := by
  have h := x.toNat_lt
  simp only [le32u, UInt32.toNat_toUInt8, UInt32.toNat_shiftRight, Nat.shiftRight_eq_div_pow]
  have e8 : (8 : UInt32).toNat % 32 = 8 := by decide
  have e16 : (16 : UInt32).toNat % 32 = 16 := by decide
  have e24 : (24 : UInt32).toNat % 32 = 24 := by decide
  rw [e8, e16, e24]
  omega

/-- an `i32` displacement / immediate survives `as u32`, little-endian bytes, and the decoder's signed reassembly -/
theorem le32_roundtrip (d : Int32) :
    sxN 32 (le32u d.toUInt32.toUInt8 (d.toUInt32 >>> 8).toUInt8 (d.toUInt32 >>> 16).toUInt8 (d.toUInt32 >>> 24).toUInt8)
      = d.toInt := by
  rw [le32u_roundtrip, sxN32_toUInt32]

/-- an `i32` in the `i8` range survives `as i8 as u8` and the decoder's sign extension (`imm8_sign`) -/
theorem imm8_sign (d : Int32) (h1 : (-128 : Int32) ≤ d) (h2 : d < (0x80 : Int32)) : sx8 d.toInt8.toUInt8 = d.toInt := by
  rw [sx8_toUInt8, Int32.toInt_toInt8]
  have a : (-128 : Int) ≤ d.toInt := by have := Int32.le_iff_toInt_le.mp h1; simpa using this
  have b : d.toInt < 128 := by have := Int32.lt_iff_toInt_lt.mp h2; simpa using this
  simp only [Int.bmod]
  split <;> omega

theorem forall_fin16 {p : Nat → Prop} (h0 : p 0) (h1 : p 1) (h2 : p 2) (h3 : p 3) (h4 : p 4) (h5 : p 5) (h6 : p 6)
    (h7 : p 7) (h8 : p 8) (h9 : p 9) (h10 : p 10) (h11 : p 11) (h12 : p 12) (h13 : p 13) (h14 : p 14) (h15 : p 15)
    (d : Fin 16) : p d.val :=
  match d with
  | ⟨0, _⟩ => h0 | ⟨1, _⟩ => h1 | ⟨2, _⟩ => h2 | ⟨3, _⟩ => h3 | ⟨4, _⟩ => h4 | ⟨5, _⟩ => h5 | ⟨6, _⟩ => h6 | ⟨7, _⟩ => h7
  | ⟨8, _⟩ => h8 | ⟨9, _⟩ => h9 | ⟨10, _⟩ => h10 | ⟨11, _⟩ => h11 | ⟨12, _⟩ => h12 | ⟨13, _⟩ => h13 | ⟨14, _⟩ => h14
  | ⟨15, _⟩ => h15
  | ⟨n + 16, h⟩ => absurd h (by omega)

theorem forall_fin8 {p : Nat → Prop} (h0 : p 0) (h1 : p 1) (h2 : p 2) (h3 : p 3) (h4 : p 4) (h5 : p 5) (h6 : p 6)
    (h7 : p 7) (d : Fin 8) : p d.val :=
  match d with
  | ⟨0, _⟩ => h0 | ⟨1, _⟩ => h1 | ⟨2, _⟩ => h2 | ⟨3, _⟩ => h3 | ⟨4, _⟩ => h4 | ⟨5, _⟩ => h5 | ⟨6, _⟩ => h6 | ⟨7, _⟩ => h7
  | ⟨n + 8, h⟩ => absurd h (by omega)

theorem forall_fin4 {p : Nat → Prop} (h0 : p 0) (h1 : p 1) (h2 : p 2) (h3 : p 3) (d : Fin 4) : p d.val :=
  match d with
  | ⟨0, _⟩ => h0 | ⟨1, _⟩ => h1 | ⟨2, _⟩ => h2 | ⟨3, _⟩ => h3
  | ⟨n + 4, h⟩ => absurd h (by omega)

/-- what the reference decoder makes of the bytes `emit_address reg a` emits for the address `a`, followed by `tail`
(REX.X / REX.B taken from the address, as every caller does) -/
def addrDecoded (reg : Nat) (a : Except String Address) (tail : Dec.Bytes) :
    Except String (Option (Nat × RM × Dec.Bytes)) := do
  let a ← a
  let bs ← enc false (emit_address (UInt8.ofNat reg) a)
  pure (decodeModRM (Address.rex_x a) (Address.rex_b a) (bs ++ tail))

/-- the same without the `reg` field: ModRM's `mod`/`rm` fields and what follows, from `Address::encoded_bytes` -/
def addrOperand (a : Except String Address) (tail : Dec.Bytes) : Except String (Option (RM × Dec.Bytes)) := do
  let a ← a
  let bs ← Address.encoded_bytes a
  match bs with
  | [] => throw "empty address"
  | m :: rest => pure (decodeRM (Address.rex_x a) (Address.rex_b a) (m.toNat / 64) (m.toNat % 8) (rest ++ tail))

/-- `m (Address::offset(base, disp))` in a fresh assembler: the emitted bytes, decoded -/
def viaOffset (avx : Bool) (m : Address → X64 Unit) (base : Register) (disp : Int32) :
    Except String (Option (Instr × Dec.Bytes)) := do
  let a ← Address.offset base disp
  (enc avx (m a)).map decode

/-- scale operand as the generated `ScaleFactor` -/
def Sn (n : Nat) : ScaleFactor := ScaleFactor.all.getD n .One

theorem is_int8_range (i : Immediate) (h : Immediate.is_int8 i = true) : -128 ≤ i.v0.toInt ∧ i.v0.toInt < 128 := by
  unfold Immediate.is_int8 at h
  have e : ((1 : Int64) <<< (7 : Int64)) = 128 := by decide
  simp only [e, Bool.and_eq_true, decide_eq_true_eq] at h
  have a := Int64.le_iff_toInt_le.mp h.1
  have b := Int64.lt_iff_toInt_lt.mp h.2
  have e1 : (-128 : Int64).toInt = -128 := by decide
  have e2 : (128 : Int64).toInt = 128 := by decide
  rw [e1] at a; rw [e2] at b
  exact ⟨a, b⟩

theorem is_int32_range (i : Immediate) (h : Immediate.is_int32 i = true) :
    -2147483648 ≤ i.v0.toInt ∧ i.v0.toInt < 2147483648 := by
  unfold Immediate.is_int32 at h
  have e : ((1 : Int64) <<< (31 : Int64)) = 2147483648 := by decide
  simp only [e, Bool.and_eq_true, decide_eq_true_eq] at h
  have a := Int64.le_iff_toInt_le.mp h.1
  have b := Int64.lt_iff_toInt_lt.mp h.2
  have e1 : (-2147483648 : Int64).toInt = -2147483648 := by decide
  have e2 : (2147483648 : Int64).toInt = 2147483648 := by decide
  rw [e1] at a; rw [e2] at b
  exact ⟨a, b⟩

/-- an immediate in the `i8` range survives `int8() as u8` and the decoder's sign extension -/
theorem imm8_sign64 (i : Immediate) (h : Immediate.is_int8 i = true) : sx8 i.v0.toInt8.toUInt8 = i.v0.toInt := by
  have ⟨a, b⟩ := is_int8_range i h
  rw [sx8_toUInt8, Int64.toInt_toInt8]
  simp only [Int.bmod]
  split <;> omega

/-- an immediate in the `i32` range survives `int32() as u32`, little-endian bytes and signed reassembly -/
theorem imm32_sign64 (i : Immediate) (h : Immediate.is_int32 i = true) :
    sxN 32 (le32u i.v0.toInt32.toUInt32.toUInt8 (i.v0.toInt32.toUInt32 >>> 8).toUInt8
      (i.v0.toInt32.toUInt32 >>> 16).toUInt8 (i.v0.toInt32.toUInt32 >>> 24).toUInt8) = i.v0.toInt := by
  have ⟨a, b⟩ := is_int32_range i h
  rw [le32_roundtrip, Int64.toInt_toInt32]
  simp only [Int.bmod]
  split <;> omega

theorem immS64_eq (i : Immediate) (_h : Immediate.is_int32 i = true) : immS 64 i = .imm i.v0.toInt := by
  have h1 := Int64.le_toInt i.v0
  have h2 := Int64.toInt_lt i.v0
  unfold immS sxN
  congr 1
  split <;> omega

theorem immS32_eq (i : Immediate) (h : Immediate.is_int32 i = true) : immS 32 i = .imm i.v0.toInt := by
  have ⟨a, b⟩ := is_int32_range i h
  unfold immS sxN
  congr 1
  split <;> omega

def isError {α : Type} : Except String α → Bool
  | .error _ => true
  | .ok _ => false

/-- the requested instruction of a `.plain` Spec entry, with nothing left over -/
def want (s : SpecResult) : Option (Instr × Dec.Bytes) :=
  match s with
  | .plain i => some (i, [])
  | _ => none

/-- ALU op with a register and an immediate (`assert!(imm.is_int32())`): decodes to the Spec entry, refused otherwise -/
def AluImmOk (m : Register → Immediate → X64 Unit) (spec : Register → Immediate → SpecResult) : Prop :=
  ∀ (avx : Bool) (dest : Fin 16) (imm : Immediate),
    (Immediate.is_int32 imm = true → (enc avx (m (R dest) imm)).map decode = .ok (want (spec (R dest) imm))) ∧
    (Immediate.is_int32 imm = false → isError (enc avx (m (R dest) imm)) = true)

macro "alu_imm_tac " m:ident h:ident spec:ident lem:ident avx:ident dest:ident imm:ident : tactic => `(tactic| (
  revert $avx
  refine forall_fin16 (p := fun d => ∀ avx : Bool,
      (Immediate.is_int32 $imm = true → (enc avx ($m (Rn d) $imm)).map decode = .ok (want ($spec (Rn d) $imm))) ∧
      (Immediate.is_int32 $imm = false → isError (enc avx ($m (Rn d) $imm)) = true))
    ?_ ?_ ?_ ?_ ?_ ?_ ?_ ?_ ?_ ?_ ?_ ?_ ?_ ?_ ?_ ?_ $dest
  all_goals
    intro avx
    cases avx
    all_goals
      constructor
      · intro h32
        unfold $spec I
        rw [$lem $imm h32]
        cases h8 : Immediate.is_int8 $imm
        · rw [← imm32_sign64 $imm h32]
          unfold $m $h
          simp only [h32, h8, Bool.false_eq_true, if_false, if_true]
          kernel_rfl
        · rw [← imm8_sign64 $imm h8]
          unfold $m $h
          simp only [h32, h8, Bool.false_eq_true, if_false, if_true]
          kernel_rfl
      · intro h32
        unfold $m $h
        simp only [h32]
        kernel_rfl))


/-- the low byte of an immediate, read back unsigned (shift counts) -/
theorem immU8_eq (i : Immediate) : immU8 i = .imm (i.v0.toInt8.toUInt8.toNat : Int) := by
  have h1 : i.v0.toInt8.toUInt8.toNat = i.v0.toInt8.toBitVec.toNat := by
    rw [← UInt8.toNat_toBitVec, Int8.toBitVec_toUInt8]
  have h2 : i.v0.toInt8.toInt = (i.v0.toInt8.toBitVec.toNat : Int).bmod (2 ^ 8) := by
    rw [← Int8.toInt_toBitVec, BitVec.toInt_eq_toNat_bmod]
  have h3 := i.v0.toInt8.toBitVec.isLt
  have h4 := Int64.toInt_toInt8 i.v0
  unfold immU8
  congr 1
  rw [h1]
  rw [h4] at h2
  generalize i.v0.toInt8.toBitVec.toNat = n at *
  generalize i.v0.toInt = v at *
  simp only [Int.bmod] at h2
  split at h2 <;> split at h2 <;> omega


theorem is_int32_false (i : Immediate) (h : Immediate.is_int32 i = false) :
    ¬ (-2147483648 ≤ i.v0.toInt ∧ i.v0.toInt < 2147483648) := by
  intro ⟨a, b⟩
  have e : ((1 : Int64) <<< (31 : Int64)) = 2147483648 := by decide
  have e1 : (-2147483648 : Int64).toInt = -2147483648 := by decide
  have e2 : (2147483648 : Int64).toInt = 2147483648 := by decide
  have h1 : (-2147483648 : Int64) ≤ i.v0 := Int64.le_iff_toInt_le.mpr (by rw [e1]; exact a)
  have h2 : i.v0 < (2147483648 : Int64) := Int64.lt_iff_toInt_lt.mpr (by rw [e2]; exact b)
  unfold Immediate.is_int32 at h
  simp only [e, h1, h2, decide_true, Bool.and_self] at h
  exact absurd h (by decide)

theorem inS32_of_int32 (i : Immediate) (h : Immediate.is_int32 i = true) : inS32 i = true := by
  have ⟨a, b⟩ := is_int32_range i h
  simp [inS32, a, b]

theorem inS32_of_not_int32 (i : Immediate) (h : Immediate.is_int32 i = false) : inS32 i = false := by
  have hn := is_int32_false i h
  unfold inS32
  cases h1 : decide (-2147483648 ≤ i.v0.toInt) <;> cases h2 : decide (i.v0.toInt < 2147483648) <;> simp
  exact hn ⟨of_decide_eq_true h1, of_decide_eq_true h2⟩

theorem le64u_roundtrip (x : UInt64) :
    le32u x.toUInt8 (x >>> 8).toUInt8 (x >>> 16).toUInt8 (x >>> 24).toUInt8
      + 4294967296 * le32u (x >>> 32).toUInt8 (x >>> 40).toUInt8 (x >>> 48).toUInt8 (x >>> 56).toUInt8 = x.toNat := by
  have h := x.toNat_lt
  simp only [le32u, UInt64.toNat_toUInt8, UInt64.toNat_shiftRight, Nat.shiftRight_eq_div_pow]
  have e8 : (8 : UInt64).toNat % 64 = 8 := by decide
  have e16 : (16 : UInt64).toNat % 64 = 16 := by decide
  have e24 : (24 : UInt64).toNat % 64 = 24 := by decide
  have e32 : (32 : UInt64).toNat % 64 = 32 := by decide
  have e40 : (40 : UInt64).toNat % 64 = 40 := by decide
  have e48 : (48 : UInt64).toNat % 64 = 48 := by decide
  have e56 : (56 : UInt64).toNat % 64 = 56 := by decide
  rw [e8, e16, e24, e32, e40, e48, e56]
  omega

/-- an `i64` immediate survives `as u64`, little-endian bytes (`emit_u64`) and the decoder's signed reassembly -/
theorem imm64_roundtrip (i : Immediate) :
    sxN 64 (le32u i.v0.toUInt64.toUInt8 (i.v0.toUInt64 >>> 8).toUInt8 (i.v0.toUInt64 >>> 16).toUInt8 (i.v0.toUInt64 >>> 24).toUInt8
      + 4294967296 * le32u (i.v0.toUInt64 >>> 32).toUInt8 (i.v0.toUInt64 >>> 40).toUInt8 (i.v0.toUInt64 >>> 48).toUInt8
          (i.v0.toUInt64 >>> 56).toUInt8) = i.v0.toInt := by
  rw [le64u_roundtrip, sxN64_toUInt64]

theorem immS64_eq' (i : Immediate) : immS 64 i = .imm i.v0.toInt := by
  have h1 := Int64.le_toInt i.v0
  have h2 := Int64.toInt_lt i.v0
  unfold immS sxN
  congr 1
  split <;> omega

/-- shift by an immediate (`assert!(rhs.is_int8())`): decodes to the Spec entry, refused otherwise -/
def ShiftImmOk (m : Register → Immediate → X64 Unit) (spec : Register → Immediate → SpecResult) : Prop :=
  ∀ (avx : Bool) (dest : Fin 16) (imm : Immediate),
    (Immediate.is_int8 imm = true → (enc avx (m (R dest) imm)).map decode = .ok (want (spec (R dest) imm))) ∧
    (Immediate.is_int8 imm = false → isError (enc avx (m (R dest) imm)) = true)

macro "shift_imm_tac " m:ident spec:ident avx:ident dest:ident imm:ident : tactic => `(tactic| (
  revert $avx
  refine forall_fin16 (p := fun d => ∀ avx : Bool,
      (Immediate.is_int8 $imm = true → (enc avx ($m (Rn d) $imm)).map decode = .ok (want ($spec (Rn d) $imm))) ∧
      (Immediate.is_int8 $imm = false → isError (enc avx ($m (Rn d) $imm)) = true))
    ?_ ?_ ?_ ?_ ?_ ?_ ?_ ?_ ?_ ?_ ?_ ?_ ?_ ?_ ?_ ?_ $dest
  all_goals
    intro avx
    cases avx
    all_goals
      constructor
      · intro h8
        unfold $spec I
        rw [immU8_eq]
        unfold $m
        simp only [h8]
        kernel_rfl
      · intro h8
        unfold $m
        simp only [h8]
        kernel_rfl))

/-! ## label scenarios (used by the jump theorems) -/

/-- replace the label operand (`.rel` / `.ripRel`) of a Spec template by the displacement `d` -/
def retarget (i : Instr) (d : Int) : Instr :=
  { i with ops := i.ops.map fun o => match o with
                                    | .rel _ => .rel d
                                    | .ripRel _ => .ripRel d
                                    | o => o }

/-- does the instruction at byte offset `start` of `code` decode to `templ` with its label operand pointing at `target`? -/
def landsOn (code : Dec.Bytes) (start target : Nat) (templ : SpecResult) : Bool :=
  match templ, decode (code.drop start) with
  | .toLabel t _, some (i, rest) => i == retarget t ((target : Int) - ((code.length - rest.length : Nat) : Int))
  | _, _ => false

def nops : Nat → X64 Unit
  | 0 => pure ()
  | k + 1 => do nop; nops k

/-- forward reference: `create_label; m l; k nops; bind_label l; resolve_jumps` — lands on the label, or the whole
program is refused (`allowRefusal`: the near forms `assert!` that the distance fits in 8 bits) -/
def forwardOk (avx : Bool) (k : Nat) (m : Label → X64 Unit) (spec : Label → SpecResult) (allowRefusal : Bool) : Bool :=
  match (do let l ← create_label; m l; nops k; let p ← position; bind_label l; resolve_jumps; pure (l, p) :
          X64 (Label × Nat)).run (Asm.new avx) with
  | .ok ((l, p), s) => landsOn s.code 0 p (spec l)
  | .error _ => allowRefusal

/-- backward reference: `create_and_bind_label; k nops; m l; resolve_jumps` -/
def backwardOk (avx : Bool) (k : Nat) (m : Label → X64 Unit) (spec : Label → SpecResult) (allowRefusal : Bool) : Bool :=
  match (do let l ← create_and_bind_label; nops k; m l; resolve_jumps; pure l : X64 Label).run (Asm.new avx) with
  | .ok (l, s) => landsOn s.code k 0 (spec l)
  | .error _ => allowRefusal

/-- the three displacement classes of `Address::offset/array` (0 → no displacement, i8 → disp8, else disp32) with the
displacement left symbolic: rewrite the expected value into the byte form, resolve the `if`s, let the kernel evaluate -/
macro "addr_classes " f:ident d:ident : tactic => `(tactic| (
  cases h0 : ($d == (0 : Int32))
  · cases h1 : decide ((-128 : Int32) ≤ $d)
    · rw [← le32_roundtrip $d]
      unfold $f
      simp only [h0, h1, Bool.false_and, Bool.false_eq_true, if_false]
      kernel_rfl
    · cases h2 : decide ($d < (0x80 : Int32))
      · rw [← le32_roundtrip $d]
        unfold $f
        simp only [h0, h1, h2, Bool.false_and, Bool.and_self, Bool.false_eq_true, if_false, if_true, Bool.and_false,
          Bool.and_true, Bool.true_and]
        kernel_rfl
      · rw [← imm8_sign $d (of_decide_eq_true h1) (of_decide_eq_true h2)]
        unfold $f
        simp only [h0, h1, h2, Bool.false_and, Bool.and_self, Bool.false_eq_true, if_false, if_true, Bool.and_false,
          Bool.and_true, Bool.true_and]
        kernel_rfl
  · have hd : $d = 0 := by simpa using h0
    subst hd
    kernel_rfl))

end Dora.X64
