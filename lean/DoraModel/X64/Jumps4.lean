import DoraModel.X64.Jumps3
/-!
# C07 — label resolution in general, part 4: scripts of jump / bind / raw-byte operations, their interpretation by the
regenerated methods, and the layout invariant (induction over the script).
-/
namespace Dora.X64
open Dora.X64.Dec
set_option linter.unusedSimpArgs false

theorem fieldOk_short (x : Int) (h1 : -128 ≤ x) (h2 : x < 128) : FieldOk false [UInt8.ofInt x] x := by
  unfold FieldOk
  simp only [Bool.false_eq_true, if_false]
  exact ⟨_, rfl, sx8_ofInt x h1 h2⟩

theorem fieldOk_long (x : Int) (h1 : -2147483648 ≤ x) (h2 : x < 2147483648) :
    FieldOk true (Buf.le32 (UInt32.ofInt x)) x := by
  unfold FieldOk
  simp only [if_true]
  exact ⟨_, _, _, _, rfl, by rw [le32u_roundtrip, sxN32_ofInt x h1 h2]⟩

/-- what a successful `farStep` (= `jmp` / `jcc`) did -/
theorem farStep_spec (sopc : UInt8) (lopc : Bytes) (l : Nat) (s s' : Asm) (hlo : lopc.length ≤ 2)
    (h : farStep sopc lopc l s = .ok ((), s')) :
    (s.labels[l]? = some none ∧
      s' = ((s.app lopc).pushJ ⟨UInt32.ofNat (s.code.length + lopc.length), ⟨l⟩, .Far⟩).app [0, 0, 0, 0]) ∨
    (∃ q far f, s.labels[l]? = some (some q) ∧ q.toNat ≤ s.code.length ∧
      s' = s.app ((if far then lopc else [sopc]) ++ f) ∧
      (s'.code.length < 2147483648 →
        FieldOk far f ((q.toNat : Int) - ((s.code.length + ((if far then lopc else [sopc]) ++ f).length : Nat) : Int))) ∧
      far = !decide (s.code.length + 2 - q.toNat ≤ 128)) := by
  unfold farStep at h
  cases hl : s.labels[l]? with
  | none => simp only [hl] at h; cases h
  | some o =>
    cases o with
    | none =>
      simp only [hl] at h
      split at h
      · simp only [Except.ok.injEq, Prod.mk.injEq, true_and] at h
        exact Or.inl ⟨rfl, h.symm⟩
      · cases h
    | some q =>
      simp only [hl] at h
      split at h
      · next h1 =>
        split at h
        · next h2 =>
          simp only [Except.ok.injEq, Prod.mk.injEq, true_and] at h
          refine Or.inr ⟨q, false, [UInt8.ofInt (-((s.code.length + 2 - q.toNat : Nat) : Int))], rfl, h1, ?_, ?_, ?_⟩
          · rw [← h]; rfl
          · intro _
            have := fieldOk_short (-((s.code.length + 2 - q.toNat : Nat) : Int)) (by omega) (by omega)
            simp only [Bool.false_eq_true, if_false, List.length_append, List.length_cons, List.length_nil]
            have e : (q.toNat : Int) - ((s.code.length + (0 + 1 + (0 + 1)) : Nat) : Int)
                = -((s.code.length + 2 - q.toNat : Nat) : Int) := by omega
            rw [e]; exact this
          · simp only [h2, decide_true, Bool.not_true]
        · next h2 =>
          simp only [Except.ok.injEq, Prod.mk.injEq, true_and] at h
          subst h
          refine Or.inr ⟨q, true, Buf.le32 (UInt32.ofInt (-((s.code.length + (lopc.length + 4) - q.toNat : Nat) : Int))),
            rfl, h1, rfl, ?_, ?_⟩
          · intro hlen
            simp only [Asm.app_code, List.length_append, Buf.le32, List.length_cons, List.length_nil] at hlen
            have := fieldOk_long (-((s.code.length + (lopc.length + 4) - q.toNat : Nat) : Int)) (by omega) (by omega)
            simp only [if_true, List.length_append, Buf.le32, List.length_cons, List.length_nil]
            have e : (q.toNat : Int) - ((s.code.length + (lopc.length + (0 + 1 + 1 + 1 + 1)) : Nat) : Int)
                = -((s.code.length + (lopc.length + 4) - q.toNat : Nat) : Int) := by omega
            rw [e]; exact this
          · simp only [h2, decide_false, Bool.not_false]
      · cases h

/-- what a successful `nearStep` (= `jmp_near` / `jcc_near`) did -/
theorem nearStep_spec (sopc : UInt8) (l : Nat) (s s' : Asm) (h : nearStep sopc l s = .ok ((), s')) :
    (s.labels[l]? = some none ∧
      s' = ((s.app [sopc]).pushJ ⟨UInt32.ofNat (s.code.length + 1), ⟨l⟩, .Near⟩).app [0]) ∨
    (∃ q f, s.labels[l]? = some (some q) ∧ q.toNat ≤ s.code.length ∧ s.code.length + 2 - q.toNat ≤ 128 ∧
      s' = s.app ([sopc] ++ f) ∧
      FieldOk false f ((q.toNat : Int) - ((s.code.length + ([sopc] ++ f).length : Nat) : Int))) := by
  unfold nearStep at h
  cases hl : s.labels[l]? with
  | none => simp only [hl] at h; cases h
  | some o =>
    cases o with
    | none =>
      simp only [hl] at h
      split at h
      · simp only [Except.ok.injEq, Prod.mk.injEq, true_and] at h
        exact Or.inl ⟨rfl, h.symm⟩
      · cases h
    | some q =>
      simp only [hl] at h
      split at h
      · next h1 =>
        split at h
        · next h2 =>
          simp only [Except.ok.injEq, Prod.mk.injEq, true_and] at h
          refine Or.inr ⟨q, [UInt8.ofInt (-((s.code.length + 2 - q.toNat : Nat) : Int))], rfl, h1, h2, ?_, ?_⟩
          · rw [← h]; rfl
          · have := fieldOk_short (-((s.code.length + 2 - q.toNat : Nat) : Int)) (by omega) (by omega)
            simp only [List.length_append, List.length_cons, List.length_nil]
            have e : (q.toNat : Int) - ((s.code.length + (0 + 1 + (0 + 1)) : Nat) : Int)
                = -((s.code.length + 2 - q.toNat : Nat) : Int) := by omega
            rw [e]; exact this
        · cases h
      · cases h

/-! ## scripts -/

/-- one operation of a script: arbitrary other code (raw bytes), binding a label, or one of the four jump methods -/
inductive JOp
  | raw (bs : Bytes)
  | bind (l : Nat)
  | jmp (l : Nat)
  | jmpNear (l : Nat)
  | jcc (c : Condition) (l : Nat)
  | jccNear (c : Condition) (l : Nat)
  deriving DecidableEq

/-- interpretation by the regenerated methods (`raw`: the buffer's append primitive every `emit_*` goes through) -/
def JOp.run : JOp → X64 Unit
  | .raw bs => Buf.emitBytes bs
  | .bind l => bind_label ⟨l⟩
  | .jmp l => Dora.X64.jmp ⟨l⟩
  | .jmpNear l => jmp_near ⟨l⟩
  | .jcc c l => Dora.X64.jcc c ⟨l⟩
  | .jccNear c l => jcc_near c ⟨l⟩

/-- the label a jump operation refers to -/
def JOp.target : JOp → Option Nat
  | .jmp l | .jmpNear l | .jcc _ l | .jccNear _ l => some l
  | _ => none

/-- may the operation use a rel32 form? -/
def JOp.allowsFar : JOp → Bool
  | .jmp _ | .jcc _ _ => true
  | _ => false

/-- opcode bytes of the rel32 (`far = true`) / rel8 form -/
def JOp.opc : JOp → Bool → Bytes
  | .jmp _, true => [0xE9]
  | .jmp _, false | .jmpNear _, _ => [0xEB]
  | .jcc c _, true => [0x0F, 0x80 + c.int]
  | .jcc c _, false | .jccNear c _, _ => [0x70 + c.int]
  | _, _ => []

/-- the requested instruction (Spec template: `Spec.jmp` / `Spec.jcc` / `Spec.jmp_near` / `Spec.jcc_near`) -/
def JOp.spec : JOp → SpecResult
  | .jmp l => Spec.jmp ⟨l⟩
  | .jmpNear l => Spec.jmp_near ⟨l⟩
  | .jcc c l => Spec.jcc c ⟨l⟩
  | .jccNear c l => Spec.jcc_near c ⟨l⟩
  | _ => .unspecified

/-- run the operations in order; returns the buffer position (the regenerated `position`) at which each one started -/
def runOps : List JOp → X64 (List Nat)
  | [] => pure []
  | op :: ops => do
    let p ← position
    op.run
    let ps ← runOps ops
    pure (p :: ps)

def createLabels : Nat → X64 Unit
  | 0 => pure ()
  | n + 1 => do
    let _ ← create_label
    createLabels n

/-- a whole program: `n` labels (numbered 0 … n-1), the operations, then `resolve_jumps` (what `finalize` does before
padding); returns the start positions of the operations -/
def runScript (n : Nat) (ops : List JOp) : X64 (List Nat) := do
  createLabels n
  let ps ← runOps ops
  resolve_jumps
  pure ps

/-! ## one operation, as a chunk -/

/-- a jump operation that started at offset `b` and the chunk it appended: pending (label not bound yet; if `L` binds
it, then behind the jump), or finished at once against the already bound label (rel8 iff the distance fits and
otherwise — `jmp`/`jcc` only — rel32) -/
def JumpChunk (L : List (Option UInt32)) (b : Nat) (op : JOp) (c : Chunk) : Prop :=
  ∃ l, op.target = some l ∧
    ((c = .pend (op.opc op.allowsFar) op.allowsFar l ∧ ∀ q : UInt32, L[l]? = some (some q) → b < q.toNat) ∨
     (∃ q far f, L[l]? = some (some q) ∧ q.toNat ≤ b ∧ c = .fin (op.opc far ++ f) ∧
        (b + (op.opc far ++ f).length < 2147483648 →
          FieldOk far f ((q.toNat : Int) - ((b + (op.opc far ++ f).length : Nat) : Int))) ∧
        far = (op.allowsFar && !decide (b + 2 - q.toNat ≤ 128))))

/-- relation between an operation that started at offset `b`, the chunk it appended, and a label table `L` that
extends the one the operation left behind -/
def OpChunk (L : List (Option UInt32)) (b : Nat) (op : JOp) (c : Chunk) : Prop :=
  match op with
  | .raw bs => c = .fin bs
  | .bind l => c = .fin [] ∧ L[l]? = some (some (UInt32.ofNat b)) ∧ b < 4294967296
  | op => JumpChunk L b op c

/-- what one step leaves behind, apart from the chunk relation -/
def StepFrame (s s' : Asm) (c : Chunk) : Prop :=
  s'.code = s.code ++ c.bytes ∧ s'.position = s'.code.length ∧
  s'.unresolved_jumps = s.unresolved_jumps ++ pendingOf s.code.length [c] ∧ s'.has_avx2 = s.has_avx2 ∧
  s'.labels = s.labels

theorem far_chunk (op : JOp) (sopc : UInt8) (lopc : Bytes) (l : Nat) (s s' : Asm)
    (ht : op.target = some l) (hf : op.allowsFar = true) (ho1 : op.opc true = lopc) (ho2 : op.opc false = [sopc])
    (hlo : lopc.length ≤ 2)
    (hr : farStep sopc lopc l s = .ok ((), s')) :
    ∃ c, StepFrame s s' c ∧ JumpChunk s'.labels s.code.length op c := by
  rcases farStep_spec sopc lopc l s s' hlo hr with ⟨hl, hs⟩ | ⟨q, far, f, hl, hq, hs, hfo, hfar⟩
  · refine ⟨.pend lopc true l, ⟨?_, ?_, ?_, ?_, ?_⟩, l, ht, Or.inl ⟨by rw [hf, ho1], ?_⟩⟩
    · rw [hs]; simp only [Asm.app_code, Asm.pushJ_code, Chunk.bytes, zeros, if_true, List.append_assoc]
    · rw [hs]; simp only [Asm.app_code, Asm.pushJ_code, Asm.app_position, List.length_append]
    · rw [hs]; simp only [Asm.app_uj, Asm.pushJ_uj, pendingOf, distOf, if_true]
    · rw [hs]; rfl
    · rw [hs]; rfl
    · intro q hq
      rw [hs] at hq
      simp only [Asm.app_labels, Asm.pushJ_labels, hl, Option.some.injEq] at hq
      cases hq
  · have hopc : (if far then lopc else [sopc]) = op.opc far := by cases far <;> simp [ho1, ho2]
    rw [hopc] at hs hfo
    refine ⟨.fin (op.opc far ++ f), ⟨?_, ?_, ?_, ?_, ?_⟩, l, ht, Or.inr ⟨q, far, f, ?_, hq, rfl, ?_, ?_⟩⟩
    · rw [hs]; rfl
    · rw [hs]; simp only [Asm.app_code, Asm.app_position, List.length_append]
    · rw [hs]; simp only [Asm.app_uj, pendingOf, List.append_nil]
    · rw [hs]; rfl
    · rw [hs]; rfl
    · rw [hs]; exact hl
    · intro hb
      apply hfo
      rw [hs]; simp only [Asm.app_code, List.length_append] at hb ⊢; exact hb
    · rw [hfar, hf, Bool.true_and]

theorem near_chunk (op : JOp) (sopc : UInt8) (l : Nat) (s s' : Asm)
    (ht : op.target = some l) (hf : op.allowsFar = false) (ho2 : op.opc false = [sopc])
    (hr : nearStep sopc l s = .ok ((), s')) :
    ∃ c, StepFrame s s' c ∧ JumpChunk s'.labels s.code.length op c := by
  rcases nearStep_spec sopc l s s' hr with ⟨hl, hs⟩ | ⟨q, f, hl, hq, hfit, hs, hfo⟩
  · refine ⟨.pend [sopc] false l, ⟨?_, ?_, ?_, ?_, ?_⟩, l, ht, Or.inl ⟨by rw [hf, ho2], ?_⟩⟩
    · rw [hs]; simp only [Asm.app_code, Asm.pushJ_code, Chunk.bytes, zeros, Bool.false_eq_true, if_false, List.append_assoc]
    · rw [hs]; simp only [Asm.app_code, Asm.pushJ_code, Asm.app_position, List.length_append]
    · rw [hs]; simp only [Asm.app_uj, Asm.pushJ_uj, pendingOf, distOf, Bool.false_eq_true, if_false, List.length_cons,
        List.length_nil, Nat.zero_add]
    · rw [hs]; rfl
    · rw [hs]; rfl
    · intro q hq
      rw [hs] at hq
      simp only [Asm.app_labels, Asm.pushJ_labels, hl, Option.some.injEq] at hq
      cases hq
  · rw [← ho2] at hs hfo
    refine ⟨.fin (op.opc false ++ f), ⟨?_, ?_, ?_, ?_, ?_⟩, l, ht, Or.inr ⟨q, false, f, ?_, hq, rfl, fun _ => hfo, ?_⟩⟩
    · rw [hs]; rfl
    · rw [hs]; simp only [Asm.app_code, Asm.app_position, List.length_append]
    · rw [hs]; simp only [Asm.app_uj, pendingOf, List.append_nil]
    · rw [hs]; rfl
    · rw [hs]; rfl
    · rw [hs]; exact hl
    · rw [hf, Bool.false_and]
