import DoraModel.X64.MasmPrelude
/-!
# Text form of instructions, states and outcomes for the line protocol of `drv_c01m` / `h_c01m`

Registers are decimal hardware numbers, immediates signed decimal, conditions their hardware number, labels `L<n>`,
memory operands three tokens `<base|-> <index*scale|-> <disp>`.  States: sixteen 64-bit hex words separated by commas,
flags five characters `cf zf sf of pf` (`0`, `1`, `u` = undefined).  Core Lean only.
-/
namespace Dora.X64.Sem

def showReg (r : Reg) : String := toString r.val
def showInt (i : Int) : String := toString i
def showCond (c : Cond) : String := toString c.code
def showLabel (l : Label) : String := "L" ++ toString l.idx
def showAddr (m : Addr) : String :=
  (match m.base with | some b => showReg b | none => "-") ++ " " ++
  (match m.index with | some (i, k) => showReg i ++ "*" ++ toString k | none => "-") ++ " " ++ showInt m.disp

def readNat (s : String) : Except String Nat :=
  match s.toNat? with
  | some n => .ok n
  | none => .error ("not a number: " ++ s)

def readInt (s : String) : Except String Int :=
  match s.toInt? with
  | some n => .ok n
  | none => .error ("not an integer: " ++ s)

def readReg (s : String) : Except String Reg := do
  let n ← readNat s
  if h : n < 16 then pure ⟨n, h⟩ else .error ("not a register: " ++ s)

def readCond (s : String) : Except String Cond := do
  let n ← readNat s
  if n < 16 then pure (Cond.ofCode n) else .error ("not a condition: " ++ s)

def readLabel (s : String) : Except String Label :=
  if s.startsWith "L" then do pure ⟨← readNat (s.drop 1).toString⟩ else .error ("not a label: " ++ s)

def readAddr (b i d : String) : Except String Addr := do
  let base ← if b == "-" then pure none else do pure (some (← readReg b))
  let index ← if i == "-" then pure none else
    match i.splitOn "*" with
    | [r, k] => do pure (some (← readReg r, ← readNat k))
    | _ => .error ("not an index: " ++ i)
  pure { base := base, index := index, disp := ← readInt d }

def hexDigit (n : Nat) : Char := if n < 10 then Char.ofNat (48 + n) else Char.ofNat (87 + n)

def hexNat : Nat → Nat → List Char → List Char
  | 0, _, acc => acc
  | k + 1, n, acc => hexNat k (n / 16) (hexDigit (n % 16) :: acc)

/-- 16 hex digits -/
def showWord (v : BitVec 64) : String := String.ofList (hexNat 16 v.toNat [])

def readHex (s : String) : Except String Nat :=
  s.toList.foldlM (fun acc c =>
    if '0' ≤ c ∧ c ≤ '9' then pure (acc * 16 + (c.toNat - 48))
    else if 'a' ≤ c ∧ c ≤ 'f' then pure (acc * 16 + (c.toNat - 87))
    else .error ("not hex: " ++ s)) 0

def showFlag : Option Bool → String
  | none => "u" | some true => "1" | some false => "0"

def showFlags (f : Flags) : String := showFlag f.cf ++ showFlag f.zf ++ showFlag f.sf ++ showFlag f.of ++ showFlag f.pf

def readFlag (c : Char) : Except String (Option Bool) :=
  if c = '0' then pure (some false) else if c = '1' then pure (some true) else if c = 'u' then pure none
  else .error "not a flag"

def readFlags (s : String) : Except String Flags :=
  match s.toList with
  | [a, b, c, d, e] => do
    pure { cf := ← readFlag a, zf := ← readFlag b, sf := ← readFlag c, of := ← readFlag d, pf := ← readFlag e }
  | _ => .error ("not five flags: " ++ s)

def allRegs : List Reg := List.finRange 16

def showRegs (s : State) : String := ",".intercalate (allRegs.map fun r => showWord (s.get r))

def readRegs (t : String) : Except String (Reg → BitVec 64) := do
  let ws ← (t.splitOn ",").mapM readHex
  if ws.length ≠ 16 then .error "need 16 registers" else
  let arr := ws.toArray
  pure fun r => BitVec.ofNat 64 (arr.getD r.val 0)

def readMem (t : String) : Except String (BitVec 64 → BitVec 64) := do
  if t == "-" then pure fun _ => 0 else
  let cells ← (t.splitOn ",").mapM fun c =>
    match c.splitOn "=" with
    | [a, v] => do pure (BitVec.ofNat 64 (← readHex a), BitVec.ofNat 64 (← readHex v))
    | _ => .error ("not addr=val: " ++ c)
  pure fun a => match cells.find? (fun c => c.1 == a) with | some c => c.2 | none => 0

def showOutcome : Outcome → String
  | .done s => "done " ++ showRegs s ++ " " ++ showFlags s.fl
  | .trap n s => "trap:" ++ toString n ++ " " ++ showRegs s ++ " " ++ showFlags s.fl
  | .de s => "de " ++ showRegs s ++ " " ++ showFlags s.fl
  | .bad w => "bad:" ++ (w.replace " " "_")

end Dora.X64.Sem

namespace Dora.Masm
open Dora.X64.Sem

def parseMode (s : String) : Except String MachineMode :=
  match MachineMode.ofString s with | some m => .ok m | none => .error ("not a MachineMode: " ++ s)
def parseCondCode (s : String) : Except String CondCode :=
  match CondCode.ofString s with | some m => .ok m | none => .error ("not a CondCode: " ++ s)
def parseTrap (s : String) : Except String Trap :=
  match Trap.ofString s with | some m => .ok m | none => .error ("not a Trap: " ++ s)
def parseReg (s : String) : Except String Reg := readReg s
def parseInt (s : String) : Except String Int := readInt s
def parseBool (s : String) : Except String Bool :=
  if s == "true" then .ok true else if s == "false" then .ok false else .error ("not a bool: " ++ s)

end Dora.Masm
