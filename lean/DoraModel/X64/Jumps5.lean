import DoraModel.X64.Jumps4
/-!
# C07 — label resolution in general, part 5: the induction over the script (operations phase), and its combination
with the `resolve_jumps` loop into the final layout of the buffer.
-/
namespace Dora.X64
open Dora.X64.Dec
set_option linter.unusedSimpArgs false

/-- how one operation changes the label table -/
def LabelStep (op : JOp) (s s' : Asm) : Prop :=
  (s'.labels = s.labels ∧ ∀ l, op ≠ .bind l) ∨
  ∃ l, op = .bind l ∧ s.labels[l]? = some none ∧ s.code.length < 4294967296 ∧
    s'.labels = s.labels.set l (some (UInt32.ofNat s.code.length))

theorem step_chunk (op : JOp) (s s' : Asm) (h0 : s.position = s.code.length)
    (hr : op.run.run s = .ok ((), s')) :
    ∃ c, s'.code = s.code ++ c.bytes ∧ s'.position = s'.code.length ∧
      s'.unresolved_jumps = s.unresolved_jumps ++ pendingOf s.code.length [c] ∧ s'.has_avx2 = s.has_avx2 ∧
      OpChunk s'.labels s.code.length op c ∧ LabelStep op s s' := by
  cases op with
  | raw bs =>
    have e : (JOp.raw bs).run.run s = Buf.emitBytes bs s := rfl
    rw [e, emitBytes_eq bs s h0] at hr
    simp only [Except.ok.injEq, Prod.mk.injEq, true_and] at hr
    subst hr
    refine ⟨.fin bs, rfl, ?_, ?_, rfl, rfl, Or.inl ⟨rfl, fun l h => by cases h⟩⟩
    · simp only [Asm.app_position, Asm.app_code, List.length_append]
    · simp only [Asm.app_uj, pendingOf, List.append_nil]
  | bind l =>
    have e : (JOp.bind l).run.run s = bindStep l s := rfl
    rw [e] at hr
    unfold bindStep at hr
    cases hl : s.labels[l]? with
    | none => simp only [hl] at hr; cases hr
    | some o =>
      cases o with
      | some q => simp only [hl] at hr; cases hr
      | none =>
        simp only [hl] at hr
        split at hr
        · next hp =>
          simp only [Except.ok.injEq, Prod.mk.injEq, true_and] at hr
          subst hr
          have hlt : l < s.labels.length := by
            rcases List.getElem?_eq_some_iff.mp hl with ⟨h, _⟩; exact h
          refine ⟨.fin [], ?_, h0, ?_, rfl, ⟨rfl, ?_, ?_⟩, Or.inr ⟨l, rfl, hl, ?_, ?_⟩⟩
          · simp only [Chunk.bytes, List.append_nil]
          · simp only [pendingOf, List.append_nil]
          · simp only [List.getElem?_set_self hlt, h0]
          · rw [← h0]; exact hp
          · rw [← h0]; exact hp
          · simp only [h0]
        · cases hr
  | jmp l =>
    have e : (JOp.jmp l).run.run s = farStep 0xEB [0xE9] l s := jmp_eq l s h0
    rw [e] at hr
    obtain ⟨c, ⟨a1, a2, a3, a4, a5⟩, hj⟩ := far_chunk (.jmp l) 0xEB [0xE9] l s s' rfl rfl rfl rfl (by decide) hr
    exact ⟨c, a1, a2, a3, a4, hj, Or.inl ⟨a5, fun l h => by cases h⟩⟩
  | jcc c l =>
    have e : (JOp.jcc c l).run.run s = farStep (0x70 + c.int) [0x0F, 0x80 + c.int] l s := jcc_eq c l s h0
    rw [e] at hr
    obtain ⟨c, ⟨a1, a2, a3, a4, a5⟩, hj⟩ :=
      far_chunk (.jcc c l) (0x70 + c.int) [0x0F, 0x80 + c.int] l s s' rfl rfl rfl rfl (Nat.le_refl 2) hr
    exact ⟨c, a1, a2, a3, a4, hj, Or.inl ⟨a5, fun l h => by cases h⟩⟩
  | jmpNear l =>
    have e : (JOp.jmpNear l).run.run s = nearStep 0xEB l s := jmp_near_eq l s h0
    rw [e] at hr
    obtain ⟨c, ⟨a1, a2, a3, a4, a5⟩, hj⟩ := near_chunk (.jmpNear l) 0xEB l s s' rfl rfl rfl hr
    exact ⟨c, a1, a2, a3, a4, hj, Or.inl ⟨a5, fun l h => by cases h⟩⟩
  | jccNear c l =>
    have e : (JOp.jccNear c l).run.run s = nearStep (0x70 + c.int) l s := jcc_near_eq c l s h0
    rw [e] at hr
    obtain ⟨c, ⟨a1, a2, a3, a4, a5⟩, hj⟩ := near_chunk (.jccNear c l) (0x70 + c.int) l s s' rfl rfl rfl hr
    exact ⟨c, a1, a2, a3, a4, hj, Or.inl ⟨a5, fun l h => by cases h⟩⟩

/-! ## the operations phase -/

/-- operations, the chunks they appended (from buffer offset `b` on) and their recorded start positions -/
def RelA (L : List (Option UInt32)) : Nat → List JOp → List Chunk → List Nat → Prop
  | _, [], [], [] => True
  | b, op :: ops, c :: cs, p :: ps => p = b ∧ OpChunk L b op c ∧ RelA L (b + c.bytes.length) ops cs ps
  | _, _, _, _ => False

theorem chunk_bytes_pos_of_jump {L b op c} (h : OpChunk L b op c) (l : Nat) (ht : op.target = some l) :
    0 < c.bytes.length := by
  cases op with
  | raw bs => cases ht
  | bind l => cases ht
  | jmp l' =>
    obtain ⟨l, _, hp | ⟨q, far, f, _, _, h2, _, _⟩⟩ := h
    · rw [hp.1]; simp [Chunk.bytes, JOp.opc, JOp.allowsFar]
    · rw [h2]; cases far <;> simp [Chunk.bytes, JOp.opc]
  | jmpNear l' =>
    obtain ⟨l, _, hp | ⟨q, far, f, _, _, h2, _, _⟩⟩ := h
    · rw [hp.1]; simp [Chunk.bytes, JOp.opc, JOp.allowsFar]
    · rw [h2]; cases far <;> simp [Chunk.bytes, JOp.opc]
  | jcc c' l' =>
    obtain ⟨l, _, hp | ⟨q, far, f, _, _, h2, _, _⟩⟩ := h
    · rw [hp.1]; simp [Chunk.bytes, JOp.opc, JOp.allowsFar]
    · rw [h2]; cases far <;> simp [Chunk.bytes, JOp.opc]
  | jccNear c' l' =>
    obtain ⟨l, _, hp | ⟨q, far, f, _, _, h2, _, _⟩⟩ := h
    · rw [hp.1]; simp [Chunk.bytes, JOp.opc, JOp.allowsFar]
    · rw [h2]; cases far <;> simp [Chunk.bytes, JOp.opc]

theorem OpChunk.lift {L' L : List (Option UInt32)} {b : Nat} {op : JOp} {c : Chunk} (h : OpChunk L' b op c)
    (mono : ∀ (l : Nat) (q : UInt32), L'[l]? = some (some q) → L[l]? = some (some q))
    (orig : ∀ (l : Nat) (q : UInt32), L[l]? = some (some q) →
      L'[l]? = some (some q) ∨ b + c.bytes.length ≤ q.toNat) :
    OpChunk L b op c := by
  have hj : (∃ l, op.target = some l) → JumpChunk L' b op c → JumpChunk L b op c := by
    rintro ⟨l0, ht0⟩ ⟨l, ht, hp | ⟨q, far, f, hq, h1, h2, h3, h4⟩⟩
    · refine ⟨l, ht, Or.inl ⟨hp.1, fun q hq => ?_⟩⟩
      rcases orig l q hq with h' | h'
      · exact hp.2 q h'
      · have := chunk_bytes_pos_of_jump h l ht
        omega
    · exact ⟨l, ht, Or.inr ⟨q, far, f, mono l q hq, h1, h2, h3, h4⟩⟩
  cases op with
  | raw bs => exact h
  | bind l => exact ⟨h.1, mono _ _ h.2.1, h.2.2⟩
  | jmp l => exact hj ⟨l, rfl⟩ h
  | jmpNear l => exact hj ⟨l, rfl⟩ h
  | jcc c l => exact hj ⟨l, rfl⟩ h
  | jccNear c l => exact hj ⟨l, rfl⟩ h

theorem pendingOf_single_append (b : Nat) (c : Chunk) (cs : List Chunk) :
    pendingOf b (c :: cs) = pendingOf b [c] ++ pendingOf (b + c.bytes.length) cs := by
  cases c with
  | fin bs => simp only [pendingOf, Chunk.bytes, List.nil_append]
  | pend opc far l => simp only [pendingOf, Chunk.bytes, List.cons_append, List.nil_append]

theorem runOps_cons (op : JOp) (ops : List JOp) (s0 s1 : Asm) (starts : List Nat)
    (hr : (runOps (op :: ops)).run s0 = .ok (starts, s1)) :
    ∃ s0' ps, op.run.run s0 = .ok ((), s0') ∧ (runOps ops).run s0' = .ok (ps, s1) ∧ starts = s0.position :: ps := by
  simp only [runOps, StateT.run, bind, StateT.bind, Except.bind, position_eq] at hr
  cases h1 : op.run s0 with
  | error e => rw [h1] at hr; cases hr
  | ok r =>
    rw [h1] at hr
    simp only [] at hr
    cases h2 : runOps ops r.2 with
    | error e => rw [h2] at hr; cases hr
    | ok r2 =>
      rw [h2] at hr
      simp only [pure, StateT.pure, Except.pure, Except.ok.injEq, Prod.mk.injEq] at hr
      refine ⟨r.2, r2.1, ?_, ?_, hr.1.symm⟩
      · show op.run s0 = _; rw [h1]
      · show runOps ops r.2 = _; rw [h2, ← hr.2]

theorem runOps_phase (ops : List JOp) : ∀ (s0 s1 : Asm) (starts : List Nat),
    s0.position = s0.code.length → (runOps ops).run s0 = .ok (starts, s1) →
    s1.position = s1.code.length ∧ s1.has_avx2 = s0.has_avx2 ∧
    (∀ (l : Nat) (q : UInt32), s0.labels[l]? = some (some q) → s1.labels[l]? = some (some q)) ∧
    (∀ (l : Nat) (q : UInt32), s1.labels[l]? = some (some q) →
      s0.labels[l]? = some (some q) ∨ (JOp.bind l ∈ ops ∧ s0.code.length ≤ q.toNat ∧ q.toNat ≤ s1.code.length)) ∧
    ∃ cs, s1.code = s0.code ++ flat cs ∧
      s1.unresolved_jumps = s0.unresolved_jumps ++ pendingOf s0.code.length cs ∧
      RelA s1.labels s0.code.length ops cs starts := by
  induction ops with
  | nil =>
    intro s0 s1 starts h0 hr
    simp only [runOps, StateT.run, pure, StateT.pure, Except.pure, Except.ok.injEq, Prod.mk.injEq] at hr
    obtain ⟨rfl, rfl⟩ := hr
    exact ⟨h0, rfl, fun _ _ h => h, fun _ _ h => Or.inl h, [], by simp [flat], by simp [pendingOf], trivial⟩
  | cons op ops ih =>
    intro s0 s1 starts h0 hr
    obtain ⟨s0', ps, hop, hrest, hst⟩ := runOps_cons op ops s0 s1 starts hr
    obtain ⟨c, c1, c2, c3, c4, c5, c6⟩ := step_chunk op s0 s0' h0 hop
    obtain ⟨i1, i2, i3, i4, cs, i5, i6, i7⟩ := ih s0' s1 ps c2 hrest
    have hlen01 : s0'.code.length = s0.code.length + c.bytes.length := by rw [c1, List.length_append]
    have hlen1 : s0'.code.length ≤ s1.code.length := by rw [i5, List.length_append]; omega
    -- label facts of the single step
    have m0 : ∀ (l : Nat) (q : UInt32), s0.labels[l]? = some (some q) → s0'.labels[l]? = some (some q) := by
      intro l q h
      rcases c6 with ⟨e, _⟩ | ⟨l', _, hn, _, e⟩
      · rw [e]; exact h
      · rw [e]
        by_cases hll : l' = l
        · subst hll; rw [hn] at h; cases h
        · rw [List.getElem?_set_ne hll]; exact h
    have o0 : ∀ (l : Nat) (q : UInt32), s0'.labels[l]? = some (some q) →
        s0.labels[l]? = some (some q) ∨ (op = .bind l ∧ q.toNat = s0.code.length) := by
      intro l q h
      rcases c6 with ⟨e, _⟩ | ⟨l', hop', hn, hp, e⟩
      · rw [e] at h; exact Or.inl h
      · rw [e] at h
        by_cases hll : l' = l
        · subst hll
          rw [List.getElem?_set] at h
          simp only [if_true] at h
          split at h
          · simp only [Option.some.injEq] at h
            refine Or.inr ⟨hop', ?_⟩
            rw [← h, UInt32.toNat_ofNat']; simp only [Nat.reducePow]; omega
          · cases h
        · rw [List.getElem?_set_ne hll] at h; exact Or.inl h
    refine ⟨i1, by rw [i2, c4], fun l q h => i3 l q (m0 l q h), ?_, c :: cs, ?_, ?_, ?_⟩
    · intro l q h
      rcases i4 l q h with h' | ⟨hm, hlo, hhi⟩
      · rcases o0 l q h' with h'' | ⟨hb, hq⟩
        · exact Or.inl h''
        · exact Or.inr ⟨by rw [hb]; exact List.mem_cons_self, by omega, by omega⟩
      · exact Or.inr ⟨List.mem_cons_of_mem _ hm, by omega, hhi⟩
    · rw [i5, c1]; simp only [flat, List.append_assoc]
    · rw [i6, c3, pendingOf_single_append s0.code.length c cs, hlen01]; simp only [List.append_assoc]
    · rw [hst]
      refine ⟨h0, ?_, by rw [← hlen01]; exact i7⟩
      apply c5.lift i3
      intro l q h
      rcases i4 l q h with h' | ⟨_, hlo, _⟩
      · exact Or.inl h'
      · exact Or.inr (by omega)
