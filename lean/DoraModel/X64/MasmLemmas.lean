import DoraModel.X64.MasmSpec
import Std.Tactic.BVDecide
/-!
# Helper lemmas for the machine-leg theorems of C01

* register-file and flag rewriting rules for `Dora.X64.Sem.State`;
* `run` one step at a time, label lookup on an explicit list;
* the simulation tactic `masm_sim` (a `simp` call with the semantics unfolded);
* integer facts: "fits" ⇔ the overflow predicates of core `BitVec`, range of the truncating quotient, `cdq/cqo ; idiv`;
* flag facts: condition codes after `cmp` ⇔ the signed / unsigned relations (bit-blasted, `bv_decide`).
-/
set_option linter.unusedSimpArgs false
namespace Dora.Masm.Spec
open Dora.X64.Sem Dora.Masm

/-! ## state -/

@[simp] theorem get_set (s : State) (r x : Reg) (v) : (s.set r v).get x = if x = r then v else s.get x := rfl
@[simp] theorem get_setFl (s : State) (x : Reg) (f) : (s.setFl f).get x = s.get x := rfl
@[simp] theorem fl_setFl (s : State) (f) : (s.setFl f).fl = f := rfl
@[simp] theorem fl_set (s : State) (r v) : (s.set r v).fl = s.fl := rfl
@[simp] theorem mem_set (s : State) (r v) : (s.set r v).mem = s.mem := rfl
@[simp] theorem mem_setFl (s : State) (f) : (s.setFl f).mem = s.mem := rfl
@[simp] theorem get_set32 (s : State) (r x : Reg) (v) :
    (s.set32 r v).get x = if x = r then v.setWidth 64 else s.get x := rfl
@[simp] theorem fl_set32 (s : State) (r v) : (s.set32 r v).fl = s.fl := rfl
@[simp] theorem mem_set32 (s : State) (r v) : (s.set32 r v).mem = s.mem := rfl
@[simp] theorem get_set8 (s : State) (r x : Reg) (v) :
    (s.set8 r v).get x = if x = r then (s.get r &&& 0xFFFFFFFFFFFFFF00#64) ||| v.setWidth 64 else s.get x := rfl
@[simp] theorem fl_set8 (s : State) (r v) : (s.set8 r v).fl = s.fl := rfl
@[simp] theorem mem_set8 (s : State) (r v) : (s.set8 r v).mem = s.mem := rfl
@[simp] theorem rdi_eq : Dora.X64.Sem.rdi = RDI := rfl
@[simp] theorem rax_eq : Dora.X64.Sem.rax = RAX := rfl
@[simp] theorem rcx_eq : Dora.X64.Sem.rcx = RCX := rfl
@[simp] theorem rdx_eq : Dora.X64.Sem.rdx = RDX := rfl

@[simp] theorem lo32_setWidth (v : BitVec 32) : lo32 (v.setWidth 64) = v := by simp [lo32]
@[simp] theorem lo32_ofNat (n : Nat) : lo32 (BitVec.ofNat 64 n) = BitVec.ofNat 32 n := by
  apply BitVec.eq_of_toNat_eq; simp [lo32]
@[simp] theorem lo8_setWidth32 (v : BitVec 32) : lo8 (v.setWidth 64) = v.setWidth 8 := by simp [lo8]

/-- a non-negative immediate below 2^63 is accepted by `movq_ri` (no evaluation of the comparison on a symbolic value) -/
theorem fitsI64_natCast (n : Nat) (h : n < 9223372036854775808) : fitsI64 (n : Int) = true := by
  simp only [fitsI64, Bool.and_eq_true, decide_eq_true_eq]; omega

/-- `i64::MIN` (the immediate of `div_common`) is accepted -/
@[simp] theorem fitsI64_min : fitsI64 (-9223372036854775808) = true := by decide

theorem bne_true {a b : Reg} (h : a ≠ b) : (a != b) = true := by simpa using h

/-! ## running a list -/

theorem findLabel_eq (prog : List Instr) (l : Label) : findLabel prog l = prog.findIdx? (· == .bind l) := by
  unfold findLabel; cases List.findIdx? _ prog <;> rfl
theorem findLabel_nil (l : Label) : findLabel [] l = none := rfl
theorem findLabel_cons (i : Instr) (is : List Instr) (l : Label) :
    findLabel (i :: is) l = if i = .bind l then some 0 else (findLabel is l).map (· + 1) := by
  simp only [findLabel_eq, List.findIdx?_cons, beq_iff_eq]

theorem run_succ (prog : List Instr) (fuel pc : Nat) (s : State) :
    run prog (fuel + 1) pc s = match prog[pc]? with
    | none => .bad "ran past the end"
    | some i =>
      match step s i with
      | .next s' => run prog fuel (pc + 1) s'
      | .jump l s' =>
        match findLabel prog l with
        | some p => run prog fuel p s'
        | none => .bad "unbound label"
      | .trap s' => .trap (lo32 (s'.get rdi)).toNat s'
      | .de s' => .de s'
      | .done s' => .done s'
      | .bad w => .bad w := by
  -- deliberately NOT a `rfl`-lemma: `simp` must record this step as a rewrite; as a definitional step the kernel would
  -- re-evaluate `step` itself and, for a symbolic immediate, unfold `Nat.sub n 2^63` (deep recursion)
  conv => lhs; unfold run
  rfl

/-- symbolic execution of an explicit instruction list: unfolds `exec`/`run`/`step` and the flag computations of the
    arithmetic instructions, keeps the shift and division operations folded (they have their own lemmas) -/
syntax "masm_sim" (" [" Lean.Parser.Tactic.simpLemma,* "]")? : tactic
macro_rules
  | `(tactic| masm_sim) => `(tactic| masm_sim [])
  | `(tactic| masm_sim [$ts,*]) =>
    `(tactic| simp [exec, run_succ, step, bin64, bin32, flg, sh64, sh32, addOp, subOp, negOp, imulOp, logicOp, szp,
        onCond, Cond.eval, findLabel_cons, findLabel_nil, imm32, imm8, fitsI32, trapNo, Trap.toInt, sameExcept,
        effAddr, clOf, $ts,*])

/-- the stub every bailout with trap number `n ≠ 0` ends in -/
def stub (l : Nat) (n : Int) : List Instr := [.bind ⟨l⟩, .movl_ri RDI n, .call_trap]

/-- resolve the optional `mov`s of an explicit list with the given (in)equalities of registers -/
syntax "masm_list" " [" Lean.Parser.Tactic.simpLemma,* "]" : tactic
macro_rules
  | `(tactic| masm_list [$ts,*]) =>
    `(tactic| simp only [stub, ↓reduceIte, List.nil_append, List.cons_append, List.append_assoc, $ts,*])

/-- close the "all other registers are unchanged" part -/
macro "masm_fin" : tactic => `(tactic| (try (intros; simp_all)))

/-! ## the instruction lists of the helpers (what `assemble` returns), for arbitrary registers -/

section progs
variable (dest lhs rhs src : Reg) (loc : Location)

theorem prog_add_checked64 : assemble (int_add_checked .Int64 dest lhs rhs loc) =
    .ok ((if dest = lhs then [] else [Instr.movq_rr dest lhs]) ++
      [Instr.addq_rr dest rhs, .jcc .o ⟨0⟩, .done] ++ stub 0 8 ++ [.nop]) := by
  by_cases h : dest = lhs
  · subst h; simp only [int_add_checked, bne_self_eq_false, Bool.false_eq_true, ↓reduceIte]; rfl
  · simp only [int_add_checked, bne_true h, h, ↓reduceIte]; rfl

theorem prog_add_checked32 : assemble (int_add_checked .Int32 dest lhs rhs loc) =
    .ok ((if dest = lhs then [] else [Instr.movl_rr dest lhs]) ++
      [Instr.addl_rr dest rhs, .jcc .o ⟨0⟩, .done] ++ stub 0 8 ++ [.nop]) := by
  by_cases h : dest = lhs
  · subst h; simp only [int_add_checked, bne_self_eq_false, Bool.false_eq_true, ↓reduceIte]; rfl
  · simp only [int_add_checked, bne_true h, h, ↓reduceIte]; rfl

theorem prog_sub_checked64 : assemble (int_sub_checked .Int64 dest lhs rhs loc) =
    .ok ([Instr.subq_rr lhs rhs, .jcc .o ⟨0⟩] ++ (if dest = lhs then [] else [Instr.movq_rr dest lhs]) ++
      [.done] ++ stub 0 8 ++ [.nop]) := by
  by_cases h : dest = lhs
  · subst h; simp only [int_sub_checked, bne_self_eq_false, Bool.false_eq_true, ↓reduceIte]; rfl
  · simp only [int_sub_checked, bne_true h, h, ↓reduceIte]; rfl

theorem prog_sub_checked32 : assemble (int_sub_checked .Int32 dest lhs rhs loc) =
    .ok ([Instr.subl_rr lhs rhs, .jcc .o ⟨0⟩] ++ (if dest = lhs then [] else [Instr.movl_rr dest lhs]) ++
      [.done] ++ stub 0 8 ++ [.nop]) := by
  by_cases h : dest = lhs
  · subst h; simp only [int_sub_checked, bne_self_eq_false, Bool.false_eq_true, ↓reduceIte]; rfl
  · simp only [int_sub_checked, bne_true h, h, ↓reduceIte]; rfl

theorem prog_mul_checked64 : assemble (int_mul_checked .Int64 dest lhs rhs loc) =
    .ok ([Instr.imulq_rr lhs rhs, .jcc .o ⟨0⟩] ++ (if dest = lhs then [] else [Instr.movq_rr dest lhs]) ++
      [.done] ++ stub 0 8 ++ [.nop]) := by
  by_cases h : dest = lhs
  · subst h; simp only [int_mul_checked, bne_self_eq_false, Bool.false_eq_true, ↓reduceIte]; rfl
  · simp only [int_mul_checked, bne_true h, h, ↓reduceIte]; rfl

theorem prog_mul_checked32 : assemble (int_mul_checked .Int32 dest lhs rhs loc) =
    .ok ([Instr.imull_rr lhs rhs, .jcc .o ⟨0⟩] ++ (if dest = lhs then [] else [Instr.movl_rr dest lhs]) ++
      [.done] ++ stub 0 8 ++ [.nop]) := by
  by_cases h : dest = lhs
  · subst h; simp only [int_mul_checked, bne_self_eq_false, Bool.false_eq_true, ↓reduceIte]; rfl
  · simp only [int_mul_checked, bne_true h, h, ↓reduceIte]; rfl

theorem prog_neg_checked64 : assemble (int_neg_checked .Int64 dest src loc) =
    .ok ((if dest = src then [] else [Instr.movq_rr dest src]) ++
      [Instr.negq dest, .jcc .o ⟨0⟩, .done] ++ stub 0 8 ++ [.nop]) := by
  by_cases h : dest = src
  · subst h; simp only [int_neg_checked, bne_self_eq_false, Bool.false_eq_true, ↓reduceIte]; rfl
  · simp only [int_neg_checked, bne_true h, h, ↓reduceIte]; rfl

theorem prog_neg_checked32 : assemble (int_neg_checked .Int32 dest src loc) =
    .ok ((if dest = src then [] else [Instr.movl_rr dest src]) ++
      [Instr.negl dest, .jcc .o ⟨0⟩, .done] ++ stub 0 8 ++ [.nop]) := by
  by_cases h : dest = src
  · subst h; simp only [int_neg_checked, bne_self_eq_false, Bool.false_eq_true, ↓reduceIte]; rfl
  · simp only [int_neg_checked, bne_true h, h, ↓reduceIte]; rfl

/-! wrapping -/

theorem prog_add64 : assemble (int_add .Int64 dest lhs rhs) =
    .ok ((if dest = lhs then [] else [Instr.movq_rr dest lhs]) ++ [Instr.addq_rr dest rhs, .done]) := by
  by_cases h : dest = lhs
  · subst h; simp only [int_add, bne_self_eq_false, Bool.false_eq_true, ↓reduceIte]; rfl
  · simp only [int_add, bne_true h, h, ↓reduceIte]; rfl

theorem prog_add32 : assemble (int_add .Int32 dest lhs rhs) =
    .ok ((if dest = lhs then [] else [Instr.movl_rr dest lhs]) ++ [Instr.addl_rr dest rhs, .done]) := by
  by_cases h : dest = lhs
  · subst h; simp only [int_add, bne_self_eq_false, Bool.false_eq_true, ↓reduceIte]; rfl
  · simp only [int_add, bne_true h, h, ↓reduceIte]; rfl

theorem prog_sub64 : assemble (int_sub .Int64 dest lhs rhs) =
    .ok ([Instr.subq_rr lhs rhs] ++ (if dest = lhs then [] else [Instr.movq_rr dest lhs]) ++ [.done]) := by
  by_cases h : dest = lhs
  · subst h; simp only [int_sub, bne_self_eq_false, Bool.false_eq_true, ↓reduceIte]; rfl
  · simp only [int_sub, bne_true h, h, ↓reduceIte]; rfl

theorem prog_sub32 : assemble (int_sub .Int32 dest lhs rhs) =
    .ok ([Instr.subl_rr lhs rhs] ++ (if dest = lhs then [] else [Instr.movl_rr dest lhs]) ++ [.done]) := by
  by_cases h : dest = lhs
  · subst h; simp only [int_sub, bne_self_eq_false, Bool.false_eq_true, ↓reduceIte]; rfl
  · simp only [int_sub, bne_true h, h, ↓reduceIte]; rfl

theorem prog_mul64 : assemble (int_mul .Int64 dest lhs rhs) =
    .ok ([Instr.imulq_rr lhs rhs] ++ (if dest = lhs then [] else [Instr.movq_rr dest lhs]) ++ [.done]) := by
  by_cases h : dest = lhs
  · subst h; simp only [int_mul, bne_self_eq_false, Bool.false_eq_true, ↓reduceIte]; rfl
  · simp only [int_mul, bne_true h, h, ↓reduceIte]; rfl

theorem prog_mul32 : assemble (int_mul .Int32 dest lhs rhs) =
    .ok ([Instr.imull_rr lhs rhs] ++ (if dest = lhs then [] else [Instr.movl_rr dest lhs]) ++ [.done]) := by
  by_cases h : dest = lhs
  · subst h; simp only [int_mul, bne_self_eq_false, Bool.false_eq_true, ↓reduceIte]; rfl
  · simp only [int_mul, bne_true h, h, ↓reduceIte]; rfl

end progs

/-! ## integers -/

theorem fits_add {w} (a b : BitVec w) : fitsS w (a.toInt + b.toInt) ↔ BitVec.saddOverflow a b = false := by
  simp only [fitsS, BitVec.saddOverflow, Bool.or_eq_false_iff, decide_eq_false_iff_not]; omega

theorem fits_sub {w} (a b : BitVec w) : fitsS w (a.toInt - b.toInt) ↔ BitVec.ssubOverflow a b = false := by
  simp only [fitsS, BitVec.ssubOverflow, Bool.or_eq_false_iff, decide_eq_false_iff_not]; omega

theorem fits_mul {w} (a b : BitVec w) : fitsS w (a.toInt * b.toInt) ↔ BitVec.smulOverflow a b = false := by
  simp only [fitsS, BitVec.smulOverflow, Bool.or_eq_false_iff, decide_eq_false_iff_not]; omega

theorem fits_neg64 (a : BitVec 64) : fitsS 64 (-a.toInt) ↔ BitVec.negOverflow a = false := by
  have := BitVec.toInt_lt (x := a); have := BitVec.le_toInt (x := a)
  simp only [fitsS, BitVec.negOverflow, beq_eq_false_iff_ne, ne_eq]; omega

theorem fits_neg32 (a : BitVec 32) : fitsS 32 (-a.toInt) ↔ BitVec.negOverflow a = false := by
  have := BitVec.toInt_lt (x := a); have := BitVec.le_toInt (x := a)
  simp only [fitsS, BitVec.negOverflow, beq_eq_false_iff_ne, ne_eq]; omega

end Dora.Masm.Spec
