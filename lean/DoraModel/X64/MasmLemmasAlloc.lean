import DoraModel.X64.MasmLemmas3
import DoraModel.X64.MasmRuntimeRules
import DoraModel.Alloc.Lemmas
/-!
# Helper lemmas for `Props/C13Masm.lean`: the instruction lists of `determine_array_size` and `compute_remembered_bit`
-/
set_option linter.unusedSimpArgs false
set_option linter.unusedVariables false
namespace Dora.Masm.Spec
open Dora.X64.Sem Dora.Masm

/-- `header_size` of `determine_array_size`: `Header::size() + ptr_width()` or 0 -/
def hdrSize (withHeader : Bool) : Nat := if withHeader then 16 else 0

/-- `(header_size + length * element_size + 7) & !7` in 64-bit wrap-around arithmetic -/
def arraySize (withHeader : Bool) (len : BitVec 64) (es : Nat) : BitVec 64 :=
  (len * BitVec.ofNat 64 es + BitVec.ofNat 64 (hdrSize withHeader + 7)) &&& BitVec.ofInt 64 (-8)

theorem prog_array_size_mul (dest length : Reg) (es : Int) (hdr : Bool)
    (h0 : es ≠ 0) (h1 : es ≠ 1) (h2 : es ≠ 2) (h4 : es ≠ 4) (h8 : es ≠ 8) :
    assemble (determine_array_size dest length es hdr) =
      .ok [Instr.movq_ri RDI es, .imulq_rr RDI length, .addq_ri RDI ((hdrSize hdr : Int) + 7), .movq_rr dest RDI,
        .andq_ri dest (-8), .done] := by
  have e0 : (es == 0) = false := by simpa using h0
  have e1 : (es == 1) = false := by simpa using h1
  have e2 : (es == 2) = false := by simpa using h2
  have e4 : (es == 4) = false := by simpa using h4
  have e8 : (es == 8) = false := by simpa using h8
  have n8 : (es != 8) = true := by simpa using h8
  cases hdr <;>
  simp only [determine_array_size, ptr_width, Header.size, load_int_const, pure_bind, e0, e1, e2, e4, e8, n8, Bool.or_self,
    Bool.false_eq_true, ↓reduceIte, hdrSize] <;> rfl

theorem prog_array_size_1 (dest length : Reg) (hdr : Bool) : assemble (determine_array_size dest length 1 hdr) =
    .ok [Instr.lea dest { index := some (length, 1), disp := (hdrSize hdr : Int) + 7 }, .andq_ri dest (-8), .done] := by
  cases hdr <;> rfl
theorem prog_array_size_2 (dest length : Reg) (hdr : Bool) : assemble (determine_array_size dest length 2 hdr) =
    .ok [Instr.lea dest { index := some (length, 2), disp := (hdrSize hdr : Int) + 7 }, .andq_ri dest (-8), .done] := by
  cases hdr <;> rfl
theorem prog_array_size_4 (dest length : Reg) (hdr : Bool) : assemble (determine_array_size dest length 4 hdr) =
    .ok [Instr.lea dest { index := some (length, 4), disp := (hdrSize hdr : Int) + 7 }, .andq_ri dest (-8), .done] := by
  cases hdr <;> rfl
theorem prog_array_size_8 (dest length : Reg) (hdr : Bool) : assemble (determine_array_size dest length 8 hdr) =
    .ok [Instr.lea dest { index := some (length, 8), disp := (hdrSize hdr : Int) }, .done] := by
  cases hdr <;> rfl

theorem prog_remembered (dest size : Reg) : assemble (compute_remembered_bit dest size) =
    .ok [Instr.xorl_rr dest dest, .cmpq_ri size LARGE_OBJECT_SIZE, .setcc_r .b dest, .shlq_ri dest REMEMBERED_BIT_SHIFT, .done] := rfl

/-- a multiple of 8 plus a multiple of 8 is already aligned: the `es = 8` branch needs no `and` -/
theorem aligned8_hdr (x : BitVec 64) : x * 8#64 + 16#64 = (x * 8#64 + 23#64) &&& 18446744073709551608#64 := by
  bv_decide (timeout := 600)
theorem aligned8_nohdr (x : BitVec 64) : x * 8#64 = (x * 8#64 + 7#64) &&& 18446744073709551608#64 := by
  bv_decide (timeout := 600)

/-- simulation of `compute_remembered_bit`: bit `REMEMBERED_BIT_SHIFT` is set iff `size <u LARGE_OBJECT_SIZE` -/
theorem remembered_sim (dest size : Reg) (s : State) (hal : dest ≠ size) :
    ∃ s', exec [Instr.xorl_rr dest dest, .cmpq_ri size LARGE_OBJECT_SIZE, .setcc_r .b dest, .shlq_ri dest REMEMBERED_BIT_SHIFT, .done] s
        = .done s' ∧
      s'.get dest = Dora.Runtime.rememberedWord (decide ((s.get size).toNat < Dora.Runtime.largeObjectSize)) ∧
      sameExcept [dest] s s' := by
  by_cases h : (s.get size).toNat < 32768
  · masm_sim [LARGE_OBJECT_SIZE, REMEMBERED_BIT_SHIFT, BitVec.usubOverflow, h, hal, Ne.symm hal, Dora.Runtime.rememberedWord,
      Dora.Runtime.largeObjectSize, Dora.Runtime.rememberedBitShift]
    masm_fin
  · masm_sim [LARGE_OBJECT_SIZE, REMEMBERED_BIT_SHIFT, BitVec.usubOverflow, h, hal, Ne.symm hal, Dora.Runtime.rememberedWord,
      Dora.Runtime.largeObjectSize, Dora.Runtime.rememberedBitShift]
    masm_fin

end Dora.Masm.Spec
