import DoraModel.X64.AddrFast
/-! C07 — `Address::array` for bases 4–7: the constructor's result has a legal shape (REX.X from the index, REX.B from the
base, 1–6 bytes, reg field of the first byte clear) for every index, scale and i32 displacement (pieces of `array_shape`). -/
set_option linter.unusedSimpArgs false
set_option maxRecDepth 4000
set_option Elab.async false
namespace Dora.X64
open Dora.X64.Dec

theorem array_shape4 (index : Fin 16) (hi : index.val ≠ 4 ∧ index.val ≠ 12) (scale : Fin 4) (disp : Int32) :
    (Address.array (Rn 4) (R index) (Sn scale.val) disp).map (shapeOKm (decide (8 ≤ index.val)) (decide (8 ≤ 4))) = .ok true := by
  revert hi scale
  refine forall_fin16 (p := fun i => (i ≠ 4 ∧ i ≠ 12) → ∀ scale : Fin 4,
      (Address.array (Rn 4) (Rn i) (Sn scale.val) disp).map (shapeOKm (decide (8 ≤ i)) (decide (8 ≤ 4))) = .ok true)
    ?_ ?_ ?_ ?_ ?_ ?_ ?_ ?_ ?_ ?_ ?_ ?_ ?_ ?_ ?_ ?_ index
  all_goals intro hi
  all_goals first
    | (exfalso; omega)
    | (refine forall_fin4 (p := fun s => (Address.array (Rn _) (Rn _) (Sn s) disp).map (shapeOKm _ _) = .ok true) ?_ ?_ ?_ ?_
       all_goals addr_classes_plain Address.array disp)

theorem array_shape5 (index : Fin 16) (hi : index.val ≠ 4 ∧ index.val ≠ 12) (scale : Fin 4) (disp : Int32) :
    (Address.array (Rn 5) (R index) (Sn scale.val) disp).map (shapeOKm (decide (8 ≤ index.val)) (decide (8 ≤ 5))) = .ok true := by
  revert hi scale
  refine forall_fin16 (p := fun i => (i ≠ 4 ∧ i ≠ 12) → ∀ scale : Fin 4,
      (Address.array (Rn 5) (Rn i) (Sn scale.val) disp).map (shapeOKm (decide (8 ≤ i)) (decide (8 ≤ 5))) = .ok true)
    ?_ ?_ ?_ ?_ ?_ ?_ ?_ ?_ ?_ ?_ ?_ ?_ ?_ ?_ ?_ ?_ index
  all_goals intro hi
  all_goals first
    | (exfalso; omega)
    | (refine forall_fin4 (p := fun s => (Address.array (Rn _) (Rn _) (Sn s) disp).map (shapeOKm _ _) = .ok true) ?_ ?_ ?_ ?_
       all_goals addr_classes_plain Address.array disp)

theorem array_shape6 (index : Fin 16) (hi : index.val ≠ 4 ∧ index.val ≠ 12) (scale : Fin 4) (disp : Int32) :
    (Address.array (Rn 6) (R index) (Sn scale.val) disp).map (shapeOKm (decide (8 ≤ index.val)) (decide (8 ≤ 6))) = .ok true := by
  revert hi scale
  refine forall_fin16 (p := fun i => (i ≠ 4 ∧ i ≠ 12) → ∀ scale : Fin 4,
      (Address.array (Rn 6) (Rn i) (Sn scale.val) disp).map (shapeOKm (decide (8 ≤ i)) (decide (8 ≤ 6))) = .ok true)
    ?_ ?_ ?_ ?_ ?_ ?_ ?_ ?_ ?_ ?_ ?_ ?_ ?_ ?_ ?_ ?_ index
  all_goals intro hi
  all_goals first
    | (exfalso; omega)
    | (refine forall_fin4 (p := fun s => (Address.array (Rn _) (Rn _) (Sn s) disp).map (shapeOKm _ _) = .ok true) ?_ ?_ ?_ ?_
       all_goals addr_classes_plain Address.array disp)

theorem array_shape7 (index : Fin 16) (hi : index.val ≠ 4 ∧ index.val ≠ 12) (scale : Fin 4) (disp : Int32) :
    (Address.array (Rn 7) (R index) (Sn scale.val) disp).map (shapeOKm (decide (8 ≤ index.val)) (decide (8 ≤ 7))) = .ok true := by
  revert hi scale
  refine forall_fin16 (p := fun i => (i ≠ 4 ∧ i ≠ 12) → ∀ scale : Fin 4,
      (Address.array (Rn 7) (Rn i) (Sn scale.val) disp).map (shapeOKm (decide (8 ≤ i)) (decide (8 ≤ 7))) = .ok true)
    ?_ ?_ ?_ ?_ ?_ ?_ ?_ ?_ ?_ ?_ ?_ ?_ ?_ ?_ ?_ ?_ index
  all_goals intro hi
  all_goals first
    | (exfalso; omega)
    | (refine forall_fin4 (p := fun s => (Address.array (Rn _) (Rn _) (Sn s) disp).map (shapeOKm _ _) = .ok true) ?_ ?_ ?_ ?_
       all_goals addr_classes_plain Address.array disp)

end Dora.X64
