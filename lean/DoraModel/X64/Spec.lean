import DoraModel.Gen.X64
import DoraModel.X64.Dec
/-!
# C07 — the requested instruction per assembler method (hand-written specification)

For every public instruction method of `AssemblerX64` the instruction its *name and operands* ask for, as a value of
the reference decoder's `Instr` type: mnemonic, operand size, operands (Intel order, destination first), condition code,
`lock`, VEX. This is the formal reading of "the instruction that was requested". It is written from the method names
(`<mnemonic><size>_<operand kinds>`, AT&T size letters) and parameter names, not from the method bodies.

Immediates are compared as the signed value at the operand size (so `cmpl …, 0xFFFFFFFF` and `cmpl …, -1` are the same
request). Memory operands are requested through `AddrReq` (what `Address::offset/index/array/rip` are asked to denote),
not through the encoded `Address` bytes. Condition codes are the hardware numbers (`Equal` = 4 …), listed here by hand.

A method that has no entry here is reported as `unspecified` by the check (the translator looks for `def <method>`).
-/
set_option linter.constructorNameAsVariable false
namespace Dora.X64
open Dora.X64.Dec

/-- what the caller asks an `Address` constructor to denote -/
inductive AddrReq
  | off (base : Register) (disp : Int32)
  | idx (index : Register) (scale : ScaleFactor) (disp : Int32)
  | arr (base : Register) (index : Register) (scale : ScaleFactor) (disp : Int32)
  | rip (disp : Int32)
  deriving DecidableEq, Repr

/-- the scale factor as a multiplier -/
def scaleOf : ScaleFactor → Nat
  | .One => 1 | .Two => 2 | .Four => 4 | .Eight => 8

/-- the memory operand an `AddrReq` stands for -/
def AddrReq.opnd : AddrReq → Opnd
  | .off b d => .mem (some b.v0.toNat) none d.toInt
  | .idx i s d => .mem none (some (i.v0.toNat, scaleOf s)) d.toInt
  | .arr b i s d => .mem (some b.v0.toNat) (some (i.v0.toNat, scaleOf s)) d.toInt
  | .rip d => .ripRel d.toInt

/-- the (translated) constructor call that builds the encoded `Address` -/
def AddrReq.build : AddrReq → Except String Address
  | .off b d => Address.offset b d
  | .idx i s d => Address.index i s d
  | .arr b i s d => Address.array b i s d
  | .rip d => Address.rip d

/-- hardware condition-code numbers (SDM vol. 1 app. B) -/
def ccOf : Condition → Nat
  | .Overflow => 0 | .NoOverflow => 1
  | .Below | .NeitherAboveNorEqual => 2
  | .NotBelow | .AboveOrEqual => 3
  | .Equal | .Zero => 4
  | .NotEqual | .NotZero => 5
  | .BelowOrEqual | .NotAbove => 6
  | .NeitherBelowNorEqual | .Above => 7
  | .Sign => 8 | .NoSign => 9
  | .Parity | .ParityEven => 10
  | .NoParity | .ParityOdd => 11
  | .Less | .NeitherGreaterNorEqual => 12
  | .NotLess | .GreaterOrEqual => 13
  | .LessOrEqual | .NotGreater => 14
  | .NeitherLessNorEqual | .Greater => 15

inductive SpecResult
  | unspecified
  /-- the requested instruction -/
  | plain (i : Instr)
  /-- the requested instruction with one operand `.rel 0` / `.ripRel 0` that must end up pointing at label `l` -/
  | toLabel (i : Instr) (l : Label)
  deriving Repr

def rq (r : Register) : Opnd := .reg .q r.v0.toNat
def rl (r : Register) : Opnd := .reg .l r.v0.toNat
def rb (r : Register) : Opnd := .reg .b r.v0.toNat
def xm (x : XmmRegister) : Opnd := .xmm x.v0.toNat

/-- the immediate as the signed value of its low `bits` bits -/
def immS (bits : Nat) (i : Immediate) : Opnd := .imm (sxN bits ((i.v0.toInt % (2 ^ bits : Nat)).toNat))
/-- shift counts: the low 8 bits, unsigned -/
def immU8 (i : Immediate) : Opnd := .imm (i.v0.toInt % 256)
def inS32 (i : Immediate) : Bool := decide (-2147483648 ≤ i.v0.toInt) && decide (i.v0.toInt < 2147483648)

def I (m : Mnem) (w : W) (ops : List Opnd) : SpecResult := .plain { mnem := m, sz := some w, ops := ops }
def IL (m : Mnem) (w : W) (ops : List Opnd) : SpecResult := .plain { mnem := m, sz := some w, ops := ops, lock := true }
def IC (m : Mnem) (c : Condition) (w : Option W) (ops : List Opnd) : SpecResult :=
  .plain { mnem := m, sz := w, ops := ops, cc := some (ccOf c) }
def N (m : Mnem) (ops : List Opnd) : SpecResult := .plain { mnem := m, ops := ops }
def NL (m : Mnem) (ops : List Opnd) (l : Label) : SpecResult := .toLabel { mnem := m, ops := ops } l
def V (w : Option W) (m : Mnem) (ops : List Opnd) : SpecResult := .plain { mnem := m, sz := w, ops := ops, vex := true }
def VL (m : Mnem) (ops : List Opnd) (l : Label) : SpecResult := .toLabel { mnem := m, ops := ops, vex := true } l

namespace Spec

def addl_ri (a : Register) (i : Immediate) : SpecResult := I .add .l [rl a, immS 32 i]
def addl_rr (a : Register) (b : Register) : SpecResult := I .add .l [rl a, rl b]
def addq_ri (a : Register) (i : Immediate) : SpecResult := I .add .q [rq a, immS 64 i]
def addq_rr (a : Register) (b : Register) : SpecResult := I .add .q [rq a, rq b]
def addsd_rr (a : XmmRegister) (b : XmmRegister) : SpecResult := N .addsd [xm a, xm b]
def addss_rr (a : XmmRegister) (b : XmmRegister) : SpecResult := N .addss [xm a, xm b]
def andl_rr (a : Register) (b : Register) : SpecResult := I .and .l [rl a, rl b]
def andps_ra (a : XmmRegister) (b : AddrReq) : SpecResult := N .andps [xm a, b.opnd]
def andps_rl (a : XmmRegister) (l : Label) : SpecResult := NL .andps [xm a, .ripRel 0] l
def andq_ri (a : Register) (i : Immediate) : SpecResult := I .and .q [rq a, immS 64 i]
def andq_rr (a : Register) (b : Register) : SpecResult := I .and .q [rq a, rq b]
def call_r (a : Register) : SpecResult := I .call .q [rq a]
def call_rel32 (d : Int32) : SpecResult := N .call [.rel d.toInt]
def cdq  : SpecResult := N .cdq []
def cmovl (c : Condition) (a : Register) (b : Register) : SpecResult := IC .cmovcc c (some .l) [rl a, rl b]
def cmovq (c : Condition) (a : Register) (b : Register) : SpecResult := IC .cmovcc c (some .q) [rq a, rq b]
def cmpb_ai (a : AddrReq) (i : Immediate) : SpecResult := I .cmp .b [a.opnd, immS 8 i]
def cmpb_ar (a : AddrReq) (b : Register) : SpecResult := I .cmp .b [a.opnd, rb b]
def cmpb_rr (a : Register) (b : Register) : SpecResult := I .cmp .b [rb a, rb b]
def cmpl_ai (a : AddrReq) (i : Immediate) : SpecResult := I .cmp .l [a.opnd, immS 32 i]
def cmpl_ar (a : AddrReq) (b : Register) : SpecResult := I .cmp .l [a.opnd, rl b]
def cmpl_ri (a : Register) (i : Immediate) : SpecResult := I .cmp .l [rl a, immS 32 i]
def cmpl_rr (a : Register) (b : Register) : SpecResult := I .cmp .l [rl a, rl b]
def cmpq_ai (a : AddrReq) (i : Immediate) : SpecResult := I .cmp .q [a.opnd, immS 64 i]
def cmpq_ar (a : AddrReq) (b : Register) : SpecResult := I .cmp .q [a.opnd, rq b]
def cmpq_ri (a : Register) (i : Immediate) : SpecResult := I .cmp .q [rq a, immS 64 i]
def cmpq_rr (a : Register) (b : Register) : SpecResult := I .cmp .q [rq a, rq b]
def cmpxchgl_ar (a : AddrReq) (b : Register) : SpecResult := I .cmpxchg .l [a.opnd, rl b]
def cmpxchgq_ar (a : AddrReq) (b : Register) : SpecResult := I .cmpxchg .q [a.opnd, rq b]
def cqo  : SpecResult := N .cqo []
def cvtsd2ss_rr (a : XmmRegister) (b : XmmRegister) : SpecResult := N .cvtsd2ss [xm a, xm b]
def cvtsi2sdd_rr (a : XmmRegister) (b : Register) : SpecResult := I .cvtsi2sd .l [xm a, rl b]
def cvtsi2sdq_rr (a : XmmRegister) (b : Register) : SpecResult := I .cvtsi2sd .q [xm a, rq b]
def cvtsi2ssd_rr (a : XmmRegister) (b : Register) : SpecResult := I .cvtsi2ss .l [xm a, rl b]
def cvtsi2ssq_rr (a : XmmRegister) (b : Register) : SpecResult := I .cvtsi2ss .q [xm a, rq b]
def cvtss2sd_rr (a : XmmRegister) (b : XmmRegister) : SpecResult := N .cvtss2sd [xm a, xm b]
def cvttsd2sid_rr (a : Register) (b : XmmRegister) : SpecResult := I .cvttsd2si .l [rl a, xm b]
def cvttsd2siq_rr (a : Register) (b : XmmRegister) : SpecResult := I .cvttsd2si .q [rq a, xm b]
def cvttss2sid_rr (a : Register) (b : XmmRegister) : SpecResult := I .cvttss2si .l [rl a, xm b]
def cvttss2siq_rr (a : Register) (b : XmmRegister) : SpecResult := I .cvttss2si .q [rq a, xm b]
def divsd_rr (a : XmmRegister) (b : XmmRegister) : SpecResult := N .divsd [xm a, xm b]
def divss_rr (a : XmmRegister) (b : XmmRegister) : SpecResult := N .divss [xm a, xm b]
def idivl_r (a : Register) : SpecResult := I .idiv .l [rl a]
def idivq_r (a : Register) : SpecResult := I .idiv .q [rq a]
def imull_rr (a : Register) (b : Register) : SpecResult := I .imul .l [rl a, rl b]
def imulq_rr (a : Register) (b : Register) : SpecResult := I .imul .q [rq a, rq b]
def int3  : SpecResult := N .int3 []
def jcc (c : Condition) (l : Label) : SpecResult := .toLabel { mnem := .jcc, cc := some (ccOf c), ops := [.rel 0] } l
def jcc_near (c : Condition) (l : Label) : SpecResult := .toLabel { mnem := .jcc, cc := some (ccOf c), ops := [.rel 0] } l
def jmp (l : Label) : SpecResult := .toLabel { mnem := .jmp, ops := [.rel 0] } l
def jmp_near (l : Label) : SpecResult := .toLabel { mnem := .jmp, ops := [.rel 0] } l
def jmp_r (a : Register) : SpecResult := I .jmp .q [rq a]
def lea (a : Register) (b : AddrReq) : SpecResult := I .lea .q [rq a, b.opnd]
def lock_cmpxchgl_ar (a : AddrReq) (b : Register) : SpecResult := IL .cmpxchg .l [a.opnd, rl b]
def lock_cmpxchgq_ar (a : AddrReq) (b : Register) : SpecResult := IL .cmpxchg .q [a.opnd, rq b]
def lock_xaddl_ar (a : AddrReq) (b : Register) : SpecResult := IL .xadd .l [a.opnd, rl b]
def lock_xaddq_ar (a : AddrReq) (b : Register) : SpecResult := IL .xadd .q [a.opnd, rq b]
def lzcntl_rr (a : Register) (b : Register) : SpecResult := I .lzcnt .l [rl a, rl b]
def lzcntq_rr (a : Register) (b : Register) : SpecResult := I .lzcnt .q [rq a, rq b]
def mfence  : SpecResult := N .mfence []
def movaps_ar (a : AddrReq) (b : XmmRegister) : SpecResult := N .movaps [a.opnd, xm b]
def movb_ai (a : AddrReq) (i : Immediate) : SpecResult := I .mov .b [a.opnd, immS 8 i]
def movb_ar (a : AddrReq) (b : Register) : SpecResult := I .mov .b [a.opnd, rb b]
def movb_ra (a : Register) (b : AddrReq) : SpecResult := I .mov .b [rb a, b.opnd]
def movd_rx (a : Register) (b : XmmRegister) : SpecResult := I .movd .l [rl a, xm b]
def movd_xr (a : XmmRegister) (b : Register) : SpecResult := I .movd .l [xm a, rl b]
def movl_ai (a : AddrReq) (i : Immediate) : SpecResult := I .mov .l [a.opnd, immS 32 i]
def movl_ar (a : AddrReq) (b : Register) : SpecResult := I .mov .l [a.opnd, rl b]
def movl_ra (a : Register) (b : AddrReq) : SpecResult := I .mov .l [rl a, b.opnd]
def movl_ri (a : Register) (i : Immediate) : SpecResult := I .mov .l [rl a, immS 32 i]
def movl_rr (a : Register) (b : Register) : SpecResult := I .mov .l [rl a, rl b]
def movq_ai (a : AddrReq) (i : Immediate) : SpecResult := I .mov .q [a.opnd, immS 64 i]
def movq_ar (a : AddrReq) (b : Register) : SpecResult := I .mov .q [a.opnd, rq b]
def movq_ra (a : Register) (b : AddrReq) : SpecResult := I .mov .q [rq a, b.opnd]
def movq_ri (a : Register) (i : Immediate) : SpecResult := I (if inS32 i then .mov else .movabs) .q [rq a, immS 64 i]
def movq_rl (a : Register) (l : Label) : SpecResult := .toLabel { mnem := .mov, sz := some .q, ops := [rq a, .ripRel 0] } l
def movq_rr (a : Register) (b : Register) : SpecResult := I .mov .q [rq a, rq b]
def movq_rx (a : Register) (b : XmmRegister) : SpecResult := I .movq .q [rq a, xm b]
def movq_xr (a : XmmRegister) (b : Register) : SpecResult := I .movq .q [xm a, rq b]
def movsd_ar (a : AddrReq) (b : XmmRegister) : SpecResult := N .movsd [a.opnd, xm b]
def movsd_ra (a : XmmRegister) (b : AddrReq) : SpecResult := N .movsd [xm a, b.opnd]
def movsd_rl (a : XmmRegister) (l : Label) : SpecResult := NL .movsd [xm a, .ripRel 0] l
def movsd_rr (a : XmmRegister) (b : XmmRegister) : SpecResult := N .movsd [xm a, xm b]
def movss_ar (a : AddrReq) (b : XmmRegister) : SpecResult := N .movss [a.opnd, xm b]
def movss_ra (a : XmmRegister) (b : AddrReq) : SpecResult := N .movss [xm a, b.opnd]
def movss_rl (a : XmmRegister) (l : Label) : SpecResult := NL .movss [xm a, .ripRel 0] l
def movss_rr (a : XmmRegister) (b : XmmRegister) : SpecResult := N .movss [xm a, xm b]
def movsxbl_ra (a : Register) (b : AddrReq) : SpecResult := I .movsx .l [rl a, b.opnd]
def movsxbl_rr (a : Register) (b : Register) : SpecResult := I .movsx .l [rl a, rb b]
def movsxbq_ra (a : Register) (b : AddrReq) : SpecResult := I .movsx .q [rq a, b.opnd]
def movsxbq_rr (a : Register) (b : Register) : SpecResult := I .movsx .q [rq a, rb b]
def movsxlq_rr (a : Register) (b : Register) : SpecResult := I .movsxd .q [rq a, rl b]
def movups_ar (a : AddrReq) (b : XmmRegister) : SpecResult := N .movups [a.opnd, xm b]
def movzxb_ra (a : Register) (b : AddrReq) : SpecResult := I .movzx .l [rl a, b.opnd]
def movzxb_rr (a : Register) (b : Register) : SpecResult := I .movzx .l [rl a, rb b]
def mulsd_rr (a : XmmRegister) (b : XmmRegister) : SpecResult := N .mulsd [xm a, xm b]
def mulss_rr (a : XmmRegister) (b : XmmRegister) : SpecResult := N .mulss [xm a, xm b]
def negl (a : Register) : SpecResult := I .neg .l [rl a]
def negq (a : Register) : SpecResult := I .neg .q [rq a]
def nop  : SpecResult := N .nop []
def notl (a : Register) : SpecResult := I .not .l [rl a]
def notq (a : Register) : SpecResult := I .not .q [rq a]
def orl_rr (a : Register) (b : Register) : SpecResult := I .or .l [rl a, rl b]
def orq_rr (a : Register) (b : Register) : SpecResult := I .or .q [rq a, rq b]
def popcntl_rr (a : Register) (b : Register) : SpecResult := I .popcnt .l [rl a, rl b]
def popcntq_rr (a : Register) (b : Register) : SpecResult := I .popcnt .q [rq a, rq b]
def popq_r (a : Register) : SpecResult := I .pop .q [rq a]
def pushq_r (a : Register) : SpecResult := I .push .q [rq a]
def pxor_rr (a : XmmRegister) (b : XmmRegister) : SpecResult := N .pxor [xm a, xm b]
def retq  : SpecResult := N .ret []
def roll_r (a : Register) : SpecResult := I .rol .l [rl a, .reg .b 1]
def rolq_r (a : Register) : SpecResult := I .rol .q [rq a, .reg .b 1]
def rorl_r (a : Register) : SpecResult := I .ror .l [rl a, .reg .b 1]
def rorq_r (a : Register) : SpecResult := I .ror .q [rq a, .reg .b 1]
def roundsd_ri (a : XmmRegister) (b : XmmRegister) (m : UInt8) : SpecResult := N .roundsd [xm a, xm b, .imm m.toNat]
def roundss_ri (a : XmmRegister) (b : XmmRegister) (m : UInt8) : SpecResult := N .roundss [xm a, xm b, .imm m.toNat]
def sarl_r (a : Register) : SpecResult := I .sar .l [rl a, .reg .b 1]
def sarl_ri (a : Register) (i : Immediate) : SpecResult := I .sar .l [rl a, immU8 i]
def sarq_r (a : Register) : SpecResult := I .sar .q [rq a, .reg .b 1]
def sarq_ri (a : Register) (i : Immediate) : SpecResult := I .sar .q [rq a, immU8 i]
def setcc_r (c : Condition) (a : Register) : SpecResult := IC .setcc c (some .b) [rb a]
def shll_r (a : Register) : SpecResult := I .shl .l [rl a, .reg .b 1]
def shll_ri (a : Register) (i : Immediate) : SpecResult := I .shl .l [rl a, immU8 i]
def shlq_r (a : Register) : SpecResult := I .shl .q [rq a, .reg .b 1]
def shlq_ri (a : Register) (i : Immediate) : SpecResult := I .shl .q [rq a, immU8 i]
def shrl_r (a : Register) : SpecResult := I .shr .l [rl a, .reg .b 1]
def shrl_ri (a : Register) (i : Immediate) : SpecResult := I .shr .l [rl a, immU8 i]
def shrq_r (a : Register) : SpecResult := I .shr .q [rq a, .reg .b 1]
def shrq_ri (a : Register) (i : Immediate) : SpecResult := I .shr .q [rq a, immU8 i]
def sqrtsd_rr (a : XmmRegister) (b : XmmRegister) : SpecResult := N .sqrtsd [xm a, xm b]
def sqrtss_rr (a : XmmRegister) (b : XmmRegister) : SpecResult := N .sqrtss [xm a, xm b]
def subl_rr (a : Register) (b : Register) : SpecResult := I .sub .l [rl a, rl b]
def subq_ri (a : Register) (i : Immediate) : SpecResult := I .sub .q [rq a, immS 64 i]
def subq_rr (a : Register) (b : Register) : SpecResult := I .sub .q [rq a, rq b]
def subsd_rr (a : XmmRegister) (b : XmmRegister) : SpecResult := N .subsd [xm a, xm b]
def subss_rr (a : XmmRegister) (b : XmmRegister) : SpecResult := N .subss [xm a, xm b]
def testb_ai (a : AddrReq) (i : Immediate) : SpecResult := I .test .b [a.opnd, immS 8 i]
def testb_rr (a : Register) (b : Register) : SpecResult := I .test .b [rb a, rb b]
def testl_ai (a : AddrReq) (i : Immediate) : SpecResult := I .test .l [a.opnd, immS 32 i]
def testl_ar (a : AddrReq) (b : Register) : SpecResult := I .test .l [a.opnd, rl b]
def testl_ri (a : Register) (i : Immediate) : SpecResult := I .test .l [rl a, immS 32 i]
def testl_rr (a : Register) (b : Register) : SpecResult := I .test .l [rl a, rl b]
def testq_ai (a : AddrReq) (i : Immediate) : SpecResult := I .test .q [a.opnd, immS 64 i]
def testq_ar (a : AddrReq) (b : Register) : SpecResult := I .test .q [a.opnd, rq b]
def testq_rr (a : Register) (b : Register) : SpecResult := I .test .q [rq a, rq b]
def tzcntl_rr (a : Register) (b : Register) : SpecResult := I .tzcnt .l [rl a, rl b]
def tzcntq_rr (a : Register) (b : Register) : SpecResult := I .tzcnt .q [rq a, rq b]
def ucomisd_rr (a : XmmRegister) (b : XmmRegister) : SpecResult := N .ucomisd [xm a, xm b]
def ucomiss_rr (a : XmmRegister) (b : XmmRegister) : SpecResult := N .ucomiss [xm a, xm b]
def vaddsd_rr (a : XmmRegister) (v : XmmRegister) (b : XmmRegister) : SpecResult := V none .addsd [xm a, xm v, xm b]
def vaddss_rr (a : XmmRegister) (v : XmmRegister) (b : XmmRegister) : SpecResult := V none .addss [xm a, xm v, xm b]
def vandpd_ra (a : XmmRegister) (v : XmmRegister) (b : AddrReq) : SpecResult := V none .andpd [xm a, xm v, b.opnd]
def vandpd_rl (a : XmmRegister) (v : XmmRegister) (l : Label) : SpecResult := VL .andpd [xm a, xm v, .ripRel 0] l
def vandps_ra (a : XmmRegister) (v : XmmRegister) (b : AddrReq) : SpecResult := V none .andps [xm a, xm v, b.opnd]
def vandps_rl (a : XmmRegister) (v : XmmRegister) (l : Label) : SpecResult := VL .andps [xm a, xm v, .ripRel 0] l
def vcvtsd2ss_rr (a : XmmRegister) (v : XmmRegister) (b : XmmRegister) : SpecResult := V none .cvtsd2ss [xm a, xm v, xm b]
def vcvtsi2sdd_rr (a : XmmRegister) (v : XmmRegister) (b : Register) : SpecResult := V (some .l) .cvtsi2sd [xm a, xm v, rl b]
def vcvtsi2sdq_rr (a : XmmRegister) (v : XmmRegister) (b : Register) : SpecResult := V (some .q) .cvtsi2sd [xm a, xm v, rq b]
def vcvtsi2ssd_rr (a : XmmRegister) (v : XmmRegister) (b : Register) : SpecResult := V (some .l) .cvtsi2ss [xm a, xm v, rl b]
def vcvtsi2ssq_rr (a : XmmRegister) (v : XmmRegister) (b : Register) : SpecResult := V (some .q) .cvtsi2ss [xm a, xm v, rq b]
def vcvtss2sd_rr (a : XmmRegister) (v : XmmRegister) (b : XmmRegister) : SpecResult := V none .cvtss2sd [xm a, xm v, xm b]
def vcvttsd2sid_rr (a : Register) (b : XmmRegister) : SpecResult := V (some .l) .cvttsd2si [rl a, xm b]
def vcvttsd2siq_rr (a : Register) (b : XmmRegister) : SpecResult := V (some .q) .cvttsd2si [rq a, xm b]
def vcvttss2sid_rr (a : Register) (b : XmmRegister) : SpecResult := V (some .l) .cvttss2si [rl a, xm b]
def vcvttss2siq_rr (a : Register) (b : XmmRegister) : SpecResult := V (some .q) .cvttss2si [rq a, xm b]
def vdivsd_rr (a : XmmRegister) (v : XmmRegister) (b : XmmRegister) : SpecResult := V none .divsd [xm a, xm v, xm b]
def vdivss_rr (a : XmmRegister) (v : XmmRegister) (b : XmmRegister) : SpecResult := V none .divss [xm a, xm v, xm b]
def vmovapd_rr (a : XmmRegister) (b : XmmRegister) : SpecResult := V none .movapd [xm a, xm b]
def vmovaps_rr (a : XmmRegister) (b : XmmRegister) : SpecResult := V none .movaps [xm a, xm b]
def vmovd_rx (a : Register) (b : XmmRegister) : SpecResult := V (some .l) .movd [rl a, xm b]
def vmovd_xr (a : XmmRegister) (b : Register) : SpecResult := V (some .l) .movd [xm a, rl b]
def vmovq_rx (a : Register) (b : XmmRegister) : SpecResult := V (some .q) .movq [rq a, xm b]
def vmovq_xr (a : XmmRegister) (b : Register) : SpecResult := V (some .q) .movq [xm a, rq b]
def vmovsd_ar (a : AddrReq) (b : XmmRegister) : SpecResult := V none .movsd [a.opnd, xm b]
def vmovsd_ra (a : XmmRegister) (b : AddrReq) : SpecResult := V none .movsd [xm a, b.opnd]
def vmovsd_rl (a : XmmRegister) (l : Label) : SpecResult := VL .movsd [xm a, .ripRel 0] l
def vmovsd_rr (a : XmmRegister) (v : XmmRegister) (b : XmmRegister) : SpecResult := V none .movsd [xm a, xm v, xm b]
def vmovss_ar (a : AddrReq) (b : XmmRegister) : SpecResult := V none .movss [a.opnd, xm b]
def vmovss_ra (a : XmmRegister) (b : AddrReq) : SpecResult := V none .movss [xm a, b.opnd]
def vmovss_rl (a : XmmRegister) (l : Label) : SpecResult := VL .movss [xm a, .ripRel 0] l
def vmovss_rr (a : XmmRegister) (v : XmmRegister) (b : XmmRegister) : SpecResult := V none .movss [xm a, xm v, xm b]
def vmulsd_rr (a : XmmRegister) (v : XmmRegister) (b : XmmRegister) : SpecResult := V none .mulsd [xm a, xm v, xm b]
def vmulss_rr (a : XmmRegister) (v : XmmRegister) (b : XmmRegister) : SpecResult := V none .mulss [xm a, xm v, xm b]
def vroundsd_ri (a : XmmRegister) (v : XmmRegister) (b : XmmRegister) (m : UInt8) : SpecResult := V none .roundsd [xm a, xm v, xm b, .imm m.toNat]
def vroundss_ri (a : XmmRegister) (v : XmmRegister) (b : XmmRegister) (m : UInt8) : SpecResult := V none .roundss [xm a, xm v, xm b, .imm m.toNat]
def vsqrtsd_rr (a : XmmRegister) (v : XmmRegister) (b : XmmRegister) : SpecResult := V none .sqrtsd [xm a, xm v, xm b]
def vsqrtss_rr (a : XmmRegister) (v : XmmRegister) (b : XmmRegister) : SpecResult := V none .sqrtss [xm a, xm v, xm b]
def vsubsd_rr (a : XmmRegister) (v : XmmRegister) (b : XmmRegister) : SpecResult := V none .subsd [xm a, xm v, xm b]
def vsubss_rr (a : XmmRegister) (v : XmmRegister) (b : XmmRegister) : SpecResult := V none .subss [xm a, xm v, xm b]
def vucomisd_rr (a : XmmRegister) (b : XmmRegister) : SpecResult := V none .ucomisd [xm a, xm b]
def vucomiss_rr (a : XmmRegister) (b : XmmRegister) : SpecResult := V none .ucomiss [xm a, xm b]
def vxorpd_ra (a : XmmRegister) (v : XmmRegister) (b : AddrReq) : SpecResult := V none .xorpd [xm a, xm v, b.opnd]
def vxorpd_rl (a : XmmRegister) (v : XmmRegister) (l : Label) : SpecResult := VL .xorpd [xm a, xm v, .ripRel 0] l
def vxorps_ra (a : XmmRegister) (v : XmmRegister) (b : AddrReq) : SpecResult := V none .xorps [xm a, xm v, b.opnd]
def vxorps_rl (a : XmmRegister) (v : XmmRegister) (l : Label) : SpecResult := VL .xorps [xm a, xm v, .ripRel 0] l
def vxorps_rr (a : XmmRegister) (v : XmmRegister) (b : XmmRegister) : SpecResult := V none .xorps [xm a, xm v, xm b]
def xaddl_ar (a : AddrReq) (b : Register) : SpecResult := I .xadd .l [a.opnd, rl b]
def xaddq_ar (a : AddrReq) (b : Register) : SpecResult := I .xadd .q [a.opnd, rq b]
def xchgb_ar (a : AddrReq) (b : Register) : SpecResult := I .xchg .b [a.opnd, rb b]
def xchgl_ar (a : AddrReq) (b : Register) : SpecResult := I .xchg .l [a.opnd, rl b]
def xchgq_ar (a : AddrReq) (b : Register) : SpecResult := I .xchg .q [a.opnd, rq b]
def xorl_ri (a : Register) (i : Immediate) : SpecResult := I .xor .l [rl a, immS 32 i]
def xorl_rr (a : Register) (b : Register) : SpecResult := I .xor .l [rl a, rl b]
def xorpd_ra (a : XmmRegister) (b : AddrReq) : SpecResult := N .xorpd [xm a, b.opnd]
def xorpd_rl (a : XmmRegister) (l : Label) : SpecResult := NL .xorpd [xm a, .ripRel 0] l
def xorps_ra (a : XmmRegister) (b : AddrReq) : SpecResult := N .xorps [xm a, b.opnd]
def xorps_rl (a : XmmRegister) (l : Label) : SpecResult := NL .xorps [xm a, .ripRel 0] l
def xorps_rr (a : XmmRegister) (b : XmmRegister) : SpecResult := N .xorps [xm a, xm b]
def xorq_rr (a : Register) (b : Register) : SpecResult := I .xor .q [rq a, rq b]

end Spec
end Dora.X64
