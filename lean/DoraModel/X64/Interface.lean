import DoraModel.X64.AddrOracle
import DoraModel.X64.ArrayLemmas0
import DoraModel.X64.ArrayLemmas1
import DoraModel.X64.ArrayLemmas2
import DoraModel.X64.ArrayLemmas3
/-!
# C07 — the ModRM/SIB/displacement interface lemmas (proofs) and the step from the relative per-method statements
(`AddrOkR` / `AddrOkX`, X64/AddrOracle.lean) to the four `Address` constructors.

`address_*_decodes`: every constructor × all bases × all index registers × all scales × **every** i32 displacement is
read back by the reference decoder as the intended memory operand (restated as property theorems in Props/C07.lean).
`AddrOkR.offset/index/rip …`: a method that satisfies its relative statement decodes to its Spec entry for every
address built by that constructor.
-/
set_option linter.unusedSimpArgs false
set_option maxRecDepth 4000
namespace Dora.X64
open Dora.X64.Dec

/-- `Address::offset(base, disp)` + `emit_address(reg, ·)`: for all 16 bases (rsp/r12 get a SIB byte, rbp/r13 a
displacement even when it is 0), every reg field and **every** i32 displacement the reference decoder reads back
exactly `disp(%base)`, the reg field, and leaves the following bytes untouched. -/
theorem address_offset_decodes (base : Fin 16) (reg : Fin 8) (disp : Int32) (tail : Dec.Bytes) :
    addrDecoded reg.val (Address.offset (R base) disp) tail
      = .ok (some (reg.val, .mem (.mem (some base.val) none disp.toInt), tail)) := by
  revert reg
  refine forall_fin16 (p := fun b => ∀ reg : Fin 8, addrDecoded reg.val (Address.offset (Rn b) disp) tail
      = .ok (some (reg.val, .mem (.mem (some b) none disp.toInt), tail))) ?_ ?_ ?_ ?_ ?_ ?_ ?_ ?_ ?_ ?_ ?_ ?_ ?_ ?_ ?_ ?_ base
  all_goals
    refine forall_fin8 (p := fun r => addrDecoded r (Address.offset (Rn _) disp) tail
      = .ok (some (r, .mem (.mem (some _) none disp.toInt), tail))) ?_ ?_ ?_ ?_ ?_ ?_ ?_ ?_
  all_goals addr_classes Address.offset disp


/-- `Address::index(index, scale, disp)` (no base): every index except rsp (which the constructor refuses), every
scale, reg field and i32 displacement. -/
theorem address_index_decodes (index : Fin 16) (hi : index.val ≠ 4) (scale : Fin 4) (reg : Fin 8) (disp : Int32)
    (tail : Dec.Bytes) :
    addrDecoded reg.val (Address.index (R index) (Sn scale.val) disp) tail
      = .ok (some (reg.val, .mem (.mem none (some (index.val, 2 ^ scale.val)) disp.toInt), tail)) := by
  revert hi scale reg
  refine forall_fin16 (p := fun i => i ≠ 4 → ∀ (scale : Fin 4) (reg : Fin 8),
      addrDecoded reg.val (Address.index (Rn i) (Sn scale.val) disp) tail
        = .ok (some (reg.val, .mem (.mem none (some (i, 2 ^ scale.val)) disp.toInt), tail)))
    ?_ ?_ ?_ ?_ ?_ ?_ ?_ ?_ ?_ ?_ ?_ ?_ ?_ ?_ ?_ ?_ index
  all_goals intro hi
  all_goals first
    | (exfalso; omega)
    | (refine forall_fin4 (p := fun s => ∀ reg : Fin 8, addrDecoded reg.val (Address.index (Rn _) (Sn s) disp) tail
          = .ok (some (reg.val, .mem (.mem none (some (_, 2 ^ s)) disp.toInt), tail))) ?_ ?_ ?_ ?_
       all_goals
         refine forall_fin8 (p := fun r => addrDecoded r (Address.index (Rn _) (Sn _) disp) tail
           = .ok (some (r, .mem (.mem none (some (_, 2 ^ _)) disp.toInt), tail))) ?_ ?_ ?_ ?_ ?_ ?_ ?_ ?_
       all_goals (rw [← le32_roundtrip disp]; kernel_rfl))


/-- `Address::index` refuses rsp as index (it cannot be encoded). -/
theorem address_index_refuses_rsp (scale : Fin 4) (disp : Int32) :
    isError (Address.index (R 4) (Sn scale.val) disp) = true := by
  refine forall_fin4 (p := fun s => isError (Address.index (R 4) (Sn s) disp) = true) ?_ ?_ ?_ ?_ scale
  all_goals kernel_rfl


/-- `Address::rip(disp)`: every reg field and i32 displacement reads back as `disp(%rip)`. -/
theorem address_rip_decodes (reg : Fin 8) (disp : Int32) (tail : Dec.Bytes) :
    addrDecoded reg.val (Address.rip disp) tail = .ok (some (reg.val, .mem (.ripRel disp.toInt), tail)) := by
  refine forall_fin8 (p := fun r => addrDecoded r (Address.rip disp) tail
    = .ok (some (r, .mem (.ripRel disp.toInt), tail))) ?_ ?_ ?_ ?_ ?_ ?_ ?_ ?_ reg
  all_goals (rw [← le32_roundtrip disp]; kernel_rfl)


/-- `Address::array(base, index, scale, disp)`: all 16 bases × every index the constructor accepts (all but rsp, r12)
× every scale × **every** i32 displacement: the encoded bytes (ModRM `mod`/`rm` fields, SIB, displacement), read with
the address's own REX.X / REX.B, denote exactly `disp(%base,%index,scale)`. (The reg field of the ModRM byte is
covered by `modrm_fields`; it is independent of the rest: `decodeModRM` passes only `mod` and `rm` on to `decodeRM`.) -/
theorem address_array_decodes (base : Fin 16) (index : Fin 16) (hi : index.val ≠ 4 ∧ index.val ≠ 12) (scale : Fin 4)
    (disp : Int32) (tail : Dec.Bytes) :
    addrOperand (Address.array (R base) (R index) (Sn scale.val) disp) tail
      = .ok (some (.mem (.mem (some base.val) (some (index.val, 2 ^ scale.val)) disp.toInt), tail)) := by
  revert index
  refine forall_fin16 (p := fun b => ∀ index : Fin 16, (index.val ≠ 4 ∧ index.val ≠ 12) →
      addrOperand (Address.array (Rn b) (R index) (Sn scale.val) disp) tail
        = .ok (some (.mem (.mem (some b) (some (index.val, 2 ^ scale.val)) disp.toInt), tail)))
    ?_ ?_ ?_ ?_ ?_ ?_ ?_ ?_ ?_ ?_ ?_ ?_ ?_ ?_ ?_ ?_ base
  · exact fun i hi => array_base0 i hi scale disp tail
  · exact fun i hi => array_base1 i hi scale disp tail
  · exact fun i hi => array_base2 i hi scale disp tail
  · exact fun i hi => array_base3 i hi scale disp tail
  · exact fun i hi => array_base4 i hi scale disp tail
  · exact fun i hi => array_base5 i hi scale disp tail
  · exact fun i hi => array_base6 i hi scale disp tail
  · exact fun i hi => array_base7 i hi scale disp tail
  · exact fun i hi => array_base8 i hi scale disp tail
  · exact fun i hi => array_base9 i hi scale disp tail
  · exact fun i hi => array_base10 i hi scale disp tail
  · exact fun i hi => array_base11 i hi scale disp tail
  · exact fun i hi => array_base12 i hi scale disp tail
  · exact fun i hi => array_base13 i hi scale disp tail
  · exact fun i hi => array_base14 i hi scale disp tail
  · exact fun i hi => array_base15 i hi scale disp tail




def shapeOK (rx rb : Bool) (a : Address) : Bool :=
  a.rex == rexByte rx rb && decide (1 ≤ a.length.toNat) && decide (a.length.toNat ≤ 6) && a.bytes.length == 6

theorem shape_mk {rx rb : Bool} {a : Address} (h : shapeOK rx rb a = true) :
    ∃ (len : Fin 6) (b0 b1 b2 b3 b4 b5 : UInt8), a = mkAddr rx rb (len.val + 1) b0 b1 b2 b3 b4 b5 := by
  obtain ⟨rex, length, bytes⟩ := a
  simp only [shapeOK, Bool.and_eq_true, beq_iff_eq, decide_eq_true_eq] at h
  obtain ⟨⟨⟨h1, h2⟩, h3⟩, h4⟩ := h
  match bytes, h4 with
  | [b0, b1, b2, b3, b4, b5], _ =>
    refine ⟨⟨length.toNat - 1, by omega⟩, b0, b1, b2, b3, b4, b5, ?_⟩
    simp only [mkAddr]
    have : length.toNat - 1 + 1 = length.toNat := by omega
    rw [this, UInt8.ofNat_toNat, h1]

theorem R_toNat : ∀ d : Fin 16, (R d).v0.toNat = d.val := by decide

/-- the three displacement classes, for goals without a displacement value on the right-hand side -/
macro "addr_classes_plain " f:ident d:ident : tactic => `(tactic| (
  cases h0 : ($d == (0 : Int32))
  · cases h1 : decide ((-128 : Int32) ≤ $d)
    · unfold $f
      simp only [h0, h1, Bool.false_and, Bool.false_eq_true, if_false]
      kernel_rfl
    · cases h2 : decide ($d < (0x80 : Int32))
      · unfold $f
        simp only [h0, h1, h2, Bool.false_and, Bool.and_self, Bool.false_eq_true, if_false, if_true, Bool.and_false,
          Bool.and_true, Bool.true_and]
        kernel_rfl
      · unfold $f
        simp only [h0, h1, h2, Bool.false_and, Bool.and_self, Bool.false_eq_true, if_false, if_true, Bool.and_false,
          Bool.and_true, Bool.true_and]
        kernel_rfl
  · have hd : $d = 0 := by simpa using h0
    subst hd
    kernel_rfl))

theorem offset_shape (base : Fin 16) (disp : Int32) :
    (Address.offset (R base) disp).map (shapeOK false (decide (8 ≤ base.val))) = .ok true := by
  refine forall_fin16 (p := fun b => (Address.offset (Rn b) disp).map (shapeOK false (decide (8 ≤ b))) = .ok true)
    ?_ ?_ ?_ ?_ ?_ ?_ ?_ ?_ ?_ ?_ ?_ ?_ ?_ ?_ ?_ ?_ base
  all_goals addr_classes_plain Address.offset disp


theorem readsAs_of_decoded {rx rb : Bool} {reg : Nat} {a : Address} {req : AddrReq} {M : Opnd}
    (hM : req.opnd = M)
    (h : ∀ tail, addrDecoded reg (.ok a) tail = .ok (some (reg, .mem M, tail)))
    (hx : Address.rex_x a = rx) (hb : Address.rex_b a = rb) : ReadsAs rx rb reg a req := by
  intro tail
  have := h tail
  unfold addrDecoded at this
  simp only [bind, Except.bind, pure, Except.pure] at this
  unfold addrBytes
  cases he : enc false (emit_address (UInt8.ofNat reg) a) with
  | error e => rw [he] at this; cases this
  | ok bs =>
    rw [he] at this
    simp only [Except.ok.injEq] at this
    rw [hx, hb] at this
    rw [hM]
    exact this

theorem isError_map {α β : Type} (f : α → β) (e : Except String α) : isError (e.map f) = isError e := by
  cases e <;> rfl

theorem rex_of_mk (rx rb : Bool) (len : Nat) (b0 b1 b2 b3 b4 b5 : UInt8) :
    Address.rex_x (mkAddr rx rb len b0 b1 b2 b3 b4 b5) = rx ∧ Address.rex_b (mkAddr rx rb len b0 b1 b2 b3 b4 b5) = rb := by
  cases rx <;> cases rb <;> exact ⟨by kernel_rfl, by kernel_rfl⟩

theorem index_shape (index : Fin 16) (hi : index.val ≠ 4) (scale : Fin 4) (disp : Int32) :
    (Address.index (R index) (Sn scale.val) disp).map (shapeOK (decide (8 ≤ index.val)) false) = .ok true := by
  revert hi scale
  refine forall_fin16 (p := fun i => i ≠ 4 → ∀ scale : Fin 4,
      (Address.index (Rn i) (Sn scale.val) disp).map (shapeOK (decide (8 ≤ i)) false) = .ok true)
    ?_ ?_ ?_ ?_ ?_ ?_ ?_ ?_ ?_ ?_ ?_ ?_ ?_ ?_ ?_ ?_ index
  all_goals intro hi
  all_goals first
    | (exfalso; omega)
    | (refine forall_fin4 (p := fun s => (Address.index (Rn _) (Sn s) disp).map (shapeOK _ false) = .ok true) ?_ ?_ ?_ ?_
       all_goals kernel_rfl)

theorem rip_shape (disp : Int32) : (Address.rip disp).map (shapeOK false false) = .ok true := by
  kernel_rfl

/-- `m (address)` in a fresh assembler for an address produced by a constructor call: the emitted bytes, decoded -/
def viaCtor (e : Address → Except String Dec.Bytes) (c : Except String Address) :
    Except String (Option (Instr × Dec.Bytes)) :=
  c.bind fun a => (e a).map decode

/-- the per-method statement for one constructor call: guard ⇒ the bytes decode to the Spec entry for `req` with
nothing left over; ¬guard ⇒ the call is refused -/
def MethodOk (e : Address → Except String Dec.Bytes) (want' : AddrReq → Option (Instr × Dec.Bytes)) (g : Bool)
    (c : Except String Address) (req : AddrReq) : Prop :=
  (g = true → viaCtor e c = .ok (want' req)) ∧ (g = false → isError (viaCtor e c) = true)

/-- The step from a relative statement (`AddrLeaf` for all six lengths) to a constructor: if the constructor's result
has a legal shape with REX bits (rx, rb) and the decoder reads `emit_address`'s bytes for it as `M = req.opnd`
(an `address_*_decodes` lemma), the method decodes to its Spec entry for `req`. -/
theorem addr_combine {e : Address → Except String Dec.Bytes} {want' : AddrReq → Option (Instr × Dec.Bytes)} {g : Bool}
    {reg : Nat} {rx rb : Bool} (hl : ∀ len : Fin 6, AddrLeaf e want' g reg rx rb (len.val + 1))
    {c : Except String Address} {req : AddrReq} {M : Opnd}
    (hs : c.map (shapeOK rx rb) = .ok true) (hM : req.opnd = M)
    (hi : ∀ tail, addrDecoded reg c tail = .ok (some (reg, .mem M, tail))) :
    (g = true → viaCtor e c = .ok (want' req)) ∧ (g = false → isError (viaCtor e c) = true) := by
  unfold viaCtor
  cases ha : c with
  | error err => rw [ha] at hs; cases hs
  | ok a =>
    rw [ha] at hs hi
    simp only [Except.map, Except.ok.injEq] at hs
    obtain ⟨len, b0, b1, b2, b3, b4, b5, rfl⟩ := shape_mk hs
    have hr := rex_of_mk rx rb (len.val + 1) b0 b1 b2 b3 b4 b5
    have hR : ReadsAs rx rb reg (mkAddr rx rb (len.val + 1) b0 b1 b2 b3 b4 b5) req :=
      readsAs_of_decoded hM hi hr.1 hr.2
    have := hl len b0 b1 b2 b3 b4 b5 req hR
    simpa only [bind, Except.bind, isError_map] using this

theorem Sn_scale : ∀ s : Fin 4, scaleOf (Sn s.val) = 2 ^ s.val := by decide

/-- every base, every i32 displacement of `Address::offset` -/
theorem leaf_offset {e : Address → Except String Dec.Bytes} {want' : AddrReq → Option (Instr × Dec.Bytes)} {g : Bool}
    (reg : Fin 8) (base : Fin 16) (disp : Int32)
    (hl : ∀ (rx rb : Bool) (len : Fin 6), AddrLeaf e want' g reg.val rx rb (len.val + 1)) :
    MethodOk e want' g (Address.offset (R base) disp) (.off (R base) disp) :=
  addr_combine (hl false (decide (8 ≤ base.val))) (offset_shape base disp)
    (by simp only [AddrReq.opnd, R_toNat]) (fun tail => address_offset_decodes base reg disp tail)

/-- every index but rsp, every scale, every i32 displacement of `Address::index` -/
theorem leaf_index {e : Address → Except String Dec.Bytes} {want' : AddrReq → Option (Instr × Dec.Bytes)} {g : Bool}
    (reg : Fin 8) (index : Fin 16) (hi : index.val ≠ 4) (scale : Fin 4) (disp : Int32)
    (hl : ∀ (rx rb : Bool) (len : Fin 6), AddrLeaf e want' g reg.val rx rb (len.val + 1)) :
    MethodOk e want' g (Address.index (R index) (Sn scale.val) disp) (.idx (R index) (Sn scale.val) disp) :=
  addr_combine (hl (decide (8 ≤ index.val)) false) (index_shape index hi scale disp)
    (by simp only [AddrReq.opnd, R_toNat, Sn_scale]) (fun tail => address_index_decodes index hi scale reg disp tail)

/-- every i32 displacement of `Address::rip` -/
theorem leaf_rip {e : Address → Except String Dec.Bytes} {want' : AddrReq → Option (Instr × Dec.Bytes)} {g : Bool}
    (reg : Fin 8) (disp : Int32)
    (hl : ∀ (rx rb : Bool) (len : Fin 6), AddrLeaf e want' g reg.val rx rb (len.val + 1)) :
    MethodOk e want' g (Address.rip disp) (.rip disp) :=
  addr_combine (hl false false) (rip_shape disp) (by simp only [AddrReq.opnd])
    (fun tail => address_rip_decodes reg disp tail)

end Dora.X64
