import DoraModel.X64.MasmLemmas
/-!
# Helper lemmas for the machine-leg theorems of C01, part 4: `cdq/cqo ; idiv` and the truncating quotient
-/
set_option linter.unusedSimpArgs false
set_option linter.unusedVariables false
namespace Dora.Masm.Spec
open Dora.X64.Sem Dora.Masm

theorem tdiv_range (a d N : Int) (h1 : -N ≤ a) (h2 : a < N) (hd : d ≠ 0) (hov : ¬(a = -N ∧ d = -1)) :
    -N ≤ a.tdiv d ∧ a.tdiv d < N := by
  by_cases hd1 : d = 1
  · subst hd1; rw [Int.tdiv_one]; omega
  by_cases hdm : d = -1
  · subst hdm; rw [Int.tdiv_neg, Int.tdiv_one]; omega
  · have hq : (a.tdiv d).natAbs = a.natAbs / d.natAbs := Int.natAbs_tdiv a d
    have hd2 : 2 ≤ d.natAbs := by omega
    have : a.natAbs / d.natAbs ≤ a.natAbs / 2 := Nat.div_le_div_left hd2 (by omega)
    omega

theorem tmod_range (a d N : Int) (h1 : -N ≤ d) (h2 : d < N) (hd : d ≠ 0) :
    -N ≤ a.tmod d ∧ a.tmod d < N := by
  have hq : (a.tmod d).natAbs = a.natAbs % d.natAbs := Int.natAbs_tmod a d
  have : a.natAbs % d.natAbs < d.natAbs := Nat.mod_lt _ (by omega)
  omega

theorem signFill_append64 (a : BitVec 64) : (signFill a ++ a).toInt = a.toInt := by
  have h : signFill a ++ a = a.signExtend 128 := by unfold signFill; bv_decide (timeout := 600)
  rw [h, BitVec.toInt_signExtend_of_le (by omega)]

theorem signFill_append32 (a : BitVec 32) : (signFill a ++ a).toInt = a.toInt := by
  have h : signFill a ++ a = a.signExtend 64 := by unfold signFill; bv_decide (timeout := 600)
  rw [h, BitVec.toInt_signExtend_of_le (by omega)]

/-- `cqo ; idiv b` on `rax = a`: no `#DE` unless `b = 0` or `MIN / -1`, and then the truncating quotient and remainder -/
theorem idivOp_signFill64 (a b : BitVec 64) (hb : b.toInt ≠ 0) (hov : ¬(a.toInt = -2 ^ 63 ∧ b.toInt = -1)) :
    idivOp (signFill a) a b = some (BitVec.ofInt 64 (a.toInt.tdiv b.toInt), BitVec.ofInt 64 (a.toInt.tmod b.toInt)) := by
  have := BitVec.toInt_lt (x := a); have := BitVec.le_toInt (x := a)
  have hr := tdiv_range a.toInt b.toInt (2 ^ 63) (by omega) (by omega) hb hov
  unfold idivOp
  simp only [signFill_append64, hb, ↓reduceIte]
  rw [if_neg]; simp only [Nat.add_one_sub_one, not_or, Int.not_lt, Int.not_le]; exact hr

theorem idivOp_signFill32 (a b : BitVec 32) (hb : b.toInt ≠ 0) (hov : ¬(a.toInt = -2 ^ 31 ∧ b.toInt = -1)) :
    idivOp (signFill a) a b = some (BitVec.ofInt 32 (a.toInt.tdiv b.toInt), BitVec.ofInt 32 (a.toInt.tmod b.toInt)) := by
  have := BitVec.toInt_lt (x := a); have := BitVec.le_toInt (x := a)
  have hr := tdiv_range a.toInt b.toInt (2 ^ 31) (by omega) (by omega) hb hov
  unfold idivOp
  simp only [signFill_append32, hb, ↓reduceIte]
  rw [if_neg]; simp only [Nat.add_one_sub_one, not_or, Int.not_lt, Int.not_le]; exact hr

theorem toInt_quot64 (a b : BitVec 64) (hb : b.toInt ≠ 0) (hov : ¬(a.toInt = -2 ^ 63 ∧ b.toInt = -1)) :
    (BitVec.ofInt 64 (a.toInt.tdiv b.toInt)).toInt = a.toInt.tdiv b.toInt := by
  have := BitVec.toInt_lt (x := a); have := BitVec.le_toInt (x := a)
  have hr := tdiv_range a.toInt b.toInt (2 ^ 63) (by omega) (by omega) hb hov
  exact BitVec.toInt_ofInt_eq_self (by omega) (by simpa using hr.1) (by simpa using hr.2)

theorem toInt_rem64 (a b : BitVec 64) (hb : b.toInt ≠ 0) :
    (BitVec.ofInt 64 (a.toInt.tmod b.toInt)).toInt = a.toInt.tmod b.toInt := by
  have := BitVec.toInt_lt (x := b); have := BitVec.le_toInt (x := b)
  have hr := tmod_range a.toInt b.toInt (2 ^ 63) (by omega) (by omega) hb
  exact BitVec.toInt_ofInt_eq_self (by omega) (by simpa using hr.1) (by simpa using hr.2)

theorem toInt_quot32 (a b : BitVec 32) (hb : b.toInt ≠ 0) (hov : ¬(a.toInt = -2 ^ 31 ∧ b.toInt = -1)) :
    (BitVec.ofInt 32 (a.toInt.tdiv b.toInt)).toInt = a.toInt.tdiv b.toInt := by
  have := BitVec.toInt_lt (x := a); have := BitVec.le_toInt (x := a)
  have hr := tdiv_range a.toInt b.toInt (2 ^ 31) (by omega) (by omega) hb hov
  exact BitVec.toInt_ofInt_eq_self (by omega) (by simpa using hr.1) (by simpa using hr.2)

theorem toInt_rem32 (a b : BitVec 32) (hb : b.toInt ≠ 0) :
    (BitVec.ofInt 32 (a.toInt.tmod b.toInt)).toInt = a.toInt.tmod b.toInt := by
  have := BitVec.toInt_lt (x := b); have := BitVec.le_toInt (x := b)
  have hr := tmod_range a.toInt b.toInt (2 ^ 31) (by omega) (by omega) hb
  exact BitVec.toInt_ofInt_eq_self (by omega) (by simpa using hr.1) (by simpa using hr.2)

end Dora.Masm.Spec
