import DoraModel.X64.MasmLemmas
/-!
# Helper lemmas for the machine-leg theorems of C01, part 2: shifts, bounds check, comparisons, extensions
-/
set_option linter.unusedSimpArgs false
set_option linter.unusedVariables false
namespace Dora.Masm.Spec
open Dora.X64.Sem Dora.Masm

/-! ## shifts -/

theorem shiftAmount_ok64 (x : BitVec 32) : (0 ≤ x.toInt ∧ x.toInt < 64) ↔ x.toNat < 64 := by
  have := x.isLt
  rw [BitVec.toInt_eq_toNat_cond]; split <;> omega
theorem shiftAmount_ok32 (x : BitVec 32) : (0 ≤ x.toInt ∧ x.toInt < 32) ↔ x.toNat < 32 := by
  have := x.isLt
  rw [BitVec.toInt_eq_toNat_cond]; split <;> omega
theorem shiftAmount_toNat (x : BitVec 32) (h : x.toNat < 64) : x.toInt.toNat = x.toNat := by
  have := x.isLt
  rw [BitVec.toInt_eq_toNat_cond]; split <;> omega

/-- `cl`, masked to 6 bits, is the amount when the low 32 bits of the register are below 64 -/
theorem cl64 (c : BitVec 64) (h : (lo32 c).toNat < 64) : (lo8 c).toNat % 64 = (lo32 c).toNat := by
  simp only [lo8, lo32, BitVec.toNat_setWidth] at *; omega
theorem cl32 (c : BitVec 64) (h : (lo32 c).toNat < 32) : (lo8 c).toNat % 32 = (lo32 c).toNat := by
  simp only [lo8, lo32, BitVec.toNat_setWidth] at *; omega
/-- the same after `movl ecx, r` -/
theorem cl32' (x : BitVec 32) (h : x.toNat < 32) : (x.setWidth 8).toNat % 32 = x.toNat := by
  simp only [BitVec.toNat_setWidth] at *; omega

/-- `movl` of a zero-extended, logically shifted 32-bit value keeps it -/
@[simp] theorem lo32_ushiftRight (x : BitVec 32) (k : Nat) : lo32 (x.setWidth 64 >>> k) = x >>> k := by
  apply BitVec.eq_of_toNat_eq
  have := x.isLt
  have h2 : x.toNat >>> k ≤ x.toNat := by rw [Nat.shiftRight_eq_div_pow]; exact Nat.div_le_self _ _
  simp only [lo32, BitVec.toNat_ushiftRight, BitVec.toNat_setWidth]
  rw [Nat.mod_eq_of_lt (by omega : x.toNat < 2 ^ 64), Nat.mod_eq_of_lt (by omega : x.toNat >>> k < 2 ^ 32)]

@[simp] theorem shlOp_fst {n} (a : BitVec n) (k : Nat) (f : Flags) : (shlOp a k f).1 = a <<< k := by
  unfold shlOp; split <;> simp_all
@[simp] theorem shrOp_fst {n} (a : BitVec n) (k : Nat) (f : Flags) : (shrOp a k f).1 = a >>> k := by
  unfold shrOp; split <;> simp_all
@[simp] theorem sarOp_fst {n} (a : BitVec n) (k : Nat) (f : Flags) : (sarOp a k f).1 = a.sshiftRight k := by
  unfold sarOp; split <;> simp_all

theorem prog_shl64 (dest lhs rhs : Reg) (hal : rhs ≠ RCX → lhs ≠ RCX) :
    assemble (do check_shift_amount rhs .Int64; int_shl .Int64 dest lhs rhs) =
    .ok ([Instr.cmpl_ri rhs 64, .jcc .ae ⟨0⟩] ++ (if rhs = RCX then [] else [Instr.movq_rr RCX rhs]) ++
      [Instr.shlq_r lhs] ++ (if dest = lhs then [] else [Instr.movq_rr dest lhs]) ++ [.done] ++ stub 0 9 ++ [.nop]) := by
  by_cases h1 : rhs = RCX <;> by_cases h2 : dest = lhs
  · subst h1; subst h2; simp only [int_shl, bne_self_eq_false, Bool.false_eq_true, ↓reduceIte]; rfl
  · subst h1; simp only [int_shl, bne_self_eq_false, Bool.false_eq_true, bne_true h2, h2, ↓reduceIte]; rfl
  · subst h2
    simp only [int_shl, bne_self_eq_false, Bool.false_eq_true, bne_true h1, bne_true (hal h1), h1, rassert, ↓reduceIte]; rfl
  · simp only [int_shl, bne_true h2, h2, bne_true h1, bne_true (hal h1), h1, rassert, ↓reduceIte]; rfl

theorem prog_shl32 (dest lhs rhs : Reg) (hal : rhs ≠ RCX → lhs ≠ RCX) :
    assemble (do check_shift_amount rhs .Int32; int_shl .Int32 dest lhs rhs) =
    .ok ([Instr.cmpl_ri rhs 32, .jcc .ae ⟨0⟩] ++ (if rhs = RCX then [] else [Instr.movl_rr RCX rhs]) ++
      [Instr.shll_r lhs] ++ (if dest = lhs then [] else [Instr.movl_rr dest lhs]) ++ [.done] ++ stub 0 9 ++ [.nop]) := by
  by_cases h1 : rhs = RCX <;> by_cases h2 : dest = lhs
  · subst h1; subst h2; simp only [int_shl, bne_self_eq_false, Bool.false_eq_true, ↓reduceIte]; rfl
  · subst h1; simp only [int_shl, bne_self_eq_false, Bool.false_eq_true, bne_true h2, h2, ↓reduceIte]; rfl
  · subst h2
    simp only [int_shl, bne_self_eq_false, Bool.false_eq_true, bne_true h1, bne_true (hal h1), h1, rassert, ↓reduceIte]; rfl
  · simp only [int_shl, bne_true h2, h2, bne_true h1, bne_true (hal h1), h1, rassert, ↓reduceIte]; rfl

theorem prog_shr64 (dest lhs rhs : Reg) (hal : rhs ≠ RCX → lhs ≠ RCX) :
    assemble (do check_shift_amount rhs .Int64; int_shr .Int64 dest lhs rhs) =
    .ok ([Instr.cmpl_ri rhs 64, .jcc .ae ⟨0⟩] ++ (if rhs = RCX then [] else [Instr.movq_rr RCX rhs]) ++
      [Instr.shrq_r lhs] ++ (if dest = lhs then [] else [Instr.movq_rr dest lhs]) ++ [.done] ++ stub 0 9 ++ [.nop]) := by
  by_cases h1 : rhs = RCX <;> by_cases h2 : dest = lhs
  · subst h1; subst h2; simp only [int_shr, bne_self_eq_false, Bool.false_eq_true, ↓reduceIte]; rfl
  · subst h1; simp only [int_shr, bne_self_eq_false, Bool.false_eq_true, bne_true h2, h2, ↓reduceIte]; rfl
  · subst h2
    simp only [int_shr, bne_self_eq_false, Bool.false_eq_true, bne_true h1, bne_true (hal h1), h1, rassert, ↓reduceIte]; rfl
  · simp only [int_shr, bne_true h2, h2, bne_true h1, bne_true (hal h1), h1, rassert, ↓reduceIte]; rfl

theorem prog_shr32 (dest lhs rhs : Reg) (hal : rhs ≠ RCX → lhs ≠ RCX) :
    assemble (do check_shift_amount rhs .Int32; int_shr .Int32 dest lhs rhs) =
    .ok ([Instr.cmpl_ri rhs 32, .jcc .ae ⟨0⟩] ++ (if rhs = RCX then [] else [Instr.movl_rr RCX rhs]) ++
      [Instr.shrl_r lhs] ++ (if dest = lhs then [] else [Instr.movl_rr dest lhs]) ++ [.done] ++ stub 0 9 ++ [.nop]) := by
  by_cases h1 : rhs = RCX <;> by_cases h2 : dest = lhs
  · subst h1; subst h2; simp only [int_shr, bne_self_eq_false, Bool.false_eq_true, ↓reduceIte]; rfl
  · subst h1; simp only [int_shr, bne_self_eq_false, Bool.false_eq_true, bne_true h2, h2, ↓reduceIte]; rfl
  · subst h2
    simp only [int_shr, bne_self_eq_false, Bool.false_eq_true, bne_true h1, bne_true (hal h1), h1, rassert, ↓reduceIte]; rfl
  · simp only [int_shr, bne_true h2, h2, bne_true h1, bne_true (hal h1), h1, rassert, ↓reduceIte]; rfl

theorem prog_sar64 (dest lhs rhs : Reg) (hal : rhs ≠ RCX → lhs ≠ RCX) :
    assemble (do check_shift_amount rhs .Int64; int_sar .Int64 dest lhs rhs) =
    .ok ([Instr.cmpl_ri rhs 64, .jcc .ae ⟨0⟩] ++ (if rhs = RCX then [] else [Instr.movq_rr RCX rhs]) ++
      [Instr.sarq_r lhs] ++ (if dest = lhs then [] else [Instr.movq_rr dest lhs]) ++ [.done] ++ stub 0 9 ++ [.nop]) := by
  by_cases h1 : rhs = RCX <;> by_cases h2 : dest = lhs
  · subst h1; subst h2; simp only [int_sar, bne_self_eq_false, Bool.false_eq_true, ↓reduceIte]; rfl
  · subst h1; simp only [int_sar, bne_self_eq_false, Bool.false_eq_true, bne_true h2, h2, ↓reduceIte]; rfl
  · subst h2
    simp only [int_sar, bne_self_eq_false, Bool.false_eq_true, bne_true h1, bne_true (hal h1), h1, rassert, ↓reduceIte]; rfl
  · simp only [int_sar, bne_true h2, h2, bne_true h1, bne_true (hal h1), h1, rassert, ↓reduceIte]; rfl

theorem prog_sar32 (dest lhs rhs : Reg) (hal : rhs ≠ RCX → lhs ≠ RCX) :
    assemble (do check_shift_amount rhs .Int32; int_sar .Int32 dest lhs rhs) =
    .ok ([Instr.cmpl_ri rhs 32, .jcc .ae ⟨0⟩] ++ (if rhs = RCX then [] else [Instr.movl_rr RCX rhs]) ++
      [Instr.sarl_r lhs] ++ (if dest = lhs then [] else [Instr.movl_rr dest lhs]) ++ [.done] ++ stub 0 9 ++ [.nop]) := by
  by_cases h1 : rhs = RCX <;> by_cases h2 : dest = lhs
  · subst h1; subst h2; simp only [int_sar, bne_self_eq_false, Bool.false_eq_true, ↓reduceIte]; rfl
  · subst h1; simp only [int_sar, bne_self_eq_false, Bool.false_eq_true, bne_true h2, h2, ↓reduceIte]; rfl
  · subst h2
    simp only [int_sar, bne_self_eq_false, Bool.false_eq_true, bne_true h1, bne_true (hal h1), h1, rassert, ↓reduceIte]; rfl
  · simp only [int_sar, bne_true h2, h2, bne_true h1, bne_true (hal h1), h1, rassert, ↓reduceIte]; rfl

end Dora.Masm.Spec
