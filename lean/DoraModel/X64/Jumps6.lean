import DoraModel.X64.Jumps5
/-!
# C07 — label resolution in general, part 6: the final layout of the buffer of a whole script.
-/
namespace Dora.X64
open Dora.X64.Dec
set_option linter.unusedSimpArgs false

/-! ## `resolve_jumps` never shrinks the buffer -/

theorem overwrite_length : ∀ (code : Bytes) (p : Nat) (bs c' : Bytes), overwrite code p bs = some c' → c'.length = code.length := by
  intro code
  induction code with
  | nil =>
    intro p bs c' h
    cases bs with
    | nil => simp only [overwrite, Option.some.injEq] at h; rw [← h]
    | cons b bs => simp only [overwrite] at h; cases h
  | cons a as ih =>
    intro p bs c' h
    cases bs with
    | nil => simp only [overwrite, Option.some.injEq] at h; rw [← h]
    | cons b bs =>
      cases p with
      | zero =>
        simp only [overwrite, Option.map_eq_some_iff] at h
        obtain ⟨r, hr, rfl⟩ := h
        simp only [List.length_cons, ih 0 bs r hr]
      | succ p =>
        simp only [overwrite, Option.map_eq_some_iff] at h
        obtain ⟨r, hr, rfl⟩ := h
        simp only [List.length_cons, ih p (b :: bs) r hr]

theorem emitBytes_len (bs : Bytes) (s : Asm) (r : Unit × Asm) (h : Buf.emitBytes bs s = .ok r) :
    s.code.length ≤ r.2.code.length := by
  unfold Buf.emitBytes at h
  split at h
  · simp only [Except.ok.injEq] at h; rw [← h]; simp only [List.length_append]; omega
  · split at h
    · split at h
      · next c hc => simp only [Except.ok.injEq] at h; rw [← h]; simp only [overwrite_length _ _ _ _ hc]; omega
      · cases h
    · cases h

theorem resolveOne_len (j : ForwardJump) (s s1 : Asm) (h : resolveOne j s = .ok s1) : s.code.length ≤ s1.code.length := by
  unfold resolveOne at h
  split at h
  · cases h
  · cases h
  · split at h
    · simp only [] at h
      split at h
      · cases he : Buf.emitBytes _ _ with
        | error e => rw [he] at h; cases h
        | ok r =>
          rw [he] at h
          simp only [Except.map, Except.ok.injEq] at h
          rw [← h]; exact emitBytes_len _ { s with position := j.offset.toNat } _ he
      · cases h
    · simp only [] at h
      cases he : Buf.emitBytes _ _ with
      | error e => rw [he] at h; cases h
      | ok r =>
        rw [he] at h
        simp only [Except.map, Except.ok.injEq] at h
        rw [← h]; exact emitBytes_len _ { s with position := j.offset.toNat } _ he

theorem resolveLoop_len (js : List ForwardJump) : ∀ (s s' : Asm), resolveLoop js s = .ok s' → s.code.length ≤ s'.code.length := by
  induction js with
  | nil => intro s s' h; simp only [resolveLoop, Except.ok.injEq] at h; rw [h]; exact Nat.le_refl _
  | cons j js ih =>
    intro s s' h
    simp only [resolveLoop] at h
    cases h1 : resolveOne j s with
    | error e => rw [h1] at h; cases h
    | ok s1 =>
      rw [h1] at h
      exact Nat.le_trans (resolveOne_len j s s1 h1) (ih s1 s' h)

/-! ## final layout -/

/-- an operation that started at offset `b` and its final bytes `seg`, against the final label table `L` -/
def OpSeg (L : List (Option UInt32)) (b : Nat) (op : JOp) (seg : Bytes) : Prop :=
  match op with
  | .raw bs => seg = bs
  | .bind l => seg = [] ∧ L[l]? = some (some (UInt32.ofNat b)) ∧ b < 4294967296
  | op =>
    ∃ l q far f, op.target = some l ∧ L[l]? = some (some q) ∧ seg = op.opc far ++ f ∧
      FieldOk far f ((q.toNat : Int) - ((b + seg.length : Nat) : Int)) ∧
      far = (op.allowsFar && !(decide (q.toNat ≤ b) && decide (b + 2 - q.toNat ≤ 128)))

/-- the final buffer, cut into one segment per operation, with the recorded start positions -/
def Layout (L : List (Option UInt32)) : Nat → List JOp → List Bytes → List Nat → Prop
  | _, [], [], [] => True
  | b, op :: ops, seg :: segs, p :: ps => p = b ∧ OpSeg L b op seg ∧ Layout L (b + seg.length) ops segs ps
  | _, _, _, _ => False

/-- a chunk and its patched bytes -/
def SegOf (L : List (Option UInt32)) (b : Nat) (c : Chunk) (seg : Bytes) : Prop :=
  match c with
  | .fin bs => seg = bs
  | .pend opc far l => ∃ q f, L[l]? = some (some q) ∧ seg = opc ++ f ∧
      FieldOk far f ((q.toNat : Int) - ((b + seg.length : Nat) : Int))

theorem jumpSeg_of {L b op c seg} (hj : JumpChunk L b op c) (hlen : b + seg.length < 2147483648)
    (hp : SegOf L b c seg) :
    ∃ l q far f, op.target = some l ∧ L[l]? = some (some q) ∧ seg = op.opc far ++ f ∧
      FieldOk far f ((q.toNat : Int) - ((b + seg.length : Nat) : Int)) ∧
      far = (op.allowsFar && !(decide (q.toNat ≤ b) && decide (b + 2 - q.toNat ≤ 128))) := by
  obtain ⟨l, ht, ⟨hc, hfw⟩ | ⟨q, far, f, hq, h1, h2, h3, h4⟩⟩ := hj
  · subst hc
    simp only [SegOf] at hp
    obtain ⟨q, f, hq, hs, hf⟩ := hp
    have := hfw q hq
    refine ⟨l, q, op.allowsFar, f, ht, hq, hs, hf, ?_⟩
    have e : decide (q.toNat ≤ b) = false := by simp only [decide_eq_false_iff_not]; omega
    rw [e]; simp only [Bool.false_and, Bool.not_false, Bool.and_true]
  · subst h2
    simp only [SegOf] at hp
    subst hp
    refine ⟨l, q, far, f, ht, hq, rfl, h3 hlen, ?_⟩
    have e : decide (q.toNat ≤ b) = true := by simp only [decide_eq_true_eq]; exact h1
    rw [e, h4]; simp only [Bool.true_and]

theorem layout_of (L : List (Option UInt32)) (ops : List JOp) : ∀ (b : Nat) (cs : List Chunk) (segs : List Bytes) (ps : List Nat),
    RelA L b ops cs ps → Patched L b cs segs → b + segs.flatten.length < 2147483648 → Layout L b ops segs ps := by
  induction ops with
  | nil =>
    intro b cs segs ps hr hp _
    cases cs with
    | nil =>
      cases ps with
      | nil => cases segs with
        | nil => trivial
        | cons _ _ => simp only [Patched] at hp
      | cons _ _ => simp only [RelA] at hr
    | cons _ _ => cases ps <;> simp only [RelA] at hr
  | cons op ops ih =>
    intro b cs segs ps hr hp hlen
    cases cs with
    | nil => cases ps <;> simp only [RelA] at hr
    | cons c cs =>
      cases ps with
      | nil => simp only [RelA] at hr
      | cons p ps =>
        obtain ⟨hpb, hoc, hrest⟩ := hr
        cases segs with
        | nil => cases c <;> simp only [Patched] at hp
        | cons seg segs =>
          simp only [List.flatten_cons, List.length_append] at hlen
          have key : seg.length = c.bytes.length ∧ Patched L (b + seg.length) cs segs ∧ SegOf L b c seg := by
            cases c with
            | fin bs => simp only [Patched] at hp; exact ⟨by rw [hp.1]; rfl, hp.2, hp.1⟩
            | pend opc far l =>
              simp only [Patched] at hp
              obtain ⟨⟨q, f, hq, hs, hf⟩, hp2⟩ := hp
              refine ⟨?_, hp2, q, f, hq, hs, hf⟩
              rw [hs]; simp only [Chunk.bytes, List.length_append, hf.length]
          obtain ⟨k1, k2, k3⟩ := key
          refine ⟨hpb, ?_, ih _ cs segs ps (by rw [k1]; exact hrest) k2 (by omega)⟩
          cases op with
          | raw bs => simp only [OpChunk] at hoc; subst hoc; exact k3
          | bind l =>
            simp only [OpChunk] at hoc
            obtain ⟨h1, h2, h3⟩ := hoc
            subst h1
            exact ⟨k3, h2, h3⟩
          | jmp l => exact jumpSeg_of hoc (by omega) k3
          | jmpNear l => exact jumpSeg_of hoc (by omega) k3
          | jcc c' l => exact jumpSeg_of hoc (by omega) k3
          | jccNear c' l => exact jumpSeg_of hoc (by omega) k3

/-! ## the whole script -/

theorem createLabels_eq (n : Nat) : ∀ s0 : Asm,
    (createLabels n).run s0 = .ok ((), { s0 with labels := s0.labels ++ List.replicate n none }) := by
  induction n with
  | zero => intro s0; simp only [createLabels, List.replicate_zero, List.append_nil]; rfl
  | succ n ih =>
    intro s0
    simp only [createLabels, StateT.run, bind, StateT.bind, Except.bind, create_label, Buf.create_label, pure,
      StateT.pure, Except.pure]
    have := ih { s0 with labels := s0.labels ++ [none] }
    simp only [StateT.run] at this
    rw [this]
    simp only [List.replicate_succ, List.append_assoc, List.singleton_append]

theorem replicate_none_getElem? (n l : Nat) (q : UInt32) :
    (([] : List (Option UInt32)) ++ List.replicate n none)[l]? ≠ some (some q) := by
  simp only [List.nil_append, List.getElem?_replicate]
  split <;> simp

/-- **Layout of a whole script.** A successful run whose buffer stays below 2^31 bytes leaves a buffer that is the
concatenation of one segment per operation, starting at the recorded positions; raw bytes are unchanged, every `bind`
recorded its own start position, every jump is its opcode followed by a displacement field that reads back as
`label position − end of the instruction`; every bound label was bound by a `bind` of the script. -/
theorem script_layout (avx : Bool) (n : Nat) (ops : List JOp) (starts : List Nat) (s : Asm)
    (hr : (runScript n ops).run (Asm.new avx) = .ok (starts, s)) (hlen : s.code.length < 2147483648) :
    ∃ segs, s.code = segs.flatten ∧ Layout s.labels 0 ops segs starts ∧
      (∀ (l : Nat) (q : UInt32), s.labels[l]? = some (some q) → JOp.bind l ∈ ops) ∧
      s.unresolved_jumps = [] := by
  simp only [runScript, StateT.run, bind, StateT.bind, Except.bind] at hr
  have hc := createLabels_eq n (Asm.new avx)
  simp only [StateT.run] at hc
  rw [hc] at hr
  simp only [] at hr
  cases h1 : runOps ops { Asm.new avx with labels := (Asm.new avx).labels ++ List.replicate n none } with
  | error e => rw [h1] at hr; cases hr
  | ok r =>
    rw [h1] at hr
    simp only [] at hr
    obtain ⟨ps, sb⟩ := r
    have hres := resolve_jumps_eq sb
    simp only [StateT.run] at hres
    rw [hres] at hr
    cases h2 : resolveLoop sb.unresolved_jumps { sb with unresolved_jumps := [] } with
    | error e => rw [h2] at hr; cases hr
    | ok sc =>
      rw [h2] at hr
      simp only [Except.map, pure, StateT.pure, Except.pure, Except.ok.injEq, Prod.mk.injEq] at hr
      obtain ⟨rfl, rfl⟩ := hr
      simp only [] at hlen ⊢
      obtain ⟨a1, a2, a3, a4, cs, a5, a6, a7⟩ :=
        runOps_phase ops { Asm.new avx with labels := (Asm.new avx).labels ++ List.replicate n none } sb ps rfl h1
      have hnew : (Asm.new avx).code = [] := rfl
      have hnewj : (Asm.new avx).unresolved_jumps = [] := rfl
      have hnewl : (Asm.new avx).labels = [] := rfl
      simp only [hnew, hnewj, hnewl, List.nil_append, List.length_nil] at a4 a5 a6 a7
      have hlenb : sb.code.length ≤ sc.code.length := resolveLoop_len _ { sb with unresolved_jumps := [] } _ h2
      have hL : ∀ (l : Nat) (q : UInt32), sb.labels[l]? = some (some q) → q.toNat < 2147483648 := by
        intro l q h
        rcases a4 l q h with h' | ⟨_, _, h'⟩
        · simp only [List.getElem?_replicate] at h'
          split at h' <;> simp at h'
        · omega
      rw [a6] at h2
      obtain ⟨b1, b2, b3, segs, b4, b5⟩ :=
        resolveLoop_chunks cs [] { sb with unresolved_jumps := [] } sc (by simpa using a5) (by simp only []; omega) hL h2
      simp only [List.nil_append, List.length_nil] at b4 b5
      refine ⟨segs, b4, ?_, ?_, b2⟩
      · rw [b1]
        exact layout_of sb.labels ops 0 cs segs ps a7 b5 (by rw [← b4]; omega)
      · intro l q h
        rw [b1] at h
        rcases a4 l q h with h' | ⟨hm, _, _⟩
        · simp only [List.getElem?_replicate] at h'
          split at h' <;> simp at h'
        · exact hm
