import DoraModel.X64.Lemmas
/-! C07 — `Address::array` for bases 0–3: every index, scale and i32 displacement (pieces of `address_array_decodes`). -/
set_option linter.unusedSimpArgs false
set_option maxRecDepth 4000
namespace Dora.X64
open Dora.X64.Dec

theorem array_base0 (index : Fin 16) (hi : index.val ≠ 4 ∧ index.val ≠ 12) (scale : Fin 4) (disp : Int32) (tail : Dec.Bytes) :
    addrOperand (Address.array (Rn 0) (R index) (Sn scale.val) disp) tail
      = .ok (some (.mem (.mem (some 0) (some (index.val, 2 ^ scale.val)) disp.toInt), tail)) := by
  revert hi scale
  refine forall_fin16 (p := fun i => (i ≠ 4 ∧ i ≠ 12) → ∀ scale : Fin 4,
      addrOperand (Address.array (Rn 0) (Rn i) (Sn scale.val) disp) tail
        = .ok (some (.mem (.mem (some 0) (some (i, 2 ^ scale.val)) disp.toInt), tail)))
    ?_ ?_ ?_ ?_ ?_ ?_ ?_ ?_ ?_ ?_ ?_ ?_ ?_ ?_ ?_ ?_ index
  all_goals intro hi
  all_goals first
    | (exfalso; omega)
    | (refine forall_fin4 (p := fun s => addrOperand (Address.array (Rn _) (Rn _) (Sn s) disp) tail
          = .ok (some (.mem (.mem (some _) (some (_, 2 ^ s)) disp.toInt), tail))) ?_ ?_ ?_ ?_
       all_goals addr_classes Address.array disp)

theorem array_base1 (index : Fin 16) (hi : index.val ≠ 4 ∧ index.val ≠ 12) (scale : Fin 4) (disp : Int32) (tail : Dec.Bytes) :
    addrOperand (Address.array (Rn 1) (R index) (Sn scale.val) disp) tail
      = .ok (some (.mem (.mem (some 1) (some (index.val, 2 ^ scale.val)) disp.toInt), tail)) := by
  revert hi scale
  refine forall_fin16 (p := fun i => (i ≠ 4 ∧ i ≠ 12) → ∀ scale : Fin 4,
      addrOperand (Address.array (Rn 1) (Rn i) (Sn scale.val) disp) tail
        = .ok (some (.mem (.mem (some 1) (some (i, 2 ^ scale.val)) disp.toInt), tail)))
    ?_ ?_ ?_ ?_ ?_ ?_ ?_ ?_ ?_ ?_ ?_ ?_ ?_ ?_ ?_ ?_ index
  all_goals intro hi
  all_goals first
    | (exfalso; omega)
    | (refine forall_fin4 (p := fun s => addrOperand (Address.array (Rn _) (Rn _) (Sn s) disp) tail
          = .ok (some (.mem (.mem (some _) (some (_, 2 ^ s)) disp.toInt), tail))) ?_ ?_ ?_ ?_
       all_goals addr_classes Address.array disp)

theorem array_base2 (index : Fin 16) (hi : index.val ≠ 4 ∧ index.val ≠ 12) (scale : Fin 4) (disp : Int32) (tail : Dec.Bytes) :
    addrOperand (Address.array (Rn 2) (R index) (Sn scale.val) disp) tail
      = .ok (some (.mem (.mem (some 2) (some (index.val, 2 ^ scale.val)) disp.toInt), tail)) := by
  revert hi scale
  refine forall_fin16 (p := fun i => (i ≠ 4 ∧ i ≠ 12) → ∀ scale : Fin 4,
      addrOperand (Address.array (Rn 2) (Rn i) (Sn scale.val) disp) tail
        = .ok (some (.mem (.mem (some 2) (some (i, 2 ^ scale.val)) disp.toInt), tail)))
    ?_ ?_ ?_ ?_ ?_ ?_ ?_ ?_ ?_ ?_ ?_ ?_ ?_ ?_ ?_ ?_ index
  all_goals intro hi
  all_goals first
    | (exfalso; omega)
    | (refine forall_fin4 (p := fun s => addrOperand (Address.array (Rn _) (Rn _) (Sn s) disp) tail
          = .ok (some (.mem (.mem (some _) (some (_, 2 ^ s)) disp.toInt), tail))) ?_ ?_ ?_ ?_
       all_goals addr_classes Address.array disp)

theorem array_base3 (index : Fin 16) (hi : index.val ≠ 4 ∧ index.val ≠ 12) (scale : Fin 4) (disp : Int32) (tail : Dec.Bytes) :
    addrOperand (Address.array (Rn 3) (R index) (Sn scale.val) disp) tail
      = .ok (some (.mem (.mem (some 3) (some (index.val, 2 ^ scale.val)) disp.toInt), tail)) := by
  revert hi scale
  refine forall_fin16 (p := fun i => (i ≠ 4 ∧ i ≠ 12) → ∀ scale : Fin 4,
      addrOperand (Address.array (Rn 3) (Rn i) (Sn scale.val) disp) tail
        = .ok (some (.mem (.mem (some 3) (some (i, 2 ^ scale.val)) disp.toInt), tail)))
    ?_ ?_ ?_ ?_ ?_ ?_ ?_ ?_ ?_ ?_ ?_ ?_ ?_ ?_ ?_ ?_ index
  all_goals intro hi
  all_goals first
    | (exfalso; omega)
    | (refine forall_fin4 (p := fun s => addrOperand (Address.array (Rn _) (Rn _) (Sn s) disp) tail
          = .ok (some (.mem (.mem (some _) (some (_, 2 ^ s)) disp.toInt), tail))) ?_ ?_ ?_ ?_
       all_goals addr_classes Address.array disp)

end Dora.X64
