import DoraModel.Gen.MasmTypes
/-!
# Support definitions for the regenerated model of the baseline macro assembler (`DoraModel/Gen/Masm.lean`)

Hand-written; everything here is what `tools/rs2lean_masm.py` *assumes* and does not translate:

* `MacroAssembler` state as far as the arithmetic helpers use it: the emitted instruction list (instead of bytes), the
  label counter, the bailout list, the scratch-register bit mask (`dora-cannon-compiler/src/masm.rs`);
* `create_label`, `bind_label`, `emit_bailout` (`self.bailouts.push`), `emit_bailouts` (drain: bind label, `trap`, and the
  trailing `nop`), `get_scratch` / `free_scratch` (`ScratchRegisters::get` / `Drop for ScratchReg`),
  `raw_call_runtime_function` (a `call rel32` + relocation; only the trap trampoline is modelled, as `Instr.call_trap`),
  `emit_position` (no instruction);
* `Mem` (payload enum), `AnyReg` read as an integer register, `Header::size() = 8`, `ptr_width() = 8`;
* Rust readings: every integer type is `Int` (the helpers only widen), `assert!` ↦ `throw`, `unreachable!` ↦ `throw`.

All of it is tied to the code by the byte comparison of `checks/c01_masm.py` (real `MacroAssembler` bytes = bytes of the
model's instruction list assembled by the real encoder). Core Lean only.
-/
namespace Dora.Masm
open Dora.X64.Sem

export Dora.X64.Sem (Reg Instr Label Cond Addr)

/-- `dora_bytecode::Location` (line, column); only carried around -/
structure Location where
  line : Nat := 1
  col : Nat := 1
  deriving DecidableEq, Repr, Inhabited

/-- `enum Mem` of masm.rs -/
inductive Mem
  | Local (off : Int)
  | Base (base : Reg) (disp : Int)
  | Index (base : Reg) (index : Reg) (scale : Int) (disp : Int)
  | Offset (index : Reg) (scale : Int) (disp : Int)
  deriving DecidableEq, Repr

/-- `dora_compiler::RuntimeFunction`, only the variant the helpers name -/
inductive RuntimeFunction
  | TrapTrampoline
  | Other
  deriving DecidableEq, Repr

structure MState where
  /-- emitted instructions, in order -/
  code : List Instr := []
  nlabels : Nat := 0
  /-- `(label, trap, location)` -/
  bailouts : List (Label × Trap × Location) := []
  /-- `ScratchRegisters.value` -/
  scratch : Nat := 0
  deriving Repr

abbrev M := StateT MState (Except String)

/-- `self.asm.<method>(args)` -/
def emit (i : Instr) : M Unit := modify fun s => { s with code := s.code ++ [i] }

/-- `MacroAssembler::create_label` / `AssemblerBuffer::create_label` -/
def create_label : M Label := do
  let s ← get
  set { s with nlabels := s.nlabels + 1 }
  pure ⟨s.nlabels⟩

/-- `MacroAssembler::bind_label` -/
def bind_label (l : Label) : M Unit := emit (.bind l)

/-- `assert!(c, msg)` -/
def rassert (c : Bool) (msg : String) : M Unit := if c then pure () else throw msg

/-- `xs[i]` -/
def getIdx {α : Type} (xs : List α) (i : Int) : M α :=
  match xs[i.toNat]? with
  | some v => if 0 ≤ i then pure v else throw "index out of bounds"
  | none => throw "index out of bounds"

/-- `ScratchRegisters::get`: the first register of `regs` whose bit is clear -/
def scratchFind (regs : List Reg) (value : Nat) (ind : Nat) : Option (Nat × Reg) :=
  match regs with
  | [] => none
  | r :: rs => if (value >>> ind) % 2 = 0 then some (ind, r) else scratchFind rs value (ind + 1)

/-- a held scratch register: `ScratchReg { ind, reg, .. }` -/
structure ScratchReg where
  ind : Nat
  reg : Reg
  deriving Repr

def get_scratch_from (regs : List Reg) : M ScratchReg := do
  let s ← get
  match scratchFind regs s.scratch 0 with
  | some (ind, r) =>
    set { s with scratch := s.scratch ||| (1 <<< ind) }
    pure ⟨ind, r⟩
  | none => throw "all scratch registers used"

/-- `Drop for ScratchReg` (the translator inserts it at the end of the scope that holds the register) -/
def free_scratch (r : ScratchReg) : M Unit :=
  modify fun s => { s with scratch := s.scratch &&& ((1 <<< r.ind) ^^^ (2 ^ 64 - 1)) }

/-- `MacroAssembler::emit_bailout` -/
def emit_bailout (lbl : Label) (trap : Trap) (location : Location) : M Unit :=
  modify fun s => { s with bailouts := s.bailouts ++ [(lbl, trap, location)] }

/-- `MacroAssembler::emit_position`: records a source position, emits nothing -/
def emit_position (_location : Location) : M Unit := pure ()

/-- `MacroAssembler::raw_call_runtime_function`: `call rel32` with a relocation to the runtime function -/
def raw_call_runtime_function (f : RuntimeFunction) : M Unit :=
  match f with
  | .TrapTrampoline => emit .call_trap
  | .Other => throw "unmodelled: call of a runtime function other than the trap trampoline"

/-- `Header::size()`: `size_of::<usize>()` on x86-64 -/
def Header.size : M Int := pure 8
/-- `ptr_width()` -/
def ptr_width : M Int := pure 8

end Dora.Masm
