import DoraModel.X64.MasmLemmas2
/-!
# Helper lemmas for the machine-leg theorems of C01, part 3: bounds check, comparisons (`bv_decide`), extensions
-/
set_option linter.unusedSimpArgs false
set_option linter.unusedVariables false
namespace Dora.Masm.Spec
open Dora.X64.Sem Dora.Masm

/-! ## bounds check -/

theorem prog_bounds (array index : Reg) (loc : Location) : assemble (check_index_out_of_bounds loc array index) =
    .ok ([Instr.movq_ra RDI { base := some array, disp := 8 }, .cmpq_rr index RDI, .jcc .ae ⟨0⟩, .done] ++ stub 0 2 ++ [.nop]) := rfl

theorem unsigned_bound (idx len : BitVec 64) (h : 0 ≤ len.toInt) :
    idx.toNat < len.toNat ↔ (0 ≤ idx.toInt ∧ idx.toInt < len.toInt) := by
  have := idx.isLt; have := len.isLt
  rw [BitVec.toInt_eq_toNat_cond] at h ⊢
  rw [BitVec.toInt_eq_toNat_cond]
  split at h <;> split <;> omega

/-! ## comparisons -/

/-- the hardware condition `set`/`jump_if` use for a `CondCode` (`convert_into_condition` followed by `Condition::int`) -/
def condOf : CondCode → Cond
  | .Zero | .Equal => .e
  | .NonZero | .NotEqual => .ne
  | .Less => .l
  | .LessEq => .le
  | .Greater => .g
  | .GreaterEq => .ge
  | .UnsignedGreater => .a
  | .UnsignedGreaterEq => .ae
  | .UnsignedLess => .b
  | .UnsignedLessEq => .be

theorem prog_cmp_set_Int64 (dest lhs rhs : Reg) (op : CondCode) :
    assemble (do cmp_reg .Int64 lhs rhs; set_ dest op) = .ok [Instr.cmpq_rr lhs rhs, .setcc_r (condOf op) dest, .done] := by
  cases op <;> rfl

theorem prog_cmp_set_Ptr (dest lhs rhs : Reg) (op : CondCode) :
    assemble (do cmp_reg .Ptr lhs rhs; set_ dest op) = .ok [Instr.cmpq_rr lhs rhs, .setcc_r (condOf op) dest, .done] := by
  cases op <;> rfl

theorem prog_cmp_set_Int32 (dest lhs rhs : Reg) (op : CondCode) :
    assemble (do cmp_reg .Int32 lhs rhs; set_ dest op) = .ok [Instr.cmpl_rr lhs rhs, .setcc_r (condOf op) dest, .done] := by
  cases op <;> rfl

theorem prog_cmp_set_Int8 (dest lhs rhs : Reg) (op : CondCode) :
    assemble (do cmp_reg .Int8 lhs rhs; set_ dest op) = .ok [Instr.cmpb_rr lhs rhs, .setcc_r (condOf op) dest, .done] := by
  cases op <;> rfl

theorem condOf_sub64 (op : CondCode) (a b : BitVec 64) : (condOf op).eval (subOp a b).2 = some (relHolds op a b) := by
  cases op <;> simp only [condOf, Cond.eval, subOp, szp, relHolds, Option.map_some, Option.bind_eq_bind, Option.bind_some,
    bind, pure, Option.pure_def, Option.some.injEq] <;> bv_decide (timeout := 600)

theorem condOf_sub32 (op : CondCode) (a b : BitVec 32) : (condOf op).eval (subOp a b).2 = some (relHolds op a b) := by
  cases op <;> simp only [condOf, Cond.eval, subOp, szp, relHolds, Option.map_some, Option.bind_eq_bind, Option.bind_some,
    bind, pure, Option.pure_def, Option.some.injEq] <;> bv_decide (timeout := 600)

theorem condOf_sub8 (op : CondCode) (a b : BitVec 8) : (condOf op).eval (subOp a b).2 = some (relHolds op a b) := by
  cases op <;> simp only [condOf, Cond.eval, subOp, szp, relHolds, Option.map_some, Option.bind_eq_bind, Option.bind_some,
    bind, pure, Option.pure_def, Option.some.injEq] <;> bv_decide (timeout := 600)

theorem lo8_set8 (x : BitVec 64) (v : BitVec 8) : lo8 ((x &&& 0xFFFFFFFFFFFFFF00#64) ||| v.setWidth 64) = v := by
  unfold lo8; bv_decide (timeout := 600)
theorem hi_set8 (x : BitVec 64) (v : BitVec 8) :
    ((x &&& 0xFFFFFFFFFFFFFF00#64) ||| v.setWidth 64) &&& 0xFFFFFFFFFFFFFF00#64 = x &&& 0xFFFFFFFFFFFFFF00#64 := by
  bv_decide (timeout := 600)

/-! ## extensions -/

theorem prog_extend_int_long (dest src : Reg) : assemble (extend_int_long dest src) = .ok [Instr.movsxlq_rr dest src, .done] := rfl
theorem prog_extend_byte (mode : MachineMode) (dest src : Reg) :
    assemble (extend_byte mode dest src) = .ok [Instr.movzxb_rr dest src, .done] := rfl

/-! ## outcomes -/

theorem defined_of_cases {P : Prop} {o : Outcome} {n : Nat} {A B : State → Prop}
    (h1 : P → ∃ s', o = .done s' ∧ A s') (h2 : ¬P → ∃ s', o = .trap n s' ∧ B s') : Outcome.defined o := by
  by_cases hp : P
  · obtain ⟨s', h, _⟩ := h1 hp; rw [h]; trivial
  · obtain ⟨s', h, _⟩ := h2 hp; rw [h]; trivial

end Dora.Masm.Spec
