import DoraModel.X64.Spec
/-!
# C07 — request parsing shared by the driver and the generated dispatch table

Operand tokens exactly as the Rust harness `h_c07` reads them: registers / xmm by number, immediates decimal (i64),
conditions by declaration index, labels by creation index, addresses `off b d | idx i s d | arr b i s d | rip d`.
Out-of-range register numbers are an error of the *request* on both sides (`Register::new` asserts `< 16`;
the harness calls it, so does this parser through the translated `Register.new`).
-/
namespace Dora.X64
open Dora.X64.Dec

abbrev Toks := List String

def liftE {α : Type} (e : Except String α) : X64 α := fun s =>
  match e with
  | .ok a => .ok (a, s)
  | .error m => .error m

def pInt (t : Toks) : Option (Int × Toks) :=
  match t with
  | x :: r => (x.toInt?).map (·, r)
  | [] => none

def pNat (t : Toks) : Option (Nat × Toks) :=
  match t with
  | x :: r => (x.toNat?).map (·, r)
  | [] => none

/-- a register operand; numbers ≥ 16 make the (translated) `Register::new` fail, which the driver reports as a panic -/
def pReg (t : Toks) : Option (Except String Register × Toks) := do
  let (n, r) ← pNat t
  if n < 256 then pure (Register.new (UInt8.ofNat n), r) else none

def pXmm (t : Toks) : Option (XmmRegister × Toks) := do
  let (n, r) ← pNat t
  if n < 256 then pure (XmmRegister.new (UInt8.ofNat n), r) else none

def pImm (t : Toks) : Option (Immediate × Toks) := do
  let (n, r) ← pInt t
  if -9223372036854775808 ≤ n ∧ n < 9223372036854775808 then pure (⟨Int64.ofInt n⟩, r) else none

def pCond (t : Toks) : Option (Condition × Toks) := do
  let (n, r) ← pNat t
  let c ← Condition.all[n]?
  pure (c, r)

def pU8 (t : Toks) : Option (UInt8 × Toks) := do
  let (n, r) ← pNat t
  if n < 256 then pure (UInt8.ofNat n, r) else none

def pU32 (t : Toks) : Option (UInt32 × Toks) := do
  let (n, r) ← pNat t
  if n < 4294967296 then pure (UInt32.ofNat n, r) else none

def pU64 (t : Toks) : Option (UInt64 × Toks) := do
  let (n, r) ← pNat t
  if n < 18446744073709551616 then pure (UInt64.ofNat n, r) else none

def pI32 (t : Toks) : Option (Int32 × Toks) := do
  let (n, r) ← pInt t
  if -2147483648 ≤ n ∧ n < 2147483648 then pure (Int32.ofInt n, r) else none

def pLabel (labels : List Label) (t : Toks) : Option (Label × Toks) := do
  let (n, r) ← pNat t
  let l ← labels[n]?
  pure (l, r)

def pScale (t : Toks) : Option (ScaleFactor × Toks) := do
  let (n, r) ← pNat t
  let s ← ScaleFactor.all[n]?
  pure (s, r)

/-- address request; register numbers ≥ 16 are kept as an error inside (reported as a panic when built) -/
structure AddrTok where
  req : Except String AddrReq

def AddrTok.build (a : AddrTok) : Except String Address := do
  let r ← a.req
  r.build

def pAddr (t : Toks) : Option (AddrTok × Toks) :=
  match t with
  | "off" :: t => do
    let (b, t) ← pReg t
    let (d, t) ← pI32 t
    pure (⟨do pure (.off (← b) d)⟩, t)
  | "idx" :: t => do
    let (i, t) ← pReg t
    let (s, t) ← pScale t
    let (d, t) ← pI32 t
    pure (⟨do pure (.idx (← i) s d)⟩, t)
  | "arr" :: t => do
    let (b, t) ← pReg t
    let (i, t) ← pReg t
    let (s, t) ← pScale t
    let (d, t) ← pI32 t
    pure (⟨do pure (.arr (← b) (← i) s d)⟩, t)
  | "rip" :: t => do
    let (d, t) ← pI32 t
    pure (⟨pure (.rip d)⟩, t)
  | _ => none

def pEnd (t : Toks) : Option Unit := if t.isEmpty then some () else none

/-- Spec of a call whose operands may have failed to build (then the call panics before any Spec applies) -/
def specOf (s : Except String SpecResult) : SpecResult :=
  match s with
  | .ok r => r
  | .error _ => .unspecified

end Dora.X64
