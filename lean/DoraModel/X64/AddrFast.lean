import DoraModel.X64.Interface
/-!
# C07 — address-taking methods: the per-(register, REX bits) statement with the address left opaque

The relative per-method statement `AddrLeaf` (X64/AddrOracle.lean) quantifies over the six possible encoded lengths and
the six byte slots of an `Address`. Checking it leaf by leaf costs six kernel evaluations of the whole method per
(register, REX.X, REX.B). This file derives it from three cheaper facts per (register, REX.X, REX.B) — `AddrPre` — in
which the address bytes and the length are *variables* (the kernel evaluates the method up to the call of
`emit_address`, which is stuck on the opaque address, and compares the stuck terms):

* `bytes`: the method run on an address with these REX bits does exactly: emit the prefix `P`, then `emit_address reg a`
  (`P` is obtained by running the method itself on a one-byte dummy address: `preOf`),
* `dec`: the reference decoder, given `P ++ T`, reads `P` as prefixes/REX/opcode and hands `T` to `decodeModRM` with the
  same REX.X / REX.B,
* `spec`: whatever memory operand `decodeModRM` reports, the decoded instruction is the Spec entry with that operand.

`emit_address_run` (proved once, for every state whose position is at the end of the buffer) supplies what
`emit_address` appends. Also here: the step from `address_array_decodes` (which speaks about `mod`/`rm`/SIB/disp only)
to the per-method statement for `Address::array` (`leaf_array`).
-/
set_option linter.unusedSimpArgs false
set_option maxRecDepth 4000
namespace Dora.X64
open Dora.X64.Dec

theorem emitBytes_end (s : Asm) (h : s.position = s.code.length) (bs : Bytes) :
    Buf.emitBytes bs s = .ok ((), { s with code := s.code ++ bs, position := s.position + bs.length }) := by
  simp [Buf.emitBytes, h]

/-- the bytes `emit_address reg a` appends for an address of a given shape -/
def addrList (reg : Nat) (len : Nat) (b0 b1 b2 b3 b4 b5 : UInt8) : Bytes :=
  ((UInt8.ofNat reg <<< 3) ||| b0) :: ([b1, b2, b3, b4, b5].take (len - 1))

/-- `emit_address` on any state whose position is the end of the buffer: appends the ModRM byte (reg field or-ed in) and
the remaining `len - 1` encoded bytes; nothing else changes. -/
theorem emit_address_run (reg : Fin 8) (rx rb : Bool) (len : Fin 6) (b0 b1 b2 b3 b4 b5 : UInt8) (s : Asm)
    (h : s.position = s.code.length) :
    (emit_address (UInt8.ofNat reg.val) (mkAddr rx rb (len.val + 1) b0 b1 b2 b3 b4 b5)).run s
      = .ok ((), { s with code := s.code ++ addrList reg.val (len.val + 1) b0 b1 b2 b3 b4 b5,
                          position := s.position + (len.val + 1) }) := by
  revert len
  refine forall_fin8 (p := fun r => ∀ len : Fin 6,
      (emit_address (UInt8.ofNat r) (mkAddr rx rb (len.val + 1) b0 b1 b2 b3 b4 b5)).run s
        = .ok ((), { s with code := s.code ++ addrList r (len.val + 1) b0 b1 b2 b3 b4 b5,
                            position := s.position + (len.val + 1) })) ?_ ?_ ?_ ?_ ?_ ?_ ?_ ?_ reg
  all_goals
    intro len
    refine forall_fin6 (p := fun l => (emit_address (UInt8.ofNat _) (mkAddr rx rb (l + 1) b0 b1 b2 b3 b4 b5)).run s
      = .ok ((), { s with code := s.code ++ addrList _ (l + 1) b0 b1 b2 b3 b4 b5,
                          position := s.position + (l + 1) })) ?_ ?_ ?_ ?_ ?_ ?_ len
  all_goals
    simp [emit_address, mkAddr, Address.encoded_bytes, sliceRange, sliceFrom, getIdx, rassert, fits_u3, emit_u8, Buf.emit_u8,
      emitBytes_end, h, addrList, StateT.run, bind, StateT.bind, Except.bind, pure, StateT.pure, Except.pure, RCast.cast,
      liftM, monadLift, MonadLift.monadLift, StateT.lift, List.forIn_cons, List.forIn_nil]

/-- the bytes a method emits before the ModRM byte: run it on a one-byte dummy address with the given REX bits and drop
the last byte -/
def preOf (e : Address → Except String Dec.Bytes) (rx rb : Bool) : Dec.Bytes :=
  match e (mkAddr rx rb 1 0 0 0 0 0 0) with
  | .ok bs => bs.dropLast
  | .error _ => []

/-- run `x` in an assembler that already holds the bytes `P` (position at the end) -/
def encAfter (avx : Bool) (P : Dec.Bytes) (x : X64 Unit) : Except String Dec.Bytes :=
  match x.run { code := P, position := P.length, has_avx2 := avx } with
  | .ok (_, s) => .ok s.code
  | .error e => .error e

theorem encAfter_emit_address (avx : Bool) (P : Dec.Bytes) (reg : Fin 8) (rx rb : Bool) (len : Fin 6)
    (b0 b1 b2 b3 b4 b5 : UInt8) :
    encAfter avx P (emit_address (UInt8.ofNat reg.val) (mkAddr rx rb (len.val + 1) b0 b1 b2 b3 b4 b5))
      = .ok (P ++ addrList reg.val (len.val + 1) b0 b1 b2 b3 b4 b5) := by
  unfold encAfter
  rw [emit_address_run reg rx rb len b0 b1 b2 b3 b4 b5 _ rfl]

theorem addrBytes_eq (reg : Fin 8) (rx rb : Bool) (len : Fin 6) (b0 b1 b2 b3 b4 b5 : UInt8) :
    addrBytes reg.val (mkAddr rx rb (len.val + 1) b0 b1 b2 b3 b4 b5) = addrList reg.val (len.val + 1) b0 b1 b2 b3 b4 b5 := by
  unfold addrBytes enc
  rw [emit_address_run reg rx rb len b0 b1 b2 b3 b4 b5 (Asm.new false) rfl]
  simp [Asm.new]

/-- the three facts per (register, REX.X, REX.B), address bytes and length opaque (see the module comment) -/
structure AddrPre (e : Address → Except String Dec.Bytes) (want' : AddrReq → Option (Instr × Dec.Bytes)) (avx : Bool)
    (reg : Nat) (rx rb : Bool) : Prop where
  bytes : ∀ (l : UInt8) (bs : List UInt8),
    e ⟨rexByte rx rb, l, bs⟩ = encAfter avx (preOf e rx rb) (emit_address (UInt8.ofNat reg) ⟨rexByte rx rb, l, bs⟩)
  dec : ∀ T : Dec.Bytes, decode (preOf e rx rb ++ T) = bodyOf (preOf e rx rb ++ T) (decodeModRM rx rb T)
  spec : ∀ (T : Dec.Bytes) (req : AddrReq), bodyOf (preOf e rx rb ++ T) (some (reg, .mem req.opnd, [])) = want' req

/-- `AddrPre` ⇒ the relative per-method statement for all six lengths and all byte values -/
theorem leaf_of_pre {e : Address → Except String Dec.Bytes} {want' : AddrReq → Option (Instr × Dec.Bytes)} {avx : Bool}
    {reg : Nat} {rx rb : Bool} (hp : AddrPre e want' avx reg rx rb) (hr : reg < 8) (len : Fin 6) :
    AddrLeaf e want' true reg rx rb (len.val + 1) := by
  intro b0 b1 b2 b3 b4 b5 req h
  refine ⟨fun _ => ?_, fun hg => absurd hg (by decide)⟩
  have hb := hp.bytes (UInt8.ofNat (len.val + 1)) [b0, b1, b2, b3, b4, b5]
  have h0 := h []
  rw [List.append_nil, addrBytes_eq ⟨reg, hr⟩ rx rb len] at h0
  change e (mkAddr rx rb (len.val + 1) b0 b1 b2 b3 b4 b5)
    = encAfter avx _ (emit_address _ (mkAddr rx rb (len.val + 1) b0 b1 b2 b3 b4 b5)) at hb
  rw [hb, encAfter_emit_address avx _ ⟨reg, hr⟩ rx rb len]
  simp only [Except.map]
  rw [hp.dec, h0, hp.spec]

/-- a method whose `has_avx2` guard fails refuses every address -/
theorem leaf_refused {e : Address → Except String Dec.Bytes} {want' : AddrReq → Option (Instr × Dec.Bytes)}
    {reg : Nat} {rx rb : Bool} {len : Nat} (h : ∀ a, isError (e a) = true) : AddrLeaf e want' false reg rx rb len := by
  intro b0 b1 b2 b3 b4 b5 req _
  exact ⟨fun hg => absurd hg (by decide), fun _ => h _⟩

/-- close `AddrPre …` for concrete register / REX bits / `has_avx2` -/
macro "addr_pre" : tactic => `(tactic| (
  refine ⟨?_, ?_, ?_⟩
  · intro l bs; kernel_rfl
  · intro T; kernel_rfl
  · intro T req; kernel_rfl))

/-- `∀ rx rb len, AddrLeaf e want' true reg rx rb (len+1)` for a concrete register; the argument is the `has_avx2` value
the method runs with (a variable for methods that do not look at it) -/
macro "addr_fast " avx:term : tactic => `(tactic| (
  intro rx rb len
  cases rx <;> cases rb <;> exact leaf_of_pre (avx := $avx) (by addr_pre) (by decide) len))

/-- the same when the guard fails -/
macro "addr_refused" : tactic => `(tactic| (
  intro rx rb len
  exact leaf_refused (by intro a; kernel_rfl)))

/-- methods `m(dest, lhs, address)` with two XMM registers (the VEX three-operand forms) -/
def AddrOkXX (m : XmmRegister → XmmRegister → Address → X64 Unit)
    (spec : XmmRegister → XmmRegister → AddrReq → SpecResult) (guard : Bool → Bool) : Prop :=
  ∀ (avx : Bool) (dest lhs : Fin 16) (rx rb : Bool) (len : Fin 6),
    AddrLeaf (fun a => enc avx (m (X dest) (X lhs) a)) (fun req => want (spec (X dest) (X lhs) req)) (guard avx)
      (dest.val % 8) rx rb (len.val + 1)

/-! ## `Address::array` -/

/-- ModRM byte with the reg field or-ed in: when bits 5–3 of the address's first byte are clear, `mod` and `rm` are
those of the address byte and `reg` is the field. All 256 × 8 values. -/
theorem modrm_or : ∀ (n : Fin 256) (reg : Fin 8), (UInt8.ofNat n.val &&& 0x38) = 0 →
    ((UInt8.ofNat reg.val <<< 3) ||| UInt8.ofNat n.val).toNat / 64 = n.val / 64 ∧
    ((UInt8.ofNat reg.val <<< 3) ||| UInt8.ofNat n.val).toNat / 8 % 8 = reg.val ∧
    ((UInt8.ofNat reg.val <<< 3) ||| UInt8.ofNat n.val).toNat % 8 = n.val % 8 := by
  decide +kernel

theorem modrm_or' (b0 : UInt8) (reg : Fin 8) (h : (b0 &&& 0x38) = 0) :
    ((UInt8.ofNat reg.val <<< 3) ||| b0).toNat / 64 = b0.toNat / 64 ∧
    ((UInt8.ofNat reg.val <<< 3) ||| b0).toNat / 8 % 8 = reg.val ∧
    ((UInt8.ofNat reg.val <<< 3) ||| b0).toNat % 8 = b0.toNat % 8 := by
  have := modrm_or ⟨b0.toNat, b0.toNat_lt⟩ reg
  simp only [UInt8.ofNat_toNat] at this
  exact this h

/-- legal shape + the reg field of the first byte is clear -/
def shapeOKm (rx rb : Bool) (a : Address) : Bool :=
  shapeOK rx rb a && (match a.bytes with | b0 :: _ => (b0 &&& 0x38) == 0 | [] => false)

theorem shape_mk_m {rx rb : Bool} {a : Address} (h : shapeOKm rx rb a = true) :
    ∃ (len : Fin 6) (b0 b1 b2 b3 b4 b5 : UInt8), a = mkAddr rx rb (len.val + 1) b0 b1 b2 b3 b4 b5 ∧ (b0 &&& 0x38) = 0 := by
  simp only [shapeOKm, Bool.and_eq_true] at h
  obtain ⟨len, b0, b1, b2, b3, b4, b5, rfl⟩ := shape_mk h.1
  refine ⟨len, b0, b1, b2, b3, b4, b5, rfl, ?_⟩
  have := h.2
  simpa [mkAddr] using this

theorem encoded_bytes_mk (rx rb : Bool) (len : Fin 6) (b0 b1 b2 b3 b4 b5 : UInt8) :
    Address.encoded_bytes (mkAddr rx rb (len.val + 1) b0 b1 b2 b3 b4 b5) = .ok (b0 :: [b1, b2, b3, b4, b5].take len.val) := by
  refine forall_fin6 (p := fun l => Address.encoded_bytes (mkAddr rx rb (l + 1) b0 b1 b2 b3 b4 b5)
    = .ok (b0 :: [b1, b2, b3, b4, b5].take l)) ?_ ?_ ?_ ?_ ?_ ?_ len
  all_goals kernel_rfl

/-- from the `mod`/`rm`/SIB/displacement reading (`addrOperand`) to the full ModRM reading (`addrDecoded`) for any
reg field, for an address of legal shape whose first byte has a clear reg field -/
theorem addrDecoded_of_operand {rx rb : Bool} {c : Except String Address} (hs : c.map (shapeOKm rx rb) = .ok true)
    (reg : Fin 8) (tail : Dec.Bytes) {M : Opnd} (h : addrOperand c tail = .ok (some (.mem M, tail))) :
    addrDecoded reg.val c tail = .ok (some (reg.val, .mem M, tail)) := by
  cases hc : c with
  | error err => rw [hc] at hs; cases hs
  | ok a =>
    rw [hc] at hs h
    simp only [Except.map, Except.ok.injEq] at hs
    obtain ⟨len, b0, b1, b2, b3, b4, b5, rfl, hb⟩ := shape_mk_m hs
    have hr := rex_of_mk rx rb (len.val + 1) b0 b1 b2 b3 b4 b5
    have hm := modrm_or' b0 reg hb
    unfold addrOperand at h
    simp only [bind, Except.bind, encoded_bytes_mk, pure, Except.pure, hr.1, hr.2, Except.ok.injEq] at h
    unfold addrDecoded
    have he : enc false (emit_address (UInt8.ofNat reg.val) (mkAddr rx rb (len.val + 1) b0 b1 b2 b3 b4 b5))
        = .ok (addrList reg.val (len.val + 1) b0 b1 b2 b3 b4 b5) := by
      unfold enc
      rw [emit_address_run reg rx rb len b0 b1 b2 b3 b4 b5 (Asm.new false) rfl]
      simp [Asm.new]
    simp only [bind, Except.bind, he, pure, Except.pure, hr.1, hr.2, Except.ok.injEq]
    simp only [addrList, Nat.add_sub_cancel, List.cons_append, decodeModRM, hm.1, hm.2.1, hm.2.2, h]

theorem leaf_array_of {e : Address → Except String Dec.Bytes} {want' : AddrReq → Option (Instr × Dec.Bytes)} {g : Bool}
    (reg : Fin 8) {rx rb : Bool} {c : Except String Address} {req : AddrReq} {M : Opnd}
    (hs : c.map (shapeOKm rx rb) = .ok true) (hM : req.opnd = M)
    (ho : ∀ tail, addrOperand c tail = .ok (some (.mem M, tail)))
    (hl : ∀ len : Fin 6, AddrLeaf e want' g reg.val rx rb (len.val + 1)) :
    MethodOk e want' g c req := by
  have hs' : c.map (shapeOK rx rb) = .ok true := by
    cases hc : c with
    | error err => rw [hc] at hs; cases hs
    | ok a =>
      rw [hc] at hs
      simp only [Except.map, Except.ok.injEq, shapeOKm, Bool.and_eq_true] at hs
      simp only [Except.map, hs.1]
  exact addr_combine hl hs' hM (fun tail => addrDecoded_of_operand hs reg tail (ho tail))

end Dora.X64
