import DoraModel.X64.Jumps2
/-!
# C07 — label resolution in general, part 3: `resolve_jumps` as a recursion over the pending list, and its effect on a
buffer laid out as a list of chunks.
-/
namespace Dora.X64
open Dora.X64.Dec
set_option linter.unusedSimpArgs false

/-- body of the `for jump in unresolved_jumps` loop of the regenerated `resolve_jumps` -/
def resolveBody (jump : ForwardJump) (_r : PUnit) : X64 (ForInStep PUnit) := do
  let lbl_offset : UInt32 := (← expectSome (← offset jump.label) "unbound label")
  set_position (RCast.cast jump.offset : Nat)
  match jump.distance with
  | .Near =>
    let distance : Int32 := ((RCast.cast lbl_offset : Int32) - (((RCast.cast jump.offset : Int32) + (1 : Int32))))
    rassert ((decide (((-128) : Int32) ≤ distance)) && (decide (distance < (0x80 : Int32)))) "assert failed"
    emit_u8 (RCast.cast distance : UInt8)
    pure (ForInStep.yield PUnit.unit)
  | .Far =>
    let distance : Int32 := ((RCast.cast lbl_offset : Int32) - (((RCast.cast jump.offset : Int32) + (4 : Int32))))
    emit_u32 (RCast.cast distance : UInt32)
    pure (ForInStep.yield PUnit.unit)

theorem resolve_jumps_unfold :
    resolve_jumps = (do
      let js ← Buf.take_jumps
      let p ← position
      forIn js PUnit.unit resolveBody
      set_position p) := rfl

/-- one iteration, closed form -/
def resolveOne (j : ForwardJump) (s : Asm) : Except String Asm :=
  match s.labels[j.label.idx]? with
  | none => .error "index out of bounds"
  | some none => .error "unbound label"
  | some (some q) =>
    match j.distance with
    | .Near =>
      let d : Int32 := q.toInt32 - (j.offset.toInt32 + 1)
      if -128 ≤ d ∧ d < 128 then
        (Buf.emitBytes [d.toInt8.toUInt8] { s with position := j.offset.toNat }).map (·.2)
      else .error "assert failed"
    | .Far =>
      let d : Int32 := q.toInt32 - (j.offset.toInt32 + 4)
      (Buf.emitBytes (Buf.le32 d.toUInt32) { s with position := j.offset.toNat }).map (·.2)

def resolveLoop : List ForwardJump → Asm → Except String Asm
  | [], s => .ok s
  | j :: js, s =>
    match resolveOne j s with
    | .ok s' => resolveLoop js s'
    | .error e => .error e

theorem resolveBody_eq (j : ForwardJump) (s : Asm) :
    resolveBody j PUnit.unit s = (resolveOne j s).map (fun s' => (ForInStep.yield PUnit.unit, s')) := by
  unfold resolveBody resolveOne
  simp only [offset, Buf.offset, bind, StateT.bind, Except.bind, pure, StateT.pure, Except.pure]
  cases hl : s.labels[j.label.idx]? with
  | none => rfl
  | some o =>
    cases o with
    | none => rfl
    | some q =>
      simp only [expectSome, pure, StateT.pure, Except.pure, set_position, Buf.set_position, bind, StateT.bind, Except.bind]
      have e8 : ∀ (b : UInt8) (t : Asm), emit_u8 b t = Buf.emitBytes [b] t := fun _ _ => rfl
      have e32 : ∀ (v : UInt32) (t : Asm), emit_u32 v t = Buf.emitBytes (Buf.le32 v) t := fun _ _ => rfl
      cases hd : j.distance with
      | Near =>
        simp only [RCast.cast, rassert_eq, Bool.and_eq_true, decide_eq_true_eq, StateT.bind, bind, Except.bind, e8]
        by_cases hc : -128 ≤ q.toInt32 - (j.offset.toInt32 + 1) ∧ q.toInt32 - (j.offset.toInt32 + 1) < 128
        · simp only [hc, and_self, if_true]
          cases Buf.emitBytes _ _ <;> rfl
        · simp only [hc, if_false]
          rfl
      | Far =>
        simp only [RCast.cast, StateT.bind, bind, Except.bind, e32]
        cases Buf.emitBytes _ _ <;> rfl

theorem forIn_resolve (js : List ForwardJump) (s : Asm) :
    (forIn js PUnit.unit resolveBody : X64 PUnit) s = (resolveLoop js s).map (fun s' => (PUnit.unit, s')) := by
  induction js generalizing s with
  | nil => rfl
  | cons j js ih =>
    rw [List.forIn_cons]
    simp only [bind, StateT.bind, resolveBody_eq, resolveLoop]
    cases resolveOne j s with
    | error e => rfl
    | ok s' => exact ih s'

/-- the regenerated `resolve_jumps`, as the recursion `resolveLoop` over the pending list -/
theorem resolve_jumps_eq (s : Asm) :
    resolve_jumps.run s
      = (resolveLoop s.unresolved_jumps { s with unresolved_jumps := [] }).map
          (fun s' => ((), { s' with position := s.position })) := by
  rw [resolve_jumps_unfold]
  simp only [StateT.run, bind, StateT.bind, Buf.take_jumps, Except.bind, position_eq, forIn_resolve]
  cases resolveLoop s.unresolved_jumps _ with
  | error e => rfl
  | ok s' => rfl

/-! ## the buffer as a list of chunks -/

/-- a piece of the buffer: finished bytes, or a jump whose displacement field is still zero and recorded in
`unresolved_jumps` (`opc` = its opcode bytes, `far` = 4-byte field, else 1-byte field, `l` = its label) -/
inductive Chunk
  | fin (bs : Bytes)
  | pend (opc : Bytes) (far : Bool) (l : Nat)

def zeros (far : Bool) : Bytes := if far then [0, 0, 0, 0] else [0]
def distOf (far : Bool) : JumpDistance := if far then .Far else .Near

def Chunk.bytes : Chunk → Bytes
  | .fin bs => bs
  | .pend opc far _ => opc ++ zeros far

def flat : List Chunk → Bytes
  | [] => []
  | c :: cs => c.bytes ++ flat cs

/-- the `unresolved_jumps` entries of a chunk list that starts at buffer offset `b` -/
def pendingOf : Nat → List Chunk → List ForwardJump
  | _, [] => []
  | b, .fin bs :: cs => pendingOf (b + bs.length) cs
  | b, .pend opc far l :: cs =>
    ⟨UInt32.ofNat (b + opc.length), ⟨l⟩, distOf far⟩ :: pendingOf (b + (opc ++ zeros far).length) cs

/-- the displacement field `f` (1 byte, or 4 bytes little endian) reads back — under the reference decoder's `sx8` /
`sxN 32 ∘ le32u` — as `d` -/
def FieldOk (far : Bool) (f : Bytes) (d : Int) : Prop :=
  if far then ∃ b0 b1 b2 b3, f = [b0, b1, b2, b3] ∧ sxN 32 (le32u b0 b1 b2 b3) = d
  else ∃ b0, f = [b0] ∧ sx8 b0 = d

theorem FieldOk.length {far f d} (h : FieldOk far f d) : f.length = (zeros far).length := by
  unfold FieldOk at h
  cases far
  · obtain ⟨b0, rfl, _⟩ := h; rfl
  · obtain ⟨b0, b1, b2, b3, rfl, _⟩ := h; rfl

theorem zeros_ne_nil (far : Bool) : zeros far ≠ [] := by cases far <;> simp [zeros]

/-- one iteration of the loop on the jump of a pending chunk: the label must be bound, and exactly the field changes,
to the displacement from the end of the field to the label -/
theorem resolveOne_pend (pre opc post : Bytes) (far : Bool) (l : Nat) (s s1 : Asm)
    (hc : s.code = pre ++ (opc ++ zeros far) ++ post) (hlen : s.code.length < 2147483648)
    (hL : ∀ (l : Nat) (q : UInt32), s.labels[l]? = some (some q) → q.toNat < 2147483648)
    (hr : resolveOne ⟨UInt32.ofNat (pre.length + opc.length), ⟨l⟩, distOf far⟩ s = .ok s1) :
    ∃ q f, s.labels[l]? = some (some q) ∧
      FieldOk far f ((q.toNat : Int) - ((pre.length + (opc ++ f).length : Nat) : Int)) ∧
      s1 = { s with code := pre ++ (opc ++ f) ++ post, position := pre.length + (opc ++ f).length } := by
  have hlen' : pre.length + opc.length + (zeros far).length + post.length < 2147483648 := by
    rw [hc] at hlen; simp only [List.length_append] at hlen; omega
  have hoff : (UInt32.ofNat (pre.length + opc.length)).toNat = pre.length + opc.length := by
    rw [UInt32.toNat_ofNat']; simp only [Nat.reducePow]; omega
  unfold resolveOne at hr
  simp only [] at hr
  cases hl : s.labels[l]? with
  | none => simp only [hl] at hr; cases hr
  | some o =>
    cases o with
    | none => simp only [hl] at hr; cases hr
    | some q =>
      have hq := hL l q hl
      simp only [hl] at hr
      have hc' : s.code = (pre ++ opc) ++ (zeros far ++ post) := by rw [hc]; simp only [List.append_assoc]
      cases far with
      | true =>
        simp only [distOf, if_true] at hr
        have hz : (zeros true).length = 4 := rfl
        have h4 : (4 : Int32).toInt = 4 := by decide
        have hd := patch_distance q (UInt32.ofNat (pre.length + opc.length)) 4 (by decide) hq (by omega)
        rw [emitBytes_mid (pre ++ opc) (zeros true)
          (Buf.le32 (q.toInt32 - ((UInt32.ofNat (pre.length + opc.length)).toInt32 + 4)).toUInt32) post
          { s with position := (UInt32.ofNat (pre.length + opc.length)).toNat } hc' (by rw [List.length_append]; exact hoff) rfl
          (zeros_ne_nil _)] at hr
        simp only [Except.map, Except.ok.injEq] at hr
        refine ⟨q, Buf.le32 (q.toInt32 - ((UInt32.ofNat (pre.length + opc.length)).toInt32 + 4)).toUInt32, rfl, ?_, ?_⟩
        · unfold FieldOk
          simp only [if_true]
          refine ⟨_, _, _, _, rfl, ?_⟩
          rw [le32_roundtrip, hd, hoff]
          simp only [List.length_append, Buf.le32, List.length_cons, List.length_nil]
          omega
        · rw [← hr]
          simp only [List.append_assoc, List.length_append, Buf.le32, List.length_cons, List.length_nil, Nat.add_assoc]
      | false =>
        simp only [distOf, Bool.false_eq_true, if_false] at hr
        have hz : (zeros false).length = 1 := rfl
        have h1 : (1 : Int32).toInt = 1 := by decide
        have hd := patch_distance q (UInt32.ofNat (pre.length + opc.length)) 1 (by decide) hq (by omega)
        split at hr
        · next hrange =>
          rw [emitBytes_mid (pre ++ opc) (zeros false)
            [(q.toInt32 - ((UInt32.ofNat (pre.length + opc.length)).toInt32 + 1)).toInt8.toUInt8] post
            { s with position := (UInt32.ofNat (pre.length + opc.length)).toNat } hc' (by rw [List.length_append]; exact hoff) rfl
            (zeros_ne_nil _)] at hr
          simp only [Except.map, Except.ok.injEq] at hr
          refine ⟨q, [(q.toInt32 - ((UInt32.ofNat (pre.length + opc.length)).toInt32 + 1)).toInt8.toUInt8], rfl, ?_, ?_⟩
          · unfold FieldOk
            simp only [Bool.false_eq_true, if_false]
            refine ⟨_, rfl, ?_⟩
            rw [imm8_sign _ hrange.1 hrange.2, hd, hoff]
            simp only [List.length_append, List.length_cons, List.length_nil]
            omega
          · rw [← hr]
            simp only [List.append_assoc, List.length_append, List.length_cons, List.length_nil, Nat.add_assoc]
        · cases hr

/-- `segs` is the chunk list `cs` (starting at buffer offset `b`) after patching against the label table `L`:
finished chunks unchanged; a pending chunk keeps its opcode bytes and its field now holds the displacement from the
end of the instruction to the (bound) label -/
def Patched (L : List (Option UInt32)) : Nat → List Chunk → List Bytes → Prop
  | _, [], [] => True
  | b, .fin bs :: cs, seg :: segs => seg = bs ∧ Patched L (b + seg.length) cs segs
  | b, .pend opc far l :: cs, seg :: segs =>
    (∃ q f, L[l]? = some (some q) ∧ seg = opc ++ f ∧
      FieldOk far f ((q.toNat : Int) - ((b + seg.length : Nat) : Int))) ∧ Patched L (b + seg.length) cs segs
  | _, _, _ => False

/-- the whole loop on a buffer `pre ++ flat cs` whose pending list is that of `cs`: labels, jump list and flags are
untouched, the buffer becomes `pre ++` the patched chunks -/
theorem resolveLoop_chunks (cs : List Chunk) (pre : Bytes) (s s' : Asm)
    (hc : s.code = pre ++ flat cs) (hlen : s.code.length < 2147483648)
    (hL : ∀ (l : Nat) (q : UInt32), s.labels[l]? = some (some q) → q.toNat < 2147483648)
    (hr : resolveLoop (pendingOf pre.length cs) s = .ok s') :
    s'.labels = s.labels ∧ s'.unresolved_jumps = s.unresolved_jumps ∧ s'.has_avx2 = s.has_avx2 ∧
    ∃ segs, s'.code = pre ++ segs.flatten ∧ Patched s.labels pre.length cs segs := by
  induction cs generalizing pre s with
  | nil =>
    simp only [pendingOf, resolveLoop, Except.ok.injEq] at hr
    subst hr
    exact ⟨rfl, rfl, rfl, [], by simpa [flat] using hc, trivial⟩
  | cons c cs ih =>
    cases c with
    | fin bs =>
      simp only [pendingOf] at hr
      have hc2 : s.code = (pre ++ bs) ++ flat cs := by rw [hc]; simp only [flat, Chunk.bytes, List.append_assoc]
      rw [← List.length_append] at hr
      obtain ⟨h1, h2, h3, segs, h4, h5⟩ := ih (pre ++ bs) s hc2 hlen hL hr
      refine ⟨h1, h2, h3, bs :: segs, ?_, ?_⟩
      · rw [h4]; simp only [List.flatten_cons, List.append_assoc]
      · simp only [Patched, true_and]
        rw [← List.length_append]; exact h5
    | pend opc far l =>
      simp only [pendingOf, resolveLoop] at hr
      cases h1 : resolveOne ⟨UInt32.ofNat (pre.length + opc.length), ⟨l⟩, distOf far⟩ s with
      | error e => rw [h1] at hr; cases hr
      | ok s1 =>
        rw [h1] at hr
        simp only [] at hr
        have hc2 : s.code = pre ++ (opc ++ zeros far) ++ flat cs := by
          rw [hc]; simp only [flat, Chunk.bytes, List.append_assoc]
        obtain ⟨q, f, hq, hf, hs1⟩ := resolveOne_pend pre opc (flat cs) far l s s1 hc2 hlen hL h1
        have hfl := hf.length
        have e1 : s1.code = (pre ++ (opc ++ f)) ++ flat cs := by rw [hs1]
        have e2 : s1.labels = s.labels := by rw [hs1]
        have e3 : s1.code.length = s.code.length := by
          rw [e1, hc2]; simp only [List.length_append, hfl]
        have e4 : pre.length + (opc ++ zeros far).length = (pre ++ (opc ++ f)).length := by
          simp only [List.length_append, hfl]
        rw [e4] at hr
        obtain ⟨g1, g2, g3, segs, g4, g5⟩ := ih (pre ++ (opc ++ f)) s1 e1 (by rw [e3]; exact hlen) (by rw [e2]; exact hL) hr
        refine ⟨by rw [g1, e2], by rw [g2, hs1], by rw [g3, hs1], (opc ++ f) :: segs, ?_, ?_⟩
        · rw [g4]; simp only [List.flatten_cons, List.append_assoc]
        · simp only [Patched]
          rw [e2, List.length_append (as := pre)] at g5
          exact ⟨⟨q, f, hq, rfl, hf⟩, g5⟩
