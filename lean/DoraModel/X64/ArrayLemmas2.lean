import DoraModel.X64.Lemmas
/-! C07 — `Address::array` for bases 8–11: every index, scale and i32 displacement (pieces of `address_array_decodes`). -/
set_option linter.unusedSimpArgs false
set_option maxRecDepth 4000
namespace Dora.X64
open Dora.X64.Dec

theorem array_base8 (index : Fin 16) (hi : index.val ≠ 4 ∧ index.val ≠ 12) (scale : Fin 4) (disp : Int32) (tail : Dec.Bytes) :
    addrOperand (Address.array (Rn 8) (R index) (Sn scale.val) disp) tail
      = .ok (some (.mem (.mem (some 8) (some (index.val, 2 ^ scale.val)) disp.toInt), tail)) := by
  revert hi scale
  refine forall_fin16 (p := fun i => (i ≠ 4 ∧ i ≠ 12) → ∀ scale : Fin 4,
      addrOperand (Address.array (Rn 8) (Rn i) (Sn scale.val) disp) tail
        = .ok (some (.mem (.mem (some 8) (some (i, 2 ^ scale.val)) disp.toInt), tail)))
    ?_ ?_ ?_ ?_ ?_ ?_ ?_ ?_ ?_ ?_ ?_ ?_ ?_ ?_ ?_ ?_ index
  all_goals intro hi
  all_goals first
    | (exfalso; omega)
    | (refine forall_fin4 (p := fun s => addrOperand (Address.array (Rn _) (Rn _) (Sn s) disp) tail
          = .ok (some (.mem (.mem (some _) (some (_, 2 ^ s)) disp.toInt), tail))) ?_ ?_ ?_ ?_
       all_goals addr_classes Address.array disp)

theorem array_base9 (index : Fin 16) (hi : index.val ≠ 4 ∧ index.val ≠ 12) (scale : Fin 4) (disp : Int32) (tail : Dec.Bytes) :
    addrOperand (Address.array (Rn 9) (R index) (Sn scale.val) disp) tail
      = .ok (some (.mem (.mem (some 9) (some (index.val, 2 ^ scale.val)) disp.toInt), tail)) := by
  revert hi scale
  refine forall_fin16 (p := fun i => (i ≠ 4 ∧ i ≠ 12) → ∀ scale : Fin 4,
      addrOperand (Address.array (Rn 9) (Rn i) (Sn scale.val) disp) tail
        = .ok (some (.mem (.mem (some 9) (some (i, 2 ^ scale.val)) disp.toInt), tail)))
    ?_ ?_ ?_ ?_ ?_ ?_ ?_ ?_ ?_ ?_ ?_ ?_ ?_ ?_ ?_ ?_ index
  all_goals intro hi
  all_goals first
    | (exfalso; omega)
    | (refine forall_fin4 (p := fun s => addrOperand (Address.array (Rn _) (Rn _) (Sn s) disp) tail
          = .ok (some (.mem (.mem (some _) (some (_, 2 ^ s)) disp.toInt), tail))) ?_ ?_ ?_ ?_
       all_goals addr_classes Address.array disp)

theorem array_base10 (index : Fin 16) (hi : index.val ≠ 4 ∧ index.val ≠ 12) (scale : Fin 4) (disp : Int32) (tail : Dec.Bytes) :
    addrOperand (Address.array (Rn 10) (R index) (Sn scale.val) disp) tail
      = .ok (some (.mem (.mem (some 10) (some (index.val, 2 ^ scale.val)) disp.toInt), tail)) := by
  revert hi scale
  refine forall_fin16 (p := fun i => (i ≠ 4 ∧ i ≠ 12) → ∀ scale : Fin 4,
      addrOperand (Address.array (Rn 10) (Rn i) (Sn scale.val) disp) tail
        = .ok (some (.mem (.mem (some 10) (some (i, 2 ^ scale.val)) disp.toInt), tail)))
    ?_ ?_ ?_ ?_ ?_ ?_ ?_ ?_ ?_ ?_ ?_ ?_ ?_ ?_ ?_ ?_ index
  all_goals intro hi
  all_goals first
    | (exfalso; omega)
    | (refine forall_fin4 (p := fun s => addrOperand (Address.array (Rn _) (Rn _) (Sn s) disp) tail
          = .ok (some (.mem (.mem (some _) (some (_, 2 ^ s)) disp.toInt), tail))) ?_ ?_ ?_ ?_
       all_goals addr_classes Address.array disp)

theorem array_base11 (index : Fin 16) (hi : index.val ≠ 4 ∧ index.val ≠ 12) (scale : Fin 4) (disp : Int32) (tail : Dec.Bytes) :
    addrOperand (Address.array (Rn 11) (R index) (Sn scale.val) disp) tail
      = .ok (some (.mem (.mem (some 11) (some (index.val, 2 ^ scale.val)) disp.toInt), tail)) := by
  revert hi scale
  refine forall_fin16 (p := fun i => (i ≠ 4 ∧ i ≠ 12) → ∀ scale : Fin 4,
      addrOperand (Address.array (Rn 11) (Rn i) (Sn scale.val) disp) tail
        = .ok (some (.mem (.mem (some 11) (some (i, 2 ^ scale.val)) disp.toInt), tail)))
    ?_ ?_ ?_ ?_ ?_ ?_ ?_ ?_ ?_ ?_ ?_ ?_ ?_ ?_ ?_ ?_ index
  all_goals intro hi
  all_goals first
    | (exfalso; omega)
    | (refine forall_fin4 (p := fun s => addrOperand (Address.array (Rn _) (Rn _) (Sn s) disp) tail
          = .ok (some (.mem (.mem (some _) (some (_, 2 ^ s)) disp.toInt), tail))) ?_ ?_ ?_ ?_
       all_goals addr_classes Address.array disp)

end Dora.X64
