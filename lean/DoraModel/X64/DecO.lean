import DoraModel.X64.Dec
/-!
# C07 — the reference decoder with the ModRM decoding passed in as a value ("oracle" copy)

GENERATED TEXTUALLY from X64/Dec.lean (same function bodies; every `decodeModRM x.x x.b bs` is replaced by the
parameter `mr`). Used only inside proofs: for a byte string whose head is concrete, the kernel checks
`decode bs = bodyOf bs (decodeModRM rx rb rest)`, after which the `address_*_decodes` interface lemmas rewrite the
ModRM part. Nothing here is trusted: every use is an equation with `decode` checked by the kernel.
-/
set_option linter.constructorNameAsVariable false
set_option linter.unusedVariables false
namespace Dora.X64.Dec

/-- `op E, G` / `op G, E` with both operands of width `w` -/
def rmrO (p : Pfx) (x : Rex) (m : Mnem) (w : W) (gFirst : Bool) (mr : Option (Nat × RM × Bytes)) : Option (Instr × Bytes) :=
  match mr with
  | none => none
  | some (reg, rm, rest) =>
    let e := rmGpr w x.present rm
    let g := gpr w x.present (ext x.r reg)
    finish p { mnem := m, sz := some w, ops := if gFirst then [g, e] else [e, g] } (!gFirst && rm.isMem) rest



def op1O (p : Pfx) (x : Rex) (opc : Nat) (bs : Bytes) (mr : Option (Nat × RM × Bytes)) : Option (Instr × Bytes) :=
  let w := osz p x
  if !noRep p then none
  else if opc < 0x40 then
    let m := aluOp (opc / 8)
    let f := opc % 8
    if f = 0 then rmrO p x m .b false mr
    else if f = 1 then rmrO p x m w false mr
    else if f = 2 then rmrO p x m .b true mr
    else if f = 3 then rmrO p x m w true mr
    else if f = 4 then
      match rdImm8 bs with
      | some (v, rest) => finish p { mnem := m, sz := some .b, ops := [.reg .b 0, .imm v] } false rest
      | none => none
    else if f = 5 then
      match rdImmZ w bs with
      | some (v, rest) => finish p { mnem := m, sz := some w, ops := [.reg w 0, .imm v] } false rest
      | none => none
    else none
  else if 0x50 ≤ opc ∧ opc < 0x58 then
    if p.opsz then none else finish p { mnem := .push, sz := some .q, ops := [.reg .q (ext x.b (opc - 0x50))] } false bs
  else if 0x58 ≤ opc ∧ opc < 0x60 then
    if p.opsz then none else finish p { mnem := .pop, sz := some .q, ops := [.reg .q (ext x.b (opc - 0x58))] } false bs
  else if opc = 0x63 then
    if !x.w then none else
    match mr with
    | some (reg, rm, rest) =>
      finish p { mnem := .movsxd, sz := some .q, ops := [.reg .q (ext x.r reg), rmGpr .l x.present rm] } false rest
    | none => none
  else if 0x70 ≤ opc ∧ opc < 0x80 then
    match rdImm8 bs with
    | some (d, rest) => finish p { mnem := .jcc, cc := some (opc - 0x70), ops := [.rel d] } false rest
    | none => none
  else if opc = 0x80 ∨ opc = 0x81 ∨ opc = 0x83 then
    match mr with
    | some (reg, rm, rest) =>
      if opc = 0x80 then rmi p x (aluOp reg) .b rm rdImm8 rest
      else if opc = 0x81 then rmi p x (aluOp reg) w rm (rdImmZ w) rest
      else rmi p x (aluOp reg) w rm rdImm8 rest
    | none => none
  else if opc = 0x84 then rmrO p x .test .b false mr
  else if opc = 0x85 then rmrO p x .test w false mr
  else if opc = 0x86 then rmrO p x .xchg .b false mr
  else if opc = 0x87 then rmrO p x .xchg w false mr
  else if opc = 0x88 then rmrO p x .mov .b false mr
  else if opc = 0x89 then rmrO p x .mov w false mr
  else if opc = 0x8A then rmrO p x .mov .b true mr
  else if opc = 0x8B then rmrO p x .mov w true mr
  else if opc = 0x8D then
    match mr with
    | some (reg, .mem o, rest) => finish p { mnem := .lea, sz := some w, ops := [.reg w (ext x.r reg), o] } false rest
    | _ => none
  else if opc = 0x90 then
    if x.b ∨ p.opsz then none else finish p { mnem := .nop } false bs
  else if opc = 0x99 then
    if p.opsz then none else finish p { mnem := if x.w then .cqo else .cdq } false bs
  else if opc = 0xA8 then
    match rdImm8 bs with
    | some (v, rest) => finish p { mnem := .test, sz := some .b, ops := [.reg .b 0, .imm v] } false rest
    | none => none
  else if opc = 0xA9 then
    match rdImmZ w bs with
    | some (v, rest) => finish p { mnem := .test, sz := some w, ops := [.reg w 0, .imm v] } false rest
    | none => none
  else if 0xB8 ≤ opc ∧ opc < 0xC0 then
    if x.w then
      match rdImm64 bs with
      | some (v, rest) => finish p { mnem := .movabs, sz := some .q, ops := [.reg .q (ext x.b (opc - 0xB8)), .imm v] } false rest
      | none => none
    else
      match rdImmZ w bs with
      | some (v, rest) => finish p { mnem := .mov, sz := some w, ops := [.reg w (ext x.b (opc - 0xB8)), .imm v] } false rest
      | none => none
  else if opc = 0xC1 then
    match mr with
    | some (reg, rm, rest) => rmi p x (shiftOp reg) w rm rdImm8u rest
    | none => none
  else if opc = 0xD3 then
    match mr with
    | some (reg, rm, rest) =>
      finish p { mnem := shiftOp reg, sz := some w, ops := [rmGpr w x.present rm, .reg .b 1] } false rest
    | none => none
  else if opc = 0xC3 then finish p { mnem := .ret } false bs
  else if opc = 0xC6 ∨ opc = 0xC7 then
    match mr with
    | some (reg, rm, rest) =>
      if reg ≠ 0 then none
      else if opc = 0xC6 then rmi p x .mov .b rm rdImm8 rest
      else rmi p x .mov w rm (rdImmZ w) rest
    | none => none
  else if opc = 0xCC then finish p { mnem := .int3 } false bs
  else if opc = 0xE8 then
    match rdImm32 bs with
    | some (d, rest) => finish p { mnem := .call, ops := [.rel d] } false rest
    | none => none
  else if opc = 0xE9 then
    match rdImm32 bs with
    | some (d, rest) => finish p { mnem := .jmp, ops := [.rel d] } false rest
    | none => none
  else if opc = 0xEB then
    match rdImm8 bs with
    | some (d, rest) => finish p { mnem := .jmp, ops := [.rel d] } false rest
    | none => none
  else if opc = 0xF6 ∨ opc = 0xF7 then
    let w' := if opc = 0xF6 then W.b else w
    match mr with
    | some (reg, rm, rest) =>
      if reg = 0 then rmi p x .test w' rm (rdImmZ w') rest
      else if reg = 2 then rm1 p x .not w' rm rest
      else if reg = 3 then rm1 p x .neg w' rm rest
      else if reg = 4 then rm1 p x .mul w' rm rest
      else if reg = 5 then rm1 p x .imul w' rm rest
      else if reg = 6 then rm1 p x .div w' rm rest
      else if reg = 7 then rm1 p x .idiv w' rm rest
      else none
    | none => none
  else if opc = 0xFF then
    if p.opsz then none else
    match mr with
    | some (reg, rm, rest) =>
      if reg = 2 then finish p { mnem := .call, sz := some .q, ops := [rmGpr .q x.present rm] } false rest
      else if reg = 4 then finish p { mnem := .jmp, sz := some .q, ops := [rmGpr .q x.present rm] } false rest
      else none
    | none => none
  else none



/-- `op xmm(G), xmm/m(E)` (or the reverse) -/
def sseRRO (vex : Bool) (x : Rex) (m : Mnem) (eFirst : Bool) (mr : Option (Nat × RM × Bytes)) : Option (Instr × Bytes) :=
  match mr with
  | some (reg, rm, rest) =>
    let g := Opnd.xmm (ext x.r reg)
    let e := rmXmm rm
    some ({ mnem := m, ops := if eFirst then [e, g] else [g, e], vex := vex }, rest)
  | none => none



def op0FO (p : Pfx) (x : Rex) (opc : Nat) (bs : Bytes) (mr : Option (Nat × RM × Bytes)) : Option (Instr × Bytes) :=
  let w := osz p x
  let mp := mandatory p
  let sse := !p.lock && !x.w
  if opc = 0x10 ∨ opc = 0x11 then
    if !sse then none else sseRRO false x (sseFam mp .movups .movupd .movsd .movss) (opc = 0x11) mr
  else if opc = 0x28 ∨ opc = 0x29 then
    if !sse ∨ mp > 1 then none else sseRRO false x (if mp = 0 then .movaps else .movapd) (opc = 0x29) mr
  else if opc = 0x2A then
    if p.lock ∨ mp < 2 ∨ p.opsz then none else
    match mr with
    | some (reg, rm, rest) =>
      let gw := if x.w then W.q else W.l
      some ({ mnem := if mp = 2 then .cvtsi2sd else .cvtsi2ss, sz := some gw,
              ops := [.xmm (ext x.r reg), rmGpr gw x.present rm] }, rest)
    | none => none
  else if opc = 0x2C then
    if p.lock ∨ mp < 2 ∨ p.opsz then none else
    match mr with
    | some (reg, rm, rest) =>
      let gw := if x.w then W.q else W.l
      some ({ mnem := if mp = 2 then .cvttsd2si else .cvttss2si, sz := some gw,
              ops := [.reg gw (ext x.r reg), rmXmm rm] }, rest)
    | none => none
  else if opc = 0x2E then
    if !sse ∨ mp > 1 then none else sseRRO false x (if mp = 0 then .ucomiss else .ucomisd) false mr
  else if opc = 0x51 then
    if !sse then none else sseRRO false x (sseFam mp .sqrtps .sqrtpd .sqrtsd .sqrtss) false mr
  else if opc = 0x54 then
    if !sse ∨ mp > 1 then none else sseRRO false x (if mp = 0 then .andps else .andpd) false mr
  else if opc = 0x57 then
    if !sse ∨ mp > 1 then none else sseRRO false x (if mp = 0 then .xorps else .xorpd) false mr
  else if opc = 0x58 then
    if !sse then none else sseRRO false x (sseFam mp .addps .addpd .addsd .addss) false mr
  else if opc = 0x59 then
    if !sse then none else sseRRO false x (sseFam mp .mulps .mulpd .mulsd .mulss) false mr
  else if opc = 0x5A then
    if !sse ∨ mp < 2 then none else sseRRO false x (if mp = 2 then .cvtsd2ss else .cvtss2sd) false mr
  else if opc = 0x5C then
    if !sse then none else sseRRO false x (sseFam mp .subps .subpd .subsd .subss) false mr
  else if opc = 0x5E then
    if !sse then none else sseRRO false x (sseFam mp .divps .divpd .divsd .divss) false mr
  else if opc = 0x6E ∨ opc = 0x7E then
    if p.lock ∨ mp ≠ 1 then none else
    match mr with
    | some (reg, rm, rest) =>
      let gw := if x.w then W.q else W.l
      let e := rmGpr gw x.present rm
      let g := Opnd.xmm (ext x.r reg)
      some ({ mnem := if x.w then .movq else .movd, sz := some gw, ops := if opc = 0x6E then [g, e] else [e, g] }, rest)
    | none => none
  else if opc = 0xEF then
    if !sse ∨ mp ≠ 1 then none else sseRRO false x .pxor false mr
  else if !(noRep p) ∧ ¬ (opc = 0xB8 ∨ opc = 0xBC ∨ opc = 0xBD) then none
  else if 0x40 ≤ opc ∧ opc < 0x50 then
    match mr with
    | some (reg, rm, rest) =>
      finish p { mnem := .cmovcc, cc := some (opc - 0x40), sz := some w,
                 ops := [.reg w (ext x.r reg), rmGpr w x.present rm] } false rest
    | none => none
  else if 0x80 ≤ opc ∧ opc < 0x90 then
    match rdImm32 bs with
    | some (d, rest) => finish p { mnem := .jcc, cc := some (opc - 0x80), ops := [.rel d] } false rest
    | none => none
  else if 0x90 ≤ opc ∧ opc < 0xA0 then
    match mr with
    | some (_, rm, rest) =>
      finish p { mnem := .setcc, cc := some (opc - 0x90), sz := some .b, ops := [rmGpr .b x.present rm] } false rest
    | none => none
  else if opc = 0xAE then
    match bs with
    | m :: rest => if m.toNat / 8 = 0x1E ∧ !x.present ∧ !p.opsz then finish p { mnem := .mfence } false rest else none
    | [] => none
  else if opc = 0xAF then rmrO p x .imul w true mr
  else if opc = 0xB0 then rmrO p x .cmpxchg .b false mr
  else if opc = 0xB1 then rmrO p x .cmpxchg w false mr
  else if opc = 0xC0 then rmrO p x .xadd .b false mr
  else if opc = 0xC1 then rmrO p x .xadd w false mr
  else if opc = 0xB6 ∨ opc = 0xB7 ∨ opc = 0xBE ∨ opc = 0xBF then
    match mr with
    | some (reg, rm, rest) =>
      let sw := if opc = 0xB6 ∨ opc = 0xBE then W.b else W.w
      finish p { mnem := if opc < 0xB8 then .movzx else .movsx, sz := some w,
                 ops := [.reg w (ext x.r reg), rmGpr sw x.present rm] } false rest
    | none => none
  else if opc = 0xB8 then
    if p.rep ≠ 3 then none else rmrO p x .popcnt w true mr
  else if opc = 0xBC then
    if p.rep = 2 then none else rmrO p x (if p.rep = 3 then .tzcnt else .bsf) w true mr
  else if opc = 0xBD then
    if p.rep = 2 then none else rmrO p x (if p.rep = 3 then .lzcnt else .bsr) w true mr
  else none



def op0F3AO (p : Pfx) (x : Rex) (opc : Nat) (bs : Bytes) (mr : Option (Nat × RM × Bytes)) : Option (Instr × Bytes) :=
  if (opc = 0x0A ∨ opc = 0x0B) ∧ mandatory p = 1 ∧ !p.lock ∧ !x.w then
    match sseRRO false x (if opc = 0x0A then .roundss else .roundsd) false mr with
    | some (i, rest) =>
      match rdImm8u rest with
      | some (v, rest) => some ({ i with ops := i.ops ++ [.imm v] }, rest)
      | none => none
    | none => none
  else none



/-- VEX-encoded subset. `map` 1 = 0F, 3 = 0F3A; `pp` 0 none, 1 = 66, 2 = F3, 3 = F2; `v` = the register in vvvv
(already un-inverted); L must be 0 (128-bit / scalar). -/
def opVexO (x : Rex) (map pp v : Nat) (l : Bool) (opc : Nat) (bs : Bytes) (mr : Option (Nat × RM × Bytes)) : Option (Instr × Bytes) :=
  if l then none else
  match mr with
  | none => none
  | some (reg, rm, rest) =>
    let g := Opnd.xmm (ext x.r reg)
    let e := rmXmm rm
    let vv := Opnd.xmm v
    let three (m : Mnem) : Option (Instr × Bytes) := some ({ mnem := m, ops := [g, vv, e], vex := true }, rest)
    let two (m : Mnem) (eFirst : Bool) : Option (Instr × Bytes) :=
      if v ≠ 0 then none else some ({ mnem := m, ops := if eFirst then [e, g] else [g, e], vex := true }, rest)
    -- pp as the legacy mandatory-prefix number: 0 none, 1 = 66, 2 = F2, 3 = F3
    let mp := if pp = 2 then 3 else if pp = 3 then 2 else pp
    if map = 1 then
      if opc = 0x10 ∨ opc = 0x11 then
        if x.w then none
        else if mp ≥ 2 ∧ !rm.isMem then
          -- vmovss/vmovsd xmm1, xmm2, xmm3 (both opcodes; 0x11 swaps the roles of reg and r/m)
          some ({ mnem := if mp = 2 then .movsd else .movss, ops := if opc = 0x10 then [g, vv, e] else [e, vv, g],
                  vex := true }, rest)
        else two (sseFam mp .movups .movupd .movsd .movss) (opc = 0x11)
      else if opc = 0x28 ∨ opc = 0x29 then
        if x.w ∨ mp > 1 then none else two (if mp = 0 then .movaps else .movapd) (opc = 0x29)
      else if opc = 0x2A then
        if mp < 2 then none else
        let gw := if x.w then W.q else W.l
        some ({ mnem := if mp = 2 then .cvtsi2sd else .cvtsi2ss, sz := some gw,
                ops := [g, vv, rmGpr gw true rm], vex := true }, rest)
      else if opc = 0x2C then
        if mp < 2 ∨ v ≠ 0 then none else
        let gw := if x.w then W.q else W.l
        some ({ mnem := if mp = 2 then .cvttsd2si else .cvttss2si, sz := some gw,
                ops := [.reg gw (ext x.r reg), e], vex := true }, rest)
      else if opc = 0x2E then
        if x.w ∨ mp > 1 then none else two (if mp = 0 then .ucomiss else .ucomisd) false
      else if opc = 0x51 then if x.w then none else
        (if mp ≥ 2 then three (if mp = 2 then .sqrtsd else .sqrtss) else two (if mp = 0 then .sqrtps else .sqrtpd) false)
      else if opc = 0x54 then if x.w ∨ mp > 1 then none else three (if mp = 0 then .andps else .andpd)
      else if opc = 0x57 then if x.w ∨ mp > 1 then none else three (if mp = 0 then .xorps else .xorpd)
      else if opc = 0x58 then if x.w then none else three (sseFam mp .addps .addpd .addsd .addss)
      else if opc = 0x59 then if x.w then none else three (sseFam mp .mulps .mulpd .mulsd .mulss)
      else if opc = 0x5A then if x.w ∨ mp < 2 then none else three (if mp = 2 then .cvtsd2ss else .cvtss2sd)
      else if opc = 0x5C then if x.w then none else three (sseFam mp .subps .subpd .subsd .subss)
      else if opc = 0x5E then if x.w then none else three (sseFam mp .divps .divpd .divsd .divss)
      else if opc = 0x6E ∨ opc = 0x7E then
        if mp ≠ 1 ∨ v ≠ 0 then none else
        let gw := if x.w then W.q else W.l
        let e' := rmGpr gw true rm
        some ({ mnem := if x.w then .movq else .movd, sz := some gw,
                ops := if opc = 0x6E then [g, e'] else [e', g], vex := true }, rest)
      else none
    else if map = 3 then
      if (opc = 0x0A ∨ opc = 0x0B) ∧ mp = 1 ∧ !x.w then
        match rdImm8u rest with
        | some (i, rest) =>
          some ({ mnem := if opc = 0x0A then .roundss else .roundsd, ops := [g, vv, e, .imm i], vex := true }, rest)
        | none => none
      else none
    else none



def bodyOf (bs : Bytes) (mr : Option (Nat × RM × Bytes)) : Option (Instr × Bytes) :=
  match prefixes 4 {} bs with
  | none => none
  | some (p, bs) =>
    match bs with
    | [] => none
    | b :: rest =>
      if b.toNat = 0xC5 then
        -- two-byte VEX: no legacy prefix / REX may precede it
        if p ≠ {} then none else
        match rest with
        | v1 :: opc :: rest =>
          let n := v1.toNat
          opVexO { present := true, r := n / 128 = 0 } 1 (n % 4) (15 - n / 8 % 16) (n / 4 % 2 = 1) opc.toNat rest mr
        | _ => none
      else if b.toNat = 0xC4 then
        if p ≠ {} then none else
        match rest with
        | v1 :: v2 :: opc :: rest =>
          let n := v1.toNat
          let k := v2.toNat
          opVexO { present := true, r := n / 128 = 0, x := n / 64 % 2 = 0, b := n / 32 % 2 = 0, w := k / 128 = 1 }
            (n % 32) (k % 4) (15 - k / 8 % 16) (k / 4 % 2 = 1) opc.toNat rest mr
        | _ => none
      else
        -- optional REX, then the opcode
        let (x, bs) := if 0x40 ≤ b.toNat ∧ b.toNat < 0x50 then (Rex.ofByte b.toNat, rest) else (({} : Rex), b :: rest)
        match bs with
        | [] => none
        | o :: rest =>
          if o.toNat = 0x0F then
            match rest with
            | [] => none
            | o2 :: rest =>
              if o2.toNat = 0x3A then
                match rest with
                | o3 :: rest => op0F3AO p x o3.toNat rest mr
                | [] => none
              else if o2.toNat = 0x38 then none
              else op0FO p x o2.toNat rest mr
          else op1O p x o.toNat rest mr


end Dora.X64.Dec
